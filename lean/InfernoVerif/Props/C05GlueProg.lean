import InfernoVerif.Gen.ConnProg
import InfernoVerif.Props.C05
import InfernoVerif.Props.C06
/-!
# Glue: the connection models ARE the method bodies of the connection classes in /repo's source

`Gen/ConnProg.lean` is regenerated on every run by `harness/progtx_conn.py` from the *whole bodies* of
`LinearDense` / `LinearDirect` / `LinearLateral` / `Conv2D` `.forward`, `.selector`, `.like_synaptic`, `.like_input`,
the receptive reshapes, the masked `weight` / `delay` setters of `LinearLateral`, the getters / setters / constructors of
the parameter mixins and `Connection.biased` / `delayedby` / `batchsz` / `synapse` / `syncurrent` / `synspike` — one copy per
receiver class (Python dispatches on the class of `self`).  The theorems below state, method by method, that the
regenerated program equals the hand-written function that `Props/C05.lean` (`Model/Conn.lean`: the documented linear
map of each connection, the lateral mask invariant) and `Props/C06.lean` (`Model/Delay.lean`: a delay is a pure
per-synapse time shift) are about.  So a change to one of these bodies in /repo changes a Lean definition under a
proof obligation.

## What is tied to what

* `gen_dense_forward_undelayed`, `gen_direct_forward_undelayed`, `gen_lateral_forward_undelayed`,
  `gen_conv_forward_undelayed` — the undelayed path of `forward` on a whole batch is `Conn.denseFwd` / `directFwd` /
  `Lateral.fwd` / `convFwd` (any element type with `+ * 0`), followed by `view(-1, *outshape)` for the linear
  classes.  `gen_conv_like_synaptic`: `Conv2D.like_synaptic` is `Conn.unfold` per sample.
* `gen_dense_forward`, `gen_direct_forward`, `gen_lateral_forward`, `gen_conv_forward` — BOTH branches of `forward`
  (delayed einsum over `self.syncurrent` / undelayed), chosen by the TRUTHINESS of `delayedby`, are
  `Delay.denseForward` / `directForward` / `denseForward` / `convForward` for one batch row.
* `gen_selector_dense` / `_direct` / `_lateral` / `_conv` (`selector` is `Delay.selectorDense` / `selectorDirect` /
  `selectorConv`, repeated `batchsz` times; the `_none` variants: all-zero selector without a `delay_` parameter),
  `gen_syncurrent_dense` / `_direct` / `_lateral` / `_conv`, `gen_synspike_dense` / `_direct` / `_lateral`
  (`Connection.syncurrent` / `synspike` are `Delay.syncurrent` / `synspike`; `Conv2D`'s `synspike` is regenerated but
  not tied — `SynIsConv` says nothing about spikes).
* `gen_lateral_set_weight`, `gen_lateral_set_delay`, `gen_lateral_set_bias` — the property setters of
  `LinearLateral` are `Conn.Lateral.step (.setW v)` / `(.setD v)` / `(.setB v)`: the mask is re-applied on EVERY weight
  and delay assignment (the delay mask does not depend on `delayedby`; without a `delay_` attribute the assignment is a
  no-op); `gen_lateral_init` — the `mask` buffer, the masked initial weight / delay of `LinearLateral.__init__` and the
  mixin constructor chain produce `Conn.Lateral.init`.
* `gen_conv_like_input` (`fold(data) / fold(ones)` with `Conn.fold`), `gen_conv_presyn_receptive`,
  `gen_conv_postsyn_receptive` (`Conn.presynConv`, `Conn.postsynConv`).

## What the abstraction / hypotheses contain (the models do not have it)

* The models have no synapse object.  The programs reach the synapse through the interface `Y : SynI`
  (`Gen/ConnPrelude.lean`).  The undelayed (C05) theorems assume only what `synapse(*inputs)` returned (`hfw`); the
  C06 theorems assume `SynIs` / `SynIsConv`: seen through the interface, the stepped synapse IS the element list `sts`
  of `Model/Delay.lean` for ONE batch row (`batchsz = 1`, `delay = cfg.delay`, `current_at` = `currentAtAll`, …).
* `Model/Delay.lean` computes with an `Ops` record, `Model/Conn.lean` and the programs with type-class arithmetic; the
  two inner products associate differently (`dotK` folds from the left starting at `0`, `Conn.dot` from the right), so
  the C06 theorems are stated for a commutative semiring whose operations the record agrees with (`OpsAgree`; `ℝ` with
  `realOps` is `opsAgree_real`).  They say nothing about floating-point rounding.
* Shapes: the weight / bias / delay have the shapes the constructors give them, inputs the shape the synapse checks
  (`Shape2` … hypotheses), sizes are positive.  `outheight`, `outwidth` of a `Conv2D` are `Geom.OH`, `Geom.OW`
  (`Props/C05Glue.lean :: gen_outsize` ties that formula to the constructor).
* `Model/Conn.lean` flattens nothing: `like_synaptic` of the linear classes (`"b ... -> b (...)"`) is applied to the
  inputs handed to the synapse; the result of `forward` is the model's batch of rows seen through
  `view(-1, *outshape)` (`view_batched`).  `Model/Delay.lean`'s `convForward` returns `F × L`; the program reshapes to
  `F × OH × OW` (`unflat`) and adds the bias afterwards.
* An exception of a program does not carry the state; `Outcome.valueError ↦ ValueError`, `Outcome.noSlot ↦ IndexError`.
-/
set_option linter.unusedSimpArgs false
set_option linter.unusedVariables false
set_option linter.unusedSectionVars false
set_option linter.unusedTactic false
set_option linter.unreachableTactic false
set_option linter.overlappingInstances false
namespace InfernoVerif.Gen.ConnProg
open InfernoVerif.Conn InfernoVerif.Gen.ConnPrelude
open InfernoVerif.Select InfernoVerif.Synapse
open InfernoVerif.Delay hiding truthy addBias
variable {σ α β γ δ : Type}

/-! ## generic helpers -/

theorem bind_pure' (x : Except Err β) : (do let a ← x; pure a) = x := by cases x <;> rfl

/-- the arithmetic record of `Model/Delay.lean` agrees with the semiring the programs compute in -/
structure OpsAgree [CommSemiring α] (K : Ops α) : Prop where
  add : ∀ a b, K.add a b = a + b
  mul : ∀ a b, K.mul a b = a * b
  zero : K.ofInt 0 = 0

/-- Python truthiness of a float, as `Delay.truthy` computes it -/
def nzOf (K : Ops α) (d : α) : Bool := K.lt d (K.ofInt 0) || K.lt (K.ofInt 0) d

theorem truthy_nzOf (K : Ops α) (o : Option α) : ConnPrelude.truthy (nzOf K) o = Delay.truthy K o := by
  cases o <;> rfl

/-- results of `Model/Select.lean` as exceptions -/
def ofOutcome : Outcome β → Except Err β
  | .ok v => .ok v
  | .valueError => .error .ValueError
  | .noSlot => .error .IndexError

/-- the one-batch-row views of `Model/Delay.lean` as the batched views of the programs -/
def liftView : Outcome (View β) → Except Err (SView (List (List β)) (List (List (List β))))
  | .ok (.delayed v) => .ok (.delayed [v])
  | .ok (.present v) => .ok (.present [v])
  | .valueError => .error .ValueError
  | .noSlot => .error .IndexError

theorem seqO_ok_iff (l : List (Outcome β)) (r : List β) : seqO l = .ok r ↔ l = r.map .ok := by
  induction l generalizing r with
  | nil => cases r <;> simp [seqO]
  | cons a l ih =>
    cases a with
    | ok v =>
      cases h : seqO l with
      | ok vs =>
        have := (ih vs).mp h
        cases r with
        | nil => simp [seqO, h]
        | cons x xs =>
          simp only [seqO, h, List.map_cons, List.cons.injEq, Outcome.ok.injEq]
          constructor
          · rintro ⟨rfl, rfl⟩; exact ⟨rfl, this⟩
          · rintro ⟨rfl, h2⟩
            refine ⟨rfl, ?_⟩
            have h3 := (ih xs).mpr h2
            rw [h] at h3; exact Outcome.ok.inj h3
      | valueError =>
        cases r with
        | nil => simp [seqO, h]
        | cons x xs =>
          simp only [seqO, h, List.map_cons, List.cons.injEq]
          constructor
          · intro h0; cases h0
          · rintro ⟨_, h2⟩
            have h3 := (ih xs).mpr h2
            rw [h] at h3; cases h3
      | noSlot =>
        cases r with
        | nil => simp [seqO, h]
        | cons x xs =>
          simp only [seqO, h, List.map_cons, List.cons.injEq]
          constructor
          · intro h0; cases h0
          · rintro ⟨_, h2⟩
            have h3 := (ih xs).mpr h2
            rw [h] at h3; cases h3
    | valueError => cases r <;> simp [seqO]
    | noSlot => cases r <;> simp [seqO]

/-- `current_at` returns a tensor shaped like the selector -/
theorem currentAtAll_shape (S : SOps α) (cfg : Cfg α) (sts : List (St α)) (sel r : List (List α)) (M N : Nat)
    (h : currentAtAll S cfg sts sel = .ok r) (hsts : M ≤ sts.length) (hsel : Shape2 sel M N) : Shape2 r M N := by
  unfold currentAtAll at h
  rw [seqO_ok_iff] at h
  have hlen : r.length = M := by
    have := congrArg List.length h
    simp at this
    have := hsel.1
    omega
  refine ⟨hlen, ?_⟩
  intro row hrow
  obtain ⟨i, hi, rfl⟩ := List.getElem_of_mem hrow
  have h1 : i < sts.length := by omega
  have h2 : i < sel.length := by rw [hsel.1]; omega
  have := congrArg (fun l => l[i]?) h
  simp only [List.getElem?_map, List.getElem?_zipWith, List.getElem?_eq_getElem h1, List.getElem?_eq_getElem h2,
    List.getElem?_eq_getElem hi, Option.map_some, Option.some.injEq, Option.bind_some] at this
  rw [seqO_ok_iff] at this
  have := congrArg List.length this
  simp at this
  rw [← this]
  exact hsel.2 _ (List.getElem_mem h2)

theorem dot_eq_dotK [CommSemiring α] (K : Ops α) (h : OpsAgree K) (a b : List α) : dot a b = dotK K a b := by
  have hm : K.mul = (· * ·) := funext fun x => funext fun y => h.mul x y
  have ha : K.add = (· + ·) := funext fun x => funext fun y => h.add x y
  unfold dotK
  rw [hm, ha, h.zero]
  suffices ∀ acc : α, (List.zipWith (· * ·) a b).foldl (· + ·) acc = acc + dot a b by
    rw [this 0, zero_add]
  induction a generalizing b with
  | nil => intro acc; simp [dot]
  | cons x xs ih =>
    intro acc
    cases b with
    | nil => simp [dot]
    | cons w ws => simp only [List.zipWith_cons_cons, List.foldl_cons, dot, ih ws, add_assoc]

theorem addBias_agree [CommSemiring α] (K : Ops α) (h : OpsAgree K) (b : Option (List α)) (o : Nat) (v : α) :
    Delay.addBias K b o v = v + biasAt b o := by
  cases b with
  | none => simp [Delay.addBias, biasAt]
  | some bv => simp [Delay.addBias, biasAt, vget, h.add, h.zero]

theorem mapIdx_eq_range_map (W : List γ) (f : Nat → γ → δ) (d : γ) :
    W.mapIdx f = (List.range W.length).map fun o => f o (W.getD o d) := by
  apply List.ext_getElem (by simp)
  intro i h1 h2
  simp at h1
  simp [List.getD_eq_getElem?_getD, h1]

theorem zipIdx_map_eq_range_map (l : List γ) (f : γ → Nat → δ) (d : γ) :
    l.zipIdx.map (fun vo => f vo.1 vo.2) = (List.range l.length).map fun i => f (l.getD i d) i := by
  apply List.ext_getElem (by simp)
  intro i h1 h2
  simp at h1
  simp [List.getD_eq_getElem?_getD, h1]

theorem cols_of_shape {m : List (List β)} {r c : Nat} (h : Shape2 m r c) (hr : 0 < r) : cols m = c := by
  obtain ⟨h1, h2⟩ := h
  cases m with
  | nil => simp at h1; omega
  | cons x xs => exact h2 x (List.mem_cons_self)

theorem expand3_one (x : β) (b : Nat) : expand3 [x] b = .ok (List.replicate b x) := rfl

theorem stretch_self (n : Nat) (l : List β) (h : l.length = n) : stretch n l = l := by
  unfold stretch
  split
  · simp at h; subst h; rfl
  · rfl

/-! ## the vocabulary on well-shaped arguments -/

theorem F_linear_ok [Add α] [Mul α] [Zero α] (N M : Nat) (W : Mat α) (hW : Shape2 W N M) (b : Option (Vec α))
    (hb : ∀ bv, b = some bv → bv.length = N) (x : Mat α) (hx : ∀ r ∈ x, r.length = M) :
    F_linear x W b = .ok (denseFwd W b x) := by
  unfold F_linear
  rw [if_pos]
  simp only [Bool.and_eq_true, List.all_eq_true, beq_iff_eq]
  refine ⟨fun w hw r hr => by rw [hx r hr, hW.2 w hw], ?_⟩
  cases b with
  | none => rfl
  | some bv => simp [hb bv rfl, hW.1]

theorem einsum_ok [Add α] [Mul α] [Zero α] (N M : Nat) (W : Mat α) (hW : Shape2 W N M) (r : T3 α)
    (hr : ∀ s ∈ r, Shape2 s M N) :
    einsum_bio_oi_bo r W = .ok (r.map fun s => (List.range N).map fun o => dot (col s o) (W.getD o [])) := by
  unfold einsum_bio_oi_bo
  rw [if_pos]
  · simp only [mapIdx_eq_range_map W _ [], hW.1]
  · simp only [List.all_eq_true, Bool.and_eq_true, beq_iff_eq]
    intro s hs
    refine ⟨fun w hw => by rw [(hr s hs).1, hW.2 w hw], fun row hrow => by rw [(hr s hs).2 row hrow, hW.1]⟩

theorem add_mat_vec_ok [Add α] (m : Mat α) (v : Vec α) (h : ∀ r ∈ m, r.length = v.length) :
    add_mat_vec m v = .ok (m.map fun r => List.zipWith (· + ·) r v) := by
  unfold add_mat_vec
  rw [if_pos]
  simpa [List.all_eq_true] using h

theorem mul_mat_vec_ok [Mul α] (m : Mat α) (v : Vec α) (h : ∀ r ∈ m, r.length = v.length) :
    mul_mat_vec m v = .ok (m.map fun r => List.zipWith (· * ·) r v) := by
  unfold mul_mat_vec
  rw [if_pos]
  simpa [List.all_eq_true] using h

/-- `value * self.mask` for two `n × n` matrices is the model's `hadamard` -/
theorem mul_mat_ok [Mul α] (n : Nat) (a b : Mat α) (ha : Shape2 a n n) (hb : Shape2 b n n) :
    mul_mat a b = .ok (hadamard a b) := by
  have hc : cols a = cols b := by
    cases n with
    | zero =>
      have h1 := ha.1; have h2 := hb.1
      simp at h1 h2; subst h1; subst h2; rfl
    | succ k => rw [cols_of_shape ha (by omega), cols_of_shape hb (by omega)]
  have hca : ∀ r ∈ a, r.length = cols a := by
    intro r hr
    cases n with
    | zero => have h1 := ha.1; simp at h1; subst h1; simp at hr
    | succ k => rw [cols_of_shape ha (by omega)]; exact ha.2 r hr
  have hcb : ∀ r ∈ b, r.length = cols a := by
    intro r hr
    cases n with
    | zero => have h1 := hb.1; simp at h1; subst h1; simp at hr
    | succ k => rw [cols_of_shape ha (by omega)]; exact hb.2 r hr
  unfold mul_mat bdim
  rw [if_pos (by rw [ha.1, hb.1]), if_pos hc]
  simp only []
  rw [stretch_self _ a rfl, stretch_self _ b (by rw [hb.1, ha.1])]
  congr 2
  · conv_rhs => rw [← List.map_id a]
    apply List.map_congr_left
    intro r hr
    exact stretch_self _ r (hca r hr)
  · conv_rhs => rw [← List.map_id b]
    apply List.map_congr_left
    intro r hr
    exact stretch_self _ r (hcb r hr)

/-! ## LinearDense -/

section dense
variable [Add α] [Mul α] [Zero α] (Y : SynI σ α (Tensor α) Mat T3) (nz : α → Bool) (g : DenseS σ α)

@[simp] theorem dense_delay_ok : LinearDense__WeightBiasDelayMixin_delay Y nz g = .ok g.delay_ := by
  unfold LinearDense__WeightBiasDelayMixin_delay; cases g.delay_ <;> rfl
@[simp] theorem dense_synapse_ok : LinearDense__Connection_synapse Y nz g = .ok g.synapse_ := rfl
@[simp] theorem dense_weight_ok : LinearDense__WeightMixin_weight Y nz g = .ok g.weight_ := rfl
@[simp] theorem dense_bias_ok : LinearDense__WeightBiasMixin_bias Y nz g = .ok g.bias_ := by
  unfold LinearDense__WeightBiasMixin_bias; cases g.bias_ <;> rfl
@[simp] theorem dense_outshape_ok : LinearDense_outshape Y nz g = .ok g.out_shape := rfl
@[simp] theorem dense_biased_ok : LinearDense__Connection_biased Y nz g = .ok g.bias_.isSome := by
  simp [LinearDense__Connection_biased, bind, Except.bind, pure, Except.pure]
@[simp] theorem dense_batchsz_ok : LinearDense__Connection_batchsz Y nz g = .ok (Y.batchsz g.synapse_) := by
  simp [LinearDense__Connection_batchsz, bind, Except.bind, pure, Except.pure]
/-- `Connection.delayedby`: the synapse's maximum delay when a `delay_` parameter exists, `None` otherwise -/
@[simp] theorem dense_delayedby_ok : LinearDense__Connection_delayedby Y nz g =
    .ok (if g.delay_.isSome then some (Y.delay g.synapse_) else none) := by
  simp only [LinearDense__Connection_delayedby, dense_delay_ok, dense_synapse_ok, bind, Except.bind, pure, Except.pure]
  cases g.delay_ <;> rfl
@[simp] theorem dense_like_synaptic_ok (t : Tensor α) : LinearDense_like_synaptic Y nz g t = rearrange_b_flat t := by
  unfold LinearDense_like_synaptic; exact bind_pure' _

/-- **Undelayed `LinearDense.forward` is `Conn.denseFwd`** (every element type with `+ * 0`, every batch size):
when the connection has no `delay_` parameter or the synapse's maximum delay is falsy, `forward` steps the synapse on
the flattened inputs and returns `F.linear(res, weight, bias)` = `denseFwd weight bias res` seen through
`view(-1, *outshape)`, `res` being the currents the synapse returned. -/
theorem gen_dense_forward_undelayed (inputs xs : List (Tensor α)) (N M : Nat)
    (hW : Shape2 g.weight_ N M) (hb : ∀ bv, g.bias_ = some bv → bv.length = N)
    (s' : σ) (res : Mat α)
    (hin : inputs.mapM rearrange_b_flat = .ok xs)
    (hfw : Y.forward g.synapse_ xs = .ok (s', res))
    (hres : ∀ r ∈ res, r.length = M)
    (hund : g.delay_ = none ∨ nz (Y.delay s') = false) :
    LinearDense_forward Y nz g inputs =
      (view_batched (denseFwd g.weight_ g.bias_ res) g.out_shape).map fun t => ({ g with synapse_ := s' }, t) := by
  have htr : ConnPrelude.truthy nz (if g.delay_.isSome then some (Y.delay s') else none) = false := by
    rcases hund with h | h
    · simp [h, ConnPrelude.truthy]
    · cases g.delay_ <;> simp [ConnPrelude.truthy, h]
  simp only [LinearDense_forward, dense_like_synaptic_ok, dense_synapse_ok, dense_delayedby_ok, dense_weight_ok,
    dense_bias_ok, dense_outshape_ok, hin, hfw, htr, bind, Except.bind, pure, Except.pure,
    F_linear_ok N M g.weight_ hW g.bias_ hb res hres, Bool.false_eq_true, if_false]
  cases view_batched (denseFwd g.weight_ g.bias_ res) g.out_shape <;> rfl

/-- `view(-1, *outshape)` of the model's batch of rows: shape `B × outshape`, row-major data unchanged -/
theorem view_batched_rows (m : Mat α) (shape : List Nat) (B : Nat) (hm : m.length = B)
    (hrow : ∀ r ∈ m, r.length = prod shape) (hp : 0 < prod shape) :
    view_batched m shape = .ok (B :: shape, m.flatten) := by
  have hl : m.flatten.length = B * prod shape := by
    rw [flatten_length_uniform m (prod shape) hrow, hm]
  unfold view_batched
  simp only []
  rw [if_pos ⟨by omega, by rw [hl]; exact Nat.mul_mod_left _ _⟩, hl, Nat.mul_div_cancel _ hp]

theorem dense_selector_some (D : Mat α) (hd : g.delay_ = some D) :
    LinearDense_selector Y nz g = expand3 (rearrange_oi_1io D) (Y.batchsz g.synapse_) := by
  simp only [LinearDense_selector, dense_delayedby_ok, dense_delay_ok, dense_batchsz_ok, dense_weight_ok, hd,
    bind, Except.bind, pure, Except.pure, Option.isSome_some, if_true, tensorArg]

theorem dense_selector_none (hd : g.delay_ = none) :
    LinearDense_selector Y nz g = expand3 (rearrange_oi_1io (zeros_like_mat g.weight_)) (Y.batchsz g.synapse_) := by
  simp only [LinearDense_selector, dense_delayedby_ok, dense_delay_ok, dense_batchsz_ok, dense_weight_ok, hd,
    bind, Except.bind, pure, Except.pure, Option.isSome_none, Bool.false_eq_true, if_false, tensorArg]
end dense

theorem transpose_eq_selectorDense [Zero α] (K : Ops α) (h0 : K.ofInt 0 = 0) (M N : Nat) (D : Mat α) :
    transpose N M D = selectorDense K M N D := by
  unfold transpose selectorDense mget
  rw [h0]

theorem zeros_like_mat_shape [Zero α] {W : Mat α} {N M : Nat} (h : Shape2 W N M) : Shape2 (zeros_like_mat W) N M := by
  refine ⟨by simp [zeros_like_mat, h.1], ?_⟩
  intro r hr
  simp only [zeros_like_mat, List.mem_map] at hr
  obtain ⟨w, hw, rfl⟩ := hr
  simp [zeros_like_vec, h.2 w hw]

section denseC06
variable [CommSemiring α] (Y : SynI σ α (Tensor α) Mat T3) (g : DenseS σ α)

/-- seen through the interface, the (stepped) synapse `s` of a linear connection IS the element list `sts` of
`Model/Delay.lean` for ONE batch row, `cur` being its present currents -/
structure SynIs (Y : SynI σ α (Tensor α) Mat T3) (S : SOps α) (cfg : Cfg α) (s : σ) (sts : List (St α)) (cur : List α) :
    Prop where
  delay : Y.delay s = cfg.delay
  batchsz : Y.batchsz s = 1
  current : Y.current s = .ok [cur]
  spike : Y.spike s = (ofOutcome (Outcome.seqOpt (sts.map (spikeNow S)))).map fun v => [v]
  current_at : ∀ sel, Y.current_at s [sel] = (ofOutcome (currentAtAll S cfg sts sel)).map fun r => [r]
  spike_at : ∀ sel, Y.spike_at s [sel] = (ofOutcome (spikeAtAll S cfg sts sel)).map fun r => [r]

/-- **`LinearDense.selector` is `Delay.selectorDense`** (`rearrange(delays, "o i -> 1 i o")`: entry `[i][o]` is
`delay[o][i]`), repeated `batchsz` times by `expand` -/
theorem gen_selector_dense (nz : α → Bool) (K : Ops α) (h0 : K.ofInt 0 = 0) (M N : Nat) (hN : 0 < N) (D : Mat α)
    (hd : g.delay_ = some D) (hD : Shape2 D N M) :
    LinearDense_selector Y nz g = .ok (List.replicate (Y.batchsz g.synapse_) (selectorDense K M N D)) := by
  rw [dense_selector_some Y nz g D hd, rearrange_oi_1io, hD.1, cols_of_shape hD hN, expand3_one,
    transpose_eq_selectorDense K h0]

/-- without a `delay_` parameter the selector is built from `zeros_like(weight)` -/
theorem gen_selector_dense_none (nz : α → Bool) (K : Ops α) (h0 : K.ofInt 0 = 0) (M N : Nat) (hN : 0 < N)
    (hd : g.delay_ = none) (hW : Shape2 g.weight_ N M) :
    LinearDense_selector Y nz g =
      .ok (List.replicate (Y.batchsz g.synapse_) (selectorDense K M N (zeros_like_mat g.weight_))) := by
  have hz := zeros_like_mat_shape hW
  rw [dense_selector_none Y nz g hd, rearrange_oi_1io, hz.1, cols_of_shape hz hN, expand3_one,
    transpose_eq_selectorDense K h0]

theorem dense_truthy (S : SOps α) (n : Net α) (D : Mat α) (s : σ)
    (hD : g.delay_ = if n.hasDelay then some D else none) (hdelay : Y.delay s = n.cfg.delay) :
    ConnPrelude.truthy (nzOf S.K) (if g.delay_.isSome then some (Y.delay s) else none) = useDelay S n := by
  rw [truthy_nzOf, useDelay, delayedby, hD, hdelay]
  cases n.hasDelay <;> rfl

theorem useDelay_hasDelay (S : SOps α) (n : Net α) (hu : useDelay S n = true) : n.hasDelay = true := by
  cases hh : n.hasDelay
  · simp [useDelay, delayedby, hh, Delay.truthy] at hu
  · rfl

/-- **`Connection.syncurrent` (receiver `LinearDense`) is `Delay.syncurrent`**: `current_at(selector)` when
`delayedby` is truthy, the present current otherwise -/
theorem gen_syncurrent_dense (S : SOps α) (hK : OpsAgree S.K) (n : Net α) (M N : Nat) (hN : 0 < N)
    (D : Mat α) (hD : g.delay_ = if n.hasDelay then some D else none) (hDs : n.hasDelay = true → Shape2 D N M)
    (sts : List (St α)) (cur : List α) (hY : SynIs Y S n.cfg g.synapse_ sts cur) :
    LinearDense__Connection_syncurrent Y (nzOf S.K) g =
      liftView (Delay.syncurrent S n (selectorDense S.K M N D) sts cur) := by
  simp only [LinearDense__Connection_syncurrent, dense_delayedby_ok, dense_synapse_ok,
    dense_truthy Y g S n D g.synapse_ hD hY.delay, bind, Except.bind, pure, Except.pure]
  unfold Delay.syncurrent
  cases hu : useDelay S n with
  | false => simp [hY.current, liftView]
  | true =>
    have hhd := useDelay_hasDelay S n hu
    have hdel : g.delay_ = some D := by rw [hD, hhd]; rfl
    rw [gen_selector_dense Y g (nzOf S.K) S.K hK.zero M N hN D hdel (hDs hhd), hY.batchsz]
    simp only [if_true, List.replicate_one, hY.current_at]
    cases currentAtAll S n.cfg sts (selectorDense S.K M N D) <;> rfl

/-- **`Connection.synspike` (receiver `LinearDense`) is `Delay.synspike`** -/
theorem gen_synspike_dense (S : SOps α) (hK : OpsAgree S.K) (n : Net α) (M N : Nat) (hN : 0 < N)
    (D : Mat α) (hD : g.delay_ = if n.hasDelay then some D else none) (hDs : n.hasDelay = true → Shape2 D N M)
    (sts : List (St α)) (cur : List α) (hY : SynIs Y S n.cfg g.synapse_ sts cur) :
    LinearDense__Connection_synspike Y (nzOf S.K) g =
      liftView (Delay.synspike S n (selectorDense S.K M N D) sts) := by
  simp only [LinearDense__Connection_synspike, dense_delayedby_ok, dense_synapse_ok,
    dense_truthy Y g S n D g.synapse_ hD hY.delay, bind, Except.bind, pure, Except.pure]
  unfold Delay.synspike
  cases hu : useDelay S n with
  | false =>
    simp only [Bool.false_eq_true, if_false, hY.spike]
    cases Outcome.seqOpt (sts.map (spikeNow S)) <;> rfl
  | true =>
    have hhd := useDelay_hasDelay S n hu
    have hdel : g.delay_ = some D := by rw [hD, hhd]; rfl
    rw [gen_selector_dense Y g (nzOf S.K) S.K hK.zero M N hN D hdel (hDs hhd), hY.batchsz]
    simp only [if_true, List.replicate_one, hY.spike_at]
    cases spikeAtAll S n.cfg sts (selectorDense S.K M N D) <;> rfl

theorem linearRow_eq_linearK (K : Ops α) (h : OpsAgree K) (N M : Nat) (W : Mat α) (hW : Shape2 W N M)
    (b : Option (List α)) (hb : ∀ bv, b = some bv → bv.length = N) (x : List α) :
    linearRow W b x = linearK K N W b x := by
  unfold linearRow linearK
  have h1 : W.map (dot x) = (List.range N).map fun o => dot x (W.getD o []) := by
    rw [map_eq_range_map W (dot x) [], hW.1]
  simp only [h1]
  cases b with
  | none =>
    apply List.map_congr_left
    intro o _
    rw [addBias_agree K h, dot_eq_dotK K h]; simp [biasAt]
  | some bv =>
    simp only []
    rw [zipWith_range_map N _ bv (hb bv rfl) _ 0]
    apply List.map_congr_left
    intro o _
    rw [addBias_agree K h, dot_eq_dotK K h]; rfl

/-- **`LinearDense.forward`, BOTH branches, is `Delay.denseForward`** (one batch row): the synapse is stepped, then —
by the truthiness of `delayedby` — either `einsum(self.syncurrent, weight, "b i o, o i -> b o") (+ bias)` over the
delay-selected currents or `F.linear(res, weight, bias)`; the result is the model's row seen through
`view(-1, *outshape)`, an error of `current_at` is the model's error. -/
theorem gen_dense_forward (S : SOps α) (hK : OpsAgree S.K) (n : Net α) (M N : Nat) (hN : 0 < N)
    (hW : Shape2 g.weight_ N M) (hb : ∀ bv, g.bias_ = some bv → bv.length = N)
    (D : Mat α) (hD : g.delay_ = if n.hasDelay then some D else none) (hDs : n.hasDelay = true → Shape2 D N M)
    (inputs xs : List (Tensor α)) (s' : σ) (res : List α) (sts : List (St α))
    (hin : inputs.mapM rearrange_b_flat = .ok xs)
    (hfw : Y.forward g.synapse_ xs = .ok (s', [res])) (hres : res.length = M)
    (hY : SynIs Y S n.cfg s' sts res) (hsts : M ≤ sts.length) :
    LinearDense_forward Y (nzOf S.K) g inputs =
      (ofOutcome (denseForward S n M N g.weight_ g.bias_ D sts res)).bind fun y =>
        (view_batched [y] g.out_shape).map fun t => ({ g with synapse_ := s' }, t) := by
  have htr := dense_truthy Y g S n D s' hD hY.delay
  simp only [LinearDense_forward, dense_like_synaptic_ok, dense_synapse_ok, dense_delayedby_ok, dense_weight_ok,
    dense_bias_ok, dense_outshape_ok, dense_biased_ok, hin, hfw, htr, bind, Except.bind, pure, Except.pure]
  unfold denseForward
  cases hu : useDelay S n with
  | false =>
    have hres' : ∀ r ∈ [res], r.length = M := by intro r hr; simp at hr; rw [hr, hres]
    simp only [Bool.false_eq_true, if_false, F_linear_ok N M g.weight_ hW g.bias_ hb [res] hres', ofOutcome,
      denseFwd, List.map_cons, List.map_nil, linearRow_eq_linearK S.K hK N M g.weight_ hW g.bias_ hb res]
    cases view_batched [linearK S.K N g.weight_ g.bias_ res] g.out_shape <;> rfl
  | true =>
    have hhd := useDelay_hasDelay S n hu
    have hdel : g.delay_ = some D := by rw [hD, hhd]; rfl
    have hsel : LinearDense_selector Y (nzOf S.K) { g with synapse_ := s' } = .ok [selectorDense S.K M N D] := by
      rw [gen_selector_dense Y { g with synapse_ := s' } (nzOf S.K) S.K hK.zero M N hN D hdel (hDs hhd)]
      simp [hY.batchsz]
    simp only [if_true, LinearDense__Connection_syncurrent, dense_delayedby_ok, htr, hu, dense_synapse_ok, hsel,
      hY.current_at, bind, Except.bind, pure, Except.pure]
    cases hc : currentAtAll S n.cfg sts (selectorDense S.K M N D) with
    | valueError => rfl
    | noSlot => rfl
    | ok r =>
      have hsh : Shape2 r M N := currentAtAll_shape S n.cfg sts _ r M N hc hsts (by
        unfold selectorDense; exact shape2_range_map M N _)
      have hr' : ∀ s ∈ [r], Shape2 s M N := by intro s hs; simp at hs; rw [hs]; exact hsh
      simp only [ofOutcome, Except.map, Outcome.map, SView.asSel, einsum_ok N M g.weight_ hW [r] hr', List.map_cons,
        List.map_nil]
      have hrow : ∀ o, Delay.addBias S.K g.bias_ o
            (dotK S.K (r.map fun row => row.getD o (S.K.ofInt 0)) (g.weight_.getD o [])) =
          dot (col r o) (g.weight_.getD o []) + biasAt g.bias_ o := by
        intro o
        rw [addBias_agree S.K hK, dot_eq_dotK S.K hK, hK.zero]; rfl
      simp only [hrow]
      cases hbias : g.bias_ with
      | none =>
        simp only [Option.isSome_none, Bool.false_eq_true, if_false, biasAt, add_zero]
      | some bv =>
        have hl : ∀ row ∈ [(List.range N).map fun o => dot (col r o) (g.weight_.getD o [])], row.length = bv.length := by
          intro row hrow'; simp at hrow'; rw [hrow', hb bv hbias]; simp
        simp only [Option.isSome_some, if_true, notNone, add_mat_vec_ok _ bv hl, List.map_cons, List.map_nil,
          zipWith_range_map N _ bv (hb bv hbias) _ 0, biasAt, vget]
end denseC06

/-! ## LinearDirect -/

section direct
variable [Add α] [Mul α] [Zero α] (Y : SynI σ α (Tensor α) Mat T3) (nz : α → Bool) (g : DirectS σ α)

@[simp] theorem direct_delay_ok : LinearDirect__WeightBiasDelayMixin_delay Y nz g = .ok g.delay_ := by
  unfold LinearDirect__WeightBiasDelayMixin_delay; cases g.delay_ <;> rfl
@[simp] theorem direct_synapse_ok : LinearDirect__Connection_synapse Y nz g = .ok g.synapse_ := rfl
@[simp] theorem direct_weight_ok : LinearDirect__WeightMixin_weight Y nz g = .ok g.weight_ := rfl
@[simp] theorem direct_bias_ok : LinearDirect__WeightBiasMixin_bias Y nz g = .ok g.bias_ := by
  unfold LinearDirect__WeightBiasMixin_bias; cases g.bias_ <;> rfl
@[simp] theorem direct_outshape_ok : LinearDirect_outshape Y nz g = .ok g.shape := rfl
@[simp] theorem direct_biased_ok : LinearDirect__Connection_biased Y nz g = .ok g.bias_.isSome := by
  simp [LinearDirect__Connection_biased, bind, Except.bind, pure, Except.pure]
@[simp] theorem direct_batchsz_ok : LinearDirect__Connection_batchsz Y nz g = .ok (Y.batchsz g.synapse_) := by
  simp [LinearDirect__Connection_batchsz, bind, Except.bind, pure, Except.pure]
@[simp] theorem direct_delayedby_ok : LinearDirect__Connection_delayedby Y nz g =
    .ok (if g.delay_.isSome then some (Y.delay g.synapse_) else none) := by
  simp only [LinearDirect__Connection_delayedby, direct_delay_ok, direct_synapse_ok, bind, Except.bind, pure, Except.pure]
  cases g.delay_ <;> rfl
@[simp] theorem direct_like_synaptic_ok (t : Tensor α) : LinearDirect_like_synaptic Y nz g t = rearrange_b_flat t := by
  unfold LinearDirect_like_synaptic; exact bind_pure' _

/-- `res * weight (+ bias)` on a batch of rows of the weight's length is the model's `directFwd` -/
theorem direct_tail (N : Nat) (w : Vec α) (hw : w.length = N) (b : Option (Vec α))
    (hb : ∀ bv, b = some bv → bv.length = N) (res : Mat α) (hres : ∀ r ∈ res, r.length = N) :
    (if b.isSome = true then
        (do let m ← mul_mat_vec res w; let bv ← notNone b; add_mat_vec m bv : Except Err (Mat α))
      else mul_mat_vec res w) = .ok (directFwd w b res) := by
  have h1 : ∀ r ∈ res, r.length = w.length := fun r hr => by rw [hres r hr, hw]
  cases b with
  | none => simp [mul_mat_vec_ok res w h1, directFwd, directRow]
  | some bv =>
    have h2 : ∀ r ∈ res.map (fun r => List.zipWith (· * ·) r w), r.length = bv.length := by
      intro r hr
      simp only [List.mem_map] at hr
      obtain ⟨x, hx, rfl⟩ := hr
      simp [hres x hx, hw, hb bv rfl]
    simp only [Option.isSome_some, if_true, mul_mat_vec_ok res w h1, notNone, bind, Except.bind,
      add_mat_vec_ok _ bv h2, List.map_map, directFwd]
    rfl

/-- **Undelayed `LinearDirect.forward` is `Conn.directFwd`** seen through `view(-1, *outshape)` -/
theorem gen_direct_forward_undelayed (inputs xs : List (Tensor α)) (N : Nat)
    (hw : g.weight_.length = N) (hb : ∀ bv, g.bias_ = some bv → bv.length = N)
    (s' : σ) (res : Mat α)
    (hin : inputs.mapM rearrange_b_flat = .ok xs)
    (hfw : Y.forward g.synapse_ xs = .ok (s', res))
    (hres : ∀ r ∈ res, r.length = N)
    (hund : g.delay_ = none ∨ nz (Y.delay s') = false) :
    LinearDirect_forward Y nz g inputs =
      (view_batched (directFwd g.weight_ g.bias_ res) g.shape).map fun t => ({ g with synapse_ := s' }, t) := by
  have htr : ConnPrelude.truthy nz (if g.delay_.isSome then some (Y.delay s') else none) = false := by
    rcases hund with h | h
    · simp [h, ConnPrelude.truthy]
    · cases g.delay_ <;> simp [ConnPrelude.truthy, h]
  have ht := direct_tail N g.weight_ hw g.bias_ hb res hres
  simp only [bind, Except.bind] at ht
  simp only [LinearDirect_forward, direct_like_synaptic_ok, direct_synapse_ok, direct_delayedby_ok, direct_weight_ok,
    direct_bias_ok, direct_outshape_ok, direct_biased_ok, hin, hfw, htr, bind, Except.bind, pure, Except.pure,
    Bool.false_eq_true, if_false]
  cases hbias : g.bias_ with
  | none =>
    rw [hbias] at ht
    simp only [Option.isSome_none, Bool.false_eq_true, if_false] at ht ⊢
    simp only [ht]
    all_goals (cases view_batched (directFwd g.weight_ none res) g.shape <;> rfl)
  | some bv =>
    rw [hbias] at ht
    simp only [Option.isSome_some, if_true] at ht ⊢
    revert ht
    cases mul_mat_vec res g.weight_ with
    | error e => intro ht; cases ht
    | ok m =>
      simp only [notNone]
      intro ht
      simp only [ht]
      all_goals (cases view_batched (directFwd g.weight_ (some bv) res) g.shape <;> rfl)

theorem direct_selector_some (d : Vec α) (hd : g.delay_ = some d) :
    LinearDirect_selector Y nz g = .ok (List.replicate (Y.batchsz g.synapse_) (selectorDirect d)) := by
  simp only [LinearDirect_selector, direct_delayedby_ok, direct_delay_ok, direct_batchsz_ok, direct_weight_ok, hd,
    bind, Except.bind, pure, Except.pure, Option.isSome_some, if_true, tensorArg, rearrange_n_1n1, expand3_one,
    selectorDirect]

/-- without a `delay_` parameter the selector is built from `zeros_like(weight)` -/
theorem gen_selector_direct_none (hd : g.delay_ = none) :
    LinearDirect_selector Y nz g =
      .ok (List.replicate (Y.batchsz g.synapse_) (selectorDirect (zeros_like_vec g.weight_))) := by
  simp only [LinearDirect_selector, direct_delayedby_ok, direct_delay_ok, direct_batchsz_ok, direct_weight_ok, hd,
    bind, Except.bind, pure, Except.pure, Option.isSome_none, Bool.false_eq_true, if_false, tensorArg,
    rearrange_n_1n1, expand3_one, selectorDirect]
end direct

section directC06
variable [CommSemiring α] (Y : SynI σ α (Tensor α) Mat T3) (g : DirectS σ α)

/-- **`LinearDirect.selector` is `Delay.selectorDirect`** (`rearrange(delays, "n -> 1 n 1")`), repeated `batchsz` times -/
theorem gen_selector_direct (nz : α → Bool) (d : Vec α) (hd : g.delay_ = some d) :
    LinearDirect_selector Y nz g = .ok (List.replicate (Y.batchsz g.synapse_) (selectorDirect d)) :=
  direct_selector_some Y nz g d hd

theorem direct_truthy (S : SOps α) (n : Net α) (d : Vec α) (s : σ)
    (hD : g.delay_ = if n.hasDelay then some d else none) (hdelay : Y.delay s = n.cfg.delay) :
    ConnPrelude.truthy (nzOf S.K) (if g.delay_.isSome then some (Y.delay s) else none) = useDelay S n := by
  rw [truthy_nzOf, useDelay, delayedby, hD, hdelay]
  cases n.hasDelay <;> rfl

/-- **`Connection.syncurrent` (receiver `LinearDirect`) is `Delay.syncurrent`** -/
theorem gen_syncurrent_direct (S : SOps α) (n : Net α) (d : Vec α)
    (hD : g.delay_ = if n.hasDelay then some d else none)
    (sts : List (St α)) (cur : List α) (hY : SynIs Y S n.cfg g.synapse_ sts cur) :
    LinearDirect__Connection_syncurrent Y (nzOf S.K) g = liftView (Delay.syncurrent S n (selectorDirect d) sts cur) := by
  simp only [LinearDirect__Connection_syncurrent, direct_delayedby_ok, direct_synapse_ok,
    direct_truthy Y g S n d g.synapse_ hD hY.delay, bind, Except.bind, pure, Except.pure]
  unfold Delay.syncurrent
  cases hu : useDelay S n with
  | false => simp [hY.current, liftView]
  | true =>
    have hhd := useDelay_hasDelay S n hu
    have hdel : g.delay_ = some d := by rw [hD, hhd]; rfl
    rw [direct_selector_some Y (nzOf S.K) g d hdel, hY.batchsz]
    simp only [if_true, List.replicate_one, hY.current_at]
    cases currentAtAll S n.cfg sts (selectorDirect d) <;> rfl

/-- **`Connection.synspike` (receiver `LinearDirect`) is `Delay.synspike`** -/
theorem gen_synspike_direct (S : SOps α) (n : Net α) (d : Vec α)
    (hD : g.delay_ = if n.hasDelay then some d else none)
    (sts : List (St α)) (cur : List α) (hY : SynIs Y S n.cfg g.synapse_ sts cur) :
    LinearDirect__Connection_synspike Y (nzOf S.K) g = liftView (Delay.synspike S n (selectorDirect d) sts) := by
  simp only [LinearDirect__Connection_synspike, direct_delayedby_ok, direct_synapse_ok,
    direct_truthy Y g S n d g.synapse_ hD hY.delay, bind, Except.bind, pure, Except.pure]
  unfold Delay.synspike
  cases hu : useDelay S n with
  | false =>
    simp only [Bool.false_eq_true, if_false, hY.spike]
    cases Outcome.seqOpt (sts.map (spikeNow S)) <;> rfl
  | true =>
    have hhd := useDelay_hasDelay S n hu
    have hdel : g.delay_ = some d := by rw [hD, hhd]; rfl
    rw [direct_selector_some Y (nzOf S.K) g d hdel, hY.batchsz]
    simp only [if_true, List.replicate_one, hY.spike_at]
    cases spikeAtAll S n.cfg sts (selectorDirect d) <;> rfl

theorem directRow_eq_directK (K : Ops α) (h : OpsAgree K) (N : Nat) (w : Vec α) (hw : w.length = N)
    (b : Option (List α)) (hb : ∀ bv, b = some bv → bv.length = N) (x : List α) (hx : x.length = N) :
    directRow w b x = directK K w b x := by
  have hm : K.mul = (· * ·) := funext fun x => funext fun y => h.mul x y
  unfold directK
  rw [zipIdx_map_eq_range_map (List.zipWith K.mul x w) (fun v o => Delay.addBias K b o v) 0, hm]
  have hl : (List.zipWith (· * ·) x w).length = N := by simp [hx, hw]
  rw [hl]
  unfold directRow
  cases b with
  | none =>
    simp only [addBias_agree K h, biasAt, add_zero]
    have e := map_eq_range_map (List.zipWith (· * ·) x w) id 0
    rw [List.map_id, hl] at e
    exact e
  | some bv =>
    simp only [addBias_agree K h, biasAt, vget]
    exact zipWith_eq_range_map N _ bv hl (hb bv rfl) _ 0 0

theorem flatten_singletons (r : List (List α)) (h : ∀ row ∈ r, row.length = 1) (d : α) :
    r.flatten = r.map fun row => row.getD 0 d := by
  induction r with
  | nil => rfl
  | cons x xs ih =>
    have hx := h x List.mem_cons_self
    cases x with
    | nil => simp at hx
    | cons a as =>
      cases as with
      | nil => simp [ih (fun row hr => h row (List.mem_cons_of_mem _ hr))]
      | cons _ _ => simp at hx

/-- **`LinearDirect.forward`, BOTH branches, is `Delay.directForward`** (one batch row) -/
theorem gen_direct_forward (S : SOps α) (hK : OpsAgree S.K) (n : Net α) (N : Nat)
    (hw : g.weight_.length = N) (hb : ∀ bv, g.bias_ = some bv → bv.length = N)
    (d : Vec α) (hD : g.delay_ = if n.hasDelay then some d else none) (hds : n.hasDelay = true → d.length = N)
    (inputs xs : List (Tensor α)) (s' : σ) (res : List α) (sts : List (St α))
    (hin : inputs.mapM rearrange_b_flat = .ok xs)
    (hfw : Y.forward g.synapse_ xs = .ok (s', [res])) (hres : res.length = N)
    (hY : SynIs Y S n.cfg s' sts res) (hsts : N ≤ sts.length) :
    LinearDirect_forward Y (nzOf S.K) g inputs =
      (ofOutcome (directForward S n g.weight_ g.bias_ d sts res)).bind fun y =>
        (view_batched [y] g.shape).map fun t => ({ g with synapse_ := s' }, t) := by
  have htr := direct_truthy Y g S n d s' hD hY.delay
  have tail : ∀ x : List α, x.length = N →
      (if g.bias_.isSome = true then
          (do let m ← mul_mat_vec [x] g.weight_; let bv ← notNone g.bias_; add_mat_vec m bv : Except Err (Mat α))
        else mul_mat_vec [x] g.weight_) = .ok [directK S.K g.weight_ g.bias_ x] := by
    intro x hx
    rw [direct_tail N g.weight_ hw g.bias_ hb [x] (by intro r hr; simp at hr; rw [hr, hx])]
    simp [directFwd, directRow_eq_directK S.K hK N g.weight_ hw g.bias_ hb x hx]
  simp only [LinearDirect_forward, direct_like_synaptic_ok, direct_synapse_ok, direct_delayedby_ok, direct_weight_ok,
    direct_bias_ok, direct_outshape_ok, direct_biased_ok, hin, hfw, htr, bind, Except.bind, pure, Except.pure]
  unfold directForward
  cases hu : useDelay S n with
  | false =>
    have ht := tail res hres
    simp only [bind, Except.bind] at ht
    simp only [Bool.false_eq_true, if_false, ofOutcome]
    cases hbias : g.bias_ with
    | none =>
      rw [hbias] at ht
      simp only [Option.isSome_none, Bool.false_eq_true, if_false] at ht ⊢
      simp only [ht]
      all_goals (cases view_batched [directK S.K g.weight_ none res] g.shape <;> rfl)
    | some bv =>
      rw [hbias] at ht
      simp only [Option.isSome_some, if_true] at ht ⊢
      revert ht
      cases mul_mat_vec [res] g.weight_ with
      | error e => intro ht; cases ht
      | ok m =>
        simp only [notNone]
        intro ht
        simp only [ht]
        all_goals (cases view_batched [directK S.K g.weight_ (some bv) res] g.shape <;> rfl)
  | true =>
    have hhd := useDelay_hasDelay S n hu
    have hdel : g.delay_ = some d := by rw [hD, hhd]; rfl
    have hsel : LinearDirect_selector Y (nzOf S.K) { g with synapse_ := s' } = .ok [selectorDirect d] := by
      rw [direct_selector_some Y (nzOf S.K) { g with synapse_ := s' } d hdel]
      simp [hY.batchsz]
    simp only [if_true, LinearDirect__Connection_syncurrent, direct_delayedby_ok, htr, hu, direct_synapse_ok, hsel,
      hY.current_at, bind, Except.bind, pure, Except.pure]
    cases hc : currentAtAll S n.cfg sts (selectorDirect d) with
    | valueError => rfl
    | noSlot => rfl
    | ok r =>
      have hsh : Shape2 r N 1 := currentAtAll_shape S n.cfg sts _ r N 1 hc hsts (by
        refine ⟨by simp [selectorDirect, hds hhd], ?_⟩
        intro row hrow
        simp only [selectorDirect, List.mem_map] at hrow
        obtain ⟨v, _, rfl⟩ := hrow; rfl)
      have hchk : rearrange_bn1_bn [r] = .ok [r.map fun row => row.getD 0 (S.K.ofInt 0)] := by
        unfold rearrange_bn1_bn
        rw [if_pos]
        · simp [flatten_singletons r hsh.2 (S.K.ofInt 0)]
        · simp only [List.all_eq_true, beq_iff_eq]
          intro s hs row hrow
          simp at hs; subst hs
          exact hsh.2 row hrow
      have ht := tail (r.map fun row => row.getD 0 (S.K.ofInt 0)) (by simp [hsh.1])
      simp only [bind, Except.bind] at ht
      simp only [ofOutcome, Except.map, Outcome.map, SView.asSel, hchk]
      cases hbias : g.bias_ with
      | none =>
        rw [hbias] at ht
        simp only [Option.isSome_none, Bool.false_eq_true, if_false] at ht ⊢
        simp only [ht]
        all_goals (cases view_batched [directK S.K g.weight_ none (r.map fun row => row.getD 0 (S.K.ofInt 0))] g.shape <;> rfl)
      | some bv =>
        rw [hbias] at ht
        simp only [Option.isSome_some, if_true] at ht ⊢
        revert ht
        cases mul_mat_vec [r.map fun row => row.getD 0 (S.K.ofInt 0)] g.weight_ with
        | error e => intro ht; cases ht
        | ok m =>
          simp only [notNone]
          intro ht
          simp only [ht]
          all_goals (cases view_batched [directK S.K g.weight_ (some bv) (r.map fun row => row.getD 0 (S.K.ofInt 0))] g.shape <;> rfl)
end directC06


/-! ## LinearLateral -/

section lateral
variable [Add α] [Mul α] [Zero α] (Y : SynI σ α (Tensor α) Mat T3) (nz : α → Bool) (g : LateralS σ α)

@[simp] theorem lateral_mixin_delay_ok : LinearLateral__WeightBiasDelayMixin_delay Y nz g = .ok g.delay_ := by
  unfold LinearLateral__WeightBiasDelayMixin_delay; cases g.delay_ <;> rfl
/-- the `delay` getter of `LinearLateral` (`WeightBiasDelayMixin.delay.fget(self)`) -/
@[simp] theorem lateral_delay_ok : LinearLateral_delay Y nz g = .ok g.delay_ := by
  simp [LinearLateral_delay, bind, Except.bind, pure, Except.pure]
@[simp] theorem lateral_synapse_ok : LinearLateral__Connection_synapse Y nz g = .ok g.synapse_ := rfl
@[simp] theorem lateral_mixin_weight_ok : LinearLateral__WeightMixin_weight Y nz g = .ok g.weight_ := rfl
/-- the `weight` getter of `LinearLateral` (`WeightBiasDelayMixin.weight.fget(self)`) -/
@[simp] theorem lateral_weight_ok : LinearLateral_weight Y nz g = .ok g.weight_ := rfl
@[simp] theorem lateral_bias_ok : LinearLateral__WeightBiasMixin_bias Y nz g = .ok g.bias_ := by
  unfold LinearLateral__WeightBiasMixin_bias; cases g.bias_ <;> rfl
@[simp] theorem lateral_outshape_ok : LinearLateral_outshape Y nz g = .ok g.shape := rfl
@[simp] theorem lateral_biased_ok : LinearLateral__Connection_biased Y nz g = .ok g.bias_.isSome := by
  simp [LinearLateral__Connection_biased, bind, Except.bind, pure, Except.pure]
@[simp] theorem lateral_batchsz_ok : LinearLateral__Connection_batchsz Y nz g = .ok (Y.batchsz g.synapse_) := by
  simp [LinearLateral__Connection_batchsz, bind, Except.bind, pure, Except.pure]
@[simp] theorem lateral_delayedby_ok : LinearLateral__Connection_delayedby Y nz g =
    .ok (if g.delay_.isSome then some (Y.delay g.synapse_) else none) := by
  simp only [LinearLateral__Connection_delayedby, lateral_delay_ok, lateral_synapse_ok, bind, Except.bind, pure, Except.pure]
  cases g.delay_ <;> rfl
@[simp] theorem lateral_like_synaptic_ok (t : Tensor α) : LinearLateral_like_synaptic Y nz g t = rearrange_b_flat t := by
  unfold LinearLateral_like_synaptic LinearLateral__LinearDense_like_synaptic
  cases rearrange_b_flat t <;> rfl
/-- `LinearLateral.forward` is `LinearDense.forward(self, …)` and `LinearLateral.selector` is
`LinearDense.selector.fget(self)`: `LinearDense`'s bodies run on the lateral connection -/
theorem lateral_forward_eq (inputs : List (Tensor α)) :
    LinearLateral_forward Y nz g inputs = LinearLateral__LinearDense_forward Y nz g inputs := bind_pure' _
theorem lateral_selector_eq : LinearLateral_selector Y nz g = LinearLateral__LinearDense_selector Y nz g := bind_pure' _

/-- **Undelayed `LinearLateral.forward` is `Conn.denseFwd`** (every element type with `+ * 0`, every batch size):
when the connection has no `delay_` parameter or the synapse's maximum delay is falsy, `forward` steps the synapse on
the flattened inputs and returns `F.linear(res, weight, bias)` = `denseFwd weight bias res` seen through
`view(-1, *outshape)`, `res` being the currents the synapse returned. -/
theorem gen_lateral_forward_undelayed (inputs xs : List (Tensor α)) (N M : Nat)
    (hW : Shape2 g.weight_ N M) (hb : ∀ bv, g.bias_ = some bv → bv.length = N)
    (s' : σ) (res : Mat α)
    (hin : inputs.mapM rearrange_b_flat = .ok xs)
    (hfw : Y.forward g.synapse_ xs = .ok (s', res))
    (hres : ∀ r ∈ res, r.length = M)
    (hund : g.delay_ = none ∨ nz (Y.delay s') = false) :
    LinearLateral_forward Y nz g inputs =
      (view_batched (denseFwd g.weight_ g.bias_ res) g.shape).map fun t => ({ g with synapse_ := s' }, t) := by
  have htr : ConnPrelude.truthy nz (if g.delay_.isSome then some (Y.delay s') else none) = false := by
    rcases hund with h | h
    · simp [h, ConnPrelude.truthy]
    · cases g.delay_ <;> simp [ConnPrelude.truthy, h]
  simp only [lateral_forward_eq, LinearLateral__LinearDense_forward, lateral_like_synaptic_ok, lateral_synapse_ok, lateral_delayedby_ok, lateral_weight_ok,
    lateral_bias_ok, lateral_outshape_ok, hin, hfw, htr, bind, Except.bind, pure, Except.pure,
    F_linear_ok N M g.weight_ hW g.bias_ hb res hres, Bool.false_eq_true, if_false]
  cases view_batched (denseFwd g.weight_ g.bias_ res) g.shape <;> rfl

theorem lateral_selector_some (D : Mat α) (hd : g.delay_ = some D) :
    LinearLateral_selector Y nz g = expand3 (rearrange_oi_1io D) (Y.batchsz g.synapse_) := by
  simp only [lateral_selector_eq, LinearLateral__LinearDense_selector, lateral_delayedby_ok, lateral_delay_ok, lateral_batchsz_ok, lateral_weight_ok, hd,
    bind, Except.bind, pure, Except.pure, Option.isSome_some, if_true, tensorArg]

theorem lateral_selector_none (hd : g.delay_ = none) :
    LinearLateral_selector Y nz g = expand3 (rearrange_oi_1io (zeros_like_mat g.weight_)) (Y.batchsz g.synapse_) := by
  simp only [lateral_selector_eq, LinearLateral__LinearDense_selector, lateral_delayedby_ok, lateral_delay_ok, lateral_batchsz_ok, lateral_weight_ok, hd,
    bind, Except.bind, pure, Except.pure, Option.isSome_none, Bool.false_eq_true, if_false, tensorArg]
end lateral

section lateralC06
variable [CommSemiring α] (Y : SynI σ α (Tensor α) Mat T3) (g : LateralS σ α)

/-- **`LinearLateral.selector` is `Delay.selectorDense`** (`rearrange(delays, "o i -> 1 i o")`: entry `[i][o]` is
`delay[o][i]`), repeated `batchsz` times by `expand` -/
theorem gen_selector_lateral (nz : α → Bool) (K : Ops α) (h0 : K.ofInt 0 = 0) (M N : Nat) (hN : 0 < N) (D : Mat α)
    (hd : g.delay_ = some D) (hD : Shape2 D N M) :
    LinearLateral_selector Y nz g = .ok (List.replicate (Y.batchsz g.synapse_) (selectorDense K M N D)) := by
  rw [lateral_selector_some Y nz g D hd, rearrange_oi_1io, hD.1, cols_of_shape hD hN, expand3_one,
    transpose_eq_selectorDense K h0]

/-- without a `delay_` parameter the selector is built from `zeros_like(weight)` -/
theorem gen_selector_lateral_none (nz : α → Bool) (K : Ops α) (h0 : K.ofInt 0 = 0) (M N : Nat) (hN : 0 < N)
    (hd : g.delay_ = none) (hW : Shape2 g.weight_ N M) :
    LinearLateral_selector Y nz g =
      .ok (List.replicate (Y.batchsz g.synapse_) (selectorDense K M N (zeros_like_mat g.weight_))) := by
  have hz := zeros_like_mat_shape hW
  rw [lateral_selector_none Y nz g hd, rearrange_oi_1io, hz.1, cols_of_shape hz hN, expand3_one,
    transpose_eq_selectorDense K h0]

theorem lateral_truthy (S : SOps α) (n : Net α) (D : Mat α) (s : σ)
    (hD : g.delay_ = if n.hasDelay then some D else none) (hdelay : Y.delay s = n.cfg.delay) :
    ConnPrelude.truthy (nzOf S.K) (if g.delay_.isSome then some (Y.delay s) else none) = useDelay S n := by
  rw [truthy_nzOf, useDelay, delayedby, hD, hdelay]
  cases n.hasDelay <;> rfl

/-- **`Connection.syncurrent` (receiver `LinearLateral`) is `Delay.syncurrent`**: `current_at(selector)` when
`delayedby` is truthy, the present current otherwise -/
theorem gen_syncurrent_lateral (S : SOps α) (hK : OpsAgree S.K) (n : Net α) (M N : Nat) (hN : 0 < N)
    (D : Mat α) (hD : g.delay_ = if n.hasDelay then some D else none) (hDs : n.hasDelay = true → Shape2 D N M)
    (sts : List (St α)) (cur : List α) (hY : SynIs Y S n.cfg g.synapse_ sts cur) :
    LinearLateral__Connection_syncurrent Y (nzOf S.K) g =
      liftView (Delay.syncurrent S n (selectorDense S.K M N D) sts cur) := by
  simp only [LinearLateral__Connection_syncurrent, lateral_delayedby_ok, lateral_synapse_ok,
    lateral_truthy Y g S n D g.synapse_ hD hY.delay, bind, Except.bind, pure, Except.pure]
  unfold Delay.syncurrent
  cases hu : useDelay S n with
  | false => simp [hY.current, liftView]
  | true =>
    have hhd := useDelay_hasDelay S n hu
    have hdel : g.delay_ = some D := by rw [hD, hhd]; rfl
    rw [gen_selector_lateral Y g (nzOf S.K) S.K hK.zero M N hN D hdel (hDs hhd), hY.batchsz]
    simp only [if_true, List.replicate_one, hY.current_at]
    cases currentAtAll S n.cfg sts (selectorDense S.K M N D) <;> rfl

/-- **`Connection.synspike` (receiver `LinearLateral`) is `Delay.synspike`** -/
theorem gen_synspike_lateral (S : SOps α) (hK : OpsAgree S.K) (n : Net α) (M N : Nat) (hN : 0 < N)
    (D : Mat α) (hD : g.delay_ = if n.hasDelay then some D else none) (hDs : n.hasDelay = true → Shape2 D N M)
    (sts : List (St α)) (cur : List α) (hY : SynIs Y S n.cfg g.synapse_ sts cur) :
    LinearLateral__Connection_synspike Y (nzOf S.K) g =
      liftView (Delay.synspike S n (selectorDense S.K M N D) sts) := by
  simp only [LinearLateral__Connection_synspike, lateral_delayedby_ok, lateral_synapse_ok,
    lateral_truthy Y g S n D g.synapse_ hD hY.delay, bind, Except.bind, pure, Except.pure]
  unfold Delay.synspike
  cases hu : useDelay S n with
  | false =>
    simp only [Bool.false_eq_true, if_false, hY.spike]
    cases Outcome.seqOpt (sts.map (spikeNow S)) <;> rfl
  | true =>
    have hhd := useDelay_hasDelay S n hu
    have hdel : g.delay_ = some D := by rw [hD, hhd]; rfl
    rw [gen_selector_lateral Y g (nzOf S.K) S.K hK.zero M N hN D hdel (hDs hhd), hY.batchsz]
    simp only [if_true, List.replicate_one, hY.spike_at]
    cases spikeAtAll S n.cfg sts (selectorDense S.K M N D) <;> rfl

/-- **`LinearLateral.forward`, BOTH branches, is `Delay.denseForward`** (one batch row): the synapse is stepped, then —
by the truthiness of `delayedby` — either `einsum(self.syncurrent, weight, "b i o, o i -> b o") (+ bias)` over the
delay-selected currents or `F.linear(res, weight, bias)`; the result is the model's row seen through
`view(-1, *outshape)`, an error of `current_at` is the model's error. -/
theorem gen_lateral_forward (S : SOps α) (hK : OpsAgree S.K) (n : Net α) (M N : Nat) (hN : 0 < N)
    (hW : Shape2 g.weight_ N M) (hb : ∀ bv, g.bias_ = some bv → bv.length = N)
    (D : Mat α) (hD : g.delay_ = if n.hasDelay then some D else none) (hDs : n.hasDelay = true → Shape2 D N M)
    (inputs xs : List (Tensor α)) (s' : σ) (res : List α) (sts : List (St α))
    (hin : inputs.mapM rearrange_b_flat = .ok xs)
    (hfw : Y.forward g.synapse_ xs = .ok (s', [res])) (hres : res.length = M)
    (hY : SynIs Y S n.cfg s' sts res) (hsts : M ≤ sts.length) :
    LinearLateral_forward Y (nzOf S.K) g inputs =
      (ofOutcome (denseForward S n M N g.weight_ g.bias_ D sts res)).bind fun y =>
        (view_batched [y] g.shape).map fun t => ({ g with synapse_ := s' }, t) := by
  have htr := lateral_truthy Y g S n D s' hD hY.delay
  simp only [lateral_forward_eq, LinearLateral__LinearDense_forward, lateral_like_synaptic_ok, lateral_synapse_ok, lateral_delayedby_ok, lateral_weight_ok,
    lateral_bias_ok, lateral_outshape_ok, lateral_biased_ok, hin, hfw, htr, bind, Except.bind, pure, Except.pure]
  unfold denseForward
  cases hu : useDelay S n with
  | false =>
    have hres' : ∀ r ∈ [res], r.length = M := by intro r hr; simp at hr; rw [hr, hres]
    simp only [Bool.false_eq_true, if_false, F_linear_ok N M g.weight_ hW g.bias_ hb [res] hres', ofOutcome,
      denseFwd, List.map_cons, List.map_nil, linearRow_eq_linearK S.K hK N M g.weight_ hW g.bias_ hb res]
    cases view_batched [linearK S.K N g.weight_ g.bias_ res] g.shape <;> rfl
  | true =>
    have hhd := useDelay_hasDelay S n hu
    have hdel : g.delay_ = some D := by rw [hD, hhd]; rfl
    have hsel : LinearLateral_selector Y (nzOf S.K) { g with synapse_ := s' } = .ok [selectorDense S.K M N D] := by
      rw [gen_selector_lateral Y { g with synapse_ := s' } (nzOf S.K) S.K hK.zero M N hN D hdel (hDs hhd)]
      simp [hY.batchsz]
    simp only [if_true, LinearLateral__Connection_syncurrent, lateral_delayedby_ok, htr, hu, lateral_synapse_ok, hsel,
      hY.current_at, bind, Except.bind, pure, Except.pure]
    cases hc : currentAtAll S n.cfg sts (selectorDense S.K M N D) with
    | valueError => rfl
    | noSlot => rfl
    | ok r =>
      have hsh : Shape2 r M N := currentAtAll_shape S n.cfg sts _ r M N hc hsts (by
        unfold selectorDense; exact shape2_range_map M N _)
      have hr' : ∀ s ∈ [r], Shape2 s M N := by intro s hs; simp at hs; rw [hs]; exact hsh
      simp only [ofOutcome, Except.map, Outcome.map, SView.asSel, einsum_ok N M g.weight_ hW [r] hr', List.map_cons,
        List.map_nil]
      have hrow : ∀ o, Delay.addBias S.K g.bias_ o
            (dotK S.K (r.map fun row => row.getD o (S.K.ofInt 0)) (g.weight_.getD o [])) =
          dot (col r o) (g.weight_.getD o []) + biasAt g.bias_ o := by
        intro o
        rw [addBias_agree S.K hK, dot_eq_dotK S.K hK, hK.zero]; rfl
      simp only [hrow]
      cases hbias : g.bias_ with
      | none =>
        simp only [Option.isSome_none, Bool.false_eq_true, if_false, biasAt, add_zero]
      | some bv =>
        have hl : ∀ row ∈ [(List.range N).map fun o => dot (col r o) (g.weight_.getD o [])], row.length = bv.length := by
          intro row hrow'; simp at hrow'; rw [hrow', hb bv hbias]; simp
        simp only [Option.isSome_some, if_true, notNone, add_mat_vec_ok _ bv hl, List.map_cons, List.map_nil,
          zipWith_range_map N _ bv (hb bv hbias) _ 0, biasAt, vget]

end lateralC06

section lateralModel
variable [Add α] [Mul α] [Zero α] [One α] [Sub α] (Y : SynI σ α (Tensor α) Mat T3) (nz : α → Bool) (g : LateralS σ α)

/-- abstraction: the parameters of a `LinearLateral` as the model's `Conn.Lateral` (`n` = number of neurons; the
synapse, the shape and the mask buffer are not part of the model) -/
def toLat (n : Nat) (g : LateralS σ α) : Conn.Lateral α := ⟨n, g.weight_, g.delay_, g.bias_⟩

theorem eyeMask_shape (n : Nat) : Shape2 (eyeMask n : Mat α) n n := shape2_range_map n n _

/-- **`LinearLateral.weight.setter` is `Lateral.step (.setW v)`**: the assigned value is multiplied by the mask, then
stored by the mixin's setter; nothing else changes. -/
theorem gen_lateral_set_weight (n : Nat) (hm : g.mask = eyeMask n) (v : Mat α) (hv : Shape2 v n n) :
    LinearLateral_weight_setter Y nz g v = .ok ({ g with weight_ := hadamard v (eyeMask n) }, ()) ∧
    (LinearLateral_weight_setter Y nz g v).map (fun r => toLat n r.1) = .ok ((toLat n g).step (.setW v)) := by
  have h : LinearLateral_weight_setter Y nz g v = .ok ({ g with weight_ := hadamard v (eyeMask n) }, ()) := by
    simp only [LinearLateral_weight_setter, LinearLateral__WeightMixin_weight_setter, hm,
      mul_mat_ok n v (eyeMask n) hv (eyeMask_shape n), bind, Except.bind, pure, Except.pure]
  exact ⟨h, by rw [h]; rfl⟩

/-- **`LinearLateral.delay.setter` is `Lateral.step (.setD v)`**: the mask is applied to EVERY assigned delay —
independently of `delayedby` — and the masked value is stored iff a `delay_` parameter exists. -/
theorem gen_lateral_set_delay (n : Nat) (hm : g.mask = eyeMask n) (v : Mat α) (hv : Shape2 v n n) :
    LinearLateral_delay_setter Y nz g v =
      .ok ((match g.delay_ with
            | none => g
            | some _ => { g with delay_ := some (hadamard v (eyeMask n)) }), ()) ∧
    (LinearLateral_delay_setter Y nz g v).map (fun r => toLat n r.1) = .ok ((toLat n g).step (.setD v)) := by
  have h : LinearLateral_delay_setter Y nz g v =
      .ok ((match g.delay_ with
            | none => g
            | some _ => { g with delay_ := some (hadamard v (eyeMask n)) }), ()) := by
    simp only [LinearLateral_delay_setter, LinearLateral__WeightBiasDelayMixin_delay_setter, hm,
      mul_mat_ok n v (eyeMask n) hv (eyeMask_shape n), bind, Except.bind, pure, Except.pure]
    cases g.delay_ <;> rfl
  refine ⟨h, ?_⟩
  rw [h]
  simp only [Except.map, Lateral.step, Lateral.setDelay, toLat]
  rcases hd : g.delay_ with _ | d <;> simp [hd]

/-- **the `bias` setter (the mixin's, reached unchanged from `LinearLateral`) is `Lateral.step (.setB b)`** -/
theorem gen_lateral_set_bias (n : Nat) (b : Vec α) :
    (LinearLateral__WeightBiasMixin_bias_setter Y nz g b).map (fun r => toLat n r.1) = .ok ((toLat n g).step (.setB b)) := by
  simp only [LinearLateral__WeightBiasMixin_bias_setter, Except.map, Lateral.step, Lateral.setBias, toLat,
    bind, Except.bind, pure, Except.pure]
  rcases hd : g.bias_ with _ | d <;> simp [hd]

/-- the `mask` buffer registered by `LinearLateral.__init__` is the model's `eyeMask` -/
theorem gen_lateral_init_mask (n : Nat) : LinearLateral_init_mask n = .ok (eyeMask n : Mat α) := by
  simp [LinearLateral_init_mask, pure, Except.pure, rsub_scalar_mat, torch_eye, eyeMask, List.map_map,
    Function.comp_def]

/-- **`LinearLateral.__init__` builds `Lateral.init`**: the mask buffer, the masked random weight, the masked zero
delay (only when `delay is not None`) and the mixin constructor chain (which registers `bias_` / `delay_` only for
arguments that are not `None`) produce the model's constructor state; `rand` is what `torch.rand(size, size)` drew. -/
theorem gen_lateral_init (n : Nat) (rand : Mat α) (hr : Shape2 rand n n) (delay : Option α) (b : Option (Vec α))
    (g0 : LateralS σ α) (hb0 : g0.bias_ = none) (hd0 : g0.delay_ = none) :
    (do let mask ← LinearLateral_init_mask n
        let w ← LinearLateral_init_weight n mask rand
        let d ← LinearLateral_init_delay n mask delay
        LinearLateral__WeightBiasDelayMixin___init__ Y nz { g0 with mask := mask } w b d) =
      .ok ({ g0 with mask := eyeMask n, weight_ := hadamard rand (eyeMask n), bias_ := b,
                     delay_ := delay.map fun _ => hadamard (torch_zeros2 n n) (eyeMask n) }, ()) ∧
    toLat n { g0 with mask := eyeMask n, weight_ := hadamard rand (eyeMask n), bias_ := b,
                      delay_ := delay.map fun _ => hadamard (torch_zeros2 n n) (eyeMask n) } =
      Lateral.init n rand (delay.map fun _ => torch_zeros2 n n) b := by
  have hz : Shape2 (torch_zeros2 n n : Mat α) n n := by
    refine ⟨by simp [torch_zeros2], ?_⟩
    intro r hr
    simp only [torch_zeros2, List.mem_replicate] at hr
    rw [hr.2]; simp
  constructor
  · simp only [gen_lateral_init_mask, LinearLateral_init_weight, LinearLateral_init_delay,
      LinearLateral__WeightBiasDelayMixin___init__, LinearLateral__WeightBiasMixin___init__,
      LinearLateral__WeightMixin___init__, mul_mat_ok n rand (eyeMask n) hr (eyeMask_shape n),
      mul_mat_ok n (torch_zeros2 n n) (eyeMask n) hz (eyeMask_shape n), bind, Except.bind, pure, Except.pure]
    cases delay <;> cases b <;> simp [hb0, hd0]
    all_goals (cases g0; simp_all)
  · cases delay <;> rfl

/-- the undelayed `forward` in the model's words: `Lateral.fwd` of the abstracted connection -/
theorem gen_lateral_forward_undelayed' (n : Nat) (inputs xs : List (Tensor α))
    (hW : Shape2 g.weight_ n n) (hb : ∀ bv, g.bias_ = some bv → bv.length = n)
    (s' : σ) (res : Mat α)
    (hin : inputs.mapM rearrange_b_flat = .ok xs)
    (hfw : Y.forward g.synapse_ xs = .ok (s', res))
    (hres : ∀ r ∈ res, r.length = n)
    (hund : g.delay_ = none ∨ nz (Y.delay s') = false) :
    LinearLateral_forward Y nz g inputs =
      (view_batched ((toLat n g).fwd res) g.shape).map fun t => ({ g with synapse_ := s' }, t) :=
  gen_lateral_forward_undelayed Y nz g inputs xs n n hW hb s' res hin hfw hres hund
end lateralModel

/-! ## Conv2D -/

section conv
variable [Add α] [Mul α] [Zero α] (Y : SynI σ α (T3 α) T3 T4) (nz : α → Bool) (fp : Bool) (g : ConvS σ α)

@[simp] theorem conv_delay_ok : Conv2D__WeightBiasDelayMixin_delay Y nz fp g = .ok g.delay_ := by
  unfold Conv2D__WeightBiasDelayMixin_delay; cases g.delay_ <;> rfl
@[simp] theorem conv_synapse_ok : Conv2D__Connection_synapse Y nz fp g = .ok g.synapse_ := rfl
@[simp] theorem conv_weight_ok : Conv2D__WeightMixin_weight Y nz fp g = .ok g.weight_ := rfl
@[simp] theorem conv_bias_ok : Conv2D__WeightBiasMixin_bias Y nz fp g = .ok g.bias_ := by
  unfold Conv2D__WeightBiasMixin_bias; cases g.bias_ <;> rfl
@[simp] theorem conv_biased_ok : Conv2D__Connection_biased Y nz fp g = .ok g.bias_.isSome := by
  simp [Conv2D__Connection_biased, bind, Except.bind, pure, Except.pure]
@[simp] theorem conv_batchsz_ok : Conv2D__Connection_batchsz Y nz fp g = .ok (Y.batchsz g.synapse_) := by
  simp [Conv2D__Connection_batchsz, bind, Except.bind, pure, Except.pure]
@[simp] theorem conv_delayedby_ok : Conv2D__Connection_delayedby Y nz fp g =
    .ok (if g.delay_.isSome then some (Y.delay g.synapse_) else none) := by
  simp only [Conv2D__Connection_delayedby, conv_delay_ok, conv_synapse_ok, bind, Except.bind, pure, Except.pure]
  cases g.delay_ <;> rfl

/-- the model's geometry record of a `Conv2D` state -/
def geomOfS (g : ConvS σ α) : Geom :=
  ⟨g.height, g.width, g.channels, g.filters, g.kernel.1, g.kernel.2, g.stride.1, g.stride.2, g.padding.1, g.padding.2,
    g.dilation.1, g.dilation.2⟩

/-- `F.unfold` / `F.fold` do not know the filter count; the model's `unfold` / `fold` do not use it -/
theorem unfold_geomOf (x : List (List (List α))) :
    Conn.unfold (geomOf g.channels g.height g.width g.kernel g.dilation g.padding g.stride) x = Conn.unfold (geomOfS g) x := rfl

theorem fold_geomOf [Add α] (d : List (List α)) :
    fold (geomOf g.channels g.height g.width g.kernel g.dilation g.padding g.stride) d = fold (geomOfS g) d := rfl

theorem shape4_of_shape {x : T4 β} {B C H W : Nat} (h : Shape4 x B C H W) (hB : 0 < B) (hC : 0 < C) (hH : 0 < H) :
    shape4 x = (B, C, H, W) := by
  obtain ⟨h1, h2⟩ := h
  cases x with
  | nil => simp at h1; omega
  | cons s rest =>
    have hs := h2 s List.mem_cons_self
    obtain ⟨hs1, hs2⟩ := hs
    cases s with
    | nil => simp at hs1; omega
    | cons p prest =>
      have hp := hs2 p List.mem_cons_self
      have e1 : cols ((p :: prest) :: rest) = C := hs1
      have e2 : cols (p :: prest) = H := hp.1
      have e3 : cols p = W := cols_of_shape hp hH
      simp only [shape4, List.headD_cons, h1, e1, e2, e3]

/-- **`Conv2D.like_synaptic` is `Conn.unfold` per sample** (both dtype branches: the casts are not represented) -/
theorem gen_conv_like_synaptic (xs : T4 α) (B : Nat) (hx : Shape4 xs B g.channels g.height g.width)
    (hB : 0 < B) (hC : 0 < g.channels) (hH : 0 < g.height) (hs : 0 < g.stride.1 ∧ 0 < g.stride.2)
    (hO : 0 < (geomOfS g).OH ∧ 0 < (geomOfS g).OW) :
    Conv2D_like_synaptic Y nz fp g xs = .ok (xs.map (Conn.unfold (geomOfS g))) := by
  have hF : F_unfold xs g.kernel g.dilation g.padding g.stride = .ok (xs.map (Conn.unfold (geomOfS g))) := by
    unfold F_unfold
    simp only [shape4_of_shape hx hB hC hH]
    rw [if_pos]
    · congr 1
    · refine ⟨hs.1, hs.2, ?_, ?_⟩
      · have := hO.1; dsimp only [Geom.OH, geomOfS, geomOf] at this ⊢; omega
      · have := hO.2; dsimp only [Geom.OW, geomOfS, geomOf] at this ⊢; omega
  unfold Conv2D_like_synaptic
  cases fp <;> simp [hF, bind, Except.bind, pure, Except.pure]

/-- the model's `convFwd` after the unfold: flattened-kernel matmul, reshape, bias — on synapse currents `r : N × L` -/
def convFwdCur (G : Geom) (K : T4 α) (b : Option (Vec α)) (r : Mat α) : T3 α :=
  Conn.addBias ((matmul G.L (flattenKernel K) r).map (unflat G.OH G.OW)) b

theorem convFwd_eq_cur (G : Geom) (K : T4 α) (b : Option (Vec α)) (x : T3 α) :
    convFwd G K b x = convFwdCur G K b (Conn.unfold G x) := rfl

theorem flattenKernel_rows (K : T4 α) (F C KH KW : Nat) (hK : Shape4 K F C KH KW) :
    ∀ a ∈ flattenKernel K, a.length = C * KH * KW := by
  intro a ha
  obtain ⟨i, hi, rfl⟩ := List.getElem_of_mem ha
  have hF : (flattenKernel K).length = F := by simp [flattenKernel, hK.1]
  have := flattenKernel_row_length K F C KH KW hK i (by omega)
  rwa [List.getD_eq_getElem?_getD, List.getElem?_eq_getElem hi] at this

theorem matmul_ok (A : Mat α) (X : T3 α) (N L : Nat) (hN : 0 < N) (hA : ∀ a ∈ A, a.length = N)
    (hX : ∀ x ∈ X, Shape2 x N L) : torch_matmul_m_t3 A X = .ok (X.map fun x => matmul L A x) := by
  unfold torch_matmul_m_t3
  rw [if_pos]
  · congr 1
    apply List.map_congr_left
    intro x hx
    rw [cols_of_shape (hX x hx) hN]
  · simp only [List.all_eq_true, beq_iff_eq]
    intro x hx a ha
    rw [hA a ha, (hX x hx).1]

/-- **Undelayed `Conv2D.forward` is `Conn.convFwd` without its unfold, per sample**: on the currents `res : B × N × L`
the synapse returned, `matmul(flattened kernel, res)`, reshape `(oh ow) -> oh ow`, bias. -/
theorem gen_conv_forward_undelayed_cur (G : Geom) (hG : geomOfS g = G) (hoh : g.outheight = G.OH) (how : g.outwidth = G.OW)
    (hN : 0 < G.N) (hK : Shape4 g.weight_ G.F G.C G.KH G.KW) (hb : ∀ bv, g.bias_ = some bv → bv.length = G.F)
    (inputs : List (T4 α)) (unf : List (T3 α)) (s' : σ) (res : T3 α)
    (hin : inputs.mapM (fun inp => Conv2D_like_synaptic Y nz fp g inp) = .ok unf)
    (hfw : Y.forward g.synapse_ unf = .ok (s', res))
    (hres : ∀ r ∈ res, Shape2 r G.N G.L)
    (hund : g.delay_ = none ∨ nz (Y.delay s') = false) :
    Conv2D_forward Y nz fp g inputs = .ok ({ g with synapse_ := s' }, res.map (convFwdCur G g.weight_ g.bias_)) := by
  have htr : ConnPrelude.truthy nz (if g.delay_.isSome then some (Y.delay s') else none) = false := by
    rcases hund with h | h
    · simp [h, ConnPrelude.truthy]
    · cases g.delay_ <;> simp [ConnPrelude.truthy, h]
  have hrows := flattenKernel_rows g.weight_ G.F G.C G.KH G.KW hK
  have hmm := matmul_ok (flattenKernel g.weight_) res G.N G.L hN hrows hres
  have hre : rearrange_bf_ohow (res.map fun x => matmul G.L (flattenKernel g.weight_) x) G.OH G.OW =
      .ok (res.map fun x => (matmul G.L (flattenKernel g.weight_) x).map (unflat G.OH G.OW)) := by
    unfold rearrange_bf_ohow
    rw [if_pos]
    · simp [List.map_map]
    · simp only [List.all_eq_true, beq_iff_eq, List.mem_map]
      rintro s ⟨x, _, rfl⟩ row hrow
      simp only [matmul, List.mem_map] at hrow
      obtain ⟨a, _, rfl⟩ := hrow
      simp [Geom.L]
  simp only [Conv2D_forward, conv_synapse_ok, conv_delayedby_ok, conv_weight_ok, conv_bias_ok, conv_biased_ok, hin, hfw,
    htr, rearrange_fchw_f_chw, hmm, hoh, how, hre, bind, Except.bind, pure, Except.pure, Bool.false_eq_true, if_false]
  cases hbias : g.bias_ with
  | none => simp [convFwdCur, Conn.addBias]
  | some bv =>
    have hadd : add_t4_f (res.map fun x => (matmul G.L (flattenKernel g.weight_) x).map (unflat G.OH G.OW)) bv =
        .ok (res.map (convFwdCur G g.weight_ (some bv))) := by
      unfold add_t4_f
      rw [if_pos]
      · simp [List.map_map, convFwdCur, Function.comp_def]
      · simp only [List.all_eq_true, beq_iff_eq, List.mem_map]
        rintro y ⟨x, _, rfl⟩
        simp [matmul, flattenKernel, hK.1, hb bv hbias]
    simp [tensorArg, hadd]

/-- **Undelayed `Conv2D.forward` is `Conn.convFwd`** on every sample of the batch, when the synapse hands the unfolded
input on as its current (C05's setting: `like_synaptic` = `unfold`, then kernel matmul, reshape, bias) -/
theorem gen_conv_forward_undelayed (G : Geom) (hG : geomOfS g = G) (hoh : g.outheight = G.OH) (how : g.outwidth = G.OW)
    (hN : 0 < G.N) (hK : Shape4 g.weight_ G.F G.C G.KH G.KW) (hb : ∀ bv, g.bias_ = some bv → bv.length = G.F)
    (xs : T4 α) (B : Nat) (hx : Shape4 xs B G.C G.H G.W) (hB : 0 < B) (hH : 0 < G.H)
    (hs : 0 < G.sh ∧ 0 < G.sw) (hO : 0 < G.OH ∧ 0 < G.OW) (s' : σ)
    (hfw : Y.forward g.synapse_ [xs.map (Conn.unfold G)] = .ok (s', xs.map (Conn.unfold G)))
    (hund : g.delay_ = none ∨ nz (Y.delay s') = false) :
    Conv2D_forward Y nz fp g [xs] = .ok ({ g with synapse_ := s' }, xs.map (convFwd G g.weight_ g.bias_)) := by
  subst hG
  have hC : 0 < g.channels := by
    unfold Geom.N at hN
    rcases Nat.eq_zero_or_pos g.channels with h | h
    · simp [geomOfS, h] at hN
    · exact h
  have hls := gen_conv_like_synaptic Y nz fp g xs B hx hB hC hH hs hO
  have hin : [xs].mapM (fun inp => Conv2D_like_synaptic Y nz fp g inp) = .ok [xs.map (Conn.unfold (geomOfS g))] := by
    simp [List.mapM_cons, hls, bind, Except.bind, pure, Except.pure]
  rw [gen_conv_forward_undelayed_cur Y nz fp g (geomOfS g) rfl hoh how hN hK hb [xs] _ s' _ hin hfw ?_ hund]
  · simp [List.map_map, convFwd_eq_cur, Function.comp_def]
  · intro r hr
    simp only [List.mem_map] at hr
    obtain ⟨x, _, rfl⟩ := hr
    exact shape2_range_map _ _ _
end conv

section convMore
variable [Add α] [Mul α] [Zero α] (Y : SynI σ α (T3 α) T3 T4) (nz : α → Bool) (fp : Bool) (g : ConvS σ α)

theorem flatten_range_replicate (N L : Nat) (f : Nat → β) :
    ((List.range N).map fun n => List.replicate L (f n)).flatten = (List.range (N * L)).map fun e => f (e / L) := by
  induction N with
  | zero => simp
  | succ k ih =>
    rw [List.range_succ, List.map_append, List.flatten_append, ih, Nat.succ_mul, List.range_add, List.map_append]
    congr 1
    simp only [List.map_cons, List.map_nil, List.flatten_cons, List.flatten_nil, List.append_nil, List.map_map]
    apply List.ext_getElem (by simp)
    intro i h1 h2
    simp at h1
    simp only [List.getElem_replicate, List.getElem_map, List.getElem_range, Function.comp]
    rw [div_of_lt k L i h1]

/-- the selector of one sample: entry `[n][l][f]` is the delay of filter `f` at flattened kernel index `n` -/
def convSel (N L F : Nat) (Dk : Mat α) : T3 α :=
  (List.range N).map fun n => List.replicate L ((List.range F).map fun f => mget Dk f n)

/-- flattening the `(n, l)` axes of the program's selector (element `(n, l)` at position `n·L + l`) gives
`Delay.selectorConv` -/
theorem convSel_flatten (K : Ops α) (h0 : K.ofInt 0 = 0) (N L F : Nat) (Dk : Mat α) :
    (convSel N L F Dk).flatten = selectorConv K N L F Dk := by
  unfold convSel selectorConv
  rw [flatten_range_replicate N L (fun n => (List.range F).map fun f => mget Dk f n), h0]
  rfl

theorem conv_selector_of (D : T4 α) (N F : Nat) (hF : 0 < F) (hD : Shape2 (flattenKernel D) F N) (b l : Nat) :
    expand4 (rearrange_fchw_1_chw_1_f D) b l = .ok (List.replicate b (convSel N l F (flattenKernel D))) := by
  unfold expand4 rearrange_fchw_1_chw_1_f
  simp only [hD.1, cols_of_shape hD hF]
  rw [if_pos]
  · simp [expand3_one, convSel, List.map_map, Function.comp_def, stretch]
  · simp [List.all_eq_true]

theorem flattenKernel_shape (K : T4 α) (F C KH KW : Nat) (hK : Shape4 K F C KH KW) :
    Shape2 (flattenKernel K) F (C * KH * KW) :=
  ⟨by simp [flattenKernel, hK.1], flattenKernel_rows K F C KH KW hK⟩

/-- **`Conv2D.selector` is `Delay.selectorConv`** (`rearrange(delays, "f c h w -> 1 (c h w) 1 f")`, expanded to
`batchsz` samples and `synapse.shape[-1]` windows): each sample is `convSel`, whose `(n, l)`-flattening is
`selectorConv` of the flattened delays (`convSel_flatten`). -/
theorem gen_selector_conv (G : Geom) (hF : 0 < G.F) (D : T4 α) (hd : g.delay_ = some D)
    (hD : Shape4 D G.F G.C G.KH G.KW) :
    Conv2D_selector Y nz fp g =
      .ok (List.replicate (Y.batchsz g.synapse_) (convSel G.N (Y.lastdim g.synapse_) G.F (flattenKernel D))) := by
  simp only [Conv2D_selector, conv_delayedby_ok, conv_delay_ok, conv_batchsz_ok, conv_weight_ok, conv_synapse_ok, hd,
    bind, Except.bind, pure, Except.pure, Option.isSome_some, if_true, tensorArg,
    conv_selector_of D G.N G.F hF (flattenKernel_shape D G.F G.C G.KH G.KW hD)]

/-- without a `delay_` parameter the selector is built from `zeros_like(weight)` -/
theorem gen_selector_conv_none (G : Geom) (hF : 0 < G.F) (hd : g.delay_ = none)
    (hK : Shape4 g.weight_ G.F G.C G.KH G.KW) :
    Conv2D_selector Y nz fp g =
      .ok (List.replicate (Y.batchsz g.synapse_)
        (convSel G.N (Y.lastdim g.synapse_) G.F (flattenKernel (zeros_like_t4 g.weight_)))) := by
  have hz : Shape4 (zeros_like_t4 g.weight_) G.F G.C G.KH G.KW := by
    refine ⟨by simp [zeros_like_t4, hK.1], ?_⟩
    intro p hp
    simp only [zeros_like_t4, List.mem_map] at hp
    obtain ⟨q, hq, rfl⟩ := hp
    have h3 := hK.2 q hq
    refine ⟨by simp [h3.1], ?_⟩
    intro m hm
    simp only [List.mem_map] at hm
    obtain ⟨m0, hm0, rfl⟩ := hm
    exact zeros_like_mat_shape (h3.2 m0 hm0)
  simp only [Conv2D_selector, conv_delayedby_ok, conv_delay_ok, conv_batchsz_ok, conv_weight_ok, conv_synapse_ok, hd,
    bind, Except.bind, pure, Except.pure, Option.isSome_none, Bool.false_eq_true, if_false, tensorArg,
    conv_selector_of (zeros_like_t4 g.weight_) G.N G.F hF (flattenKernel_shape _ G.F G.C G.KH G.KW hz)]

/-- **`Conv2D.presyn_receptive` is `Conn.presynConv`** (`"b (c kh kw) l ... -> b (...) c kh kw l"` on shape and
row-major data) -/
theorem gen_conv_presyn_receptive (B : Nat) (rest : List Nat) (d : List α) :
    Conv2D_presyn_receptive Y nz fp g (B :: (geomOfS g).N :: (geomOfS g).L :: rest, d) =
      .ok (presynConv (geomOfS g) B (prod rest) d) := by
  simp only [Conv2D_presyn_receptive, rearrange_presyn_conv, bind, Except.bind, pure, Except.pure]
  rw [if_pos (by simp [Geom.N, geomOfS])]
  rfl

/-- **`Conv2D.postsyn_receptive` is `Conn.postsynConv`** (`"b f oh ow -> b f 1 1 1 (oh ow)"`) -/
theorem gen_conv_postsyn_receptive (B : Nat) (d : List α) :
    Conv2D_postsyn_receptive Y nz fp g ([B, (geomOfS g).F, (geomOfS g).OH, (geomOfS g).OW], d) =
      .ok (postsynConv (geomOfS g) B d) := by
  simp only [Conv2D_postsyn_receptive, rearrange_postsyn_conv, bind, Except.bind, pure, Except.pure]
  rfl

/-- **`Conv2D.like_input` is `fold(data) / fold(ones)` with the model's `Conn.fold`**, per sample (both dtype
branches); `Props/C05.lean :: like_input_like_synaptic_id` is about exactly these two folds (`foldAt`, and
`foldAt` of all-ones = `coverCount`). -/
theorem gen_conv_like_input [Div α] [One α] (data : T3 α) (hC : 0 < (geomOfS g).KH * (geomOfS g).KW)
    (hs : 0 < g.stride.1 ∧ 0 < g.stride.2) (hne : data ≠ [])
    (hd : ∀ x ∈ data, Shape2 x (geomOfS g).N (geomOfS g).L) (hN : 0 < (geomOfS g).N) :
    Conv2D_like_input Y nz fp g data =
      .ok (data.map fun x => List.zipWith (List.zipWith (List.zipWith (· / ·))) (fold (geomOfS g) x)
        (fold (geomOfS g) (x.map fun row => row.map fun _ => (1 : α)))) := by
  have hcols : ∀ dd : T3 α, dd ≠ [] → (∀ x ∈ dd, Shape2 x (geomOfS g).N (geomOfS g).L) →
      F_fold dd (g.height, g.width) g.kernel g.dilation g.padding g.stride = .ok (dd.map (fold (geomOfS g))) := by
    intro dd hne' hdd
    have hc : cols dd = g.channels * g.kernel.1 * g.kernel.2 := by
      cases dd with
      | nil => exact absurd rfl hne'
      | cons x rest => exact (hdd x List.mem_cons_self).1
    have hch : g.channels * g.kernel.1 * g.kernel.2 / (g.kernel.1 * g.kernel.2) = g.channels := by
      rw [Nat.mul_assoc]; exact Nat.mul_div_cancel _ hC
    unfold F_fold
    simp only [hc, hch]
    rw [if_pos]
    · congr 1
    · refine ⟨by have := hC; simp only [geomOfS] at this; omega, ?_, hs.1, hs.2, ?_⟩
      · rw [Nat.mul_assoc]; exact Nat.mul_mod_left _ _
      · simp only [List.all_eq_true, beq_iff_eq]
        intro x hx row hrow
        exact (hdd x hx).2 row hrow
  have h1 := hcols data hne hd
  have h2 := hcols (ones_like_t3 data) (by simp [ones_like_t3, hne]) (by
    intro x hx
    simp only [ones_like_t3, List.mem_map] at hx
    obtain ⟨x0, hx0, rfl⟩ := hx
    refine ⟨by simp [(hd x0 hx0).1], ?_⟩
    intro row hrow
    simp only [List.mem_map] at hrow
    obtain ⟨r0, hr0, rfl⟩ := hrow
    simp [(hd x0 hx0).2 r0 hr0])
  have hz : List.zipWith (List.zipWith (List.zipWith (List.zipWith (· / ·)))) (data.map (fold (geomOfS g)))
        ((ones_like_t3 data).map (fold (geomOfS g))) =
      data.map fun x => List.zipWith (List.zipWith (List.zipWith (· / ·))) (fold (geomOfS g) x)
        (fold (geomOfS g) (x.map fun row => row.map fun _ => (1 : α))) := by
    unfold ones_like_t3
    rw [List.map_map, List.zipWith_map, List.zipWith_self]
    rfl
  unfold Conv2D_like_input
  cases fp <;> simp only [h1, h2, div_t4, hz, bind, Except.bind, pure, Except.pure, Bool.false_eq_true, if_false, if_true]
end convMore

section convC06
variable [CommSemiring α] (Y : SynI σ α (T3 α) T3 T4) (fp : Bool) (g : ConvS σ α)

/-- seen through the interface, the (stepped) synapse `s` of a `Conv2D` (shape `N × L`) IS the element list `sts` of
`Model/Delay.lean` for ONE batch row, element `(n, l)` at list position `n·L + l`: a selector-shaped tensor
`N × L × R` is read with its `(n, l)` axes flattened, and the result regrouped (`unflat N L`) -/
structure SynIsConv (Y : SynI σ α (T3 α) T3 T4) (S : SOps α) (cfg : Cfg α) (s : σ) (sts : List (St α)) (cur : Mat α)
    (N L : Nat) : Prop where
  delay : Y.delay s = cfg.delay
  batchsz : Y.batchsz s = 1
  lastdim : Y.lastdim s = L
  current : Y.current s = .ok [cur]
  current_at : ∀ sel : T3 α,
    Y.current_at s [sel] = (ofOutcome (currentAtAll S cfg sts sel.flatten)).map fun r => [unflat N L r]

theorem unflat_map {γ : Type} (OH OW : Nat) (row : List β) (h : β → γ) :
    unflat OH OW (row.map h) = (unflat OH OW row).map (·.map h) := by
  simp [unflat, List.map_drop, List.map_take, List.map_map, Function.comp_def]

/-- the bias after the reshape (program) is the bias inside `Delay.convK` (model) -/
theorem addBias_convK (K : Ops α) (h : OpsAgree K) (L F OH OW : Nat) (A : Mat α) (b : Option (Vec α))
    (hb : ∀ bv, b = some bv → bv.length = F) (x : Nat → Nat → List α) :
    Conn.addBias (((List.range F).map fun f => (List.range L).map fun l => dot (A.getD f []) (x f l)).map
      (unflat OH OW)) b = (convK K L F A b x).map (unflat OH OW) := by
  unfold convK
  simp only [addBias_agree K h, ← dot_eq_dotK K h, List.map_map]
  cases b with
  | none => simp [Conn.addBias, biasAt]
  | some bv =>
    simp only [Conn.addBias, biasAt]
    rw [zipWith_range_map F _ bv (hb bv rfl) _ 0]
    apply List.map_congr_left
    intro f _
    simp only [Function.comp]
    rw [← unflat_map, List.map_map]
    rfl

theorem take_drop_getD (r : List (List α)) (n L l f : Nat) (hl : l < L) :
    ((((r.drop (n * L)).take L).map fun row => vget row f).getD l 0) = (r.getD (n * L + l) []).getD f 0 := by
  simp only [List.getD_eq_getElem?_getD, List.getElem?_map, List.getElem?_take, hl, if_true, List.getElem?_drop]
  cases r[n * L + l]? <;> simp [vget]

theorem conv_truthy (S : SOps α) (n : Net α) (D : T4 α) (s : σ)
    (hD : g.delay_ = if n.hasDelay then some D else none) (hdelay : Y.delay s = n.cfg.delay) :
    ConnPrelude.truthy (nzOf S.K) (if g.delay_.isSome then some (Y.delay s) else none) = useDelay S n := by
  rw [truthy_nzOf, useDelay, delayedby, hD, hdelay]
  cases n.hasDelay <;> rfl

/-- **`Connection.syncurrent` (receiver `Conv2D`) is `Delay.syncurrent`** read with the `(n, l)` axes flattened -/
theorem gen_syncurrent_conv (S : SOps α) (hK : OpsAgree S.K) (n : Net α) (G : Geom) (hF : 0 < G.F)
    (D : T4 α) (hD : g.delay_ = if n.hasDelay then some D else none)
    (hDs : n.hasDelay = true → Shape4 D G.F G.C G.KH G.KW)
    (sts : List (St α)) (cur : Mat α) (hY : SynIsConv Y S n.cfg g.synapse_ sts cur G.N G.L) :
    Conv2D__Connection_syncurrent Y (nzOf S.K) fp g =
      match Delay.syncurrent S n (selectorConv S.K G.N G.L G.F (flattenKernel D)) sts cur.flatten with
      | .ok (.delayed r) => .ok (.delayed [unflat G.N G.L r])
      | .ok (.present _) => .ok (.present [cur])
      | .valueError => .error .ValueError
      | .noSlot => .error .IndexError := by
  simp only [Conv2D__Connection_syncurrent, conv_delayedby_ok, conv_synapse_ok,
    conv_truthy Y g S n D g.synapse_ hD hY.delay, bind, Except.bind, pure, Except.pure]
  unfold Delay.syncurrent
  cases hu : useDelay S n with
  | false => simp [hY.current]
  | true =>
    have hhd := useDelay_hasDelay S n hu
    have hdel : g.delay_ = some D := by rw [hD, hhd]; rfl
    rw [gen_selector_conv Y (nzOf S.K) fp g G hF D hdel (hDs hhd), hY.batchsz, hY.lastdim]
    simp only [if_true, List.replicate_one, hY.current_at, convSel_flatten S.K hK.zero]
    cases currentAtAll S n.cfg sts (selectorConv S.K G.N G.L G.F (flattenKernel D)) <;> rfl

/-- **`Conv2D.forward`, BOTH branches, is `Delay.convForward`** (one batch row; synapse element `(n, l)` at position
`n·L + l`): delayed — `einsum(kernel, rearrange(self.syncurrent, "b n l f -> b f n l"), "f n, b f n l -> b f l")`,
undelayed — `matmul(kernel, res)`; the model's `F × L` result is then reshaped to `F × OH × OW` (`unflat`), the bias
being added after the reshape by the program and inside `convK` by the model. -/
theorem gen_conv_forward (S : SOps α) (hK : OpsAgree S.K) (n : Net α) (G : Geom) (hG : geomOfS g = G)
    (hoh : g.outheight = G.OH) (how : g.outwidth = G.OW) (hN : 0 < G.N) (hL : 0 < G.L) (hF : 0 < G.F)
    (hW : Shape4 g.weight_ G.F G.C G.KH G.KW) (hb : ∀ bv, g.bias_ = some bv → bv.length = G.F)
    (D : T4 α) (hD : g.delay_ = if n.hasDelay then some D else none)
    (hDs : n.hasDelay = true → Shape4 D G.F G.C G.KH G.KW)
    (inputs : List (T4 α)) (unf : List (T3 α)) (s' : σ) (res : Mat α) (sts : List (St α))
    (hin : inputs.mapM (fun inp => Conv2D_like_synaptic Y (nzOf S.K) fp g inp) = .ok unf)
    (hfw : Y.forward g.synapse_ unf = .ok (s', [res])) (hres : Shape2 res G.N G.L)
    (hY : SynIsConv Y S n.cfg s' sts res G.N G.L) (hsts : G.N * G.L ≤ sts.length) :
    Conv2D_forward Y (nzOf S.K) fp g inputs =
      (ofOutcome (convForward S n G.N G.L G.F (flattenKernel g.weight_) g.bias_ (flattenKernel D) sts res.flatten)).map
        fun y => ({ g with synapse_ := s' }, [y.map (unflat G.OH G.OW)]) := by
  have htr := conv_truthy Y g S n D s' hD hY.delay
  have hA := flattenKernel_shape g.weight_ G.F G.C G.KH G.KW hW
  unfold convForward
  cases hu : useDelay S n with
  | false =>
    have hund : g.delay_ = none ∨ nzOf S.K (Y.delay s') = false := by
      rw [hu] at htr
      cases hd : g.delay_ with
      | none => exact Or.inl rfl
      | some d => rw [hd] at htr; exact Or.inr (by simpa [ConnPrelude.truthy] using htr)
    rw [gen_conv_forward_undelayed_cur Y (nzOf S.K) fp g G hG hoh how hN hW hb inputs unf s' [res] hin hfw
      (by intro r hr; simp at hr; rw [hr]; exact hres) hund]
    simp only [Bool.false_eq_true, if_false, ofOutcome, Except.map, List.map_cons, List.map_nil]
    congr 3
    rw [← addBias_convK S.K hK G.L G.F G.OH G.OW (flattenKernel g.weight_) g.bias_ hb]
    unfold convFwdCur matmul
    congr 2
    rw [map_eq_range_map (flattenKernel g.weight_) _ [], hA.1]
    apply List.map_congr_left
    intro f _
    apply List.map_congr_left
    intro l hl
    congr 1
    unfold col
    rw [map_eq_range_map res _ [], hres.1]
    apply List.map_congr_left
    intro nn _
    rw [hK.zero, flatten_getD res G.L hres.2 nn l (List.mem_range.mp hl) 0]
    rfl
  | true =>
    have hhd := useDelay_hasDelay S n hu
    have hdel : g.delay_ = some D := by rw [hD, hhd]; rfl
    have hsel : Conv2D_selector Y (nzOf S.K) fp { g with synapse_ := s' } =
        .ok [convSel G.N G.L G.F (flattenKernel D)] := by
      rw [gen_selector_conv Y (nzOf S.K) fp { g with synapse_ := s' } G hF D hdel (hDs hhd)]
      simp [hY.batchsz, hY.lastdim]
    simp only [Conv2D_forward, conv_synapse_ok, conv_delayedby_ok, conv_weight_ok, conv_bias_ok, conv_biased_ok, hin,
      hfw, htr, hu, if_true, Conv2D__Connection_syncurrent, hsel, hY.current_at, convSel_flatten S.K hK.zero,
      rearrange_fchw_f_chw, bind, Except.bind, pure, Except.pure]
    simp only [hoh, how]
    cases hc : currentAtAll S n.cfg sts (selectorConv S.K G.N G.L G.F (flattenKernel D)) with
    | valueError => rfl
    | noSlot => rfl
    | ok r =>
      have hsh : Shape2 r (G.N * G.L) G.F := currentAtAll_shape S n.cfg sts _ r (G.N * G.L) G.F hc hsts (by
        unfold selectorConv; exact shape2_range_map _ _ _)
      have hrlen : r.length = G.N * G.L := hsh.1
      have hNL : 0 < G.N * G.L := Nat.mul_pos hN hL
      obtain ⟨k, hk⟩ := Nat.exists_eq_succ_of_ne_zero (Nat.ne_of_gt hN)
      -- first slice of the regrouped result
      have hhead : (unflat G.N G.L r).headD [] = r.take G.L := by
        rw [hk]; simp [unflat, List.range_succ_eq_map]
      have hcolsF : cols ((unflat G.N G.L r).headD []) = G.F := by
        rw [hhead]
        cases hr : r with
        | nil => rw [hr] at hrlen; simp at hrlen; omega
        | cons x rest =>
          obtain ⟨l', hl'⟩ := Nat.exists_eq_succ_of_ne_zero (Nat.ne_of_gt hL)
          rw [hl']
          simp only [List.take_succ_cons, cols]
          exact hsh.2 x (by rw [hr]; exact List.mem_cons_self)
      let Ymat : Mat α := (List.range G.F).map fun f => (List.range G.L).map fun l =>
        dot ((flattenKernel g.weight_).getD f [])
          ((List.range G.N).map fun nn => (r.getD (nn * G.L + l) []).getD f (S.K.ofInt 0))
      have hne : unflat G.N G.L r ≠ [] := by rw [hk]; simp [unflat, List.range_succ_eq_map]
      have hpsiL : ∀ f, cols ((unflat G.N G.L r).map fun m => m.map fun row => vget row f) = G.L := by
        intro f
        cases hu' : unflat G.N G.L r with
        | nil => exact absurd hu' hne
        | cons m rest =>
          have hm : m = r.take G.L := by have := hhead; rw [hu'] at this; simpa using this
          simp only [List.map_cons, cols, List.length_map, hm, List.length_take, hrlen]
          have : G.L ≤ G.N * G.L := Nat.le_mul_of_pos_left _ hN
          omega
      have hE : einsum_fn_bfnl_bfl (flattenKernel g.weight_) (rearrange_bnlf_bfnl [unflat G.N G.L r]) = .ok [Ymat] := by
        unfold einsum_fn_bfnl_bfl rearrange_bnlf_bfnl
        simp only [List.map_cons, List.map_nil, hcolsF]
        rw [if_pos]
        · rw [zipWith_map_range_right G.F _ hA.1 _ _ []]
          congr 2
          apply List.map_congr_left
          intro f _
          rw [hpsiL f]
          apply List.map_congr_left
          intro l hl
          congr 1
          unfold col unflat
          rw [List.map_map, List.map_map]
          apply List.map_congr_left
          intro nn _
          have h1 := take_drop_getD r nn G.L l f (List.mem_range.mp hl)
          simp only [Function.comp, vget] at h1 ⊢
          rw [hK.zero]; exact h1
        · simp only [List.all_cons, List.all_nil, Bool.and_true, List.length_map, List.length_range, hA.1,
            beq_self_eq_true, Bool.true_and, List.all_eq_true]
          intro b hb'
          rw [zipWith_map_range_right G.F _ hA.1 _ _ []] at hb'
          simp only [List.mem_map, List.mem_range] at hb'
          obtain ⟨f, hf, rfl⟩ := hb'
          simp only [List.length_map, unflat, List.length_range, id, beq_iff_eq]
          have := hA.2 _ (List.getElem_mem (by rw [hA.1]; exact hf) : (flattenKernel g.weight_)[f]'(by rw [hA.1]; exact hf) ∈ _)
          rw [List.getD_eq_getElem?_getD, List.getElem?_eq_getElem (by rw [hA.1]; exact hf)]
          simp only [Option.getD_some, this, Geom.N]
      have hR : rearrange_bf_ohow [Ymat] G.OH G.OW = .ok [Ymat.map (unflat G.OH G.OW)] := by
        unfold rearrange_bf_ohow
        rw [if_pos]
        · rfl
        · simp [Ymat, List.all_eq_true, Geom.L]
      simp only [ofOutcome, Except.map, Outcome.map, SView.asSel, hE, hR]
      have hfin := addBias_convK S.K hK G.L G.F G.OH G.OW (flattenKernel g.weight_) g.bias_ hb
        (fun f l => (List.range G.N).map fun nn => (r.getD (nn * G.L + l) []).getD f (S.K.ofInt 0))
      cases hbias : g.bias_ with
      | none =>
        rw [hbias] at hfin
        simp only [Option.isSome_none, Bool.false_eq_true, if_false, ← hfin, Conn.addBias]
        rfl
      | some bv =>
        rw [hbias] at hfin
        have hadd : add_t4_f [Ymat.map (unflat G.OH G.OW)] bv = .ok [Conn.addBias (Ymat.map (unflat G.OH G.OW)) (some bv)] := by
          unfold add_t4_f
          rw [if_pos]
          · rfl
          · simp [Ymat, hb bv hbias]
        simp only [Option.isSome_some, if_true, tensorArg, hadd, ← hfin]
        rfl
end convC06

/-! ## Non-vacuity: the hypotheses are satisfiable, the programs compute -/

/-- the real numbers with `realOps` (the instance `Props/C06.lean` is about) satisfy `OpsAgree` -/
theorem opsAgree_real : OpsAgree realSOps.K :=
  ⟨fun _ _ => rfl, fun _ _ => rfl, by simp [realSOps, realOps]⟩

/-- the synapse of `Model/Delay.lean` (element states and the currents of the last step, ONE batch row) behind the
interface: `synapse(x)` is `Delay.stepAll` on the single flattened input -/
def modelSyn (S : SOps α) (cfg : Cfg α) : SynI (List (St α) × List α) α (Tensor α) Mat T3 where
  forward := fun s inputs =>
    match inputs with
    | [x] =>
      match stepAll S cfg s.1 x.2 with
      | some r => .ok ((r.map (·.1), r.map (·.2)), [r.map (·.2)])
      | none => .error .Other
    | _ => .error .Other
  delay := fun _ => cfg.delay
  batchsz := fun _ => 1
  lastdim := fun s => s.1.length
  current := fun s => .ok [s.2]
  spike := fun s => (ofOutcome (Outcome.seqOpt (s.1.map (spikeNow S)))).map fun v => [v]
  current_at := fun s sel =>
    match sel with
    | [sel1] => (ofOutcome (currentAtAll S cfg s.1 sel1)).map fun r => [r]
    | _ => .error .Other
  spike_at := fun s sel =>
    match sel with
    | [sel1] => (ofOutcome (spikeAtAll S cfg s.1 sel1)).map fun r => [r]
    | _ => .error .Other

/-- `SynIs` holds of the model synapse in every state -/
theorem modelSyn_is (S : SOps α) (cfg : Cfg α) (sts : List (St α)) (cur : List α) :
    SynIs (modelSyn S cfg) S cfg (sts, cur) sts cur :=
  ⟨rfl, rfl, rfl, rfl, fun _ => rfl, fun _ => rfl⟩

/-- a synapse that is never used (setters, selector without delays) -/
def idleSyn : SynI Unit Int (Tensor Int) Mat T3 :=
  ⟨fun _ _ => .error .Other, fun _ => 0, fun _ => 1, fun _ => 1, fun _ => .error .Other, fun _ => .error .Other,
    fun _ _ => .error .Other, fun _ _ => .error .Other⟩

/-- a 2-neuron lateral connection with delays -/
def exLatS : LateralS Unit Int := ⟨(), [[0, 5], [6, 0]], none, some [[0, 0], [0, 0]], [2], eyeMask 2⟩

-- the regenerated delay setter masks the assigned value (diagonal 0), the weight setter likewise
example : (LinearLateral_delay_setter idleSyn (· != 0) exLatS [[9, 8], [7, 6]]).toOption.map (·.1.delay_) =
    some (some [[0, 8], [7, 0]]) := by decide
example : (LinearLateral_weight_setter idleSyn (· != 0) exLatS [[1, 2], [3, 4]]).toOption.map (·.1.weight_) =
    some [[0, 2], [3, 0]] := by decide
-- a value that does not broadcast against the mask raises as torch does
example : (LinearLateral_weight_setter idleSyn (· != 0) exLatS [[1, 2, 3], [4, 5, 6]]).toOption.map (·.1.weight_) = none := by
  decide
-- the selector of a dense connection with delays [[1,2,3],[4,5,6]] (2 outputs, 3 inputs) is its transpose
example : (LinearDense_selector idleSyn (· != 0)
    (⟨(), [[0, 0, 0], [0, 0, 0]], none, some [[1, 2, 3], [4, 5, 6]], [3], [2]⟩ : DenseS Unit Int)).toOption =
    some [[[1, 4], [2, 5], [3, 6]]] := by decide

end InfernoVerif.Gen.ConnProg
