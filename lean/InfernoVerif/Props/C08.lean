import InfernoVerif.Lemmas.STDP
import Mathlib.Algebra.BigOperators.Intervals
/-!
# C08 — STDP-family weight changes equal the documented sum over spike pairs

All statements are about `Model/STDP.lean` (the trainers' `forward` on top of the GENERATED trace
recurrences) for EVERY pre/post spike history `ℕ → Bool`, every number of steps, every delay `k`
(in steps; at most the connection's `delayedby` in the `delayed` mode, as the connection enforces),
both trace modes and all four sign modes.  Conventions established from the code: step `t` first
records the spikes of step `t` in the traces and then evaluates the update, so a pre and a post
spike of the same step pair in BOTH directions (`t_pre + d ≤ t_post` and `t_post ≤ t_pre + d`).
-/
namespace InfernoVerif.STDP.R
open Finset InfernoVerif.Recurrence

/-! ## model = specification, step by step -/

/-- `STDP.forward` equals the explicit sum over spike pairs at EVERY step, for every batch,
receptive field, reduction, trace mode, sign mode and delay mode. -/
theorem stdp_step_eq_spec (c : Cfg) (r : Red) (k : ℕ) (bt : List (List Syn)) (t : ℕ)
    (hk : c.delayed = true → k ≤ c.D) :
    stdpStep c r k bt t = specStdp c r k bt t := by
  unfold stdpStep specStdp
  simp only [dpostB_eq c k _ t hk, dpreB_eq c k _ t hk]

/-- The `delayed` mode (raw presynaptic history viewed through the connection's selector) and the
delay-frozen mode (monitoring the already delayed `synspike`) produce the same update when the
delay does not change; both see the presynaptic spike times shifted by the delay. -/
theorem stdp_delay_shift (c : Cfg) (r : Red) (k : ℕ) (bt : List (List Syn)) (t : ℕ) (hk : k ≤ c.D) :
    stdpStep { c with delayed := true } r k bt t = stdpStep { c with delayed := false } r k bt t := by
  have h1 := stdp_step_eq_spec { c with delayed := true } r k bt t (fun _ => hk)
  have h2 := stdp_step_eq_spec { c with delayed := false } r k bt t (by simp)
  rw [h1, h2]; rfl

/-- what the presynaptic monitors show in the delayed mode is the trace / spike `k` steps ago
(zero before the first `k` steps) -/
theorem delayed_view_is_shift (c : Cfg) (pre : ℕ → Bool) (k t : ℕ) (hk : k ≤ c.D) :
    xPre c pre k t = (if t < k then 0 else
        spikeTrace c.nearest (decayOf c.dt c.tcPre) |c.lrPost| pre (t - k)) ∧
    iPre c pre k t = (if t < k then 0 else ind (pre (t - k))) := by
  constructor
  · rw [xPre_eq c pre k t (fun _ => hk), shift_trace]
  · rw [iPre_eq c pre k t (fun _ => hk)]; unfold shift; by_cases h : t < k <;> simp [h, ind]

/-! ## the pair sums for one synapse -/

theorem signed_term (lr x : ℝ) :
    (if decide (lr ≥ 0) = true then |lr| * x else -(|lr| * x)) = lr * x := by
  have h := sign_abs lr
  by_cases ha : lr ≥ 0
  · simp only [ha, decide_true, if_true] at h ⊢; rw [h]
  · simp only [ha, decide_false, Bool.false_eq_true, if_false] at h ⊢; rw [← neg_mul, h]

theorem specPost_mul (c : Cfg) (k : ℕ) (s : Syn) (t : ℕ) :
    specPost c k s t = |c.lrPost| * (if s.post t then pairK c.nearest c.dt c.tcPre s.pre k t else 0) := by
  unfold specPost; cases s.post t <;> simp

theorem specPre_mul (c : Cfg) (k : ℕ) (s : Syn) (t : ℕ) :
    specPre c k s t = |c.lrPre| * (if shift k s.pre t then pairK c.nearest c.dt c.tcPost s.post 0 t else 0) := by
  unfold specPre; cases shift k s.pre t <;> simp

theorem reduce_single (r : Red) (x : ℝ) : reduce r [lsum [x]] = x := by
  cases r <;> simp [reduce, ofNat]

/-- signed per-step change of a single synapse (batch 1, field 1) in terms of the pair kernel -/
theorem stdp_step_single (c : Cfg) (r : Red) (k : ℕ) (s : Syn) (t : ℕ) (hk : c.delayed = true → k ≤ c.D) :
    net (stdpStep c r k [[s]] t) =
      c.lrPost * (if s.post t then pairK c.nearest c.dt c.tcPre s.pre k t else 0)
      + c.lrPre * (if shift k s.pre t then pairK c.nearest c.dt c.tcPost s.post 0 t else 0) := by
  rw [stdp_step_eq_spec c r k _ t hk]
  unfold specStdp
  simp only [List.map_cons, List.map_nil, reduce_single, net_route, specPost_mul, specPre_mul, signed_term]


/-- the cumulative pair kernel as a sum over any range of steps containing `t` -/
theorem pairAll_range (dt tau : ℝ) (s : ℕ → Bool) (k t N : ℕ) (ht : t < N) :
    pairAll dt tau s k t = ∑ u ∈ range N,
      (if s u = true ∧ u + k ≤ t then Real.exp (-(((t - (u + k) : ℕ) : ℝ) * dt) / tau) else 0) := by
  unfold pairAll
  rw [lsum_map_range]
  have h1 : ∀ u, (if (s u && decide (u + k ≤ t)) = true then win dt tau (t - (u + k)) else 0)
      = (if u + k ≤ t then (if s u = true then win dt tau (t - (u + k)) else 0) else 0) := by
    intro u; by_cases h : u + k ≤ t <;> cases s u <;> simp [h]
  simp only [h1]
  rw [sum_extend _ k t N ht]
  apply sum_congr rfl
  intro u _
  by_cases h : u + k ≤ t <;> cases s u <;> simp [h, win, ofNat, exp]

/-- **Pair-based STDP, cumulative traces.**  Over ANY pre/post spike history and any number `N` of
steps, the weight of a synapse with delay `k` steps changes by
`Σ_{t_post} Σ_{t_pre + k ≤ t_post} η_post·exp(-((t_post - t_pre - k)·dt)/τ_pre)
 + Σ_{t_pre} Σ_{t_post ≤ t_pre + k} η_pre·exp(-((t_pre + k - t_post)·dt)/τ_post)`
(a presynaptic spike acts when it arrives, at `t_pre + k`, which must lie within the run);
simultaneous arrival and post spike count in both sums. -/
theorem stdp_pair_sum_cumulative (c : Cfg) (r : Red) (k : ℕ) (pre post : ℕ → Bool) (N : ℕ)
    (hn : c.nearest = false) (hk : c.delayed = true → k ≤ c.D) :
    ∑ t ∈ range N, net (stdpStep c r k [[⟨pre, post⟩]] t) =
      (∑ tpost ∈ range N, ∑ tpre ∈ range N,
        (if post tpost = true ∧ pre tpre = true ∧ tpre + k ≤ tpost then
          c.lrPost * Real.exp (-(((tpost - (tpre + k) : ℕ) : ℝ) * c.dt) / c.tcPre) else 0))
      + ∑ tpre ∈ range N, ∑ tpost ∈ range N,
        (if pre tpre = true ∧ post tpost = true ∧ tpost ≤ tpre + k ∧ tpre + k < N then
          c.lrPre * Real.exp (-(((tpre + k - tpost : ℕ) : ℝ) * c.dt) / c.tcPost) else 0) := by
  simp only [stdp_step_single c r k _ _ hk, sum_add_distrib, pairK, hn, Bool.false_eq_true, if_false]
  congr 1
  · apply sum_congr rfl
    intro t ht
    rw [pairAll_range _ _ _ _ _ N (mem_range.mp ht)]
    by_cases hp : post t = true
    · simp only [hp, if_true, mul_sum, true_and]
      apply sum_congr rfl
      intro u _
      split_ifs <;> simp
    · simp [hp]
  · -- arrival times `t = v + k`
    obtain ⟨H, hH⟩ : ∃ H : ℕ → ℝ,
        H = fun v => if pre v = true then c.lrPre * pairAll c.dt c.tcPost post 0 (v + k) else 0 := ⟨_, rfl⟩
    have h1 : ∀ t ∈ range N, c.lrPre * (if shift k pre t = true then pairAll c.dt c.tcPost post 0 t else 0)
        = (if t < k then 0 else H (t - k)) := by
      intro t _
      unfold shift
      by_cases h : t < k
      · simp [h]
      · have : t - k + k = t := by omega
        simp only [h, if_false, hH, this]
        by_cases hp : pre (t - k) = true <;> simp [hp]
    rw [sum_congr rfl h1, sum_shift_reindex H k N]
    apply sum_congr rfl
    intro v _
    by_cases hv : v + k < N
    · rw [if_pos hv, hH]
      by_cases hp : pre v = true
      · simp only [hp, if_true, true_and]
        rw [pairAll_range _ _ _ _ _ N hv, mul_sum]
        apply sum_congr rfl
        intro u _
        simp only [Nat.add_zero, hv, and_true]
        split_ifs <;> simp
      · simp [hp]
    · rw [if_neg hv]
      symm
      apply sum_eq_zero
      intro u _
      simp [hv]


/-- `lastSpike s t = some u` says exactly that `u` is the most recent spike of `s` at or before `t`. -/
theorem most_recent_partner (s : ℕ → Bool) (t u : ℕ) :
    lastSpike s t = some u ↔ u ≤ t ∧ s u = true ∧ ∀ j, u < j → j ≤ t → s j = false :=
  lastSpike_some_iff s t u

/-- **Pair-based STDP, nearest traces.**  Each post spike pairs only with the most recent
presynaptic arrival at or before it (`lastSpike pre (t_post - k)` is the emission time of that
spike), each presynaptic arrival `t_a = t_pre + k` only with the most recent post spike at or
before it; nothing before the first partner spike. -/
theorem stdp_pair_sum_nearest (c : Cfg) (r : Red) (k : ℕ) (pre post : ℕ → Bool) (N : ℕ)
    (hn : c.nearest = true) (hk : c.delayed = true → k ≤ c.D) :
    ∑ t ∈ range N, net (stdpStep c r k [[⟨pre, post⟩]] t) =
      (∑ tpost ∈ range N,
        (if post tpost = true ∧ k ≤ tpost then
          match lastSpike pre (tpost - k) with
          | some tpre => c.lrPost * Real.exp (-(((tpost - k - tpre : ℕ) : ℝ) * c.dt) / c.tcPre)
          | none => 0
         else 0))
      + ∑ ta ∈ range N,
        (if k ≤ ta ∧ pre (ta - k) = true then
          match lastSpike post ta with
          | some tpost => c.lrPre * Real.exp (-(((ta - tpost : ℕ) : ℝ) * c.dt) / c.tcPost)
          | none => 0
         else 0) := by
  simp only [stdp_step_single c r k _ _ hk, sum_add_distrib, pairK, hn, if_true]
  congr 1
  · apply sum_congr rfl
    intro t _
    unfold pairLast
    by_cases hp : post t = true <;> by_cases h : t < k
    · have : ¬ k ≤ t := by omega
      simp [hp, h, this]
    · have : k ≤ t := by omega
      simp only [hp, h, this, if_true, if_false, and_self]
      cases lastSpike pre (t - k) <;> simp [win, ofNat, exp]
    · simp [hp]
    · simp [hp]
  · apply sum_congr rfl
    intro t _
    unfold pairLast shift
    by_cases h : t < k
    · have : ¬ k ≤ t := by omega
      simp [h, this]
    · have h2 : k ≤ t := by omega
      by_cases hp : pre (t - k) = true
      · simp only [h, if_false, hp, if_true, h2, and_self, Nat.not_lt_zero, Nat.sub_zero]
        cases lastSpike post t <;> simp [win, ofNat, exp]
      · simp [h, hp]

/-! ## batches and receptive fields: the update is linear in the per-synapse contributions -/

theorem reduce_scale (r : Red) (xs : List ℝ) :
    reduce r xs = (match r with | .sum => 1 | .mean => 1 / (xs.length : ℝ)) * xs.sum := by
  cases r <;> simp [reduce, lsum_eq_sum, ofNat]; ring

/-- **Batch / field linearity.**  With `torch.sum` the accumulated change of a weight over a run
is the sum, over batch samples and receptive-field elements, of the single-synapse pair sums; with
`torch.mean` it is that sum divided by the batch size. -/
theorem batch_sum_linear (c : Cfg) (r : Red) (k : ℕ) (bt : List (List Syn)) (N : ℕ)
    (_hB : bt ≠ []) (hk : c.delayed = true → k ≤ c.D) :
    ∑ t ∈ range N, net (stdpStep c r k bt t) =
      (match r with | .sum => 1 | .mean => 1 / (bt.length : ℝ)) *
        (bt.map fun f => (f.map fun s => ∑ t ∈ range N, net (stdpStep c .sum k [[s]] t)).sum).sum := by
  have hstep : ∀ t, net (stdpStep c r k bt t) =
      (match r with | .sum => 1 | .mean => 1 / (bt.length : ℝ)) *
        (bt.map fun f => (f.map fun s => net (stdpStep c .sum k [[s]] t)).sum).sum := by
    intro t
    simp only [stdp_step_single c .sum k _ t hk]
    rw [stdp_step_eq_spec c r k bt t hk]
    unfold specStdp
    simp only [net_route, reduce_scale, List.length_map, lsum_eq_sum, specPost_mul, specPre_mul]
    generalize (match r with | .sum => (1 : ℝ) | .mean => 1 / (bt.length : ℝ)) = q
    have key : ∀ (g : Syn → ℝ) (lr : ℝ),
        (if decide (lr ≥ 0) = true then q * (bt.map fun f => (f.map fun s => |lr| * g s).sum).sum
          else -(q * (bt.map fun f => (f.map fun s => |lr| * g s).sum).sum))
        = q * (bt.map fun f => (f.map fun s => lr * g s).sum).sum := by
      intro g lr
      have e : ∀ a : ℝ, (bt.map fun f => (f.map fun s => a * g s).sum).sum
          = a * (bt.map fun f => (f.map fun s => g s).sum).sum := by
        intro a; simp only [List.sum_map_mul_left]
      rw [e, e]
      have := signed_term lr (q * (bt.map fun f => (f.map fun s => g s).sum).sum)
      by_cases ha : lr ≥ 0
      · simp only [ha, decide_true, if_true] at this ⊢; linarith
      · simp only [ha, decide_false, Bool.false_eq_true, if_false] at this ⊢; linarith
    rw [key, key, ← mul_add]
    congr 1
    simp only [← List.sum_map_add]
  simp only [hstep, ← mul_sum]
  congr 1
  rw [finset_sum_list_map]
  congr 1
  apply List.map_congr_left
  intro f _
  rw [finset_sum_list_map]


/-! ## reward modulation -/

theorem mstdp_step_eq_spec (c : Cfg) (r : Red) (k : ℕ) (bt : List (List Syn)) (signal scale : ℝ) (t : ℕ)
    (hk : c.delayed = true → k ≤ c.D) :
    mstdpScalar c r k bt signal scale t = specMstdpScalar c r k bt signal scale t := by
  unfold mstdpScalar specMstdpScalar
  simp only [dpostB_eq c k _ t hk, dpreB_eq c k _ t hk]

theorem mstdp_tensor_eq_spec (c : Cfg) (r : Red) (k : ℕ) (bt : List (List Syn)) (sig : List ℝ) (scale : ℝ) (t : ℕ)
    (hk : c.delayed = true → k ≤ c.D) :
    mstdpTensor c r k bt sig scale t = specMstdpTensor c r k bt sig scale t := by
  unfold mstdpTensor specMstdpTensor
  simp only [dpostB_eq c k _ t hk, dpreB_eq c k _ t hk]

/-- **MSTDP, scalar signal.**  Each step's change is that step's STDP change scaled by the step's
signal and `|scale|` (learning rates are non-zero: the trace reducers reject a zero amplitude). -/
theorem mstdp_scales_by_signal (c : Cfg) (r : Red) (k : ℕ) (bt : List (List Syn)) (signal scale : ℝ) (t : ℕ)
    (h1 : c.lrPost ≠ 0) (h2 : c.lrPre ≠ 0) :
    net (mstdpScalar c r k bt signal scale t) = signal * |scale| * net (stdpStep c r k bt t) := by
  unfold mstdpScalar stdpStep
  rw [net_route, net_route, sign_signal c.lrPost signal scale _ h1, sign_signal c.lrPre signal scale _ h2]
  ring

/-- the tensor-signal tail with `torch.sum`: every sample enters with its own signed signal -/
theorem signalSplit_sum (lrPost lrPre scale : ℝ) (sig ds es : List ℝ) (hl : ds.length = es.length) :
    net (signalSplit lrPost lrPre .sum sig scale ds es) =
      ((ds.zip (es.zip sig)).map fun p =>
        p.2.2 * |scale| * ((if lrPost ≥ 0 then p.1 else -p.1) + (if lrPre ≥ 0 then p.2.1 else -p.2.1))).sum := by
  have hterm : ∀ (xs : List ℝ),
      (pick (fun s => decide (s ≥ 0)) sig ((xs.zip (sig.map fun s => absT (s * scale))).map fun x => x.1 * x.2)).sum
      - (pick (fun s => decide (s < 0)) sig ((xs.zip (sig.map fun s => absT (s * scale))).map fun x => x.1 * x.2)).sum
      = ((xs.zip sig).map fun p => p.2 * |scale| * p.1).sum := by
    intro xs
    rw [pick_diff]
    induction xs generalizing sig with
    | nil => simp
    | cons x xs ih =>
      cases sig with
      | nil => simp
      | cons s sig =>
        simp only [List.map_cons, List.zip_cons_cons, List.sum_cons, ih sig]
        congr 1
        simp only [absT]
        rw [abs_mul]
        by_cases hs : s ≥ 0
        · simp only [hs, if_true, abs_of_nonneg hs]; ring
        · simp only [hs, if_false, abs_of_neg (lt_of_not_ge hs)]; ring
  have hzip : ∀ (a b : ℝ) (ds es sig : List ℝ), ds.length = es.length →
      a * ((ds.zip sig).map fun p => p.2 * |scale| * p.1).sum + b * ((es.zip sig).map fun p => p.2 * |scale| * p.1).sum
      = ((ds.zip (es.zip sig)).map fun p => p.2.2 * |scale| * (a * p.1 + b * p.2.1)).sum := by
    intro a b ds
    induction ds with
    | nil => intro es sig h; cases es <;> simp_all
    | cons d ds ih =>
      intro es sig h
      cases es with
      | nil => simp at h
      | cons e es =>
        cases sig with
        | nil => simp
        | cons s sig =>
          simp only [List.zip_cons_cons, List.map_cons, List.sum_cons]
          have := ih es sig (by simpa using h)
          linarith
  unfold signalSplit
  simp only [net, part_redOpt_sum]
  have hp := hterm ds
  have he := hterm es
  have hz1 := hzip 1 1 ds es sig hl
  have hz2 := hzip 1 (-1) ds es sig hl
  have hz3 := hzip (-1) 1 ds es sig hl
  have hz4 := hzip (-1) (-1) ds es sig hl
  by_cases ha : lrPost ≥ 0 <;> by_cases hb : lrPre ≥ 0 <;>
    simp only [ha, hb, decide_true, decide_false, routeT, List.sum_append, if_true, if_false]
  · rw [show (fun p : ℝ × ℝ × ℝ => p.2.2 * |scale| * (p.1 + p.2.1)) = fun p => p.2.2 * |scale| * (1 * p.1 + 1 * p.2.1) from by
      funext p; ring, ← hz1]; linarith
  · rw [show (fun p : ℝ × ℝ × ℝ => p.2.2 * |scale| * (p.1 + -p.2.1)) = fun p => p.2.2 * |scale| * (1 * p.1 + -1 * p.2.1) from by
      funext p; ring, ← hz2]; linarith
  · rw [show (fun p : ℝ × ℝ × ℝ => p.2.2 * |scale| * (-p.1 + p.2.1)) = fun p => p.2.2 * |scale| * (-1 * p.1 + 1 * p.2.1) from by
      funext p; ring, ← hz3]; linarith
  · rw [show (fun p : ℝ × ℝ × ℝ => p.2.2 * |scale| * (-p.1 + -p.2.1)) = fun p => p.2.2 * |scale| * (-1 * p.1 + -1 * p.2.1) from by
      funext p; ring, ← hz4]; linarith


theorem zip_maps {α : Type} (bt : List α) (sig : List ℝ) (g h : α → ℝ) (F : ℝ × ℝ × ℝ → ℝ) :
    (((bt.map g).zip ((bt.map h).zip sig)).map F) = ((bt.zip sig).map fun p => F (g p.1, h p.1, p.2)) := by
  induction bt generalizing sig with
  | nil => simp
  | cons f bt ih =>
    cases sig with
    | nil => simp
    | cons s sig => simp [ih sig]

/-- **MSTDP, per-sample signals (`torch.sum`).**  Every batch sample enters the update with its own
signal: the change is `Σ_b signal_b·|scale|·(STDP change of sample b)`. -/
theorem mstdp_per_sample_signal (c : Cfg) (k : ℕ) (bt : List (List Syn)) (sig : List ℝ) (scale : ℝ) (t : ℕ) :
    net (mstdpTensor c .sum k bt sig scale t) =
      ((bt.zip sig).map fun p => p.2 * |scale| * net (stdpStep c .sum k [p.1] t)).sum := by
  unfold mstdpTensor
  rw [signalSplit_sum _ _ _ _ _ _ (by simp), zip_maps]
  congr 1
  apply List.map_congr_left
  intro p _
  unfold stdpStep
  simp only [net_route, List.map_cons, List.map_nil, reduce, lsum_singleton, decide_eq_true_eq]

/-! ## eligibility trace (MSTDPET) -/

/-- **MSTDPET filter.**  The eligibility of a weight obeys
`z(t) = z(t - dt)·exp(-dt/τ_z) + contribution(t)/τ_z`, starting from `contribution(0)/τ_z`, where the
contribution is the STDP term of that step (post-triggered for `elig_post`, pre-triggered for `elig_pre`). -/
theorem mstdpet_filter (c : Cfg) (tcz : ℝ) (k : ℕ) (f : List Syn) (t : ℕ) :
    zPost c tcz k f 0 = dpostB c k f 0 / tcz ∧
    zPost c tcz k f (t + 1) = zPost c tcz k f t * Real.exp (-c.dt / tcz) + dpostB c k f (t + 1) / tcz ∧
    zPre c tcz k f 0 = dpreB c k f 0 / tcz ∧
    zPre c tcz k f (t + 1) = zPre c tcz k f t * Real.exp (-c.dt / tcz) + dpreB c k f (t + 1) / tcz := by
  unfold zPost zPre
  simp only [foldRun, eligFold_none, eligFold_some, decayOf, exp]
  refine ⟨by ring, by ring, by ring, by ring⟩

/-- closed form: the eligibility is the exponentially filtered stream of documented pair terms -/
theorem mstdpet_closed (c : Cfg) (tcz : ℝ) (k : ℕ) (f : List Syn) (t : ℕ) (hk : c.delayed = true → k ≤ c.D) :
    zPost c tcz k f t = specZ c.dt tcz (fun u => lsum (f.map fun s => specPost c k s u)) t ∧
    zPre c tcz k f t = specZ c.dt tcz (fun u => lsum (f.map fun s => specPre c k s u)) t := by
  unfold zPost zPre
  rw [z_closed, z_closed]
  constructor <;> (congr 1; funext u)
  · exact dpostB_eq c k f u hk
  · exact dpreB_eq c k f u hk

theorem mstdpet_step_eq_spec (c : Cfg) (tcz : ℝ) (r : Red) (k : ℕ) (bt : List (List Syn)) (signal scale : ℝ) (t : ℕ)
    (hk : c.delayed = true → k ≤ c.D) :
    mstdpetScalar c tcz r k bt signal scale t = specMstdpetScalar c tcz r k bt signal scale t := by
  unfold mstdpetScalar specMstdpetScalar
  simp only [(mstdpet_closed c tcz k _ t hk).1, (mstdpet_closed c tcz k _ t hk).2]

theorem mstdpet_tensor_eq_spec (c : Cfg) (tcz : ℝ) (r : Red) (k : ℕ) (bt : List (List Syn)) (sig : List ℝ)
    (scale : ℝ) (t : ℕ) (hk : c.delayed = true → k ≤ c.D) :
    mstdpetTensor c tcz r k bt sig scale t = specMstdpetTensor c tcz r k bt sig scale t := by
  unfold mstdpetTensor specMstdpetTensor
  simp only [(mstdpet_closed c tcz k _ t hk).1, (mstdpet_closed c tcz k _ t hk).2]

/-- the signal of step `t` multiplies the eligibility of step `t` (scalar signal) -/
theorem mstdpet_applies_signal (c : Cfg) (tcz : ℝ) (r : Red) (k : ℕ) (bt : List (List Syn)) (signal scale : ℝ)
    (t : ℕ) (h1 : c.lrPost ≠ 0) (h2 : c.lrPre ≠ 0) :
    net (mstdpetScalar c tcz r k bt signal scale t) =
      signal * |scale| *
        ((if c.lrPost ≥ 0 then reduce r (bt.map fun f => zPost c tcz k f t) else -reduce r (bt.map fun f => zPost c tcz k f t))
         + (if c.lrPre ≥ 0 then reduce r (bt.map fun f => zPre c tcz k f t) else -reduce r (bt.map fun f => zPre c tcz k f t))) := by
  unfold mstdpetScalar
  rw [net_route, sign_signal c.lrPost signal scale _ h1, sign_signal c.lrPre signal scale _ h2]
  simp only [decide_eq_true_eq]
  ring

/-! ## triplet STDP -/

theorem triplet_step_eq_spec (c : TCfg) (r : Red) (k : ℕ) (bt : List (List Syn)) (t : ℕ)
    (hk : c.delayed = true → k ≤ c.D) :
    tripletStep c r k bt t = specTriplet c r k bt t := by
  unfold tripletStep specTriplet tripletDpostB tripletDpreB
  have e1 : ∀ f : List Syn, (f.map fun s => ((1 + yB c s.post t) * ind (s.post t)) * xA c s.pre k t)
      = f.map fun s => specTripletPost c k s t := by
    intro f; apply List.map_congr_left; intro s _; exact triplet_dpost_syn c k s t hk
  have e2 : ∀ f : List Syn, (f.map fun s => ((1 + xB c s.pre k t) * iPreT c s.pre k t) * yA c s.post t)
      = f.map fun s => specTripletPre c k s t := by
    intro f; apply List.map_congr_left; intro s _; exact triplet_dpre_syn c k s t hk
  simp only [e1, e2]

/-- **Triplet factor.**  Each pair term of a post spike at `t` is multiplied by
`1 + (slow postsynaptic trace at step t - 1)` (`1` at the first step), each pair term of a presynaptic
arrival by `1 + (slow presynaptic trace at step t - 1)`; the slow traces have amplitude
`|β/α|` and their own time constants. -/
theorem triplet_factor (c : TCfg) (k : ℕ) (s : Syn) (t : ℕ) (hk : c.delayed = true → k ≤ c.D) :
    tripletDpostB c k [s] t =
      (if s.post t then |c.aPost| * pairK c.nearest c.dt c.tcPreFast s.pre k t else 0)
        * (1 + (if t = 0 then 0 else
            spikeTrace c.nearest (decayOf c.dt c.tcPostSlow) |(|c.bPost| / c.aPost)| s.post (t - 1))) ∧
    tripletDpreB c k [s] t =
      (if shift k s.pre t then |c.aPre| * pairK c.nearest c.dt c.tcPostFast s.post 0 t else 0)
        * (1 + (if t = 0 then 0 else
            spikeTrace c.nearest (decayOf c.dt c.tcPreSlow) |(|c.bPre| / c.aPre)| (shift k s.pre) (t - 1))) := by
  unfold tripletDpostB tripletDpreB
  simp only [List.map_cons, List.map_nil, lsum_singleton]
  rw [triplet_dpost_syn c k s t hk, triplet_dpre_syn c k s t hk]
  unfold specTripletPost specTripletPre tripletFactor slowAmp
  constructor
  · by_cases h0 : t = 0
    · subst h0; cases s.post 0 <;> simp
    · simp only [h0, if_false, trace_pair0, absT]
      cases s.post t <;> simp
  · by_cases h0 : t = 0
    · subst h0; cases shift k s.pre 0 <;> simp
    · simp only [h0, if_false, trace_pair0, absT]
      cases shift k s.pre t <;> simp

/-- cumulative mode: the factor is `1 + Σ_{u < t} amp·exp(-((t-1-u)·dt)/τ)` over the population's own earlier spikes -/
theorem triplet_factor_cumulative (dt tau amp : ℝ) (own : ℕ → Bool) (t : ℕ) :
    tripletFactor false dt tau amp own t =
      1 + ∑ u ∈ range t, (if own u = true then amp * Real.exp (-(((t - 1 - u : ℕ) : ℝ) * dt) / tau) else 0) := by
  unfold tripletFactor
  by_cases h0 : t = 0
  · subst h0; simp
  · rw [if_neg h0]
    simp only [pairK, Bool.false_eq_true, if_false]
    rw [pairAll_range dt tau own 0 (t - 1) t (by omega), mul_sum]
    congr 1
    apply sum_congr rfl
    intro u hu
    have : u ≤ t - 1 := by have := mem_range.mp hu; omega
    simp only [Nat.add_zero, this, and_true]
    split_ifs <;> simp


/-! ## episodes: after `trainer.clear()` the pair sum restarts

`CellTrainer.clear` clears every monitor; a cleared `FoldReducer` is initial again (`_initial = True`,
storage zero-filled or dropped), so its next `forward` folds with `None` onto a fresh record: the run
after the clear IS the model started at step 0 on the spike trains re-timed from the clear
(`fun t => s (t0 + t)`) — C07's `clear_then_run_eq_fresh_run` for the reducers; the episode stream of
`harness/corr/c08.py` checks it on the real trainers for both `keepshape` values. -/

/-- **Clear resets the pair sum.**  The `N` steps after a clear at step `t0` change the weight by the
pair sum over the spikes of those steps ALONE: in absolute step numbers both partners lie in
`[t0, t0 + N)` — no spike from before the clear pairs with anything. -/
theorem clear_resets_pair_sum (c : Cfg) (r : Red) (k : ℕ) (pre post : ℕ → Bool) (t0 N : ℕ)
    (hn : c.nearest = false) (hk : c.delayed = true → k ≤ c.D) :
    ∑ t ∈ range N, net (stdpStep c r k [[⟨fun t => pre (t0 + t), fun t => post (t0 + t)⟩]] t) =
      (∑ tpost ∈ Ico t0 (t0 + N), ∑ tpre ∈ Ico t0 (t0 + N),
        (if post tpost = true ∧ pre tpre = true ∧ tpre + k ≤ tpost then
          c.lrPost * Real.exp (-(((tpost - (tpre + k) : ℕ) : ℝ) * c.dt) / c.tcPre) else 0))
      + ∑ tpre ∈ Ico t0 (t0 + N), ∑ tpost ∈ Ico t0 (t0 + N),
        (if pre tpre = true ∧ post tpost = true ∧ tpost ≤ tpre + k ∧ tpre + k < t0 + N then
          c.lrPre * Real.exp (-(((tpre + k - tpost : ℕ) : ℝ) * c.dt) / c.tcPost) else 0) := by
  rw [stdp_pair_sum_cumulative c r k _ _ N hn hk]
  simp only [sum_Ico_eq_sum_range, Nat.add_sub_cancel_left]
  congr 1
  · apply sum_congr rfl; intro a _; apply sum_congr rfl; intro b _
    have e1 : t0 + a - (t0 + b + k) = a - (b + k) := by omega
    have e2 : (t0 + b + k ≤ t0 + a) ↔ (b + k ≤ a) := by omega
    simp only [e1, e2]
  · apply sum_congr rfl; intro b _; apply sum_congr rfl; intro a _
    have e1 : t0 + b + k - (t0 + a) = b + k - a := by omega
    have e2 : (t0 + a ≤ t0 + b + k) ↔ (a ≤ b + k) := by omega
    have e3 : (t0 + b + k < t0 + N) ↔ (b + k < N) := by omega
    simp only [e1, e2, e3]

/-! ## Non-vacuity: concrete configurations meeting the hypotheses, with non-trivial values -/

/-- hebbian rates, delayed mode with room for two steps of delay -/
noncomputable def exCfg : Cfg := ⟨1 / 2, -1 / 4, 10, 20, 1, false, true, 2⟩
/-- pre spike at step 0 -/
def exPre : ℕ → Bool := fun t => decide (t = 0)
/-- post spike at step 1 -/
def exPost : ℕ → Bool := fun t => decide (t = 1)

example : exCfg.delayed = true → 1 ≤ exCfg.D := by intro _; show 1 ≤ 2; omega
example : exCfg.lrPost ≠ 0 ∧ exCfg.lrPre ≠ 0 := by constructor <;> (simp only [exCfg]; norm_num)
example : ([[⟨exPre, exPost⟩]] : List (List Syn)) ≠ [] := by simp

/-- with a delay of one step the pre spike of step 0 arrives with the post spike of step 1: the pair
counts in BOTH directions, `η_post·exp(0) + η_pre·exp(0) = 1/2 - 1/4` -/
example : ∑ t ∈ range 2, net (stdpStep exCfg .sum 1 [[⟨exPre, exPost⟩]] t) = 1 / 4 := by
  rw [stdp_pair_sum_cumulative exCfg .sum 1 exPre exPost 2 rfl (by intro _; show 1 ≤ 2; omega)]
  simp [sum_range_succ, exPre, exPost, exCfg]
  norm_num

/-- without delay only the causal direction pairs: `η_post·exp(-dt/τ_pre)` -/
example : ∑ t ∈ range 2, net (stdpStep exCfg .sum 0 [[⟨exPre, exPost⟩]] t) = 1 / 2 * Real.exp (-1 / 20) := by
  rw [stdp_pair_sum_cumulative exCfg .sum 0 exPre exPost 2 rfl (by intro _; show 0 ≤ 2; omega)]
  simp [sum_range_succ, exPre, exPost, exCfg]

/-- the most recent spike of `exPre` at or before step 3 is step 0 -/
example : lastSpike exPre 3 = some 0 := by
  rw [most_recent_partner]; refine ⟨by omega, by simp [exPre], fun j h1 _ => by simp [exPre]; omega⟩

end InfernoVerif.STDP.R
