import InfernoVerif.Model.NeuronF
import InfernoVerif.Gen.NeuronSitesF
/-!
# Glue: the class wiring executed by the C03 driver IS what the neuron classes' methods say

`Gen/NeuronSitesF.lean` is regenerated on every run from `_integrate_v` and `forward` of the neuron
classes in `inferno/neural/neurons/{linear,nonlinear}.py` (site extraction: the `return` of
`_integrate_v`, the `spikes, voltages, refracs = nf.voltage_thresholding_*(…)` call and the
`adaptations = nf.adaptive_*(…)` call of `forward`; calls resolve into the GENERATED kernels of
`Gen/NeuronDynamicsF`, `Gen/NeuronAdaptationF`).  `Model/NeuronF.lean` is the hand-written wiring the
driver executes in the per-step correspondence with the real classes.  The theorems below (plain
definitional unfolding — no floating-point evaluation is involved) state that for each class the
hand-written `integrate` / `step` is the generated wiring: which integration kernel, which attribute is
the time constant, which threshold (adapted or not), which input (adapted or not), which reset rule,
what `refrac_lock` switches, and which adaptation update with which refractory argument.

The theorems of `Props/C03.lean` hold for EVERY `dynamics`, threshold sequence and input sequence, so
they cover whatever wiring the classes have; this file ties the executable side.  `GLIF1` delegates to
`LIF.forward` / `LIF._integrate_v` in the source (no expression of its own) and is tied by the
correspondence check only.
-/
namespace InfernoVerif.NeuronF.Glue
open InfernoVerif.NeuronF InfernoVerif.Gen

variable (c : Cfg) (v m : Float)

theorem gen_integrate_LIF (h : c.kind = .LIF) :
    integrate c v m = NeuronSitesF.LIF__integrate_v m v c.dt c.rest c.tau c.R := by
  simp [integrate, h, NeuronSitesF.LIF__integrate_v]
theorem gen_integrate_ALIF (h : c.kind = .ALIF) :
    integrate c v m = NeuronSitesF.ALIF__integrate_v m v c.dt c.rest c.tau c.R := by
  simp [integrate, h, NeuronSitesF.ALIF__integrate_v]
theorem gen_integrate_GLIF2 (h : c.kind = .GLIF2) :
    integrate c v m = NeuronSitesF.GLIF2__integrate_v m v c.dt c.rest c.tau c.R := by
  simp [integrate, h, NeuronSitesF.GLIF2__integrate_v]
theorem gen_integrate_QIF (h : c.kind = .QIF) :
    integrate c v m = NeuronSitesF.QIF__integrate_v m v c.dt c.rest c.a c.b c.tau c.R := by
  simp [integrate, h, NeuronSitesF.QIF__integrate_v]
theorem gen_integrate_Izhikevich (h : c.kind = .Izhikevich) :
    integrate c v m = NeuronSitesF.Izhikevich__integrate_v m v c.dt c.rest c.a c.b c.tau c.R := by
  simp [integrate, h, NeuronSitesF.Izhikevich__integrate_v]
theorem gen_integrate_EIF (h : c.kind = .EIF) :
    integrate c v m = NeuronSitesF.EIF__integrate_v m v c.dt c.rest c.a c.b c.tau c.R := by
  simp [integrate, h, NeuronSitesF.EIF__integrate_v]
theorem gen_integrate_AdEx (h : c.kind = .AdEx) :
    integrate c v m = NeuronSitesF.AdEx__integrate_v m v c.dt c.rest c.a c.b c.tau c.R := by
  simp [integrate, h, NeuronSitesF.AdEx__integrate_v]

variable (lock adapt : Bool) (s : St) (I : Float)

/-- `LIF.forward` (also `QIF`, `EIF`: the same call with the class's own `_integrate_v`) -/
theorem gen_step_LIF (h : c.kind = .LIF) :
    step c lock adapt s I =
      (let r := NeuronSitesF.LIF_threshold I s.r (integrate c s.v) s.v lock c.dt c.reset c.thresh c.refracT
       (⟨r.2.1, r.2.2, s.adapt⟩, r.1)) := by
  cases adapt <;> simp [step, h, NeuronSitesF.LIF_threshold]
theorem gen_step_QIF (h : c.kind = .QIF) :
    step c lock adapt s I =
      (let r := NeuronSitesF.QIF_threshold I s.r (integrate c s.v) s.v lock c.dt c.reset c.thresh c.refracT
       (⟨r.2.1, r.2.2, s.adapt⟩, r.1)) := by
  cases adapt <;> simp [step, h, NeuronSitesF.QIF_threshold]
theorem gen_step_EIF (h : c.kind = .EIF) :
    step c lock adapt s I =
      (let r := NeuronSitesF.EIF_threshold I s.r (integrate c s.v) s.v lock c.dt c.reset c.thresh c.refracT
       (⟨r.2.1, r.2.2, s.adapt⟩, r.1)) := by
  cases adapt <;> simp [step, h, NeuronSitesF.EIF_threshold]

/-- `ALIF.forward`: adapted threshold, spike-driven threshold adaptation with the NEW refractory time -/
theorem gen_step_ALIF (h : c.kind = .ALIF) :
    step c lock adapt s I =
      (let r := NeuronSitesF.ALIF_threshold I s.r (integrate c s.v) s.v lock c.dt c.reset c.thresh s.adapt c.refracT
       (⟨r.2.1, r.2.2,
         if adapt then NeuronSitesF.ALIF_adaptation s.adapt r.1 c.dt c.tcA c.incA r.2.2 lock else s.adapt⟩, r.1)) := by
  cases adapt <;> simp [step, h, NeuronSitesF.ALIF_threshold, NeuronSitesF.ALIF_adaptation]

/-- `GLIF2.forward`: linear reset, adapted threshold; the adaptation time constant is `1 / rc_adaptation` -/
theorem gen_step_GLIF2 (h : c.kind = .GLIF2) (rc : List Float) (hrc : c.tcA = rc.map fun b => (1 : Float) / b) :
    step c lock adapt s I =
      (let r := NeuronSitesF.GLIF2_threshold I s.r (integrate c s.v) s.v lock c.dt c.rest c.slope c.icpt c.thresh s.adapt c.refracT
       (⟨r.2.1, r.2.2,
         if adapt then NeuronSitesF.GLIF2_adaptation s.adapt r.1 c.dt rc c.incA r.2.2 lock else s.adapt⟩, r.1)) := by
  cases adapt <;> simp [step, h, hrc, NeuronSitesF.GLIF2_threshold, NeuronSitesF.GLIF2_adaptation]

/-- `Izhikevich.forward`: adapted input current, voltage- and spike-driven current adaptation -/
theorem gen_step_Izhikevich (h : c.kind = .Izhikevich) :
    step c lock adapt s I =
      (let r := NeuronSitesF.Izhikevich_threshold I s.r (integrate c s.v) s.v lock c.dt c.reset c.thresh s.adapt c.refracT
       (⟨r.2.1, r.2.2,
         if adapt then NeuronSitesF.Izhikevich_adaptation s.adapt r.2.1 r.1 c.dt c.rest c.tcA c.vcA c.incA r.2.2 lock
         else s.adapt⟩, r.1)) := by
  cases adapt <;> simp [step, h, NeuronSitesF.Izhikevich_threshold, NeuronSitesF.Izhikevich_adaptation]

/-- `AdEx.forward` -/
theorem gen_step_AdEx (h : c.kind = .AdEx) :
    step c lock adapt s I =
      (let r := NeuronSitesF.AdEx_threshold I s.r (integrate c s.v) s.v lock c.dt c.reset c.thresh s.adapt c.refracT
       (⟨r.2.1, r.2.2,
         if adapt then NeuronSitesF.AdEx_adaptation s.adapt r.2.1 r.1 c.dt c.rest c.tcA c.vcA c.incA r.2.2 lock
         else s.adapt⟩, r.1)) := by
  cases adapt <;> simp [step, h, NeuronSitesF.AdEx_threshold, NeuronSitesF.AdEx_adaptation]

end InfernoVerif.NeuronF.Glue
