import InfernoVerif.Model.DistR
import InfernoVerif.Gen.DistributionsR
/-!
# Glue: the distribution formulas the C20 theorems are about ARE the bodies of /repo's class methods

`Gen/DistributionsR.lean` is regenerated on every run from the bodies of the `pmf / logpmf / pdf /
logpdf / cdf / logcdf / mean / variance / params_mv` class methods of `Poisson`, `Normal` and
`LogNormal` in `inferno/stats/distributions.py` (site extraction, whole method bodies; the dtype
normalisation `x, y = _astensorsfloat(x, y)` is dropped; `torch.special.erf`, `torch.lgamma`,
`torch.special.gammaincc`, `torch.special.expm1` are opaque function parameters, `xlogy` is spelled
out).  The theorems state that every hand-written definition of `Model/DistR.lean` — the ones
`Props/C20.lean` relates to Mathlib's Gaussian and Poisson measures — equals the generated one, for
every choice of the opaque primitives.  A changed formula in the Python source (the `lgamma(rate + 1)`
slip D25, a missing `0.5`, `sqrt(2)` for `sqrt(tau)`, …) changes the generated text and the
corresponding theorem stops checking.
-/
namespace InfernoVerif.Dist.Glue
open InfernoVerif.Dist.R InfernoVerif.Gen
open Classical

variable (S : Special) (x a b : ℝ)

theorem gen_Poisson_logpmf : Poisson.logpmf S x a = DistributionsR.Poisson_logpmf x a S.lgamma := by
  simp [Poisson.logpmf, DistributionsR.Poisson_logpmf, xlogy]
theorem gen_Poisson_pmf : Poisson.pmf S x a = DistributionsR.Poisson_pmf x a S.lgamma := by
  simp [Poisson.pmf, DistributionsR.Poisson_pmf, gen_Poisson_logpmf]
theorem gen_Poisson_cdf : Poisson.cdf S x a = DistributionsR.Poisson_cdf x a S.gammaincc := rfl
theorem gen_Poisson_logcdf : Poisson.logcdf S x a = DistributionsR.Poisson_logcdf x a S.gammaincc := rfl
theorem gen_Poisson_mean : Poisson.mean a = DistributionsR.Poisson_mean a := rfl
theorem gen_Poisson_variance : Poisson.variance a = DistributionsR.Poisson_variance a := rfl

theorem gen_Normal_params_mv : Normal.params_mv a b = DistributionsR.Normal_params_mv a b := rfl
theorem gen_Normal_pdf : Normal.pdf x a b = DistributionsR.Normal_pdf x a b := rfl
theorem gen_Normal_logpdf : Normal.logpdf x a b = DistributionsR.Normal_logpdf x a b := rfl
theorem gen_Normal_cdf : Normal.cdf S x a b = DistributionsR.Normal_cdf x a b S.erf := rfl
theorem gen_Normal_logcdf : Normal.logcdf S x a b = DistributionsR.Normal_logcdf x a b S.erf := rfl
theorem gen_Normal_mean : Normal.mean a = DistributionsR.Normal_mean a := rfl
theorem gen_Normal_variance : Normal.variance b = DistributionsR.Normal_variance b := rfl

theorem gen_LogNormal_params_mv : LogNormal.params_mv a b = DistributionsR.LogNormal_params_mv a b := rfl
theorem gen_LogNormal_logpdf : LogNormal.logpdf x a b = DistributionsR.LogNormal_logpdf x a b := rfl
theorem gen_LogNormal_pdf : LogNormal.pdf x a b = DistributionsR.LogNormal_pdf x a b := rfl
theorem gen_LogNormal_cdf : LogNormal.cdf S x a b = DistributionsR.LogNormal_cdf x a b S.erf := rfl
theorem gen_LogNormal_logcdf : LogNormal.logcdf S x a b = DistributionsR.LogNormal_logcdf x a b S.erf := rfl
theorem gen_LogNormal_mean : LogNormal.mean a b = DistributionsR.LogNormal_mean a b := rfl
theorem gen_LogNormal_variance : LogNormal.variance S a b = DistributionsR.LogNormal_variance a b S.expm1 := rfl

end InfernoVerif.Dist.Glue
