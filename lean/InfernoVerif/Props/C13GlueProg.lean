import InfernoVerif.Gen.RecordProg
import InfernoVerif.Props.C13
/-!
# Glue: the record machine's temporal setters ARE the setter bodies of `RecordTensor` in /repo's source

`Gen/RecordProg.lean` is regenerated on every run by `harness/progtx_record.py` from the *whole bodies* of the
`dt`, `duration`, `inclusive` SETTERS of `RecordTensor` and of `RecordTensor.reconstrain`
(`inferno/core/infrastructure.py`): argument validation with its exception class, the `setattr` of the new value,
the size expression `max(math.ceil(duration / dt) + inclusive, 1)` (evaluated on the state AFTER the `setattr`, in
source order), the `size != recordsz` test, the `_ignore` test guarding `self.align(0)`, the call of
`ShapedTensor.reconstrain`, the re-assignment `self.duration = duration` of the `inclusive` setter and the
`dim + (dim >= 0)` shift of `reconstrain`.  `self.align` is the regenerated `RingProg.RecordTensor_align`
(`Gen/RingProg.lean`); `ShapedTensor.reconstrain` is one primitive of `Gen/RecordPrelude.lean`.

The theorems `gen_set_dt`, `gen_set_duration`, `gen_set_inclusive`, `gen_reconstrain` state, method by method, that
running the regenerated program on a well-formed private state `g` and mapping the result through the abstraction
`toM` is exactly one step of the hand-written machine `Record.step` (`Model/Record.lean`) — the machine that
`Props/C13.lean` proves to refine the newest-first specification and to obey the size formula, and whose summary
`Props/C14.lean` stands on.  They hold for EVERY `TimeOps` (in particular `Record.ratOps`, the exact-rational
instance of `size_formula`, and the IEEE instance the driver runs), for every value of the arguments — so the
`ValueError` branches of the validation, the equal-size branch, the ignored-storage branch (`None`, `empty(0)`,
uninitialised: no `align`, constraint updated, no failure) and every exit of `ShapedTensor.reconstrain` are covered.
A raise corresponds to `Out.err` *with the state reached at the raise* (Python semantics: the `inclusive` setter
stores the flag before `duration`'s validation can fail — `Record.step` models that, and so do the programs).
`gen_*_wf` show that well-formedness is maintained, so the theorems chain along operation sequences.

What the abstraction `toM` forgets (the model does not have it): the dtype tags of the storage and of the
ignored storage kinds, and the pointer of ignored storage.  What the hypotheses `GWF` assume (what the
constructor and every method maintain): the constraint `0 ↦ n` exists with `n ≥ 1`; initialised storage has
`n` rows, a pointer in `[0, n)`, and carries its own dtype / observation shape.  Outside `GWF` the model and the
code differ in one place: `Record.align0` never fails, whereas `self.align` evaluates `self.__recordsz`
(`KeyError` without key `0`) and `argtest.index(0, recordsz)` (`ValueError` for `recordsz = 0`).
The returned value of `RecordTensor.reconstrain` (the newly constrained tensor) is not part of `Record.Out`; `lift`
drops it.
-/
set_option linter.unusedSimpArgs false
set_option linter.unusedVariables false
namespace InfernoVerif.Gen.RecordProg
open InfernoVerif.Ring InfernoVerif.Shaped InfernoVerif.Gen InfernoVerif.Gen.Prog InfernoVerif.Gen.RecordPrelude
open InfernoVerif.Record (TimeOps recSize)

variable {τ α : Type}

/-- abstraction: private state of the regenerated programs → state of the hand-written record machine -/
def toM (g : RecT τ) : Record.MState τ :=
  { dt := g.dt, dur := g.duration, incl := g.inclusive, cons := g.constraints, strict := g.strict,
    param := g.param,
    store := match g.data with
      | .none => .none
      | .empty _ => .empty
      | .uninit _ => .uninit
      | .init _ sh s => .init sh (g.pointer.toNat, s.rows) }

/-- well-formedness of a private state (what the constructor and every method maintain) -/
def GWF (g : RecT τ) : Prop :=
  ∃ n : Nat, g.constraints.lookup 0 = some n ∧ 0 < n ∧
    match g.data with
    | .init d sh s => s.dt = d ∧ s.oshape = sh ∧ s.rows.length = n ∧ 0 ≤ g.pointer ∧ g.pointer < n
    | _ => True

/-- result of a regenerated method → (state, output) of the machine; an exception is reported with the state
reached at the raise -/
def lift : Except (Err × RecT τ) (RecT τ × α) → Record.MState τ × Record.Out
  | .ok (g', _) => (toM g', .unit)
  | .error (e, g') => (toM g', .err e)

/-- the state a program ends in, whether it returned or raised -/
def outState : Except (Err × RecT τ) (RecT τ × α) → RecT τ
  | .ok (g, _) => g
  | .error (_, g) => g

/-- a well-formed private state abstracts to a well-formed machine state -/
theorem toM_wf (g : RecT τ) (h : GWF g) : Record.MWF (toM g) := by
  obtain ⟨n, hn, hpos, hd⟩ := h
  refine ⟨n, hn, hpos, ?_⟩
  unfold toM
  cases hdat : g.data with
  | init d sh s =>
    rw [hdat] at hd
    simp only at hd ⊢
    omega
  | _ => trivial

/-! ## The shape of the generated programs

Hand-written names for the two blocks the generated bodies share; the `*_shape` theorems are proved by `rfl`, i.e.
the generated text IS these blocks put together in this order. -/

/-- the block `if not self._ignore(self.__data): self.align(0)` -/
def alignIfLive (E : Elem Int) (self : RecT τ) : Except (Err × RecT τ) (RecT τ) := do
  match self.data with
  | .init _ _ data_ =>
    let self := (← viaRT self (fun rt_ => RingProg.RecordTensor_align E rt_ (0 : Int))).1
    pure self
  | _ =>
    pure self

/-- the common tail of the `dt` and `duration` setters:
`if size != self.__recordsz: (align(0) unless ignored); ShapedTensor.reconstrain(self, 0, size)` -/
def sizeTail (E : Elem Int) (self : RecT τ) (size : Int) : Except (Err × RecT τ) (RecT τ × Unit) := do
  if (decide (size ≠ (← raising self (recordsz self)))) then
    let self ← alignIfLive E self
    let self := (← ShapedTensor_reconstrain self (0 : Int) (some size)).1
    pure (self, ())
  else
    pure (self, ())

/-- the generated `dt` setter: validate with `argtest.gt`, store the new dt, THEN compute the size from the stored
duration / dt / inclusive, then the common tail -/
theorem set_dt_shape (T : TimeOps τ) (E : Elem Int) (g : RecT τ) (v : τ) :
    RecordTensor_set_dt T E g v = (do
      let value ← raising g (argtest_gt T v)
      let self := { g with dt := value }
      sizeTail E self (max (T.ceilDiv self.duration self.dt + boolInt self.inclusive) 1)) := rfl

/-- the generated `duration` setter: validate with `argtest.gte`, store, compute the size, common tail -/
theorem set_duration_shape (T : TimeOps τ) (E : Elem Int) (g : RecT τ) (v : τ) :
    RecordTensor_set_duration T E g v = (do
      let value ← raising g (argtest_gte T v)
      let self := { g with duration := value }
      sizeTail E self (max (T.ceilDiv self.duration self.dt + boolInt self.inclusive) 1)) := rfl

/-- the generated `reconstrain`: guarded `align()` (default index, read from the source: `0`), then
`ShapedTensor.reconstrain(self, dim + (dim >= 0), size)` -/
theorem reconstrain_shape (T : TimeOps τ) (E : Elem Int) (g : RecT τ) (dim : Int) (size : Option Int) :
    RecordTensor_reconstrain T E g dim size = (do
      let self ← alignIfLive E g
      ShapedTensor_reconstrain self (dim + boolInt (decide (dim ≥ 0))) size) := rfl

/-- the size expression of the generated setters is `Record.recSize` (for exact rational times
`Props/C13Glue.lean :: gen_recSize_rat` ties `recSize` to the older site extraction `Gen/InfraR.lean` as well) -/
theorem gen_size_expr (T : TimeOps τ) (dt dur : τ) (incl : Bool) :
    (max (T.ceilDiv dur dt + boolInt incl) 1).toNat = recSize T dt dur incl := rfl

/-! ## The blocks against the model -/

/-- shape consistency of initialised storage (all the reconstrain primitive needs) -/
def ShapeOK (g : RecT τ) : Prop :=
  match g.data with
  | .init _ sh s => s.oshape = sh
  | _ => True

/-- the primitive `ShapedTensor_reconstrain` is the model's `shapedReconM`, exit by exit -/
theorem shaped_eq (g : RecT τ) (hsh : ShapeOK g) (dim : Int) (size : Option Int) :
    lift (ShapedTensor_reconstrain g dim size) = Record.shapedReconM (toM g) dim size := by
  have hshape : storeShape? g.data = Record.mShape? (toM g).store := by
    unfold ShapeOK at hsh
    unfold toM
    cases hdat : g.data with
    | init d sh s => rw [hdat] at hsh; simp only at hsh; simp [storeShape?, Record.mShape?, hsh]
    | _ => rfl
  unfold ShapedTensor_reconstrain Record.shapedReconM
  rw [hshape]
  have e1 : (toM g).cons = g.constraints := rfl
  have e2 : (toM g).strict = g.strict := rfl
  rw [e1, e2]
  cases hD : reconDecide g.constraints g.strict (Record.mShape? (toM g).store) dim size with
  | err e => rfl
  | set c => rfl
  | setErr c e => rfl
  | resize c t n =>
    unfold ShapeOK at hsh
    cases hdat : g.data with
    | init d sh s =>
      rw [hdat] at hsh; simp only at hsh
      subst hsh
      by_cases ht : t = 0
      · simp [lift, Record.applyM, toM, hdat, ht, Store.ofStack]
      · simp [lift, Record.applyM, toM, hdat, ht, Store.ofStack]
    | none =>
      have hm : Record.mShape? (toM g).store = none := by simp [toM, hdat, Record.mShape?]
      rw [hm] at hD
      obtain ⟨_, _, _, _, _, _, e, _⟩ := decide_resize hD
      cases e
    | empty d =>
      have hm : Record.mShape? (toM g).store = none := by simp [toM, hdat, Record.mShape?]
      rw [hm] at hD
      obtain ⟨_, _, _, _, _, _, e, _⟩ := decide_resize hD
      cases e
    | uninit d =>
      have hm : Record.mShape? (toM g).store = none := by simp [toM, hdat, Record.mShape?]
      rw [hm] at hD
      obtain ⟨_, _, _, _, _, _, e, _⟩ := decide_resize hD
      cases e

/-- `self.align(0)` (the regenerated `RingProg.RecordTensor_align`) on initialised storage of a record with
`recordsz ≥ 1`: never raises; rolls by `0 - pointer`, pointer becomes `0` -/
theorem align_init (E : Elem Int) (g : RecT τ) (n : Nat) (hn : g.constraints.lookup 0 = some n) (hpos : 0 < n)
    (d : DType) (sh : List Nat) (s : Stack Int) (hd : g.data = .init d sh s) :
    viaRT g (fun rt_ => RingProg.RecordTensor_align E rt_ (0 : Int))
      = .ok ({ g with data := Store.ofStack (s.roll (0 - g.pointer)), pointer := 0 }, ()) := by
  have h1 : -(n : Int) ≤ 0 ∧ (0 : Int) < (n : Int) := by omega
  simp [viaRT, recordsz, hn, RingProg.RecordTensor_align, argIndex, h1, hpos, hd, bind, Except.bind, pure,
    Except.pure]

/-- the guarded `align(0)` of the setters and of `reconstrain` is the model's `align0` -/
theorem alignIfLive_eq (E : Elem Int) (g : RecT τ) (h : GWF g) :
    ∃ g', alignIfLive E g = .ok g' ∧ toM g' = Record.align0 (toM g) ∧ ShapeOK g' := by
  obtain ⟨n, hn, hpos, hd⟩ := h
  unfold alignIfLive
  cases hdat : g.data with
  | init d sh s =>
    rw [hdat] at hd
    simp only at hd
    obtain ⟨hdt, hsh, hl, hp0, hp1⟩ := hd
    subst hsh
    simp only [bind, Except.bind, pure, Except.pure, align_init E g n hn hpos d _ s hdat]
    refine ⟨_, rfl, ?_, ?_⟩
    · have e2 : ((g.pointer.toNat : Nat) : Int) = g.pointer := Int.toNat_of_nonneg hp0
      simp [toM, Record.align0, hdat, Store.ofStack, Stack.roll, e2]
    · simp [ShapeOK, Store.ofStack, Stack.roll]
  | none => exact ⟨g, rfl, by simp [toM, Record.align0, hdat], by simp [ShapeOK, hdat]⟩
  | empty d => exact ⟨g, rfl, by simp [toM, Record.align0, hdat], by simp [ShapeOK, hdat]⟩
  | uninit d => exact ⟨g, rfl, by simp [toM, Record.align0, hdat], by simp [ShapeOK, hdat]⟩

/-- dropping the returned value does not change what `lift` reports -/
theorem lift_fst {β : Type} (x : Except (Err × RecT τ) (RecT τ × α)) (f : RecT τ × α → β) :
    lift (Except.bind x fun r => Except.ok (r.1, f r)) = lift x := by
  cases x with
  | error e => rfl
  | ok r => rfl

/-- the common tail of the setters is the model's `resizeToM` (for the sizes the formula yields: `≥ 1`) -/
theorem sizeTail_eq (E : Elem Int) (g : RecT τ) (h : GWF g) (size : Int) (hs : 1 ≤ size) :
    lift (sizeTail E g size) = Record.resizeToM (toM g) size.toNat := by
  obtain ⟨g', ha, hm, hok⟩ := alignIfLive_eq E g h
  obtain ⟨n, hn, hpos, hd⟩ := h
  unfold sizeTail Record.resizeToM
  have hc : (toM g).cons.lookup 0 = some n := hn
  rw [hc]
  simp only [raising, recordsz, hn, bind, Except.bind, pure, Except.pure]
  by_cases he : size = (n : Int)
  · have e2 : size.toNat = n := by omega
    simp [he, e2, lift]
  · have e2 : ¬ size.toNat = n := by omega
    have e3 : ((size.toNat : Nat) : Int) = size := Int.toNat_of_nonneg (by omega)
    simp only [ne_eq, he, not_false_eq_true, decide_true, ↓reduceIte, e2, ha]
    refine (lift_fst (ShapedTensor_reconstrain g' 0 (some size)) (fun _ => ())).trans ?_
    rw [shaped_eq g' hok, hm, e3]

/-! ## The glue theorems -/

/-- **`rt.dt = v`**: the regenerated body of the `dt` setter, run on a well-formed private state, is one
`Record.step … (.setDt v)` — `ValueError` (state unchanged) unless `v > 0`; otherwise the new dt is stored, the
size is `recSize` of the NEW dt, and the record is aligned / resized exactly as `resizeToM` says (nothing when the
size is unchanged; constraint only when storage is ignored). -/
theorem gen_set_dt (T : TimeOps τ) (E : Elem Int) (g : RecT τ) (h : GWF g) (v : τ) :
    lift (RecordTensor_set_dt T E g v) = Record.step T (toM g) (.setDt v) := by
  rw [set_dt_shape]
  simp only [Record.step, raising, argtest_gt, bind, Except.bind]
  by_cases hv : T.pos v = true
  · simp only [hv, if_true]
    have hw : GWF { g with dt := v } := h
    rw [sizeTail_eq E _ hw _ (by omega)]
    rfl
  · simp [hv, lift]

/-- **`rt.duration = v`**: the regenerated body of the `duration` setter is one `Record.step … (.setDur v)` —
`ValueError` (state unchanged) unless `v ≥ 0`; otherwise as for `dt`, with the size of the NEW duration. -/
theorem gen_set_duration (T : TimeOps τ) (E : Elem Int) (g : RecT τ) (h : GWF g) (v : τ) :
    lift (RecordTensor_set_duration T E g v) = Record.step T (toM g) (.setDur v) := by
  rw [set_duration_shape]
  simp only [Record.step, raising, argtest_gte, bind, Except.bind]
  by_cases hv : T.nonneg v = true
  · simp only [hv, if_true]
    have hw : GWF { g with duration := v } := h
    rw [sizeTail_eq E _ hw _ (by omega)]
    rfl
  · simp [hv, lift]

/-- **`rt.inclusive = b`**: the regenerated body of the `inclusive` setter (copy the duration, store the flag,
`self.duration = duration` through the regenerated `duration` setter) is one `Record.step … (.setIncl b)` —
including the case where the stored duration fails `duration`'s validation: `ValueError` with the flag already
stored. -/
theorem gen_set_inclusive (T : TimeOps τ) (E : Elem Int) (g : RecT τ) (h : GWF g) (b : Bool) :
    lift (RecordTensor_set_inclusive T E g b) = Record.step T (toM g) (.setIncl b) := by
  have hw : GWF { g with inclusive := b } := h
  have hd := gen_set_duration T E { g with inclusive := b } hw g.duration
  unfold RecordTensor_set_inclusive
  simp only [bind, pure, Except.pure]
  refine (lift_fst _ (fun _ => ())).trans ?_
  rw [hd]
  rfl

/-- **`rt.reconstrain(dim, size)`**: the regenerated body (guarded `align()`, then `ShapedTensor.reconstrain` on the
shifted dimension `dim + (dim >= 0)`) is one `Record.step … (.recon dim size)`, for every `dim` and every `size`
(`None` = remove), every exit of `ShapedTensor.reconstrain` included. -/
theorem gen_reconstrain (T : TimeOps τ) (E : Elem Int) (g : RecT τ) (h : GWF g) (dim : Int) (size : Option Int) :
    lift (RecordTensor_reconstrain T E g dim size) = Record.step T (toM g) (.recon dim size) := by
  obtain ⟨g', ha, hm, hok⟩ := alignIfLive_eq E g h
  rw [reconstrain_shape]
  simp only [bind, Except.bind, ha, Record.step]
  rw [shaped_eq g' hok, hm]
  congr 1
  unfold boolInt
  by_cases hd : 0 ≤ dim <;> simp [hd]

/-! ## Well-formedness is maintained (so the glue theorems chain along operation sequences) -/

/-- the state of the machine after the step is the abstraction of the state the program ends in -/
theorem toM_outState (x : Except (Err × RecT τ) (RecT τ × α)) : toM (outState x) = (lift x).1 := by
  cases x with
  | error e => rfl
  | ok r => rfl

/-- the part of `GWF` that the abstraction `toM` forgets -/
def DataOK (g : RecT τ) : Prop :=
  match g.data with
  | .init d sh s => s.dt = d ∧ s.oshape = sh ∧ 0 ≤ g.pointer
  | _ => True

theorem gwf_dataOK (g : RecT τ) (h : GWF g) : DataOK g := by
  obtain ⟨n, hn, hpos, hd⟩ := h
  unfold DataOK
  cases hdat : g.data with
  | init d sh s => rw [hdat] at hd; simp only at hd ⊢; exact ⟨hd.1, hd.2.1, hd.2.2.2.1⟩
  | _ => trivial

/-- `GWF` is well-formedness of the abstract state plus what the abstraction forgets -/
theorem gwf_of (g : RecT τ) (hm : Record.MWF (toM g)) (hd : DataOK g) : GWF g := by
  obtain ⟨n, hn, hpos, hs⟩ := hm
  refine ⟨n, hn, hpos, ?_⟩
  unfold DataOK at hd
  unfold toM at hs
  cases hdat : g.data with
  | init d sh s =>
    rw [hdat] at hd hs
    simp only at hd hs ⊢
    exact ⟨hd.1, hd.2.1, hs.1, hd.2.2, by omega⟩
  | _ => trivial

theorem shaped_dataOK (g : RecT τ) (h : DataOK g) (dim : Int) (size : Option Int) :
    DataOK (outState (ShapedTensor_reconstrain g dim size)) := by
  unfold ShapedTensor_reconstrain
  cases hD : reconDecide g.constraints g.strict (storeShape? g.data) dim size with
  | err e => exact h
  | set c => exact h
  | setErr c e => exact h
  | resize c t n =>
    unfold DataOK at h
    cases hdat : g.data with
    | init d sh s =>
      rw [hdat] at h
      simp only at h
      simpa [outState, DataOK, Store.ofStack] using h.2.2
    | none => simp [outState, DataOK, hdat]
    | empty d => simp [outState, DataOK, hdat]
    | uninit d => simp [outState, DataOK, hdat]

theorem alignIfLive_dataOK (E : Elem Int) (g g' : RecT τ) (h : GWF g) (ha : alignIfLive E g = .ok g') :
    DataOK g' := by
  have hok := gwf_dataOK g h
  obtain ⟨n, hn, hpos, hd⟩ := h
  unfold alignIfLive at ha
  cases hdat : g.data with
  | init d sh s =>
    rw [hdat] at ha
    simp only [bind, Except.bind, pure, Except.pure, align_init E g n hn hpos d sh s hdat] at ha
    cases ha
    simp [DataOK, Store.ofStack]
  | none => rw [hdat] at ha; cases ha; exact hok
  | empty d => rw [hdat] at ha; cases ha; exact hok
  | uninit d => rw [hdat] at ha; cases ha; exact hok

theorem outState_fst {β : Type} (x : Except (Err × RecT τ) (RecT τ × α)) (f : RecT τ × α → β) :
    outState (Except.bind x fun r => Except.ok (r.1, f r)) = outState x := by
  cases x with
  | error e => rfl
  | ok r => rfl

theorem sizeTail_dataOK (E : Elem Int) (g : RecT τ) (h : GWF g) (size : Int) :
    DataOK (outState (sizeTail E g size)) := by
  obtain ⟨g', ha, -, -⟩ := alignIfLive_eq E g h
  have hok' := alignIfLive_dataOK E g g' h ha
  have hok := gwf_dataOK g h
  obtain ⟨n, hn, hpos, hd⟩ := h
  unfold sizeTail
  simp only [raising, recordsz, hn, bind, Except.bind, pure, Except.pure]
  by_cases he : size = (n : Int)
  · simpa [he, outState] using hok
  · simp only [ne_eq, he, not_false_eq_true, decide_true, ↓reduceIte, ha]
    have e := outState_fst (ShapedTensor_reconstrain g' 0 (some size)) (fun _ => ())
    exact e ▸ shaped_dataOK g' hok' 0 (some size)

theorem set_dt_dataOK (T : TimeOps τ) (E : Elem Int) (g : RecT τ) (h : GWF g) (v : τ) :
    DataOK (outState (RecordTensor_set_dt T E g v)) := by
  rw [set_dt_shape]
  simp only [raising, argtest_gt, bind, Except.bind]
  by_cases hv : T.pos v = true
  · simp only [hv, if_true]
    exact sizeTail_dataOK E { g with dt := v } h _
  · simpa [hv, outState] using gwf_dataOK g h

theorem set_duration_dataOK (T : TimeOps τ) (E : Elem Int) (g : RecT τ) (h : GWF g) (v : τ) :
    DataOK (outState (RecordTensor_set_duration T E g v)) := by
  rw [set_duration_shape]
  simp only [raising, argtest_gte, bind, Except.bind]
  by_cases hv : T.nonneg v = true
  · simp only [hv, if_true]
    exact sizeTail_dataOK E { g with duration := v } h _
  · simpa [hv, outState] using gwf_dataOK g h

/-- the `dt` setter leaves a well-formed private state, whether it returns or raises -/
theorem gen_set_dt_wf (T : TimeOps τ) (E : Elem Int) (g : RecT τ) (h : GWF g) (v : τ) :
    GWF (outState (RecordTensor_set_dt T E g v)) :=
  gwf_of _ (by rw [toM_outState, gen_set_dt T E g h v]
               exact (Record.record_step_refines T (toM g) (toM_wf g h) _).2.2)
    (set_dt_dataOK T E g h v)

/-- the `duration` setter leaves a well-formed private state, whether it returns or raises -/
theorem gen_set_duration_wf (T : TimeOps τ) (E : Elem Int) (g : RecT τ) (h : GWF g) (v : τ) :
    GWF (outState (RecordTensor_set_duration T E g v)) :=
  gwf_of _ (by rw [toM_outState, gen_set_duration T E g h v]
               exact (Record.record_step_refines T (toM g) (toM_wf g h) _).2.2)
    (set_duration_dataOK T E g h v)

/-- the `inclusive` setter leaves a well-formed private state, whether it returns or raises -/
theorem gen_set_inclusive_wf (T : TimeOps τ) (E : Elem Int) (g : RecT τ) (h : GWF g) (b : Bool) :
    GWF (outState (RecordTensor_set_inclusive T E g b)) := by
  refine gwf_of _ (by rw [toM_outState, gen_set_inclusive T E g h b]
                      exact (Record.record_step_refines T (toM g) (toM_wf g h) _).2.2) ?_
  have hw : GWF { g with inclusive := b } := h
  unfold RecordTensor_set_inclusive
  simp only [bind, pure, Except.pure]
  rw [outState_fst]
  exact set_duration_dataOK T E _ hw g.duration

/-- `reconstrain` leaves a well-formed private state, whether it returns or raises -/
theorem gen_reconstrain_wf (T : TimeOps τ) (E : Elem Int) (g : RecT τ) (h : GWF g) (dim : Int)
    (size : Option Int) : GWF (outState (RecordTensor_reconstrain T E g dim size)) := by
  refine gwf_of _ (by rw [toM_outState, gen_reconstrain T E g h dim size]
                      exact (Record.record_step_refines T (toM g) (toM_wf g h) _).2.2) ?_
  obtain ⟨g', ha, -, -⟩ := alignIfLive_eq E g h
  rw [reconstrain_shape]
  simp only [bind, Except.bind, ha]
  exact shaped_dataOK g' (alignIfLive_dataOK E g g' h ha) _ _

/-! ## Non-vacuity: the generated programs run on a concrete well-formed state -/

def exE : Elem Int := ⟨fun _ _ v => v, 0⟩

/-- 3 slots mid-wrap (pointer 1; newest first `[4,4] [3,3] [2,2]`), one user constraint on the observation dim -/
def exG : RecT Rat :=
  { dt := 1, duration := 3, inclusive := false, constraints := [(1, 2), (0, 3)], strict := true, param := false,
    data := .init false [2] ⟨false, [2], [[4, 4], [2, 2], [3, 3]]⟩, pointer := 1 }

example : GWF exG := ⟨3, by decide, by decide, by simp [exG]⟩
-- dt 1 → 1/2: six slots, aligned to 0, three zero rows prepended, oldest → newest 2, 3, 4
example : (lift (RecordTensor_set_dt Record.ratOps exE exG (1/2))).2 = .unit := by decide +kernel
example : (outState (RecordTensor_set_dt Record.ratOps exE exG (1/2))).constraints.lookup 0 = some 6 := by
  decide +kernel
example : (outState (RecordTensor_set_dt Record.ratOps exE exG (1/2))).data =
    .init false [2] ⟨false, [2], [[0, 0], [0, 0], [0, 0], [2, 2], [3, 3], [4, 4]]⟩ := by decide +kernel
example : (outState (RecordTensor_set_dt Record.ratOps exE exG (1/2))).pointer = 0 := by decide +kernel
-- argument validation: dt = 0 is refused, nothing changes
example : (lift (RecordTensor_set_dt Record.ratOps exE exG 0)).2 = .err .ValueError := by decide +kernel
example : (outState (RecordTensor_set_dt Record.ratOps exE exG 0)).data = exG.data := by decide +kernel
-- ignored storage: the setter returns, the constraint is updated, no align is attempted
example : (lift (RecordTensor_set_duration Record.ratOps exE { exG with data := .none } 5)).2 = .unit := by
  decide +kernel
example : (outState (RecordTensor_set_duration Record.ratOps exE { exG with data := .none } 5)).constraints.lookup 0
    = some 5 := by decide +kernel
-- inclusive adds one slot; shrinking keeps the newest
example : (outState (RecordTensor_set_inclusive Record.ratOps exE exG true)).constraints.lookup 0 = some 4 := by
  decide +kernel
example : (outState (RecordTensor_set_duration Record.ratOps exE exG 2)).data =
    .init false [2] ⟨false, [2], [[3, 3], [4, 4]]⟩ := by decide +kernel
-- reconstrain on the observation dimension (raw dim 1), after align
example : (outState (RecordTensor_reconstrain Record.ratOps exE exG 0 (some 3))).data =
    .init false [3] ⟨false, [3], [[0, 2, 2], [0, 3, 3], [0, 4, 4]]⟩ := by decide +kernel
-- removing an unconstrained dimension is refused
example : (lift (RecordTensor_reconstrain Record.ratOps exE exG (-1) none)).2 = .err .ValueError := by
  decide +kernel

end InfernoVerif.Gen.RecordProg
