import InfernoVerif.Gen.UpdaterProg
import InfernoVerif.Model.Updater
/-!
# Glue: the code-shaped updater machine IS the method bodies of `Accumulator` / `Updater` / `Updatable` in /repo's source

`Gen/UpdaterProg.lean` is regenerated on every run by `harness/progtx_updater.py` from the *whole bodies* of
`Accumulator.__init__` (with its closures `calc_pos` / `calc_neg`), the `pos` / `neg` property getters, setters and
deleters, `reduction`, `upperbound`, `lowerbound`, `fullbound`, `clear`, `update`, `forward`; `Updater.__init__`,
`clear`, `forward`; `Updatable.updater` / `updatable` (getters), `clear`, `update`, `updatesome`
(`inferno/neural/modeling.py`).  Control flow, exception classes, the cache plumbing, list indices, argument order and
the calls between methods are kept; Python / torch primitives are the functions of `Gen/UpdaterPrelude.lean`.

The theorems `gen_*` below state, method by method, that running the regenerated program on a (well-formed) instance
state and mapping the result through the abstraction functions `toA` / `toU` / `toMod` is exactly the corresponding
function of the hand-written model `Model/Updater.lean` (`Accumulator.getPos … forward`, `Updater.new / clear / forward`,
`Module.update / updatesome`, `step · .clear`) — the functions `Props/C10.lean` proves to refine the specification
`new = old + ub(reduce pos parts) − lb(reduce neg parts)`.  A change to a method body changes the generated text and the
corresponding theorem stops checking.

What the abstraction adds / assumes (nothing is papered over):
* **Exceptions keep the state.**  The programs return `Except (Err × state) (state × value)`; `out` maps BOTH sides, so the
  theorems also equate the state left behind by a raising call (filled caches after a `TypeError` of the bounding function;
  parameters already assigned by `Updater.forward`) with the model's.
* **Ghost decomposition.**  The model bundles every full bounding callable with the decomposition the *specification*
  reads (`FullBound.halves?`); the code has only the callable.  `toA` therefore takes an arbitrary assignment `dec` of a
  decomposition to each callable; the only requirement is `DecUnbounded dec` (the default `lambda x, p, n: p - n`
  decomposes as in `FullBound.unbounded`).  `Accumulator.update` never reads it.
* **`AWF`.**  A `list` stored in `self.bind` has two entries (established by `upperbound` / `lowerbound`, which are the
  only writers; `new_wf` and the `*_wf` lemmas show every translated method maintains it).  Without it the code raises
  `IndexError`, which the model has no class for.
* **Callables are total** except the full bounding function (as in the model): `reduce`, the half bounds and the closures
  over them cannot raise.  `κ` is the type of the `**kwargs` captured by the closures.
* **The parent module.**  `Updater.forward` dereferences a weak reference; the model passes the module's parameters
  explicitly.  `gen_updater_forward` assumes the reference is live (`_parent_module = some m`) and `m` is the model's
  `module` argument; `gen_updater_forward_dead` covers the dead reference (`RuntimeError`, outside the model).  For
  `Updatable` the stored updater is the one built for this module (`m.updater = Updater(m, …)`, the model's assumption
  too): `updaterCall` (prelude) runs the updater programs on the view `⟨accumulators, some attrs⟩`.
* **Dropped by the translator** (see `progtx_updater.py`): `Module.__init__`, the state-dict hook, the dynamic
  `self.__class__ = type(…)` (its properties are the prelude's `dynGetattr`), `**kwargs` that are only handed on.

`fwdBody` / `someBody` are copies of the two generated loop bodies; `forward_unfold` / `updatesome_unfold` prove the
generated methods are loops over exactly these bodies, so a change of a loop body is detected there.
-/
set_option linter.unusedSimpArgs false
set_option linter.unusedVariables false
set_option linter.unusedSectionVars false
namespace InfernoVerif.Gen.UpdaterProg
open InfernoVerif.Updater InfernoVerif.Gen.UpdProg

variable {α κ : Type} [Add α] [Sub α] [Neg α] [Zero α]

/-- ghost data of the abstraction: the decomposition `halves?` that `Model/Updater.lean` bundles with a full bounding
function (`FullBound.halves?`, read only by the specification machine) — the code has no such thing, so the abstraction
function is parameterised by an assignment of a decomposition to every callable -/
abbrev Dec (α : Type) := Full α → Option (Half α × Half α)

/-- abstraction of the Python value of `self.bind` (a list is read through its first two entries; `AWF` says it has two) -/
def toBind (dec : Dec α) : BindV α → Bind α
  | .fn f => .full ⟨f, dec f⟩
  | .list l => .halves (l.getD 0 (fun _ p => p)) (l.getD 1 (fun _ n => n))

/-- abstraction: instance state of the regenerated `Accumulator` programs → the model's `Accumulator` -/
def toA (dec : Dec α) (s : AccS α) : Accumulator α :=
  { pos := s._pos, neg := s._neg, posCache := s._pos_cache, negCache := s._neg_cache,
    reduce := s.reduce, bind := toBind dec s.bind }

/-- well-formedness of an accumulator state: a `list` in `self.bind` has exactly two entries (what `__init__`,
`upperbound`, `lowerbound`, `fullbound` establish and every method maintains: `new_wf`, `*_wf` below) -/
def AWF (s : AccS α) : Prop :=
  match s.bind with
  | .list l => l.length = 2
  | .fn _ => True

/-- result of a regenerated method → (abstract state, returned value or exception class); the state is the one at the
raise point when the method raised -/
def out {σ σ' ρ : Type} (f : σ → σ') : Except (Err × σ) (σ × ρ) → σ' × Except Err ρ
  | .ok (s, r) => (f s, .ok r)
  | .error (e, s) => (f s, .error e)

/-- the ghost decomposition of the default bind `lambda x, p, n: p - n` is the model's `FullBound.unbounded` -/
def DecUnbounded (dec : Dec α) : Prop :=
  dec (fun _ p n => .ok (p - n)) = some (fun _ p => p, fun _ n => n)

/-- `Accumulator.__init__` (regenerated field initialisers) builds the model's `Accumulator.new` -/
theorem gen_new (dec : Dec α) (h : DecUnbounded dec) :
    toA dec (Accumulator___init__ : AccS α) = Accumulator.new := by
  unfold DecUnbounded at h
  simp [toA, Accumulator___init__, Accumulator.new, toBind, FullBound.unbounded, nnParameterList,
    functoolsCache, torchSum, pure, Except.pure, h]

/-- the regenerated closure `calc_pos` computes the model's `calcParts` of the positive parts and never raises -/
theorem gen_calc_pos (s : AccS α) :
    Accumulator_calc_pos s = .ok (s, calcParts s.reduce s._pos) := by
  unfold Accumulator_calc_pos calcParts torchStack0 callReduce0
  cases h : s._pos <;> simp [raiseWith, bind, Except.bind, pure, Except.pure]
  omega

/-- the regenerated closure `calc_neg` computes the model's `calcParts` of the negative parts and never raises -/
theorem gen_calc_neg (s : AccS α) :
    Accumulator_calc_neg s = .ok (s, calcParts s.reduce s._neg) := by
  unfold Accumulator_calc_neg calcParts torchStack0 callReduce0
  cases h : s._neg <;> simp [raiseWith, bind, Except.bind, pure, Except.pure]
  omega

/-- the regenerated `pos` getter (`self._pos_cache()`, a `functools.cache` of `calc_pos`) is the model's `getPos` -/
theorem gen_getPos (dec : Dec α) (s : AccS α) :
    out (toA dec) (Accumulator_pos s) = ((toA dec s).getPos.1, .ok (toA dec s).getPos.2) := by
  unfold Accumulator_pos cached Accumulator.getPos
  rw [gen_calc_pos]
  cases h : s._pos_cache <;> simp [toA, h, out, bind, Except.bind, pure, Except.pure]

/-- the regenerated `neg` getter is the model's `getNeg` -/
theorem gen_getNeg (dec : Dec α) (s : AccS α) :
    out (toA dec) (Accumulator_neg s) = ((toA dec s).getNeg.1, .ok (toA dec s).getNeg.2) := by
  unfold Accumulator_neg cached Accumulator.getNeg
  rw [gen_calc_neg]
  cases h : s._neg_cache <;> simp [toA, h, out, bind, Except.bind, pure, Except.pure]

/-- the regenerated `pos` setter (append and `cache_clear()` unless `None`) is the model's `setPos` -/
theorem gen_setPos (dec : Dec α) (s : AccS α) (v : Option α) :
    out (toA dec) (Accumulator_pos_setter s v) = ((toA dec s).setPos v, .ok ()) := by
  cases v <;> simp [Accumulator_pos_setter, Accumulator.setPos, toA, out, plistAppend, cacheClear, pure, Except.pure]

/-- the regenerated `pos` deleter is the model's `delPos` -/
theorem gen_delPos (dec : Dec α) (s : AccS α) :
    out (toA dec) (Accumulator_pos_deleter s) = ((toA dec s).delPos, .ok ()) := by
  simp [Accumulator_pos_deleter, Accumulator.delPos, toA, out, nnParameterList, cacheClear, pure, Except.pure]

/-- the regenerated `reduction(fn)` is the model's `reduction` -/
theorem gen_reduction (dec : Dec α) (s : AccS α) (fn : Option (Reduce α)) :
    out (toA dec) (Accumulator_reduction s fn) = ((toA dec s).reduction fn, .ok ()) := by
  cases fn <;> simp [Accumulator_reduction, Accumulator.reduction, toA, out, torchSum, cacheClear, bind, Except.bind, pure, Except.pure]


/-- the regenerated `upperbound(bound, max, **kwargs)` is the model's `upperbound` applied to the closure
`lambda x, p: bound(x, p, max, **kwargs)` the method builds -/
theorem gen_upperbound (dec : Dec α) (s : AccS α) (h : AWF s) (bound : Option (HalfBounding α κ))
    (mx : Option α) (kw : κ) :
    out (toA dec) (Accumulator_upperbound s bound mx kw)
      = ((toA dec s).upperbound (bound.map fun b => fun x p => b x p mx kw), .ok ()) := by
  unfold AWF at h
  cases hb : s.bind with
  | fn f =>
    cases bound <;>
      simp [Accumulator_upperbound, Accumulator.upperbound, Bind.asHalves, hb, isList, setItem, raiseWith,
        toA, toBind, out, bind, Except.bind, pure, Except.pure]
  | list l =>
    rw [hb] at h
    match l, h with
    | [u, lo], _ =>
      cases bound <;>
        simp [Accumulator_upperbound, Accumulator.upperbound, Bind.asHalves, hb, isList, setItem, raiseWith,
          toA, toBind, out, bind, Except.bind, pure, Except.pure]

/-- the regenerated `lowerbound(bound, min, **kwargs)` is the model's `lowerbound` applied to the closure it builds -/
theorem gen_lowerbound (dec : Dec α) (s : AccS α) (h : AWF s) (bound : Option (HalfBounding α κ))
    (mn : Option α) (kw : κ) :
    out (toA dec) (Accumulator_lowerbound s bound mn kw)
      = ((toA dec s).lowerbound (bound.map fun b => fun x n => b x n mn kw), .ok ()) := by
  unfold AWF at h
  cases hb : s.bind with
  | fn f =>
    cases bound <;>
      simp [Accumulator_lowerbound, Accumulator.lowerbound, Bind.asHalves, hb, isList, setItem, raiseWith,
        toA, toBind, out, bind, Except.bind, pure, Except.pure]
  | list l =>
    rw [hb] at h
    match l, h with
    | [u, lo], _ =>
      cases bound <;>
        simp [Accumulator_lowerbound, Accumulator.lowerbound, Bind.asHalves, hb, isList, setItem, raiseWith,
          toA, toBind, out, bind, Except.bind, pure, Except.pure]

/-- the regenerated `fullbound(bound, max, min, **kwargs)` is the model's `fullbound` applied to the closure
`lambda x, p, n: bound(x, p, n, max, min, **kwargs)` (bundled with its ghost decomposition) -/
theorem gen_fullbound (dec : Dec α) (hdec : DecUnbounded dec) (s : AccS α) (bound : Option (FullBounding α κ))
    (mx mn : Option α) (kw : κ) :
    out (toA dec) (Accumulator_fullbound s bound mx mn kw)
      = ((toA dec s).fullbound (bound.map fun b =>
            ⟨fun x p n => b x p n mx mn kw, dec (fun x p n => b x p n mx mn kw)⟩), .ok ()) := by
  unfold DecUnbounded at hdec
  cases bound <;>
    simp [Accumulator_fullbound, Accumulator.fullbound, FullBound.unbounded, toA, toBind, out, pure, Except.pure, hdec]

/-- the regenerated `clear()` (`del self.pos; del self.neg`) is the model's `clear` -/
theorem gen_clear (dec : Dec α) (s : AccS α) :
    out (toA dec) (Accumulator_clear s) = ((toA dec s).clear, .ok ()) := by
  simp [Accumulator_clear, Accumulator_pos_deleter, Accumulator_neg_deleter, Accumulator.clear,
    Accumulator.delPos, Accumulator.delNeg, toA, out, nnParameterList, cacheClear, bind, Except.bind, pure, Except.pure]


/-- what the `pos` getter does, in existential form (for the proofs about `update`) -/
theorem pos_spec (dec : Dec α) (s : AccS α) : ∃ s' v, Accumulator_pos s = .ok (s', v) ∧
    toA dec s' = (toA dec s).getPos.1 ∧ v = (toA dec s).getPos.2 ∧ s'.bind = s.bind := by
  unfold Accumulator_pos cached Accumulator.getPos
  rw [gen_calc_pos]
  cases h : s._pos_cache with
  | some v => exact ⟨s, v, by simp [h, bind, Except.bind, pure, Except.pure], by simp [toA, h], by simp [toA, h], rfl⟩
  | none =>
    exact ⟨{ s with _pos_cache := some (calcParts s.reduce s._pos) }, calcParts s.reduce s._pos,
      by simp [h, bind, Except.bind, pure, Except.pure], by simp [toA, h], by simp [toA, h], rfl⟩

/-- what the `neg` getter does, in existential form -/
theorem neg_spec (dec : Dec α) (s : AccS α) : ∃ s' v, Accumulator_neg s = .ok (s', v) ∧
    toA dec s' = (toA dec s).getNeg.1 ∧ v = (toA dec s).getNeg.2 ∧ s'.bind = s.bind := by
  unfold Accumulator_neg cached Accumulator.getNeg
  rw [gen_calc_neg]
  cases h : s._neg_cache with
  | some v => exact ⟨s, v, by simp [h, bind, Except.bind, pure, Except.pure], by simp [toA, h], by simp [toA, h], rfl⟩
  | none =>
    exact ⟨{ s with _neg_cache := some (calcParts s.reduce s._neg) }, calcParts s.reduce s._neg,
      by simp [h, bind, Except.bind, pure, Except.pure], by simp [toA, h], by simp [toA, h], rfl⟩

/-- the abstraction's `bind` field -/
theorem toA_bind (dec : Dec α) (s : AccS α) : (toA dec s).bind = toBind dec s.bind := rfl

/-- the regenerated `update(param)` — both getters, the four-way `None` cascade, the `isinstance(self.bind, list)`
test, indices, argument order, `zeros_like`, unary minus — is the model's `update`, INCLUDING the state left behind when
the full bounding function raises (the caches are filled) -/
theorem gen_update (dec : Dec α) (s : AccS α) (h : AWF s) (x : α) :
    out (toA dec) (Accumulator_update s x) = (toA dec s).update x := by
  obtain ⟨s1, p, h1, ha1, hp, hb1⟩ := pos_spec dec s
  obtain ⟨s2, n, h2, ha2, hn, hb2⟩ := neg_spec dec s1
  unfold Accumulator_update Accumulator.update
  simp only [h1, h2, bind, Except.bind, pure, Except.pure]
  rw [← hp, ← ha1, ← hn, ← ha2]
  unfold AWF at h
  rw [← hb1, ← hb2] at h
  rw [toA_bind]
  cases hb : s2.bind with
  | fn f =>
    cases p with
    | none =>
      cases n with
      | none => simp [hb, out, isList, callFull, raiseWith, toBind, zerosLike, bind, Except.bind, pure, Except.pure]
      | some nv =>
        cases hf : f x 0 nv <;>
          simp [hb, hf, out, isList, callFull, raiseWith, toBind, zerosLike, Except.map, bind, Except.bind, pure, Except.pure]
    | some pv =>
      cases n with
      | none =>
        cases hf : f x pv 0 <;>
          simp [hb, hf, out, isList, callFull, raiseWith, toBind, zerosLike, Except.map, bind, Except.bind, pure, Except.pure]
      | some nv =>
        cases hf : f x pv nv <;>
          simp [hb, hf, out, isList, callFull, raiseWith, toBind, zerosLike, Except.map, bind, Except.bind, pure, Except.pure]
  | list l =>
    rw [hb] at h
    match l, h with
    | [u, lo], _ =>
      cases p <;> cases n <;>
        simp [hb, out, isList, getItem, raiseWith, toBind, bind, Except.bind, pure, Except.pure]


/-- the state a program ends in (returned or raised) -/
def stOf {σ ρ : Type} : Except (Err × σ) (σ × ρ) → σ
  | .ok (s, _) => s
  | .error (_, s) => s

/-- the state component of `out` -/
theorem out_fst {σ σ' ρ : Type} (f : σ → σ') (r : Except (Err × σ) (σ × ρ)) : (out f r).1 = f (stOf r) := by
  rcases r with ⟨e, s⟩ | ⟨s, v⟩ <;> rfl

/-- `update` leaves `self.bind` alone -/
theorem update_bind (s : AccS α) (h : AWF s) (x : α) : (stOf (Accumulator_update s x)).bind = s.bind := by
  obtain ⟨s1, p, h1, -, -, hb1⟩ := pos_spec (fun _ => none) s
  obtain ⟨s2, n, h2, -, -, hb2⟩ := neg_spec (fun _ => none) s1
  unfold Accumulator_update
  simp only [h1, h2, bind, Except.bind, pure, Except.pure]
  unfold AWF at h
  rw [← hb1, ← hb2] at h ⊢
  cases hb : s2.bind with
  | fn f =>
    cases p with
    | none =>
      cases n with
      | none => simp [hb, stOf]
      | some nv => cases hf : f x 0 nv <;> simp [hb, hf, stOf, isList, callFull, raiseWith, zerosLike]
    | some pv =>
      cases n with
      | none => cases hf : f x pv 0 <;> simp [hb, hf, stOf, isList, callFull, raiseWith, zerosLike]
      | some nv => cases hf : f x pv nv <;> simp [hb, hf, stOf, isList, callFull, raiseWith, zerosLike]
  | list l =>
    rw [hb] at h
    match l, h with
    | [u, lo], _ => cases p <;> cases n <;> simp [hb, stOf, isList, getItem, raiseWith]

/-- the regenerated `forward(param)` (`param + update` or `param`) is the model's `forward` -/
theorem gen_forward (dec : Dec α) (s : AccS α) (h : AWF s) (x : α) :
    out (toA dec) (Accumulator_forward s x) = (toA dec s).forward x := by
  have hu := gen_update dec s h x
  unfold Accumulator_forward Accumulator.forward
  rw [← hu]
  rcases Accumulator_update s x with ⟨e, s'⟩ | ⟨s', v⟩
  · simp [out, bind, Except.bind]
  · cases v <;> simp [out, bind, Except.bind, pure, Except.pure]

/-- `forward` leaves `self.bind` alone -/
theorem forward_bind (s : AccS α) (h : AWF s) (x : α) : (stOf (Accumulator_forward s x)).bind = s.bind := by
  have hu := update_bind s h x
  unfold Accumulator_forward
  generalize Accumulator_update s x = r at hu ⊢
  rcases r with ⟨e, s'⟩ | ⟨s', v⟩
  · simpa [stOf, bind, Except.bind] using hu
  · cases v <;> simpa [stOf, bind, Except.bind, pure, Except.pure] using hu


/-! ## Updater -/

section AList
variable {β γ : Type}

/-- lookup commutes with mapping the values -/
theorem alookup_map' (l : List (String × β)) (f : β → γ) (k : String) :
    alookup (l.map fun kv => (kv.1, f kv.2)) k = (alookup l k).map f := by
  induction l with
  | nil => rfl
  | cons hd t ih =>
    obtain ⟨k', v⟩ := hd
    simp only [List.map_cons, alookup]
    split <;> simp [ih]

/-- replacing a value commutes with mapping the values -/
theorem aset_map' (l : List (String × β)) (f : β → γ) (k : String) (v : β) :
    aset (l.map fun kv => (kv.1, f kv.2)) k (f v) = (aset l k v).map fun kv => (kv.1, f kv.2) := by
  unfold aset
  induction l with
  | nil => rfl
  | cons hd t ih =>
    obtain ⟨k', v'⟩ := hd
    simp only [List.map_cons, amodify]
    split <;> simp [ih]

/-- a successful lookup yields a member -/
theorem alookup_mem' {l : List (String × β)} {k : String} {v : β} (h : alookup l k = some v) : (k, v) ∈ l := by
  induction l with
  | nil => simp [alookup] at h
  | cons hd t ih =>
    obtain ⟨k', v'⟩ := hd
    simp only [alookup] at h
    split at h
    · next hk => simp at h; subst hk; subst h; simp
    · exact List.mem_cons_of_mem _ (ih h)

/-- replacing a value preserves a property of all values -/
theorem aset_forall' (P : β → Prop) (l : List (String × β)) (k : String) (v : β)
    (hl : ∀ kv ∈ l, P kv.2) (hv : P v) : ∀ kv ∈ aset l k v, P kv.2 := by
  unfold aset
  induction l with
  | nil => simp [amodify]
  | cons hd t ih =>
    obtain ⟨k', v'⟩ := hd
    simp only [amodify]
    split
    · intro kv hkv
      rcases List.mem_cons.mp hkv with rfl | hm
      · exact hv
      · exact hl kv (List.mem_cons_of_mem _ hm)
    · intro kv hkv
      rcases List.mem_cons.mp hkv with rfl | hm
      · exact hl _ (List.mem_cons_self)
      · exact ih (fun kv h => hl kv (List.mem_cons_of_mem _ h)) kv hm

/-- `d[k] = v` on a present key replaces in place (the model's `aset`) -/
theorem dictSetItem_present (l : List (String × β)) (k : String) (v w : β) (h : alookup l k = some w) :
    dictSetItem l k v = aset l k v := by
  simp [dictSetItem, h]

end AList

/-- abstraction: the `nn.ModuleDict` of an updater state → the model's `Updater` -/
def toU (dec : Dec α) (s : UpdS α) : Updater α := ⟨s.updates_.map fun kv => (kv.1, toA dec kv.2)⟩

/-- every accumulator of the updater is well formed -/
def UWF (s : UpdS α) : Prop := ∀ kv ∈ s.updates_, AWF kv.2

/-- a loop over the values whose body never raises is a map -/
theorem forValuesAux_ok {τ : Type} (body : τ → Except (Err × τ) τ) (f : τ → τ) (hb : ∀ v, body v = .ok (f v))
    (l : List (String × τ)) : forValuesAux body l = .ok (l.map fun kv => (kv.1, f kv.2)) := by
  induction l with
  | nil => rfl
  | cons hd t ih =>
    obtain ⟨k, v⟩ := hd
    simp [forValuesAux, hb, ih]

/-- the state `Accumulator.clear` leaves -/
def clrS (s : AccS α) : AccS α := { s with _pos := [], _neg := [], _pos_cache := none, _neg_cache := none }

/-- the regenerated `Accumulator.clear` never raises -/
theorem clear_ok (s : AccS α) : Accumulator_clear s = .ok (clrS s, ()) := by
  simp [Accumulator_clear, Accumulator_pos_deleter, Accumulator_neg_deleter, clrS, nnParameterList, cacheClear,
    bind, Except.bind, pure, Except.pure]

/-- abstraction of the cleared state -/
theorem clrS_toA (dec : Dec α) (s : AccS α) : toA dec (clrS s) = (toA dec s).clear := by
  simp [clrS, toA, Accumulator.clear, Accumulator.delPos, Accumulator.delNeg]

/-- the regenerated `Updater.clear()` (loop over `self.updates_.values()`) is the model's `Updater.clear`; the parent
module is untouched -/
theorem gen_updater_clear (dec : Dec α) (s : UpdS α) :
    out (fun s' => (toU dec s', s'._parent_module)) (Updater_clear s)
      = (((toU dec s).clear, s._parent_module), .ok ()) := by
  unfold Updater_clear forValues
  rw [forValuesAux_ok _ clrS (by intro v; simp [clear_ok, bind, Except.bind, pure, Except.pure])]
  simp [out, toU, Updater.clear, clrS_toA, bind, Except.bind, pure, Except.pure, Function.comp_def]

section DC
variable {υ : Type}

/-- key test on a dictionary whose values are all `c` -/
theorem alookup_const_isSome (c : υ) (l : List String) (a : String) :
    (alookup (l.map fun p => (p, c)) a).isSome = l.any (fun y => a == y) := by
  induction l with
  | nil => rfl
  | cons hd t ih =>
    simp only [List.map_cons, alookup, List.any_cons]
    by_cases h : hd = a
    · subst h; simp
    · have : (a == hd) = false := by simp; exact fun e => h e.symm
      simp [h, this, ih]

/-- overwriting with the same value changes nothing -/
theorem aset_const (c : υ) (l : List String) (a : String) :
    aset (l.map fun p => (p, c)) a c = l.map fun p => (p, c) := by
  unfold aset
  induction l with
  | nil => rfl
  | cons hd t ih =>
    simp only [List.map_cons, amodify]
    split <;> simp [ih]

/-- loop invariant: the dict comprehension follows `List.eraseDupsBy.loop` -/
theorem dictComp_loop (c : υ) (ps : List String) : ∀ bs : List String,
    ps.foldl (fun d k => dictSetItem d k c) (bs.reverse.map fun p => (p, c))
      = (List.eraseDupsBy.loop (· == ·) ps bs).map fun p => (p, c) := by
  induction ps with
  | nil => intro bs; rfl
  | cons a as ih =>
    intro bs
    simp only [List.foldl_cons, List.eraseDupsBy.loop]
    have hk := alookup_const_isSome c bs.reverse a
    rw [List.any_reverse] at hk
    cases hany : bs.any (fun y => a == y) with
    | true =>
      rw [hany] at hk
      have step : dictSetItem (bs.reverse.map fun p => (p, c)) a c = bs.reverse.map fun p => (p, c) := by
        simp only [dictSetItem, hk, ↓reduceIte, aset_const]
      rw [step]
      exact ih bs
    | false =>
      rw [hany] at hk
      have step : dictSetItem (bs.reverse.map fun p => (p, c)) a c = (a :: bs).reverse.map fun p => (p, c) := by
        simp only [dictSetItem, hk, Bool.false_eq_true, ↓reduceIte]
        simp
      rw [step]
      exact ih (a :: bs)

/-- `{p: c for p in ps}` has the keys `ps.eraseDups`, in that order -/
theorem dictComp_const (c : υ) (ps : List String) :
    dictComp ps (fun p => (p, c)) = ps.eraseDups.map fun p => (p, c) := by
  have := dictComp_loop c ps []
  simpa [dictComp, List.eraseDups, List.eraseDupsBy] using this

end DC

/-- the state `Accumulator.reduction(r)` leaves -/
def redS (r : Reduce α) (s : AccS α) : AccS α := { s with reduce := r, _pos_cache := none, _neg_cache := none }

/-- the regenerated `Accumulator.reduction` never raises -/
theorem reduction_ok (r : Reduce α) (s : AccS α) : Accumulator_reduction s (some r) = .ok (redS r s, ()) := by
  simp [Accumulator_reduction, redS, cacheClear, bind, Except.bind, pure, Except.pure]

/-- abstraction of that state -/
theorem redS_toA (dec : Dec α) (r : Reduce α) (s : AccS α) : toA dec (redS r s) = (toA dec s).reduction (some r) := by
  simp [redS, toA, Accumulator.reduction]

/-- the regenerated `Updater.__init__` — `argtest.members`, `weakref.ref(module)`, the dict comprehension of fresh
accumulators, the `if reduction:` loop — raises `RuntimeError` exactly when a name is not an attribute of the module
(the test of `Updater.step .newUpdater`) and otherwise builds the model's `Updater.new params reduction`, referring to
`module` -/
theorem gen_updater_new (dec : Dec α) (hdec : DecUnbounded dec) (module : List (String × α)) (params : List String)
    (r : Option (Reduce α)) :
    (Updater___init__ module params r).map (fun s => (toU dec s, s._parent_module))
      = if params.all (fun p => (alookup module p).isSome) then .ok (Updater.new params r, some module)
        else .error .RuntimeError := by
  unfold Updater___init__ argtestMembers
  by_cases hm : params.all (fun p => (alookup module p).isSome) = true
  · rw [if_pos hm, if_pos hm]
    cases r with
    | none =>
      simp [Except.map, bind, Except.bind, pure, Except.pure, toU, Updater.new, nnModuleDict, weakrefRef,
        dictComp_const, gen_new dec hdec, Function.comp_def]
    | some r =>
      simp only [bind, Except.bind, pure, Except.pure, forValues]
      rw [forValuesAux_ok _ (redS r) (by intro v; simp [reduction_ok, bind, Except.bind, pure, Except.pure])]
      simp [Except.map, dropState, toU, Updater.new, nnModuleDict, weakrefRef,
        dictComp_const, gen_new dec hdec, redS_toA, Function.comp_def]
  · rw [if_neg hm, if_neg hm]
    rfl


/-- result of a loop over an updater: (model updater, the parent's attribute table, exception) -/
def outU (dec : Dec α) : Except (Err × UpdS α) (UpdS α) → Updater α × Option (List (String × α)) × Option Err
  | .ok s => (toU dec s, s._parent_module, none)
  | .error (e, s) => (toU dec s, s._parent_module, some e)

/-- the body of the loop of `Updater.forward` as generated -/
def fwdBody (self : UpdS α) (p : String) : Except (Err × UpdS α) (UpdS α) := do
  let t1_ ← raiseWith self (dictGetItem self.updates_ p)
  let t2_ ← raiseWith self (refGetattr self._parent_module p)
  let r3_ ← subCall self (fun s_ v_ => { s_ with updates_ := dictSetItem s_.updates_ p v_ }) (Accumulator_forward t1_ t2_)
  let self := r3_.1
  let self := { self with _parent_module := (refSetattr self._parent_module p r3_.2) }
  pure self

/-- the state a loop ends in (completed or raised) -/
def stE {σ : Type} : Except (Err × σ) σ → σ
  | .ok s => s
  | .error (_, s) => s

/-- the regenerated loop of `Updater.forward` is the model's `forwardLoop` — same final accumulators, same final
parameters, same exception, the parameters assigned before an exception stay assigned — and keeps the updater well formed -/
theorem fwd_loop (dec : Dec α) (ps : List String) : ∀ (s : UpdS α) (m : List (String × α)), UWF s →
    s._parent_module = some m →
    outU dec (forEach ps s fwdBody)
      = (((toU dec s).forwardLoop m ps).1, some ((toU dec s).forwardLoop m ps).2.1, ((toU dec s).forwardLoop m ps).2.2)
    ∧ UWF (stE (forEach ps s fwdBody)) := by
  induction ps with
  | nil => intro s m hwf hm; exact ⟨by simp [forEach, outU, Updater.forwardLoop, hm], by simpa [forEach, stE] using hwf⟩
  | cons p ps ih =>
    intro s m hwf hm
    unfold forEach Updater.forwardLoop
    have hlk : alookup (toU dec s).accs p = (alookup s.updates_ p).map (toA dec) := alookup_map' _ _ _
    rw [hlk]
    cases hacc : alookup s.updates_ p with
    | none =>
      exact ⟨by simp [fwdBody, dictGetItem, hacc, raiseWith, outU, hm, bind, Except.bind],
             by simpa [fwdBody, dictGetItem, hacc, raiseWith, stE, bind, Except.bind] using hwf⟩
    | some acc =>
      cases hx : alookup m p with
      | none =>
        exact ⟨by simp [fwdBody, dictGetItem, refGetattr, hacc, hx, hm, raiseWith, outU, bind, Except.bind],
               by simpa [fwdBody, dictGetItem, refGetattr, hacc, hx, hm, raiseWith, stE, bind, Except.bind] using hwf⟩
      | some x =>
        have hawf : AWF acc := hwf _ (alookup_mem' hacc)
        have hf := gen_forward dec acc hawf x
        have hbd := forward_bind acc hawf x
        simp only [Option.map_some, fwdBody, dictGetItem, refGetattr, hacc, hx, hm, raiseWith, bind, Except.bind]
        generalize Accumulator_forward acc x = res at hf hbd
        rcases res with ⟨e, acc'⟩ | ⟨acc', x'⟩
        · simp only [out] at hf
          simp only [stOf] at hbd
          refine ⟨by simp only [subCall, outU, ← hf, hm, toU, dictSetItem_present _ _ _ _ hacc, aset_map'], ?_⟩
          simp only [subCall, stE, dictSetItem_present _ _ _ _ hacc]
          apply aset_forall' AWF _ _ _ hwf
          unfold AWF at hawf ⊢
          rw [hbd]; exact hawf
        · simp only [out] at hf
          simp only [stOf] at hbd
          simp only [subCall, pure, Except.pure, ← hf, dictSetItem_present _ _ _ _ hacc]
          have hwf' : UWF { updates_ := aset s.updates_ p acc',
                            _parent_module := refSetattr s._parent_module p x' } := by
            apply aset_forall' AWF _ _ _ hwf
            unfold AWF at hawf ⊢
            rw [hbd]; exact hawf
          have hm' : ({ updates_ := aset s.updates_ p acc',
                        _parent_module := refSetattr s._parent_module p x' } : UpdS α)._parent_module
                      = some (aset m p x') := by
            simp [refSetattr, hm, dictSetItem_present _ _ _ _ hx]
          have := ih _ _ hwf' hm'
          simp only [toU, aset_map'] at this ⊢
          exact this

/-- result of an updater method: (model updater, the parent's attribute table, exception) -/
def resU (dec : Dec α) : Except (Err × UpdS α) (UpdS α × Unit) → Updater α × Option (List (String × α)) × Option Err
  | .ok (s, _) => (toU dec s, s._parent_module, none)
  | .error (e, s) => (toU dec s, s._parent_module, some e)

/-- `Updater.forward` is its dead-reference test followed by the loop `forEach … fwdBody` (this is where a change of
the generated loop body is detected: `fwdBody` is a copy of it) -/
theorem forward_unfold (s : UpdS α) (ps : List String) : Updater_forward s ps =
    (match s._parent_module with
     | some _ =>
       (match forEach (if (!(!ps.isEmpty)) then dictKeys s.updates_ else ps) s fwdBody with
        | .ok v => .ok (v, ())
        | .error e => .error e)
     | none => .error (.RuntimeError, s)) := by
  unfold Updater_forward fwdBody
  cases h : s._parent_module with
  | none => rfl
  | some m =>
    simp only [bind, Except.bind, pure, Except.pure]
    split <;> (rename_i heq; rw [heq])

/-- the regenerated `Updater.forward(*params)` on a live parent module `m` is the model's `Updater.forward`:
final accumulators, final parameters of the parent, exception -/
theorem gen_updater_forward (dec : Dec α) (s : UpdS α) (m : List (String × α)) (hwf : UWF s)
    (hm : s._parent_module = some m) (ps : List String) :
    resU dec (Updater_forward s ps)
      = (((toU dec s).forward m ps).1, some ((toU dec s).forward m ps).2.1, ((toU dec s).forward m ps).2.2) := by
  have hk : dictKeys s.updates_ = (toU dec s).accs.map (·.1) := by
    simp [dictKeys, toU, Function.comp_def]
  have hl := (fwd_loop dec (if ps.isEmpty then (toU dec s).accs.map (·.1) else ps) s m hwf hm).1
  unfold Updater.forward
  rw [← hl, forward_unfold]
  simp only [hm, hk, Bool.not_not]
  cases forEach (if ps.isEmpty = true then (toU dec s).accs.map (·.1) else ps) s fwdBody with
  | ok v => rfl
  | error e => rfl

/-- with a dead weak reference `Updater.forward` raises `RuntimeError` and changes nothing (outside the model, where the
updater lives inside its module) -/
theorem gen_updater_forward_dead (s : UpdS α) (ps : List String) (h : s._parent_module = none) :
    Updater_forward s ps = .error (.RuntimeError, s) := by
  unfold Updater_forward
  simp [h, throw, throwThe, MonadExceptOf.throw, bind, Except.bind]


/-- `Updater.forward` keeps the updater well formed (also when it raises) -/
theorem forward_wf (s : UpdS α) (m : List (String × α)) (hwf : UWF s) (hm : s._parent_module = some m)
    (ps : List String) : UWF (stOf (Updater_forward s ps)) := by
  have hl := (fwd_loop (fun _ => none) (if (!(!ps.isEmpty)) then dictKeys s.updates_ else ps) s m hwf hm).2
  rw [forward_unfold]
  simp only [hm]
  generalize forEach (if (!(!ps.isEmpty)) then dictKeys s.updates_ else ps) s fwdBody = r at hl
  rcases r with ⟨e, s'⟩ | s' <;> exact hl


/-! ## Updatable -/

/-- abstraction of the accumulators of a module's updater -/
def toAccs (dec : Dec α) (u : List (String × AccS α)) : Updater α := ⟨u.map fun kv => (kv.1, toA dec kv.2)⟩

/-- abstraction: an `Updatable` module state → the model's `Module` -/
def toMod (dec : Dec α) (s : ModS α) : Module α := ⟨s.attrs, s.updater_.map (toAccs dec)⟩

/-- the accumulators of the module's updater are well formed -/
def MWF (s : ModS α) : Prop := ∀ u, s.updater_ = some u → ∀ kv ∈ u, AWF kv.2

/-- what a method without return value prints in the model -/
def toOut : Except Err Unit → Out α
  | .ok _ => .unit
  | .error e => .err e

/-- result of an `Updatable` method → (state, output) of the model -/
def outM (dec : Dec α) (r : Except (Err × ModS α) (ModS α × Unit)) : Module α × Out α :=
  ((out (toMod dec) r).1, toOut (out (toMod dec) r).2)

/-- `Except.bind` on `ok` -/
theorem bind_ok' {ε β γ : Type} (a : β) (f : β → Except ε γ) : Except.bind (.ok a) f = f a := rfl
/-- `Except.bind` on `error` -/
theorem bind_error' {ε β γ : Type} (e : ε) (f : β → Except ε γ) : Except.bind (.error e) f = .error e := rfl

/-- `let r ← X; pure (r.1, ())` is `X` -/
theorem bind_pure_unit {ε σ : Type} (X : Except ε (σ × Unit)) :
    Except.bind X (fun r => Except.ok (r.1, ())) = X := by
  rcases X with e | ⟨s, u⟩ <;> rfl

/-- the regenerated `Updater.clear` never raises -/
theorem updater_clear_ok (v : UpdS α) :
    Updater_clear v = .ok ({ v with updates_ := v.updates_.map fun kv => (kv.1, clrS kv.2) }, ()) := by
  unfold Updater_clear forValues
  rw [forValuesAux_ok _ clrS (by intro v; simp [clear_ok, bind, Except.bind, pure, Except.pure])]
  rfl

/-- `self.updater.clear()` through the view -/
theorem updaterCall_clear (s : ModS α) (u : List (String × AccS α)) (e : Err) :
    updaterCall s (some u) e (fun self => Updater_clear self)
      = .ok ({ attrs := s.attrs, updater_ := some (u.map fun kv => (kv.1, clrS kv.2)) }, ()) := by
  simp [updaterCall, updater_clear_ok]

/-- abstraction of the cleared accumulators -/
theorem toAccs_clear (dec : Dec α) (u : List (String × AccS α)) :
    toAccs dec (u.map fun kv => (kv.1, clrS kv.2)) = (toAccs dec u).clear := by
  simp [toAccs, Updater.clear, clrS_toA, Function.comp_def]

/-- clearing keeps the accumulators well formed -/
theorem clrS_wf (u : List (String × AccS α)) (h : ∀ kv ∈ u, AWF kv.2) :
    ∀ kv ∈ (u.map fun kv => (kv.1, clrS kv.2)), AWF kv.2 := by
  intro kv hkv
  obtain ⟨kv', hm, rfl⟩ := List.mem_map.mp hkv
  exact h kv' hm

/-- `self.updater(*ps)` through the view: the model's `Updater.forward` on the module's own attributes -/
theorem updaterCall_forward (dec : Dec α) (s : ModS α) (u : List (String × AccS α)) (hwf : ∀ kv ∈ u, AWF kv.2)
    (e : Err) (ps : List String) :
    (match updaterCall s (some u) e (fun self => Updater_forward self ps) with
     | .ok (s', _) => toMod dec s' = ⟨((toAccs dec u).forward s.attrs ps).2.1, some ((toAccs dec u).forward s.attrs ps).1⟩
         ∧ ((toAccs dec u).forward s.attrs ps).2.2 = none ∧ MWF s' ∧ s'.updater_.isSome
     | .error (e', s') => toMod dec s' = ⟨((toAccs dec u).forward s.attrs ps).2.1, some ((toAccs dec u).forward s.attrs ps).1⟩
         ∧ ((toAccs dec u).forward s.attrs ps).2.2 = some e' ∧ MWF s') := by
  have hv : UWF (⟨u, some s.attrs⟩ : UpdS α) := hwf
  have hf := gen_updater_forward dec ⟨u, some s.attrs⟩ s.attrs hv rfl ps
  have hw := forward_wf ⟨u, some s.attrs⟩ s.attrs hv rfl ps
  have htu : toU dec (⟨u, some s.attrs⟩ : UpdS α) = toAccs dec u := rfl
  rw [htu] at hf
  unfold updaterCall
  simp only []
  generalize Updater_forward (⟨u, some s.attrs⟩ : UpdS α) ps = r at hf hw
  rcases r with ⟨e', s'⟩ | ⟨s', _⟩
  · simp only [resU] at hf
    have h1 := congrArg (·.1) hf
    have h2 := congrArg (·.2.1) hf
    have h3 := congrArg (·.2.2) hf
    simp only at h1 h2 h3
    refine ⟨?_, h3.symm, ?_⟩
    · simp only [toMod, h2, Option.map_some]
      rw [show toAccs dec s'.updates_ = toU dec s' from rfl, h1]
    · intro u' hu' kv hkv
      simp at hu'
      subst hu'
      exact hw kv hkv
  · simp only [resU] at hf
    have h1 := congrArg (·.1) hf
    have h2 := congrArg (·.2.1) hf
    have h3 := congrArg (·.2.2) hf
    simp only at h1 h2 h3
    refine ⟨?_, h3.symm, ?_, rfl⟩
    · simp only [toMod, h2, Option.map_some]
      rw [show toAccs dec s'.updates_ = toU dec s' from rfl, h1]
    · intro u' hu' kv hkv
      simp at hu'
      subst hu'
      exact hw kv hkv

/-- the regenerated `updater` property getter returns `self.updater_` -/
theorem getter_ok (s : ModS α) : Updatable_updater s = .ok (s, s.updater_) := rfl

/-- the regenerated `updatable` property is `self.updater is not None` -/
theorem updatable_ok (s : ModS α) : Updatable_updatable s = .ok (s, s.updater_.isSome) := rfl

/-- the regenerated `Updatable.clear()` is the model's `step · .clear` -/
theorem gen_mod_clear (dec : Dec α) (s : ModS α) :
    outM dec (Updatable_clear s) = step (toMod dec s) .clear := by
  unfold Updatable_clear
  simp only [updatable_ok, getter_ok, bind, pure, Except.pure, bind_ok']
  cases hu : s.updater_ with
  | none => simp [outM, out, toOut, step, toMod, hu]
  | some u =>
    simp only [Option.isSome_some, ↓reduceIte, bind_pure_unit, updaterCall_clear, bind_ok']
    simp [outM, out, toOut, step, toMod, hu, toAccs_clear]

/-- the regenerated `Updatable.update(clear)` — `if self.updatable`, `self.updater()`, `if clear: self.updater.clear()` —
is the model's `Module.update clear` (an exception of the updater leaves the accumulators uncleared) -/
theorem gen_mod_update (dec : Dec α) (s : ModS α) (hwf : MWF s) (c : Bool) :
    outM dec (Updatable_update s c) = (toMod dec s).update c := by
  unfold Updatable_update Module.update
  simp only [updatable_ok, getter_ok, bind, pure, Except.pure, bind_ok']
  cases hu : s.updater_ with
  | none => simp [outM, out, toOut, toMod, hu]
  | some u =>
    have hf := updaterCall_forward dec s u (hwf u hu) .TypeError []
    simp only [Option.isSome_some, ↓reduceIte, bind_pure_unit]
    generalize updaterCall s (some u) Err.TypeError (fun self => Updater_forward self []) = r at hf
    rcases r with ⟨e', s'⟩ | ⟨s', _⟩
    · obtain ⟨h1, h2, -⟩ := hf
      simp only [bind_error', outM, out, toOut, toMod, hu, Option.map_some, h2]
      rw [← h1]; rfl
    · obtain ⟨h1, h2, h3, h4⟩ := hf
      cases hu' : s'.updater_ with
      | none => simp [hu'] at h4
      | some u' =>
        simp only [toMod, hu', Option.map_some, Module.mk.injEq, Option.some.injEq] at h1
        cases c with
        | false =>
          simp only [bind_ok', Bool.false_eq_true, ↓reduceIte, outM, out, toOut, toMod, hu, hu', Option.map_some, h2, h1]
        | true =>
          simp only [bind_ok', ↓reduceIte, hu', updaterCall_clear, outM, out, toOut, toMod, hu, Option.map_some, h2,
            toAccs_clear, h1]


/-- the body of the loop of `Updatable.updatesome` as generated -/
def someBody (clear : Bool) (self : ModS α) (p : String) : Except (Err × ModS α) (ModS α) := do
  let r1_ ← Updatable_updater self
  let self := r1_.1
  let r3_ ← updaterCall self r1_.2 Err.TypeError (fun self => do
      let r2_ ← Updater_forward self [p]
      let self := r2_.1
      pure (self, ()))
  let self := r3_.1
  if clear then
    let r4_ ← Updatable_updater self
    let self := r4_.1
    let r7_ ← updaterCall self r4_.2 Err.AttributeError (fun self => do
        let t5_ ← raiseWith self (dynGetattr self.updates_ p)
        let r6_ ← subCall self (fun s_ v_ => { s_ with updates_ := dictSetItem s_.updates_ p v_ }) (Accumulator_clear t5_)
        let self := r6_.1
        pure (self, ()))
    let self := r7_.1
    pure self
  else
    pure self

/-- `Updatable.updatesome` is the loop `forEach … (someBody clear)` (`someBody` is a copy of the generated loop body) -/
theorem updatesome_unfold (s : ModS α) (ps : List String) (c : Bool) : Updatable_updatesome s ps c =
    (match forEach ps s (someBody c) with
     | .ok v => .ok (v, ())
     | .error e => .error e) := by
  unfold Updatable_updatesome someBody
  simp only [bind, Except.bind, pure, Except.pure]
  split <;> (rename_i heq; rw [heq])

/-- `getattr(self.updater, p).clear()` through the view, when `p` names an accumulator -/
theorem updaterCall_clearOne (s : ModS α) (u : List (String × AccS α)) (p : String) (acc : AccS α)
    (h : alookup u p = some acc) (e : Err) :
    updaterCall s (some u) e (fun self => do
        let t5_ ← raiseWith self (dynGetattr self.updates_ p)
        let r6_ ← subCall self (fun s_ v_ => { s_ with updates_ := dictSetItem s_.updates_ p v_ }) (Accumulator_clear t5_)
        let self := r6_.1
        pure (self, ()))
      = .ok ({ attrs := s.attrs, updater_ := some (aset u p (clrS acc)) }, ()) := by
  simp [updaterCall, dynGetattr, h, raiseWith, clear_ok, subCall, dictSetItem_present _ _ _ _ h,
    bind, Except.bind, pure, Except.pure]

section AList2
variable {β : Type}

/-- lookup after replacing -/
theorem alookup_aset_self (l : List (String × β)) (k : String) (v w : β) (h : alookup l k = some w) :
    alookup (aset l k v) k = some v := by
  unfold aset
  induction l with
  | nil => simp [alookup] at h
  | cons hd t ih =>
    obtain ⟨k', v'⟩ := hd
    simp only [alookup] at h
    simp only [amodify]
    split
    · next hk => simp [alookup, hk]
    · next hk => simp only [alookup, hk, ↓reduceIte] at h ⊢; exact ih h

/-- replacing by a function of the present value is `amodify` -/
theorem aset_eq_amodify (l : List (String × β)) (k : String) (f : β → β) (a : β) (h : alookup l k = some a) :
    aset l k (f a) = amodify l k f := by
  unfold aset
  induction l with
  | nil => rfl
  | cons hd t ih =>
    obtain ⟨k', v'⟩ := hd
    simp only [alookup] at h
    simp only [amodify]
    split
    · next hk => simp only [hk, ↓reduceIte, Option.some.injEq] at h; rw [h]
    · next hk => simp only [hk, ↓reduceIte] at h; rw [ih h]

end AList2

/-- after `updater(p)` returned normally, `p` names an accumulator -/
theorem forward_single_present (u : Updater α) (m : List (String × α)) (p : String)
    (h : (u.forward m [p]).2.2 = none) : (alookup (u.forward m [p]).1.accs p).isSome := by
  unfold Updater.forward at h ⊢
  simp only [List.isEmpty_cons, Bool.false_eq_true, ↓reduceIte] at h ⊢
  unfold Updater.forwardLoop at h ⊢
  cases ha : alookup u.accs p with
  | none => simp [ha] at h
  | some acc =>
    simp only [ha] at h ⊢
    cases hx : alookup m p with
    | none => simp [hx] at h
    | some x =>
      simp only [hx] at h ⊢
      cases hr : (acc.forward x).2 with
      | error e => simp [hr] at h
      | ok x' => simp [hr, Updater.forwardLoop, alookup_aset_self _ _ _ _ ha]

/-- the loop body of `updatesome`, with the property getters evaluated -/
theorem someBody_eq (c : Bool) (s : ModS α) (p : String) : someBody c s p =
    Except.bind (updaterCall s s.updater_ .TypeError (fun self => Updater_forward self [p])) (fun r3_ =>
      if c then
        Except.bind (updaterCall r3_.1 r3_.1.updater_ .AttributeError (fun self => do
          let t5_ ← raiseWith self (dynGetattr self.updates_ p)
          let r6_ ← subCall self (fun s_ v_ => { s_ with updates_ := dictSetItem s_.updates_ p v_ }) (Accumulator_clear t5_)
          let self := r6_.1
          pure (self, ()))) (fun r7_ => .ok r7_.1)
      else .ok r3_.1) := by
  unfold someBody
  simp only [getter_ok, bind, pure, Except.pure, bind_ok', bind_pure_unit]

/-- result of a loop over a module -/
def outL (dec : Dec α) : Except (Err × ModS α) (ModS α) → Module α × Out α
  | .ok s => (toMod dec s, .unit)
  | .error (e, s) => (toMod dec s, .err e)

/-- the regenerated loop of `Updatable.updatesome` is the model's `Module.updatesome`, and keeps the module well formed -/
theorem some_loop (dec : Dec α) (c : Bool) (ps : List String) : ∀ s : ModS α, MWF s →
    outL dec (forEach ps s (someBody c)) = (toMod dec s).updatesome c ps
    ∧ MWF (stE (forEach ps s (someBody c))) := by
  induction ps with
  | nil => intro s h; exact ⟨rfl, h⟩
  | cons p ps ih =>
    intro s hwf
    unfold forEach Module.updatesome
    rw [someBody_eq]
    cases hu : s.updater_ with
    | none => exact ⟨by simp [updaterCall, outL, toMod, hu, bind_error'], by simpa [updaterCall, bind_error', stE] using hwf⟩
    | some u =>
      have hf := updaterCall_forward dec s u (hwf u hu) .TypeError [p]
      generalize updaterCall s (some u) Err.TypeError (fun self => Updater_forward self [p]) = r at hf
      rcases r with ⟨e', s'⟩ | ⟨s', _⟩
      · obtain ⟨h1, h2, h3⟩ := hf
        refine ⟨?_, by simpa [bind_error', stE] using h3⟩
        simp only [bind_error', outL, toMod, hu, Option.map_some, h2]
        rw [← h1]; rfl
      · obtain ⟨h1, h2, h3, h4⟩ := hf
        cases hu' : s'.updater_ with
        | none => simp [hu'] at h4
        | some u' =>
          have h1' := h1
          simp only [toMod, hu', Option.map_some, Module.mk.injEq, Option.some.injEq] at h1'
          cases c with
          | false =>
            simp only [bind_ok', Bool.false_eq_true, ↓reduceIte, toMod, hu, Option.map_some, h2]
            have := ih s' h3
            rw [h1] at this
            exact this
          | true =>
            have hp := forward_single_present (toAccs dec u) s.attrs p h2
            rw [← h1'.2] at hp
            simp only [toAccs, alookup_map', Option.isSome_map] at hp
            cases hacc : alookup u' p with
            | none => simp [hacc] at hp
            | some acc =>
              simp only [bind_ok', ↓reduceIte, hu', updaterCall_clearOne _ _ _ _ hacc, toMod, hu, Option.map_some, h2]
              have hwf'' : MWF ({ attrs := s'.attrs, updater_ := some (aset u' p (clrS acc)) } : ModS α) := by
                intro u'' hu''
                simp at hu''
                subst hu''
                exact aset_forall' AWF _ _ _ (h3 u' hu') (h3 u' hu' _ (alookup_mem' hacc))
              have := ih _ hwf''
              refine ⟨?_, this.2⟩
              rw [this.1]
              congr 1
              simp only [toMod, Option.map_some, Module.mk.injEq, Option.some.injEq]
              refine ⟨h1'.1, ?_⟩
              rw [← h1'.2]
              simp only [toAccs, Updater.mk.injEq]
              rw [← aset_map', clrS_toA]
              exact aset_eq_amodify _ _ _ _ (by rw [alookup_map', hacc]; rfl)

/-- the regenerated `Updatable.updatesome(*params, clear)` — `self.updater(p)` then
`getattr(self.updater, p).clear()` per name, `TypeError` when there is no updater — is the model's `Module.updatesome` -/
theorem gen_mod_updatesome (dec : Dec α) (s : ModS α) (hwf : MWF s) (ps : List String) (c : Bool) :
    outM dec (Updatable_updatesome s ps c) = (toMod dec s).updatesome c ps := by
  rw [← (some_loop dec c ps s hwf).1, updatesome_unfold]
  rcases forEach ps s (someBody c) with ⟨e, s'⟩ | s' <;> rfl


/-- the regenerated `neg` setter is the model's `setNeg` -/
theorem gen_setNeg (dec : Dec α) (s : AccS α) (v : Option α) :
    out (toA dec) (Accumulator_neg_setter s v) = ((toA dec s).setNeg v, .ok ()) := by
  cases v <;> simp [Accumulator_neg_setter, Accumulator.setNeg, toA, out, plistAppend, cacheClear, pure, Except.pure]

/-- the regenerated `neg` deleter is the model's `delNeg` -/
theorem gen_delNeg (dec : Dec α) (s : AccS α) :
    out (toA dec) (Accumulator_neg_deleter s) = ((toA dec s).delNeg, .ok ()) := by
  simp [Accumulator_neg_deleter, Accumulator.delNeg, toA, out, nnParameterList, cacheClear, pure, Except.pure]

/-! ## Well-formedness is maintained -/

/-- a fresh accumulator is well formed -/
theorem new_wf : AWF (Accumulator___init__ : AccS α) := by simp [AWF, Accumulator___init__]

/-- the `pos` getter keeps the accumulator well formed -/
theorem getPos_wf (s : AccS α) (h : AWF s) : AWF (stOf (Accumulator_pos s)) := by
  obtain ⟨s', v, h1, -, -, hb⟩ := pos_spec (fun _ => none) s
  rw [h1]; unfold AWF at h ⊢; simpa [stOf, hb] using h

/-- the `neg` getter keeps the accumulator well formed -/
theorem getNeg_wf (s : AccS α) (h : AWF s) : AWF (stOf (Accumulator_neg s)) := by
  obtain ⟨s', v, h1, -, -, hb⟩ := neg_spec (fun _ => none) s
  rw [h1]; unfold AWF at h ⊢; simpa [stOf, hb] using h

/-- the `pos` setter keeps the accumulator well formed -/
theorem setPos_wf (s : AccS α) (h : AWF s) (v : Option α) : AWF (stOf (Accumulator_pos_setter s v)) := by
  cases v <;> simpa [Accumulator_pos_setter, stOf, AWF, pure, Except.pure] using h

/-- the `neg` setter keeps the accumulator well formed -/
theorem setNeg_wf (s : AccS α) (h : AWF s) (v : Option α) : AWF (stOf (Accumulator_neg_setter s v)) := by
  cases v <;> simpa [Accumulator_neg_setter, stOf, AWF, pure, Except.pure] using h

/-- the `pos` deleter keeps the accumulator well formed -/
theorem delPos_wf (s : AccS α) (h : AWF s) : AWF (stOf (Accumulator_pos_deleter s)) := by
  simpa [Accumulator_pos_deleter, stOf, AWF, pure, Except.pure] using h

/-- the `neg` deleter keeps the accumulator well formed -/
theorem delNeg_wf (s : AccS α) (h : AWF s) : AWF (stOf (Accumulator_neg_deleter s)) := by
  simpa [Accumulator_neg_deleter, stOf, AWF, pure, Except.pure] using h

/-- `reduction` keeps the accumulator well formed -/
theorem reduction_wf (s : AccS α) (h : AWF s) (fn : Option (Reduce α)) : AWF (stOf (Accumulator_reduction s fn)) := by
  cases fn <;> simpa [Accumulator_reduction, stOf, AWF, bind, Except.bind, pure, Except.pure] using h

/-- `clear` keeps the accumulator well formed -/
theorem clear_wf (s : AccS α) (h : AWF s) : AWF (stOf (Accumulator_clear s)) := by
  rw [clear_ok]; simpa [stOf, AWF, clrS] using h

/-- `upperbound` leaves a two-element list in `self.bind` -/
theorem upperbound_wf (s : AccS α) (h : AWF s) (bound : Option (HalfBounding α κ)) (mx : Option α) (kw : κ) :
    AWF (stOf (Accumulator_upperbound s bound mx kw)) := by
  unfold AWF at h
  cases hb : s.bind with
  | fn f =>
    cases bound <;>
      simp [Accumulator_upperbound, hb, isList, setItem, raiseWith, stOf, AWF, bind, Except.bind, pure, Except.pure]
  | list l =>
    rw [hb] at h
    match l, h with
    | [u, lo], _ =>
      cases bound <;>
        simp [Accumulator_upperbound, hb, isList, setItem, raiseWith, stOf, AWF, bind, Except.bind, pure, Except.pure]

/-- `lowerbound` leaves a two-element list in `self.bind` -/
theorem lowerbound_wf (s : AccS α) (h : AWF s) (bound : Option (HalfBounding α κ)) (mn : Option α) (kw : κ) :
    AWF (stOf (Accumulator_lowerbound s bound mn kw)) := by
  unfold AWF at h
  cases hb : s.bind with
  | fn f =>
    cases bound <;>
      simp [Accumulator_lowerbound, hb, isList, setItem, raiseWith, stOf, AWF, bind, Except.bind, pure, Except.pure]
  | list l =>
    rw [hb] at h
    match l, h with
    | [u, lo], _ =>
      cases bound <;>
        simp [Accumulator_lowerbound, hb, isList, setItem, raiseWith, stOf, AWF, bind, Except.bind, pure, Except.pure]

/-- `fullbound` leaves a callable in `self.bind` -/
theorem fullbound_wf (s : AccS α) (bound : Option (FullBounding α κ)) (mx mn : Option α) (kw : κ) :
    AWF (stOf (Accumulator_fullbound s bound mx mn kw)) := by
  cases bound <;> simp [Accumulator_fullbound, stOf, AWF, pure, Except.pure]

/-- `update` keeps the accumulator well formed (also when it raises) -/
theorem update_wf (s : AccS α) (h : AWF s) (x : α) : AWF (stOf (Accumulator_update s x)) := by
  have := update_bind s h x
  unfold AWF at h ⊢; rw [this]; exact h

/-- `Accumulator.forward` keeps the accumulator well formed (also when it raises) -/
theorem forward_wf_acc (s : AccS α) (h : AWF s) (x : α) : AWF (stOf (Accumulator_forward s x)) := by
  have := forward_bind s h x
  unfold AWF at h ⊢; rw [this]; exact h

/-- a constructed updater is well formed and refers to the module it was constructed for -/
theorem updater_new_wf (module : List (String × α)) (params : List String) (r : Option (Reduce α)) (s : UpdS α)
    (h : Updater___init__ module params r = .ok s) : UWF s ∧ s._parent_module = some module := by
  unfold Updater___init__ argtestMembers at h
  by_cases hm : params.all (fun p => (alookup module p).isSome) = true
  · rw [if_pos hm] at h
    cases r with
    | none =>
      simp only [bind, Except.bind, pure, Except.pure, Except.ok.injEq] at h
      subst h
      refine ⟨?_, rfl⟩
      intro kv hkv
      simp only [nnModuleDict, dictComp_const] at hkv
      obtain ⟨p, -, rfl⟩ := List.mem_map.mp hkv
      exact new_wf
    | some r =>
      simp only [bind, Except.bind, pure, Except.pure, forValues] at h
      rw [forValuesAux_ok _ (redS r) (by intro v; simp [reduction_ok, bind, Except.bind, pure, Except.pure])] at h
      simp only [dropState, Except.ok.injEq] at h
      subst h
      refine ⟨?_, rfl⟩
      intro kv hkv
      simp only [nnModuleDict, dictComp_const, List.map_map] at hkv
      obtain ⟨p, -, rfl⟩ := List.mem_map.mp hkv
      exact new_wf
  · rw [if_neg hm] at h
    simp [bind, Except.bind] at h

/-- `Updater.clear` keeps the updater well formed -/
theorem updater_clear_wf (s : UpdS α) (h : UWF s) : UWF (stOf (Updater_clear s)) := by
  rw [updater_clear_ok]
  exact clrS_wf _ h


/-- `Updatable.clear` keeps the module well formed -/
theorem mod_clear_wf (s : ModS α) (h : MWF s) : MWF (stOf (Updatable_clear s)) := by
  unfold Updatable_clear
  simp only [updatable_ok, getter_ok, bind, pure, Except.pure, bind_ok']
  cases hu : s.updater_ with
  | none => simpa [stOf] using h
  | some u =>
    simp only [Option.isSome_some, ↓reduceIte, bind_pure_unit, updaterCall_clear, bind_ok', stOf]
    intro u' hu'
    simp at hu'
    subst hu'
    exact clrS_wf _ (h u hu)

/-- `Updatable.update` keeps the module well formed (also when it raises) -/
theorem mod_update_wf (s : ModS α) (hwf : MWF s) (c : Bool) : MWF (stOf (Updatable_update s c)) := by
  unfold Updatable_update
  simp only [updatable_ok, getter_ok, bind, pure, Except.pure, bind_ok']
  cases hu : s.updater_ with
  | none => simpa [stOf] using hwf
  | some u =>
    have hf := updaterCall_forward (fun _ => none) s u (hwf u hu) .TypeError []
    simp only [Option.isSome_some, ↓reduceIte, bind_pure_unit]
    generalize updaterCall s (some u) Err.TypeError (fun self => Updater_forward self []) = r at hf
    rcases r with ⟨e', s'⟩ | ⟨s', _⟩
    · exact hf.2.2
    · obtain ⟨-, -, h3, h4⟩ := hf
      cases hu' : s'.updater_ with
      | none => simp [hu'] at h4
      | some u' =>
        cases c with
        | false => simpa [bind_ok', stOf] using h3
        | true =>
          simp only [bind_ok', ↓reduceIte, hu', updaterCall_clear, stOf]
          intro u'' hu''
          simp at hu''
          subst hu''
          exact clrS_wf _ (h3 u' hu')


/-- `Updatable.updatesome` keeps the module well formed (also when it raises) -/
theorem mod_updatesome_wf (s : ModS α) (hwf : MWF s) (ps : List String) (c : Bool) :
    MWF (stOf (Updatable_updatesome s ps c)) := by
  have h := (some_loop (fun _ => none) c ps s hwf).2
  rw [updatesome_unfold]
  generalize forEach ps s (someBody c) = r at h
  rcases r with ⟨e, s'⟩ | s' <;> exact h

/-! ## Non-vacuity: the regenerated programs run (`α = Int`) -/

/-- a fresh accumulator with parts `+3`, `+4`, `−2` -/
def exAcc : AccS Int :=
  stOf (Accumulator_neg_setter (stOf (Accumulator_pos_setter (stOf (Accumulator_pos_setter Accumulator___init__
    (some 3))) (some 4))) (some 2))

example : AWF exAcc := by simp [AWF, exAcc, stOf, Accumulator_neg_setter, Accumulator_pos_setter, Accumulator___init__,
  pure, Except.pure]

/-- `forward(10) = 10 + (3 + 4) − 2` -/
example : (match Accumulator_forward exAcc 10 with | .ok (_, v) => some v | .error _ => none) = some 15 := by decide

/-- a raising bounding function: `TypeError`, and the state at the raise point has the `pos` cache filled -/
example : (match Accumulator_update { exAcc with bind := .fn (fun _ _ _ => .error .TypeError) } 10 with
    | .error (e, s') => some (e, s'._pos_cache, s'._neg_cache)
    | .ok _ => none) = some (Err.TypeError, some (some 7), some (some 2)) := by decide

/-- an updater over the live module `{w: 10, b: 5}` -/
def exUpd : UpdS Int := { updates_ := [("w", exAcc)], _parent_module := some [("w", 10), ("b", 5)] }

example : (stOf (Updater_forward exUpd []))._parent_module = some [("w", 15), ("b", 5)] := by decide

/-- an unknown name: `KeyError`, nothing assigned -/
example : (match Updater_forward exUpd ["v"] with
    | .error (e, s') => some (e, s'._parent_module) | .ok _ => none)
    = some (Err.KeyError, some [("w", 10), ("b", 5)]) := by decide

/-- the constructor rejects a name that is not an attribute of the module -/
example : (match Updater___init__ [("w", (10 : Int))] ["w", "v"] none with | .error e => some e | .ok _ => none)
    = some Err.RuntimeError := by decide

/-- an updatable module: `update()` applies and clears, a second `update()` changes nothing -/
def exMod : ModS Int := { attrs := [("w", 10)], updater_ := some [("w", exAcc)] }

example : (stOf (Updatable_update exMod true)).attrs = [("w", 15)] := by decide
example : (stOf (Updatable_update (stOf (Updatable_update exMod true)) true)).attrs = [("w", 15)] := by decide
example : (stOf (Updatable_update (stOf (Updatable_update exMod false)) true)).attrs = [("w", 20)] := by decide

end InfernoVerif.Gen.UpdaterProg
