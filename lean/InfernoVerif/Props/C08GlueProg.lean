import InfernoVerif.Gen.STDPProg
import InfernoVerif.Model.STDP
/-!
# Glue: the regenerated `forward` bodies of the STDP-family trainers ARE the per-step functions of `Model/STDP.lean`

`Gen/STDPProg.lean` is regenerated on every run by `harness/progtx_stdp.py` from the WHOLE `forward` bodies of
`STDP`, `TripletSTDP` (`inferno/learn/trainers/two_factor_stdp.py`) and `MSTDP`, `MSTDPET`
(`three_factor_stdp.py`): the loop over the units, the `continue` guards, which monitor is read and through which view
(`peek()` / `view(selector, tolerance)` / `data_.read(2)` / `data_.select(…, offset=2)`), the receptive reshapes, the
`einsum` contractions, the batch reduction, the signal scaling and partition, the `match` tables and the assignment to
`cell.updater.weight`.  The theorems below state, per class, that running the generated loop body on a unit whose
monitors show the model's per-step quantities (`…View`) appends to the cell's updater log exactly
`("weight", <model's per-step contribution>)` — `stdpStep`, `tripletStep`, `mstdpScalar` / `mstdpTensor`,
`mstdpetScalar` / `mstdpetTensor` of `Model/STDP.lean`, the functions the theorems of `Props/C08.lean` are about — for ALL
four sign modes (the rates are arbitrary reals), both delay modes (`c.delayed` arbitrary), both reductions, every batch,
receptive field, delay and step; and that the loop does this for every unit (`gen_*_forward`), leaving skipped units
(cell or trainer not training, no updater, name not in `cells`) untouched.

## What the abstraction (the `…View` hypotheses) contains — i.e. what is NOT re-derived here

* The world of the generated programs is ONE weight position (`Gen/STDPPrelude.lean`): `bt : List (List Syn)` lists, per
  batch sample, the (pre, post) spike trains of the receptive field of that position; a monitor value `o` enters through
  `connection.presyn_receptive o` / `postsyn_receptive o : List (List ℝ)` (reshape + restriction to the position,
  `Model/Conn.lean`, C17) or, for the eligibility monitors, through `O.batched o`.
* Monitors' values are INPUTS: a `…View` says that the value each translated read returns is the model's quantity at
  step `t` (`xPost`, `xPre`, `iPre`, `yA`, `yB`, … of `Model/STDP.lean`) — e.g. for `trace_pre`:
  `(if c.delayed then m.view selector tolerance else m.peek) = some o` with `presyn_receptive o = [[xPre c s.pre k t]]`.
  The hypothesis constrains ONLY the read the model prescribes for the mode; if the code read the other view, another
  monitor, or used the other reshape, nothing is known about the value and the proof breaks.  That the reducers really
  produce these values is C07 / C02 and the correspondence check of C08.
* `c.delayed` is `state.delayed and cell.connection.delayedby` (Python truth value), `state.batchreduce` is the model's
  `reduce r`, the rates are the CELL's (`state.lr_*`).
* `TripletSTDP` multiplies raw observations before reshaping (`postsyn_receptive((1.0 + y_b) * y)`); `Natural` states that
  a receptive reshape is a re-indexing and so commutes with element-wise arithmetic (on operands of equal shape).
* A tensor-valued `signal` has one entry per batch sample (`sig.length = bt.length`).

* `register_cell` / `_build_cell_state` (section Wiring): the regenerated list of `add_monitor` calls equals, per class,
  a table written in terms of the MODEL's configuration (`gen_stdp_register`, `gen_mstdp_register`,
  `gen_mstdpet_register`, `gen_triplet_register`), and the traces these reducer specifications describe (`specTrace`:
  `decay = exp(-dt/τ)`, class by name — the reducers' constructors, C02 / C07) are the ones `xPost`, `xPre`, `yA`, `xA`,
  `yB`, `xB` are built from (`stdp_wiring_traces`, `triplet_wiring_traces`).  Not covered: `add_cell`, `get_unit`, the
  rest of `_build_cell_state` (hyperparameter validation), how a duration becomes a number of record slots (C13).

Exceptions: `gen_stdp_forward_cell_missing_monitor` (`KeyError`), `gen_stdp_forward_cell_no_observation` (`RuntimeError`)
show two failing paths; the other failing paths of the programs (broadcast mismatch, out-of-range index, `None`
operands) are in the generated text but have no theorem — under the `…View` hypotheses none is taken.

No disagreement between the bodies and `Model/STDP.lean` was found.
-/
set_option linter.unusedSectionVars false
namespace InfernoVerif.STDP.GlueProg
open InfernoVerif.Gen.STDPPrelude InfernoVerif.Gen.STDPProg InfernoVerif.STDP.R

/-! ## vocabulary lemmas -/
section Generic
variable {β γ δ ι : Type}

/-- on operands of equal size the broadcasting rule is the plain `zipWith` -/
theorem bzip_length_eq (f : β → γ → δ) (xs : List β) (ys : List γ) (h : xs.length = ys.length) :
    bzip f xs ys = .ok (List.zipWith f xs ys) := by
  unfold bzip
  split
  · match xs, h with
    | [a], _ => rfl
  · rename_i a hne
    match ys, h with
    | [b], _ => exact absurd rfl (hne b)
  · simp [h, pure, Except.pure]

/-- `mapM id` over a list of successes is the list of their values -/
theorem mapM_id_ok (l : List ι) (φ : ι → δ) :
    (l.map fun x => (Except.ok (φ x) : Except Err δ)).mapM id = .ok (l.map φ) := by
  induction l with
  | nil => rfl
  | cons a l ih => simp [List.mapM_cons, ih, bind, Except.bind, pure, Except.pure]

/-- `zipWith` of two maps of one list is one map -/
theorem zipWith_map_map (f : β → γ → δ) (g : ι → β) (h : ι → γ) (l : List ι) :
    List.zipWith f (l.map g) (l.map h) = l.map fun s => f (g s) (h s) := by
  induction l with
  | nil => rfl
  | cons a l ih => simp [ih]

/-- one step of a successful `mapM` -/
theorem mapM_ok_cons (f : β → Except Err γ) (a : β) (l : List β) (b : γ) (bs : List γ)
    (h1 : f a = .ok b) (h2 : l.mapM f = .ok bs) : (a :: l).mapM f = .ok (b :: bs) := by
  simp [List.mapM_cons, h1, h2, bind, Except.bind, pure, Except.pure]

/-- a `mapM` whose function succeeds with `g a` on every element is `map g` -/
theorem mapM_ok_map (f : β → Except Err γ) (g : β → γ) (l : List β) (h : ∀ a ∈ l, f a = .ok (g a)) :
    l.mapM f = .ok (l.map g) := by
  induction l with
  | nil => rfl
  | cons a l ih =>
    exact mapM_ok_cons f a l _ _ (h a (by simp)) (ih fun b hb => h b (by simp [hb]))

/-- the units after a loop that replaces the cell of every unit `nu` by `g nu` -/
def stepUnits {ο σ α ς : Type} (units : List (String × TUnit ο σ α ς)) (g : String × TUnit ο σ α ς → CellS ο σ α) :
    List (String × TUnit ο σ α ς) :=
  units.map fun nu => (nu.1, { nu.2 with cell := g nu })

/-- the trainer after such a loop -/
def withUnits {ο σ α ς : Type} (self : Trainer ο σ α ς) (g : String × TUnit ο σ α ς → CellS ο σ α) : Trainer ο σ α ς :=
  { self with cells_ := stepUnits self.cells_ g }

/-- the loop over the units: if the body succeeds on every unit, the loop replaces every unit's cell by the body's -/
theorem for_units_ok {ο σ α ς : Type} (self : Trainer ο σ α ς)
    (body : String → CellS ο σ α → ς → Monitors ο σ α → Except Err (CellS ο σ α))
    (g : String × TUnit ο σ α ς → CellS ο σ α)
    (h : ∀ nu ∈ self.cells_, body nu.1 nu.2.cell nu.2.state nu.2.monitors = .ok (g nu)) :
    for_units self body
      = .ok (withUnits self g) := by
  unfold for_units withUnits stepUnits
  rw [mapM_ok_map _ (fun nu => (nu.1, { nu.2 with cell := g nu }))]
  · rfl
  · intro nu hnu
    simp [h nu hnu, bind, Except.bind, pure, Except.pure]

end Generic

/-- the vocabulary's `lsum` at `ℝ` is the model's -/
theorem lsum_eq (xs : List ℝ) : Gen.STDPPrelude.lsum xs = R.lsum xs := rfl

/-- the vocabulary's `abs` at `ℝ` is the model's -/
theorem absv_eq (x : ℝ) : absv x = absT x := by
  unfold absv absT
  exact (abs_eq_max_neg).symm

/-- `ein.einsum(x, y, "b ... r, b ... r -> b ...")` on the receptive views of two per-synapse quantities is the model's
per-sample contraction `lsum (f.map fun s => g s * h s)` (operand order kept) -/
theorem einsum_model {ι : Type} (bt : List (List ι)) (g h : ι → ℝ) :
    einsum_brr_brr_b (bt.map (·.map g)) (bt.map (·.map h))
      = .ok (bt.map fun f => R.lsum (f.map fun s => g s * h s)) := by
  unfold einsum_brr_brr_b
  rw [bzip_length_eq _ _ _ (by simp)]
  simp only [bind, Except.bind, zipWith_map_map]
  have : (bt.map fun s => Except.map Gen.STDPPrelude.lsum (bzip (fun x1 x2 : ℝ => x1 * x2) (List.map g s) (List.map h s)))
      = bt.map fun f => (Except.ok (R.lsum (f.map fun s => g s * h s)) : Except Err ℝ) := by
    apply List.map_congr_left
    intro f _
    rw [bzip_length_eq _ _ _ (by simp), zipWith_map_map]
    rfl
  rw [this, mapM_id_ok]

/-- `index_select0_argwhere` with the indices counted from a prefix `pre` (induction over the signal) -/
theorem index_select0_argwhereFrom (p : ℝ → Bool) (sig : List ℝ) :
    ∀ (pre xs : List ℝ), xs.length = sig.length →
      index_select0 (pre ++ xs) (argwhereFrom pre.length (sig.map p)) = .ok (pick p sig xs) := by
  induction sig with
  | nil => intro pre xs h; cases xs <;> simp_all [argwhereFrom, index_select0, pick, pure, Except.pure]
  | cons s sig ih =>
    intro pre xs h
    cases xs with
    | nil => simp at h
    | cons x xs =>
      have hl : xs.length = sig.length := by simpa using h
      have ih' := ih (pre ++ [x]) xs hl
      simp only [List.append_assoc, List.singleton_append, List.length_append, List.length_singleton] at ih'
      simp only [List.map_cons, argwhereFrom, pick, List.zip_cons_cons, List.filterMap_cons]
      by_cases hp : p s = true
      · simp only [hp, if_true]
        unfold index_select0 at ih' ⊢
        apply mapM_ok_cons _ _ _ _ _ _ ih'
        simp [pure, Except.pure]
      · simp only [hp, Bool.false_eq_true, if_false]
        exact ih'

/-- `x[torch.argwhere(mask).view(-1)]` is the model's `pick`: the samples whose signal satisfies `p`, in batch order -/
theorem index_select0_argwhere (p : ℝ → Bool) (sig xs : List ℝ) (h : xs.length = sig.length) :
    index_select0 xs (argwhere (sig.map p)) = .ok (pick p sig xs) := by
  simpa [argwhere] using index_select0_argwhereFrom p sig [] xs h

/-- the tensor-signal tail of `MSTDP.forward` / `MSTDPET.forward` (scaled signal, `argwhere` partition, row selection,
`torch.cat` table, `… if d.numel() else None`) on per-sample terms `ds`, `es` is the model's `signalSplit` -/
theorem signal_tail (lrPost lrPre : ℝ) (r : Red) (sig : List ℝ) (scale : ℝ) (ds es : List ℝ)
    (hd : ds.length = sig.length) (he : es.length = sig.length) :
    ∃ dp de dpr dpi der dei,
      bmul ds (view_b1 (tensor_abs (tensor_mul_scalar sig scale))) = .ok dp ∧
      bmul es (view_b1 (tensor_abs (tensor_mul_scalar sig scale))) = .ok de ∧
      index_select0 dp (argwhere (tensor_ge0 sig)) = .ok dpr ∧
      index_select0 dp (argwhere (tensor_lt0 sig)) = .ok dpi ∧
      index_select0 de (argwhere (tensor_ge0 sig)) = .ok der ∧
      index_select0 de (argwhere (tensor_lt0 sig)) = .ok dei ∧
      signalSplit lrPost lrPre r sig scale ds es =
        (redOpt r (routeT (decide (0 ≤ lrPost)) (decide (0 ≤ lrPre)) dpr dpi der dei).1,
         redOpt r (routeT (decide (0 ≤ lrPost)) (decide (0 ≤ lrPre)) dpr dpi der dei).2) := by
  have hss : view_b1 (tensor_abs (tensor_mul_scalar sig scale)) = sig.map fun s => absT (s * scale) := by
    simp [view_b1, tensor_abs, tensor_mul_scalar, absv_eq, Function.comp_def]
  have hmul : ∀ xs : List ℝ, xs.length = sig.length →
      bmul xs (sig.map fun s => absT (s * scale)) = .ok ((xs.zip (sig.map fun s => absT (s * scale))).map fun x => x.1 * x.2) := by
    intro xs hx
    unfold bmul
    rw [bzip_length_eq _ _ _ (by simp [hx]), List.map_zip_eq_zipWith]; rfl
  have hlen : ∀ xs : List ℝ, xs.length = sig.length →
      ((xs.zip (sig.map fun s => absT (s * scale))).map fun x => x.1 * x.2).length = sig.length := by
    intro xs hx; simp [hx]
  refine ⟨_, _, _, _, _, _, by rw [hss]; exact hmul ds hd, by rw [hss]; exact hmul es he,
    index_select0_argwhere (fun s => decide (0 ≤ s)) sig _ (hlen ds hd),
    index_select0_argwhere (fun s => decide (s < 0)) sig _ (hlen ds hd),
    index_select0_argwhere (fun s => decide (0 ≤ s)) sig _ (hlen es he),
    index_select0_argwhere (fun s => decide (s < 0)) sig _ (hlen es he), ?_⟩
  simp only [signalSplit, ge_iff_le]

/-! ## the units of the loop -/
section Units
variable {ο σ ς : Type}

/-- `cells is not None and name not in cells` is false -/
def selected (cells : Option (List String)) (name : String) : Bool :=
  match cells with
  | some l => l.contains name
  | none => true

/-- the cell of a unit after `forward`: `parts` appended to the log of `cell.updater.weight` when the cell trains and has
an updater; untouched otherwise -/
def handed (nu : String × TUnit ο σ ℝ ς) (parts : Parts ℝ) : CellS ο σ ℝ :=
  if nu.2.cell.training then
    match nu.2.cell.updater with
    | some u => { nu.2.cell with updater := some (u ++ [("weight", parts)]) }
    | none => nu.2.cell
  else nu.2.cell

/-- the same for `MSTDP` / `MSTDPET`: only the units selected by `cells` -/
def handedSel (cells : Option (List String)) (nu : String × TUnit ο σ ℝ ς) (parts : Parts ℝ) : CellS ο σ ℝ :=
  if selected cells nu.1 then handed nu parts else nu.2.cell

end Units

/-! ## `STDP.forward` -/
section STDP
variable {ο σ : Type}

/-- the unit's monitors show the model's per-step quantities of `STDP` (and `MSTDP`) at step `t` for a weight with delay
`k` steps whose receptive fields are `bt` -/
structure StdpView (O : TorchOps ο ℝ) (c : Cfg) (r : Red) (k t : ℕ) (bt : List (List Syn))
    (cell : CellS ο σ ℝ) (state : StateS ℝ) (monitors : Monitors ο σ ℝ) : Prop where
  lr_post : state.lr_post = c.lrPost
  lr_pre : state.lr_pre = c.lrPre
  batchreduce : state.batchreduce = reduce r
  delayed : (state.delayed && truthy_optfloat O cell.connection.delayedby) = c.delayed
  trace_post : ∃ m o, getItem monitors "trace_post" = .ok m ∧ m.peek = some o ∧
    cell.connection.postsyn_receptive o = bt.map (·.map fun s => xPost c s.post t)
  spike_post : ∃ m o, getItem monitors "spike_post" = .ok m ∧ m.peek = some o ∧
    cell.connection.postsyn_receptive o = bt.map (·.map fun s => ind (s.post t))
  trace_pre : ∃ m o, getItem monitors "trace_pre" = .ok m ∧
    (if c.delayed then m.view cell.connection.selector state.tolerance else m.peek) = some o ∧
    cell.connection.presyn_receptive o = bt.map (·.map fun s => xPre c s.pre k t)
  spike_pre : ∃ m o, getItem monitors "spike_pre" = .ok m ∧
    (if c.delayed then m.view cell.connection.selector state.tolerance else m.peek) = some o ∧
    cell.connection.presyn_receptive o = bt.map (·.map fun s => iPre c s.pre k t)

/-- **`STDP.forward`, one unit.**  On a training cell with an updater the regenerated loop body appends
`("weight", stdpStep c r k bt t)` — the model's `(pos, neg)` of that step — to the updater's log and changes nothing
else; all four sign modes (`c.lrPost`, `c.lrPre` arbitrary), delayed and frozen mode (`c.delayed` arbitrary). -/
theorem gen_stdp_forward_cell (O : TorchOps ο ℝ) (self : Trainer ο σ ℝ (StateS ℝ)) (name : String)
    (c : Cfg) (r : Red) (k t : ℕ) (bt : List (List Syn))
    (cell : CellS ο σ ℝ) (state : StateS ℝ) (monitors : Monitors ο σ ℝ)
    (h : StdpView O c r k t bt cell state monitors)
    (hcell : cell.training = true) (hself : self.training = true) (u : UpdLog ℝ) (hu : cell.updater = some u) :
    STDP_forward_cell O self name cell state monitors
      = .ok { cell with updater := some (u ++ [("weight", stdpStep c r k bt t)]) } := by
  obtain ⟨m1, o1, g1, p1, r1⟩ := h.trace_post
  obtain ⟨m2, o2, g2, p2, r2⟩ := h.spike_post
  obtain ⟨m3, o3, g3, p3, r3⟩ := h.trace_pre
  obtain ⟨m4, o4, g4, p4, r4⟩ := h.spike_pre
  unfold STDP_forward_cell
  simp only [hcell, hself, hu, h.delayed, g1, g2, g3, g4, p1, p2, bind, Except.bind, pure, Except.pure, receptive,
    Bool.not_true, Option.isSome_some, Bool.or_false, Bool.false_eq_true, if_false]
  cases hd : c.delayed <;> simp only [hd, if_true, if_false, Bool.false_eq_true] at p3 p4 ⊢ <;>
    simp only [p3, p4, r1, r2, r3, r4, einsum_model, h.lr_post, h.lr_pre, h.batchreduce] <;>
    by_cases ha : 0 ≤ c.lrPost <;> by_cases hb : 0 ≤ c.lrPre <;>
    simp [ha, hb, updater_set, stdpStep, route, dpostB, dpreB, pure, Except.pure]

/-- a cell that does not train, a trainer that does not train, or a cell without updater is skipped (`continue`) -/
theorem gen_stdp_forward_cell_skip (O : TorchOps ο ℝ) (self : Trainer ο σ ℝ (StateS ℝ)) (name : String)
    (cell : CellS ο σ ℝ) (state : StateS ℝ) (monitors : Monitors ο σ ℝ)
    (h : cell.training = false ∨ self.training = false ∨ cell.updater = none) :
    STDP_forward_cell O self name cell state monitors = .ok cell := by
  unfold STDP_forward_cell
  rcases h with h | h | h <;> simp [h, pure, Except.pure]

/-- a unit that is not skipped and lacks the first monitor read raises `KeyError` (`monitors["trace_post"]`) -/
theorem gen_stdp_forward_cell_missing_monitor (O : TorchOps ο ℝ) (self : Trainer ο σ ℝ (StateS ℝ)) (name : String)
    (cell : CellS ο σ ℝ) (state : StateS ℝ) (monitors : Monitors ο σ ℝ)
    (hcell : cell.training = true) (hself : self.training = true) (hu : cell.updater.isSome = true)
    (h : monitors.lookup "trace_post" = none) :
    STDP_forward_cell O self name cell state monitors = .error .KeyError := by
  unfold STDP_forward_cell
  simp [hcell, hself, hu, getItem, h, bind, Except.bind, throw, throwThe, MonadExceptOf.throw]

/-- before the first observation `peek()` is `None` and the receptive reshape raises `RuntimeError` -/
theorem gen_stdp_forward_cell_no_observation (O : TorchOps ο ℝ) (self : Trainer ο σ ℝ (StateS ℝ)) (name : String)
    (cell : CellS ο σ ℝ) (state : StateS ℝ) (monitors : Monitors ο σ ℝ) (m : Monitor ο σ ℝ)
    (hcell : cell.training = true) (hself : self.training = true) (hu : cell.updater.isSome = true)
    (h : getItem monitors "trace_post" = .ok m) (hp : m.peek = none) :
    STDP_forward_cell O self name cell state monitors = .error .RuntimeError := by
  unfold STDP_forward_cell
  simp [hcell, hself, hu, h, hp, receptive, bind, Except.bind, throw, throwThe, MonadExceptOf.throw]

/-- **`STDP.forward`, the loop.**  With the trainer in training mode, every unit whose cell trains and has an updater
receives the model's `stdpStep` of ITS OWN configuration `M nu = (c, r, k, bt)`; the other units are untouched. -/
theorem gen_stdp_forward (O : TorchOps ο ℝ) (self : Trainer ο σ ℝ (StateS ℝ)) (t : ℕ) (hself : self.training = true)
    (M : String × TUnit ο σ ℝ (StateS ℝ) → Cfg × Red × ℕ × List (List Syn))
    (hview : ∀ nu ∈ self.cells_, nu.2.cell.training = true → nu.2.cell.updater.isSome = true →
      StdpView O (M nu).1 (M nu).2.1 (M nu).2.2.1 t (M nu).2.2.2 nu.2.cell nu.2.state nu.2.monitors) :
    STDP_forward O self = .ok (withUnits self fun nu =>
      handed nu (stdpStep (M nu).1 (M nu).2.1 (M nu).2.2.1 (M nu).2.2.2 t), ()) := by
  unfold STDP_forward
  rw [for_units_ok self _ (fun nu => handed nu (stdpStep (M nu).1 (M nu).2.1 (M nu).2.2.1 (M nu).2.2.2 t))]
  · rfl
  · intro nu hnu
    unfold handed
    cases htr : nu.2.cell.training
    · simpa using gen_stdp_forward_cell_skip O self nu.1 nu.2.cell nu.2.state nu.2.monitors (Or.inl htr)
    · cases hu : nu.2.cell.updater with
      | none => simpa using gen_stdp_forward_cell_skip O self nu.1 nu.2.cell nu.2.state nu.2.monitors (Or.inr (Or.inr hu))
      | some u =>
        simpa using gen_stdp_forward_cell O self nu.1 _ _ _ t _ nu.2.cell nu.2.state nu.2.monitors
          (hview nu hnu htr (by simp [hu])) htr hself u hu

/-- a trainer that is not in training mode changes nothing -/
theorem gen_stdp_forward_eval (O : TorchOps ο ℝ) (self : Trainer ο σ ℝ (StateS ℝ)) (hself : self.training = false) :
    STDP_forward O self = .ok (self, ()) := by
  unfold STDP_forward
  rw [for_units_ok self _ (fun nu => nu.2.cell)]
  · simp [withUnits, stepUnits, bind, Except.bind, pure, Except.pure]
  · intro nu _
    exact gen_stdp_forward_cell_skip O self nu.1 nu.2.cell nu.2.state nu.2.monitors (Or.inr (Or.inl hself))

/-- the four sign modes spelled out: what `gen_stdp_forward_cell` hands over, with
`dpost = reduce r [dpostB …]`, `dpre = reduce r [dpreB …]` -/
theorem stdpStep_modes (c : Cfg) (r : Red) (k t : ℕ) (bt : List (List Syn)) :
    let dpost := reduce r (bt.map fun f => dpostB c k f t)
    let dpre := reduce r (bt.map fun f => dpreB c k f t)
    (c.lrPost < 0 → c.lrPre < 0 → stdpStep c r k bt t = (none, some (dpost + dpre))) ∧
    (c.lrPost < 0 → 0 ≤ c.lrPre → stdpStep c r k bt t = (some dpre, some dpost)) ∧
    (0 ≤ c.lrPost → c.lrPre < 0 → stdpStep c r k bt t = (some dpost, some dpre)) ∧
    (0 ≤ c.lrPost → 0 ≤ c.lrPre → stdpStep c r k bt t = (some (dpost + dpre), none)) := by
  refine ⟨fun a b => ?_, fun a b => ?_, fun a b => ?_, fun a b => ?_⟩ <;>
    simp [stdpStep, route, a, b, not_le.mpr]

end STDP

/-! ## `TripletSTDP.forward` -/
section Triplet
variable {ο σ : Type}

/-- a receptive reshape is a re-indexing: it commutes with the element-wise arithmetic `TripletSTDP.forward` does on raw
observations (`c + x`; `x * y` for operands whose receptive views have the same shape) -/
structure Natural (O : TorchOps ο ℝ) (f : ο → Recv ℝ) : Prop where
  add_scalar : ∀ (c : ℝ) (x : ο), f (O.add_scalar c x) = (f x).map (·.map (c + ·))
  mul : ∀ x y : ο, (f x).map List.length = (f y).map List.length →
    f (O.mul x y) = List.zipWith (List.zipWith (· * ·)) (f x) (f y)

/-- the unit's monitors show the model's per-step quantities of `TripletSTDP` at step `t` -/
structure TripletView (O : TorchOps ο ℝ) (c : TCfg) (r : Red) (k t : ℕ) (bt : List (List Syn))
    (cell : CellS ο σ ℝ) (state : TStateS ℝ) (monitors : Monitors ο σ ℝ) : Prop where
  lr_post_pair : state.lr_post_pair = c.aPost
  lr_pre_pair : state.lr_pre_pair = c.aPre
  batchreduce : state.batchreduce = reduce r
  delayed : (state.delayed && truthy_optfloat O cell.connection.delayedby) = c.delayed
  post_natural : Natural O cell.connection.postsyn_receptive
  pre_natural : Natural O cell.connection.presyn_receptive
  trace_post_fast : ∃ m o, getItem monitors "trace_post_fast" = .ok m ∧ m.peek = some o ∧
    cell.connection.postsyn_receptive o = bt.map (·.map fun s => yA c s.post t)
  trace_pre_fast : ∃ m o, getItem monitors "trace_pre_fast" = .ok m ∧
    (if c.delayed then m.view cell.connection.selector state.tolerance else m.peek) = some o ∧
    cell.connection.presyn_receptive o = bt.map (·.map fun s => xA c s.pre k t)
  trace_post_slow : ∃ m o, getItem monitors "trace_post_slow" = .ok m ∧ m.data_read 2 = .ok o ∧
    cell.connection.postsyn_receptive o = bt.map (·.map fun s => yB c s.post t)
  trace_pre_slow : ∃ m o, getItem monitors "trace_pre_slow" = .ok m ∧
    (if c.delayed then m.data_select cell.connection.selector state.tolerance 2 else m.data_read 2) = .ok o ∧
    cell.connection.presyn_receptive o = bt.map (·.map fun s => xB c s.pre k t)
  spike_post : ∃ m o, getItem monitors "spike_post" = .ok m ∧ m.peek = some o ∧
    cell.connection.postsyn_receptive o = bt.map (·.map fun s => ind (s.post t))
  spike_pre : ∃ m o, getItem monitors "spike_pre" = .ok m ∧
    (if c.delayed then m.view cell.connection.selector state.tolerance else m.peek) = some o ∧
    cell.connection.presyn_receptive o = bt.map (·.map fun s => iPreT c s.pre k t)

/-- `recv((1.0 + b) * y)` for a natural reshape: the per-synapse product `(1 + b_s) * y_s` -/
theorem natural_factor (O : TorchOps ο ℝ) (f : ο → Recv ℝ) (hn : Natural O f) (ob oy : ο) (bt : List (List Syn))
    (gb gy : Syn → ℝ) (hb : f ob = bt.map (·.map gb)) (hy : f oy = bt.map (·.map gy)) :
    f (O.mul (O.add_scalar 1 ob) oy) = bt.map (·.map fun s => (1 + gb s) * gy s) := by
  rw [hn.mul _ _ (by simp [hn.add_scalar, hb, hy]), hn.add_scalar, hb, hy]
  simp only [List.map_map, zipWith_map_map]
  apply List.map_congr_left
  intro l _
  simp only [Function.comp_def, List.map_map, zipWith_map_map]

/-- **`TripletSTDP.forward`, one unit.**  The regenerated loop body appends `("weight", tripletStep c r k bt t)`. -/
theorem gen_triplet_forward_cell (O : TorchOps ο ℝ) (self : Trainer ο σ ℝ (TStateS ℝ)) (name : String)
    (c : TCfg) (r : Red) (k t : ℕ) (bt : List (List Syn))
    (cell : CellS ο σ ℝ) (state : TStateS ℝ) (monitors : Monitors ο σ ℝ)
    (h : TripletView O c r k t bt cell state monitors)
    (hcell : cell.training = true) (hself : self.training = true) (u : UpdLog ℝ) (hu : cell.updater = some u) :
    TripletSTDP_forward_cell O self name cell state monitors
      = .ok { cell with updater := some (u ++ [("weight", tripletStep c r k bt t)]) } := by
  obtain ⟨m1, o1, g1, p1, r1⟩ := h.trace_post_fast
  obtain ⟨m2, o2, g2, p2, r2⟩ := h.trace_pre_fast
  obtain ⟨m3, o3, g3, p3, r3⟩ := h.trace_post_slow
  obtain ⟨m4, o4, g4, p4, r4⟩ := h.trace_pre_slow
  obtain ⟨m5, o5, g5, p5, r5⟩ := h.spike_post
  obtain ⟨m6, o6, g6, p6, r6⟩ := h.spike_pre
  have fy := natural_factor O _ h.post_natural o3 o5 bt _ _ r3 r5
  have fx := natural_factor O _ h.pre_natural o4 o6 bt _ _ r4 r6
  unfold TripletSTDP_forward_cell
  simp only [hcell, hself, hu, h.delayed, g1, g2, g3, g4, g5, g6, p1, p3, p5, bind, Except.bind, pure, Except.pure,
    receptive, obs_mul_opt, Bool.not_true, Option.isSome_some, Bool.or_false, Bool.false_eq_true, if_false]
  cases hd : c.delayed <;> simp only [hd, if_true, if_false, Bool.false_eq_true] at p2 p4 p6 ⊢ <;>
    simp only [p2, p4, p6, r1, r2, fy, fx, einsum_model, h.lr_post_pair, h.lr_pre_pair, h.batchreduce] <;>
    by_cases ha : 0 ≤ c.aPost <;> by_cases hb : 0 ≤ c.aPre <;>
    simp [ha, hb, updater_set, tripletStep, route, tripletDpostB, tripletDpreB, pure, Except.pure]

/-- skipped units of `TripletSTDP.forward`: cell / trainer not training, no updater -/
theorem gen_triplet_forward_cell_skip (O : TorchOps ο ℝ) (self : Trainer ο σ ℝ (TStateS ℝ)) (name : String)
    (cell : CellS ο σ ℝ) (state : TStateS ℝ) (monitors : Monitors ο σ ℝ)
    (h : cell.training = false ∨ self.training = false ∨ cell.updater = none) :
    TripletSTDP_forward_cell O self name cell state monitors = .ok cell := by
  unfold TripletSTDP_forward_cell
  rcases h with h | h | h <;> simp [h, pure, Except.pure]

/-- **`TripletSTDP.forward`, the loop.** -/
theorem gen_triplet_forward (O : TorchOps ο ℝ) (self : Trainer ο σ ℝ (TStateS ℝ)) (t : ℕ) (hself : self.training = true)
    (M : String × TUnit ο σ ℝ (TStateS ℝ) → TCfg × Red × ℕ × List (List Syn))
    (hview : ∀ nu ∈ self.cells_, nu.2.cell.training = true → nu.2.cell.updater.isSome = true →
      TripletView O (M nu).1 (M nu).2.1 (M nu).2.2.1 t (M nu).2.2.2 nu.2.cell nu.2.state nu.2.monitors) :
    TripletSTDP_forward O self = .ok (withUnits self fun nu =>
      handed nu (tripletStep (M nu).1 (M nu).2.1 (M nu).2.2.1 (M nu).2.2.2 t), ()) := by
  unfold TripletSTDP_forward
  rw [for_units_ok self _ (fun nu => handed nu (tripletStep (M nu).1 (M nu).2.1 (M nu).2.2.1 (M nu).2.2.2 t))]
  · rfl
  · intro nu hnu
    unfold handed
    cases htr : nu.2.cell.training
    · simpa using gen_triplet_forward_cell_skip O self nu.1 nu.2.cell nu.2.state nu.2.monitors (Or.inl htr)
    · cases hu : nu.2.cell.updater with
      | none => simpa using gen_triplet_forward_cell_skip O self nu.1 nu.2.cell nu.2.state nu.2.monitors (Or.inr (Or.inr hu))
      | some u =>
        simpa using gen_triplet_forward_cell O self nu.1 _ _ _ t _ nu.2.cell nu.2.state nu.2.monitors
          (hview nu hnu htr (by simp [hu])) htr hself u hu

end Triplet

/-! ## `MSTDP.forward` -/
section MSTDP
variable {ο σ : Type}

/-- the first `continue` guard of `MSTDP.forward`, `cells is not None and name not in cells`: a unit whose name is not
selected is skipped, a selected one is treated as with `cells = None` -/
theorem mstdp_cells_guard (O : TorchOps ο ℝ) (self : Trainer ο σ ℝ (StateS ℝ)) (name : String)
    (signal : Sig ℝ) (scale : ℝ) (cells : Option (List String))
    (cell : CellS ο σ ℝ) (state : StateS ℝ) (monitors : Monitors ο σ ℝ) :
    MSTDP_forward_cell O self signal scale cells name cell state monitors
      = if selected cells name then MSTDP_forward_cell O self signal scale none name cell state monitors
        else .ok cell := by
  cases cells with
  | none => simp [selected]
  | some l =>
    unfold MSTDP_forward_cell
    cases h : l.contains name <;> simp_all [selected, pure, Except.pure]

/-- **`MSTDP.forward`, scalar signal, one unit**: appends `("weight", mstdpScalar c r k bt signal scale t)` -/
theorem gen_mstdp_forward_cell_scalar (O : TorchOps ο ℝ) (self : Trainer ο σ ℝ (StateS ℝ)) (name : String)
    (signal scale : ℝ) (cells : Option (List String))
    (c : Cfg) (r : Red) (k t : ℕ) (bt : List (List Syn))
    (cell : CellS ο σ ℝ) (state : StateS ℝ) (monitors : Monitors ο σ ℝ)
    (h : StdpView O c r k t bt cell state monitors) (hsel : selected cells name = true)
    (hcell : cell.training = true) (hself : self.training = true) (u : UpdLog ℝ) (hu : cell.updater = some u) :
    MSTDP_forward_cell O self (.scalar signal) scale cells name cell state monitors
      = .ok { cell with updater := some (u ++ [("weight", mstdpScalar c r k bt signal scale t)]) } := by
  obtain ⟨m1, o1, g1, p1, r1⟩ := h.trace_post
  obtain ⟨m2, o2, g2, p2, r2⟩ := h.spike_post
  obtain ⟨m3, o3, g3, p3, r3⟩ := h.trace_pre
  obtain ⟨m4, o4, g4, p4, r4⟩ := h.spike_pre
  rw [mstdp_cells_guard, hsel, if_pos rfl]
  unfold MSTDP_forward_cell
  simp only [hcell, hself, hu, h.delayed, g1, g2, g3, g4, p1, p2, bind, Except.bind, pure, Except.pure, receptive,
    Bool.not_true, Option.isSome_some, Bool.or_false, Bool.false_eq_true, if_false]
  cases hd : c.delayed <;> simp only [hd, if_true, if_false, Bool.false_eq_true] at p3 p4 ⊢ <;>
    simp only [p3, p4, r1, r2, r3, r4, einsum_model, h.lr_post, h.lr_pre, h.batchreduce, absv_eq] <;>
    by_cases ha : 0 ≤ c.lrPost * signal <;> by_cases hb : 0 ≤ c.lrPre * signal <;>
    simp [ha, hb, updater_set, mstdpScalar, route, dpostB, dpreB, pure, Except.pure]

/-- **`MSTDP.forward`, per-sample signal, one unit**: appends `("weight", mstdpTensor c r k bt sig scale t)` -/
theorem gen_mstdp_forward_cell_tensor (O : TorchOps ο ℝ) (self : Trainer ο σ ℝ (StateS ℝ)) (name : String)
    (sig : List ℝ) (scale : ℝ) (cells : Option (List String))
    (c : Cfg) (r : Red) (k t : ℕ) (bt : List (List Syn)) (hsig : sig.length = bt.length)
    (cell : CellS ο σ ℝ) (state : StateS ℝ) (monitors : Monitors ο σ ℝ)
    (h : StdpView O c r k t bt cell state monitors) (hsel : selected cells name = true)
    (hcell : cell.training = true) (hself : self.training = true) (u : UpdLog ℝ) (hu : cell.updater = some u) :
    MSTDP_forward_cell O self (.tensor sig) scale cells name cell state monitors
      = .ok { cell with updater := some (u ++ [("weight", mstdpTensor c r k bt sig scale t)]) } := by
  obtain ⟨m1, o1, g1, p1, r1⟩ := h.trace_post
  obtain ⟨m2, o2, g2, p2, r2⟩ := h.spike_post
  obtain ⟨m3, o3, g3, p3, r3⟩ := h.trace_pre
  obtain ⟨m4, o4, g4, p4, r4⟩ := h.spike_pre
  rw [mstdp_cells_guard, hsel, if_pos rfl]
  obtain ⟨dp, de, dpr, dpi, der, dei, e1, e2, e3, e4, e5, e6, hs⟩ :=
    signal_tail c.lrPost c.lrPre r sig scale (bt.map fun f => dpostB c k f t) (bt.map fun f => dpreB c k f t)
      (by simp [hsig]) (by simp [hsig])
  simp only [dpostB] at e1
  simp only [dpreB] at e2
  unfold MSTDP_forward_cell
  simp only [hcell, hself, hu, h.delayed, g1, g2, g3, g4, p1, p2, bind, Except.bind, pure, Except.pure, receptive,
    Bool.not_true, Option.isSome_some, Bool.or_false, Bool.false_eq_true, if_false]
  cases hd : c.delayed <;> simp only [hd, if_true, if_false, Bool.false_eq_true] at p3 p4 ⊢ <;>
    simp only [p3, p4, r1, r2, r3, r4, einsum_model, e1, e2, e3, e4, e5, e6, h.lr_post, h.lr_pre, h.batchreduce,
      mstdpTensor, hs] <;>
    by_cases ha : 0 ≤ c.lrPost <;> by_cases hb : 0 ≤ c.lrPre <;>
    simp [ha, hb, updater_set, routeT, redOpt, cat0, numel_bool, pure, Except.pure] <;>
    constructor <;> split <;> simp_all

/-- skipped units of `MSTDP.forward`: name not among `cells`, cell / trainer not training, no updater -/
theorem gen_mstdp_forward_cell_skip (O : TorchOps ο ℝ) (self : Trainer ο σ ℝ (StateS ℝ)) (name : String)
    (signal : Sig ℝ) (scale : ℝ) (cells : Option (List String))
    (cell : CellS ο σ ℝ) (state : StateS ℝ) (monitors : Monitors ο σ ℝ)
    (h : selected cells name = false ∨ cell.training = false ∨ self.training = false ∨ cell.updater = none) :
    MSTDP_forward_cell O self signal scale cells name cell state monitors = .ok cell := by
  rw [mstdp_cells_guard]
  rcases h with h | h | h | h
  · simp [h]
  all_goals (unfold MSTDP_forward_cell; cases selected cells name <;> simp [h, pure, Except.pure])

/-- the model's `(pos, neg)` of `MSTDP.forward` for either kind of signal -/
noncomputable def mstdpParts (c : Cfg) (r : Red) (k : ℕ) (bt : List (List Syn)) (signal : Sig ℝ) (scale : ℝ) (t : ℕ) : Parts ℝ :=
  match signal with
  | .scalar s => mstdpScalar c r k bt s scale t
  | .tensor sig => mstdpTensor c r k bt sig scale t

/-- a tensor signal has one entry per batch sample -/
def SigFits (signal : Sig ℝ) (bt : List (List Syn)) : Prop :=
  match signal with
  | .scalar _ => True
  | .tensor sig => sig.length = bt.length

/-- **`MSTDP.forward`, one unit, either kind of signal** -/
theorem gen_mstdp_forward_cell (O : TorchOps ο ℝ) (self : Trainer ο σ ℝ (StateS ℝ)) (name : String)
    (signal : Sig ℝ) (scale : ℝ) (cells : Option (List String))
    (c : Cfg) (r : Red) (k t : ℕ) (bt : List (List Syn)) (hsig : SigFits signal bt)
    (cell : CellS ο σ ℝ) (state : StateS ℝ) (monitors : Monitors ο σ ℝ)
    (h : StdpView O c r k t bt cell state monitors) (hsel : selected cells name = true)
    (hcell : cell.training = true) (hself : self.training = true) (u : UpdLog ℝ) (hu : cell.updater = some u) :
    MSTDP_forward_cell O self signal scale cells name cell state monitors
      = .ok { cell with updater := some (u ++ [("weight", mstdpParts c r k bt signal scale t)]) } := by
  cases signal with
  | scalar s => exact gen_mstdp_forward_cell_scalar O self name s scale cells c r k t bt cell state monitors h hsel hcell hself u hu
  | tensor sig =>
    exact gen_mstdp_forward_cell_tensor O self name sig scale cells c r k t bt hsig cell state monitors h hsel hcell hself u hu

/-- **`MSTDP.forward`, the loop**: every selected unit whose cell trains and has an updater receives the model's parts
of its own configuration; all other units are untouched. -/
theorem gen_mstdp_forward (O : TorchOps ο ℝ) (self : Trainer ο σ ℝ (StateS ℝ)) (signal : Sig ℝ) (scale : ℝ)
    (cells : Option (List String)) (t : ℕ) (hself : self.training = true)
    (M : String × TUnit ο σ ℝ (StateS ℝ) → Cfg × Red × ℕ × List (List Syn))
    (hview : ∀ nu ∈ self.cells_, selected cells nu.1 = true → nu.2.cell.training = true →
      nu.2.cell.updater.isSome = true →
      SigFits signal (M nu).2.2.2 ∧
      StdpView O (M nu).1 (M nu).2.1 (M nu).2.2.1 t (M nu).2.2.2 nu.2.cell nu.2.state nu.2.monitors) :
    MSTDP_forward O self signal scale cells = .ok (withUnits self fun nu =>
      handedSel cells nu (mstdpParts (M nu).1 (M nu).2.1 (M nu).2.2.1 (M nu).2.2.2 signal scale t), ()) := by
  unfold MSTDP_forward
  rw [for_units_ok self _ (fun nu =>
    handedSel cells nu (mstdpParts (M nu).1 (M nu).2.1 (M nu).2.2.1 (M nu).2.2.2 signal scale t))]
  · rfl
  · intro nu hnu
    unfold handedSel
    cases hs : selected cells nu.1
    · simpa using gen_mstdp_forward_cell_skip O self nu.1 signal scale cells nu.2.cell nu.2.state nu.2.monitors (Or.inl hs)
    · unfold handed
      cases htr : nu.2.cell.training
      · simpa using gen_mstdp_forward_cell_skip O self nu.1 signal scale cells nu.2.cell nu.2.state nu.2.monitors
          (Or.inr (Or.inl htr))
      · cases hu : nu.2.cell.updater with
        | none =>
          simpa using gen_mstdp_forward_cell_skip O self nu.1 signal scale cells nu.2.cell nu.2.state nu.2.monitors
            (Or.inr (Or.inr (Or.inr hu)))
        | some u =>
          obtain ⟨hf, hv⟩ := hview nu hnu hs htr (by simp [hu])
          simpa using gen_mstdp_forward_cell O self nu.1 signal scale cells _ _ _ t _ hf nu.2.cell nu.2.state
            nu.2.monitors hv hs htr hself u hu

end MSTDP

/-! ## `MSTDPET.forward` -/
section MSTDPET
variable {ο σ : Type}

/-- the unit's eligibility monitors (already shaped like the batched weights) show the model's `zPost` / `zPre` at step `t` -/
structure MstdpetView (O : TorchOps ο ℝ) (c : Cfg) (tcz : ℝ) (r : Red) (k t : ℕ) (bt : List (List Syn))
    (cell : CellS ο σ ℝ) (state : StateS ℝ) (monitors : Monitors ο σ ℝ) : Prop where
  lr_post : state.lr_post = c.lrPost
  lr_pre : state.lr_pre = c.lrPre
  batchreduce : state.batchreduce = reduce r
  elig_post : ∃ m o, getItem monitors "elig_post" = .ok m ∧ m.peek = some o ∧
    O.batched o = bt.map fun f => zPost c tcz k f t
  elig_pre : ∃ m o, getItem monitors "elig_pre" = .ok m ∧ m.peek = some o ∧
    O.batched o = bt.map fun f => zPre c tcz k f t

/-- the first `continue` guard of `MSTDPET.forward` (as `mstdp_cells_guard`) -/
theorem mstdpet_cells_guard (O : TorchOps ο ℝ) (self : Trainer ο σ ℝ (StateS ℝ)) (name : String)
    (signal : Sig ℝ) (scale : ℝ) (cells : Option (List String))
    (cell : CellS ο σ ℝ) (state : StateS ℝ) (monitors : Monitors ο σ ℝ) :
    MSTDPET_forward_cell O self signal scale cells name cell state monitors
      = if selected cells name then MSTDPET_forward_cell O self signal scale none name cell state monitors
        else .ok cell := by
  cases cells with
  | none => simp [selected]
  | some l =>
    unfold MSTDPET_forward_cell
    cases h : l.contains name <;> simp_all [selected, pure, Except.pure]

/-- **`MSTDPET.forward`, scalar signal, one unit**: appends `("weight", mstdpetScalar c tcz r k bt signal scale t)` -/
theorem gen_mstdpet_forward_cell_scalar (O : TorchOps ο ℝ) (self : Trainer ο σ ℝ (StateS ℝ)) (name : String)
    (signal scale : ℝ) (cells : Option (List String))
    (c : Cfg) (tcz : ℝ) (r : Red) (k t : ℕ) (bt : List (List Syn))
    (cell : CellS ο σ ℝ) (state : StateS ℝ) (monitors : Monitors ο σ ℝ)
    (h : MstdpetView O c tcz r k t bt cell state monitors) (hsel : selected cells name = true)
    (hcell : cell.training = true) (hself : self.training = true) (u : UpdLog ℝ) (hu : cell.updater = some u) :
    MSTDPET_forward_cell O self (.scalar signal) scale cells name cell state monitors
      = .ok { cell with updater := some (u ++ [("weight", mstdpetScalar c tcz r k bt signal scale t)]) } := by
  obtain ⟨m1, o1, g1, p1, r1⟩ := h.elig_post
  obtain ⟨m2, o2, g2, p2, r2⟩ := h.elig_pre
  rw [mstdpet_cells_guard, hsel, if_pos rfl]
  unfold MSTDPET_forward_cell
  simp only [hcell, hself, hu, g1, g2, p1, p2, r1, r2, opt_batched, bind, Except.bind, pure, Except.pure,
    Bool.not_true, Option.isSome_some, Bool.or_false, Bool.false_eq_true, if_false, h.lr_post, h.lr_pre, h.batchreduce,
    absv_eq]
  by_cases ha : 0 ≤ c.lrPost * signal <;> by_cases hb : 0 ≤ c.lrPre * signal <;>
    simp [ha, hb, updater_set, mstdpetScalar, route, pure, Except.pure]

/-- **`MSTDPET.forward`, per-sample signal, one unit**: appends `("weight", mstdpetTensor c tcz r k bt sig scale t)` -/
theorem gen_mstdpet_forward_cell_tensor (O : TorchOps ο ℝ) (self : Trainer ο σ ℝ (StateS ℝ)) (name : String)
    (sig : List ℝ) (scale : ℝ) (cells : Option (List String))
    (c : Cfg) (tcz : ℝ) (r : Red) (k t : ℕ) (bt : List (List Syn)) (hsig : sig.length = bt.length)
    (cell : CellS ο σ ℝ) (state : StateS ℝ) (monitors : Monitors ο σ ℝ)
    (h : MstdpetView O c tcz r k t bt cell state monitors) (hsel : selected cells name = true)
    (hcell : cell.training = true) (hself : self.training = true) (u : UpdLog ℝ) (hu : cell.updater = some u) :
    MSTDPET_forward_cell O self (.tensor sig) scale cells name cell state monitors
      = .ok { cell with updater := some (u ++ [("weight", mstdpetTensor c tcz r k bt sig scale t)]) } := by
  obtain ⟨m1, o1, g1, p1, r1⟩ := h.elig_post
  obtain ⟨m2, o2, g2, p2, r2⟩ := h.elig_pre
  obtain ⟨dp, de, dpr, dpi, der, dei, e1, e2, e3, e4, e5, e6, hs⟩ :=
    signal_tail c.lrPost c.lrPre r sig scale (bt.map fun f => zPost c tcz k f t) (bt.map fun f => zPre c tcz k f t)
      (by simp [hsig]) (by simp [hsig])
  rw [mstdpet_cells_guard, hsel, if_pos rfl]
  unfold MSTDPET_forward_cell
  simp only [view_b1] at e1 e2
  simp only [hcell, hself, hu, g1, g2, p1, p2, r1, r2, opt_batched, view_b1_like, bind, Except.bind, pure, Except.pure,
    Bool.not_true, Option.isSome_some, Bool.or_false, Bool.false_eq_true, if_false, e1, e2, e3, e4, e5, e6,
    h.lr_post, h.lr_pre, h.batchreduce, mstdpetTensor, hs]
  by_cases ha : 0 ≤ c.lrPost <;> by_cases hb : 0 ≤ c.lrPre <;>
    simp [ha, hb, updater_set, routeT, redOpt, cat0, numel_bool, pure, Except.pure] <;>
    constructor <;> split <;> simp_all

/-- skipped units of `MSTDPET.forward`: name not among `cells`, cell / trainer not training, no updater -/
theorem gen_mstdpet_forward_cell_skip (O : TorchOps ο ℝ) (self : Trainer ο σ ℝ (StateS ℝ)) (name : String)
    (signal : Sig ℝ) (scale : ℝ) (cells : Option (List String))
    (cell : CellS ο σ ℝ) (state : StateS ℝ) (monitors : Monitors ο σ ℝ)
    (h : selected cells name = false ∨ cell.training = false ∨ self.training = false ∨ cell.updater = none) :
    MSTDPET_forward_cell O self signal scale cells name cell state monitors = .ok cell := by
  rw [mstdpet_cells_guard]
  rcases h with h | h | h | h
  · simp [h]
  all_goals (unfold MSTDPET_forward_cell; cases selected cells name <;> simp [h, pure, Except.pure])

/-- the model's `(pos, neg)` of `MSTDPET.forward` for either kind of signal -/
noncomputable def mstdpetParts (c : Cfg) (tcz : ℝ) (r : Red) (k : ℕ) (bt : List (List Syn)) (signal : Sig ℝ) (scale : ℝ) (t : ℕ) :
    Parts ℝ :=
  match signal with
  | .scalar s => mstdpetScalar c tcz r k bt s scale t
  | .tensor sig => mstdpetTensor c tcz r k bt sig scale t

/-- **`MSTDPET.forward`, one unit, either kind of signal** -/
theorem gen_mstdpet_forward_cell (O : TorchOps ο ℝ) (self : Trainer ο σ ℝ (StateS ℝ)) (name : String)
    (signal : Sig ℝ) (scale : ℝ) (cells : Option (List String))
    (c : Cfg) (tcz : ℝ) (r : Red) (k t : ℕ) (bt : List (List Syn)) (hsig : SigFits signal bt)
    (cell : CellS ο σ ℝ) (state : StateS ℝ) (monitors : Monitors ο σ ℝ)
    (h : MstdpetView O c tcz r k t bt cell state monitors) (hsel : selected cells name = true)
    (hcell : cell.training = true) (hself : self.training = true) (u : UpdLog ℝ) (hu : cell.updater = some u) :
    MSTDPET_forward_cell O self signal scale cells name cell state monitors
      = .ok { cell with updater := some (u ++ [("weight", mstdpetParts c tcz r k bt signal scale t)]) } := by
  cases signal with
  | scalar s =>
    exact gen_mstdpet_forward_cell_scalar O self name s scale cells c tcz r k t bt cell state monitors h hsel hcell hself u hu
  | tensor sig =>
    exact gen_mstdpet_forward_cell_tensor O self name sig scale cells c tcz r k t bt hsig cell state monitors h hsel hcell
      hself u hu

/-- **`MSTDPET.forward`, the loop** -/
theorem gen_mstdpet_forward (O : TorchOps ο ℝ) (self : Trainer ο σ ℝ (StateS ℝ)) (signal : Sig ℝ) (scale : ℝ)
    (cells : Option (List String)) (t : ℕ) (hself : self.training = true)
    (M : String × TUnit ο σ ℝ (StateS ℝ) → Cfg × ℝ × Red × ℕ × List (List Syn))
    (hview : ∀ nu ∈ self.cells_, selected cells nu.1 = true → nu.2.cell.training = true →
      nu.2.cell.updater.isSome = true →
      SigFits signal (M nu).2.2.2.2 ∧
      MstdpetView O (M nu).1 (M nu).2.1 (M nu).2.2.1 (M nu).2.2.2.1 t (M nu).2.2.2.2 nu.2.cell nu.2.state nu.2.monitors) :
    MSTDPET_forward O self signal scale cells = .ok (withUnits self fun nu =>
      handedSel cells nu
        (mstdpetParts (M nu).1 (M nu).2.1 (M nu).2.2.1 (M nu).2.2.2.1 (M nu).2.2.2.2 signal scale t), ()) := by
  unfold MSTDPET_forward
  rw [for_units_ok self _ (fun nu => handedSel cells nu
    (mstdpetParts (M nu).1 (M nu).2.1 (M nu).2.2.1 (M nu).2.2.2.1 (M nu).2.2.2.2 signal scale t))]
  · rfl
  · intro nu hnu
    unfold handedSel
    cases hs : selected cells nu.1
    · simpa using gen_mstdpet_forward_cell_skip O self nu.1 signal scale cells nu.2.cell nu.2.state nu.2.monitors (Or.inl hs)
    · unfold handed
      cases htr : nu.2.cell.training
      · simpa using gen_mstdpet_forward_cell_skip O self nu.1 signal scale cells nu.2.cell nu.2.state nu.2.monitors
          (Or.inr (Or.inl htr))
      · cases hu : nu.2.cell.updater with
        | none =>
          simpa using gen_mstdpet_forward_cell_skip O self nu.1 signal scale cells nu.2.cell nu.2.state nu.2.monitors
            (Or.inr (Or.inr (Or.inr hu)))
        | some u =>
          obtain ⟨hf, hv⟩ := hview nu hnu hs htr (by simp [hu])
          simpa using gen_mstdpet_forward_cell O self nu.1 signal scale cells _ _ _ _ t _ hf nu.2.cell nu.2.state
            nu.2.monitors hv hs htr hself u hu

end MSTDPET

/-! ## monitor wiring: `register_cell` and the `match state.tracemode:` of `_build_cell_state`

The regenerated `<Class>_register_cell` lists, in source order, what each `self.add_monitor(…)` call hands over.  Below:
the trace class each trace mode selects, the complete expected table per class in terms of the MODEL's configuration
(`Cfg` / `TCfg`: the amplitudes are `|lr|` of the OTHER side's rate, the time constants and the step time are the
configuration's, presynaptic monitors watch `synapse.spike` with duration `delayedby` in the delayed mode and
`connection.synspike` with duration `0` otherwise), and `specTrace`: the trace such a reducer specification describes IS
the trace the model's `xPost` / `xPre` / `yA` / `xA` / `yB` / `xB` are made of. -/
section Wiring

/-- `trace_mode` of the model's flag -/
def tracemodeOf (nearest : Bool) : String := if nearest then "nearest" else "cumulative"
/-- `state.tracecls.__name__` of the model's flag -/
def traceclsOf (nearest : Bool) : String := if nearest then "NearestTraceReducer" else "CumulativeTraceReducer"

/-- **trace mode → reducer class**, all four classes: `"cumulative"` selects `CumulativeTraceReducer`, `"nearest"`
`NearestTraceReducer`; the literal `"_"` raises; anything else leaves `state.tracecls` unset -/
theorem gen_tracecls (nearest : Bool) :
    STDP_tracecls (tracemodeOf nearest) = .ok (some (traceclsOf nearest)) ∧
    TripletSTDP_tracecls (tracemodeOf nearest) = .ok (some (traceclsOf nearest)) ∧
    MSTDP_tracecls (tracemodeOf nearest) = .ok (some (traceclsOf nearest)) ∧
    MSTDPET_tracecls (tracemodeOf nearest) = .ok (some (traceclsOf nearest)) := by
  cases nearest <;> exact ⟨rfl, rfl, rfl, rfl⟩

/-- the `case "_":` of these matches is a string literal, not a wildcard -/
theorem gen_tracecls_underscore :
    STDP_tracecls "_" = .error .RuntimeError ∧ STDP_tracecls "other" = .ok none := ⟨rfl, rfl⟩

/-- the trace a `.trace` specification describes on a spike train: `decay = exp(-dt/tc)` (the reducers' constructors),
class by name, `Model/STDP.lean :: spikeTrace` -/
noncomputable def specTrace (r : ReducerSpec ℝ) (s : ℕ → Bool) (t : ℕ) : ℝ :=
  match r with
  | .trace cls dt tc amp _ _ _ _ => spikeTrace (cls == "NearestTraceReducer") (decayOf dt tc) amp s t
  | _ => 0

/-- `specTrace` of a `.trace` specification, as a function of the step -/
theorem specTrace_trace (cls : String) (dt tc amp : ℝ) (tg : Bool) (dur : Option ℝ) (incl : Bool) (ip : Option Bool)
    (s : ℕ → Bool) :
    specTrace (.trace cls dt tc amp tg dur incl ip) s = spikeTrace (cls == "NearestTraceReducer") (decayOf dt tc) amp s := by
  funext t; rfl

/-- the class name decides the model's `nearest` flag -/
theorem traceclsOf_beq (nearest : Bool) : (traceclsOf nearest == "NearestTraceReducer") = nearest := by
  cases nearest <;> decide

/-- a `StateMonitor` entry with the `monitor_kwargs` of these trainers -/
def mon (name attr : String) (reducer : ReducerSpec ℝ) (tags : List (String × TagV ℝ)) : MonitorSpec ℝ :=
  { name, attr, multi := false, subattrs := [], reducer, as_prehook := false, train_update := true, eval_update := false,
    prepend := true, unique := false, tags }

/-- what `register_cell` reads, for a cell whose model configuration is `c` (`sd`: `state.delayed`) -/
noncomputable def regEnv (c : Cfg) (delayedby : Option ℝ) (sd : Bool) (tcz : ℝ) : RegEnv ℝ :=
  { dt := c.dt, delayedby, lr_post := c.lrPost, lr_pre := c.lrPre, tc_post := c.tcPost, tc_pre := c.tcPre,
    tc_eligibility := tcz, delayed := sd, tracemode := tracemodeOf c.nearest, tracecls := traceclsOf c.nearest }

/-- the four monitors of `STDP` / `MSTDP` in terms of the model's configuration -/
noncomputable def stdpWiring (c : Cfg) (delayedby : Option ℝ) (sd : Bool) : List (MonitorSpec ℝ) :=
  let delayed := sd && delayedby.isSome
  let src := if delayed then "synapse.spike" else "connection.synspike"
  let dur := if delayed then delayedby else some 0
  [ mon "trace_post" "neuron.spike" (.trace (traceclsOf c.nearest) c.dt c.tcPost (absT c.lrPre) true (some 0) true none)
      [("dt", .num c.dt), ("amp", .num (absT c.lrPre)), ("tc", .num c.tcPost), ("trace", .str (tracemodeOf c.nearest))],
    mon "spike_post" "neuron.spike" (.passthrough c.dt (some 0) true none) [("dt", .num c.dt)],
    mon "trace_pre" src (.trace (traceclsOf c.nearest) c.dt c.tcPre (absT c.lrPost) true dur true none)
      [("dt", .num c.dt), ("amp", .num (absT c.lrPost)), ("tc", .num c.tcPre), ("trace", .str (tracemodeOf c.nearest)),
       ("delayed", .flag delayed)],
    mon "spike_pre" src (.passthrough c.dt dur true none) [("dt", .num c.dt), ("delayed", .flag delayed)] ]

/-- **`STDP.register_cell`**: the regenerated wiring is the table above -/
theorem gen_stdp_register (c : Cfg) (delayedby : Option ℝ) (sd : Bool) (tcz : ℝ) :
    STDP_register_cell (regEnv c delayedby sd tcz) = .ok (stdpWiring c delayedby sd) := by
  simp [STDP_register_cell, stdpWiring, regEnv, mon, absv_eq, pure, Except.pure]

/-- **`MSTDP.register_cell`** wires exactly as `STDP.register_cell` -/
theorem gen_mstdp_register (c : Cfg) (delayedby : Option ℝ) (sd : Bool) (tcz : ℝ) :
    MSTDP_register_cell (regEnv c delayedby sd tcz) = .ok (stdpWiring c delayedby sd) := by
  simp [MSTDP_register_cell, stdpWiring, regEnv, mon, absv_eq, pure, Except.pure]

/-- the wiring's traces are the model's: `trace_post` is `xPost`; `trace_pre` is the trace `xPre` views — of the delayed
train `connection.synspike` (`shift k pre`) in the frozen mode, of the raw train, `k` steps back, in the delayed mode -/
theorem stdp_wiring_traces (c : Cfg) (delayedby : Option ℝ) (sd : Bool) (pre post : ℕ → Bool) (k t : ℕ) :
    (∀ e ∈ stdpWiring c delayedby sd, e.name = "trace_post" → specTrace e.reducer post t = xPost c post t) ∧
    (∀ e ∈ stdpWiring c delayedby sd, e.name = "trace_pre" →
      xPre c pre k t = if c.delayed then viewBack (c.D + 1) (specTrace e.reducer pre) t k
        else specTrace e.reducer (shift k pre) t) := by
  simp [stdpWiring, mon, specTrace_trace, traceclsOf_beq, xPost, xPre]

/-- the six monitors of `MSTDPET`: no delayed mode; the eligibility monitors are unpooled `MultiStateMonitor`s on
`trace_pre.latest × spike_post.latest` (reshaped pre × post) and `trace_post.latest × spike_pre.latest` (post × pre) — the
operand order of `zPost = fold(dpostB)`, `zPre = fold(dpreB)` — and are registered AFTER the monitors they read (`prepend := false`) -/
noncomputable def mstdpetWiring (c : Cfg) (tcz : ℝ) : List (MonitorSpec ℝ) :=
  [ mon "trace_post" "neuron.spike" (.trace (traceclsOf c.nearest) c.dt c.tcPost (absT c.lrPre) true (some 0) true none)
      [("dt", .num c.dt), ("amp", .num (absT c.lrPre)), ("tc", .num c.tcPost), ("trace", .str (tracemodeOf c.nearest))],
    mon "spike_post" "neuron.spike" (.passthrough c.dt (some 0) true none) [("dt", .num c.dt)],
    mon "trace_pre" "connection.synspike" (.trace (traceclsOf c.nearest) c.dt c.tcPre (absT c.lrPost) true (some 0) true none)
      [("dt", .num c.dt), ("amp", .num (absT c.lrPost)), ("tc", .num c.tcPre), ("trace", .str (tracemodeOf c.nearest))],
    mon "spike_pre" "connection.synspike" (.passthrough c.dt (some 0) true none) [("dt", .num c.dt)],
    { mon "elig_post" "monitors" (.eligibility c.dt tcz "presyn_receptive" "postsyn_receptive" (some 0) true) [] with
      multi := true, subattrs := ["trace_pre.latest", "spike_post.latest"], prepend := false, unique := true },
    { mon "elig_pre" "monitors" (.eligibility c.dt tcz "postsyn_receptive" "presyn_receptive" (some 0) true) [] with
      multi := true, subattrs := ["trace_post.latest", "spike_pre.latest"], prepend := false, unique := true } ]

/-- **`MSTDPET.register_cell`** -/
theorem gen_mstdpet_register (c : Cfg) (delayedby : Option ℝ) (sd : Bool) (tcz : ℝ) :
    MSTDPET_register_cell (regEnv c delayedby sd tcz) = .ok (mstdpetWiring c tcz) := by
  simp [MSTDPET_register_cell, mstdpetWiring, regEnv, mon, absv_eq, pure, Except.pure]

/-- what `TripletSTDP.register_cell` reads; the state stores `abs(lr_x_triplet)` -/
noncomputable def tregEnv (c : TCfg) (delayedby : Option ℝ) (sd inplace : Bool) : TRegEnv ℝ :=
  { dt := c.dt, delayedby, lr_post_pair := c.aPost, lr_post_triplet := absT c.bPost, lr_pre_pair := c.aPre,
    lr_pre_triplet := absT c.bPre, tc_post_fast := c.tcPostFast, tc_post_slow := c.tcPostSlow,
    tc_pre_fast := c.tcPreFast, tc_pre_slow := c.tcPreSlow, delayed := sd, tracemode := tracemodeOf c.nearest,
    tracecls := traceclsOf c.nearest, inplace }

/-- the six monitors of `TripletSTDP`: fast traces with the pair rates' `|α|` of the other side, slow traces with
`|β/α|` of their own side and one more step of history (`2·dt`; `delayedby + dt` in the delayed mode) -/
noncomputable def tripletWiring (c : TCfg) (delayedby : Option ℝ) (sd inplace : Bool) : List (MonitorSpec ℝ) :=
  let delayed := sd && delayedby.isSome
  let src := if delayed then "synapse.spike" else "connection.synspike"
  let cls := traceclsOf c.nearest
  let mode := tracemodeOf c.nearest
  [ mon "trace_post_fast" "neuron.spike" (.trace cls c.dt c.tcPostFast (absT c.aPre) true (some c.dt) true (some inplace))
      [("dt", .num c.dt), ("amp", .num (absT c.aPre)), ("tc", .num c.tcPostFast), ("trace", .str mode), ("timing", .str "fast")],
    mon "trace_post_slow" "neuron.spike"
      (.trace cls c.dt c.tcPostSlow (slowAmp c.bPost c.aPost) true (some (2 * c.dt)) true (some inplace))
      [("dt", .num c.dt), ("amp", .num (slowAmp c.bPost c.aPost)), ("tc", .num c.tcPostSlow), ("trace", .str mode),
       ("timing", .str "slow")],
    mon "spike_post" "neuron.spike" (.passthrough c.dt (some 0) true (some inplace)) [("dt", .num c.dt)],
    mon "trace_pre_fast" src
      (.trace cls c.dt c.tcPreFast (absT c.aPost) true (if delayed then delayedby else some c.dt) true (some inplace))
      [("dt", .num c.dt), ("amp", .num (absT c.aPost)), ("tc", .num c.tcPreFast), ("trace", .str mode),
       ("delayed", .flag delayed), ("timing", .str "fast")],
    mon "trace_pre_slow" src
      (.trace cls c.dt c.tcPreSlow (slowAmp c.bPre c.aPre) true
        (if delayed then delayedby.map (· + c.dt) else some (2 * c.dt)) true (some inplace))
      [("dt", .num c.dt), ("amp", .num (slowAmp c.bPre c.aPre)), ("tc", .num c.tcPreSlow), ("trace", .str mode),
       ("delayed", .flag delayed), ("timing", .str "slow")],
    mon "spike_pre" src (.passthrough c.dt (if delayed then delayedby else some 0) true (some inplace))
      [("dt", .num c.dt), ("delayed", .flag delayed)] ]

/-- **`TripletSTDP.register_cell`** -/
theorem gen_triplet_register (c : TCfg) (delayedby : Option ℝ) (sd inplace : Bool) :
    TripletSTDP_register_cell (tregEnv c delayedby sd inplace) = .ok (tripletWiring c delayedby sd inplace) := by
  cases delayedby <;> cases sd <;>
    simp [TripletSTDP_register_cell, tripletWiring, tregEnv, mon, absv_eq, slowAmp, opt_add, bind, Except.bind, pure,
      Except.pure]

/-- the wiring's traces are the model's `yA`, `xA`, and the traces `yB`, `xB` read one step back -/
theorem triplet_wiring_traces (c : TCfg) (delayedby : Option ℝ) (sd inplace : Bool) (pre post : ℕ → Bool) (k t : ℕ) :
    (∀ e ∈ tripletWiring c delayedby sd inplace, e.name = "trace_post_fast" → specTrace e.reducer post t = yA c post t) ∧
    (∀ e ∈ tripletWiring c delayedby sd inplace, e.name = "trace_post_slow" →
      yB c post t = viewBack 3 (specTrace e.reducer post) t 1) ∧
    (∀ e ∈ tripletWiring c delayedby sd inplace, e.name = "trace_pre_fast" →
      xA c pre k t = if c.delayed then viewBack (c.D + 1) (specTrace e.reducer pre) t k
        else specTrace e.reducer (shift k pre) t) ∧
    (∀ e ∈ tripletWiring c delayedby sd inplace, e.name = "trace_pre_slow" →
      xB c pre k t = if c.delayed then viewBack (c.D + 2) (specTrace e.reducer pre) t (k + 1)
        else viewBack 3 (specTrace e.reducer (shift k pre)) t 1) := by
  simp [tripletWiring, mon, specTrace_trace, traceclsOf_beq, yA, yB, xA, xB]

end Wiring

/-! ## Non-vacuity: for EVERY model configuration, batch and step there is a world satisfying the `…View` hypotheses -/
section Examples

/-- observations that are already in receptive format; a float is true unless zero -/
noncomputable def exOps : TorchOps (Recv ℝ) ℝ :=
  { add_scalar := fun c x => x.map (·.map (c + ·)), mul := fun x y => List.zipWith (List.zipWith (· * ·)) x y,
    batched := fun x => x.map R.lsum, float_bool := fun x => decide (x ≠ 0) }

/-- a monitor whose reads all return `v` -/
def exMon (v : Recv ℝ) : Monitor (Recv ℝ) Unit ℝ :=
  { peek := some v, view := fun _ _ => some v, data_read := fun _ => .ok v, data_select := fun _ _ _ => .ok v }

/-- a training cell with an empty updater log on a connection with the identity reshapes and a delay of one -/
def exCell : CellS (Recv ℝ) Unit ℝ :=
  { training := true, connection := { presyn_receptive := id, postsyn_receptive := id, selector := (), delayedby := some 1 },
    updater := some [] }

example (c : Cfg) (r : Red) (k t : ℕ) (bt : List (List Syn)) :
    StdpView exOps c r k t bt exCell
      { lr_post := c.lrPost, lr_pre := c.lrPre, delayed := c.delayed, tolerance := 0, batchreduce := reduce r }
      [("trace_post", exMon (bt.map (·.map fun s => xPost c s.post t))),
       ("spike_post", exMon (bt.map (·.map fun s => ind (s.post t)))),
       ("trace_pre", exMon (bt.map (·.map fun s => xPre c s.pre k t))),
       ("spike_pre", exMon (bt.map (·.map fun s => iPre c s.pre k t)))] := by
  constructor <;> simp [exOps, exMon, exCell, getItem, List.lookup, truthy_optfloat, pure, Except.pure]

/-- … so `gen_stdp_forward_cell` applies and the log of that cell becomes `[("weight", stdpStep c r k bt t)]` -/
example (c : Cfg) (r : Red) (k t : ℕ) (bt : List (List Syn)) (self : Trainer (Recv ℝ) Unit ℝ (StateS ℝ))
    (hself : self.training = true) :
    STDP_forward_cell exOps self "c0" exCell
      { lr_post := c.lrPost, lr_pre := c.lrPre, delayed := c.delayed, tolerance := 0, batchreduce := reduce r }
      [("trace_post", exMon (bt.map (·.map fun s => xPost c s.post t))),
       ("spike_post", exMon (bt.map (·.map fun s => ind (s.post t)))),
       ("trace_pre", exMon (bt.map (·.map fun s => xPre c s.pre k t))),
       ("spike_pre", exMon (bt.map (·.map fun s => iPre c s.pre k t)))]
      = .ok { exCell with updater := some [("weight", stdpStep c r k bt t)] } := by
  refine gen_stdp_forward_cell exOps self "c0" c r k t bt _ _ _ ?_ rfl hself [] rfl
  constructor <;> simp [exOps, exMon, exCell, getItem, List.lookup, truthy_optfloat, pure, Except.pure]

example : Natural exOps (id : Recv ℝ → Recv ℝ) := ⟨fun _ _ => rfl, fun _ _ _ => rfl⟩

example (c : TCfg) (r : Red) (k t : ℕ) (bt : List (List Syn)) :
    TripletView exOps c r k t bt exCell
      { lr_post_pair := c.aPost, lr_pre_pair := c.aPre, delayed := c.delayed, tolerance := 0, batchreduce := reduce r }
      [("trace_post_fast", exMon (bt.map (·.map fun s => yA c s.post t))),
       ("trace_post_slow", exMon (bt.map (·.map fun s => yB c s.post t))),
       ("spike_post", exMon (bt.map (·.map fun s => ind (s.post t)))),
       ("trace_pre_fast", exMon (bt.map (·.map fun s => xA c s.pre k t))),
       ("trace_pre_slow", exMon (bt.map (·.map fun s => xB c s.pre k t))),
       ("spike_pre", exMon (bt.map (·.map fun s => iPreT c s.pre k t)))] := by
  constructor <;>
    first
      | exact ⟨fun _ _ => rfl, fun _ _ _ => rfl⟩
      | simp [exOps, exMon, exCell, getItem, List.lookup, truthy_optfloat, pure, Except.pure]

/-- eligibility observations with one receptive element per sample: `batched` (the row sum) returns the entry -/
example (c : Cfg) (tcz : ℝ) (r : Red) (k t : ℕ) (bt : List (List Syn)) :
    MstdpetView exOps c tcz r k t bt exCell
      { lr_post := c.lrPost, lr_pre := c.lrPre, delayed := false, tolerance := 0, batchreduce := reduce r }
      [("elig_post", exMon (bt.map fun f => [zPost c tcz k f t])),
       ("elig_pre", exMon (bt.map fun f => [zPre c tcz k f t]))] := by
  constructor <;> simp [exOps, exMon, getItem, List.lookup, pure, Except.pure, R.lsum]

/-- a tensor signal of the batch size fits -/
example (bt : List (List Syn)) : SigFits (.tensor (bt.map fun _ => (1 : ℝ))) bt := by simp [SigFits]

end Examples

end InfernoVerif.STDP.GlueProg
