import InfernoVerif.Gen.PersistProg
import InfernoVerif.Lemmas.Persist
/-!
# Glue: the persistence model IS the registration / extras / post-hook code of /repo's source

`Gen/PersistProg.lean` is regenerated on every run by `harness/progtx_persist.py` from the *whole bodies* of
`Module.__getattr__ / __setattr__ / __delattr__ / __init__ / register_extra / get_extra / get_extra_state /
set_extra_state`, `ShapedTensor.owner / name / attributes / __init__`, `RecordTensor.__init__ / __data / __pointer
(getter, setter) / create` (`inferno/core/infrastructure.py`), `MaxRateClassifier.assignments / occurrences /
proportions / rates (getter, setter) / nclass / __init__` and its nested load post-hook `sdhook`
(`inferno/learn/classifiers/simple.py`), and the load post-hook `sdhook` of `Accumulator.__init__`
(`inferno/neural/modeling.py`).  Python / torch primitives (`hasattr`, `getattr`, `setattr`, `register_buffer`,
`register_parameter`, `nn.Module.__setattr__`, `state_dict`, `load_state_dict`, …) are the functions of
`Gen/PersistPrelude.lean`; those that call back into `Module.__getattr__` / `__setattr__` receive the REGENERATED
method.  `Model/Persist.lean` (hand written; `Props/C12.lean` is about it) says, per component, WHICH entries are saved
(`save`) and what `load` does with them (`loadExtra`, the classifier's and the accumulator's post-load hooks).

What is proved here, against the regenerated programs:
* **extras** — `gen_getattr`, `gen_setattr_*`, `gen_delattr`: how attribute access is routed through `_extras`;
  `gen_register_extra_*`; `gen_get_extra_*`; `gen_get_extra_state`, `gen_set_extra_state`;
  `gen_extra_roundtrip` (+ `_model`, `gen_extra_restored`): `set_extra_state ∘ get_extra_state` is `dict.update`, i.e.
  the model's `loadExtra` key by key; `gen_load_extra_state(_missing)`: torch's `load_state_dict` reaches it;
* **registration** — `gen_shaped_init`, `gen_record_init`, `gen_record_create`: the module after the constructors, for
  ALL values of `persist_data / persist_constraints / persist_temporal` (`recOwner`, `gen_record_flags`);
  `gen_record_save`, `gen_record_save_fresh`: with the default flags the entries added to `state_dict()` are exactly
  the model's `ringSave name` of the constructed record `recState` (key set AND values), which satisfies the model
  invariant (`recState_wf`); `gen_pointer_setter / _getter / _saved`: the pointer the methods write through
  `setattr(owner, "_<name>_pointer", …)` is the `_extras` entry that is saved;
* **classifier** — `gen_classifier_init`, `gen_classifier_save` (saves exactly `rates_`, as `clfComp.save`; a fresh
  instance has `derived = derive rates`), `gen_classifier_rates_setter`, `gen_classifier_posthook` (the hook equals
  the model's recomputation `derived := derive rates`), `gen_setattr_rates` (why `module.rates = …` is the setter);
* **accumulator** — `gen_accumulator_posthook(_model)`: the hook is the model's `pc := none, nc := none`.

Abstractions / assumptions (not papered over):
* ONE module: children are not modelled (`Persist.Dict` is per module too); `get_submodule` is a parameter.
* tensors are `Store (List β)` (dtype class, full shape, row-major values); `tensOf` reads a stored tensor as the model's
  `Tens` (shape + slices along dimension 0, `rowsOf`); `sdDict` reads a `state_dict()` as the model's `Dict`, keeping
  of `_extra_state` only the int / bool entries (`XVal`): float / dict extras (`persist_temporal`,
  `persist_constraints`) exist on the program side only (`gen_record_flags`), the model has no such components.
* the registration theorems assume the new names are not attributes of the owner yet (`Absent`: no class attribute,
  no `__dict__` entry, no extra, parameter, buffer, submodule of that name, no dot, not `_extras`, not one of torch's
  own `__dict__` entries), that the owner is an inferno `Module` whose `Module.__init__` has run, and that a Parameter
  value is not `None`; a `RecordTensor` on a plain `nn.Module` owner (everything through `setattr`) is translated
  but no theorem is stated for it.
* `F.normalize / torch.argmax / torch.bincount / view(-1)` are abstract total functions returning plain tensors
  (`FOK`); the model's `derive` is any function they compute (`hder`).
* `Accumulator`'s state is the per-element `UpdProg.AccS` of C10's glue, the model's `Acc` holds whole tensors: the
  statement is about the two cache cells under any reading `f` of an element as a `Tens`.
* NOT proved: the composition "torch's `load_state_dict` (copy, `set_extra_state`, post hooks) on a module with
  tensors = the model's `ringLoad` / `clfComp.load`" — `nn_Module_load_state_dict` is vocabulary and only its extras
  path is exercised (`gen_load_extra_state`); `__setstate__`, `__dir__`, `ShapedTensor.create`, the `__data` setter.
A change to a body (a dropped `name not in self._extras`, `register_extra` replaced by `setattr`, `persistent=` lost,
`update` replaced by assignment, the hook recomputing from stale buffers, …) changes the generated text and the
corresponding theorem stops checking.
-/
set_option linter.unusedSimpArgs false
set_option linter.unusedVariables false
namespace InfernoVerif.Gen.PersistProg
open InfernoVerif.Ring InfernoVerif.Shaped InfernoVerif.Persist InfernoVerif.Gen.PersistPrelude

variable {β τ : Type}

/-! ## Python dictionaries -/
section dict
variable {κ ν : Type} [BEq κ] [LawfulBEq κ]

/-- replacing the value under `k` does not change what another key `k'` finds -/
theorem lookup_map_ne (d : List (κ × ν)) (k k' : κ) (v : ν) (h : (k' == k) = false) :
    List.lookup k' (d.map fun p => if p.1 == k then (p.1, v) else p) = List.lookup k' d := by
  induction d with
  | nil => rfl
  | cons p d ih =>
    obtain ⟨a, b⟩ := p
    by_cases hp : (a == k) = true
    · have hk : a = k := eq_of_beq hp
      subst hk
      simp [List.lookup_cons, ih, h]
    · simp [List.lookup_cons, hp, ih]

/-- replacing the value under a present key `k`: `k` now finds the new value -/
theorem lookup_map_self (d : List (κ × ν)) (k : κ) (v : ν) (h : (List.lookup k d).isSome) :
    List.lookup k (d.map fun p => if p.1 == k then (p.1, v) else p) = some v := by
  induction d with
  | nil => simp at h
  | cons p d ih =>
    obtain ⟨a, b⟩ := p
    by_cases hp : (a == k) = true
    · have hk : a = k := eq_of_beq hp
      subst hk
      simp [List.lookup_cons]
    · have hk : (k == a) = false := by
        rw [Bool.eq_false_iff]; intro h'; exact hp (by rw [eq_of_beq h']; exact beq_self_eq_true _)
      simp only [List.lookup_cons, hk] at h
      simp [List.lookup_cons, hp, hk, ih h]

/-- `d[k] = v; d[k]` is `v` -/
theorem lookup_dset_self (d : List (κ × ν)) (k : κ) (v : ν) : List.lookup k (dset d k v) = some v := by
  unfold dset dhas
  split
  · rename_i h; exact lookup_map_self d k v h
  · rename_i h
    simp only [Bool.not_eq_true, Option.isSome_eq_false_iff, Option.isNone_iff_eq_none] at h
    simp [List.lookup_append, h, List.lookup_cons]

/-- `d[k] = v` does not change `d[k']` for another key `k'` -/
theorem lookup_dset_ne (d : List (κ × ν)) (k k' : κ) (v : ν) (h : (k' == k) = false) :
    List.lookup k' (dset d k v) = List.lookup k' d := by
  unfold dset
  split
  · exact lookup_map_ne d k k' v h
  · simp [List.lookup_append, List.lookup_cons, h]

/-- `d.update(e)`: a key of `e` (unique keys) finds `e`'s value, any other key what `d` had -/
theorem lookup_dupdate (d e : List (κ × ν)) (k : κ) (hn : (e.map Prod.fst).Nodup) :
    List.lookup k (dupdate d e) = (List.lookup k e).or (List.lookup k d) := by
  unfold dupdate
  induction e generalizing d with
  | nil => simp
  | cons p e ih =>
    obtain ⟨a, b⟩ := p
    simp only [List.map_cons, List.nodup_cons] at hn
    simp only [List.foldl_cons, List.lookup_cons]
    rw [ih _ hn.2]
    by_cases hk : (k == a) = true
    · have : k = a := eq_of_beq hk
      subst this
      have hne : List.lookup k e = none := by
        rw [List.lookup_eq_none_iff]
        intro q hq
        simp only [bne_iff_ne, ne_eq]
        intro hq'
        exact hn.1 (by rw [List.mem_map]; exact ⟨q, hq, hq'.symm⟩)
      simp [hne, lookup_dset_self]
    · simp only [Bool.not_eq_true] at hk
      simp [hk, lookup_dset_ne _ _ _ _ hk]
end dict

/-! ## class `Module`: the `_extras` routing -/

/-- a plain primitive's result as a method result in state `m` -/
def liftR {ρ : Type} (m : Mod β τ) : Except Err ρ → Prog (Mod β τ) ρ
  | .ok v => .ok (m, v)
  | .error e => .error (e, m)

/-- `k in d` is `d.lookup k` being present -/
theorem dhas_iff {κ ν : Type} [BEq κ] (d : List (κ × ν)) (k : κ) : dhas d k = (List.lookup k d).isSome := rfl

/-- **`Module.__getattr__`**: an entry of `_extras` if `_extras` exists and has the name, else whatever
`nn.Module.__getattr__` finds (parameter, buffer, submodule, or `AttributeError`); the module is never changed -/
theorem gen_getattr (P : PyEnv β τ) (m : Mod β τ) (name : String) :
    Module___getattr__ P m name =
      match m.extras.bind (fun e => e.lookup name) with
      | some v => .ok (m, v)
      | none => liftR m (nn_Module___getattr__ m name) := by
  unfold Module___getattr__
  cases he : m.extras with
  | none =>
    simp only [dict_contains_extras, he, Option.isSome_none, Bool.false_eq_true, ↓reduceIte, Option.bind_none]
    cases nn_Module___getattr__ m name <;> rfl
  | some e =>
    simp only [dict_contains_extras, he, Option.isSome_some, ↓reduceIte, dict_getitem_extras, raising, bind,
      Except.bind, Option.bind_some]
    cases hl : List.lookup name e with
    | none =>
      have hk : dhas e name = false := by rw [dhas_iff, hl]; rfl
      simp only [hk, Bool.false_eq_true, ↓reduceIte]
      cases nn_Module___getattr__ m name <;> rfl
    | some v =>
      have hk : dhas e name = true := by rw [dhas_iff, hl]; rfl
      simp [hk, dict_getitem, hl, pure, Except.pure]

/-- **`get_extra_state`** returns the `_extras` dictionary itself (`AttributeError` before `Module.__init__`) -/
theorem gen_get_extra_state (P : PyEnv β τ) (m : Mod β τ) :
    Module_get_extra_state P m = liftR m (attr_extras m) := by
  unfold Module_get_extra_state
  cases h : attr_extras m <;> rfl

/-- **`set_extra_state(state)`** is `_extras.update(state)`: nothing else of the module changes -/
theorem gen_set_extra_state (P : PyEnv β τ) (m : Mod β τ) (state : XDict β τ) :
    Module_set_extra_state P m state =
      match m.extras with
      | some e => .ok ({ m with extras := some (dupdate e state) }, ())
      | none => .error (.AttributeError, m) := by
  unfold Module_set_extra_state attr_extras
  cases h : m.extras <;> rfl

/-- **`Module.__setattr__`, descriptor branch**: a name that the class defines as a property with a setter is handed to
that setter (`descriptor.__set__(self, value)`), whatever `_extras` holds -/
theorem gen_setattr_property (P : PyEnv β τ) (m : Mod β τ) (name : String) (value : PyVal β τ)
    (hp : m.cls.lookup name = some (.property true)) :
    Module___setattr__ P m name value = P.fset name m value := by
  unfold Module___setattr__
  simp only [type_getattr, hp, isinstance_property, Bool.true_or, ↓reduceIte, descriptor___set__, bind, Except.bind]
  cases P.fset name m value with
  | error e => rfl
  | ok r => rfl

/-- **`Module.__setattr__`, extras branch**: a name that is no descriptor of the class and IS a key of `_extras` updates
that entry — and nothing else (no `__dict__` entry, no buffer): the value `state_dict()` saves is the one assigned -/
theorem gen_setattr_extra (P : PyEnv β τ) (m : Mod β τ) (name : String) (value : PyVal β τ) (e : XDict β τ)
    (hc : m.cls.lookup name = none ∨ m.cls.lookup name = some .plain) (he : m.extras = some e)
    (hk : dhas e name = true) :
    Module___setattr__ P m name value = .ok ({ m with extras := some (dset e name value) }, ()) := by
  unfold Module___setattr__
  rcases hc with hc | hc <;>
    simp [type_getattr, hc, isinstance_property, hasattr___get__, hasattr___set__, hasattr___delete__, dict_get_extras,
      he, hk, pure, Except.pure]

/-- **`Module.__setattr__`, fall-through**: a name that is neither a descriptor of the class nor a key of `_extras` goes
to `nn.Module.__setattr__` (parameters / modules / buffers / `__dict__`) -/
theorem gen_setattr_other (P : PyEnv β τ) (m : Mod β τ) (name : String) (value : PyVal β τ)
    (hc : m.cls.lookup name = none ∨ m.cls.lookup name = some .plain)
    (hk : ∀ e, m.extras = some e → dhas e name = false) :
    Module___setattr__ P m name value = nn_Module___setattr__ (Module___getattr__ P) P m name value := by
  unfold Module___setattr__
  have tail : ∀ r : Except (Err × Mod β τ) (Mod β τ × Unit), (r >>= fun r2_ => pure (r2_.1, ())) = r := by
    intro r; cases r <;> rfl
  cases he : m.extras with
  | none =>
    rcases hc with hc | hc <;>
      simp only [type_getattr, hc, isinstance_property, hasattr___get__, hasattr___set__, hasattr___delete__,
        dict_get_extras, he, Bool.or_self, Bool.false_eq_true, ↓reduceIte] <;> exact tail _
  | some e =>
    have := hk e he
    rcases hc with hc | hc <;>
      simp only [type_getattr, hc, isinstance_property, hasattr___get__, hasattr___set__, hasattr___delete__,
        dict_get_extras, he, this, Bool.or_self, Bool.false_eq_true, ↓reduceIte] <;> exact tail _

/-- **`Module.__setattr__`** on a name the class defines as a method (a function has `__get__` but no `__set__`) or as a
property without setter: `AttributeError`, nothing changes -/
theorem gen_setattr_method (P : PyEnv β τ) (m : Mod β τ) (name : String) (value : PyVal β τ)
    (hc : m.cls.lookup name = some .method ∨ m.cls.lookup name = some (.property false)) :
    Module___setattr__ P m name value = .error (.AttributeError, m) := by
  unfold Module___setattr__
  rcases hc with hc | hc <;>
    simp [type_getattr, hc, isinstance_property, hasattr___get__, hasattr___set__, hasattr___delete__,
      descriptor___set__, bind, Except.bind]

/-- **`Module.__delattr__`**: a key of `_extras` is deleted from `_extras`; any other name goes to `nn.Module.__delattr__` -/
theorem gen_delattr (P : PyEnv β τ) (m : Mod β τ) (name : String) :
    Module___delattr__ P m name =
      match m.extras with
      | none => .error (.AttributeError, m)
      | some e =>
        if dhas e name then .ok ({ m with extras := some (ddel e name) }, ())
        else match nn_Module___delattr__ m name with
          | .ok m' => .ok (m', ())
          | .error er => .error (er, m) := by
  unfold Module___delattr__ attr_extras
  cases he : m.extras with
  | none => rfl
  | some e =>
    simp only [raising, bind, Except.bind]
    by_cases hk : dhas e name = true
    · simp [hk, pure, Except.pure]
    · simp only [hk, Bool.false_eq_true, ↓reduceIte]
      cases nn_Module___delattr__ m name <;> rfl


/-- attribute lookup of a name that is an extra (and nothing the class or the instance dictionary defines) -/
theorem getattr_extra (P : PyEnv β τ) (m : Mod β τ) (k : String) (e : XDict β τ) (v : PyVal β τ)
    (hc : m.cls.lookup k = none) (hd : m.dict.lookup k = none) (hne : (k == "_extras") = false)
    (hnt : ¬ k ∈ torchInternals) (hinf : m.inferno = true) (hex : m.extras = some e) (hv : List.lookup k e = some v) :
    py_getattr (Module___getattr__ P) P m k = .ok v := by
  have h1 : object___getattribute__ P m k = .error .AttributeError := by
    simp [object___getattribute__, hc, instanceDict, hne, hnt, hd]
  simp [py_getattr, h1, hinf, gen_getattr, hex, hv]

/-- `get_extra(target)`: with `sub` the submodule the path part of `target` resolves to, an extra of `sub` is returned -/
theorem gen_get_extra_ok (P : PyEnv β τ) (m sub : Mod β τ) (target : String) (e : XDict β τ) (v : PyVal β τ)
    (hs : P.get_submodule m (str_rpartition_dot target).1 = .ok sub)
    (hc : sub.cls.lookup (str_rpartition_dot target).2.2 = none)
    (hd : sub.dict.lookup (str_rpartition_dot target).2.2 = none)
    (hne : ((str_rpartition_dot target).2.2 == "_extras") = false)
    (hnt : ¬ (str_rpartition_dot target).2.2 ∈ torchInternals) (hinf : sub.inferno = true)
    (hex : sub.extras = some e) (hv : List.lookup (str_rpartition_dot target).2.2 e = some v) :
    Module_get_extra P m target = .ok (m, v) := by
  have hg := getattr_extra P sub _ e v hc hd hne hnt hinf hex hv
  have hk : dhas e (str_rpartition_dot target).2.2 = true := by rw [dhas_iff, hv]; rfl
  unfold Module_get_extra
  simp [hs, raising, bind, Except.bind, isinstance_Module, hinf, py_hasattr, hg, attr_extras, hex, hk, pure,
    Except.pure]

/-- … and a name that is NOT among the extras of `sub` is an `AttributeError` whatever else it is (a buffer, a
parameter, a plain attribute); the module is left as it was -/
theorem gen_get_extra_not_extra (P : PyEnv β τ) (m sub : Mod β τ) (target : String) (e : XDict β τ)
    (hs : P.get_submodule m (str_rpartition_dot target).1 = .ok sub) (hex : sub.extras = some e)
    (hk : dhas e (str_rpartition_dot target).2.2 = false) :
    ∃ er, Module_get_extra P m target = .error (er, m) := by
  unfold Module_get_extra
  simp only [hs, raising, bind, Except.bind, isinstance_Module]
  by_cases hi : sub.inferno = true
  · simp only [hi, Bool.not_true, Bool.false_eq_true, ↓reduceIte]
    cases hh : py_hasattr (Module___getattr__ P) P sub (str_rpartition_dot target).2.2 with
    | error er => exact ⟨_, rfl⟩
    | ok b =>
      cases b with
      | false => exact ⟨_, rfl⟩
      | true =>
        simp only [Bool.not_true, Bool.false_eq_true, ↓reduceIte]
        cases py_getattr (Module___getattr__ P) P sub (str_rpartition_dot target).2.2 with
        | error er => exact ⟨_, rfl⟩
        | ok v => simp [attr_extras, hex, hk, throw, throwThe, MonadExceptOf.throw]
  · simp only [Bool.not_eq_true] at hi
    simp only [hi, Bool.not_false, ↓reduceIte]
    exact ⟨_, rfl⟩

/-! ## names that are not yet attributes -/

/-- `k` names nothing in `m` and may be registered -/
structure Absent (m : Mod β τ) (k : String) : Prop where
  cls : m.cls.lookup k = none
  dict : m.dict.lookup k = none
  extras : ∀ e, m.extras = some e → List.lookup k e = none
  params : m.params.lookup k = none
  buffers : m.buffers.lookup k = none
  modules : m.modules.lookup k = none
  nonpersist : ¬ k ∈ m.nonpersist
  notExtras : (k == "_extras") = false
  notTorch : ¬ k ∈ torchInternals
  nodot : str_contains_dot k = false
  nonempty : (k == "") = false

/-- looking up a name that is nothing on the module: `AttributeError` -/
theorem getattr_absent (P : PyEnv β τ) (m : Mod β τ) (k : String) (h : Absent m k) :
    py_getattr (Module___getattr__ P) P m k = .error .AttributeError := by
  have h1 : object___getattribute__ P m k = .error .AttributeError := by
    simp [object___getattribute__, h.cls, instanceDict, h.notExtras, h.notTorch, h.dict]
  have h2 : nn_Module___getattr__ m k = .error .AttributeError := by
    unfold nn_Module___getattr__
    simp [h.params, h.buffers, h.modules]
  have h3 : Module___getattr__ P m k = .error (.AttributeError, m) := by
    rw [gen_getattr]
    cases he : m.extras with
    | none => simp [h2, liftR]
    | some e => simp [h.extras e he, h2, liftR]
  unfold py_getattr
  rw [h1]
  simp only [h3, h2]
  cases m.inferno <;> rfl

/-- `hasattr` of a name that is nothing on the module: `False` -/
theorem hasattr_absent (P : PyEnv β τ) (m : Mod β τ) (k : String) (h : Absent m k) :
    py_hasattr (Module___getattr__ P) P m k = .ok false := by
  unfold py_hasattr
  rw [getattr_absent P m k h]

/-- an absent key is not `in` the dictionary -/
theorem dhas_absent {ν : Type} (d : List (String × ν)) (k : String) (h : List.lookup k d = none) : dhas d k = false := by
  rw [dhas_iff, h]; rfl

/-- `register_buffer` of a name that is nothing on an initialised module succeeds -/
theorem register_buffer_absent (P : PyEnv β τ) (m : Mod β τ) (k : String) (t : TVal β) (p : Bool)
    (h : Absent m k) (hi : m.inited = true) :
    nn_Module_register_buffer (Module___getattr__ P) P m k t p =
      .ok { m with buffers := dset m.buffers k t,
                   nonpersist := if p then sdiscard m.nonpersist k else sadd m.nonpersist k } := by
  unfold nn_Module_register_buffer
  simp [hi, h.nodot, h.nonempty, hasattr_absent P m k h]

/-- `register_parameter` of a name that is nothing on an initialised module succeeds -/
theorem register_parameter_absent (P : PyEnv β τ) (m : Mod β τ) (k : String) (st : Store (List β))
    (h : Absent m k) (hi : m.inited = true) :
    nn_Module_register_parameter (Module___getattr__ P) P m k ⟨true, st⟩ =
      .ok { m with params := dset m.params k ⟨true, st⟩ } := by
  unfold nn_Module_register_parameter
  simp [hi, h.nodot, h.nonempty, hasattr_absent P m k h]

/-- deleting an absent key changes nothing -/
theorem ddel_absent {ν : Type} (d : List (String × ν)) (k : String) (h : List.lookup k d = none) : ddel d k = d := by
  unfold ddel
  rw [List.filter_eq_self]
  intro p hp
  rw [List.lookup_eq_none_iff] at h
  have := h p hp
  simp only [bne_iff_ne, ne_eq] at this
  simp only [Bool.not_eq_eq_eq_not, Bool.not_true, beq_eq_false_iff_ne, ne_eq]
  exact fun e => this e.symm

/-- discarding an absent element changes nothing -/
theorem sdiscard_absent (s : List String) (k : String) (h : ¬ k ∈ s) : sdiscard s k = s := by
  unfold sdiscard
  rw [List.filter_eq_self]
  intro a ha
  simp only [bne_iff_ne, ne_eq]
  intro e; exact h (e ▸ ha)

/-- a value that `nn.Module.__setattr__` stores in `__dict__` (not a Parameter, not a Module) -/
def isPlain : PyVal β τ → Bool
  | .tensor t => !t.param
  | .module => false
  | _ => true

/-- assigning a non-Parameter, non-Module value to a name that is nothing on the module creates a `__dict__` entry -/
theorem setattr_absent_plain (P : PyEnv β τ) (m : Mod β τ) (k : String) (v : PyVal β τ)
    (h : Absent m k) (hv : isPlain v = true) :
    Module___setattr__ P m k v = .ok ({ m with dict := dset m.dict k v }, ()) := by
  rw [gen_setattr_other P m k v (Or.inl h.cls) (fun e he => dhas_absent e k (h.extras e he))]
  have hp := dhas_absent _ k h.params
  have hb := dhas_absent _ k h.buffers
  have hm := dhas_absent _ k h.modules
  have ho : object___setattr__ P m k v = .ok ({ m with dict := dset m.dict k v }, ()) := by
    simp [object___setattr__, h.cls, h.notExtras]
  unfold nn_Module___setattr__
  cases v with
  | tensor t =>
    obtain ⟨b, st⟩ := t
    cases b
    · simp [hp, hb, hm, ho]
    · simp [isPlain] at hv
  | module => simp [isPlain] at hv
  | _ => simp [hp, hb, hm, ho]

/-- assigning a Parameter to a name that is nothing on the module registers it in `_parameters` -/
theorem setattr_absent_param (P : PyEnv β τ) (m : Mod β τ) (k : String) (st : Store (List β))
    (h : Absent m k) (hi : m.inited = true) :
    Module___setattr__ P m k (.tensor ⟨true, st⟩) = .ok ({ m with params := dset m.params k ⟨true, st⟩ }, ()) := by
  rw [gen_setattr_other P m k _ (Or.inl h.cls) (fun e he => dhas_absent e k (h.extras e he))]
  have hreg := register_parameter_absent P m k st h hi
  have hd : dictRemove m k = m := by
    simp [dictRemove, h.notExtras, ddel_absent _ k h.dict]
  obtain ⟨inf, cls, ini, dict, ex, pa, bu, np, mo, ph⟩ := m
  simp only at hi
  subst hi
  unfold nn_Module___setattr__
  simp only [Bool.not_true, Bool.false_eq_true, ↓reduceIte, hd, ddel_absent _ k h.buffers, ddel_absent _ k h.modules,
    sdiscard_absent _ k h.nonpersist, hreg]

/-- **`register_extra`, success**: a name without dot, not empty, that either is no attribute yet or already is an
extra, with a value that is neither a tensor nor a module, becomes / stays a key of `_extras` with that value -/
theorem gen_register_extra_ok (P : PyEnv β τ) (m : Mod β τ) (k : String) (v : PyVal β τ) (e : XDict β τ)
    (hdot : str_contains_dot k = false) (hne : (k == "") = false) (hb : Bool)
    (hh : py_hasattr (Module___getattr__ P) P m k = .ok hb) (he : m.extras = some e)
    (hx : hb = true → dhas e k = true) (hv : isinstance_Tensor_or_Module v = false) :
    Module_register_extra P m k v = .ok ({ m with extras := some (dset e k v) }, ()) := by
  unfold Module_register_extra
  have hne' : ¬ k = "" := by simpa using hne
  simp only [isinstance_str, Bool.not_true, Bool.false_eq_true, ↓reduceIte, hdot, hne', decide_false, hh, raising,
    bind, Except.bind, attr_extras, he]
  cases hb with
  | false => simp [hv, pure, Except.pure]
  | true => simp [hx rfl, hv, pure, Except.pure]

/-- `register_extra` of a name that is nothing on the module adds the extra -/
theorem register_extra_absent (P : PyEnv β τ) (m : Mod β τ) (k : String) (v : PyVal β τ) (e : XDict β τ)
    (h : Absent m k) (he : m.extras = some e) (hv : isinstance_Tensor_or_Module v = false) :
    Module_register_extra P m k v = .ok ({ m with extras := some (dset e k v) }, ()) :=
  gen_register_extra_ok P m k v e h.nodot h.nonempty false (hasattr_absent P m k h) he (by simp) hv

/-- **`register_extra`** refuses tensors and modules with `TypeError` (they belong to torch's dictionaries), leaving
the module as it was -/
theorem gen_register_extra_tensor (P : PyEnv β τ) (m : Mod β τ) (k : String) (v : PyVal β τ) (e : XDict β τ)
    (hdot : str_contains_dot k = false) (hne : (k == "") = false) (hb : Bool)
    (hh : py_hasattr (Module___getattr__ P) P m k = .ok hb) (he : m.extras = some e)
    (hx : hb = true → dhas e k = true) (hv : isinstance_Tensor_or_Module v = true) :
    Module_register_extra P m k v = .error (.TypeError, m) := by
  unfold Module_register_extra
  have hne' : ¬ k = "" := by simpa using hne
  simp only [isinstance_str, Bool.not_true, Bool.false_eq_true, ↓reduceIte, hdot, hne', decide_false, hh, raising,
    bind, Except.bind, attr_extras, he]
  cases hb with
  | false => simp [hv, throw, throwThe, MonadExceptOf.throw, pure, Except.pure]
  | true => simp [hx rfl, hv, throw, throwThe, MonadExceptOf.throw, pure, Except.pure]

/-- **`register_extra`** refuses a name that already is an attribute but not an extra with `KeyError` -/
theorem gen_register_extra_exists (P : PyEnv β τ) (m : Mod β τ) (k : String) (v : PyVal β τ) (e : XDict β τ)
    (hdot : str_contains_dot k = false) (hne : (k == "") = false)
    (hh : py_hasattr (Module___getattr__ P) P m k = .ok true) (he : m.extras = some e)
    (hx : dhas e k = false) :
    Module_register_extra P m k v = .error (.KeyError, m) := by
  unfold Module_register_extra
  have hne' : ¬ k = "" := by simpa using hne
  simp [isinstance_str, hdot, hne', hh, raising, bind, Except.bind, attr_extras, he, hx, throw, throwThe,
    MonadExceptOf.throw, pure, Except.pure]

/-- **`register_extra`** refuses a name with a dot and the empty name with `KeyError` -/
theorem gen_register_extra_badname (P : PyEnv β τ) (m : Mod β τ) (k : String) (v : PyVal β τ)
    (h : str_contains_dot k = true ∨ k = "") :
    Module_register_extra P m k v = .error (.KeyError, m) := by
  unfold Module_register_extra
  rcases h with h | h
  · simp [isinstance_str, h, throw, throwThe, MonadExceptOf.throw]
  · subst h
    simp [isinstance_str, throw, throwThe, MonadExceptOf.throw]


/-! ## registrations on names that are not yet attributes -/

/-- the data tensor registered under `k`: a Parameter goes to `_parameters`, anything else to `_buffers`
(`persistent=pd`) -/
def regData (m : Mod β τ) (k : String) (t : TVal β) (pd : Bool) : Mod β τ :=
  if t.param then { m with params := dset m.params k t }
  else { m with buffers := dset m.buffers k t, nonpersist := if pd then m.nonpersist else sadd m.nonpersist k }

/-- a non-tensor attribute registered under `k`: an extra when `persist`, else a plain attribute -/
def regAttr (m : Mod β τ) (persist : Bool) (k : String) (v : PyVal β τ) : Mod β τ :=
  if persist then { m with extras := m.extras.map fun e => dset e k v } else { m with dict := dset m.dict k v }

/-- registering the data tensor under `k` keeps another name `k'` absent -/
theorem absent_regData (m : Mod β τ) (k k' : String) (t : TVal β) (pd : Bool) (h : Absent m k') (hne : (k' == k) = false) :
    Absent (regData m k t pd) k' := by
  have hne' : k' ≠ k := by simpa using hne
  unfold regData
  split
  · exact { h with params := by simp [lookup_dset_ne _ _ _ _ hne, h.params] }
  · refine { h with buffers := by simp [lookup_dset_ne _ _ _ _ hne, h.buffers], nonpersist := ?_ }
    cases pd
    · simp only [Bool.false_eq_true, ↓reduceIte, sadd]
      split
      · exact h.nonpersist
      · simp [h.nonpersist, hne']
    · exact h.nonpersist

/-- registering an attribute under `k` keeps another name `k'` absent -/
theorem absent_regAttr (m : Mod β τ) (p : Bool) (k k' : String) (v : PyVal β τ) (h : Absent m k') (hne : (k' == k) = false) :
    Absent (regAttr m p k v) k' := by
  unfold regAttr
  split
  · refine { h with extras := ?_ }
    intro e he
    simp only [Option.map_eq_some_iff] at he
    obtain ⟨e0, he0, rfl⟩ := he
    rw [lookup_dset_ne _ _ _ _ hne]
    exact h.extras e0 he0
  · exact { h with dict := by simp [lookup_dset_ne _ _ _ _ hne, h.dict] }

/-- registering data does not change the class of the module -/
@[simp] theorem regData_inferno (m : Mod β τ) (k : String) (t : TVal β) (pd : Bool) : (regData m k t pd).inferno = m.inferno := by
  unfold regData; split <;> rfl
/-- registering data does not change whether `nn.Module.__init__` has run -/
@[simp] theorem regData_inited (m : Mod β τ) (k : String) (t : TVal β) (pd : Bool) : (regData m k t pd).inited = m.inited := by
  unfold regData; split <;> rfl
/-- registering data does not touch `_extras` -/
@[simp] theorem regData_extras (m : Mod β τ) (k : String) (t : TVal β) (pd : Bool) : (regData m k t pd).extras = m.extras := by
  unfold regData; split <;> rfl
/-- registering an attribute does not change the class of the module -/
@[simp] theorem regAttr_inferno (m : Mod β τ) (p : Bool) (k : String) (v : PyVal β τ) : (regAttr m p k v).inferno = m.inferno := by
  unfold regAttr; split <;> rfl
/-- registering an attribute does not change whether `nn.Module.__init__` has run -/
@[simp] theorem regAttr_inited (m : Mod β τ) (p : Bool) (k : String) (v : PyVal β τ) : (regAttr m p k v).inited = m.inited := by
  unfold regAttr; split <;> rfl
/-- the extras after registering an attribute -/
theorem regAttr_extras (m : Mod β τ) (p : Bool) (k : String) (v : PyVal β τ) (e : XDict β τ) (he : m.extras = some e) :
    (regAttr m p k v).extras = some (if p then dset e k v else e) := by
  unfold regAttr; cases p <;> simp [he]

/-- one registration step: `owner.register_buffer(k, t, persistent=pd)` for a non-Parameter `t` -/
theorem step_buffer (P : PyEnv β τ) (m : Mod β τ) (k : String) (t : TVal β) (pd : Bool)
    (h : Absent m k) (hi : m.inited = true) (ht : t.param = false) :
    nn_Module_register_buffer (Module___getattr__ P) P m k t pd = .ok (regData m k t pd) := by
  rw [register_buffer_absent P m k t pd h hi]
  simp [regData, ht, sdiscard_absent _ k h.nonpersist]

/-- one registration step: `setattr(owner, k, t)` for a Parameter `t` -/
theorem step_param (P : PyEnv β τ) (m : Mod β τ) (k : String) (t : TVal β) (pd : Bool)
    (h : Absent m k) (hi : m.inited = true) (hinf : m.inferno = true) (ht : t.param = true) (hn : t.isNone = false) :
    py_setattr (Module___setattr__ P) (Module___getattr__ P) P m k t.toPy = .ok (regData m k t pd, ()) := by
  obtain ⟨b, st⟩ := t
  simp only at ht
  subst ht
  have hpy : (TVal.toPy ⟨true, st⟩ : PyVal β τ) = .tensor ⟨true, st⟩ := by
    cases st <;> simp [TVal.toPy, TVal.isNone] at hn ⊢
  simp [py_setattr, hinf, hpy, setattr_absent_param P m k st h hi, regData]

/-- one registration step: `owner.register_extra(k, v)` -/
theorem step_extra (P : PyEnv β τ) (m : Mod β τ) (k : String) (v : PyVal β τ) (e : XDict β τ)
    (h : Absent m k) (he : m.extras = some e) (hv : isinstance_Tensor_or_Module v = false) :
    Module_register_extra P m k v = .ok (regAttr m true k v, ()) := by
  rw [register_extra_absent P m k v e h he hv]
  simp [regAttr, he]

/-- one registration step: `setattr(owner, k, v)` for a plain value -/
theorem step_attr (P : PyEnv β τ) (m : Mod β τ) (k : String) (v : PyVal β τ)
    (h : Absent m k) (hinf : m.inferno = true) (hv : isPlain v = true) :
    py_setattr (Module___setattr__ P) (Module___getattr__ P) P m k v = .ok (regAttr m false k v, ()) := by
  simp [py_setattr, hinf, setattr_absent_plain P m k v h hv, regAttr]


/-- names of the attributes a tensor attribute `name` adds to its owner -/
def consKey (name : String) : String := "_" ++ name ++ "_constraints"

/-- two attribute names `_<n><a>`, `_<n><b>` with different suffixes are different -/
theorem key_ne (n a b : String) (h : a ≠ b) : (("_" ++ n ++ a) == ("_" ++ n ++ b)) = false := by
  rw [beq_eq_false_iff_ne]
  intro e
  have := congrArg String.toList e
  simp only [String.toList_append, List.append_assoc, List.append_cancel_left_eq] at this
  exact h (String.toList_inj.mp this)

/-- **`ShapedTensor.__init__`** on an owner where `_<name>_data` and `_<name>_constraints` are not attributes yet (an
inferno `Module` after `Module.__init__`; `name` an identifier; the value ignored or compatible with the
constraints): the value is registered as a buffer with `persistent=persist_data` — or, being a Parameter, as a
parameter —, the constraints as an extra iff `persist_constraints`, else as a plain attribute; the object's
private fields are set -/
theorem gen_shaped_init (P : PyEnv β τ) (r : RObj β τ) (name : String) (value : TVal β) (cons : Option Cons)
    (pd pc strict live : Bool) (e : XDict β τ)
    (hid : P.isidentifier name = true)
    (hcompat : ShapedTensor__ignore_or_compatible value (dict_or_empty cons) strict = true)
    (hpar : value.param = true → value.isNone = false)
    (hinf : r.owner.inferno = true) (hini : r.owner.inited = true) (hex : r.owner.extras = some e)
    (hd : Absent r.owner (dataKey name)) (hc : Absent r.owner (consKey name)) :
    ShapedTensor___init__ P r name value cons pd pc strict live =
      .ok ({ r with owner := regAttr (regData r.owner (dataKey name) value pd) pc (consKey name)
                      (.cdict (dict_or_empty cons)),
                    stOwner := true, name := some name, strict := some strict, live := some live,
                    stAttrs := some ⟨dataKey name, consKey name⟩ }, ()) := by
  have hne : (consKey name == dataKey name) = false := key_ne name _ _ (by decide)
  have hc1 := absent_regData r.owner (dataKey name) (consKey name) value pd hc hne
  unfold ShapedTensor___init__
  simp only [dataKey, consKey] at hd hc hc1 ⊢
  simp only [argtest_identifier, hid, ↓reduceIte, raising, bind, Except.bind, hcompat, Bool.not_true, Bool.false_eq_true,
    attr_get, isinstance_nn_Module, Bool.true_and, isinstance_Parameter, onOwner, isinstance_Module, hinf, Bool.and_true]
  have hx := step_extra P _ _ (.cdict (dict_or_empty cons)) e hc1 (by simp [hex]) rfl
  have ha := step_attr P _ _ (.cdict (dict_or_empty cons)) hc1 (by simp [hinf]) rfl
  cases hp : value.param with
  | false =>
    simp only [Bool.not_false, ↓reduceIte, ownerPrim, step_buffer P r.owner _ value pd hd hini hp, pure, Except.pure]
    cases pc <;> simp [hx, ha, hinf]
  | true =>
    simp only [Bool.not_true, Bool.false_eq_true, ↓reduceIte, step_param P r.owner _ value pd hd hini hinf hp (hpar hp),
      pure, Except.pure]
    cases pc <;> simp [hx, ha, hinf]


/-- `_<name>_dt` -/
def dtKey (name : String) : String := "_" ++ name ++ "_dt"
/-- `_<name>_duration` -/
def durKey (name : String) : String := "_" ++ name ++ "_duration"
/-- `_<name>_inclusive` -/
def inclKey (name : String) : String := "_" ++ name ++ "_inclusive"

/-- `max(math.ceil(duration / step_time) + bool(inclusive), 1)` -/
def recSizeInt (P : PyEnv β τ) (dt dur : τ) (incl : Bool) : Int := max (P.T.ceilDiv dur dt + boolInt incl) 1

/-- `{(d + 1 if d >= 0 else d): s for d, s in (constraints if constraints else {}).items()} | {0: size}` -/
def shiftCons (cons : Option Cons) (size : Int) : Cons :=
  dupdate ((dict_or_empty cons).map fun ds_ => ((if decide (ds_.1 ≥ (0 : Int)) then ds_.1 + (1 : Int) else ds_.1), ds_.2))
    [((0 : Int), Int.toNat size)]

/-- registering an attribute keeps `_extras` present -/
@[simp] theorem regAttr_extras_isSome (m : Mod β τ) (p : Bool) (k : String) (v : PyVal β τ) :
    (regAttr m p k v).extras.isSome = m.extras.isSome := by
  unfold regAttr; cases p <;> cases m.extras <;> rfl

/-- `step_extra` with `_extras` merely known to exist -/
theorem step_extra' (P : PyEnv β τ) (m : Mod β τ) (k : String) (v : PyVal β τ)
    (h : Absent m k) (he : m.extras.isSome = true) (hv : isinstance_Tensor_or_Module v = false) :
    Module_register_extra P m k v = .ok (regAttr m true k v, ()) := by
  cases hx : m.extras with
  | none => simp [hx] at he
  | some e => exact step_extra P m k v e h hx hv

/-- `dict(c) if c else {}` of a dictionary is that dictionary -/
@[simp] theorem dict_or_empty_some (c : Cons) : dict_or_empty (some c) = c := rfl

/-- the Parameter branch (`value.data = value.data.unsqueeze(0).repeat(…)`) stores the same tensor the other branch binds -/
theorem setData_repeat (value : TVal β) (size : Int) :
    TVal.setData value (unsqueeze0_repeat (TVal.data value) size) = unsqueeze0_repeat value size := by
  obtain ⟨b, st⟩ := value
  cases st <;> rfl

/-- an ignored value is not repeated -/
theorem repeat_ignored (value : TVal β) (size : Int) (h : ShapedTensor__ignore value = true) :
    unsqueeze0_repeat value size = value := by
  obtain ⟨b, st⟩ := value
  cases st <;> simp [ShapedTensor__ignore] at h <;> rfl

/-- the owner after `RecordTensor.__init__` -/
def recOwner (m : Mod β τ) (name : String) (dt dur : τ) (incl : Bool) (value' : TVal β) (cons' : Cons)
    (pd pc pt : Bool) : Mod β τ :=
  regAttr (regAttr (regAttr (regAttr (regAttr (regData m (dataKey name) value' pd) pc (consKey name) (.cdict cons'))
    pt (dtKey name) (.float dt)) pt (durKey name) (.float dur)) pt (inclKey name) (.bool incl))
    true (ptrKey name) (.int 0)

/-- **`RecordTensor.__init__`** on an owner where none of the six names is an attribute yet: positive step time,
non-negative duration, record size `max(ceil(duration / step_time) + inclusive, 1)`, constraints shifted by one with
`0 ↦ recordsz`, the value repeated `recordsz` times along a new leading dimension (unless ignored), then the
registrations of `recOwner` — in particular the pointer is ALWAYS registered as the extra `_<name>_pointer = 0` -/
theorem gen_record_init (P : PyEnv β τ) (r : RObj β τ) (name : String) (dt dur : τ) (value : TVal β)
    (cons : Option Cons) (pd pc pt strict live incl : Bool) (e : XDict β τ)
    (hdt : P.T.pos dt = true) (hdur : P.T.nonneg dur = true) (hid : P.isidentifier name = true)
    (hcompat : ShapedTensor__ignore_or_compatible (unsqueeze0_repeat value (recSizeInt P dt dur incl))
        (shiftCons cons (recSizeInt P dt dur incl)) strict = true)
    (hpar : value.param = true → value.isNone = false)
    (hinf : r.owner.inferno = true) (hini : r.owner.inited = true) (hex : r.owner.extras = some e)
    (h1 : Absent r.owner (dataKey name)) (h2 : Absent r.owner (consKey name)) (h3 : Absent r.owner (dtKey name))
    (h4 : Absent r.owner (durKey name)) (h5 : Absent r.owner (inclKey name)) (h6 : Absent r.owner (ptrKey name)) :
    RecordTensor___init__ P r name dt dur value cons pd pc pt strict live incl =
      .ok ({ r with owner := recOwner r.owner name dt dur incl (unsqueeze0_repeat value (recSizeInt P dt dur incl))
                      (shiftCons cons (recSizeInt P dt dur incl)) pd pc pt,
                    stOwner := true, rtOwner := true, name := some name, strict := some strict, live := some live,
                    stAttrs := some ⟨dataKey name, consKey name⟩,
                    rtAttrs := some ⟨dataKey name, consKey name, dtKey name, durKey name, inclKey name, ptrKey name⟩ },
           ()) := by
  have hpar' : (unsqueeze0_repeat value (recSizeInt P dt dur incl)).param = true →
      (unsqueeze0_repeat value (recSizeInt P dt dur incl)).isNone = false := by
    obtain ⟨b, st⟩ := value
    cases st <;> simp [unsqueeze0_repeat, TVal.isNone] at hpar ⊢ <;> exact hpar
  have hsh := gen_shaped_init P r name (unsqueeze0_repeat value (recSizeInt P dt dur incl))
    (some (shiftCons cons (recSizeInt P dt dur incl))) pd pc strict live e hid hcompat hpar' hinf hini hex h1 h2
  -- absence of the remaining names at every stage
  have n31 : (dtKey name == dataKey name) = false := key_ne name _ _ (by decide)
  have n32 : (dtKey name == consKey name) = false := key_ne name _ _ (by decide)
  have n41 : (durKey name == dataKey name) = false := key_ne name _ _ (by decide)
  have n42 : (durKey name == consKey name) = false := key_ne name _ _ (by decide)
  have n43 : (durKey name == dtKey name) = false := key_ne name _ _ (by decide)
  have n51 : (inclKey name == dataKey name) = false := key_ne name _ _ (by decide)
  have n52 : (inclKey name == consKey name) = false := key_ne name _ _ (by decide)
  have n53 : (inclKey name == dtKey name) = false := key_ne name _ _ (by decide)
  have n54 : (inclKey name == durKey name) = false := key_ne name _ _ (by decide)
  have n61 : (ptrKey name == dataKey name) = false := key_ne name _ _ (by decide)
  have n62 : (ptrKey name == consKey name) = false := key_ne name _ _ (by decide)
  have n63 : (ptrKey name == dtKey name) = false := key_ne name _ _ (by decide)
  have n64 : (ptrKey name == durKey name) = false := key_ne name _ _ (by decide)
  have n65 : (ptrKey name == inclKey name) = false := key_ne name _ _ (by decide)
  have a3 := absent_regAttr _ pc _ _ (.cdict (shiftCons cons (recSizeInt P dt dur incl)))
    (absent_regData _ _ _ (unsqueeze0_repeat value (recSizeInt P dt dur incl)) pd h3 n31) n32
  have a4 := absent_regAttr _ pt _ _ (.float dt) (absent_regAttr _ pc _ _ (.cdict (shiftCons cons (recSizeInt P dt dur incl)))
    (absent_regData _ _ _ (unsqueeze0_repeat value (recSizeInt P dt dur incl)) pd h4 n41) n42) n43
  have a5 := absent_regAttr _ pt _ _ (.float dur) (absent_regAttr _ pt _ _ (.float dt)
    (absent_regAttr _ pc _ _ (.cdict (shiftCons cons (recSizeInt P dt dur incl)))
    (absent_regData _ _ _ (unsqueeze0_repeat value (recSizeInt P dt dur incl)) pd h5 n51) n52) n53) n54
  have a6 := absent_regAttr _ pt _ _ (.bool incl) (absent_regAttr _ pt _ _ (.float dur) (absent_regAttr _ pt _ _ (.float dt)
    (absent_regAttr _ pc _ _ (.cdict (shiftCons cons (recSizeInt P dt dur incl)))
    (absent_regData _ _ _ (unsqueeze0_repeat value (recSizeInt P dt dur incl)) pd h6 n61) n62) n63) n64) n65
  have hsome : r.owner.extras.isSome = true := by simp [hex]
  have hb : (if (!ShapedTensor__ignore value) = true then
        (if isinstance_Parameter value = true then
          Except.ok (r, value.setData (unsqueeze0_repeat value.data (recSizeInt P dt dur incl)))
        else Except.ok (r, unsqueeze0_repeat value (recSizeInt P dt dur incl)))
      else Except.ok (r, value) : Except (Err × RObj β τ) (RObj β τ × TVal β)) =
      .ok (r, unsqueeze0_repeat value (recSizeInt P dt dur incl)) := by
    by_cases hig : ShapedTensor__ignore value = true
    · simp [hig, repeat_ignored value _ hig, pure, Except.pure]
    · by_cases hp : isinstance_Parameter value = true <;> simp [hig, hp, setData_repeat, pure, Except.pure]
  unfold RecordTensor___init__
  simp only [recOwner, recSizeInt, shiftCons, dataKey, consKey, dtKey, durKey, inclKey, ptrKey, dict_or_empty_some] at hb hsh a3 a4 a5 a6 ⊢
  simp only [argtest_gt, hdt, argtest_gte, hdur, ↓reduceIte, raising, bind, Except.bind, hb, dict_or_empty_some, hsh,
    ShapedTensor_attributes, ShapedTensor_name, attr_get, pure, Except.pure, isinstance_Module, regAttr_inferno,
    regData_inferno, hinf, Bool.true_and, onOwner]
  have x6 := step_extra' P _ _ (.int 0) a6 (by simp [hsome]) rfl
  cases pt with
  | true =>
    have x3 := step_extra' P _ _ (.float dt) a3 (by simp [hsome]) rfl
    have x4 := step_extra' P _ _ (.float dur) a4 (by simp [hsome]) rfl
    have x5 := step_extra' P _ _ (.bool incl) a5 (by simp [hsome]) rfl
    simp only [x3, x4, x5, x6, hinf, regAttr_inferno, regData_inferno, Bool.false_eq_true, Bool.and_true, Bool.and_false, ↓reduceIte]
  | false =>
    have x3 := step_attr P _ _ (.float dt) a3 (by simp [hinf]) rfl
    have x4 := step_attr P _ _ (.float dur) a4 (by simp [hinf]) rfl
    have x5 := step_attr P _ _ (.bool incl) a5 (by simp [hinf]) rfl
    simp only [x3, x4, x5, x6, hinf, regAttr_inferno, regData_inferno, Bool.false_eq_true, Bool.and_true, Bool.and_false, ↓reduceIte]


/-! ## `get_extra_state` / `set_extra_state` -/

/-- mapping the values of a dictionary commutes with lookup -/
theorem lookup_mapVals {κ ν ω : Type} [BEq κ] (f : ν → ω) (d : List (κ × ν)) (k : κ) :
    List.lookup k (d.map fun p => (p.1, f p.2)) = (List.lookup k d).map f := by
  induction d with
  | nil => rfl
  | cons p d ih =>
    obtain ⟨a, b⟩ := p
    simp only [List.map_cons, List.lookup_cons]
    cases k == a <;> simp [ih]

/-- **gen_extra_roundtrip**: what `get_extra_state` of a module `s` returns, handed to `set_extra_state` of a module
`t` (this is what `load_state_dict(state_dict())` does with the `_extra_state` entry), leaves `t` with the extras
`dict.update` computes: every key of `s` has `s`'s value, every other key of `t` keeps `t`'s — nothing else of `t`
changes and nothing can raise (both modules have run `Module.__init__`). -/
theorem gen_extra_roundtrip (P : PyEnv β τ) (s t : Mod β τ) (es et : XDict β τ) (hs : s.extras = some es)
    (ht : t.extras = some et) (hn : (es.map Prod.fst).Nodup) :
    (do let r ← Module_get_extra_state P s; Module_set_extra_state P t r.2) =
        .ok ({ t with extras := some (dupdate et es) }, ()) ∧
      ∀ k, List.lookup k (dupdate et es) = (List.lookup k es).or (List.lookup k et) := by
  refine ⟨?_, fun k => lookup_dupdate et es k hn⟩
  simp [gen_get_extra_state, gen_set_extra_state, attr_extras, hs, liftR, bind, Except.bind, ht]

/-- … in the model's words: under ANY reading `f` of extras values as the model's `XVal`, looking a key up in the
restored extras is `Persist.loadExtra` (the saved entry if there is one, else the target's own). -/
theorem gen_extra_roundtrip_model (f : PyVal β τ → XVal) (es et : XDict β τ) (hn : (es.map Prod.fst).Nodup)
    (k : String) :
    List.lookup k ((dupdate et es).map fun p => (p.1, f p.2)) =
      loadExtra (et.map fun p => (p.1, f p.2)) (es.map fun p => (p.1, f p.2)) k := by
  rw [lookup_mapVals, lookup_dupdate et es k hn]
  unfold loadExtra
  rw [lookup_mapVals, lookup_mapVals]
  cases List.lookup k es <;> rfl

/-- … so a target with the same extras keys as the source ends up with exactly the source's extras -/
theorem gen_extra_restored (es et : XDict β τ) (hn : (es.map Prod.fst).Nodup)
    (hk : ∀ k, (List.lookup k et).isSome = true → (List.lookup k es).isSome = true) (k : String) :
    List.lookup k (dupdate et es) = List.lookup k es := by
  rw [lookup_dupdate et es k hn]
  cases h : List.lookup k es with
  | some v => rfl
  | none =>
    cases h2 : List.lookup k et with
    | none => rfl
    | some w => have := hk k (by simp [h2]); simp [h] at this

/-- `load_state_dict` (torch's vocabulary function) hands the `_extra_state` entry to the REGENERATED `set_extra_state`:
on a module without tensor entries and without post hooks, loading `{"_extra_state": xs}` is `_extras.update(xs)`
and reports no error … -/
theorem gen_load_extra_state (P : PyEnv β τ) (hook : String → Mod β τ → Prog (Mod β τ) Unit) (t : Mod β τ)
    (et xs : XDict β τ) (hinf : t.inferno = true) (hp : t.params = []) (hb : t.buffers = []) (hh : t.posthooks = [])
    (ht : t.extras = some et) :
    nn_Module_load_state_dict (Module_set_extra_state P) hook t [("_extra_state", .extra xs)] =
      .ok ({ t with extras := some (dupdate et xs) }, []) := by
  simp [nn_Module_load_state_dict, localState, hp, hb, hinf, gen_set_extra_state, ht, hh, dhas, List.lookup, pure,
    Except.pure]

/-- … and a state dictionary WITHOUT `_extra_state` is reported (`Missing key(s)`), the extras staying as they were -/
theorem gen_load_extra_state_missing (P : PyEnv β τ) (hook : String → Mod β τ → Prog (Mod β τ) Unit) (t : Mod β τ)
    (hinf : t.inferno = true) (hp : t.params = []) (hb : t.buffers = []) (hh : t.posthooks = []) :
    nn_Module_load_state_dict (Module_set_extra_state P) hook t [] =
      .ok (t, [LoadErr.missing "_extra_state"]) := by
  simp [nn_Module_load_state_dict, localState, hp, hb, hinf, hh, List.lookup, pure, Except.pure]

/-- `Module.__init__`: torch's dictionaries are created and `_extras` becomes an empty dictionary (the class does not
define an attribute called `_extras`; the object is fresh) -/
theorem gen_module_init (P : PyEnv β τ) (m : Mod β τ) (hc : m.cls.lookup "_extras" = none) (hx : m.extras = none) :
    Module___init__ P m = .ok ({ nn_Module___init__ m with extras := some [] }, ()) := by
  unfold Module___init__
  have h := gen_setattr_other P (nn_Module___init__ m) "_extras" PyVal.odict (Or.inl (by simpa [nn_Module___init__] using hc))
    (by intro e he; simp [nn_Module___init__, hx] at he)
  simp only [h, bind, Except.bind]
  simp [nn_Module___setattr__, nn_Module___init__, dhas, object___setattr__, hc, pure, Except.pure]

/-! ## `RecordTensor.create` -/

/-- `name` itself differs from every `_<name><suffix>` -/
theorem name_ne_key (n sfx : String) : (n == "_" ++ n ++ sfx) = false := by
  rw [beq_eq_false_iff_ne]
  intro e
  have := congrArg (fun s => s.toList.length) e
  simp only [String.toList_append, List.length_append] at this
  have h1 : "_".toList.length = 1 := by decide
  omega

/-- a name different from the six registered ones stays absent through `RecordTensor.__init__` -/
theorem absent_recOwner (m : Mod β τ) (name k : String) (dt dur : τ) (incl : Bool) (v' : TVal β) (c' : Cons)
    (pd pc pt : Bool) (h : Absent m k) (h1 : (k == dataKey name) = false) (h2 : (k == consKey name) = false)
    (h3 : (k == dtKey name) = false) (h4 : (k == durKey name) = false) (h5 : (k == inclKey name) = false)
    (h6 : (k == ptrKey name) = false) : Absent (recOwner m name dt dur incl v' c' pd pc pt) k := by
  unfold recOwner
  exact absent_regAttr _ _ _ _ _ (absent_regAttr _ _ _ _ _ (absent_regAttr _ _ _ _ _ (absent_regAttr _ _ _ _ _
    (absent_regAttr _ _ _ _ _ (absent_regData _ _ _ _ _ h h1) h2) h3) h4) h5) h6

/-- the registrations do not change the class of the owner -/
@[simp] theorem recOwner_inferno (m : Mod β τ) (name : String) (dt dur : τ) (incl : Bool) (v' : TVal β) (c' : Cons)
    (pd pc pt : Bool) : (recOwner m name dt dur incl v' c' pd pc pt).inferno = m.inferno := by
  simp [recOwner]

/-- **`RecordTensor.create`** on a module where none of the seven names is an attribute yet: the constructor's
registrations (`gen_record_init`), then the object itself as a plain attribute `name` -/
theorem gen_record_create (P : PyEnv β τ) (m : Mod β τ) (name : String) (dt dur : τ) (value : TVal β)
    (cons : Option Cons) (pd pc pt strict live incl : Bool) (e : XDict β τ)
    (hdt : P.T.pos dt = true) (hdur : P.T.nonneg dur = true) (hid : P.isidentifier name = true)
    (hcompat : ShapedTensor__ignore_or_compatible (unsqueeze0_repeat value (recSizeInt P dt dur incl))
        (shiftCons cons (recSizeInt P dt dur incl)) strict = true)
    (hpar : value.param = true → value.isNone = false)
    (hinf : m.inferno = true) (hini : m.inited = true) (hex : m.extras = some e)
    (h0 : Absent m name)
    (h1 : Absent m (dataKey name)) (h2 : Absent m (consKey name)) (h3 : Absent m (dtKey name))
    (h4 : Absent m (durKey name)) (h5 : Absent m (inclKey name)) (h6 : Absent m (ptrKey name)) :
    RecordTensor_create P m name dt dur value cons pd pc pt strict live incl =
      .ok ({ owner := regAttr (recOwner m name dt dur incl (unsqueeze0_repeat value (recSizeInt P dt dur incl))
                        (shiftCons cons (recSizeInt P dt dur incl)) pd pc pt) false name (.obj "RecordTensor"),
             stOwner := true, rtOwner := true, name := some name, strict := some strict, live := some live,
             stAttrs := some ⟨dataKey name, consKey name⟩,
             rtAttrs := some ⟨dataKey name, consKey name, dtKey name, durKey name, inclKey name, ptrKey name⟩ },
           ()) := by
  have hinit := gen_record_init P (object___new__ m) name dt dur value cons pd pc pt strict live incl e hdt hdur hid
    hcompat hpar hinf hini hex h1 h2 h3 h4 h5 h6
  have a0 := absent_recOwner m name name dt dur incl (unsqueeze0_repeat value (recSizeInt P dt dur incl))
    (shiftCons cons (recSizeInt P dt dur incl)) pd pc pt h0 (name_ne_key _ _) (name_ne_key _ _) (name_ne_key _ _)
    (name_ne_key _ _) (name_ne_key _ _) (name_ne_key _ _)
  have hs := step_attr P _ name (.obj "RecordTensor") a0 (by simp [hinf]) rfl
  unfold RecordTensor_create
  have hn : (object___new__ m).owner = m := rfl
  rw [hn] at hinit
  simp only [hinit, bind, Except.bind, ShapedTensor_owner, ShapedTensor_name, weakref_call, attr_get, raising,
    ↓reduceIte, pure, Except.pure, onOwner, hs]

/-! ## What the registration saves -/

/-- slices along dimension 0 of a row-major tensor with `k` slices of `p` values -/
def rowsOf (k p : Nat) (vals : List β) : List (List β) := (List.range k).map fun i => (vals.drop (i * p)).take p

/-- a stored (non-`None`) tensor as the model's `Tens`: its shape and its slices along dimension 0; an ignored tensor
with storage has shape `(0,)` -/
def tensOf : Store (List β) → Tens β
  | .init _ (k :: sh) vals => ⟨k :: sh, rowsOf k (prod sh) vals⟩
  | .init _ [] _ => ⟨[], []⟩
  | _ => ⟨[0], []⟩

/-- extras values the model has (`XVal`): ints and bools -/
def xvalOf : PyVal β τ → Option XVal
  | .int i => some (.int i)
  | .bool b => some (.bool b)
  | _ => none

/-- a state dictionary of ONE module as the model's `Dict`: the tensor entries, and the int / bool entries of
`_extra_state` -/
def sdDict (sd : List (String × SDVal β τ)) : Dict β where
  tensors := sd.filterMap fun kv => match kv.2 with | .tensor t => some (kv.1, tensOf t) | .extra _ => none
  extras := (sd.filterMap fun kv => match kv.2 with
    | .extra x => some (x.filterMap fun p => (xvalOf p.2).map fun v => (p.1, v))
    | .tensor _ => none).flatten

/-- the model state of a freshly constructed record: `recordsz` slots holding the initial value, pointer 0
(`Model/RingOps.lean :: MState`) -/
def recState (value : TVal β) (size : Int) : MState β :=
  (size.toNat, match value.store with
    | .none => .none
    | .empty d => .empty d
    | .uninit d => .uninit d
    | .init d sh v => .init d sh ⟨size.toNat, 0, List.replicate size.toNat v⟩)

/-- the slices along dimension 0 of `n` stacked copies of `v` are `n` copies of `v` -/
theorem rowsOf_replicate (n : Nat) (v : List β) : rowsOf n v.length (List.replicate n v).flatten = List.replicate n v := by
  induction n with
  | zero => rfl
  | succ n ih =>
    unfold rowsOf at ih ⊢
    rw [List.range_succ_eq_map, List.map_cons, List.map_map, List.replicate_succ, List.flatten_cons]
    congr 1
    · simp
    · refine Eq.trans (List.map_congr_left ?_) ih
      intro i _
      simp only [Function.comp]
      have : (i + 1) * v.length = v.length + i * v.length := by rw [Nat.succ_mul, Nat.add_comm]
      rw [this, List.drop_append]
      have hd : List.drop (v.length + i * v.length) v = [] := List.drop_eq_nil_of_le (by omega)
      simp [hd]

/-- the record size is at least 1 -/
theorem recSizeInt_pos (P : PyEnv β τ) (dt dur : τ) (incl : Bool) : 0 < (recSizeInt P dt dur incl).toNat := by
  unfold recSizeInt; omega

/-- the freshly constructed record satisfies the model invariant `MWF` -/
theorem recState_wf (P : PyEnv β τ) (value : TVal β) (dt dur : τ) (incl : Bool) :
    MWF (recState value (recSizeInt P dt dur incl)) := by
  refine ⟨recSizeInt_pos P dt dur incl, ?_⟩
  unfold recState
  cases value.store <;> simp [Ring.WF]
  unfold recSizeInt; omega

/-- `state_dict()` of an inferno module after `Module.__init__`: parameters, persistent buffers, `_extra_state` -/
theorem state_dict_ok (P : PyEnv β τ) (m : Mod β τ) (e : XDict β τ) (hinf : m.inferno = true) (hex : m.extras = some e) :
    nn_Module_state_dict (Module_get_extra_state P) m =
      .ok (sdTensors m.params ++ sdTensors (m.buffers.filter fun kv => !m.nonpersist.contains kv.1) ++
            [("_extra_state", .extra e)]) := by
  simp [nn_Module_state_dict, hinf, gen_get_extra_state, attr_extras, hex, liftR]

/-- assigning an absent key appends the entry -/
theorem dset_absent {ν : Type} (d : List (String × ν)) (k : String) (v : ν) (h : List.lookup k d = none) :
    dset d k v = d ++ [(k, v)] := by
  simp [dset, dhas_absent d k h]

/-- the owner after a default registration (`persist_data=True`, the other flags off) of a buffer value -/
theorem recOwner_default (m : Mod β τ) (name : String) (dt dur : τ) (incl : Bool) (v' : TVal β) (c' : Cons)
    (e : XDict β τ) (hex : m.extras = some e) (hp : v'.param = false)
    (hd : Absent m (dataKey name)) (hk : Absent m (ptrKey name)) :
    (recOwner m name dt dur incl v' c' true false false).params = m.params ∧
    (recOwner m name dt dur incl v' c' true false false).buffers = m.buffers ++ [(dataKey name, v')] ∧
    (recOwner m name dt dur incl v' c' true false false).nonpersist = m.nonpersist ∧
    (recOwner m name dt dur incl v' c' true false false).extras = some (e ++ [(ptrKey name, .int 0)]) ∧
    (recOwner m name dt dur incl v' c' true false false).inferno = m.inferno := by
  simp [recOwner, regData, regAttr, hp, hex, dset_absent _ _ _ hd.buffers, dset_absent _ _ _ (hk.extras e hex)]

/-- `sdTensors` distributes over concatenation -/
theorem sdTensors_append (a b : List (String × TVal β)) :
    (sdTensors (a ++ b) : List (String × SDVal β τ)) = sdTensors a ++ sdTensors b := by
  simp [sdTensors]

/-- the tensor part of `sdDict` distributes over concatenation -/
theorem sdDict_tensors_append (a b : List (String × SDVal β τ)) :
    (sdDict (a ++ b)).tensors = (sdDict a).tensors ++ (sdDict b).tensors := by
  simp [sdDict]

/-- the extras part of `sdDict` distributes over concatenation -/
theorem sdDict_extras_append (a b : List (String × SDVal β τ)) :
    (sdDict (a ++ b)).extras = (sdDict a).extras ++ (sdDict b).extras := by
  simp [sdDict]

/-- tensor entries contribute no extras -/
theorem sdDict_extras_sdTensors (l : List (String × TVal β)) : (sdDict (sdTensors l : List (String × SDVal β τ))).extras = [] := by
  have h : ∀ a ∈ (sdTensors l : List (String × SDVal β τ)),
      (match a.2 with
        | SDVal.extra x => some (x.filterMap fun p => (xvalOf p.2).map fun v => (p.1, v))
        | SDVal.tensor _ => none) = none := by
    intro a ha
    simp only [sdTensors, List.mem_filterMap] at ha
    obtain ⟨kv, _, hkv⟩ := ha
    split at hkv
    · cases hkv
    · cases hkv; rfl
  simp only [sdDict]
  rw [List.filterMap_eq_nil_iff.mpr h]
  rfl

/-- the extras part of the `_extra_state` entry: its int / bool values -/
theorem sdDict_extras_single (x : XDict β τ) :
    (sdDict [("_extra_state", SDVal.extra x)]).extras = x.filterMap fun p => (xvalOf p.2).map fun v => (p.1, v) := by
  simp [sdDict]

/-- **gen_record_save**: registering a record `name` (default flags, a buffer value) on a module adds to the module's
`state_dict()` — read through `sdDict` as the model's `Dict` — exactly the entries the model's `ringSave name` lists
for the freshly constructed record `recState`: the tensor `_<name>_data` (none for a `None` value; shape `(0,)` for an
ignored value with storage; `recordsz × shape` holding `recordsz` copies of the value otherwise) and the extra
`_<name>_pointer = 0`.  Everything else the constructor sets (`_<name>_constraints`, `_<name>_dt`, `_<name>_duration`,
`_<name>_inclusive`, the object itself) is a plain attribute and is not saved. -/
theorem gen_record_save (P : PyEnv β τ) (m : Mod β τ) (name : String) (dt dur : τ) (incl : Bool) (value : TVal β)
    (c' : Cons) (e : XDict β τ) (hinf : m.inferno = true) (hex : m.extras = some e)
    (hp : value.param = false)
    (hwf : ∀ d sh v, value.store = .init d sh v → v.length = prod sh)
    (hd : Absent m (dataKey name)) (hk : Absent m (ptrKey name)) :
    ∃ sd sd', nn_Module_state_dict (Module_get_extra_state P) m = .ok sd ∧
      nn_Module_state_dict (Module_get_extra_state P)
        (recOwner m name dt dur incl (unsqueeze0_repeat value (recSizeInt P dt dur incl)) c' true false false) = .ok sd' ∧
      (sdDict sd').tensors = (sdDict sd).tensors ++ (ringSave name (recState value (recSizeInt P dt dur incl))).tensors ∧
      (sdDict sd').extras = (sdDict sd).extras ++ (ringSave name (recState value (recSizeInt P dt dur incl))).extras := by
  have hp' : (unsqueeze0_repeat value (recSizeInt P dt dur incl)).param = false := by
    obtain ⟨b, st⟩ := value
    cases st <;> simpa [unsqueeze0_repeat] using hp
  obtain ⟨h1, h2, h3, h4, h5⟩ := recOwner_default m name dt dur incl _ c' e hex hp' hd hk
  refine ⟨_, _, state_dict_ok P m e hinf hex, state_dict_ok P _ _ (by rw [h5, hinf]) h4, ?_, ?_⟩
  · rw [h1, h2, h3]
    have hnp : (!m.nonpersist.contains (dataKey name)) = true := by
      simpa using hd.nonpersist
    simp only [List.filter_append, List.filter_cons, hnp, ↓reduceIte, List.filter_nil, sdTensors_append,
      sdDict_tensors_append, List.append_assoc]
    obtain ⟨b, st⟩ := value
    simp only at hp
    subst hp
    cases st with
    | none => simp [sdDict, sdTensors, unsqueeze0_repeat, TVal.isNone, ringSave, recState]
    | empty d => simp [sdDict, sdTensors, unsqueeze0_repeat, TVal.isNone, ringSave, recState, tensOf]
    | uninit d => simp [sdDict, sdTensors, unsqueeze0_repeat, TVal.isNone, ringSave, recState, tensOf]
    | init d sh v =>
      have hl := hwf d sh v rfl
      simp [sdDict, sdTensors, unsqueeze0_repeat, TVal.isNone, ringSave, recState, tensOf, ← hl, rowsOf_replicate]
  · have hx : (ringSave name (recState value (recSizeInt P dt dur incl))).extras = [(ptrKey name, XVal.int 0)] := by
      unfold ringSave recState
      cases value.store <;> rfl
    rw [hx]
    simp [sdDict_extras_append, sdDict_extras_sdTensors, sdDict_extras_single, List.filterMap_append, xvalOf]

/-- … on a module that has nothing else to save (fresh from `Module.__init__`), the `state_dict()` after the
registration IS the model's `ringSave name` of the constructed record: same key set, same values -/
theorem gen_record_save_fresh (P : PyEnv β τ) (m : Mod β τ) (name : String) (dt dur : τ) (incl : Bool) (value : TVal β)
    (c' : Cons) (hinf : m.inferno = true) (hex : m.extras = some []) (hpar : m.params = []) (hbuf : m.buffers = [])
    (hp : value.param = false)
    (hwf : ∀ d sh v, value.store = .init d sh v → v.length = prod sh)
    (hd : Absent m (dataKey name)) (hk : Absent m (ptrKey name)) :
    ∃ sd', nn_Module_state_dict (Module_get_extra_state P)
        (recOwner m name dt dur incl (unsqueeze0_repeat value (recSizeInt P dt dur incl)) c' true false false) = .ok sd' ∧
      sdDict sd' = ringSave name (recState value (recSizeInt P dt dur incl)) ∧
      (sdDict sd').keys = (ringSave name (recState value (recSizeInt P dt dur incl))).keys := by
  obtain ⟨sd, sd', h0, h1, h2, h3⟩ := gen_record_save P m name dt dur incl value c' [] hinf hex hp hwf hd hk
  rw [state_dict_ok P m [] hinf hex, hpar, hbuf] at h0
  have hsd : sd = [("_extra_state", SDVal.extra [])] := by
    simpa [sdTensors] using (Except.ok.inj h0).symm
  subst hsd
  have he : sdDict sd' = ringSave name (recState value (recSizeInt P dt dur incl)) := by
    have t0 : (sdDict ([("_extra_state", SDVal.extra [])] : List (String × SDVal β τ))).tensors = [] := rfl
    have x0 : (sdDict ([("_extra_state", SDVal.extra [])] : List (String × SDVal β τ))).extras = [] := rfl
    rw [t0, List.nil_append] at h2
    rw [x0, List.nil_append] at h3
    cases hs : sdDict sd' with
    | mk ts xs =>
      rw [hs] at h2 h3
      simp only at h2 h3
      subst h2; subst h3
      rfl
  exact ⟨sd', h1, he, by rw [he]⟩

/-- **the persistence flags**: with a buffer value, `persist_data=False` puts `_<name>_data` into
`_non_persistent_buffers_set` (so `state_dict()` skips it) and `persist_data=True` does not;
`persist_constraints` / `persist_temporal` decide whether `_<name>_constraints` / `_<name>_dt`, `_<name>_duration`,
`_<name>_inclusive` are extras (saved) or plain attributes (not saved); the pointer is ALWAYS the extra
`_<name>_pointer = 0` -/
theorem gen_record_flags (m : Mod β τ) (name : String) (dt dur : τ) (incl : Bool) (v' : TVal β) (c' : Cons)
    (pd pc pt : Bool) (e : XDict β τ) (hex : m.extras = some e) (hp : v'.param = false)
    (h1 : Absent m (dataKey name)) (h2 : Absent m (consKey name)) (h3 : Absent m (dtKey name))
    (h4 : Absent m (durKey name)) (h5 : Absent m (inclKey name)) :
    ∃ e', (recOwner m name dt dur incl v' c' pd pc pt).extras = some e' ∧
      List.lookup (ptrKey name) e' = some (.int 0) ∧
      List.lookup (consKey name) e' = (if pc then some (.cdict c') else none) ∧
      List.lookup (dtKey name) e' = (if pt then some (.float dt) else none) ∧
      List.lookup (durKey name) e' = (if pt then some (.float dur) else none) ∧
      List.lookup (inclKey name) e' = (if pt then some (.bool incl) else none) ∧
      List.lookup (consKey name) (recOwner m name dt dur incl v' c' pd pc pt).dict =
        (if pc then none else some (.cdict c')) ∧
      List.lookup (dtKey name) (recOwner m name dt dur incl v' c' pd pc pt).dict =
        (if pt then none else some (.float dt)) ∧
      List.lookup (dataKey name) (recOwner m name dt dur incl v' c' pd pc pt).buffers = some v' ∧
      ((dataKey name ∈ (recOwner m name dt dur incl v' c' pd pc pt).nonpersist) ↔ pd = false) := by
  have n32 : (dtKey name == consKey name) = false := key_ne name _ _ (by decide)
  have n23 : (consKey name == dtKey name) = false := key_ne name _ _ (by decide)
  have n24 : (consKey name == durKey name) = false := key_ne name _ _ (by decide)
  have n25 : (consKey name == inclKey name) = false := key_ne name _ _ (by decide)
  have n26 : (consKey name == ptrKey name) = false := key_ne name _ _ (by decide)
  have n34 : (dtKey name == durKey name) = false := key_ne name _ _ (by decide)
  have n35 : (dtKey name == inclKey name) = false := key_ne name _ _ (by decide)
  have n36 : (dtKey name == ptrKey name) = false := key_ne name _ _ (by decide)
  have n43 : (durKey name == dtKey name) = false := key_ne name _ _ (by decide)
  have n42 : (durKey name == consKey name) = false := key_ne name _ _ (by decide)
  have n45 : (durKey name == inclKey name) = false := key_ne name _ _ (by decide)
  have n46 : (durKey name == ptrKey name) = false := key_ne name _ _ (by decide)
  have n52 : (inclKey name == consKey name) = false := key_ne name _ _ (by decide)
  have n53 : (inclKey name == dtKey name) = false := key_ne name _ _ (by decide)
  have n54 : (inclKey name == durKey name) = false := key_ne name _ _ (by decide)
  have n56 : (inclKey name == ptrKey name) = false := key_ne name _ _ (by decide)
  have e2 := h2.extras e hex
  have e3 := h3.extras e hex
  have e4 := h4.extras e hex
  have e5 := h5.extras e hex
  have hnp : ¬ dataKey name ∈ m.nonpersist := h1.nonpersist
  cases pd <;> cases pc <;> cases pt <;>
    simp [-List.lookup_eq_none_iff, recOwner, regData, regAttr, hp, hex, lookup_dset_self, lookup_dset_ne, n32, n23, n24, n25, n26, n34, n35,
      n36, n43, n42, n45, n46, n52, n53, n54, n56, e2, e3, e4, e5, h2.dict, h3.dict, hnp, sadd]

/-! ## The pointer the methods write is the pointer that is saved -/

/-- the private `__pointer` setter (`setattr(self.__owner(), self.__attributes.pointer, int(value))`) goes through
`Module.__setattr__`, which finds the name among the extras and updates the `_extras` entry — the one `state_dict()`
saves — and nothing else -/
theorem gen_pointer_setter (P : PyEnv β τ) (r : RObj β τ) (a : RTAttrs) (e : XDict β τ) (v : Int)
    (hown : r.rtOwner = true) (hat : r.rtAttrs = some a) (hinf : r.owner.inferno = true)
    (hcls : r.owner.cls.lookup a.pointer = none) (hex : r.owner.extras = some e) (hk : dhas e a.pointer = true) :
    RecordTensor___pointer_setter P r v =
      .ok ({ r with owner := { r.owner with extras := some (dset e a.pointer (.int v)) } }, ()) := by
  unfold RecordTensor___pointer_setter
  simp [weakref_call, hown, hat, attr_get, raising, bind, Except.bind, onOwner, py_setattr, hinf,
    gen_setattr_extra P r.owner a.pointer (.int v) e (Or.inl hcls) hex hk, pure, Except.pure]

/-- the private `__pointer` getter reads that entry back -/
theorem gen_pointer_getter (P : PyEnv β τ) (r : RObj β τ) (a : RTAttrs) (e : XDict β τ) (x : PyVal β τ)
    (hown : r.rtOwner = true) (hat : r.rtAttrs = some a) (hinf : r.owner.inferno = true)
    (hcls : r.owner.cls.lookup a.pointer = none) (hdict : r.owner.dict.lookup a.pointer = none)
    (hne : (a.pointer == "_extras") = false) (hnt : ¬ a.pointer ∈ torchInternals)
    (hex : r.owner.extras = some e) (hk : List.lookup a.pointer e = some x) :
    RecordTensor___pointer P r = .ok (r, x) := by
  unfold RecordTensor___pointer
  have h1 : object___getattribute__ P r.owner a.pointer = .error .AttributeError := by
    simp [object___getattribute__, hcls, instanceDict, hne, hnt, hdict]
  simp [weakref_call, hown, hat, attr_get, raising, bind, Except.bind, py_getattr, h1, hinf, gen_getattr, hex, hk,
    pure, Except.pure]

/-- after the setter, the `_extra_state` entry of `state_dict()` carries the new pointer -/
theorem gen_pointer_saved (e : XDict β τ) (k : String) (v : Int) :
    List.lookup k (dset e k (PyVal.int v : PyVal β τ)) = some (.int v) := lookup_dset_self e k _

/-! ## `MaxRateClassifier`: the load post-hook recomputes the derived buffers -/

/-- attribute lookup of a name that only torch's dictionaries know -/
theorem getattr_torch (P : PyEnv β τ) (m : Mod β τ) (k : String) (v : PyVal β τ)
    (hc : m.cls.lookup k = none) (hd : m.dict.lookup k = none) (hne : (k == "_extras") = false)
    (hnt : ¬ k ∈ torchInternals) (hinf : m.inferno = true) (hx : ∀ e, m.extras = some e → List.lookup k e = none)
    (hnn : nn_Module___getattr__ m k = .ok v) : py_getattr (Module___getattr__ P) P m k = .ok v := by
  have h1 : object___getattribute__ P m k = .error .AttributeError := by
    simp [object___getattribute__, hc, instanceDict, hne, hnt, hd]
  have h3 : Module___getattr__ P m k = .ok (m, v) := by
    rw [gen_getattr]
    cases he : m.extras with
    | none => simp [hnn, liftR]
    | some e => simp [hx e he, hnn, liftR]
  simp [py_getattr, h1, hinf, h3]

/-- assigning a plain tensor to the name of an existing non-persistent buffer replaces the buffer (and keeps it
non-persistent): `Module.__setattr__` → `nn.Module.__setattr__` → `register_buffer(name, value, persistent=False)` -/
theorem setattr_buffer (P : PyEnv β τ) (m : Mod β τ) (k : String) (t old : TVal β)
    (hc : m.cls.lookup k = none) (hd : m.dict.lookup k = none) (hne : (k == "_extras") = false)
    (hnt : ¬ k ∈ torchInternals) (hinf : m.inferno = true) (hini : m.inited = true)
    (hx : ∀ e, m.extras = some e → List.lookup k e = none)
    (hp : m.params.lookup k = none) (hm : m.modules.lookup k = none) (hb : m.buffers.lookup k = some old)
    (hnp : k ∈ m.nonpersist) (hdot : str_contains_dot k = false) (hemp : (k == "") = false)
    (htp : t.param = false) :
    Module___setattr__ P m k (.tensor t) = .ok ({ m with buffers := dset m.buffers k t }, ()) := by
  rw [gen_setattr_other P m k _ (Or.inl hc) (fun e he => dhas_absent e k (hx e he))]
  have hnn : nn_Module___getattr__ m k = .ok old.toPy := by
    simp [nn_Module___getattr__, hini, hp, hb]
  have hh : py_hasattr (Module___getattr__ P) P m k = .ok true := by
    simp [py_hasattr, getattr_torch P m k _ hc hd hne hnt hinf hx hnn]
  have hbh : dhas m.buffers k = true := by rw [dhas_iff, hb]; rfl
  have hfl : (!m.nonpersist.contains k) = false := by simp [hnp]
  have hreg : nn_Module_register_buffer (Module___getattr__ P) P m k t false =
      .ok { m with buffers := dset m.buffers k t } := by
    have hs : sadd m.nonpersist k = m.nonpersist := by simp [sadd, hnp]
    simp [nn_Module_register_buffer, hini, hdot, hemp, hh, hbh, hs]
  have hpp := dhas_absent _ k hp
  have hmm := dhas_absent _ k hm
  obtain ⟨b, st⟩ := t
  simp only at htp
  subst htp
  obtain ⟨inf, cls, ini, dict, ex, pa, bu, np, mo, ph⟩ := m
  simp only at hini
  subst hini
  unfold nn_Module___setattr__
  simp only [hfl, hpp, hmm, hbh, hreg, Bool.and_false, Bool.and_true, Bool.true_and, Bool.false_eq_true, ↓reduceIte]

/-- the tensor functions return plain tensors (neither `None` nor a Parameter) -/
structure FOK (F : TorchFns β) : Prop where
  normalize : ∀ x, (F.normalize x).param = false ∧ (F.normalize x).isNone = false
  argmax : ∀ x, (F.argmax x).param = false ∧ (F.argmax x).isNone = false
  bincount : ∀ x n, (F.bincount x n).param = false ∧ (F.bincount x n).isNone = false

/-- what the `rates` setter derives from the rates tensor `r`, `n` being the number of classes -/
def deriveF (F : TorchFns β) (n : Int) (r : TVal β) : TVal β × TVal β × TVal β :=
  let p := F.normalize r
  let a := F.argmax p
  (p, a, F.bincount (F.view_flat a) n)

/-- a tensor-like object that is not `None` is a tensor value -/
theorem toPy_tensor (t : TVal β) (h : t.isNone = false) : (t.toPy : PyVal β τ) = .tensor t := by
  obtain ⟨b, st⟩ := t
  cases st <;> simp [TVal.toPy, TVal.isNone] at h ⊢

/-- a constructed `MaxRateClassifier`: `rates_` is a parameter, the three derived tensors are non-persistent
buffers, none of the four names is anything else -/
structure ClfWF (m : Mod β τ) (st : Store (List β)) (p a o : TVal β) (n : Int) : Prop where
  inferno : m.inferno = true
  inited : m.inited = true
  cls : m.cls.lookup "rates_" = none ∧ m.cls.lookup "proportions_" = none ∧ m.cls.lookup "assignments_" = none ∧
    m.cls.lookup "occurrences_" = none
  dict : m.dict.lookup "rates_" = none ∧ m.dict.lookup "proportions_" = none ∧ m.dict.lookup "assignments_" = none ∧
    m.dict.lookup "occurrences_" = none
  extras : ∀ e, m.extras = some e → List.lookup "rates_" e = none ∧ List.lookup "proportions_" e = none ∧
    List.lookup "assignments_" e = none ∧ List.lookup "occurrences_" e = none
  rates : m.params.lookup "rates_" = some ⟨true, st⟩ ∧ (⟨true, st⟩ : TVal β).isNone = false
  params : m.params.lookup "proportions_" = none ∧ m.params.lookup "assignments_" = none ∧
    m.params.lookup "occurrences_" = none
  modules : m.modules.lookup "proportions_" = none ∧ m.modules.lookup "assignments_" = none ∧
    m.modules.lookup "occurrences_" = none
  bufs : m.buffers.lookup "proportions_" = some p ∧ m.buffers.lookup "assignments_" = some a ∧
    m.buffers.lookup "occurrences_" = some o
  occ : o.isNone = false ∧ tensor_shape0 o = .ok n
  nonpersist : "proportions_" ∈ m.nonpersist ∧ "assignments_" ∈ m.nonpersist ∧ "occurrences_" ∈ m.nonpersist

/-- **the `rates` getter** of a constructed classifier returns `rates_.data`: the parameter's values as a plain tensor -/
theorem gen_classifier_rates (P : PyEnv β τ) (F : TorchFns β) (m : Mod β τ) (st : Store (List β)) (p a o : TVal β)
    (n : Int) (h : ClfWF m st p a o n) : MaxRateClassifier_rates P F m = .ok (m, ⟨false, st⟩) := by
  have hnn : nn_Module___getattr__ m "rates_" = .ok (.tensor ⟨true, st⟩) := by
    simp [nn_Module___getattr__, h.inited, h.rates.1, toPy_tensor _ h.rates.2]
  have hg := getattr_torch P m "rates_" _ h.cls.1 h.dict.1 (by decide) (by decide) h.inferno
    (fun e he => (h.extras e he).1) hnn
  simp [MaxRateClassifier_rates, hg, raising, bind, Except.bind, as_tensor_recv, TVal.data, pure, Except.pure]

/-- `self.rates_.data = value` with the parameter's own values keeps the classifier constructed -/
theorem clfwf_params (m : Mod β τ) (st : Store (List β)) (p a o : TVal β) (n : Int) (h : ClfWF m st p a o n) :
    ClfWF { m with params := dset m.params "rates_" ⟨true, st⟩ } st p a o n :=
  { h with
    rates := ⟨lookup_dset_self _ _ _, h.rates.2⟩
    params := ⟨by rw [lookup_dset_ne _ _ _ _ (by decide)]; exact h.params.1,
               by rw [lookup_dset_ne _ _ _ _ (by decide)]; exact h.params.2.1,
               by rw [lookup_dset_ne _ _ _ _ (by decide)]; exact h.params.2.2⟩ }

/-- replacing `proportions_` keeps the classifier constructed -/
theorem clfwf_prop (m : Mod β τ) (st : Store (List β)) (p p' a o : TVal β) (n : Int) (h : ClfWF m st p a o n) :
    ClfWF { m with buffers := dset m.buffers "proportions_" p' } st p' a o n :=
  { h with
    bufs := ⟨lookup_dset_self _ _ _, by rw [lookup_dset_ne _ _ _ _ (by decide)]; exact h.bufs.2.1,
             by rw [lookup_dset_ne _ _ _ _ (by decide)]; exact h.bufs.2.2⟩ }

/-- replacing `assignments_` keeps the classifier constructed -/
theorem clfwf_asg (m : Mod β τ) (st : Store (List β)) (p a a' o : TVal β) (n : Int) (h : ClfWF m st p a o n) :
    ClfWF { m with buffers := dset m.buffers "assignments_" a' } st p a' o n :=
  { h with
    bufs := ⟨by rw [lookup_dset_ne _ _ _ _ (by decide)]; exact h.bufs.1, lookup_dset_self _ _ _,
             by rw [lookup_dset_ne _ _ _ _ (by decide)]; exact h.bufs.2.2⟩ }

/-- reading a buffer of a constructed classifier -/
theorem clf_getattr_buffer (P : PyEnv β τ) (m : Mod β τ) (k : String) (t : TVal β)
    (hc : m.cls.lookup k = none) (hd : m.dict.lookup k = none) (hne : (k == "_extras") = false)
    (hnt : ¬ k ∈ torchInternals) (hinf : m.inferno = true) (hini : m.inited = true)
    (hx : ∀ e, m.extras = some e → List.lookup k e = none)
    (hp : m.params.lookup k = none) (hb : m.buffers.lookup k = some t) (hn : t.isNone = false) :
    py_getattr (Module___getattr__ P) P m k = .ok (.tensor t) := by
  apply getattr_torch P m k _ hc hd hne hnt hinf hx
  simp [nn_Module___getattr__, hini, hp, hb, toPy_tensor _ hn]

/-- **the `rates` setter** on a constructed classifier, given its own rates: the parameter keeps its values and the
three derived buffers are replaced by `deriveF` of the rates (in the source order proportions → assignments →
occurrences, each later one computed from the earlier NEW one) -/
theorem gen_classifier_rates_setter (P : PyEnv β τ) (F : TorchFns β) (hF : FOK F) (m : Mod β τ) (st : Store (List β))
    (p a o : TVal β) (n : Int) (h : ClfWF m st p a o n) :
    MaxRateClassifier_rates_setter P F m ⟨false, st⟩ =
      .ok ({ m with params := dset m.params "rates_" ⟨true, st⟩,
                    buffers := dset (dset (dset m.buffers "proportions_" (deriveF F n ⟨false, st⟩).1)
                      "assignments_" (deriveF F n ⟨false, st⟩).2.1) "occurrences_" (deriveF F n ⟨false, st⟩).2.2 }, ()) := by
  -- step 1: `self.rates_.data = value`
  have hnn : nn_Module___getattr__ m "rates_" = .ok (.tensor ⟨true, st⟩) := by
    simp [nn_Module___getattr__, h.inited, h.rates.1, toPy_tensor _ h.rates.2]
  have hg := getattr_torch P m "rates_" _ h.cls.1 h.dict.1 (by decide) (by decide) h.inferno
    (fun e he => (h.extras e he).1) hnn
  have hsd : setattr_data m "rates_" ⟨false, st⟩ = .ok { m with params := dset m.params "rates_" ⟨true, st⟩ } := by
    simp [setattr_data, h.dict.1, h.rates.1, h.rates.2, TVal.setData]
  have w1 := clfwf_params m st p a o n h
  generalize hm1 : ({ m with params := dset m.params "rates_" ⟨true, st⟩ } : Mod β τ) = m1 at *
  -- step 2: proportions
  have r1 := gen_classifier_rates P F m1 st p a o n w1
  have s2 := setattr_buffer P m1 "proportions_" (F.normalize ⟨false, st⟩) p w1.cls.2.1 w1.dict.2.1 (by decide)
    (by decide) w1.inferno w1.inited (fun e he => (w1.extras e he).2.1) w1.params.1 w1.modules.1 w1.bufs.1
    w1.nonpersist.1 (by decide) (by decide) (hF.normalize _).1
  have w2 := clfwf_prop m1 st p (F.normalize ⟨false, st⟩) a o n w1
  generalize hm2 : ({ m1 with buffers := dset m1.buffers "proportions_" (F.normalize ⟨false, st⟩) } : Mod β τ) = m2 at *
  -- step 3: assignments
  have g3 := clf_getattr_buffer P m2 "proportions_" _ w2.cls.2.1 w2.dict.2.1 (by decide) (by decide) w2.inferno
    w2.inited (fun e he => (w2.extras e he).2.1) w2.params.1 w2.bufs.1 (hF.normalize _).2
  have s3 := setattr_buffer P m2 "assignments_" (F.argmax (F.normalize ⟨false, st⟩)) a w2.cls.2.2.1 w2.dict.2.2.1
    (by decide) (by decide) w2.inferno w2.inited (fun e he => (w2.extras e he).2.2.1) w2.params.2.1 w2.modules.2.1
    w2.bufs.2.1 w2.nonpersist.2.1 (by decide) (by decide) (hF.argmax _).1
  have w3 := clfwf_asg m2 st (F.normalize ⟨false, st⟩) a (F.argmax (F.normalize ⟨false, st⟩)) o n w2
  generalize hm3 : ({ m2 with buffers := dset m2.buffers "assignments_" (F.argmax (F.normalize ⟨false, st⟩)) } : Mod β τ) = m3 at *
  -- step 4: occurrences
  have g4 := clf_getattr_buffer P m3 "assignments_" _ w3.cls.2.2.1 w3.dict.2.2.1 (by decide) (by decide) w3.inferno
    w3.inited (fun e he => (w3.extras e he).2.2.1) w3.params.2.1 w3.bufs.2.1 (hF.argmax _).2
  have g5 := clf_getattr_buffer P m3 "occurrences_" _ w3.cls.2.2.2 w3.dict.2.2.2 (by decide) (by decide) w3.inferno
    w3.inited (fun e he => (w3.extras e he).2.2.2) w3.params.2.2 w3.bufs.2.2 w3.occ.1
  have s4 := setattr_buffer P m3 "occurrences_" (F.bincount (F.view_flat (F.argmax (F.normalize ⟨false, st⟩))) n) o
    w3.cls.2.2.2 w3.dict.2.2.2 (by decide) (by decide) w3.inferno w3.inited (fun e he => (w3.extras e he).2.2.2)
    w3.params.2.2 w3.modules.2.2 w3.bufs.2.2 w3.nonpersist.2.2 (by decide) (by decide) (hF.bincount _ _).1
  unfold MaxRateClassifier_rates_setter
  simp only [hg, raising, bind, Except.bind, as_tensor_recv, hsd, hm1, r1, toPy_tensor _ (hF.normalize _).2, s2, hm2,
    MaxRateClassifier_proportions, g3, as_tensor_arg, toPy_tensor _ (hF.argmax _).2, s3, hm3,
    MaxRateClassifier_assignments, g4, MaxRateClassifier_nclass, MaxRateClassifier_occurrences, g5, w3.occ.2,
    toPy_tensor _ (hF.bincount _ _).2, s4, pure, Except.pure]
  subst hm3 hm2 hm1
  rfl

/-- the classifier as the model sees it (`Persist.Clf`): the saved parameter `rates_` and — read through `absD` — the
three derived buffers -/
def absClf {Δ : Type} (absD : TVal β × TVal β × TVal β → Δ) (m : Mod β τ) : Option (Clf β Δ) :=
  match m.params.lookup "rates_", m.buffers.lookup "proportions_", m.buffers.lookup "assignments_",
      m.buffers.lookup "occurrences_" with
  | some r, some p, some a, some o => some ⟨tensOf r.store, absD (p, a, o)⟩
  | _, _, _, _ => none

/-- **gen_classifier_posthook**: the regenerated load post-hook `sdhook` (`module.rates = module.rates`), run on a
constructed classifier whatever its derived buffers currently hold (after `load_state_dict` copied the saved rates
they are the target's stale ones), leaves the rates as they are and replaces the derived buffers by the derivation
from the rates — in the model's words (`Persist.clfComp … (postHook := true)`): `derived := derive rates`.
`derive` / `absD` are any reading of the torch functions as the model's uninterpreted `derive`. -/
theorem gen_classifier_posthook {Δ : Type} (P : PyEnv β τ) (F : TorchFns β) (hF : FOK F) (m : Mod β τ)
    (st : Store (List β)) (p a o : TVal β) (n : Int) (h : ClfWF m st p a o n)
    (absD : TVal β × TVal β × TVal β → Δ) (derive : Tens β → Δ)
    (hder : ∀ r : TVal β, absD (deriveF F n r) = derive (tensOf r.store)) :
    ∃ m', MaxRateClassifier_sdhook P F m = .ok (m', ()) ∧
      absClf absD m = some ⟨tensOf st, absD (p, a, o)⟩ ∧
      absClf absD m' = some ⟨tensOf st, derive (tensOf st)⟩ := by
  refine ⟨{ m with params := dset m.params "rates_" ⟨true, st⟩,
                   buffers := dset (dset (dset m.buffers "proportions_" (deriveF F n ⟨false, st⟩).1)
                     "assignments_" (deriveF F n ⟨false, st⟩).2.1) "occurrences_" (deriveF F n ⟨false, st⟩).2.2 },
    ?_, ?_, ?_⟩
  · unfold MaxRateClassifier_sdhook
    simp only [gen_classifier_rates P F m st p a o n h, bind, Except.bind,
      gen_classifier_rates_setter P F hF m st p a o n h, pure, Except.pure]
  · simp [absClf, h.rates.1, h.bufs.1, h.bufs.2.1, h.bufs.2.2]
  · have := hder ⟨false, st⟩
    simp only [deriveF] at this
    simp [absClf, lookup_dset_self, lookup_dset_ne, deriveF, this]

/-- what the model's `load` (with the post-hook) returns always has `derived = derive rates` -/
theorem clf_model_load {Δ : Type} (derive : Tens β → Δ) (d : Dict β) (t t' : Clf β Δ)
    (h : (clfComp β Δ derive true).load d t = .ok t') : t'.derived = derive t'.rates := by
  simp only [clfComp] at h
  split at h
  · cases h; rfl
  · cases h

/-- `Module.__setattr__` dispatches an assignment to a property with a setter to that setter (the translator emits
`self.rates = …` / `module.rates = …` of `MaxRateClassifier` as a direct call of the regenerated setter): with the
class table of `MaxRateClassifier` and `P.fset "rates"` the regenerated setter, `Module___setattr__` IS that call -/
theorem gen_setattr_rates (P : PyEnv β τ) (F : TorchFns β) (m : Mod β τ) (t : TVal β)
    (hc : m.cls.lookup "rates" = some (.property true))
    (hP : ∀ s v, P.fset "rates" s (.tensor v) = MaxRateClassifier_rates_setter P F s v) :
    Module___setattr__ P m "rates" (.tensor t) = MaxRateClassifier_rates_setter P F m t := by
  rw [gen_setattr_property P m "rates" _ hc, hP]

/-- the tensors `MaxRateClassifier.__init__` creates -/
def clfRates (P : PyEnv β τ) (shape : List Int) (nc : Int) : TVal β :=
  nn_Parameter (TVal.to P (torch_zeros P (shape ++ [nc])) false) false
/-- `torch.zeros(*shape).long()` -/
def clfAsg (P : PyEnv β τ) (shape : List Int) : TVal β := TVal.to P (torch_zeros P shape) true
/-- `torch.zeros(num_classes).long()` -/
def clfOcc (P : PyEnv β τ) (nc : Int) : TVal β := TVal.to P (torch_zeros P [nc]) true
/-- `torch.zeros(*shape, num_classes).float()` -/
def clfProp (P : PyEnv β τ) (shape : List Int) (nc : Int) : TVal β := TVal.to P (torch_zeros P (shape ++ [nc])) false

/-- a dtype conversion does not make a Parameter -/
theorem to_param (P : PyEnv β τ) (x : TVal β) (d : DType) : (TVal.to P x d).param = x.param := by
  obtain ⟨b, st⟩ := x; cases st <;> rfl

/-- `torch.zeros(…)` is not `None` -/
theorem zeros_isNone (P : PyEnv β τ) (dims : List Int) (d : DType) : (TVal.to P (torch_zeros P dims) d).isNone = false := by
  simp only [torch_zeros, mkStore]
  split <;> rfl

/-- `torch.zeros(num_classes).long().shape[0]` is `num_classes` (a positive number) -/
theorem occ_shape0 (P : PyEnv β τ) (nc : Int) (h : 0 < nc) : tensor_shape0 (clfOcc P nc) = .ok nc := by
  have h1 : prod [nc.toNat] = nc.toNat := by simp [prod]
  have h2 : (nc.toNat == 0) = false := by
    rw [beq_eq_false_iff_ne]; omega
  simp [clfOcc, torch_zeros, mkStore, h1, h2, TVal.to, tensor_shape0]
  omega

/-- the module after `MaxRateClassifier.__init__`, before the final `self.rates = self.rates` -/
def clfBuilt (P : PyEnv β τ) (m : Mod β τ) (shape : List Int) (nc : Int) (decay : τ) : Mod β τ :=
  register_load_state_dict_post_hook
    (regAttr (regData (regData (regData (regData { nn_Module___init__ m with extras := some [] }
      "rates_" (clfRates P shape nc) true) "assignments_" (clfAsg P shape) false) "occurrences_" (clfOcc P nc) false)
      "proportions_" (clfProp P shape nc) false) false "decay" (.float decay))
    "MaxRateClassifier.__init__.sdhook"

/-- a fresh object of a class that defines none of the five instance attributes of the classifier (nor `_extras`) -/
structure ClfFresh (m : Mod β τ) : Prop where
  inferno : m.inferno = true
  extras : m.extras = none
  clsx : m.cls.lookup "_extras" = none
  cls : m.cls.lookup "rates_" = none ∧ m.cls.lookup "proportions_" = none ∧ m.cls.lookup "assignments_" = none ∧
    m.cls.lookup "occurrences_" = none ∧ m.cls.lookup "decay" = none
  dict : m.dict.lookup "rates_" = none ∧ m.dict.lookup "proportions_" = none ∧ m.dict.lookup "assignments_" = none ∧
    m.dict.lookup "occurrences_" = none ∧ m.dict.lookup "decay" = none

/-- right after `Module.__init__` a name the class and the blank object do not know is nothing on the module -/
theorem absent_init (m : Mod β τ) (k : String) (hc : m.cls.lookup k = none) (hd : m.dict.lookup k = none)
    (hne : (k == "_extras") = false) (hnt : ¬ k ∈ torchInternals) (hdot : str_contains_dot k = false)
    (hemp : (k == "") = false) (htr : (k == "training") = false) :
    Absent ({ nn_Module___init__ m with extras := some [] } : Mod β τ) k where
  cls := hc
  dict := by simp [nn_Module___init__, lookup_dset_ne _ _ _ _ htr, hd]
  extras := by intro e he; cases he; rfl
  params := rfl
  buffers := rfl
  modules := rfl
  nonpersist := by simp [nn_Module___init__]
  notExtras := hne
  notTorch := hnt
  nodot := hdot
  nonempty := hemp

/-- **`MaxRateClassifier.__init__`**: `rates_` is registered as a parameter, the three derived tensors as
NON-persistent buffers, `decay` is a plain attribute, the load post-hook is registered, and the final
`self.rates = self.rates` leaves the derived buffers equal to `deriveF` of the (zero) rates — so a fresh classifier
satisfies the model invariant `derived = derive rates` (D31) and is a constructed classifier in the sense of
`ClfWF` (to which `gen_classifier_posthook` applies) -/
theorem gen_classifier_init (P : PyEnv β τ) (F : TorchFns β) (hF : FOK F) (m : Mod β τ) (shape : ShapeArg)
    (shp : List Int) (nc : Int) (decay : τ) (hm : ClfFresh m)
    (hshape : classifier_validate_shape shape = .ok shp) (hnc : 0 < nc) (hdecay : P.T.nonneg decay = true) :
    ∃ m', MaxRateClassifier___init__ P F m shape nc decay = .ok (m', ()) ∧
      m' = { clfBuilt P m shp nc decay with
        params := dset (clfBuilt P m shp nc decay).params "rates_" (clfRates P shp nc),
        buffers := dset (dset (dset (clfBuilt P m shp nc decay).buffers
          "proportions_" (deriveF F nc (clfRates P shp nc).data).1)
          "assignments_" (deriveF F nc (clfRates P shp nc).data).2.1)
          "occurrences_" (deriveF F nc (clfRates P shp nc).data).2.2 } ∧
      ClfWF (clfBuilt P m shp nc decay) (clfRates P shp nc).store (clfProp P shp nc) (clfAsg P shp) (clfOcc P nc) nc := by
  have hinit := gen_module_init P m hm.clsx hm.extras
  generalize hm1 : ({ nn_Module___init__ m with extras := some [] } : Mod β τ) = m1 at hinit
  have i1 : m1.inited = true := by subst hm1; rfl
  have f1 : m1.inferno = true := by subst hm1; exact hm.inferno
  have a_r : Absent m1 "rates_" := by
    subst hm1; exact absent_init m _ hm.cls.1 hm.dict.1 (by decide) (by decide) (by decide) (by decide) (by decide)
  have a_p : Absent m1 "proportions_" := by
    subst hm1; exact absent_init m _ hm.cls.2.1 hm.dict.2.1 (by decide) (by decide) (by decide) (by decide) (by decide)
  have a_a : Absent m1 "assignments_" := by
    subst hm1; exact absent_init m _ hm.cls.2.2.1 hm.dict.2.2.1 (by decide) (by decide) (by decide) (by decide) (by decide)
  have a_o : Absent m1 "occurrences_" := by
    subst hm1; exact absent_init m _ hm.cls.2.2.2.1 hm.dict.2.2.2.1 (by decide) (by decide) (by decide) (by decide) (by decide)
  have a_d : Absent m1 "decay" := by
    subst hm1; exact absent_init m _ hm.cls.2.2.2.2 hm.dict.2.2.2.2 (by decide) (by decide) (by decide) (by decide) (by decide)
  -- the registrations
  have hRp : (clfRates P shp nc).param = true := rfl
  have s_r : nn_Module_register_parameter (Module___getattr__ P) P m1 "rates_" (clfRates P shp nc) =
      .ok (regData m1 "rates_" (clfRates P shp nc) true) := by
    have := register_parameter_absent P m1 "rates_" (clfRates P shp nc).store a_r i1
    simpa [regData, hRp, clfRates, nn_Parameter] using this
  have hAp : (clfAsg P shp).param = false := by simp [clfAsg, to_param, torch_zeros]
  have hOp : (clfOcc P nc).param = false := by simp [clfOcc, to_param, torch_zeros]
  have hPp : (clfProp P shp nc).param = false := by simp [clfProp, to_param, torch_zeros]
  have a_a2 := absent_regData m1 "rates_" "assignments_" (clfRates P shp nc) true a_a (by decide)
  have s_a := step_buffer P _ "assignments_" (clfAsg P shp) false a_a2 (by simp [i1]) hAp
  have a_o3 := absent_regData _ "assignments_" "occurrences_" (clfAsg P shp) false
    (absent_regData m1 "rates_" "occurrences_" (clfRates P shp nc) true a_o (by decide)) (by decide)
  have s_o := step_buffer P _ "occurrences_" (clfOcc P nc) false a_o3 (by simp [i1]) hOp
  have a_p4 := absent_regData _ "occurrences_" "proportions_" (clfOcc P nc) false
    (absent_regData _ "assignments_" "proportions_" (clfAsg P shp) false
    (absent_regData m1 "rates_" "proportions_" (clfRates P shp nc) true a_p (by decide)) (by decide)) (by decide)
  have s_p := step_buffer P _ "proportions_" (clfProp P shp nc) false a_p4 (by simp [i1]) hPp
  have a_d5 := absent_regData _ "proportions_" "decay" (clfProp P shp nc) false
    (absent_regData _ "occurrences_" "decay" (clfOcc P nc) false
    (absent_regData _ "assignments_" "decay" (clfAsg P shp) false
    (absent_regData m1 "rates_" "decay" (clfRates P shp nc) true a_d (by decide)) (by decide)) (by decide)) (by decide)
  have s_d : Module___setattr__ P (regData (regData (regData (regData m1 "rates_" (clfRates P shp nc) true)
        "assignments_" (clfAsg P shp) false) "occurrences_" (clfOcc P nc) false) "proportions_" (clfProp P shp nc) false)
      "decay" (.float decay) =
      .ok (regAttr (regData (regData (regData (regData m1 "rates_" (clfRates P shp nc) true)
        "assignments_" (clfAsg P shp) false) "occurrences_" (clfOcc P nc) false) "proportions_" (clfProp P shp nc) false)
        false "decay" (.float decay), ()) := by
    rw [setattr_absent_plain P _ "decay" (.float decay) a_d5 rfl]; simp [regAttr]
  -- the constructed classifier
  have wf : ClfWF (clfBuilt P m shp nc decay) (clfRates P shp nc).store (clfProp P shp nc) (clfAsg P shp)
      (clfOcc P nc) nc := by
    have hR : (clfRates P shp nc) = ⟨true, (clfRates P shp nc).store⟩ := rfl
    refine
      { inferno := by simp [clfBuilt, register_load_state_dict_post_hook, nn_Module___init__, hm.inferno]
        inited := by simp [clfBuilt, register_load_state_dict_post_hook, nn_Module___init__]
        cls := by simp [clfBuilt, register_load_state_dict_post_hook, regAttr, regData, hRp, hAp, hOp, hPp,
                    nn_Module___init__, hm.cls]
        dict := ?_, extras := ?_, rates := ?_, params := ?_, modules := ?_, bufs := ?_, occ := ?_, nonpersist := ?_ }
    · simp [-List.lookup_eq_none_iff, clfBuilt, register_load_state_dict_post_hook, regAttr, regData, hRp, hAp, hOp,
        hPp, nn_Module___init__, lookup_dset_ne, hm.dict]
    · intro e he
      simp [clfBuilt, register_load_state_dict_post_hook, regAttr, regData, hRp, hAp, hOp, hPp,
        nn_Module___init__] at he
      subst he
      exact ⟨rfl, rfl, rfl, rfl⟩
    · refine ⟨?_, ?_⟩
      · simp [-List.lookup_eq_none_iff, clfBuilt, register_load_state_dict_post_hook, regAttr, regData, hRp, hAp,
          hOp, hPp, nn_Module___init__, lookup_dset_self]
        rfl
      · exact zeros_isNone P _ false
    · simp [-List.lookup_eq_none_iff, clfBuilt, register_load_state_dict_post_hook, regAttr, regData, hRp, hAp, hOp,
        hPp, nn_Module___init__, lookup_dset_ne]
    · simp [-List.lookup_eq_none_iff, clfBuilt, register_load_state_dict_post_hook, regAttr, regData, hRp, hAp, hOp,
        hPp, nn_Module___init__]
    · simp [-List.lookup_eq_none_iff, clfBuilt, register_load_state_dict_post_hook, regAttr, regData, hRp, hAp, hOp,
        hPp, nn_Module___init__, lookup_dset_self, lookup_dset_ne]
    · exact ⟨zeros_isNone P _ true, occ_shape0 P nc hnc⟩
    · simp [clfBuilt, register_load_state_dict_post_hook, regAttr, regData, hRp, hAp, hOp, hPp, nn_Module___init__,
        sadd]
  have hdata : (clfRates P shp nc).data = ⟨false, (clfRates P shp nc).store⟩ := rfl
  have hrates := gen_classifier_rates P F _ _ _ _ _ nc wf
  have hset := gen_classifier_rates_setter P F hF _ _ _ _ _ nc wf
  refine ⟨_, ?_, rfl, wf⟩
  unfold MaxRateClassifier___init__
  have hb : register_load_state_dict_post_hook (regAttr (regData (regData (regData (regData m1 "rates_"
      (clfRates P shp nc) true) "assignments_" (clfAsg P shp) false) "occurrences_" (clfOcc P nc) false)
      "proportions_" (clfProp P shp nc) false) false "decay" (.float decay)) "MaxRateClassifier.__init__.sdhook" =
      clfBuilt P m shp nc decay := by
    subst hm1; rfl
  simp only [clfRates, clfAsg, clfOcc, clfProp] at hb s_r s_a s_o s_p s_d hrates hset hdata ⊢
  simp only [hinit, bind, Except.bind, raising, hshape, argtest_gt_int, hnc, ↓reduceIte, s_r, s_a, s_o, s_p,
    argtest_gte, hdecay, s_d, pure, Except.pure, hb, hrates, hset, hdata]
  rfl

/-- **what a fresh classifier saves**: the `state_dict()` of the constructed classifier — read as the model's `Dict` —
is the model's `clfComp.save`: the single tensor `rates_` (the three derived buffers are non-persistent, `decay` is a
plain attribute, `_extra_state` is empty) -/
theorem gen_classifier_save {Δ : Type} (P : PyEnv β τ) (F : TorchFns β) (hF : FOK F) (m : Mod β τ) (shape : ShapeArg)
    (shp : List Int) (nc : Int) (decay : τ) (hm : ClfFresh m)
    (hshape : classifier_validate_shape shape = .ok shp) (hnc : 0 < nc) (hdecay : P.T.nonneg decay = true)
    (derive : Tens β → Δ) (dv : Δ) :
    ∃ m' sd, MaxRateClassifier___init__ P F m shape nc decay = .ok (m', ()) ∧
      nn_Module_state_dict (Module_get_extra_state P) m' = .ok sd ∧
      sdDict sd = (clfComp β Δ derive true).save ⟨tensOf (clfRates P shp nc).store, dv⟩ := by
  obtain ⟨m', h1, h2, wf⟩ := gen_classifier_init P F hF m shape shp nc decay hm hshape hnc hdecay
  have hRp : (clfRates P shp nc).param = true := rfl
  have hAp : (clfAsg P shp).param = false := by simp [clfAsg, to_param, torch_zeros]
  have hOp : (clfOcc P nc).param = false := by simp [clfOcc, to_param, torch_zeros]
  have hPp : (clfProp P shp nc).param = false := by simp [clfProp, to_param, torch_zeros]
  have hinf : m'.inferno = true := by rw [h2]; exact wf.inferno
  have hex : m'.extras = some [] := by
    rw [h2]
    simp [clfBuilt, register_load_state_dict_post_hook, regAttr, regData, hRp, hAp, hOp, hPp, nn_Module___init__]
  have hpar : m'.params = [("rates_", clfRates P shp nc)] := by
    rw [h2]
    simp [clfBuilt, register_load_state_dict_post_hook, regAttr, regData, hRp, hAp, hOp, hPp, nn_Module___init__,
      dset, dhas]
  have hnp : m'.nonpersist = ["assignments_", "occurrences_", "proportions_"] := by
    rw [h2]
    simp [clfBuilt, register_load_state_dict_post_hook, regAttr, regData, hRp, hAp, hOp, hPp, nn_Module___init__, sadd]
  have hbuf : (m'.buffers.filter fun kv => !m'.nonpersist.contains kv.1) = [] := by
    rw [hnp, h2]
    simp [clfBuilt, register_load_state_dict_post_hook, regAttr, regData, hRp, hAp, hOp, hPp, nn_Module___init__,
      dset, dhas]
  refine ⟨m', _, h1, state_dict_ok P m' [] hinf hex, ?_⟩
  have hn : (clfRates P shp nc).isNone = false := zeros_isNone P _ false
  rw [hpar, hbuf]
  simp [sdDict, sdTensors, hn, clfComp]

/-! ## `Accumulator`: the load post-hook drops the cached reductions -/

/-- the regenerated hook body empties both `functools.cache` cells and touches nothing else -/
theorem gen_accumulator_posthook {α : Type} (s : InfernoVerif.Gen.UpdProg.AccS α) :
    Accumulator_sdhook s = .ok ({ s with _pos_cache := none, _neg_cache := none }, ()) := rfl

/-- … in the model's words (`Persist.accComp … (clearCacheOnLoad := true)`): under any reading `f` of a tensor
position as the model's `Tens`, the caches after the hook are the model's `pc := none`, `nc := none` -/
theorem gen_accumulator_posthook_model {α : Type} (f : α → Tens β) (s s' : InfernoVerif.Gen.UpdProg.AccS α)
    (h : Accumulator_sdhook s = .ok (s', ())) :
    (s'._pos_cache.map (·.map f)) = (none : Option (Option (Tens β))) ∧
    (s'._neg_cache.map (·.map f)) = (none : Option (Option (Tens β))) ∧
    s'._pos = s._pos ∧ s'._neg = s._neg := by
  rw [gen_accumulator_posthook] at h
  cases h
  exact ⟨rfl, rfl, rfl, rfl⟩

/-! ## Non-vacuity: concrete worlds meeting the hypotheses -/

/-- a concrete environment: whole-number times, natural-number elements, no user properties, no submodules -/
def exEnv : PyEnv Nat Int where
  T := { pos := fun v => decide (0 < v), nonneg := fun v => decide (0 ≤ v), ceilDiv := fun dur dt => (dur + dt - 1) / dt }
  E := ⟨fun _ _ x => x, 0⟩
  isidentifier := fun _ => true
  fget := fun _ _ => .error .AttributeError
  fset := fun _ m _ => .ok (m, ())
  get_submodule := fun m p => if p == "" then .ok m else .error .AttributeError

/-- an inferno module right after `Module.__init__` -/
def exMod : Mod Nat Int :=
  { inferno := true, cls := [], inited := true, dict := [("training", .bool true)], extras := some [], params := [],
    buffers := [], nonpersist := [], modules := [], posthooks := [] }

/-- … which is what the regenerated `Module.__init__` makes of a blank object -/
example : Module___init__ exEnv ⟨true, [], false, [], none, [], [], [], [], []⟩ = .ok (exMod, ()) := by
  rw [gen_module_init exEnv _ rfl rfl]; rfl

/-- names that are nothing on `exMod` -/
theorem exAbsent (k : String) (h1 : (k == "training") = false) (h2 : (k == "_extras") = false)
    (h3 : ¬ k ∈ torchInternals) (h4 : str_contains_dot k = false) (h5 : (k == "") = false) : Absent exMod k where
  cls := rfl
  dict := by simp [exMod, List.lookup, h1]
  extras := by intro e he; cases he; rfl
  params := rfl
  buffers := rfl
  modules := rfl
  nonpersist := by simp [exMod]
  notExtras := h2
  notTorch := h3
  nodot := h4
  nonempty := h5

/-- a record `x` of step time 1 and duration 2 over a 2-element float value: the hypotheses of `gen_record_create` and
`gen_record_save_fresh` hold, `recordsz = 2`, and the saved dictionary is the model's -/
example : ∃ sd', nn_Module_state_dict (Module_get_extra_state exEnv)
      (recOwner exMod "x" (1 : Int) 2 false (unsqueeze0_repeat ⟨false, .init false [2] [5, 7]⟩ (recSizeInt exEnv 1 2 false))
        [(0, 2)] true false false) = .ok sd' ∧
    sdDict sd' = ringSave "x" ((2 : Nat), .init false [2] ⟨2, 0, [[5, 7], [5, 7]]⟩) := by
  have hd : Absent exMod (dataKey "x") :=
    exAbsent _ (by decide) (by decide) (by decide) (by decide) (by decide)
  have hk : Absent exMod (ptrKey "x") :=
    exAbsent _ (by decide) (by decide) (by decide) (by decide) (by decide)
  obtain ⟨sd', h1, h2, -⟩ := gen_record_save_fresh exEnv exMod "x" (1 : Int) 2 false ⟨false, .init false [2] [5, 7]⟩
    [(0, 2)] rfl rfl rfl rfl rfl (by intro d sh v h; cases h; rfl) hd hk
  refine ⟨sd', h1, ?_⟩
  rw [h2]
  have hs : recSizeInt exEnv (1 : Int) 2 false = 2 := by decide
  rw [hs]
  rfl

/-- tensor functions for the example (constant results: plain, non-`None` tensors) -/
def exF : TorchFns Nat :=
  ⟨fun _ => ⟨false, .empty false⟩, fun _ => ⟨false, .empty true⟩, fun x => x, fun _ _ => ⟨false, .empty true⟩⟩

/-- a blank object of class `MaxRateClassifier` (its properties are class attributes) -/
def exClfBlank : Mod Nat Int :=
  { inferno := true,
    cls := [("rates", .property true), ("assignments", .property false), ("occurrences", .property false),
            ("proportions", .property false), ("nclass", .property false), ("forward", .method)],
    inited := false, dict := [], extras := none, params := [], buffers := [], nonpersist := [], modules := [],
    posthooks := [] }

/-- the hypotheses of `gen_classifier_init` / `gen_classifier_posthook` hold for `MaxRateClassifier(3, 2)`: the
constructor succeeds, and the post-hook applies to what it built -/
example : ∃ m' m'', MaxRateClassifier___init__ exEnv exF exClfBlank (.int 3) 2 0 = .ok (m', ()) ∧
    MaxRateClassifier_sdhook exEnv exF (clfBuilt exEnv exClfBlank [3] 2 0) = .ok (m'', ()) := by
  have hF : FOK exF := ⟨fun _ => ⟨rfl, rfl⟩, fun _ => ⟨rfl, rfl⟩, fun _ _ => ⟨rfl, rfl⟩⟩
  have hfresh : ClfFresh exClfBlank :=
    ⟨rfl, rfl, by decide, ⟨by decide, by decide, by decide, by decide, by decide⟩,
      ⟨rfl, rfl, rfl, rfl, rfl⟩⟩
  obtain ⟨m', h1, -, wf⟩ := gen_classifier_init exEnv exF hF exClfBlank (.int 3) [3] 2 0 hfresh rfl (by decide)
    (by decide)
  obtain ⟨m'', h2, -⟩ := gen_classifier_posthook exEnv exF hF _ _ _ _ _ 2 wf (fun x => x)
    (fun _ => deriveF exF 2 ⟨false, .none⟩) (fun _ => rfl)
  exact ⟨m', m'', h1, h2⟩

end InfernoVerif.Gen.PersistProg
