import InfernoVerif.Gen.MonitorProg
import InfernoVerif.Gen.HookProg
import InfernoVerif.Model.Lifecycle
/-!
# Glue: the monitor side of the lifecycle machine IS the code of `inferno/observe/monitors.py`

`Gen/MonitorProg.lean` is regenerated on every run by `harness/progtx_monitor.py` from the *whole bodies* of
`Monitor.register`, `Monitor.reducer` / `latest` / `clear` / `view` / `dump` / `peek`, the hook bodies of
`InputMonitor`, `OutputMonitor`, `StateMonitor`, `DifferenceMonitor` (pre / post / `clear`), `MultiStateMonitor`, and
the five `partialconstructor`s.  The theorems state, method by method:

* `gen_monitor_register` — `Monitor.register()` is `Lifecycle.registerMon` (the operation `Monitor_register` of
  `Gen/LifecyclePrelude.lean`, i.e. what `CellTrainer.train(True)` runs on every pooled monitor), with the
  branches the model does not have stated separately: `gen_monitor_register_dead` / `_noref` (`RuntimeError`,
  nothing changes), `gen_monitor_register_module` (explicit module: `RuntimeError` when registered, else register
  and remember the weak reference), `gen_new_monitor` (= `Lifecycle.newMonitor`);
* `gen_monitor_deregister` — `Lifecycle.deregisterMon`; `hook_register_agrees` / `hook_deregister_agrees` — the
  vocabulary standing for `Hook.register` / `Hook.deregister` agrees with the programs regenerated from
  `infrastructure.py` for C16 (`Gen/HookProg.lean`) on the projected world `toHW`;
* `gen_monitor_call_input` / `_output` / `_state` / `_difference_pre` / `_difference_post` / `_difference` /
  `_multistate` — what is handed to the reducer (`handOver`): nothing when the filter rejects
  (`handOver_reject`), exactly one call with `*map_(x)` when it accepts (`handOver_accept`), `handOver_count`;
* `gen_monitor_forwarders`; `gen_partialconstructor_input` / `_output` / `_state` / `_difference` / `_multistate`.

What the abstraction forgets / what is assumed (not papered over):
* the model's monitors are post-hook monitors (`as_prehook=False`, as every shipped trainer builds them): the
  vocabulary `ContextualHook_register` registers a forward hook.  `as_prehook` is visible only in the
  `partialconstructor` theorems; `Monitor.__init__` and the subclasses' `__init__` (which turn `as_prehook` /
  `prepend` into `prehook=` / `posthook_kwargs=`, and hold the default `filter_` / `map_` lambdas, the `f - i` of
  `DifferenceMonitor` among them) are NOT regenerated;
* `gen_monitor_register` assumes `self._observed` refers to the layer the model records for the monitor and that
  this layer is alive — the model has no dead layers; the world has (`layerAlive`), and the other branches are
  proved for it.  Between `self._observed()` in the test and `module = self._observed()` the referent is assumed
  not to die (one thread, no allocation in between);
* a `Module` is truthy (`if module:`): true for `inferno` layers / cells; a container module defining `__len__`
  (an empty `nn.Sequential`) would take the `elif` branch — outside the model;
* user callables and `rgetattr` are functions of the world that may raise; the reducer only logs (what it does
  with an observation is C07 / C08);
* FINDING in the real code: `DifferenceMonitor.partialconstructor` drops its `op_` argument
  (`gen_partialconstructor_difference`).
-/

set_option linter.unusedSimpArgs false
set_option linter.unusedVariables false
namespace InfernoVerif.Gen.MonitorProg
open InfernoVerif.Lifecycle InfernoVerif.Gen.MonitorPrelude
variable {V R F : Type}

/-! ## Registration -/

/-- `ContextualHook.register(self, l)` on an unregistered monitor is the model's `registerMon` on the state whose
monitor records `l` as its layer -/
theorem hook_register_ok (w : MW V) (l : Nat) (h : (w.st.mons w.me).handle = none) :
    ContextualHook_register w l = .ok { w with st := (registerMon
      (setMon w.st w.me { w.st.mons w.me with layer := l }) w.me) } := by
  simp [ContextualHook_register, h, registerMon, setMon]
  congr 1
  funext i
  by_cases hi : i = w.me <;> simp [hi, h]

/-- … and with the layer the monitor already records, exactly `registerMon` -/
theorem hook_register_same (w : MW V) (h : (w.st.mons w.me).handle = none) :
    ContextualHook_register w (w.st.mons w.me).layer = .ok { w with st := registerMon w.st w.me } := by
  simp [ContextualHook_register, h, registerMon, setMon]

/-- `ContextualHook.register` on a registered monitor raises `RuntimeError`, the world unchanged -/
theorem hook_register_err (w : MW V) (i : Nat) (l : Nat) (h : (w.st.mons w.me).handle = some i) :
    ContextualHook_register w l = .error (.RuntimeError, w) := by
  simp [ContextualHook_register, h]

/-- **`Monitor.register()` without argument = `Lifecycle.registerMon`** (both branches: registered → nothing
happens; unregistered → new handle at the end / front of the hook list), provided `self._observed` refers to the layer
the monitor records and that layer is alive (the model has no dead layers) -/
theorem gen_monitor_register (w : MW V)
    (hobs : w.observed = some (w.st.mons w.me).layer)
    (halive : w.layerAlive (w.st.mons w.me).layer = true) :
    Monitor_register w none = .ok ({ w with st := registerMon w.st w.me }, ()) := by
  cases h : (w.st.mons w.me).handle with
  | some i =>
    simp [Monitor_register, Hook_registered, h, registerMon, pure, Except.pure]
  | none =>
    simp [Monitor_register, Hook_registered, h, weakref_resolve, hobs, halive, hook_register_same, bind, Except.bind,
      pure, Except.pure]

/-- the dead-layer branch: an unregistered monitor whose weak reference no longer resolves raises `RuntimeError` and
changes nothing (the model has no such transition: its layers live for the whole program; known finding D40 is
about the POOL keeping such monitors listed) -/
theorem gen_monitor_register_dead (w : MW V) (l : Nat)
    (hreg : (w.st.mons w.me).handle = none) (hobs : w.observed = some l) (hdead : w.layerAlive l = false) :
    Monitor_register w none = .error (.RuntimeError, w) := by
  simp [Monitor_register, Hook_registered, hreg, weakref_resolve, hobs, hdead, throw, throwThe, MonadExceptOf.throw]

/-- … and so does an unregistered monitor that never had a module (`self._observed is None`) -/
theorem gen_monitor_register_noref (w : MW V)
    (hreg : (w.st.mons w.me).handle = none) (hobs : w.observed = none) :
    Monitor_register w none = .error (.RuntimeError, w) := by
  simp [Monitor_register, Hook_registered, hreg, weakref_resolve, hobs, throw, throwThe, MonadExceptOf.throw]

/-- `Monitor.register(module)` with an explicit module: `RuntimeError` (world unchanged) when registered — the
`except RuntimeError: raise RuntimeError` block —, otherwise `registerMon` on `module` AND `self._observed =
weakref.ref(module)` (the `else:` block of the `try`) -/
theorem gen_monitor_register_module (w : MW V) (l : Nat) :
    Monitor_register w (some l) =
      match (w.st.mons w.me).handle with
      | some _ => .error (.RuntimeError, w)
      | none => .ok ({ w with st := registerMon (setMon w.st w.me { w.st.mons w.me with layer := l }) w.me,
                              observed := some l }, ()) := by
  cases h : (w.st.mons w.me).handle with
  | some i =>
    simp [Monitor_register, hook_register_err w i l h, throw, throwThe, MonadExceptOf.throw]
  | none =>
    simp [Monitor_register, hook_register_ok w l h, weakref_ref, pure, Except.pure]

/-- **`Monitor.deregister()` (inherited `Hook.deregister`) = `Lifecycle.deregisterMon`** -/
theorem gen_monitor_deregister (w : MW V) :
    Hook_deregister w = { w with st := deregisterMon w.st w.me } := rfl

/-- constructing a monitor on a layer (`Monitor.__init__`: `self._observed = None; if module is not None:
self.register(module)`) is the model's `newMonitor`: the fresh, unregistered record followed by
`Monitor.register(layer)` -/
theorem gen_new_monitor (w : MW V) (s : State) (t : Nat) (prepend : Bool) (path : Path) (tags : Option Nat)
    (reads : List Nat) (cell : Nat)
    (hst : w.st = setMon { s with nMons := s.nMons + 1 } s.nMons
      ⟨t, true, none, prepend, path, tags, reads, cell, 0, 0, cellLayer s cell⟩)
    (hme : w.me = s.nMons) :
    Monitor_register w (some (cellLayer s cell)) =
      .ok ({ w with st := (newMonitor s t prepend path tags reads cell).1, observed := some (cellLayer s cell) }, ()) := by
  have hh : (w.st.mons w.me).handle = none := by simp [hst, hme, setMon]
  have hl : (w.st.mons w.me).layer = cellLayer s cell := by simp [hst, hme, setMon]
  have hreg := hook_register_same w hh
  rw [hl] at hreg
  rw [show (newMonitor s t prepend path tags reads cell).1 = registerMon w.st w.me from by
    simp [newMonitor, hst, hme]]
  simp [Monitor_register, hreg, weakref_ref, pure, Except.pure]

/-! ## Reuse of the regenerated `Hook` programs -/

/-- the hook dictionary of the model as torch's: every entry is the weak lambda of a post-hook -/
def toPost (post : List (Nat × Nat)) : List (Nat × HookPrelude.Callback) :=
  post.map fun e => (e.1, ⟨e.2, .post⟩)

/-- the monitor `w.me` as the `self` of the regenerated `Hook` methods (`Gen/HookProg.lean`, property C16): a
post-hook-only hook object (`as_prehook=False`) whose `prepend` keyword is the monitor's -/
def toHW (w : MW V) (training : Bool) (fin : Option (Option Nat × Option Nat)) : HookPrelude.HW :=
  { module := ⟨training, w.st.nextId, [], toPost w.st.post⟩, heap := [], me := w.me,
    obj := ⟨⟨.plain, false, true, false, (w.st.mons w.me).prepend⟩, true, true, true, none,
            (w.st.mons w.me).handle, fin⟩ }

/-- REUSE of the regenerated `Hook.register` (`Gen/HookProg.lean`): the vocabulary `ContextualHook_register` and the
program `HookProg.Hook_register` on the projected world agree — same exception, or the same hook list, handle
counter and stored handle -/
theorem hook_register_agrees (w : MW V) (l : Nat) (training : Bool) (fin : Option (Option Nat × Option Nat)) :
    match ContextualHook_register w l, HookProg.Hook_register (toHW w training fin) with
    | .ok w', .ok (h', ()) =>
        h'.module.post = toPost w'.st.post ∧ h'.module.nextId = w'.st.nextId ∧ h'.module.pre = [] ∧
        h'.obj.postH = (w'.st.mons w'.me).handle ∧ h'.obj.preH = none
    | .error (e, w'), .error (e', h') => e = .RuntimeError ∧ e' = .RuntimeError ∧ w' = w ∧ h' = toHW w training fin
    | _, _ => False := by
  cases h : (w.st.mons w.me).handle with
  | some i =>
    simp [ContextualHook_register, h, HookProg.Hook_register, HookProg.Hook_registered, toHW, HookPrelude.handleOf,
      bind, Except.bind, pure, Except.pure, throw, throwThe, MonadExceptOf.throw]
  | none =>
    cases hp : (w.st.mons w.me).prepend <;> cases fin <;>
    simp [ContextualHook_register, h, hp, HookProg.Hook_register, HookProg.Hook_registered, toHW, HookPrelude.handleOf,
      HookPrelude.argtest_instance_Module, HookPrelude.register_forward_hook, HookPrelude.weakref_ref,
      HookPrelude.finalizer_detach, HookPrelude.weakref_finalize, toPost, insertPost, setMon,
      bind, Except.bind, pure, Except.pure, throw, throwThe, MonadExceptOf.throw]

/-- REUSE of the regenerated `Hook.deregister`: it never raises and agrees with the vocabulary `Hook_deregister` -/
theorem hook_deregister_agrees (w : MW V) (training : Bool) (fin : Option (Option Nat × Option Nat)) :
    match HookProg.Hook_deregister (toHW w training fin) with
    | .ok (h', ()) =>
        h'.module.post = toPost (Hook_deregister w).st.post ∧ h'.module.nextId = (Hook_deregister w).st.nextId ∧
        h'.module.pre = [] ∧ h'.obj.postH = ((Hook_deregister w).st.mons w.me).handle ∧ h'.obj.preH = none
    | .error _ => False := by
  cases h : (w.st.mons w.me).handle <;> cases fin <;>
  simp [Hook_deregister, h, HookProg.Hook_deregister, HookProg._detach_handles, toHW, HookPrelude.handleOf,
      HookPrelude.viaModule, HookPrelude.RemovableHandle_remove, HookPrelude.finalizer_detach, toPost, removeHandle,
      setMon, List.foldlM, List.filter_map, Function.comp_def,
      bind, Except.bind, pure, Except.pure]

/-! ## Hook bodies: what is handed to the reducer -/

/-- what a hook body does once the value `x` it observed is known: nothing when the filter rejects, one reducer
call with the star-unpacked `map_(x)` when it accepts; an exception of a user callable propagates with the world
unchanged -/
def handOver (w : MW V) (x : V) : Except (Err × MW V) (MW V × Unit) :=
  match w.fns.filter_ x with
  | .error e => .error (e, w)
  | .ok false => .ok (w, ())
  | .ok true =>
    match w.fns.map_ x with
    | .error e => .error (e, w)
    | .ok xs => .ok ({ w with log := w.log ++ [.call xs] }, ())

/-- the same with the two-argument callables of `DifferenceMonitor` -/
def handOver2 (w : MW V) (x y : V) : Except (Err × MW V) (MW V × Unit) :=
  match w.fns.filter2_ x y with
  | .error e => .error (e, w)
  | .ok false => .ok (w, ())
  | .ok true =>
    match w.fns.map2_ x y with
    | .error e => .error (e, w)
    | .ok xs => .ok ({ w with log := w.log ++ [.call xs] }, ())

/-- a reducer call is one more observation -/
theorem observations_call (log : List (RCall V)) (xs : List V) :
    observations (log ++ [.call xs]) = observations log + 1 := by
  simp [observations, List.filter_append]

/-- nothing is handed to the reducer when the filter rejects -/
theorem handOver_reject (w : MW V) (x : V) (h : w.fns.filter_ x = .ok false) : handOver w x = .ok (w, ()) := by
  simp [handOver, h]

/-- exactly `*map_(x)` is handed to the reducer when the filter accepts -/
theorem handOver_accept (w : MW V) (x : V) (xs : List V) (h : w.fns.filter_ x = .ok true)
    (hm : w.fns.map_ x = .ok xs) :
    handOver w x = .ok ({ w with log := w.log ++ [.call xs] }, ()) := by
  simp [handOver, h, hm]

/-- a hook body never touches the registration state, and the number of observations grows by one exactly when the
filter accepts (what `Lifecycle.countStep` counts per hook that ran) -/
theorem handOver_count (w w' : MW V) (x : V) (h : handOver w x = .ok (w', ())) :
    w'.st = w.st ∧ observations w'.log = observations w.log + (match w.fns.filter_ x with | .ok true => 1 | _ => 0) := by
  unfold handOver at h
  cases hf : w.fns.filter_ x with
  | error e => simp [hf] at h
  | ok b =>
    cases b with
    | false => simp [hf] at h; subst h; simp
    | true =>
      cases hm : w.fns.map_ x with
      | error e => simp [hf, hm] at h
      | ok xs => simp [hf, hm] at h; subst h; simp [observations_call]

/-- `InputMonitor._monitor_call`: the INPUT tuple `args` goes to `filter_` and `map_` -/
theorem gen_monitor_call_input (w : MW V) (module : Nat) (args : V) :
    InputMonitor__monitor_call w module args = handOver w args := by
  unfold InputMonitor__monitor_call handOver
  cases hf : w.fns.filter_ args with
  | error e => simp [call_filter, hf, bind, Except.bind]
  | ok b =>
    cases b with
    | false => simp [call_filter, hf, bind, Except.bind, pure, Except.pure]
    | true =>
      cases hm : w.fns.map_ args with
      | error e => simp [call_filter, call_map, hf, hm, bind, Except.bind]
      | ok xs => simp [call_filter, call_map, hf, hm, bind, Except.bind, pure, Except.pure, reducer_do]

/-- `OutputMonitor._monitor_call`: the OUTPUT goes to `filter_` and `map_` (the reducer reached through the property
`self.reducer`) -/
theorem gen_monitor_call_output (w : MW V) (module : Nat) (args output : V) :
    OutputMonitor__monitor_call w module args output = handOver w output := by
  unfold OutputMonitor__monitor_call handOver
  cases hf : w.fns.filter_ output with
  | error e => simp [call_filter, hf, bind, Except.bind]
  | ok b =>
    cases b with
    | false => simp [call_filter, hf, bind, Except.bind, pure, Except.pure]
    | true =>
      cases hm : w.fns.map_ output with
      | error e => simp [call_filter, call_map, Monitor_reducer, hf, hm, bind, Except.bind, pure, Except.pure]
      | ok xs => simp [call_filter, call_map, Monitor_reducer, hf, hm, bind, Except.bind, pure, Except.pure, reducer_do]

/-- `StateMonitor._monitor_call`: `rgetattr(module, self.__observed_attr)` (its `AttributeError` propagates) goes to
`filter_` and `map_` -/
theorem gen_monitor_call_state (w : MW V) (module : Nat) (args : V) :
    StateMonitor__monitor_call w module args =
      match w.fns.rgetattr module w.attr with
      | .error e => .error (e, w)
      | .ok res => handOver w res := by
  unfold StateMonitor__monitor_call handOver
  cases hr : w.fns.rgetattr module w.attr with
  | error e => simp [rgetattr, hr, bind, Except.bind]
  | ok res =>
    cases hf : w.fns.filter_ res with
    | error e => simp [rgetattr, hr, call_filter, hf, bind, Except.bind]
    | ok b =>
      cases b with
      | false => simp [rgetattr, hr, call_filter, hf, bind, Except.bind, pure, Except.pure]
      | true =>
        cases hm : w.fns.map_ res with
        | error e => simp [rgetattr, hr, call_filter, call_map, hf, hm, bind, Except.bind]
        | ok xs => simp [rgetattr, hr, call_filter, call_map, hf, hm, bind, Except.bind, pure, Except.pure, reducer_do]

/-- `DifferenceMonitor._monitor_pre_call` only stores the pre-forward value in `self.__data` -/
theorem gen_monitor_call_difference_pre (w : MW V) (module : Nat) (args : V) :
    DifferenceMonitor__monitor_pre_call w module args =
      match w.fns.rgetattr module w.attr with
      | .error e => .error (e, w)
      | .ok pre => .ok ({ w with data := pre }, ()) := by
  unfold DifferenceMonitor__monitor_pre_call
  cases hr : w.fns.rgetattr module w.attr with
  | error e => simp [rgetattr, hr, bind, Except.bind]
  | ok res => simp [rgetattr, hr, bind, Except.bind, pure, Except.pure]

/-- `DifferenceMonitor._monitor_post_call`: `(post-forward value, self.__data)` IN THIS ORDER go to `filter_` and
`map_` (the default `map_` is `op(final, initial)` with `op = f - i`: post − pre; the default lambdas live in
`__init__`, which is not regenerated) -/
theorem gen_monitor_call_difference_post (w : MW V) (module : Nat) (args : V) :
    DifferenceMonitor__monitor_post_call w module args =
      match w.fns.rgetattr module w.attr with
      | .error e => .error (e, w)
      | .ok post => handOver2 w post w.data := by
  unfold DifferenceMonitor__monitor_post_call handOver2
  cases hr : w.fns.rgetattr module w.attr with
  | error e => simp [rgetattr, hr, bind, Except.bind]
  | ok res =>
    cases hf : w.fns.filter2_ res w.data with
    | error e => simp [rgetattr, hr, call_filter2, hf, bind, Except.bind]
    | ok b =>
      cases b with
      | false => simp [rgetattr, hr, call_filter2, hf, bind, Except.bind, pure, Except.pure]
      | true =>
        cases hm : w.fns.map2_ res w.data with
        | error e => simp [rgetattr, hr, call_filter2, call_map2, hf, hm, bind, Except.bind]
        | ok xs => simp [rgetattr, hr, call_filter2, call_map2, hf, hm, bind, Except.bind, pure, Except.pure, reducer_do]

/-- pre-forward hook on snapshot `m0`, then post-forward hook on snapshot `m1` -/
theorem gen_monitor_call_difference (w : MW V) (m0 m1 : Nat) (a0 a1 pre post : V)
    (h0 : w.fns.rgetattr m0 w.attr = .ok pre) (h1 : w.fns.rgetattr m1 w.attr = .ok post) :
    (DifferenceMonitor__monitor_pre_call w m0 a0 >>= fun r => DifferenceMonitor__monitor_post_call r.1 m1 a1) =
      handOver2 { w with data := pre } post pre := by
  rw [gen_monitor_call_difference_pre, h0]
  simp [bind, Except.bind, gen_monitor_call_difference_post, h1]

/-- the reads of a `MultiStateMonitor`: one `rgetattr` per attribute, in order; the first failure wins -/
def readAll (w : MW V) (module : Nat) : List Nat → Except Err (List V)
  | [] => .ok []
  | a :: as =>
    match w.fns.rgetattr module a with
    | .error e => .error e
    | .ok v =>
      match readAll w module as with
      | .error e => .error e
      | .ok vs => .ok (v :: vs)

/-- the generator of `MultiStateMonitor._monitor_call` is `readAll` -/
theorem mapE_rgetattr (w : MW V) (module : Nat) (as : List Nat) :
    mapE (fun oa => rgetattr w module oa) as =
      match readAll w module as with
      | .error e => .error (e, w)
      | .ok vs => .ok vs := by
  induction as with
  | nil => simp [mapE, readAll]
  | cons a as ih =>
    simp only [mapE, readAll]
    rw [ih]
    simp only [rgetattr]
    cases hr : w.fns.rgetattr module a with
    | error e => simp
    | ok v =>
      cases hrr : readAll w module as with
      | error e => simp
      | ok vs => simp

/-- `MultiStateMonitor._monitor_call`: the TUPLE of the attributes, read in order, goes to `filter_` and `map_` -/
theorem gen_monitor_call_multistate (w : MW V) (module : Nat) (args : V) :
    MultiStateMonitor__monitor_call w module args =
      match readAll w module w.attrs with
      | .error e => .error (e, w)
      | .ok vs => handOver w (w.fns.tuple vs) := by
  unfold MultiStateMonitor__monitor_call handOver
  rw [mapE_rgetattr]
  cases hr : readAll w module w.attrs with
  | error e => simp [bind, Except.bind]
  | ok vs =>
    cases hf : w.fns.filter_ (w.fns.tuple vs) with
    | error e => simp [call_filter, hf, bind, Except.bind]
    | ok b =>
      cases b with
      | false => simp [call_filter, hf, bind, Except.bind, pure, Except.pure]
      | true =>
        cases hm : w.fns.map_ (w.fns.tuple vs) with
        | error e => simp [call_filter, call_map, hf, hm, bind, Except.bind]
        | ok xs => simp [call_filter, call_map, hf, hm, bind, Except.bind, pure, Except.pure, reducer_do]

/-- `view` / `peek` / `dump` / `latest` / `clear` (and `DifferenceMonitor.clear`, which also forgets `__data`) forward
`*args` / `**kwargs` unchanged to the reducer — one logged call, nothing else changes — and return its answer;
`reducer` returns the reducer -/
theorem gen_monitor_forwarders (w : MW V) (args kwargs : V) :
    Monitor_view w args kwargs = .ok ({ w with log := w.log ++ [.view args kwargs] }, w.fns.result (.view args kwargs)) ∧
    Monitor_peek w args kwargs = .ok ({ w with log := w.log ++ [.peek args kwargs] }, w.fns.result (.peek args kwargs)) ∧
    Monitor_dump w args kwargs = .ok ({ w with log := w.log ++ [.dump args kwargs] }, w.fns.result (.dump args kwargs)) ∧
    Monitor_latest w = .ok ({ w with log := w.log ++ [.latest] }, w.fns.result .latest) ∧
    Monitor_clear w kwargs = .ok ({ w with log := w.log ++ [.clear kwargs] }, w.fns.result (.clear kwargs)) ∧
    DifferenceMonitor_clear w kwargs =
      .ok ({ w with data := w.fns.none, log := w.log ++ [.clear kwargs] }, w.fns.result (.clear kwargs)) ∧
    Monitor_reducer w = .ok (w, ReducerRef.reducer_) := by
  refine ⟨rfl, rfl, rfl, rfl, rfl, rfl, rfl⟩

/-! ## Partial constructors: the frozen configuration, on the layer supplied later -/

/-- `InputMonitor.partialconstructor(…)(attr, module)`: every frozen argument reaches `cls(…)` under its own keyword;
the monitor is registered on the SUBMODULE `rgetattr(module, attr)`; no `attr` is passed -/
theorem gen_partialconstructor_input (reducer : R) (tu eu prepend : Bool) (f m : Option F) (attr module : Nat) :
    InputMonitor_partialconstructor reducer tu eu prepend f m attr module =
      { cls := .InputMonitor, reducer := reducer, attr := none, subattrs := none, module := .sub module attr,
        as_prehook := none, train_update := some tu, eval_update := some eu, prepend := some prepend,
        filter_ := f, map_ := m, op_ := none } := rfl

/-- `OutputMonitor.partialconstructor`: as `InputMonitor`'s -/
theorem gen_partialconstructor_output (reducer : R) (tu eu prepend : Bool) (f m : Option F) (attr module : Nat) :
    OutputMonitor_partialconstructor reducer tu eu prepend f m attr module =
      { cls := .OutputMonitor, reducer := reducer, attr := none, subattrs := none, module := .sub module attr,
        as_prehook := none, train_update := some tu, eval_update := some eu, prepend := some prepend,
        filter_ := f, map_ := m, op_ := none } := rfl

/-- `StateMonitor.partialconstructor`: registered on `module` itself, reading `attr` -/
theorem gen_partialconstructor_state (reducer : R) (pre tu eu prepend : Bool) (f m : Option F) (attr module : Nat) :
    StateMonitor_partialconstructor reducer pre tu eu prepend f m attr module =
      { cls := .StateMonitor, reducer := reducer, attr := some attr, subattrs := none, module := .module module,
        as_prehook := some pre, train_update := some tu, eval_update := some eu, prepend := some prepend,
        filter_ := f, map_ := m, op_ := none } := rfl

/-- `DifferenceMonitor.partialconstructor`.  FINDING (real code, not papered over): the parameter `op_` is accepted
and documented but NEVER passed to `cls(…)` — whatever `op` is frozen, the constructed monitor subtracts -/
theorem gen_partialconstructor_difference (reducer : R) (tu eu prepend : Bool) (f m op : Option F) (attr module : Nat) :
    DifferenceMonitor_partialconstructor reducer tu eu prepend f m op attr module =
      { cls := .DifferenceMonitor, reducer := reducer, attr := some attr, subattrs := none, module := .module module,
        as_prehook := none, train_update := some tu, eval_update := some eu, prepend := some prepend,
        filter_ := f, map_ := m, op_ := none } := rfl

/-- `MultiStateMonitor.partialconstructor`: `subattrs` frozen, `attr` supplied later -/
theorem gen_partialconstructor_multistate (reducer : R) (sub : List Nat) (pre tu eu prepend : Bool) (f m : Option F)
    (attr module : Nat) :
    MultiStateMonitor_partialconstructor reducer sub pre tu eu prepend f m attr module =
      { cls := .MultiStateMonitor, reducer := reducer, attr := some attr, subattrs := some sub,
        module := .module module, as_prehook := some pre, train_update := some tu, eval_update := some eu,
        prepend := some prepend, filter_ := f, map_ := m, op_ := none } := rfl

/-- the closure of the shipped trainers (`StateMonitor.partialconstructor(reducer, prepend=True, …)`) builds the
monitor the pool-side vocabulary `LifecyclePrelude.Ctor` records: its `prepend` is the frozen one -/
theorem gen_partialconstructor_prepend (reducer : R) (pre tu eu prepend : Bool) (f m : Option F) (attr module : Nat) :
    (StateMonitor_partialconstructor reducer pre tu eu prepend f m attr module).prepend = some prepend ∧
    (StateMonitor_partialconstructor reducer pre tu eu prepend f m attr module).module = .module module := ⟨rfl, rfl⟩

end InfernoVerif.Gen.MonitorProg
