import InfernoVerif.Lemmas.Select
import InfernoVerif.Lemmas.SelectCast
import Mathlib.Analysis.SpecialFunctions.Exp
/-!
# C02 — Time-indexed `select` / `insert` hit the right samples and interpolate between them

Property theorems only.  Model: `Model/Select.lean` (code shaped, generic over the arithmetic
`Ops α`; the driver executes it at `ratOps` / `floatOps`); the theorems are about its instance
`realOps` over `ℝ` (`Lemmas/Select.lean`) and the GENERATED kernels `Gen/InterpolationR.lean`,
`Gen/ExtrapolationR.lean`.  One storage column `r : Ring ℝ` (a scalar-time call acts identically on
every column; a tensor-time call addresses one column per element).  `r.read k` is the stored
observation `k` steps before the pointer (C01: `read_refines`).

Standing hypotheses, exactly those the code's domain has: `0 < dt`, `0 ≤ tol` (audit below),
`r.WF` (`n ≥ 1`, pointer `< n`, `n` slots), and for the positive statements `t` in range
`InRange n dt tol t :↔ −tol ≤ t ≤ dt·(n−1)+tol`.  Everything is for EVERY ring size, pointer
position, offset, time, kernel.

* `select_on_grid(_nearest)`, `select_off_grid`, `on_or_off_grid`, `select_scalar_eq_tensor`,
  `select_eq_spec`, `select_rejects_out_of_range`, `select_valueError_iff`;
* `insert_on_grid_exact`, `insert_off_grid`, `insert_touches_only_brackets`,
  `insert_scalar_eq_tensor`, `insert_eq_spec`, `insert_rejects_out_of_range`, `insert_valueError_iff`;
* `insert_then_select` (general), `insert_then_select_on_grid` (any pair) and one theorem per shipped
  matching pair: `…_previous`, `…_next`, `…_nearest`, `…_linear_forward`, `…_linear_backward`,
  `…_expdecay`, `…_expratedecay`, `…_neighbors` (+ `…_neighbors_linear`);
* `exact_select_is_real_select`, `exact_insert_is_real_insert`, `exact_kernels_are_generated`: the exact
  (`Rat`) run the driver executes is the `ℝ` run the theorems are about;
* negation witnesses, the `tol < 0` audit, non-vacuity examples.
-/
namespace InfernoVerif.Select
open InfernoVerif.Ring
open InfernoVerif.Gen.InterpolationR InfernoVerif.Gen.ExtrapolationR
open Classical

/-! ## select -/

/-- **On the grid (nearest multiple).**  If SOME multiple `k·dt` is within tolerance of `t`, both
`select` paths return — without interpolating — the stored observation `offset + k'` steps before the
pointer, `k' = round(t/dt)` being a multiple at least as close to `t` as `k`. -/
theorem select_on_grid_nearest (interp : Interp ℝ) (r : Ring.Ring ℝ) (hr : r.WF) (dt tol t : ℝ)
    (offset : ℤ) (hdt : 0 < dt) (hin : InRange r.n dt tol t) (k : ℤ) (hk : |(k : ℝ) * dt - t| ≤ tol) :
    ∃ v, r.read (offset + rhe (t / dt)) = some v ∧
      |(rhe (t / dt) : ℝ) * dt - t| ≤ |(k : ℝ) * dt - t| ∧
      selectScalar realOps interp r dt tol t offset = .ok v ∧
      selectTensor realOps interp r dt tol t offset = .ok v := by
  have hon : OnGrid dt tol t := (onGrid_iff_exists dt tol t hdt).mpr ⟨k, hk⟩
  obtain ⟨v, hv⟩ := read_some r hr (offset + rhe (t / dt))
  refine ⟨v, hv, ?_, ?_, ?_⟩
  · rw [grid_dist dt t hdt, grid_dist dt t hdt]
    exact mul_le_mul_of_nonneg_left (rhe_nearest _ k) hdt.le
  · rw [selectScalar_on interp r dt tol t offset hin hon]; unfold readO; rw [hv]
  · rw [selectTensor_on interp r dt tol t offset hin hon]; unfold readO; rw [hv]

/-- **On the grid.**  `t` within tolerance of `k·dt` (tolerance below half a step, so that `k` is
determined): both `select` paths return exactly the stored observation at `offset + k`. -/
theorem select_on_grid (interp : Interp ℝ) (r : Ring.Ring ℝ) (hr : r.WF) (dt tol t : ℝ)
    (offset : ℤ) (hdt : 0 < dt) (h2 : 2 * tol < dt) (hin : InRange r.n dt tol t)
    (k : ℤ) (hk : |(k : ℝ) * dt - t| ≤ tol) :
    ∃ v, r.read (offset + k) = some v ∧
      selectScalar realOps interp r dt tol t offset = .ok v ∧
      selectTensor realOps interp r dt tol t offset = .ok v := by
  obtain ⟨v, hv, _, h3, h4⟩ := select_on_grid_nearest interp r hr dt tol t offset hdt hin k hk
  rw [grid_unique dt tol t hdt h2 k hk] at hv
  exact ⟨v, hv, h3, h4⟩

/-- **Off the grid.**  No multiple of `dt` within tolerance: both `select` paths return
`interp older newer elapsed dt` with `older` the observation at `offset + ⌈t/dt⌉`, `newer` the one
at `offset + ⌊t/dt⌋` (both inside the record: `0 ≤ ⌊t/dt⌋`, `⌈t/dt⌉ = ⌊t/dt⌋ + 1 ≤ n − 1`) and
`elapsed = ⌈t/dt⌉·dt − t ∈ (0, dt)` the time elapsed since the older one. -/
theorem select_off_grid (interp : Interp ℝ) (r : Ring.Ring ℝ) (hr : r.WF) (dt tol t : ℝ)
    (offset : ℤ) (hdt : 0 < dt) (htol : 0 ≤ tol) (hin : InRange r.n dt tol t)
    (hoff : ∀ k : ℤ, tol < |(k : ℝ) * dt - t|) :
    ∃ older newer, r.read (offset + ⌈t / dt⌉) = some older ∧ r.read (offset + ⌊t / dt⌋) = some newer ∧
      selectScalar realOps interp r dt tol t offset
        = .ok (interp older newer ((⌈t / dt⌉ : ℝ) * dt - t) dt) ∧
      selectTensor realOps interp r dt tol t offset
        = .ok (interp older newer ((⌈t / dt⌉ : ℝ) * dt - t) dt) ∧
      ⌈t / dt⌉ = ⌊t / dt⌋ + 1 ∧ 0 ≤ ⌊t / dt⌋ ∧ ⌈t / dt⌉ ≤ (r.n : ℤ) - 1 ∧
      0 < (⌈t / dt⌉ : ℝ) * dt - t ∧ (⌈t / dt⌉ : ℝ) * dt - t < dt := by
  have hng : ¬ OnGrid dt tol t := by
    rw [onGrid_iff_exists dt tol t hdt]; rintro ⟨k, hk⟩; exact absurd hk (not_le.mpr (hoff k))
  obtain ⟨_, hceil, hf0, hcn, hsa, hs0, hs1⟩ := offGrid_facts hdt htol hin hng
  obtain ⟨p, hp⟩ := read_some r hr (offset + ⌈t / dt⌉)
  obtain ⟨q, hq⟩ := read_some r hr (offset + ⌊t / dt⌋)
  refine ⟨p, q, hp, hq, ?_, ?_, hceil, hf0, hcn, hs0, hs1⟩
  · rw [selectScalar_off interp r dt tol t offset hin hng, hp, hq, withPair_some, hsa]
  · rw [selectTensor_off interp r dt tol t offset hin hng (by omega), hp, hq, withPair_some, hsa]

/-- The dichotomy is exhaustive: a time is on the grid (some multiple within tolerance) or off it
(every multiple farther than the tolerance). -/
theorem on_or_off_grid (dt tol t : ℝ) :
    (∃ k : ℤ, |(k : ℝ) * dt - t| ≤ tol) ∨ (∀ k : ℤ, tol < |(k : ℝ) * dt - t|) := by
  by_cases h : ∃ k : ℤ, |(k : ℝ) * dt - t| ≤ tol
  · exact Or.inl h
  · right; intro k; by_contra hk; exact h ⟨k, not_lt.mp hk⟩

/-- **Scalar-time and tensor-time `select` agree element-wise**, for EVERY interpolation kernel,
ring size, pointer, offset, and every time (in range or not; no well-formedness needed). -/
theorem select_scalar_eq_tensor (interp : Interp ℝ) (r : Ring.Ring ℝ) (dt tol t : ℝ) (offset : ℤ)
    (hdt : 0 < dt) (htol : 0 ≤ tol) :
    selectScalar realOps interp r dt tol t offset = selectTensor realOps interp r dt tol t offset := by
  by_cases hin : InRange r.n dt tol t
  · by_cases hon : OnGrid dt tol t
    · rw [selectScalar_on interp r dt tol t offset hin hon, selectTensor_on interp r dt tol t offset hin hon]
    · obtain ⟨_, hceil, _⟩ := offGrid_facts hdt htol hin hon
      rw [selectScalar_off interp r dt tol t offset hin hon,
        selectTensor_off interp r dt tol t offset hin hon (by omega)]
  · rw [selectScalar_out interp r dt tol t offset hin, selectTensor_out interp r dt tol t offset hin]

/-- The code-shaped `select` equals the property's wording (`specSelect` on the history
`r.abs = [view 0, …, view (n−1)]`), for every input. -/
theorem select_eq_spec (interp : Interp ℝ) (r : Ring.Ring ℝ) (hr : r.WF) (dt tol t : ℝ) (offset : ℤ)
    (hdt : 0 < dt) (htol : 0 ≤ tol) :
    selectScalar realOps interp r dt tol t offset = specSelect realOps interp r.abs dt tol t offset ∧
    selectTensor realOps interp r dt tol t offset = specSelect realOps interp r.abs dt tol t offset := by
  rw [← select_scalar_eq_tensor interp r dt tol t offset hdt htol, and_self]
  unfold specSelect
  rw [abs_length r hr]
  by_cases hin : InRange r.n dt tol t
  · rw [(inRange_iff _ _ _ _).mpr hin]
    by_cases hon : OnGrid dt tol t
    · have : realOps.le (realOps.abs (realOps.sub (realOps.mul (realOps.ofInt (realOps.round (realOps.div t dt))) dt) t)) tol = true := by
        have := hon; unfold OnGrid at this; rw [mul_comm] at this
        simpa [realOps] using this
      simp only [this, Bool.not_true, Bool.false_eq_true, if_false, if_true]
      rw [selectScalar_on interp r dt tol t offset hin hon, ← read_refines r hr]
      exact (withPair_same r _).symm
    · have : realOps.le (realOps.abs (realOps.sub (realOps.mul (realOps.ofInt (realOps.round (realOps.div t dt))) dt) t)) tol = false := by
        have := hon; unfold OnGrid at this; rw [mul_comm] at this
        simpa [realOps] using this
      simp only [this, Bool.not_true, Bool.false_eq_true, if_false]
      rw [selectScalar_off interp r dt tol t offset hin hon]
      obtain ⟨_, _, _, _, hsa, _⟩ := offGrid_facts hdt htol hin hon
      simp only [realOps, hsa, ← read_refines r hr]
  · rw [(inRange_false_iff _ _ _ _).mpr hin, selectScalar_out interp r dt tol t offset hin]; rfl

/-- **Times outside `[−tol, dt·(n−1)+tol]` are rejected** (`ValueError`) by both paths, and by the
whole tensor call as soon as one element is outside. -/
theorem select_rejects_out_of_range (interp : Interp ℝ) (r : Ring.Ring ℝ) (dt tol t : ℝ) (offset : ℤ)
    (hout : t < -tol ∨ dt * ((r.n : ℝ) - 1) + tol < t) :
    selectScalar realOps interp r dt tol t offset = .valueError ∧
    selectTensor realOps interp r dt tol t offset = .valueError ∧
    ∀ cols : List (Ring.Ring ℝ × ℝ), (r, t) ∈ cols →
      selectTensorAll realOps interp cols dt tol offset = .valueError := by
  have hin : ¬ InRange r.n dt tol t := by
    unfold InRange; rintro ⟨h1, h2⟩; rcases hout with h | h <;> linarith
  refine ⟨selectScalar_out interp r dt tol t offset hin, selectTensor_out interp r dt tol t offset hin, ?_⟩
  intro cols hmem
  unfold selectTensorAll
  rw [if_pos]
  rw [List.any_eq_true]
  exact ⟨(r, t), hmem, by simp [(inRange_false_iff _ _ _ _).mpr hin]⟩

/-- … and ONLY those: on a well-formed ring `select` raises iff the time is out of range. -/
theorem select_valueError_iff (interp : Interp ℝ) (r : Ring.Ring ℝ) (hr : r.WF) (dt tol t : ℝ) (offset : ℤ)
    (hdt : 0 < dt) (htol : 0 ≤ tol) :
    selectScalar realOps interp r dt tol t offset = .valueError ↔
      (t < -tol ∨ dt * ((r.n : ℝ) - 1) + tol < t) := by
  constructor
  · intro h
    by_contra hno
    have hin : InRange r.n dt tol t := by
      unfold InRange; constructor <;> by_contra hc <;> exact hno (by first | (left; linarith) | (right; linarith))
    rcases on_or_off_grid dt tol t with ⟨k, hk⟩ | hoff
    · obtain ⟨v, _, _, h3, _⟩ := select_on_grid_nearest interp r hr dt tol t offset hdt hin k hk
      rw [h3] at h; cases h
    · obtain ⟨_, _, _, _, h3, _⟩ := select_off_grid interp r hr dt tol t offset hdt htol hin hoff
      rw [h3] at h; cases h
  · intro h; exact (select_rejects_out_of_range interp r dt tol t offset h).1


/-! ## insert -/

/-- **Insert on the grid is an exact write.**  `t` within tolerance of `k·dt` (`2·tol < dt`): scalar
(in-place or not) and tensor `insert` produce the same storage, in which the observation at
`offset + k` is exactly `obs` — no extrapolation, whatever kernel was passed — and every other
slot is untouched; size and pointer are unchanged. -/
theorem insert_on_grid_exact (extrap : Extrap ℝ) (r : Ring.Ring ℝ) (hr : r.WF) (dt tol obs t : ℝ)
    (offset : ℤ) (inplace : Bool) (hdt : 0 < dt) (h2 : 2 * tol < dt) (hin : InRange r.n dt tol t)
    (k : ℤ) (hk : |(k : ℝ) * dt - t| ≤ tol) :
    ∃ r', insertScalar realOps extrap r dt tol obs t offset inplace = .ok r' ∧
      insertTensor realOps extrap r dt tol obs t offset = .ok r' ∧
      r'.WF ∧ r'.n = r.n ∧ r'.ptr = r.ptr ∧ r'.read (offset + k) = some obs ∧
      ∀ j : ℤ, j % (r.n : ℤ) ≠ (offset + k) % (r.n : ℤ) → r'.read j = r.read j := by
  have hon : OnGrid dt tol t := (onGrid_iff_exists dt tol t hdt).mpr ⟨k, hk⟩
  have hkk := grid_unique dt tol t hdt h2 k hk
  refine ⟨r.writeInplace obs (offset + k), ?_, ?_, writeInplace_wf r hr _ _, rfl, rfl, ?_, ?_⟩
  · rw [insertScalar_on extrap r hr dt tol obs t offset inplace hin hon, hkk]
  · rw [insertTensor_on extrap r hr dt tol obs t offset hin hon, hkk]
  · rw [read_writeInplace r hr, if_pos rfl]
  · intro j hj
    rw [read_writeInplace r hr, if_neg (fun e => hj e.symm)]

/-- **Insert off the grid extrapolates onto the two bracketing slots.**  No multiple of `dt` within
tolerance: scalar (in-place: two indexed writes; out-of-place: a two-element `writerange`) and
tensor (`scatter`) `insert` produce the same storage, in which the observation at `offset + ⌈t/dt⌉`
is the first and the one at `offset + ⌊t/dt⌋` the second component of
`extrap obs elapsed older newer dt` (`older`, `newer` the previous contents of those two slots,
`elapsed = ⌈t/dt⌉·dt − t`), and every other slot is untouched. -/
theorem insert_off_grid (extrap : Extrap ℝ) (r : Ring.Ring ℝ) (hr : r.WF) (dt tol obs t : ℝ)
    (offset : ℤ) (inplace : Bool) (hdt : 0 < dt) (htol : 0 ≤ tol) (hin : InRange r.n dt tol t)
    (hoff : ∀ k : ℤ, tol < |(k : ℝ) * dt - t|) :
    ∃ older newer r', r.read (offset + ⌈t / dt⌉) = some older ∧ r.read (offset + ⌊t / dt⌋) = some newer ∧
      insertScalar realOps extrap r dt tol obs t offset inplace = .ok r' ∧
      insertTensor realOps extrap r dt tol obs t offset = .ok r' ∧
      r'.WF ∧ r'.n = r.n ∧ r'.ptr = r.ptr ∧
      r'.read (offset + ⌈t / dt⌉) = some (extrap obs ((⌈t / dt⌉ : ℝ) * dt - t) older newer dt).1 ∧
      r'.read (offset + ⌊t / dt⌋) = some (extrap obs ((⌈t / dt⌉ : ℝ) * dt - t) older newer dt).2 ∧
      ∀ j : ℤ, j % (r.n : ℤ) ≠ (offset + ⌈t / dt⌉) % (r.n : ℤ) →
        j % (r.n : ℤ) ≠ (offset + ⌊t / dt⌋) % (r.n : ℤ) → r'.read j = r.read j := by
  have hng : ¬ OnGrid dt tol t := by
    rw [onGrid_iff_exists dt tol t hdt]; rintro ⟨k, hk⟩; exact absurd hk (not_le.mpr (hoff k))
  obtain ⟨_, hceil, hf0, hcn, _, _, _⟩ := offGrid_facts hdt htol hin hng
  have hn : 2 ≤ r.n := by omega
  obtain ⟨p, q, hp, hq, hS⟩ := insertScalar_off extrap r hr dt tol obs t offset inplace hdt htol hin hng
  obtain ⟨p', q', hp', hq', hT⟩ := insertTensor_off extrap r hr dt tol obs t offset hdt htol hin hng
  rw [hp] at hp'; rw [hq] at hq'; cases hp'; cases hq'
  have hw1 := writeInplace_wf r hr (extrap obs ((⌈t / dt⌉ : ℝ) * dt - t) p q dt).1 (offset + ⌈t / dt⌉)
  have hslot : (offset + ⌊t / dt⌋) % (r.n : ℤ) ≠ (offset + ⌈t / dt⌉) % (r.n : ℤ) := by
    have := succ_slot_ne hn (offset + ⌊t / dt⌋)
    rw [hceil]; intro e; apply this; rw [e]; congr 1; omega
  refine ⟨p, q, _, hp, hq, hS, hT, writeInplace_wf _ hw1 _ _, rfl, rfl, ?_, ?_, ?_⟩
  · unfold offGridResult
    rw [read_put2 r hr, if_neg hslot, if_pos rfl]
  · unfold offGridResult
    rw [read_put2 r hr, if_pos rfl]
  · intro j h1 h2
    unfold offGridResult
    rw [read_put2 r hr, if_neg (fun e => h2 e.symm), if_neg (fun e => h1 e.symm)]

/-- **Scalar-time (in-place or not) and tensor-time `insert` agree**, for every extrapolation
kernel, ring size, pointer, offset and every time. -/
theorem insert_scalar_eq_tensor (extrap : Extrap ℝ) (r : Ring.Ring ℝ) (hr : r.WF) (dt tol obs t : ℝ)
    (offset : ℤ) (inplace : Bool) (hdt : 0 < dt) (htol : 0 ≤ tol) :
    insertScalar realOps extrap r dt tol obs t offset inplace
      = insertTensor realOps extrap r dt tol obs t offset := by
  by_cases hin : InRange r.n dt tol t
  · by_cases hon : OnGrid dt tol t
    · rw [insertScalar_on extrap r hr dt tol obs t offset inplace hin hon,
        insertTensor_on extrap r hr dt tol obs t offset hin hon]
    · obtain ⟨p, q, hp, hq, hS⟩ := insertScalar_off extrap r hr dt tol obs t offset inplace hdt htol hin hon
      obtain ⟨p', q', hp', hq', hT⟩ := insertTensor_off extrap r hr dt tol obs t offset hdt htol hin hon
      rw [hp] at hp'; rw [hq] at hq'; cases hp'; cases hq'
      rw [hS, hT]
  · rw [insertScalar_out extrap r dt tol obs t offset inplace hin, insertTensor_out extrap r dt tol obs t offset hin]

/-- **`insert` touches no slot other than the two bracketing ones** (`offset + ⌊t/dt⌋` and
`offset + ⌈t/dt⌉`; on the grid the written slot is one of them), for every in-range time. -/
theorem insert_touches_only_brackets (extrap : Extrap ℝ) (r : Ring.Ring ℝ) (hr : r.WF) (dt tol obs t : ℝ)
    (offset : ℤ) (inplace : Bool) (hdt : 0 < dt) (htol : 0 ≤ tol) (hin : InRange r.n dt tol t) :
    ∃ r', insertScalar realOps extrap r dt tol obs t offset inplace = .ok r' ∧
      insertTensor realOps extrap r dt tol obs t offset = .ok r' ∧
      r'.WF ∧ r'.n = r.n ∧ r'.ptr = r.ptr ∧
      ∀ j : ℤ, j % (r.n : ℤ) ≠ (offset + ⌈t / dt⌉) % (r.n : ℤ) →
        j % (r.n : ℤ) ≠ (offset + ⌊t / dt⌋) % (r.n : ℤ) → r'.read j = r.read j := by
  rcases on_or_off_grid dt tol t with ⟨k, hk⟩ | hoff
  · have hon : OnGrid dt tol t := (onGrid_iff_exists dt tol t hdt).mpr ⟨k, hk⟩
    refine ⟨r.writeInplace obs (offset + rhe (t / dt)),
      insertScalar_on extrap r hr dt tol obs t offset inplace hin hon,
      insertTensor_on extrap r hr dt tol obs t offset hin hon, writeInplace_wf r hr _ _, rfl, rfl, ?_⟩
    intro j h1 h2
    rw [read_writeInplace r hr, if_neg]
    rcases rhe_floor_or_ceil (t / dt) with e | e <;> rw [e] <;> intro e'
    · exact h2 e'.symm
    · exact h1 e'.symm
  · obtain ⟨_, _, r', _, _, hS, hT, hw, hn, hp, _, _, hj⟩ :=
      insert_off_grid extrap r hr dt tol obs t offset inplace hdt htol hin hoff
    exact ⟨r', hS, hT, hw, hn, hp, hj⟩

/-- **Times outside the range are rejected by `insert`** (nothing is returned: storage is untouched). -/
theorem insert_rejects_out_of_range (extrap : Extrap ℝ) (r : Ring.Ring ℝ) (dt tol obs t : ℝ) (offset : ℤ)
    (inplace : Bool) (hout : t < -tol ∨ dt * ((r.n : ℝ) - 1) + tol < t) :
    insertScalar realOps extrap r dt tol obs t offset inplace = .valueError ∧
    insertTensor realOps extrap r dt tol obs t offset = .valueError ∧
    ∀ cols : List (Ring.Ring ℝ × ℝ × ℝ), (r, obs, t) ∈ cols →
      insertTensorAll realOps extrap cols dt tol offset = .valueError := by
  have hin : ¬ InRange r.n dt tol t := by
    unfold InRange; rintro ⟨h1, h2⟩; rcases hout with h | h <;> linarith
  refine ⟨insertScalar_out extrap r dt tol obs t offset inplace hin, insertTensor_out extrap r dt tol obs t offset hin, ?_⟩
  intro cols hmem
  unfold insertTensorAll
  rw [if_pos]
  rw [List.any_eq_true]
  exact ⟨(r, obs, t), hmem, by simp [(inRange_false_iff _ _ _ _).mpr hin]⟩

/-- … and only those. -/
theorem insert_valueError_iff (extrap : Extrap ℝ) (r : Ring.Ring ℝ) (hr : r.WF) (dt tol obs t : ℝ)
    (offset : ℤ) (inplace : Bool) (hdt : 0 < dt) (htol : 0 ≤ tol) :
    insertScalar realOps extrap r dt tol obs t offset inplace = .valueError ↔
      (t < -tol ∨ dt * ((r.n : ℝ) - 1) + tol < t) := by
  constructor
  · intro h
    by_contra hno
    have hin : InRange r.n dt tol t := by
      unfold InRange; constructor <;> by_contra hc <;> exact hno (by first | (left; linarith) | (right; linarith))
    obtain ⟨r', hS, _⟩ := insert_touches_only_brackets extrap r hr dt tol obs t offset inplace hdt htol hin
    rw [hS] at h; cases h
  · intro h; exact (insert_rejects_out_of_range extrap r dt tol obs t offset inplace h).1

/-- The code-shaped `insert` refines the property's wording (`specInsert` on the history
`r.abs = [view 0, …, view (n−1)]`). -/
theorem insert_eq_spec (extrap : Extrap ℝ) (r : Ring.Ring ℝ) (hr : r.WF) (dt tol obs t : ℝ)
    (offset : ℤ) (inplace : Bool) (hdt : 0 < dt) (htol : 0 ≤ tol) :
    (insertScalar realOps extrap r dt tol obs t offset inplace).map Ring.abs
        = specInsert realOps extrap r.abs dt tol obs t offset ∧
    (insertTensor realOps extrap r dt tol obs t offset).map Ring.abs
        = specInsert realOps extrap r.abs dt tol obs t offset := by
  rw [← insert_scalar_eq_tensor extrap r hr dt tol obs t offset inplace hdt htol, and_self]
  unfold specInsert
  rw [abs_length r hr]
  by_cases hin : InRange r.n dt tol t
  · rw [(inRange_iff _ _ _ _).mpr hin]
    by_cases hon : OnGrid dt tol t
    · have : realOps.le (realOps.abs (realOps.sub (realOps.mul (realOps.ofInt (realOps.round (realOps.div t dt))) dt) t)) tol = true := by
        have := hon; unfold OnGrid at this; rw [mul_comm] at this
        simpa [realOps] using this
      simp only [this, Bool.not_true, Bool.false_eq_true, if_false, if_true]
      rw [insertScalar_on extrap r hr dt tol obs t offset inplace hin hon]
      simp only [Outcome.map, writeInplace_refines r hr]; rfl
    · have : realOps.le (realOps.abs (realOps.sub (realOps.mul (realOps.ofInt (realOps.round (realOps.div t dt))) dt) t)) tol = false := by
        have := hon; unfold OnGrid at this; rw [mul_comm] at this
        simpa [realOps] using this
      simp only [this, Bool.not_true, Bool.false_eq_true, if_false]
      obtain ⟨p, q, hp, hq, hS⟩ := insertScalar_off extrap r hr dt tol obs t offset inplace hdt htol hin hon
      rw [hS]
      simp only [realOps, ← read_refines r hr, hp, hq, withPair_some, Outcome.map, offGridResult]
      rw [writeInplace_refines _ (writeInplace_wf r hr _ _), writeInplace_refines r hr]
  · rw [(inRange_false_iff _ _ _ _).mpr hin, insertScalar_out extrap r dt tol obs t offset inplace hin]; rfl


/-! ## insert followed by select at the same time -/

/-- On the grid the round trip holds for ANY extrapolation / interpolation pair. -/
theorem insert_then_select_on_grid (interp : Interp ℝ) (extrap : Extrap ℝ) (r : Ring.Ring ℝ) (hr : r.WF)
    (dt tol obs t : ℝ) (offset : ℤ) (inplace : Bool) (hdt : 0 < dt)
    (hin : InRange r.n dt tol t) (k : ℤ) (hk : |(k : ℝ) * dt - t| ≤ tol) :
    ∃ r', insertScalar realOps extrap r dt tol obs t offset inplace = .ok r' ∧
      insertTensor realOps extrap r dt tol obs t offset = .ok r' ∧
      selectScalar realOps interp r' dt tol t offset = .ok obs ∧
      selectTensor realOps interp r' dt tol t offset = .ok obs := by
  have hon : OnGrid dt tol t := (onGrid_iff_exists dt tol t hdt).mpr ⟨k, hk⟩
  refine ⟨r.writeInplace obs (offset + rhe (t / dt)),
    insertScalar_on extrap r hr dt tol obs t offset inplace hin hon,
    insertTensor_on extrap r hr dt tol obs t offset hin hon, ?_, ?_⟩
  · rw [selectScalar_on interp (r.writeInplace obs (offset + rhe (t / dt))) dt tol t offset hin hon]
    unfold readO; rw [read_writeInplace r hr, if_pos rfl]
  · rw [selectTensor_on interp (r.writeInplace obs (offset + rhe (t / dt))) dt tol t offset hin hon]
    unfold readO; rw [read_writeInplace r hr, if_pos rfl]

/-- **Round trip, general form.**  If the kernels form a matching pair at the observation `obs` —
interpolating, at elapsed time `sa ∈ (0, dt)`, between the two values the extrapolation produced for
that same `sa` gives `obs` back, whatever the old bracket contents `p q` — then after
`insert obs t` (scalar in-place / out-of-place, or tensor) `select t` (scalar or tensor, same `dt`,
tolerance and offset) returns `obs`, for every in-range `t`, on or off the grid.  On the grid no
kernel is evaluated, so there the conclusion holds for ANY pair. -/
theorem insert_then_select (interp : Interp ℝ) (extrap : Extrap ℝ) (r : Ring.Ring ℝ) (hr : r.WF)
    (dt tol obs t : ℝ) (offset : ℤ) (inplace : Bool) (hdt : 0 < dt) (htol : 0 ≤ tol)
    (hin : InRange r.n dt tol t)
    (hpair : ∀ sa p q : ℝ, 0 < sa → sa < dt →
      interp (extrap obs sa p q dt).1 (extrap obs sa p q dt).2 sa dt = obs) :
    ∃ r', insertScalar realOps extrap r dt tol obs t offset inplace = .ok r' ∧
      insertTensor realOps extrap r dt tol obs t offset = .ok r' ∧
      selectScalar realOps interp r' dt tol t offset = .ok obs ∧
      selectTensor realOps interp r' dt tol t offset = .ok obs := by
  rcases on_or_off_grid dt tol t with ⟨k, hk⟩ | hoff
  · exact insert_then_select_on_grid interp extrap r hr dt tol obs t offset inplace hdt hin k hk
  · obtain ⟨older, newer, r', _, _, hS, hT, hw, hn, _, h1, h2, _⟩ :=
      insert_off_grid extrap r hr dt tol obs t offset inplace hdt htol hin hoff
    have hin' : InRange r'.n dt tol t := by rw [hn]; exact hin
    obtain ⟨o', n', ho', hn', hs, ht, _, _, _, hs0, hs1⟩ :=
      select_off_grid interp r' hw dt tol t offset hdt htol hin' hoff
    rw [h1] at ho'; rw [h2] at hn'; cases ho'; cases hn'
    refine ⟨r', hS, hT, ?_, ?_⟩
    · rw [hs, hpair _ older newer hs0 hs1]
    · rw [ht, hpair _ older newer hs0 hs1]

/-! ### The shipped matching pairs (GENERATED kernels) -/

/-- The conclusion shared by the per-pair theorems. -/
def RoundTrip (interp : Interp ℝ) (extrap : Extrap ℝ) : Prop :=
  ∀ (r : Ring.Ring ℝ), r.WF → ∀ (dt tol obs t : ℝ) (offset : ℤ) (inplace : Bool), 0 < dt → 0 ≤ tol →
    InRange r.n dt tol t →
    ∃ r', insertScalar realOps extrap r dt tol obs t offset inplace = .ok r' ∧
      insertTensor realOps extrap r dt tol obs t offset = .ok r' ∧
      selectScalar realOps interp r' dt tol t offset = .ok obs ∧
      selectTensor realOps interp r' dt tol t offset = .ok obs

theorem roundTrip_of_pair (interp : Interp ℝ) (extrap : Extrap ℝ)
    (hpair : ∀ obs dt sa p q : ℝ, 0 < sa → sa < dt →
      interp (extrap obs sa p q dt).1 (extrap obs sa p q dt).2 sa dt = obs) :
    RoundTrip interp extrap := by
  intro r hr dt tol obs t offset inplace hdt htol hin
  exact insert_then_select interp extrap r hr dt tol obs t offset inplace hdt htol hin
    (fun sa p q h0 h1 => hpair obs dt sa p q h0 h1)

/-- `extrap_previous` / `interp_previous`: no side condition. -/
theorem insert_then_select_previous : RoundTrip interp_previous extrap_previous :=
  roundTrip_of_pair _ _ (fun _ _ _ _ _ _ _ => rfl)

/-- `extrap_next` / `interp_next`: no side condition. -/
theorem insert_then_select_next : RoundTrip interp_next extrap_next :=
  roundTrip_of_pair _ _ (fun _ _ _ _ _ _ _ => rfl)

/-- `extrap_nearest` / `interp_nearest` (the defaults of `insert` / `select`): both sides test
`sample_at > dt/2` strictly (`sample_at / dt > 0.5` on the interpolation side), so in exact
arithmetic NO tie-break condition is needed — at the midpoint both pick the older slot. -/
theorem insert_then_select_nearest : RoundTrip interp_nearest extrap_nearest := by
  apply roundTrip_of_pair
  intro obs dt sa p q h0 h1
  have hdt : 0 < dt := lt_trans h0 h1
  unfold interp_nearest extrap_nearest
  by_cases hc : sa > dt / 2
  · have : sa / dt > 0.5 := by rw [gt_iff_lt, lt_div_iff₀ hdt]; linarith
    simp [hc, this]
  · have : ¬ sa / dt > 0.5 := by rw [gt_iff_lt, lt_div_iff₀ hdt]; linarith
    simp [hc, this]

/-- `extrap_linear_forward` (any `adjust`) / `interp_linear`: uses `0 < elapsed`, which off the grid
always holds. -/
theorem insert_then_select_linear_forward (adjust : Option (ℝ → ℝ)) :
    RoundTrip interp_linear (fun o s p q d => extrap_linear_forward o s p q d adjust) := by
  apply roundTrip_of_pair
  intro obs dt sa p q h0 h1
  have hdt : 0 < dt := lt_trans h0 h1
  unfold interp_linear extrap_linear_forward
  cases adjust <;> simp only <;> field_simp <;> ring

/-- `extrap_linear_backward` (any `adjust`) / `interp_linear`: uses `elapsed < dt`. -/
theorem insert_then_select_linear_backward (adjust : Option (ℝ → ℝ)) :
    RoundTrip interp_linear (fun o s p q d => extrap_linear_backward o s p q d adjust) := by
  apply roundTrip_of_pair
  intro obs dt sa p q h0 h1
  have hdt : 0 < dt := lt_trans h0 h1
  have hne : dt - sa ≠ 0 := by linarith
  unfold interp_linear extrap_linear_backward
  cases adjust <;> simp only <;> field_simp <;> ring

/-- `extrap_expdecay` / `interp_expdecay` with the same time constant (any real, no sign condition). -/
theorem insert_then_select_expdecay (tc : ℝ) :
    RoundTrip (fun p q s d => interp_expdecay p q s d tc) (fun o s p q d => extrap_expdecay o s p q d tc) := by
  apply roundTrip_of_pair
  intro obs dt sa p q _ _
  unfold interp_expdecay extrap_expdecay
  simp only
  rw [mul_assoc, ← Real.exp_add, neg_div, add_neg_cancel, Real.exp_zero, mul_one]

/-- `extrap_expratedecay` / `interp_expratedecay` with the same rate constant. -/
theorem insert_then_select_expratedecay (rc : ℝ) :
    RoundTrip (fun p q s d => interp_expratedecay p q s d rc) (fun o s p q d => extrap_expratedecay o s p q d rc) := by
  apply roundTrip_of_pair
  intro obs dt sa p q _ _
  unfold interp_expratedecay extrap_expratedecay
  simp only
  rw [mul_assoc, ← Real.exp_add, neg_mul, add_neg_cancel, Real.exp_zero, mul_one]

/-- `extrap_neighbors` with ANY interpolation that returns one of its two brackets
(`interp_previous`, `interp_next`, `interp_nearest`, or anything else of that kind). -/
theorem insert_then_select_neighbors (interp : Interp ℝ)
    (hbr : ∀ p q s d, interp p q s d = p ∨ interp p q s d = q) :
    RoundTrip interp extrap_neighbors := by
  apply roundTrip_of_pair
  intro obs dt sa p q _ _
  unfold extrap_neighbors
  rcases hbr obs obs sa dt with h | h <;> exact h

/-- … and with `interp_linear` (which does not return a bracket in general, but does when both are equal). -/
theorem insert_then_select_neighbors_linear : RoundTrip interp_linear extrap_neighbors := by
  apply roundTrip_of_pair
  intro obs dt sa p q _ _
  unfold extrap_neighbors interp_linear
  simp

theorem interp_previous_bracket : ∀ p q s d, interp_previous p q s d = p ∨ interp_previous p q s d = q :=
  fun _ _ _ _ => Or.inl rfl
theorem interp_next_bracket : ∀ p q s d, interp_next p q s d = p ∨ interp_next p q s d = q :=
  fun _ _ _ _ => Or.inr rfl
theorem interp_nearest_bracket : ∀ p q s d, interp_nearest p q s d = p ∨ interp_nearest p q s d = q := by
  intro p q s d; unfold interp_nearest; split_ifs
  · exact Or.inr rfl
  · exact Or.inl rfl



/-! ## The exact run of the driver is the run the theorems are about

`drivers/C02.lean` executes the SAME definitions at `ratOps` with the `Rat` kernels of
`Model/SelectQ.lean`; on rational inputs that run, cast to `ℝ`, is the `realOps` run with the
generated `ℝ` kernels — so every theorem above applies verbatim to what the correspondence check
compares the real code with. -/

/-- For any kernel pair commuting with the cast `ℚ → ℝ`. -/
theorem exact_select_is_real_select (interpQ : Interp ℚ) (interpR : Interp ℝ)
    (hi : ∀ p q s d : ℚ, interpR p q s d = ((interpQ p q s d : ℚ) : ℝ))
    (r : Ring.Ring ℚ) (dt tol t : ℚ) (offset : ℤ) :
    selectScalar realOps interpR (mapRing (fun q : ℚ => (q : ℝ)) r) dt tol t offset
      = (selectScalar ratOps interpQ r dt tol t offset).map (fun q : ℚ => (q : ℝ)) ∧
    selectTensor realOps interpR (mapRing (fun q : ℚ => (q : ℝ)) r) dt tol t offset
      = (selectTensor ratOps interpQ r dt tol t offset).map (fun q : ℚ => (q : ℝ)) :=
  ⟨selectScalar_hom ratOps_hom interpQ interpR hi r dt tol t offset,
   selectTensor_hom ratOps_hom interpQ interpR hi r dt tol t offset⟩

theorem exact_insert_is_real_insert (extrapQ : Extrap ℚ) (extrapR : Extrap ℝ)
    (he : ∀ o s p q d : ℚ, extrapR o s p q d = (((extrapQ o s p q d).1 : ℝ), ((extrapQ o s p q d).2 : ℝ)))
    (r : Ring.Ring ℚ) (dt tol obs t : ℚ) (offset : ℤ) (inplace : Bool) :
    insertScalar realOps extrapR (mapRing (fun q : ℚ => (q : ℝ)) r) dt tol obs t offset inplace
      = (insertScalar ratOps extrapQ r dt tol obs t offset inplace).map (mapRing (fun q : ℚ => (q : ℝ))) ∧
    insertTensor realOps extrapR (mapRing (fun q : ℚ => (q : ℝ)) r) dt tol obs t offset
      = (insertTensor ratOps extrapQ r dt tol obs t offset).map (mapRing (fun q : ℚ => (q : ℝ))) :=
  ⟨insertScalar_hom ratOps_hom extrapQ extrapR he r dt tol obs t offset inplace,
   insertTensor_hom ratOps_hom extrapQ extrapR he r dt tol obs t offset⟩

/-- The kernel hypotheses hold for every rational kernel the driver executes, against the
GENERATED `ℝ` kernels (`Lemmas/SelectQ.lean`; adjust functions: `none`, or any pair commuting with the cast). -/
theorem exact_kernels_are_generated :
    (∀ p q s d : ℚ, interp_previous p q s d = ((Q.interp_previous p q s d : ℚ) : ℝ)) ∧
    (∀ p q s d : ℚ, interp_next p q s d = ((Q.interp_next p q s d : ℚ) : ℝ)) ∧
    (∀ p q s d : ℚ, interp_nearest p q s d = ((Q.interp_nearest p q s d : ℚ) : ℝ)) ∧
    (∀ p q s d : ℚ, interp_linear p q s d = ((Q.interp_linear p q s d : ℚ) : ℝ)) ∧
    (∀ o s p q d : ℚ, extrap_previous o s p q d = (((Q.extrap_previous o s p q d).1 : ℝ), ((Q.extrap_previous o s p q d).2 : ℝ))) ∧
    (∀ o s p q d : ℚ, extrap_next o s p q d = (((Q.extrap_next o s p q d).1 : ℝ), ((Q.extrap_next o s p q d).2 : ℝ))) ∧
    (∀ o s p q d : ℚ, extrap_neighbors o s p q d = (((Q.extrap_neighbors o s p q d).1 : ℝ), ((Q.extrap_neighbors o s p q d).2 : ℝ))) ∧
    (∀ o s p q d : ℚ, extrap_nearest o s p q d = (((Q.extrap_nearest o s p q d).1 : ℝ), ((Q.extrap_nearest o s p q d).2 : ℝ))) ∧
    (∀ o s p q d : ℚ, extrap_linear_forward o s p q d none
        = (((Q.extrap_linear_forward o s p q d none).1 : ℝ), ((Q.extrap_linear_forward o s p q d none).2 : ℝ))) ∧
    (∀ o s p q d : ℚ, extrap_linear_backward o s p q d none
        = (((Q.extrap_linear_backward o s p q d none).1 : ℝ), ((Q.extrap_linear_backward o s p q d none).2 : ℝ))) :=
  ⟨fun p q s d => (Q.cast_interp_previous p q s d).symm, fun p q s d => (Q.cast_interp_next p q s d).symm,
   fun p q s d => (Q.cast_interp_nearest p q s d).symm, fun p q s d => (Q.cast_interp_linear p q s d).symm,
   fun o s p q d => (Q.cast_extrap_previous o s p q d).symm, fun o s p q d => (Q.cast_extrap_next o s p q d).symm,
   fun o s p q d => (Q.cast_extrap_neighbors o s p q d).symm, fun o s p q d => (Q.cast_extrap_nearest o s p q d).symm,
   fun o s p q d => (Q.cast_extrap_linear_forward o s p q d none none trivial).symm,
   fun o s p q d => (Q.cast_extrap_linear_backward o s p q d none none trivial).symm⟩

/-! ## Negation witnesses: natural-looking stronger statements that are FALSE -/

/-- (1) "Any extrapolation followed by any interpolation round-trips" is false off the grid:
`extrap_previous` then `interp_next` returns the OLD newer sample (here `0`), not the inserted `1`
(two-slot ring, `dt = 1`, `tol = 0`, `t = ½`).  A matching pair is a genuine hypothesis. -/
theorem round_trip_fails_for_mismatched_pair : ¬ RoundTrip interp_next extrap_previous := by
  intro h
  obtain ⟨r', hS, _, hsel, _⟩ := h z2 z2_wf 1 0 1 (1 / 2) 0 true one_pos le_rfl half_in_range
  obtain ⟨older, newer, r'', ho, hn, hS', _, hw, hn', _, h1, h2, _⟩ :=
    insert_off_grid extrap_previous z2 z2_wf 1 0 1 (1 / 2) 0 true one_pos le_rfl half_in_range half_off_grid
  rw [hS] at hS'; cases hS'
  obtain ⟨o', n', ho', hn'', hs, _⟩ :=
    select_off_grid interp_next r' hw 1 0 (1 / 2) 0 one_pos le_rfl (by rw [hn']; exact half_in_range) half_off_grid
  rw [h2] at hn''; cases hn''
  rw [hs] at hsel
  have hnewer : newer = 0 := by
    have : ∀ j : ℤ, z2.read j = some 0 := by
      intro j; unfold Ring.read z2; simp only
      have := @unwind_lt 0 j 2 (by omega)
      rcases Nat.lt_succ_iff_lt_or_eq.mp this with h | h
      · have : unwind 0 j 2 = 0 := by omega
        rw [this]; rfl
      · rw [h]; rfl
    rw [this] at hn; cases hn; rfl
  simp [interp_next, extrap_previous, hnewer] at hsel

/-- (2) The side condition `0 < elapsed` of the linear-forward pair is necessary at kernel level:
with `sample_at = 0` the slope's division by zero loses the sample (this is what the exact-index
bypass / direct write protects the on-grid case from). -/
theorem linear_forward_pair_fails_at_zero :
    interp_linear (extrap_linear_forward 1 0 0 0 1 none).1 (extrap_linear_forward 1 0 0 0 1 none).2 0 1 ≠ 1 := by
  simp [interp_linear, extrap_linear_forward]

/-- … and `elapsed < dt` for the linear-backward pair (`sample_at = dt`). -/
theorem linear_backward_pair_fails_at_dt :
    interp_linear (extrap_linear_backward 1 1 0 0 1 none).1 (extrap_linear_backward 1 1 0 0 1 none).2 1 1 ≠ 1 := by
  simp [interp_linear, extrap_linear_backward]

/-- (3) `select_on_grid` without `2·tol < dt` is false: with `dt = 1`, `tol = 1`, `t = ¼` the multiple
`k = 1` is within tolerance (`|1 − ¼| ≤ 1`), yet `select` returns the observation at `offset + 0`
(the nearest multiple), which differs from the one at `offset + 1`. -/
theorem select_on_grid_needs_small_tol :
    ∃ (r : Ring.Ring ℝ) (k : ℤ), r.WF ∧ InRange r.n 1 1 (1 / 4) ∧ |(k : ℝ) * 1 - 1 / 4| ≤ 1 ∧
      selectScalar realOps interp_nearest r 1 1 (1 / 4) 1 ≠ readO r (1 + k) := by
  refine ⟨⟨2, 0, [10, 20]⟩, 1, by unfold Ring.WF; simp, by unfold InRange; norm_num, by norm_num, ?_⟩
  have hin : InRange (⟨2, 0, [10, 20]⟩ : Ring.Ring ℝ).n 1 1 (1 / 4) := by unfold InRange; norm_num
  have hon : OnGrid 1 1 (1 / 4) := by unfold OnGrid; rw [rhe_quarter]; norm_num
  rw [selectScalar_on _ _ _ _ _ _ hin hon, rhe_quarter]
  simp [readO, Ring.read, unwind]

/-! ## Hypothesis audit: `tol ≥ 0` is necessary for scalar/tensor agreement

REMARK (not hidden): with a NEGATIVE tolerance the on-grid test can never succeed, so the scalar
path interpolates even at an exact multiple of `dt`, with `ceil = floor` and `sample_at = dt`, while
the tensor path still bypasses the interpolation result where `ceil = floor`.  For kernels with
`interp p p dt dt = p` (previous, next, nearest, linear) the two still agree; for `interp_expdecay`
they differ: -/
theorem negative_tolerance_splits_scalar_and_tensor :
    selectScalar realOps (fun p q s d => interp_expdecay p q s d 1) ⟨3, 0, [1, 1, 1]⟩ 1 (-1 / 4) 1 0
      ≠ selectTensor realOps (fun p q s d => interp_expdecay p q s d 1) ⟨3, 0, [1, 1, 1]⟩ 1 (-1 / 4) 1 0 := by
  have hin : InRange (⟨3, 0, [1, 1, 1]⟩ : Ring.Ring ℝ).n 1 (-1 / 4) 1 := by unfold InRange; norm_num
  have hoff : ¬ OnGrid 1 (-1 / 4) 1 := by
    unfold OnGrid; intro h
    have := abs_nonneg ((1 : ℝ) * (rhe (1 / 1) : ℝ) - 1)
    linarith
  rw [selectScalar_off _ _ _ _ _ _ hin hoff]
  unfold selectTensor
  rw [(inRange_iff _ _ _ _).mpr hin, shiftOf_off hoff]
  simp [realOps, withPair, Ring.read, unwind, interp_expdecay]

/-! ## Non-vacuity: concrete states meeting the hypotheses -/

/-- A 3-slot ring mid-wrap (pointer 2): `view 0 = 30`, `view 1 = 20`, `view 2 = 10`. -/
def ex3 : Ring.Ring ℝ := ⟨3, 2, [10, 20, 30]⟩
example : ex3.WF := by unfold Ring.WF ex3; simp
-- dt = ½, tol = ⅛: range is [−⅛, 1 + ⅛]
example : InRange ex3.n (1 / 2) (1 / 8) (9 / 8) := by unfold InRange ex3; norm_num
-- on the grid: t = 9/8 is within ⅛ of 2·½, and 2·tol < dt
example : |((2 : ℤ) : ℝ) * (1 / 2) - 9 / 8| ≤ 1 / 8 ∧ 2 * (1 / 8 : ℝ) < 1 / 2 := by
  constructor <;> norm_num [abs_le]
-- off the grid: t = ¾ with tol = ⅛ is farther than ⅛ from every multiple of ½
example : ∀ k : ℤ, (1 / 8 : ℝ) < |(k : ℝ) * (1 / 2) - 3 / 4| := by
  intro k
  rcases le_or_gt k 1 with h | h
  · have : (k : ℝ) ≤ 1 := by exact_mod_cast h
    rw [abs_of_nonpos (by linarith)]; linarith
  · have : (2 : ℝ) ≤ k := by exact_mod_cast h
    rw [abs_of_nonneg (by linarith)]; linarith
example : InRange ex3.n (1 / 2) (1 / 8) (3 / 4) := by unfold InRange ex3; norm_num
-- the pairing hypotheses are satisfiable: the kernel identity at a concrete point
example : interp_linear (extrap_linear_forward 7 (1 / 4) 3 5 1 none).1 (extrap_linear_forward 7 (1 / 4) 3 5 1 none).2 (1 / 4) 1 = 7 := by
  norm_num [interp_linear, extrap_linear_forward]

end InfernoVerif.Select
