import InfernoVerif.Lemmas.Batch
import InfernoVerif.Lemmas.Ring
/-!
# C11 — batch samples never interact

Definitions: `Model/Batch.lean`.  Core Lean only.  The Lean content of this property is THIN by
design (DESIGN §6 C11): the per-component models are per sample by construction, so what is proved
is (1) projection to a sample commutes with a map-structured batched step, for one step and for
every input sequence; (2) the primitives through which the code touches a whole `(B, …)` tensor at
once — `gather`/`scatter` on delay records with per-position offsets, fed by the EXPANDED selector —
act column by column (on storage, and — via C01's `readrangeT_refines` / `writerangeT_refines` — on
the observation history); (3) with a sum reduction the batched accumulation is the sum of the
single-sample accumulations (per step, and over a whole run by exchanging the two sums).  That the
real classes are of this shape is the job of the relational check `harness/corr/c11.py`.
-/
namespace InfernoVerif.Batch
open InfernoVerif.Ring
variable {θ S I O β α : Type}

/-! ## Projection commutes with the batched step -/

/-- `proj b (stepB S X) = step (proj b S) (proj b X)`, for states and outputs. -/
theorem proj_commutes (step : θ → S → I → S × O) (p : θ) (Ss : List S) (Xs : List I) (b : Nat)
    (hs : b < Ss.length) (hx : b < Xs.length) :
    (stepB step p Ss Xs).1[b]? = some (step p Ss[b] Xs[b]).1 ∧
    (stepB step p Ss Xs).2[b]? = some (step p Ss[b] Xs[b]).2 := by
  simp [stepB, List.getElem?_map, List.getElem?_zip_eq_some, hs, hx]
  exact ⟨⟨_, _, ⟨rfl, rfl⟩, rfl⟩, ⟨_, _, ⟨rfl, rfl⟩, rfl⟩⟩

/-- … for every step of every input sequence: the batched run projected to sample `b` is the
single-sample run on `b`'s own initial state and input sequence (final state and all outputs). -/
theorem proj_commutes_run (step : θ → S → I → S × O) (p : θ) (XXs : List (List I)) (Ss : List S) (b : Nat)
    (s : S) (xs : List I) (hs : Ss[b]? = some s) (hx : projSeq b XXs = some xs) :
    (runB step p Ss XXs).1[b]? = some (run1 step p s xs).1 ∧
    (runB step p Ss XXs).2.map (·[b]?) = (run1 step p s xs).2.map some := by
  induction XXs generalizing Ss s xs with
  | nil =>
    simp only [projSeq, Option.some.injEq] at hx
    subst hx
    simp [runB, run1, hs]
  | cons Xs rest ih =>
    simp only [projSeq] at hx
    split at hx
    · rename_i x xs' hxb hrest
      cases hx
      have hsl : b < Ss.length := by
        rcases List.getElem?_eq_some_iff.mp hs with ⟨h, _⟩; exact h
      have hxl : b < Xs.length := by
        rcases List.getElem?_eq_some_iff.mp hxb with ⟨h, _⟩; exact h
      have hsb : Ss[b] = s := by
        rcases List.getElem?_eq_some_iff.mp hs with ⟨_, h⟩; exact h
      have hxb' : Xs[b] = x := by
        rcases List.getElem?_eq_some_iff.mp hxb with ⟨_, h⟩; exact h
      obtain ⟨h1, h2⟩ := proj_commutes step p Ss Xs b hsl hxl
      rw [hsb, hxb'] at h1 h2
      obtain ⟨i1, i2⟩ := ih (stepB step p Ss Xs).1 (step p s x).1 xs' h1 hrest
      simp only [runB, run1, List.map_cons]
      exact ⟨i1, by rw [h2, i2]⟩
    · cases hx

/-! ## gather / scatter with per-position offsets act per column -/

/-- `gather` with per-position offsets: the reads of position `p` are the entries of column `p` at the
slots the offset of position `p` selects. -/
theorem gather_column (r : Ring (List β)) (len : Nat) (offs : List Int) (p : Nat) (o : Int)
    (h : offs[p]? = some o) :
    (r.readrangeT len offs)[p]? =
      some ((List.range len).map fun (j : Nat) => cell r.data (unwind r.ptr (o - (j : Int)) r.n) p) := by
  unfold Ring.readrangeT cell
  rw [List.getElem?_map, List.getElem?_zipIdx, h]
  simp

/-- … hence they depend on column `p` and the offset of `p` only. -/
theorem gather_per_column (r r' : Ring (List β)) (len : Nat) (offs offs' : List Int) (p : Nat)
    (hn : r.n = r'.n) (hptr : r.ptr = r'.ptr) (hc : ∀ i, cell r.data i p = cell r'.data i p)
    (ho : offs[p]? = offs'[p]?) :
    (r.readrangeT len offs)[p]? = (r'.readrangeT len offs')[p]? := by
  cases h : offs[p]? with
  | none =>
    have h' : offs'[p]? = none := by rw [← ho]; exact h
    unfold Ring.readrangeT
    rw [List.getElem?_map, List.getElem?_zipIdx, h, List.getElem?_map, List.getElem?_zipIdx, h']
    rfl
  | some o =>
    rw [gather_column r len offs p o h, gather_column r' len offs' p o (by rw [← ho]; exact h), hn, hptr]
    congr 1
    apply List.map_congr_left
    intro j _
    exact hc _

/-- `scatter` with per-position offsets touches, in column `p`, only what column `p` of the
observations and the offset of position `p` say: two records agreeing on column `p`, written with
observations agreeing on column `p` (same shapes) and offsets agreeing at `p`, agree on column `p`
afterwards — whatever the other columns (the other samples of the batch) contain. -/
theorem scatter_per_column (r r' : Ring (List β)) (xs xs' : List (List β)) (offs offs' : List Int) (p : Nat)
    (hn : r.n = r'.n) (hptr : r.ptr = r'.ptr)
    (hc : ∀ i, cell r.data i p = cell r'.data i p)
    (hxl : xs.length = xs'.length)
    (hrow : ∀ j (h : j < xs.length) (h' : j < xs'.length), xs[j].length = xs'[j].length)
    (hxc : ∀ j (h : j < xs.length) (h' : j < xs'.length), xs[j][p]? = xs'[j][p]?)
    (hol : offs.length = offs'.length) (ho : offs[p]? = offs'[p]?) :
    ∀ i, cell (r.writerangeT xs offs).data i p = cell (r'.writerangeT xs' offs').data i p := by
  unfold Ring.writerangeT
  simp only
  apply foldl_lockstep (fun e e' => ∀ i, cell e i p = cell e' i p) _ _ xs.zipIdx xs'.zipIdx r.data r'.data
    (by simp [hxl]) hc
  intro j hja hjb e e' hR
  have hj : j < xs.length := by simpa using hja
  have hj' : j < xs'.length := by simpa using hjb
  simp only [List.getElem_zipIdx, Nat.zero_add]
  apply foldl_lockstep (fun e e' => ∀ i, cell e i p = cell e' i p) _ _
    (xs[j].zip offs).zipIdx (xs'[j].zip offs').zipIdx e e'
    (by simp [hrow j hj hj', hol]) hR
  intro q hqa hqb e e' hR i
  simp only [List.length_zipIdx, List.length_zip] at hqa hqb
  simp only [List.getElem_zipIdx, List.getElem_zip, Nat.zero_add]
  rw [cell_modify_set, cell_modify_set, hR i, ← hn, ← hptr]
  by_cases hq : q = p
  · subst hq
    have h1 : xs[j][q] = xs'[j][q] := by
      have := hxc j hj hj'
      rw [List.getElem?_eq_getElem (by omega), List.getElem?_eq_getElem (by omega)] at this
      exact Option.some.inj this
    have h2 : offs[q] = offs'[q] := by
      rw [List.getElem?_eq_getElem (by omega), List.getElem?_eq_getElem (by omega)] at ho
      exact Option.some.inj ho
    rw [h1, h2]
  · simp [hq]

/-- `gather_scatter_per_column`: a delayed read after a range write, position `p`: nothing outside
column `p` (no other sample, no other synapse) can influence it. -/
theorem gather_scatter_per_column (r r' : Ring (List β)) (xs xs' : List (List β)) (woffs woffs' : List Int)
    (len : Nat) (goffs goffs' : List Int) (p : Nat)
    (hn : r.n = r'.n) (hptr : r.ptr = r'.ptr)
    (hc : ∀ i, cell r.data i p = cell r'.data i p)
    (hxl : xs.length = xs'.length)
    (hrow : ∀ j (h : j < xs.length) (h' : j < xs'.length), xs[j].length = xs'[j].length)
    (hxc : ∀ j (h : j < xs.length) (h' : j < xs'.length), xs[j][p]? = xs'[j][p]?)
    (hol : woffs.length = woffs'.length) (hwo : woffs[p]? = woffs'[p]?) (hgo : goffs[p]? = goffs'[p]?) :
    ((r.writerangeT xs woffs).readrangeT len goffs)[p]? = ((r'.writerangeT xs' woffs').readrangeT len goffs')[p]? :=
  gather_per_column _ _ len goffs goffs' p hn hptr
    (scatter_per_column r r' xs xs' woffs woffs' p hn hptr hc hxl hrow hxc hol hwo) hgo

/-- The same on the observation history (C01's per-position refinement lemmas): the row-wise ring
operations with per-position offsets ARE the per-position list-of-observations operations. -/
theorem gather_scatter_spec (r : Ring (List β)) (h : r.WF) (xs : List (List β)) (woffs : List Int)
    (len : Nat) (goffs : List Int) :
    (r.writerangeT xs woffs).readrangeT len goffs = specReadrangeT (specWriterangeT r.abs xs woffs) len goffs := by
  rw [readrangeT_refines _ (writerangeT_wf r h xs woffs), writerangeT_refines r h]

/-- the expanded selector gives sample `b`, synapse `i` the offset of synapse `i` -/
theorem expandB_getElem? (B : Nat) (sel : List α) (b i : Nat) (hb : b < B) (hi : i < sel.length) :
    (expandB B sel)[b * sel.length + i]? = sel[i]? := by
  induction B generalizing b with
  | zero => omega
  | succ B ih =>
    unfold expandB at *
    rw [List.replicate_succ, List.flatten_cons]
    cases b with
    | zero => simp [List.getElem?_append_left, hi]
    | succ b =>
      rw [List.getElem?_append_right (by rw [Nat.succ_mul]; omega)]
      have : (b + 1) * sel.length + i - sel.length = b * sel.length + i := by rw [Nat.succ_mul]; omega
      rw [this]
      exact ih b (by omega)

/-! ## Σ-reduction is linear -/

/-- with `batch_reduction = torch.sum` one batched trainer step adds to the accumulator exactly the
sum of what B single-sample steps (each starting from an empty accumulator) add -/
theorem sum_reduction_linear (u : S → I → Int) (acc : Int) (Ss : List S) (Xs : List I) :
    accStepB u acc Ss Xs = acc + sumB ((Ss.zip Xs).map fun sx => accStep1 u 0 sx.1 sx.2) := by
  simp [accStepB, accStep1]

/-- … and over a whole run: accumulating the Σ-reduced contributions of every step equals the sum
over samples of the per-sample accumulations (`U t b` = contribution of sample `b` at step `t`,
which by `proj_commutes_run` is the same in the batched and in the single-sample run). -/
theorem sum_reduction_linear_run (T B : Nat) (U : Nat → Nat → Int) :
    sumTo T (fun t => sumTo B (U t)) = sumTo B (fun b => sumTo T (fun t => U t b)) := by
  induction T with
  | zero =>
    have : ∀ n, sumTo n (fun _ => (0 : Int)) = 0 := by
      intro n; induction n with
      | zero => simp [sumTo, sumB]
      | succ n ih => rw [sumTo_succ, ih]; rfl
    simp only [sumTo, List.range_zero, List.map_nil]
    show sumB [] = sumB ((List.range B).map fun _ => sumB [])
    have h0 : sumB ([] : List Int) = 0 := rfl
    rw [h0]
    exact (this B).symm
  | succ T ih =>
    rw [sumTo_succ, ih]
    have : (fun b => sumTo (T + 1) (fun t => U t b)) = fun b => sumTo T (fun t => U t b) + U T b := by
      funext b; rw [sumTo_succ]
    rw [this, sumTo_add]

/-! ## Non-vacuity -/

/-- two samples, a counter step with a shared increment -/
example : stepB (fun (k : Nat) (s x : Nat) => (s + k * x, s)) 2 [10, 20] [1, 3] = ([12, 26], [10, 20]) := by decide
example : projSeq 1 [[1, 3], [5, 7]] = some [3, 7] := by decide
/-- a 3-slot record holding two samples x two synapses per row: what is written to sample 1's columns
(2, 3), and with which offsets, does not change what sample 0's column 0 reads -/
def exR : Ring (List Nat) := ⟨3, 1, [[1, 2, 3, 4], [5, 6, 7, 8], [9, 10, 11, 12]]⟩
example : ((exR.writerangeT [[1, 2, 0, 0]] [0, 0, 2, 2]).readrangeT 2 [1, 1, 0, 0])[0]? =
    ((exR.writerangeT [[1, 2, 77, 88]] [0, 0, 1, 1]).readrangeT 2 [1, 1, 2, 2])[0]? := by
  decide
example : expandB 2 [5, 6, 7] = [5, 6, 7, 5, 6, 7] := by decide
example : accStepB (fun (s x : Int) => s * x) 1 [2, 3] [10, 100] = 1 + (20 + 300) := by decide

end InfernoVerif.Batch
