import InfernoVerif.Props.C17GlueProg
/-!
# C17, closing the loop: the layer programs regenerated from /repo refine the positional specifications over EVERY operation sequence

`Props/C17GlueProg.lean` proves, method by method, that ONE run of a method body REGENERATED from
`inferno/neural/network.py` (`Gen/LayerProg.lean`: `Layer.forward` / `clear` / `get_neuron`, `Serial.wiring` / `forward`,
`Biclique.wiring`, `RecurrentSerial.wiring` / `forward` / `clear`), seen through its abstraction (`SerialS.cfg`,
`BicliqueS.cfg`, `RecS.cfg` / `RecS.st`, `toOpt`), is ONE call of the hand-written code-shaped model `Model/Layer.lean`
(`Serial.forward`, `Biclique.forward`, `Rec.forward`, `Layer.clear`, `Rec.clear`).  `Props/C17.lean` proves that the model
computes the positional specifications (`serial_eq` / `serial_run_eq`, `biclique_eq`, `recurrent_step_eq` / `recurrent_eq`)
and that `clear()` restores the initial state (`replay_after_clear_*`).  This file supplies the missing links and composes
everything, once per layer class (namespaces `SerialRun`, `BicliqueRun`, `RecRun`; the generic run combinators and the one
induction over operation lists, `runE_rel`, come first):

* an OPERATION ALPHABET per class — `Model/Layer.lean` has functions but no alphabet, so it is introduced here:
  `LOp.fwd x cap` (`layer(x, capture_intermediate=cap)`) and `LOp.clear sub` (`layer.clear(submodules=sub)`) for `Serial`
  (`x` = the positional inputs) and `Biclique` (`x` = the input dictionary); `ROp.fwd xs la fa cap` (`layer(*xs,
  lateral_connection_args=la, feedback_connection_args=fa, capture_intermediate=cap)` — the extra arguments may differ
  from call to call) and `ROp.clear cf sub` (`layer.clear(clear_feedback=cf, submodules=sub)`) for `RecurrentSerial`;
* `genExec` dispatches an operation to the regenerated method it names and returns what the program returns: the NEW
  instance state and the value (`LOut.ret r` / `LOut.unit`), or the exception class.  The glue theorems compare nothing
  at a raise (the model writes every failure as `none` and says nothing about the components afterwards — a raising
  component is the absorbing state of `Props/C17b.lean`), so there is no state after an exception: `genRun` (= `runE
  genExec`) records the exception as the last output and STOPS, exactly as the model's `Serial.run` / `Biclique.run` /
  `Rec.run` do (`none` at the failing call, nothing after); its first component is the final state, `none` after a raise;
* `mstep` / `mrun`: the dispatcher of the same alphabet over the model's own functions (nothing but `Serial.forward`,
  `Biclique.forward`, `Rec.forward`, `Layer.clear` and the flag tests of `clear`), on the model state `abs g` = (static
  configuration, dynamic state).  `gen_step_eq`: one dispatched operation of the regenerated programs, abstracted, is one
  `mstep` (from the per-method glue theorems), for EVERY operation — no domain restriction;
* `gen_step_wf`: the regenerated programs PRESERVE the hypothesis of the glue theorems (`GWF`: `Biclique` — there is a neuron
  group, `pre_output ≠ []`; `RecurrentSerial` — the feed-forward and the feedback connection have different names;
  `Serial` — the glue theorem has no hypothesis, what is preserved is the static configuration `cfg`), so the hypothesis
  holds along a whole execution.  The static configuration is part of `abs`, so `gen_step_eq` itself shows it is never
  changed (`RecRun.gen_step_cfg`); `BicliqueRun.gen_step_frame` is proved by unfolding `genExec`;
* `gen_run_eq`: for EVERY finite operation list, the regenerated programs and the code-shaped model machine `mrun` produce
  the same outputs, fail at the same operation, and end in the same abstract state (and in a `GWF` state);
* the SPECIFICATION MACHINE `specStep` / `specRun` over the same alphabet, built from the model's positional
  specifications: a forward call is `serialSpec` / `bicliqueSpec` / `recSpecStep` on the bare components (no names, no
  dictionaries, no `wiring`), `clear` is each component's own `clear` under `submodules` (and, for the recurrent layer,
  `prev := none` under `clear_feedback`).  The model states its refinement per step (`serial_eq`, `biclique_eq`,
  `recurrent_step_eq`; `serial_run_eq` / `recurrent_eq` are forward-only), so the lift to operation lists WITH `clear`
  is proved here (`model_step_spec`, `gen_step_refines`, then `runE_rel`);
* CAPSTONE `gen_run_refines`: for EVERY finite operation list, started on a canonical layer (the components registered
  under the configured, distinct names — what the constructors build), what the programs regenerated from the source
  return is what the positional specification returns (`Serial`, `RecurrentSerial`: every call succeeds; `Biclique`: it
  fails exactly when `combine` fails), and the final instance is the canonical layer of the specification's final
  components, with unchanged configuration;
* composed with the model's own run-level theorems on forward-only lists: `gen_run_forward_eq` (= `Serial.run` /
  `Biclique.run` / `Rec.run`, from ANY state), `gen_run_forward_refines` (= `serialSpecRun` / `recSpecRun`, through
  `serial_run_eq` / `recurrent_eq`), and the property's second half `gen_replay_after_clear` (through
  `replay_after_clear_serial` / `_biclique` / `_recurrent`): from ANY state of an instance whose components honour the
  `clear` contract, the regenerated `clear()` followed by any inputs returns what the freshly built twin returns.

MIXED RUN — what in `genExec` is NOT regenerated text (said explicitly).  No operation is the model's: every operation
runs regenerated method bodies.  Hand-written are only the inheritance dispatch and the write-back of the layer part:
* `Biclique` has no `forward` / `clear` of its own and `Serial` no `clear` (checked by the translator on every run): the
  operation runs the regenerated `Layer_forward` with `self.wiring` bound to the regenerated `Biclique_wiring_kw` of the
  instance (exactly the term of `gen_biclique_forward`) resp. the regenerated `Layer_clear`, on the layer part
  `s.layer`, and the resulting layer state is written back as `{ s with layer := … }`;
* `Serial_forward`, `RecurrentSerial_forward`, `RecurrentSerial_clear` thread the whole instance themselves.
Not in the alphabet (a run starts from ANY instance state, so nothing is lost): the constructors, `add_connection` /
`add_neuron`, and the `match combine` of `Biclique.__init__` (glued separately: `gen_biclique_combine_*`).

Domain.  `gen_step_eq` / `gen_run_eq` have none (`Sup` is `True` for `Serial` and `RecurrentSerial`: `supRun_all`).
`BicliqueRun.Sup g (.fwd inputs _)` is `keys inputs = keys g.layer.conns`: the call gives every connection its input, in
registration order — the domain of the POSITIONAL specification `bicliqueSpec` (a partial input dictionary is covered by
`gen_run_eq`, where only the named connections run); it is needed by `BicliqueRun.gen_run_refines` only.  `supB` /
`supRunB` are executable forms (`supRunB_sound`) used by the examples.
Outputs.  `RecurrentSerial.forward` with `capture_intermediate` also returns the merged intermediate dictionary, which
the model does not have: outputs are compared through `RecRun.outAbs` (`RecRet.outs` of the glue file); `toOpt` forgets
the exception class, as the glue theorems do.

Nothing resisted: there is no unproved statement.  Core Lean only.
-/
set_option linter.unusedSimpArgs false
set_option linter.unusedVariables false
namespace InfernoVerif.Gen.LayerProg
open InfernoVerif.Layer InfernoVerif.Gen.LayerPrelude

universe u v w
variable {τ : Type}

/-! ## Operation alphabets and outputs -/

/-- operations on a `Serial` (`ι = List τ`: the positional inputs) or `Biclique` (`ι = Dict (List τ)`: inputs by
connection name) instance: `layer(x, capture_intermediate=cap)` and `layer.clear(submodules=sub)` -/
inductive LOp (ι : Type) where
  | fwd (x : ι) (cap : Bool)
  | clear (sub : Bool)

/-- operations on a `RecurrentSerial` instance: `layer(*xs, lateral_connection_args=la, feedback_connection_args=fa,
capture_intermediate=cap)` and `layer.clear(clear_feedback=cf, submodules=sub)` -/
inductive ROp (τ : Type) where
  | fwd (xs : List τ) (la fa : Option (List τ)) (cap : Bool)
  | clear (cf sub : Bool)

/-- what an operation returns: the value of a forward call, or `None` (`clear`) -/
inductive LOut (ρ : Type) where
  | ret (r : ρ)
  | unit
deriving DecidableEq, Repr

/-- map over the returned value -/
def LOut.map {ρ ρ' : Type} (f : ρ → ρ') : LOut ρ → LOut ρ'
  | .ret r => .ret (f r)
  | .unit => .unit

/-! ## Generic runs and the one induction over operation lists -/
section Generic
variable {γ : Type u} {ς : Type v} {ω : Type w} {β β' : Type}

/-- fold of a raising step over an operation list: the outputs in order and the final state; the first exception is the
last output, nothing is executed after it and there is no final state (as the model's `Rec.run`) -/
def runE (step : γ → ω → Except Err (γ × β)) : γ → List ω → Option γ × List (Except Err β)
  | g, [] => (some g, [])
  | g, op :: ops =>
    match step g op with
    | .error e => (none, [.error e])
    | .ok (g', o) => ((runE step g' ops).1, .ok o :: (runE step g' ops).2)

/-- the same for a step that fails with `none` (the model's convention) -/
def runO (step : ς → ω → Option (ς × β')) : ς → List ω → Option ς × List (Option β')
  | s, [] => (some s, [])
  | s, op :: ops =>
    match step s op with
    | none => (none, [none])
    | some (s', o) => ((runO step s' ops).1, some o :: (runO step s' ops).2)

/-- fold of a total step -/
def runT (step : ς → ω → ς × β') : ς → List ω → ς × List β'
  | s, [] => (s, [])
  | s, op :: ops => ((runT step (step s op).1 ops).1, (step s op).2 :: (runT step (step s op).1 ops).2)

/-- a domain `D` along a run: every operation is in the domain at the state the programs have reached (nothing is asked
after an exception: the run has ended) -/
def supRunE (step : γ → ω → Except Err (γ × β)) (D : γ → ω → Prop) : γ → List ω → Prop
  | _, [] => True
  | g, op :: ops => D g op ∧ ∀ r, step g op = .ok r → supRunE step D r.1 ops

/-- executable form of `supRunE` -/
def supRunB (step : γ → ω → Except Err (γ × β)) (D : γ → ω → Bool) : γ → List ω → Bool
  | _, [] => true
  | g, op :: ops => D g op && match step g op with
    | .ok r => supRunB step D r.1 ops
    | .error _ => true

/-- two optional results agree: both absent, or both present and related -/
inductive OptRel {A : Type u} {B : Type v} (R : A → B → Prop) : Option A → Option B → Prop
  | none : OptRel R none none
  | some {a : A} {b : B} : R a b → OptRel R (some a) (some b)

/-- `toOpt` commutes with mapping the returned value -/
theorem toOpt_map {α : Type u} {α' : Type v} (f : α → α') (x : Except Err α) :
    toOpt (x.map f) = (toOpt x).map f := by
  cases x <;> rfl

/-- THE induction over operation lists: if one step of the programs and one step of a machine `sstep` agree from related
states (both fail, or both succeed with related states and outputs equal through `f`), then every run inside the domain
gives the same outputs (the failing position included) and agreeing final states -/
theorem runE_rel (gstep : γ → ω → Except Err (γ × β)) (sstep : ς → ω → Option (ς × β')) (f : β → β')
    (R : γ → ς → Prop) (D : γ → ω → Prop)
    (hstep : ∀ g s op, R g s → D g op →
      OptRel (fun a b => R a.1 b.1 ∧ f a.2 = b.2) (toOpt (gstep g op)) (sstep s op))
    (ops : List ω) (g : γ) (s : ς) (h : R g s) (hd : supRunE gstep D g ops) :
    OptRel R (runE gstep g ops).1 (runO sstep s ops).1 ∧
    (runE gstep g ops).2.map (fun r => (toOpt r).map f) = (runO sstep s ops).2 := by
  induction ops generalizing g s with
  | nil => exact ⟨.some h, rfl⟩
  | cons op ops ih =>
    obtain ⟨hd1, hd2⟩ := hd
    have hs := hstep g s op h hd1
    cases hg : gstep g op with
    | error e =>
      rw [hg] at hs
      cases hm : sstep s op with
      | none => simp only [runE, runO, hg, hm]; exact ⟨.none, rfl⟩
      | some b => rw [hm] at hs; cases hs
    | ok a =>
      rw [hg] at hs
      cases hm : sstep s op with
      | none => rw [hm] at hs; cases hs
      | some b =>
        rw [hm] at hs
        cases hs with
        | some hab =>
          obtain ⟨g', o⟩ := a
          obtain ⟨s', o'⟩ := b
          obtain ⟨i1, i2⟩ := ih g' s' hab.1 (hd2 _ hg)
          simp only [runE, runO, hg, hm, List.map_cons, toOpt_ok, Option.map_some]
          refine ⟨i1, ?_⟩
          rw [i2]
          have : f o = o' := hab.2
          rw [this]

/-- a run of a total step, seen as a run that may fail, never fails -/
theorem runO_total (step : ς → ω → ς × β') (s : ς) (ops : List ω) :
    runO (fun s op => some (step s op)) s ops = (some (runT step s ops).1, (runT step s ops).2.map some) := by
  induction ops generalizing s with
  | nil => rfl
  | cons op ops ih => simp only [runO, runT, ih, List.map_cons]

/-- `OptRel` against a function: the abstraction of the left result is the right one, and the left one has the invariant -/
theorem OptRel.map_eq {A : Type u} {B : Type v} {P : A → Prop} {abs : A → B} {a : Option A} {b : Option B}
    (h : OptRel (fun x y => P x ∧ abs x = y) a b) : a.map abs = b ∧ ∀ x, a = Option.some x → P x := by
  cases h with
  | none => exact ⟨rfl, fun x hx => by cases hx⟩
  | some hab => exact ⟨by simp [hab.2], fun x hx => by cases hx; exact hab.1⟩

/-- `runE_rel` for an abstraction FUNCTION `abs` and an invariant `P` that the programs preserve: outputs equal, final
states equal through `abs`, final state in `P` -/
theorem runE_abs (gstep : γ → ω → Except Err (γ × β)) (mstep : ς → ω → Option (ς × β')) (f : β → β')
    (abs : γ → ς) (P : γ → Prop) (D : γ → ω → Prop)
    (hstep : ∀ g op, P g → D g op → (toOpt (gstep g op)).map (fun r => (abs r.1, f r.2)) = mstep (abs g) op)
    (hP : ∀ g op r, P g → D g op → gstep g op = .ok r → P r.1)
    (ops : List ω) (g : γ) (hg : P g) (hd : supRunE gstep D g ops) :
    (runE gstep g ops).1.map abs = (runO mstep (abs g) ops).1 ∧
    (runE gstep g ops).2.map (fun r => (toOpt r).map f) = (runO mstep (abs g) ops).2 ∧
    ∀ g', (runE gstep g ops).1 = some g' → P g' := by
  have key := runE_rel gstep mstep f (fun x y => P x ∧ abs x = y) D (by
    rintro g s op ⟨hp, rfl⟩ hdop
    have e := hstep g op hp hdop
    cases hx : gstep g op with
    | error err =>
      rw [hx] at e
      simp only [toOpt_error, Option.map_none] at e
      rw [← e]; exact .none
    | ok r =>
      rw [hx] at e
      simp only [toOpt_ok, Option.map_some] at e
      rw [← e]
      exact .some ⟨⟨hP g op r hp hdop hx, rfl⟩, rfl⟩) ops g (abs g) ⟨hg, rfl⟩ hd
  exact ⟨key.1.map_eq.1, key.2, key.1.map_eq.2⟩

/-- the empty domain restriction holds along every run -/
theorem supRunE_true (step : γ → ω → Except Err (γ × β)) (g : γ) (ops : List ω) :
    supRunE step (fun _ _ => True) g ops := by
  induction ops generalizing g with
  | nil => trivial
  | cons op ops ih => exact ⟨trivial, fun r _ => ih r.1⟩

/-- the executable check implies the domain along the run -/
theorem supRunB_sound (step : γ → ω → Except Err (γ × β)) (D : γ → ω → Bool) (Dp : γ → ω → Prop)
    (hD : ∀ g op, D g op = true → Dp g op) (ops : List ω) (g : γ) (h : supRunB step D g ops = true) :
    supRunE step Dp g ops := by
  induction ops generalizing g with
  | nil => trivial
  | cons op ops ih =>
    simp only [supRunB, Bool.and_eq_true] at h
    refine ⟨hD g op h.1, fun r hr => ih r.1 ?_⟩
    have h2 := h.2
    rw [hr] at h2
    exact h2

end Generic

/-! ## Serial -/
namespace SerialRun

/-- dispatch to the regenerated methods: `Serial_forward` (which calls the regenerated `Layer_forward` and
`Serial_wiring`); `clear` is the inherited `Layer_clear` on the layer part, written back -/
def genExec (E : TOps τ) (s : SerialS τ) : LOp (List τ) → Except Err (SerialS τ × LOut (SerialRet τ))
  | .fwd xs cap => (Serial_forward E s xs cap).map fun r => (r.1, .ret r.2)
  | .clear sub => (Layer_clear E s.layer sub).map fun r => ({ s with layer := r.1 }, .unit)

/-- the domain: everything (the glue theorems of `Serial` have no side condition) -/
def Sup (s : SerialS τ) (op : LOp (List τ)) : Prop := True

/-- abstraction: the static configuration and the layer state of the model -/
def abs (s : SerialS τ) : SerialCfg τ × LayerSt τ := (s.cfg, s.layer)

/-- the same alphabet over the model's own functions `Serial.forward` and `Layer.clear` (the configuration never changes) -/
def mstep (m : SerialCfg τ × LayerSt τ) : LOp (List τ) → Option ((SerialCfg τ × LayerSt τ) × LOut (SerialRet τ))
  | .fwd xs cap => (Serial.forward m.1 m.2 xs).map fun r => ((m.1, r.1), .ret (serialRet cap r.2.1 r.2.2))
  | .clear sub => some ((m.1, if sub then Layer.clear m.2 else m.2), .unit)

/-- one dispatched operation of the regenerated programs, abstracted, is one step of the model machine — for every
operation, from every state (`gen_serial_forward`, `gen_layer_clear`) -/
theorem gen_step_eq (E : TOps τ) (s : SerialS τ) (op : LOp (List τ)) :
    (toOpt (genExec E s op)).map (fun r => (abs r.1, r.2)) = mstep (abs s) op := by
  cases op with
  | fwd xs cap =>
    simp only [genExec, toOpt_map, gen_serial_forward, Option.map_map, mstep, abs]
    rfl
  | clear sub =>
    simp only [genExec, gen_layer_clear, mstep, abs]
    rfl

/-- preservation: the glue theorems of `Serial` need no well-formedness; what a run relies on is that the regenerated
programs never change the static configuration (names, transform) -/
theorem gen_step_wf (E : TOps τ) (s : SerialS τ) (op : LOp (List τ)) (r : SerialS τ × LOut (SerialRet τ))
    (hr : genExec E s op = .ok r) : r.1.cfg = s.cfg := by
  have e := gen_step_eq E s op
  rw [hr] at e
  cases op with
  | fwd xs cap =>
    simp only [toOpt_ok, Option.map_some, mstep, abs] at e
    cases hf : Serial.forward s.cfg s.layer xs with
    | none => simp [hf] at e
    | some q => simp [hf] at e; exact e.1.1
  | clear sub =>
    simp only [toOpt_ok, Option.map_some, mstep, abs, Option.some.injEq, Prod.mk.injEq] at e
    exact e.1.1

/-- run of the regenerated programs over an operation list -/
def genRun (E : TOps τ) : SerialS τ → List (LOp (List τ)) → Option (SerialS τ) × List (Except Err (LOut (SerialRet τ))) :=
  runE (genExec E)

/-- `Sup` along a run -/
def SupRun (E : TOps τ) : SerialS τ → List (LOp (List τ)) → Prop := supRunE (genExec E) Sup

/-- every operation list is inside the domain -/
theorem supRun_all (E : TOps τ) (s : SerialS τ) (ops : List (LOp (List τ))) : SupRun E s ops :=
  supRunE_true _ _ _

/-- run of the model machine -/
def mrun : SerialCfg τ × LayerSt τ → List (LOp (List τ)) →
    Option (SerialCfg τ × LayerSt τ) × List (Option (LOut (SerialRet τ))) := runO mstep

/-- for EVERY operation list and EVERY initial state the regenerated programs and the code-shaped model produce the same
outputs, fail at the same call, and end in the same abstract state -/
theorem gen_run_eq (E : TOps τ) (ops : List (LOp (List τ))) (s : SerialS τ) :
    (genRun E s ops).1.map abs = (mrun (abs s) ops).1 ∧ (genRun E s ops).2.map toOpt = (mrun (abs s) ops).2 := by
  have h := runE_abs (genExec E) mstep id abs (fun _ => True) Sup (fun g op _ _ => gen_step_eq E g op)
    (fun _ _ _ _ _ _ => trivial) ops s trivial (supRun_all E s ops)
  refine ⟨h.1, ?_⟩
  unfold mrun genRun
  rw [← h.2.1]
  simp

/-- the canonical serial layer: one connection, one neuron group, under the configured names -/
def canon (C : SerialCfg τ) (sp : Conn τ × Neur τ) : LayerSt τ := ⟨[(C.cn, sp.1)], [(C.nn, sp.2)]⟩

/-- SPECIFICATION machine on the two bare components: a call is `serialSpec` = `neuron(transform(connection(*inputs)))`
(with `capture_intermediate` the connection's output too), `clear(submodules)` is each component's own `clear` -/
def specStep (trans : τ → τ) (sp : Conn τ × Neur τ) : LOp (List τ) → (Conn τ × Neur τ) × LOut (SerialRet τ)
  | .fwd xs cap =>
    ((serialSpec trans sp.1 sp.2 xs).1,
      .ret (serialRet cap (serialSpec trans sp.1 sp.2 xs).2.1 (serialSpec trans sp.1 sp.2 xs).2.2))
  | .clear sub => (if sub then (sp.1.clr, sp.2.clr) else sp, .unit)

/-- run of the specification machine (it never fails) -/
def specRun (trans : τ → τ) : Conn τ × Neur τ → List (LOp (List τ)) → (Conn τ × Neur τ) × List (LOut (SerialRet τ)) :=
  runT (specStep trans)

/-- model → specification, one step with `clear` included: on a canonical layer the model machine performs the
specification step and stays canonical (`serial_eq` of `Props/C17.lean`) -/
theorem model_step_spec (C : SerialCfg τ) (sp : Conn τ × Neur τ) (op : LOp (List τ)) :
    mstep (C, canon C sp) op = some ((C, canon C (specStep C.trans sp op).1), (specStep C.trans sp op).2) := by
  cases op with
  | fwd xs cap =>
    simp only [mstep, canon, serial_eq, Option.map_some, specStep, serialSpec]
  | clear sub =>
    cases sub <;> rfl

/-- programs → specification, one step: from an instance whose layer is canonical the regenerated program succeeds,
returns what the specification returns and leaves a canonical layer of the specification's new components -/
theorem gen_step_refines (E : TOps τ) (C : SerialCfg τ) (g : SerialS τ) (sp : Conn τ × Neur τ) (op : LOp (List τ))
    (h : abs g = (C, canon C sp)) :
    OptRel (fun a b => abs a.1 = (C, canon C b.1) ∧ id a.2 = b.2) (toOpt (genExec E g op))
      (some (specStep C.trans sp op)) := by
  have e := gen_step_eq E g op
  rw [h, model_step_spec] at e
  cases hx : toOpt (genExec E g op) with
  | none => rw [hx] at e; simp at e
  | some r =>
    rw [hx] at e
    simp only [Option.map_some, Option.some.injEq, Prod.mk.injEq] at e
    exact .some ⟨e.1, e.2⟩

/-- CAPSTONE (`Serial`): for EVERY finite sequence of forward calls (either `capture_intermediate`) and `clear`s (either
`submodules`), started on a serial layer holding connection `c` and neuron group `n` under its configured names, the
programs regenerated from /repo never raise, return call by call what the specification `neuron(transform(connection(x)))`
returns, and end as the same layer holding the specification's final components -/
theorem gen_run_refines (E : TOps τ) (ops : List (LOp (List τ))) (s : SerialS τ) (c : Conn τ) (n : Neur τ)
    (hs : s.layer = ⟨[(s.cn, c)], [(s.nn, n)]⟩) :
    (genRun E s ops).2.map toOpt = (specRun s.trans (c, n) ops).2.map some ∧
    ∃ g', (genRun E s ops).1 = some g' ∧ g'.cfg = s.cfg ∧
      g'.layer = ⟨[(s.cn, (specRun s.trans (c, n) ops).1.1)], [(s.nn, (specRun s.trans (c, n) ops).1.2)]⟩ := by
  have h := runE_rel (genExec E) (fun sp op => some (specStep s.cfg.trans sp op)) id
    (fun g sp => abs g = (s.cfg, canon s.cfg sp)) Sup
    (fun g sp op hr _ => gen_step_refines E s.cfg g sp op hr) ops s (c, n)
    (by simp only [abs, canon, hs]; rfl) (supRun_all E s ops)
  rw [runO_total] at h
  obtain ⟨h1, h2⟩ := h
  simp only [SerialS.cfg_trans] at h1 h2
  refine ⟨?_, ?_⟩
  · unfold genRun specRun
    rw [← h2]; simp
  · unfold genRun specRun
    generalize (runE (genExec E) s ops).1 = fin at h1
    cases h1 with
    | some hab =>
      rename_i a
      simp only [abs, Prod.mk.injEq] at hab
      exact ⟨a, rfl, hab.1, hab.2⟩

/-! ### forward-only runs: composition with the model's own run-level theorems -/

/-- the operation list "call on `xs` for every `xs` of `xss`" -/
def fwdOps (cap : Bool) (xss : List (List τ)) : List (LOp (List τ)) := xss.map fun xs => .fwd xs cap

/-- the neuron output of a returned value (`clear` returns none) -/
def outNeuron : LOut (SerialRet τ) → Option τ
  | .ret (.single o) => some o
  | .ret (.pair o _) => some o
  | .unit => none

/-- on forward-only lists the model machine is the model's `Serial.run` -/
theorem mrun_fwd (C : SerialCfg τ) (L : LayerSt τ) (cap : Bool) (xss : List (List τ)) :
    (mrun (C, L) (fwdOps cap xss)).2.map (fun o => o.bind outNeuron) = Serial.run C L xss := by
  induction xss generalizing L with
  | nil => rfl
  | cons xs rest ih =>
    simp only [mrun, fwdOps, List.map_cons, runO, mstep, Serial.run]
    cases hf : Serial.forward C L xs with
    | none => rfl
    | some r =>
      obtain ⟨L', o, y⟩ := r
      have := ih L'
      simp only [mrun, fwdOps] at this
      simp only [Option.map_some, List.map_cons, this]
      cases cap <;> rfl

/-- from ANY instance state, the neuron outputs of the regenerated programs over a sequence of calls are the model's
`Serial.run` (`none` at and after a failing call) -/
theorem gen_run_forward_eq (E : TOps τ) (s : SerialS τ) (cap : Bool) (xss : List (List τ)) :
    (genRun E s (fwdOps cap xss)).2.map (fun r => (toOpt r).bind outNeuron) = Serial.run s.cfg s.layer xss := by
  have h := (gen_run_eq E (fwdOps cap xss) s).2
  rw [← mrun_fwd s.cfg s.layer cap xss]
  show _ = List.map _ (mrun (abs s) (fwdOps cap xss)).2
  rw [← h, List.map_map]
  rfl

/-- composed with `serial_run_eq`: on a canonical serial layer the regenerated programs return, step after step, the run
of the specification `serialSpecRun` -/
theorem gen_run_forward_refines (E : TOps τ) (s : SerialS τ) (c : Conn τ) (n : Neur τ)
    (hs : s.layer = ⟨[(s.cn, c)], [(s.nn, n)]⟩) (cap : Bool) (xss : List (List τ)) :
    (genRun E s (fwdOps cap xss)).2.map (fun r => (toOpt r).bind outNeuron) =
      (serialSpecRun s.trans c n xss).map some := by
  rw [gen_run_forward_eq, hs]
  exact serial_run_eq s.cfg c n xss

/-- composed with `replay_after_clear_serial` — `clear()` restores the initial state, for the REGENERATED programs: from ANY
instance state (any dictionaries of components honouring the `clear` contract, in particular after any history), the
regenerated `clear()` followed by any sequence of calls returns what the freshly built twin `Layer.fresh` returns -/
theorem gen_replay_after_clear (E : TOps τ) (s : SerialS τ) (hc : ∀ kv ∈ s.layer.conns, kv.2.ClearOK)
    (hn : ∀ kv ∈ s.layer.neurs, kv.2.ClearOK) (cap : Bool) (xss : List (List τ)) :
    (genRun E s (.clear true :: fwdOps cap xss)).2.tail.map (fun r => (toOpt r).bind outNeuron) =
      Serial.run s.cfg (Layer.fresh s.layer) xss := by
  have e : genExec E s (.clear true) = .ok ({ s with layer := Layer.clear s.layer }, .unit) := by
    simp only [genExec, gen_layer_clear]; rfl
  simp only [genRun, runE, e, List.tail_cons]
  rw [← replay_after_clear_serial s.cfg s.layer hc hn xss]
  exact gen_run_forward_eq E { s with layer := Layer.clear s.layer } cap xss

end SerialRun

/-! ## RecurrentSerial -/
namespace RecRun

/-- dispatch to the regenerated methods `RecurrentSerial_forward` (which calls the regenerated `Layer_get_neuron`,
`Layer_forward` twice and `RecurrentSerial_wiring`) and `RecurrentSerial_clear`; both thread the whole instance -/
def genExec (E : TOps τ) (s : RecS τ) : ROp τ → Except Err (RecS τ × LOut (RecRet τ))
  | .fwd xs la fa cap => (RecurrentSerial_forward E s xs la fa cap).map fun r => (r.1, .ret r.2)
  | .clear cf sub => (RecurrentSerial_clear E s cf sub).map fun r => (r.1, .unit)

/-- the domain: everything -/
def Sup (s : RecS τ) (op : ROp τ) : Prop := True

/-- the hypothesis of `gen_recurrent_forward`: the feed-forward and the feedback connection have different names -/
def GWF (s : RecS τ) : Prop := s.ffc ≠ s.fbc

/-- state of the model machine: the static configuration (as a function of the two extra-argument tuples of a call,
which the abstraction `RecS.cfg` folds into the in-transforms) and the model's dynamic state -/
abbrev MS (τ : Type) : Type 1 := (Option (List τ) → Option (List τ) → RecCfg τ) × RecSt τ

/-- abstraction of an instance -/
def abs (E : TOps τ) (s : RecS τ) : MS τ := (s.cfg E, s.st)

/-- the same alphabet over the model's own `Rec.forward` and `Layer.clear`; `clear` with its two flags: `clear_feedback`
drops the stored feedback spikes, `submodules` clears every component (both: the model's `Rec.clear`) -/
def mstep (m : MS τ) : ROp τ → Option (MS τ × LOut (τ × τ))
  | .fwd xs la fa _ => (Rec.forward (m.1 la fa) m.2 xs).map fun r => ((m.1, r.1), .ret r.2)
  | .clear cf sub =>
    some ((m.1, ⟨if sub then Layer.clear m.2.L else m.2.L, if cf then none else m.2.feedback⟩), .unit)

/-- outputs are compared as the pair of neuron outputs (the merged intermediate dictionary of `capture_intermediate` is
not in the model) -/
def outAbs : LOut (RecRet τ) → LOut (τ × τ) := LOut.map RecRet.outs

/-- one dispatched operation of the regenerated programs, abstracted, is one step of the model machine — every operation,
every state with distinct connection names (`gen_recurrent_forward`, `gen_recurrent_clear`) -/
theorem gen_step_eq (E : TOps τ) (s : RecS τ) (h : GWF s) (op : ROp τ) :
    (toOpt (genExec E s op)).map (fun r => (abs E r.1, outAbs r.2)) = mstep (abs E s) op := by
  cases op with
  | fwd xs la fa cap =>
    have k := congrArg (Option.map fun p : RecS τ × (τ × τ) => ((abs E p.1, LOut.ret p.2) : MS τ × LOut (τ × τ)))
      (gen_recurrent_forward E s h xs la fa cap)
    simp only [Option.map_map] at k
    simp only [genExec, toOpt_map, Option.map_map, mstep, abs]
    exact k
  | clear cf sub =>
    simp only [genExec, gen_recurrent_clear, mstep, abs]
    rfl

/-- frame: the regenerated programs never change the static configuration (names, transforms) -/
theorem gen_step_cfg (E : TOps τ) (s : RecS τ) (h : GWF s) (op : ROp τ) (r : RecS τ × LOut (RecRet τ))
    (hr : genExec E s op = .ok r) : r.1.cfg E = s.cfg E := by
  have e := gen_step_eq E s h op
  rw [hr] at e
  cases op with
  | fwd xs la fa cap =>
    simp only [toOpt_ok, Option.map_some, mstep, abs] at e
    cases hf : Rec.forward (s.cfg E la fa) s.st xs with
    | none => simp [hf] at e
    | some q => simp [hf] at e; exact e.1.1
  | clear cf sub =>
    simp only [toOpt_ok, Option.map_some, mstep, abs, Option.some.injEq, Prod.mk.injEq] at e
    exact e.1.1

/-- the regenerated programs PRESERVE the hypothesis of the glue theorems: after any operation the connection names are
still distinct -/
theorem gen_step_wf (E : TOps τ) (s : RecS τ) (h : GWF s) (op : ROp τ) (r : RecS τ × LOut (RecRet τ))
    (hr : genExec E s op = .ok r) : GWF r.1 := by
  have e := congrFun (congrFun (gen_step_cfg E s h op r hr) none) none
  have e1 : r.1.ffc = s.ffc := congrArg RecCfg.ffc e
  have e2 : r.1.fbc = s.fbc := congrArg RecCfg.fbc e
  unfold GWF
  rw [e1, e2]; exact h

/-- run of the regenerated programs over an operation list -/
def genRun (E : TOps τ) : RecS τ → List (ROp τ) → Option (RecS τ) × List (Except Err (LOut (RecRet τ))) :=
  runE (genExec E)

/-- `Sup` along a run -/
def SupRun (E : TOps τ) : RecS τ → List (ROp τ) → Prop := supRunE (genExec E) Sup

/-- every operation list is inside the domain -/
theorem supRun_all (E : TOps τ) (s : RecS τ) (ops : List (ROp τ)) : SupRun E s ops :=
  supRunE_true _ _ _

/-- run of the model machine -/
def mrun : MS τ → List (ROp τ) → Option (MS τ) × List (Option (LOut (τ × τ))) := runO mstep

/-- for EVERY operation list and EVERY initial state with distinct connection names the regenerated programs and the
code-shaped model produce the same outputs, fail at the same call, end in the same abstract state, and the final
instance again satisfies the hypothesis of the glue theorems -/
theorem gen_run_eq (E : TOps τ) (ops : List (ROp τ)) (s : RecS τ) (h : GWF s) :
    (genRun E s ops).1.map (abs E) = (mrun (abs E s) ops).1 ∧
    (genRun E s ops).2.map (fun r => (toOpt r).map outAbs) = (mrun (abs E s) ops).2 ∧
    ∀ g', (genRun E s ops).1 = some g' → GWF g' :=
  runE_abs (genExec E) mstep outAbs (abs E) GWF Sup (fun g op hg _ => gen_step_eq E g hg op)
    (fun g op r hg _ hr => gen_step_wf E g hg op r hr) ops s h (supRun_all E s ops)

/-- `clear(clear_feedback, submodules)` on the specification state: each component's own `clear`, `prev := None` -/
def specClear (sp : RecSpecSt τ) (cf sub : Bool) : RecSpecSt τ :=
  { cff := if sub then sp.cff.clr else sp.cff, clat := if sub then sp.clat.clr else sp.clat,
    cfb := if sub then sp.cfb.clr else sp.cfb, nff := if sub then sp.nff.clr else sp.nff,
    nfb := if sub then sp.nfb.clr else sp.nfb, prev := if cf then none else sp.prev }

/-- SPECIFICATION machine on the five bare components and the previous feedback output: a call is `recSpecStep` —
feed-forward neurons driven by `ffOut(ff(x_t)) + fbOut(fb(fbIn(s_{t-1})))`, zeros when nothing is stored -/
def specStep (C : Option (List τ) → Option (List τ) → RecCfg τ) (sp : RecSpecSt τ) : ROp τ → RecSpecSt τ × LOut (τ × τ)
  | .fwd xs la fa _ => ((recSpecStep (C la fa) sp xs).1, .ret (recSpecStep (C la fa) sp xs).2)
  | .clear cf sub => (specClear sp cf sub, .unit)

/-- run of the specification machine (it never fails) -/
def specRun (C : Option (List τ) → Option (List τ) → RecCfg τ) :
    RecSpecSt τ → List (ROp τ) → RecSpecSt τ × List (LOut (τ × τ)) := runT (specStep C)

/-- the component contract of `recurrent_step_eq`: a neuron group's `spike` read-out is the output just emitted -/
structure SpecOK (sp : RecSpecSt τ) : Prop where
  pff : sp.nff.PeekOK
  pfb : sp.nfb.PeekOK

/-- the contract is about the components' functions, not their states: every specification step keeps it -/
theorem specStep_ok (C : Option (List τ) → Option (List τ) → RecCfg τ) (sp : RecSpecSt τ) (h : SpecOK sp) (op : ROp τ) :
    SpecOK (specStep C sp op).1 := by
  cases op with
  | fwd xs la fa cap => exact ⟨h.pff, h.pfb⟩
  | clear cf sub => cases sub <;> exact ⟨h.pff, h.pfb⟩

/-- model → specification, one step with `clear` included: on a canonical recurrent layer (distinct names) the model
machine performs the specification step and stays canonical (`recurrent_step_eq` of `Props/C17.lean`) -/
theorem model_step_spec (E : TOps τ) (s : RecS τ) (h1 : s.ffc ≠ s.latc) (h2 : s.ffc ≠ s.fbc) (h3 : s.latc ≠ s.fbc)
    (h4 : s.ffn ≠ s.fbn) (sp : RecSpecSt τ) (hok : SpecOK sp) (op : ROp τ) :
    mstep (s.cfg E, sp.toSt (s.cfg E none none)) op =
      some ((s.cfg E, (specStep (s.cfg E) sp op).1.toSt (s.cfg E none none)), (specStep (s.cfg E) sp op).2) := by
  cases op with
  | fwd xs la fa cap =>
    have k := recurrent_step_eq (s.cfg E la fa) sp h1 h2 h3 h4 hok.pff hok.pfb xs
    have k' : Rec.forward (s.cfg E la fa) (sp.toSt (s.cfg E none none)) xs =
        some ((recSpecStep (s.cfg E la fa) sp xs).1.toSt (s.cfg E none none), (recSpecStep (s.cfg E la fa) sp xs).2) := k
    simp only [mstep, k', Option.map_some, specStep]
  | clear cf sub =>
    cases sub <;> cases cf <;> rfl

/-- programs → specification, one step: from an instance in the canonical state of `sp` the regenerated program succeeds,
returns what the specification returns and leaves the canonical state of the specification's new state -/
theorem gen_step_refines (E : TOps τ) (s : RecS τ) (h1 : s.ffc ≠ s.latc) (h2 : s.ffc ≠ s.fbc) (h3 : s.latc ≠ s.fbc)
    (h4 : s.ffn ≠ s.fbn) (g : RecS τ) (sp : RecSpecSt τ) (op : ROp τ)
    (h : GWF g ∧ abs E g = (s.cfg E, sp.toSt (s.cfg E none none)) ∧ SpecOK sp) :
    OptRel (fun a b => (GWF a.1 ∧ abs E a.1 = (s.cfg E, b.1.toSt (s.cfg E none none)) ∧ SpecOK b.1) ∧ outAbs a.2 = b.2)
      (toOpt (genExec E g op)) (some (specStep (s.cfg E) sp op)) := by
  obtain ⟨hw, ha, hok⟩ := h
  have e := gen_step_eq E g hw op
  rw [ha, model_step_spec E s h1 h2 h3 h4 sp hok] at e
  cases hx : genExec E g op with
  | error err => rw [hx] at e; simp at e
  | ok r =>
    rw [hx] at e
    simp only [toOpt_ok, Option.map_some, Option.some.injEq, Prod.mk.injEq] at e
    exact .some ⟨⟨gen_step_wf E g hw op r hx, e.1, specStep_ok _ sp hok op⟩, e.2⟩

/-- CAPSTONE (`RecurrentSerial`): for EVERY finite sequence of forward calls (any extra connection arguments, either
`capture_intermediate`) and `clear`s (all four flag combinations), started on a recurrent layer holding the five
components of `sp` under its configured, distinct names with `feedback_spikes = sp.prev`, and neuron groups whose `spike`
is the output just emitted, the programs regenerated from /repo never raise, return call by call the pair of neuron
outputs of the specification (`ff-neurons(t) ← ffOut(ff(x_t)) + fbOut(fb(fbIn(s_{t−1})))`, zeros on the first step and after
a `clear` with `clear_feedback`), and end in the canonical state of the specification's final state, configuration unchanged -/
theorem gen_run_refines (E : TOps τ) (ops : List (ROp τ)) (s : RecS τ) (sp : RecSpecSt τ)
    (hst : s.st = sp.toSt (s.cfg E none none))
    (h1 : s.ffc ≠ s.latc) (h2 : s.ffc ≠ s.fbc) (h3 : s.latc ≠ s.fbc) (h4 : s.ffn ≠ s.fbn)
    (pff : sp.nff.PeekOK) (pfb : sp.nfb.PeekOK) :
    (genRun E s ops).2.map (fun r => (toOpt r).map outAbs) = (specRun (s.cfg E) sp ops).2.map some ∧
    ∃ g', (genRun E s ops).1 = some g' ∧ g'.cfg E = s.cfg E ∧
      g'.st = (specRun (s.cfg E) sp ops).1.toSt (s.cfg E none none) ∧ GWF g' := by
  have h := runE_rel (genExec E) (fun sp op => some (specStep (s.cfg E) sp op)) outAbs
    (fun g sp => GWF g ∧ abs E g = (s.cfg E, sp.toSt (s.cfg E none none)) ∧ SpecOK sp) Sup
    (fun g sp op hr _ => gen_step_refines E s h1 h2 h3 h4 g sp op hr) ops s sp
    ⟨h2, by simp only [abs, hst], ⟨pff, pfb⟩⟩ (supRun_all E s ops)
  rw [runO_total] at h
  obtain ⟨k1, k2⟩ := h
  refine ⟨k2, ?_⟩
  unfold genRun specRun
  generalize (runE (genExec E) s ops).1 = fin at k1
  cases k1 with
  | some hab =>
    rename_i a
    obtain ⟨hw, ha, -⟩ := hab
    simp only [abs, Prod.mk.injEq] at ha
    exact ⟨a, rfl, ha.1, ha.2, hw⟩

/-! ### forward-only runs: composition with the model's own run-level theorems -/

/-- the operation list "call on `xs` (same extra arguments) for every `xs` of `xss`" -/
def fwdOps (la fa : Option (List τ)) (cap : Bool) (xss : List (List τ)) : List (ROp τ) :=
  xss.map fun xs => .fwd xs la fa cap

/-- the pair of neuron outputs of a returned value (`clear` returns none) -/
def outPair : LOut (τ × τ) → Option (τ × τ)
  | .ret p => some p
  | .unit => none

/-- on forward-only lists the model machine is the model's `Rec.run` -/
theorem mrun_fwd (C : Option (List τ) → Option (List τ) → RecCfg τ) (S : RecSt τ) (la fa : Option (List τ))
    (cap : Bool) (xss : List (List τ)) :
    (mrun (C, S) (fwdOps la fa cap xss)).2.map (fun o => o.bind outPair) = Rec.run (C la fa) S xss := by
  induction xss generalizing S with
  | nil => rfl
  | cons xs rest ih =>
    simp only [mrun, fwdOps, List.map_cons, runO, mstep, Rec.run]
    cases hf : Rec.forward (C la fa) S xs with
    | none => rfl
    | some r =>
      obtain ⟨S', o⟩ := r
      have := ih S'
      simp only [mrun, fwdOps] at this
      simp only [Option.map_some, List.map_cons, this]
      rfl

/-- from ANY instance state with distinct connection names, the output pairs of the regenerated programs over a sequence
of calls are the model's `Rec.run` (`none` at and after a failing call) -/
theorem gen_run_forward_eq (E : TOps τ) (s : RecS τ) (h : GWF s) (la fa : Option (List τ)) (cap : Bool)
    (xss : List (List τ)) :
    (genRun E s (fwdOps la fa cap xss)).2.map (fun r => ((toOpt r).map outAbs).bind outPair) =
      Rec.run (s.cfg E la fa) s.st xss := by
  have k := (gen_run_eq E (fwdOps la fa cap xss) s h).2.1
  rw [← mrun_fwd (s.cfg E) s.st la fa cap xss]
  show _ = List.map _ (mrun (abs E s) (fwdOps la fa cap xss)).2
  rw [← k, List.map_map]
  rfl

/-- composed with `recurrent_eq` (induction over steps): on a canonical recurrent layer the regenerated programs return,
step after step, the run of the specification `recSpecRun` -/
theorem gen_run_forward_refines (E : TOps τ) (s : RecS τ) (sp : RecSpecSt τ) (la fa : Option (List τ))
    (hst : s.st = sp.toSt (s.cfg E la fa))
    (h1 : s.ffc ≠ s.latc) (h2 : s.ffc ≠ s.fbc) (h3 : s.latc ≠ s.fbc) (h4 : s.ffn ≠ s.fbn)
    (pff : sp.nff.PeekOK) (pfb : sp.nfb.PeekOK) (cap : Bool) (xss : List (List τ)) :
    (genRun E s (fwdOps la fa cap xss)).2.map (fun r => ((toOpt r).map outAbs).bind outPair) =
      (recSpecRun (s.cfg E la fa) sp xss).map some := by
  rw [gen_run_forward_eq E s h2, hst]
  exact recurrent_eq (s.cfg E la fa) sp h1 h2 h3 h4 pff pfb xss

/-- composed with `replay_after_clear_recurrent` — `clear()` restores the initial state, for the REGENERATED programs: from
ANY instance state (any components honouring the `clear` contract, any stored feedback spikes, in particular after any
history), the regenerated `clear()` followed by any sequence of calls returns what the freshly built twin `Rec.fresh`
returns -/
theorem gen_replay_after_clear (E : TOps τ) (s : RecS τ) (h : GWF s) (hc : ∀ kv ∈ s.layer.conns, kv.2.ClearOK)
    (hn : ∀ kv ∈ s.layer.neurs, kv.2.ClearOK) (la fa : Option (List τ)) (cap : Bool) (xss : List (List τ)) :
    (genRun E s (.clear true true :: fwdOps la fa cap xss)).2.tail.map
        (fun r => ((toOpt r).map outAbs).bind outPair) =
      Rec.run (s.cfg E la fa) (Rec.fresh s.st) xss := by
  have e : genExec E s (.clear true true) = .ok (s.withSt (Rec.clear s.st), .unit) := by
    simp only [genExec, gen_recurrent_clear_default]; rfl
  simp only [genRun, runE, e, List.tail_cons]
  rw [← replay_after_clear_recurrent (s.cfg E la fa) s.st hc hn xss]
  exact gen_run_forward_eq E (s.withSt (Rec.clear s.st)) h la fa cap xss

end RecRun

/-! ## Biclique -/
namespace BicliqueRun

/-- dispatch: `Biclique` inherits `forward` and `clear` (checked by the translator), so a call runs the regenerated
`Layer_forward` with `self.wiring` bound to the regenerated `Biclique_wiring_kw` of the instance and `clear` the regenerated
`Layer_clear`, both on the layer part, which is written back -/
def genExec (E : TOps τ) (s : BicliqueS τ) : LOp (Dict (List τ)) → Except Err (BicliqueS τ × LOut (FwdRet τ))
  | .fwd inputs cap =>
    (Layer_forward E (fun l_ => Biclique_wiring_kw E { s with layer := l_ }) s.layer inputs cap []).map
      fun r => ({ s with layer := r.1 }, .ret r.2)
  | .clear sub => (Layer_clear E s.layer sub).map fun r => ({ s with layer := r.1 }, .unit)

/-- the hypothesis of `gen_biclique_forward`: there is a neuron group -/
def GWF (s : BicliqueS τ) : Prop := s.pre_output ≠ []

/-- the domain of the POSITIONAL specification: a call names every registered connection, in registration order (needed by
`gen_run_refines` only; `gen_run_eq` covers partial input dictionaries) -/
def Sup (s : BicliqueS τ) : LOp (Dict (List τ)) → Prop
  | .fwd inputs _ => keys inputs = keys s.layer.conns
  | .clear _ => True

/-- executable form of `Sup` -/
def supB (s : BicliqueS τ) : LOp (Dict (List τ)) → Bool
  | .fwd inputs _ => keys inputs == keys s.layer.conns
  | .clear _ => true

/-- the executable check implies `Sup` -/
theorem supB_sound (s : BicliqueS τ) (op : LOp (Dict (List τ))) (h : supB s op = true) : Sup s op := by
  cases op with
  | fwd inputs cap => simpa [supB, Sup] using h
  | clear sub => trivial

/-- abstraction: the static configuration and the layer state of the model -/
def abs (s : BicliqueS τ) : BicliqueCfg τ × LayerSt τ := (s.cfg, s.layer)

/-- the same alphabet over the model's own functions `Biclique.forward` and `Layer.clear` -/
def mstep (m : BicliqueCfg τ × LayerSt τ) :
    LOp (Dict (List τ)) → Option ((BicliqueCfg τ × LayerSt τ) × LOut (FwdRet τ))
  | .fwd inputs cap => (Biclique.forward m.1 m.2 inputs).map fun r => ((m.1, r.1), .ret (fwdRet cap r.2.1 r.2.2))
  | .clear sub => some ((m.1, if sub then Layer.clear m.2 else m.2), .unit)

/-- one dispatched operation of the regenerated programs, abstracted, is one step of the model machine — every operation
(any input dictionary), every state with a neuron group (`gen_biclique_forward`, `gen_layer_clear`) -/
theorem gen_step_eq (E : TOps τ) (s : BicliqueS τ) (h : GWF s) (op : LOp (Dict (List τ))) :
    (toOpt (genExec E s op)).map (fun r => (abs r.1, r.2)) = mstep (abs s) op := by
  cases op with
  | fwd inputs cap =>
    simp only [genExec, toOpt_map, gen_biclique_forward E s h, Option.map_map, mstep, abs]
    rfl
  | clear sub =>
    simp only [genExec, gen_layer_clear, mstep, abs]
    rfl

/-- frame (by unfolding the dispatch): an operation only replaces the layer part of the instance -/
theorem gen_step_frame (E : TOps τ) (s : BicliqueS τ) (op : LOp (Dict (List τ))) (r : BicliqueS τ × LOut (FwdRet τ))
    (hr : genExec E s op = .ok r) : ∃ L, r.1 = { s with layer := L } := by
  cases op with
  | fwd inputs cap =>
    simp only [genExec] at hr
    cases hx : Layer_forward E (fun l_ => Biclique_wiring_kw E { s with layer := l_ }) s.layer inputs cap [] with
    | error e => rw [hx] at hr; cases hr
    | ok q => rw [hx] at hr; cases hr; exact ⟨_, rfl⟩
  | clear sub =>
    simp only [genExec, gen_layer_clear] at hr
    cases hr; exact ⟨_, rfl⟩

/-- the regenerated programs PRESERVE the hypothesis of the glue theorems: the dictionary of pre-output transforms is
never touched -/
theorem gen_step_wf (E : TOps τ) (s : BicliqueS τ) (h : GWF s) (op : LOp (Dict (List τ)))
    (r : BicliqueS τ × LOut (FwdRet τ)) (hr : genExec E s op = .ok r) : GWF r.1 := by
  obtain ⟨L, hL⟩ := gen_step_frame E s op r hr
  rw [hL]; exact h

/-- run of the regenerated programs over an operation list -/
def genRun (E : TOps τ) :
    BicliqueS τ → List (LOp (Dict (List τ))) → Option (BicliqueS τ) × List (Except Err (LOut (FwdRet τ))) :=
  runE (genExec E)

/-- `Sup` along a run -/
def SupRun (E : TOps τ) : BicliqueS τ → List (LOp (Dict (List τ))) → Prop := supRunE (genExec E) Sup

/-- executable form of `SupRun` -/
def supRunB (E : TOps τ) : BicliqueS τ → List (LOp (Dict (List τ))) → Bool := LayerProg.supRunB (genExec E) supB

/-- the executable check implies `SupRun` -/
theorem supRunB_sound (E : TOps τ) (ops : List (LOp (Dict (List τ)))) (s : BicliqueS τ)
    (h : supRunB E s ops = true) : SupRun E s ops :=
  LayerProg.supRunB_sound (genExec E) supB Sup supB_sound ops s h

/-- run of the model machine -/
def mrun : BicliqueCfg τ × LayerSt τ → List (LOp (Dict (List τ))) →
    Option (BicliqueCfg τ × LayerSt τ) × List (Option (LOut (FwdRet τ))) := runO mstep

/-- for EVERY operation list (any input dictionaries) and EVERY initial state with a neuron group the regenerated programs
and the code-shaped model produce the same outputs, fail at the same call, end in the same abstract state, and the final
instance again satisfies the hypothesis of the glue theorems -/
theorem gen_run_eq (E : TOps τ) (ops : List (LOp (Dict (List τ)))) (s : BicliqueS τ) (h : GWF s) :
    (genRun E s ops).1.map abs = (mrun (abs s) ops).1 ∧ (genRun E s ops).2.map toOpt = (mrun (abs s) ops).2 ∧
    ∀ g', (genRun E s ops).1 = some g' → GWF g' := by
  have k := runE_abs (genExec E) mstep id abs GWF (fun _ _ => True) (fun g op hg _ => gen_step_eq E g hg op)
    (fun g op r hg _ hr => gen_step_wf E g hg op r hr) ops s h (supRunE_true _ _ _)
  refine ⟨k.1, ?_, k.2.2⟩
  unfold mrun genRun
  rw [← k.2.1]
  simp

/-! ### the positional specification -/

/-- the static data of a biclique layer, positionally: connection names with their post-input transforms, neuron-group
names with their pre-output transforms, the combine function -/
structure Static (τ : Type) where
  cnames : List String
  nnames : List String
  posts : List (τ → τ)
  pres : List (τ → τ)
  comb : Dict τ → Option τ

/-- what the constructor guarantees: distinct names, one transform per name -/
structure Static.OK (K : Static τ) : Prop where
  hc : K.cnames.Nodup
  hn : K.nnames.Nodup
  hposts : K.posts.length = K.cnames.length
  hpres : K.pres.length = K.nnames.length

/-- the model configuration of the static data -/
def Static.cfg (K : Static τ) : BicliqueCfg τ := ⟨K.cnames.zip K.posts, K.nnames.zip K.pres, K.comb⟩

/-- the canonical biclique layer: the components registered under the names, in order -/
def canon (K : Static τ) (sp : List (Conn τ) × List (Neur τ)) : LayerSt τ :=
  ⟨K.cnames.zip sp.1, K.nnames.zip sp.2⟩

/-- one component per name -/
def SpecOK (K : Static τ) (sp : List (Conn τ) × List (Neur τ)) : Prop :=
  sp.1.length = K.cnames.length ∧ sp.2.length = K.nnames.length

/-- SPECIFICATION machine on the bare lists of components: a call is `bicliqueSpec` on the VALUES of the input dictionary
(connection `j` maps its own input; every neuron group `i` receives `pre_i(combine{j ↦ post_j(y_j)})`; a failing
`combine` fails the call), `clear(submodules)` is each component's own `clear` -/
def specStep (K : Static τ) (sp : List (Conn τ) × List (Neur τ)) :
    LOp (Dict (List τ)) → Option ((List (Conn τ) × List (Neur τ)) × LOut (FwdRet τ))
  | .fwd inputs cap =>
    (bicliqueSpec K.cnames K.posts K.comb K.pres sp.1 sp.2 (dictValues inputs)).map fun r =>
      (r.1, .ret (fwdRet cap (K.nnames.zip r.2.1) (K.cnames.zip r.2.2)))
  | .clear sub => some (if sub then (sp.1.map Obj.clr, sp.2.map Obj.clr) else sp, .unit)

/-- run of the specification machine (`none` at and after a failing `combine`) -/
def specRun (K : Static τ) : List (Conn τ) × List (Neur τ) → List (LOp (Dict (List τ))) →
    Option (List (Conn τ) × List (Neur τ)) × List (Option (LOut (FwdRet τ))) := runO (specStep K)

/-- a dictionary is its keys zipped with its values -/
theorem zip_keys_values {α : Type} (d : Dict α) : (keys d).zip (dictValues d) = d := by
  induction d with
  | nil => rfl
  | cons kv rest ih =>
    simp only [keys, dictValues, List.map_cons, List.zip_cons_cons] at ih ⊢
    rw [ih]

/-- the keys of names zipped with as many values are the names -/
theorem keys_zip {α : Type u} (names : List String) (l : List α) (h : l.length = names.length) :
    keys (names.zip l) = names := by
  simp only [keys]
  exact List.map_fst_zip (by omega)

/-- clearing every value of a zipped dictionary = zipping the cleared components -/
theorem zip_map_clr {ι ο : Type} (names : List String) (ms : List (Obj ι ο)) :
    ((names.zip ms).map fun kv => (kv.1, kv.2.clr)) = names.zip (ms.map Obj.clr) := by
  induction names generalizing ms with
  | nil => simp
  | cons k ks ih =>
    cases ms with
    | nil => simp
    | cons m ms => simp [ih]

/-- a positional call keeps the number of components -/
theorem fwdAll_fst_length {ι ο : Type} (ms : List (Obj ι ο)) (xs : List ι) : (fwdAll ms xs).1.length = ms.length := by
  induction ms generalizing xs with
  | nil => cases xs <;> simp [fwdAll]
  | cons m ms ih =>
    cases xs with
    | nil => simp [fwdAll]
    | cons x xs => simp [fwdAll, ih xs]

/-- the specification step keeps the number of connections and neuron groups -/
theorem bicliqueSpec_length (names : List String) (posts pres : List (τ → τ)) (comb : Dict τ → Option τ)
    (cs : List (Conn τ)) (ns : List (Neur τ)) (xs : List (List τ))
    (r : (List (Conn τ) × List (Neur τ)) × List τ × List τ)
    (h : bicliqueSpec names posts comb pres cs ns xs = some r) :
    r.1.1.length = cs.length ∧ r.1.2.length = ns.length := by
  unfold bicliqueSpec at h
  simp only at h
  cases hz : comb (names.zip (List.zipWith (fun f y => f y) posts (fwdAll cs xs).2)) with
  | none => rw [hz] at h; cases h
  | some z =>
    rw [hz] at h
    cases h
    exact ⟨fwdAll_fst_length _ _, fwdAll_fst_length _ _⟩

/-- every specification step keeps "one component per name" -/
theorem specStep_ok (K : Static τ) (sp : List (Conn τ) × List (Neur τ)) (h : SpecOK K sp) (op : LOp (Dict (List τ)))
    (r : (List (Conn τ) × List (Neur τ)) × LOut (FwdRet τ)) (hr : specStep K sp op = some r) : SpecOK K r.1 := by
  cases op with
  | fwd inputs cap =>
    simp only [specStep] at hr
    cases hb : bicliqueSpec K.cnames K.posts K.comb K.pres sp.1 sp.2 (dictValues inputs) with
    | none => rw [hb] at hr; cases hr
    | some q =>
      rw [hb] at hr
      cases hr
      obtain ⟨l1, l2⟩ := bicliqueSpec_length _ _ _ _ _ _ _ q hb
      exact ⟨l1.trans h.1, l2.trans h.2⟩
  | clear sub =>
    simp only [specStep, Option.some.injEq] at hr
    subst hr
    cases sub
    · exact h
    · exact ⟨by simp [h.1], by simp [h.2]⟩

/-- model → specification, one step with `clear` included: on a canonical biclique layer, for a call that names every
connection in order, the model machine performs the specification step — failing exactly when `combine` fails — and stays
canonical (`biclique_eq` of `Props/C17.lean`) -/
theorem model_step_spec (K : Static τ) (hK : K.OK) (sp : List (Conn τ) × List (Neur τ)) (hsp : SpecOK K sp)
    (op : LOp (Dict (List τ))) (hd : ∀ inputs cap, op = .fwd inputs cap → keys inputs = K.cnames) :
    mstep (K.cfg, canon K sp) op = (specStep K sp op).map fun r => ((K.cfg, canon K r.1), r.2) := by
  cases op with
  | fwd inputs cap =>
    have hk := hd inputs cap rfl
    have hlen : (dictValues inputs).length = K.cnames.length := by
      rw [← hk]; simp [dictValues, keys]
    have hin : inputs = K.cnames.zip (dictValues inputs) := by
      rw [← hk]; exact (zip_keys_values inputs).symm
    have k := biclique_eq K.cnames K.nnames hK.hc hK.hn K.posts K.pres K.comb sp.1 sp.2 (dictValues inputs)
      hK.hposts hsp.1 hlen hK.hpres hsp.2
    simp only [mstep, specStep, Option.map_map]
    rw [hin]
    simp only [Static.cfg, canon]
    rw [k, Option.map_map]
    simp only [← hin]
    rfl
  | clear sub =>
    cases sub
    · rfl
    · simp only [mstep, specStep, Option.map_some, canon, Layer.clear, zip_map_clr]
      rfl

/-- the abstraction relation between an instance and a specification state: the hypothesis of the glue theorems, the
positional configuration, the canonical layer of the components -/
def Rel (K : Static τ) (g : BicliqueS τ) (sp : List (Conn τ) × List (Neur τ)) : Prop :=
  GWF g ∧ g.cfg = K.cfg ∧ g.layer = canon K sp ∧ SpecOK K sp

/-- programs → specification, one step: from related states and inside the domain, the regenerated program fails exactly
when the specification does, returns what it returns and leaves related states -/
theorem gen_step_refines (E : TOps τ) (K : Static τ) (hK : K.OK) (g : BicliqueS τ)
    (sp : List (Conn τ) × List (Neur τ)) (op : LOp (Dict (List τ))) (h : Rel K g sp) (hd : Sup g op) :
    OptRel (fun a b => Rel K a.1 b.1 ∧ id a.2 = b.2) (toOpt (genExec E g op)) (specStep K sp op) := by
  obtain ⟨hw, hc, hl, hok⟩ := h
  have e := gen_step_eq E g hw op
  have ha : abs g = (K.cfg, canon K sp) := by simp only [abs, hc, hl]
  rw [ha, model_step_spec K hK sp hok op (by
    rintro inputs cap rfl
    have : keys inputs = keys g.layer.conns := hd
    rw [this, hl]
    exact keys_zip _ _ hok.1)] at e
  cases hs : specStep K sp op with
  | none =>
    rw [hs] at e
    cases hx : genExec E g op with
    | error err => exact .none
    | ok r => rw [hx] at e; simp at e
  | some q =>
    rw [hs] at e
    cases hx : genExec E g op with
    | error err => rw [hx] at e; simp at e
    | ok r =>
      rw [hx] at e
      simp only [toOpt_ok, Option.map_some, Option.some.injEq, Prod.mk.injEq, abs] at e
      exact .some ⟨⟨gen_step_wf E g hw op r hx, e.1.1, e.1.2, specStep_ok K sp hok op q hs⟩, e.2⟩

/-- CAPSTONE (`Biclique`): for EVERY finite sequence of forward calls naming every connection in order (either
`capture_intermediate`) and `clear`s (either `submodules`), started on a biclique layer holding connections `cs` and neuron
groups `ns` under distinct names, with one post-input transform per connection, one pre-output transform per group and any
`_combine` (built-in or custom; `K.comb` is its abstraction), the programs regenerated from /repo return call by call
what the positional specification returns — every group receives `pre_i(combine{j ↦ post_j(connection_j(x_j))})` —, raise
exactly when `combine` fails, and otherwise end as the canonical layer of the specification's final components -/
theorem gen_run_refines (E : TOps τ) (ops : List (LOp (Dict (List τ)))) (s : BicliqueS τ) (K : Static τ) (hK : K.OK)
    (cs : List (Conn τ)) (ns : List (Neur τ)) (hwf : GWF s) (hcfg : s.cfg = K.cfg)
    (hl : s.layer = ⟨K.cnames.zip cs, K.nnames.zip ns⟩) (hcs : cs.length = K.cnames.length)
    (hns : ns.length = K.nnames.length) (hsup : SupRun E s ops) :
    (genRun E s ops).2.map toOpt = (specRun K (cs, ns) ops).2 ∧
    OptRel (Rel K) (genRun E s ops).1 (specRun K (cs, ns) ops).1 := by
  have h := runE_rel (genExec E) (specStep K) id (Rel K) Sup
    (fun g sp op hr hd => gen_step_refines E K hK g sp op hr hd) ops s (cs, ns) ⟨hwf, hcfg, hl, hcs, hns⟩ hsup
  refine ⟨?_, h.1⟩
  unfold genRun specRun
  rw [← h.2]; simp

/-! ### forward-only runs: composition with the model's own run-level theorems -/

/-- the operation list "call on `xs` for every input dictionary `xs` of `xss`" -/
def fwdOps (cap : Bool) (xss : List (Dict (List τ))) : List (LOp (Dict (List τ))) := xss.map fun xs => .fwd xs cap

/-- the dictionary of neuron outputs of a returned value (`clear` returns none) -/
def outDict : LOut (FwdRet τ) → Option (Dict τ)
  | .ret (.plain o) => some o
  | .ret (.captured o _) => some o
  | .unit => none

/-- on forward-only lists the model machine is the model's `Biclique.run` -/
theorem mrun_fwd (B : BicliqueCfg τ) (L : LayerSt τ) (cap : Bool) (xss : List (Dict (List τ))) :
    (mrun (B, L) (fwdOps cap xss)).2.map (fun o => o.bind outDict) = Biclique.run B L xss := by
  induction xss generalizing L with
  | nil => rfl
  | cons xs rest ih =>
    simp only [mrun, fwdOps, List.map_cons, runO, mstep, Biclique.run]
    cases hf : Biclique.forward B L xs with
    | none => rfl
    | some r =>
      obtain ⟨L', o, y⟩ := r
      have := ih L'
      simp only [mrun, fwdOps] at this
      simp only [Option.map_some, List.map_cons, this]
      cases cap <;> rfl

/-- from ANY instance state with a neuron group, the output dictionaries of the regenerated programs over a sequence of
calls (any input dictionaries) are the model's `Biclique.run` (`none` at and after a failing call) -/
theorem gen_run_forward_eq (E : TOps τ) (s : BicliqueS τ) (h : GWF s) (cap : Bool) (xss : List (Dict (List τ))) :
    (genRun E s (fwdOps cap xss)).2.map (fun r => (toOpt r).bind outDict) = Biclique.run s.cfg s.layer xss := by
  have k := (gen_run_eq E (fwdOps cap xss) s h).2.1
  rw [← mrun_fwd s.cfg s.layer cap xss]
  show _ = List.map _ (mrun (abs s) (fwdOps cap xss)).2
  rw [← k, List.map_map]
  rfl

/-- composed with `replay_after_clear_biclique` — `clear()` restores the initial state, for the REGENERATED programs: from ANY
instance state (any dictionaries of components honouring the `clear` contract), the regenerated `clear()` followed by any
sequence of calls returns what the freshly built twin `Layer.fresh` returns -/
theorem gen_replay_after_clear (E : TOps τ) (s : BicliqueS τ) (h : GWF s) (hc : ∀ kv ∈ s.layer.conns, kv.2.ClearOK)
    (hn : ∀ kv ∈ s.layer.neurs, kv.2.ClearOK) (cap : Bool) (xss : List (Dict (List τ))) :
    (genRun E s (.clear true :: fwdOps cap xss)).2.tail.map (fun r => (toOpt r).bind outDict) =
      Biclique.run s.cfg (Layer.fresh s.layer) xss := by
  have e : genExec E s (.clear true) = .ok ({ s with layer := Layer.clear s.layer }, .unit) := by
    simp only [genExec, gen_layer_clear]; rfl
  simp only [genRun, runE, e, List.tail_cons]
  rw [← replay_after_clear_biclique s.cfg s.layer hc hn xss]
  exact gen_run_forward_eq E { s with layer := Layer.clear s.layer } h cap xss

end BicliqueRun

/-! ## Non-vacuity: concrete instances and mixed operation lists -/
section Examples

/-- the exception class of a result -/
def errOf {α : Type} : Except Err α → Option Err
  | .ok _ => none
  | .error e => some e

/-- serial: calls with and without `capture_intermediate`, a `clear` that does nothing, a `clear` mid-run -/
def exSOps : List (LOp (List Int)) :=
  [.fwd [1] false, .fwd [2] true, .clear false, .fwd [0] false, .clear true, .fwd [1] true]

/-- what the regenerated programs return (`y_t = 3 x_t + x_{t-1}`, the neuron integrates `y_t + 1`; after `clear()` the
first output is that of a fresh layer again) -/
example : (SerialRun.genRun intOps exSerialS exSOps).2.map (fun r => (toOpt r).bind SerialRun.outNeuron) =
    [some 4, some 12, none, some 15, none, some 4] := by decide

/-- the capstone instantiated -/
example : (SerialRun.genRun intOps exSerialS exSOps).2.map toOpt =
    (SerialRun.specRun exSerialS.trans (exConn 3, exNeur) exSOps).2.map some :=
  (SerialRun.gen_run_refines intOps exSOps exSerialS (exConn 3) exNeur rfl).1

/-- a run on a NON-canonical instance (connection registered under another name) raises `KeyError` at the first call and
stops: the hypothesis `hs` of the capstone is a real restriction -/
example : (SerialRun.genRun intOps { exSerialS with cn := "nope" } exSOps).2.map errOf = [some Err.KeyError] := by
  decide

/-- recurrent: two steps, `clear(clear_feedback=False)` (components cleared, feedback spikes kept), a step, a full
`clear()`, three steps -/
def exROps : List (ROp Int) :=
  [.fwd [1] none none false, .fwd [1] none none true, .clear false true, .fwd [1] none none false,
   .clear true true, .fwd [1] none none false, .fwd [1] none none false, .fwd [1] none none false]

/-- what the regenerated programs return: after the full `clear()` the three steps repeat the outputs of a fresh layer
(`runRec` of the glue file), after the partial one they do not -/
example : (RecRun.genRun intOps exRecSt exROps).2.map (fun r => ((toOpt r).map RecRun.outAbs).bind RecRun.outPair) =
    [some (1, 2), some (1, 5), none, some (-4, -8), none, some (1, 2), some (1, 5), some (-4, -2)] := by decide

/-- the capstone instantiated -/
example : (RecRun.genRun intOps exRecSt exROps).2.map (fun r => (toOpt r).map RecRun.outAbs) =
    (RecRun.specRun (exRecSt.cfg intOps) exRecS exROps).2.map some :=
  (RecRun.gen_run_refines intOps exROps exRecSt exRecS rfl (by decide) (by decide) (by decide) (by decide)
    (fun _ _ => rfl) (fun _ _ => rfl)).1

/-- a biclique instance on integer tensors: two connections (`a` doubled), two neuron groups (`y` incremented), a custom
`combine` that sums -/
def exBicS (c : Combine Int) : BicliqueS Int :=
  { layer := ⟨[("a", exConn 1), ("b", exConn 2)], [("x", exNeur), ("y", exNeur)]⟩,
    post_input := [("a", fun t => t * 2), ("b", id)], pre_output := [("x", id), ("y", fun t => t + 1)], _combine := c }

/-- summing `combine` -/
def exSum : Combine Int := .fn fun d => .ok (d.foldl (fun a kv => a + kv.2) 0)

/-- a `combine` that raises when the sum exceeds 20 -/
def exSumCap : Combine Int :=
  .fn fun d => if d.foldl (fun a kv => a + kv.2) 0 > 20 then .error .ValueError else .ok (d.foldl (fun a kv => a + kv.2) 0)

/-- the positional static data of `exBicS` -/
def exK (c : Combine Int) : BicliqueRun.Static Int :=
  ⟨["a", "b"], ["x", "y"], [fun t => t * 2, id], [id, fun t => t + 1], c.comb⟩

/-- biclique: full calls with and without `capture_intermediate`, `clear`s with both flags -/
def exBOps : List (LOp (Dict (List Int))) :=
  [.fwd [("a", [1]), ("b", [2])] false, .fwd [("a", [0]), ("b", [1])] true, .clear false, .clear true,
   .fwd [("a", [1]), ("b", [2])] false]

example : BicliqueRun.SupRun intOps (exBicS exSum) exBOps := BicliqueRun.supRunB_sound _ _ _ (by decide)

/-- what the regenerated programs return: combination `2·(1·1) + 2·2 = 6`, group `x` integrates `6`, group `y` `7`; the run
after `clear()` repeats the first output -/
example : (BicliqueRun.genRun intOps (exBicS exSum) exBOps).2.map (fun r => (toOpt r).bind BicliqueRun.outDict) =
    [some [("x", 6), ("y", 7)], some [("x", 12), ("y", 14)], none, none, some [("x", 6), ("y", 7)]] := by decide

/-- the capstone instantiated -/
example : (BicliqueRun.genRun intOps (exBicS exSum) exBOps).2.map toOpt =
    (BicliqueRun.specRun (exK exSum) ([exConn 1, exConn 2], [exNeur, exNeur]) exBOps).2 :=
  (BicliqueRun.gen_run_refines intOps exBOps (exBicS exSum) (exK exSum) ⟨by decide, by decide, rfl, rfl⟩
    [exConn 1, exConn 2] [exNeur, exNeur] (List.cons_ne_nil _ _) rfl rfl rfl rfl
    (BicliqueRun.supRunB_sound _ _ _ (by decide))).1

/-- a failing `combine` fails the call, in the programs (with its exception class) and in the specification; the run stops -/
example : (BicliqueRun.genRun intOps (exBicS exSumCap)
      [.fwd [("a", [1]), ("b", [2])] false, .fwd [("a", [9]), ("b", [9])] false, .clear true]).2.map errOf =
    [none, some Err.ValueError] := by decide

/-- the domain is a real restriction: a call that leaves a connection out is outside it (and covered by `gen_run_eq`) -/
example : ¬ BicliqueRun.Sup (exBicS exSum) (.fwd [("a", [1])] false) := by
  simp [BicliqueRun.Sup, keys, exBicS]

end Examples

end InfernoVerif.Gen.LayerProg
