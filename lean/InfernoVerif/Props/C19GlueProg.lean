import InfernoVerif.Gen.EncoderProg
import InfernoVerif.Lemmas.Encoder
/-!
# Glue: the encoder model's pipelines ARE the function bodies of `encoding.py` in /repo's source

`Gen/EncoderProg.lean` is regenerated on every run by `harness/progtx_encoder.py` from the *whole bodies* of the
seven functions of `inferno/neural/functional/encoding.py`: which tensor operation follows which (`* res +
refrac`, `cumsum(dim=0)`, `clamp_max_(steps)`, `.long()`, the zero tensor and its number of rows,
`scatter_(0, idx, 1)`, the final slice), the scalar statements (`refrac` conversion, `nbins`, the `if compensate:`
rebinding), the masking of the Poisson-interval encoders, and the GENERATORS of the online encoders as state
machines (`_init`: the statements before the loop; `_step`: one execution of the loop body on the generator's
local state, returning the yielded slice; the generator itself: `iterate _step` over `range(steps)`).
Sampling calls are parameters (`Gen/EncoderPrelude.lean`).  The formula-level steps are tied separately
(`Props/C19Glue.lean`, expression sites); this file ties the PIPELINE.

Main theorems (each concludes equality with the function of `Model/Encoder.lean` the theorems of `Props/C19.lean`
are about):

* `gen_exp_interval_offline` — `homogeneous_poisson_exp_interval … = expOfflineT …`;
* `gen_exp_interval_online_init`, `gen_exp_interval_online_step`, `gen_exp_interval_online` — the statements before
  the loop build `expOnlineInit`, ONE loop body is ONE `stepT expAdv expFires (expRedraw c)`, the generator run
  to exhaustion is `expOnline`;
* `gen_poisson_interval_offline` — `poisson_interval … = poissonOfflineT …`;
* `gen_poisson_interval_online_init`, `gen_poisson_interval_online_step`, `gen_poisson_interval_online` — `stepT poiAdv poiFires poiRedraw`, `poissonOnline`;
* `gen_bernoulli_offline`, `gen_bernoulli_online_init` / `_step` / `gen_bernoulli_online`,
  `gen_bernoulli_inhomogeneous` — `bernoulliT`, `bernoulliInhomT`;
* `gen_zero_step_time` — with `step_time = 0` the four interval encoders raise `ZeroDivisionError`.

## Abstraction, hypotheses, and where the model abstracts the code

* Layout.  A tensor with a leading time axis that goes through `cumsum` / `scatter_` is represented by its columns
  (one per element of `inputs`), exactly the element-major input of `expOfflineT` / `poissonOfflineT`; the result
  is read time-first through the model's own `timeFirst`.  The Bernoulli tensors are represented by their rows,
  the layout of `bernoulliT`.  (So the sampled tensors are supplied in these layouts.)
* Shape of the samples.  The model takes sample columns / rows of ANY length (`expOffline c x ss` never looks at
  `nbins`; `poissonOffline` scatters into `steps + 2` rows whatever the column length; `bernoulliT` zips,
  truncating); the code REQUESTS a shape (`nbins` rows, `steps + 2` rows, the shape of the selection, …).  The
  theorems assume the supplied tensor has the requested shape (hypotheses `hn`, `hcol`, `hs`, `hU`, `hrow`, `hsh`);
  the programs fail with `Err.SampleShape` otherwise.  In particular `gen_exp_interval_offline` proves that the
  `nbins` statement `int(steps // max(refrac, 1))` IS `ExpCfg.nbins` (`nbins_eq`), and `gen_poisson_interval_offline`
  that `zeros_like(res)` has the `steps + 2` rows the model scatters into.
* `step_time ≠ 0`.  Python raises `ZeroDivisionError` on `refrac / step_time` and `1000.0 / step_time`; the model's
  `ExpCfg.R` / `ExpCfg.scale` use Lean's total division (`x / 0 = 0`).  The glue theorems assume `dt ≠ 0` (the
  theorems of `Props/C19.lean` assume `0 < c.dt`), `gen_zero_step_time` states what the code does otherwise.
* Failure.  Offline, the model's `none` is exactly `RuntimeError` (an index `scatter_` rejects).  Online, the
  model's `none` ("the number of fresh samples differs from the number of firing elements") is `Err.SampleShape` of
  the program — an ill-formed supply, which the real code cannot produce since it draws the fresh samples with
  the shape of the selection; the online theorems therefore compare through `Except.toOption`.
* Online state.  The generator's locals `inputs` (the scales / the Poisson means), `refrac`, `mask`, `intervals` are
  abstracted element by element to `ExpElem` / `PoiElem` (`expElems`, `poiElems`); the Poisson means are not part
  of `PoiElem` (they only go to the sampler).  Invariants assumed by the step theorems and maintained by the loop
  body (`exp_online_step_frame`, `poi_online_step_frame`): the state's tensors have one shape, `refrac` is the
  model's `R`.
* `steps` is a natural number (`int(steps)` is the identity on it); `int64` and `float64` are unbounded `Int` /
  exact `Rat` extended by `±∞` / NaN, as in the model.  `.long()` of NaN / `±∞` is `INT64_MIN` (x86-64), which
  `scatter_` rejects — the model's `toIndex` returns `none` for NaN / `−∞` and `steps` for `+∞` (clamped first).
-/
set_option linter.unusedSimpArgs false
set_option linter.unusedVariables false
namespace InfernoVerif.Enc.GlueProg
open InfernoVerif.Enc InfernoVerif.Gen.EncoderPrelude InfernoVerif.Gen.EncoderProg

variable {α β γ : Type}

/-! ## Generic facts about the vocabulary -/

/-- `none` of the model = the exception `e` of the program -/
def ofOption (e : Err) : Option α → Except Err α
  | some a => .ok a
  | none => .error e

/-- an element-wise binary primitive on operands of equal size does not fail and is `List.zipWith` -/
theorem zipE_ok (f : α → β → γ) (as : List α) (bs : List β) (h : as.length = bs.length) :
    zipE f as bs = .ok (List.zipWith f as bs) := by
  induction as generalizing bs with
  | nil => cases bs with
    | nil => rfl
    | cons b bs => simp at h
  | cons a as ih => cases bs with
    | nil => simp at h
    | cons b bs =>
      simp only [List.length_cons, Nat.add_right_cancel_iff] at h
      simp [zipE, ih bs h, Except.map]

/-- `collect` of per-column programs = `allSome` of the per-column model functions -/
theorem collect_map_ofOption (e : Err) (l : List α) (g : α → Except Err β) (f : α → Option β)
    (h : ∀ x ∈ l, g x = ofOption e (f x)) : collect (l.map g) = ofOption e (allSome (l.map f)) := by
  induction l with
  | nil => rfl
  | cons x l ih =>
    have hx := h x (by simp)
    have ih' := ih (fun y hy => h y (by simp [hy]))
    simp only [List.map_cons, hx]
    cases hf : f x with
    | none => simp [ofOption, collect, allSome]
    | some b =>
      simp only [ofOption, collect, allSome, ih']
      cases allSome (l.map f) <;> simp [ofOption, Except.map]

/-- a post-processing of every column commutes with `allSome` -/
theorem allSome_map_map (l : List α) (f : α → Option β) (k : β → γ) :
    allSome (l.map fun p => (f p).map k) = (allSome (l.map f)).map (List.map k) := by
  induction l with
  | nil => rfl
  | cons x l ih =>
    simp only [List.map_cons]
    cases hf : f x with
    | none => simp [allSome]
    | some b =>
      simp only [Option.map_some, allSome, ih]
      cases allSome (l.map f) <;> simp

/-! ## `clamp_max_` / `.long()` / `scatter_` of one column = the model's `toIndex` / `scatter` -/

/-- validity of a scatter index into `n` rows -/
def validIdx (n : Nat) (i : Int) : Bool := decide (0 ≤ i) && decide (i < (n : Int))

/-- `.long()` of a natural number -/
theorem truncQ_natCast (n : Nat) : truncQ (n : Rat) = n := by
  have h : (0 : Rat) ≤ (n : Rat) := by exact_mod_cast Nat.zero_le n
  rw [truncQ_nonneg h]
  have : ((n : Nat) : Rat) = ((n : Int) : Rat) := by simp
  rw [this, Rat.floor_intCast]

/-- truncation toward zero of a value `≤ n` is `< n + 1` -/
theorem truncQ_le_of_le (q : Rat) (n : Nat) (h : q ≤ n) : truncQ q < (n : Int) + 1 := by
  unfold truncQ
  split
  · rw [Rat.floor_lt_iff]
    have : (((n : Int) + 1 : Int) : Rat) = (n : Rat) + 1 := by push_cast; rfl
    rw [this]; linarith
  · rename_i hq
    have : (0 : Int) ≤ (-q).floor := by
      rw [Rat.le_floor_iff]; simp; linarith
    omega

/-- the model's index test (`i < 0`) is the primitive's bounds test, for an index that cannot exceed `n` -/
theorem idx_aux (n : Nat) (i : Int) (h : i < (n : Int) + 1) :
    (if i < 0 then none else some i.toNat) = if validIdx (n + 1) i then some i.toNat else none := by
  unfold validIdx
  by_cases h0 : i < 0
  · have h1 : ¬ (0 ≤ i) := by omega
    simp [h0, h1]
  · have h1 : 0 ≤ i := by omega
    have h2 : i < ((n + 1 : Nat) : Int) := by omega
    simp [h0, h1, h]

/-- the model's `toIndex` is `clamp_max_(steps)`, `.long()`, and the bounds check of `scatter_` into `steps + 1` rows -/
theorem toIndex_eq (steps : Nat) (t : Ext) :
    toIndex steps t = (if validIdx (steps + 1) (longE (clampMaxE steps t)) then
      some (longE (clampMaxE steps t)).toNat else none) := by
  cases t with
  | fin q =>
    simp only [toIndex, clampMaxE, longE]
    have hm : (if q ≤ (steps : Rat) then q else (steps : Rat)) ≤ (steps : Rat) := by
      split <;> simp_all
    have := truncQ_le_of_le _ steps hm
    exact idx_aux _ _ this
  | pinf =>
    simp [toIndex, clampMaxE, longE, validIdx, truncQ_natCast]
  | ninf => simp [toIndex, clampMaxE, longE, validIdx, indefinite]
  | nan => simp [toIndex, clampMaxE, longE, validIdx, indefinite]

/-- a whole index column: all indices valid, or the model gives `none` -/
theorem allSome_toIndex (steps : Nat) (ts : List Ext) :
    allSome (ts.map (toIndex steps)) =
      (if (ts.map fun t => longE (clampMaxE steps t)).all (validIdx (steps + 1)) then
        some ((ts.map fun t => longE (clampMaxE steps t)).map Int.toNat) else none) := by
  induction ts with
  | nil => simp [allSome]
  | cons t ts ih =>
    simp only [List.map_cons, List.all_cons, toIndex_eq steps t]
    cases hv : validIdx (steps + 1) (longE (clampMaxE steps t)) with
    | false => simp [allSome]
    | true =>
      simp only [if_true, allSome, ih, Bool.true_and]
      split <;> simp

/-- membership of a row number in an `int64` index column and in its `Nat` copy agree -/
theorem mem_toNat_iff (n : Nat) (idx : List Int) (h : idx.all (validIdx n) = true) (t : Nat) :
    ((t : Int) ∈ idx) ↔ t ∈ idx.map Int.toNat := by
  simp only [List.all_eq_true, validIdx, Bool.and_eq_true, decide_eq_true_eq] at h
  constructor
  · intro ht
    exact List.mem_map.mpr ⟨(t : Int), ht, by simp⟩
  · intro ht
    obtain ⟨i, hi, rfl⟩ := List.mem_map.mp ht
    have := (h i hi).1
    have e : ((i.toNat : Nat) : Int) = i := by omega
    rw [e]; exact hi

/-- `scatter_` of ones into a zero column = the model's `scatter`, or `RuntimeError` for an index out of bounds -/
theorem scatterCol_zeros (n : Nat) (idx : List Int) :
    scatterCol (List.replicate n false) idx =
      (if idx.all (validIdx n) then .ok (scatter n (idx.map Int.toNat)) else .error .RuntimeError) := by
  unfold scatterCol
  simp only [List.length_replicate]
  by_cases h : idx.all (validIdx n) = true
  · have h' : (idx.all fun i => decide (0 ≤ i) && decide (i < (n : Int))) = true := h
    simp only [h', h, if_true]
    congr 1
    apply List.ext_getElem
    · simp [scatter]
    · intro t h1 h2
      simp only [List.getElem_mapIdx, List.getElem_replicate, Bool.or_false, scatter, List.getElem_map,
        List.getElem_range]
      exact decide_eq_decide.mpr (mem_toNat_iff n idx h t)
  · have h' : ¬ (idx.all fun i => decide (0 ≤ i) && decide (i < (n : Int))) = true := h
    simp [h', h]

/-- one column: clamp, cast, scatter into `steps + 1` zero rows = the model's `toIndex` / `scatter` -/
theorem scatterCol_times (steps : Nat) (ts : List Ext) :
    scatterCol (List.replicate (steps + 1) false) (ts.map fun t => longE (clampMaxE steps t)) =
      ofOption .RuntimeError ((allSome (ts.map (toIndex steps))).map (scatter (steps + 1))) := by
  rw [scatterCol_zeros, allSome_toIndex]
  split <;> simp [ofOption]

/-! ## The scalar statements of the exponential-interval encoders -/

/-- Python's `max(refrac, 1)` is the model's `if R ≤ 1 then 1 else R` -/
theorem pyMax_one (R : Rat) : pyMax R 1 = (if R ≤ 1 then 1 else R) := by
  unfold pyMax
  by_cases h : R < 1
  · have : R ≤ 1 := by linarith
    simp [h, this]
  · by_cases h1 : R ≤ 1
    · have : R = 1 := by linarith
      simp [this]
    · simp [h, h1]

/-- `int(x)` of an integral float -/
theorem truncQ_intCast (n : Int) : truncQ ((n : Int) : Rat) = n := by
  unfold truncQ
  split
  · exact Rat.floor_intCast n
  · have : -((n : Int) : Rat) = ((-n : Int) : Rat) := by simp
    rw [this, Rat.floor_intCast]; omega

/-- `int(steps // max(refrac, 1))` does not divide by zero and is the model's `nbins` -/
theorem nbins_eq (c : ExpCfg) :
    pyMax c.R 1 ≠ 0 ∧ pyInt ((((c.steps : Rat) / pyMax c.R 1).floor : Int) : Rat) = (c.nbins : Int) := by
  rw [pyMax_one]
  have hpos : (0 : Rat) < (if c.R ≤ 1 then 1 else c.R) := by
    split
    · norm_num
    · linarith
  refine ⟨ne_of_gt hpos, ?_⟩
  unfold pyInt ExpCfg.nbins
  rw [truncQ_intCast]
  have h0 : (0 : Rat) ≤ (c.steps : Rat) / (if c.R ≤ 1 then 1 else c.R) :=
    div_nonneg (by exact_mod_cast Nat.zero_le _) (le_of_lt hpos)
  have := floor_nonneg h0
  omega

/-- the rate → scale statements (with the `if compensate:` rebinding) map the model's `scale` over the rates -/
theorem scale_map (c : ExpCfg) (inputs : List Rat) :
    (if c.compensate = true then subS1 (mulS1 (recipT inputs) (1000 / c.dt)) c.R
      else mulS1 (recipT inputs) (1000 / c.dt)) = inputs.map c.scale := by
  cases hc : c.compensate <;> simp [subS1, mulS1, recipT, ExpCfg.scale, hc]

/-- `refrac = step_time if refrac is None else refrac; refrac = refrac / step_time` is the model's `R` -/
theorem R_def (steps : Nat) (dt : Rat) (refrac : Option Rat) (comp : Bool) :
    ifNone refrac dt (fun r => r) / dt = (ExpCfg.mk steps dt refrac comp).R := by
  cases refrac <;> rfl

/-- a sample tensor of the requested shape `(nbins, *inputs.shape)` is handed on -/
theorem exponentialS_ok (sample : List (List Rat)) (n numel : Nat) (hn : sample.length = numel)
    (hcol : ∀ col ∈ sample, col.length = n) : exponentialS_ sample (n : Int) numel = .ok sample := by
  unfold exponentialS_
  have h1 : ¬ ((n : Int) < 0) := by omega
  have h2 : sample.all (fun col => decide ((col.length : Int) = (n : Int))) = true := by
    simp only [List.all_eq_true, decide_eq_true_eq]
    intro col hc; rw [hcol col hc]
  simp only [h1, h2, hn, if_false, and_self, if_true]

/-! ## `homogeneous_poisson_exp_interval` (offline) -/

/-- the index column of one element: intervals → cumsum → clamp → cast -/
def expIdx (c : ExpCfg) (x : Rat) (ss : List Rat) : List Int :=
  (cumsum (ss.map (c.interval (c.scale x)))).map fun t => longE (clampMaxE c.steps t)

/-- the tensor-level statements after sampling act column by column: each index column is `expIdx` of its rate and its samples -/
theorem cols_fuse (c : ExpCfg) (z0 : List Bool) : ∀ (inputs : List Rat) (sample : List (List Rat)),
    sample.length = inputs.length →
    List.zipWith scatterCol (List.replicate inputs.length z0)
      (long2 (clampMax2 (cumsum0 (addS2 (List.zipWith (fun col e => List.map (fun smp => e.mulFin smp) col) sample
        (inputs.map c.scale)) c.R)) c.steps))
    = (inputs.zip sample).map fun p => scatterCol z0 (expIdx c p.1 p.2) := by
  intro inputs
  induction inputs with
  | nil => intro sample h; cases sample <;> simp_all [long2, clampMax2, cumsum0, addS2]
  | cons x xs ih =>
    intro sample h
    cases sample with
    | nil => simp at h
    | cons col rest =>
      simp only [List.length_cons, Nat.add_right_cancel_iff] at h
      have := ih rest h
      simp only [long2, clampMax2, cumsum0, addS2, List.map_map] at this
      simp only [long2, clampMax2, cumsum0, addS2, addS1, List.map_cons, List.zipWith_cons_cons, List.length_cons,
        List.replicate_succ, List.zip_cons_cons, List.map_map, expIdx, ExpCfg.interval, Function.comp_def] at this ⊢
      rw [this]; rfl

/-- the `scatter_` statement of the exponential-interval encoder = the model's per-element `toIndex` / `scatter`: all columns, or `RuntimeError` -/
theorem scatter0_exp (c : ExpCfg) (inputs : List Rat) (sample : List (List Rat)) (hn : sample.length = inputs.length) :
    scatter0 (zerosBool (c.steps + 1) inputs.length)
      (long2 (clampMax2 (cumsum0 (addS2 (List.zipWith (fun col e => List.map (fun smp => e.mulFin smp) col) sample
        (inputs.map c.scale)) c.R)) c.steps))
    = ofOption .RuntimeError (allSome ((inputs.zip sample).map fun p =>
        (allSome ((cumsum (p.2.map (c.interval (c.scale p.1)))).map (toIndex c.steps))).map (scatter (c.steps + 1)))) := by
  unfold scatter0
  have hlen : (zerosBool (c.steps + 1) inputs.length).length =
      (long2 (clampMax2 (cumsum0 (addS2 (List.zipWith (fun col e => List.map (fun smp => e.mulFin smp) col) sample
        (inputs.map c.scale)) c.R)) c.steps)).length := by
    simp [zerosBool, long2, clampMax2, cumsum0, addS2, hn]
  rw [if_pos hlen]
  unfold zerosBool
  rw [cols_fuse c _ inputs sample hn]
  apply collect_map_ofOption
  intro p _
  exact scatterCol_times c.steps _

/-- `l[:-1]` drops the last row -/
theorem pySlice_dropLast (l : List α) : pySlice l none (some (-1)) = l.dropLast := by
  unfold pySlice pyBound
  simp only [show ((-1 : Int) < 0) from by omega, if_true, List.drop_zero]
  rw [List.dropLast_eq_take]
  congr 1
  omega

/-- `homogeneous_poisson_exp_interval` (the regenerated whole body) = the model's `expOfflineT`: for a non-zero `step_time`
and a sample tensor of the shape the code requests (`nbins` rows per element), the program read time-first is the
model's result on the element-major columns `(rate, samples)`; it raises `RuntimeError` exactly when the model gives
`none` (an invalid scatter index: NaN, `−∞` or `≤ −1`) -/
theorem gen_exp_interval_offline (inputs : List Rat) (steps : Nat) (dt : Rat) (refrac : Option Rat) (comp : Bool)
    (sample : List (List Rat)) (hdt : dt ≠ 0) (hn : sample.length = inputs.length)
    (hcol : ∀ col ∈ sample, col.length = (ExpCfg.mk steps dt refrac comp).nbins) :
    (homogeneous_poisson_exp_interval inputs steps dt refrac comp sample).map (timeFirst steps)
      = ofOption .RuntimeError (expOfflineT ⟨steps, dt, refrac, comp⟩ (inputs.zip sample)) := by
  obtain ⟨hmax, hnb⟩ := nbins_eq ⟨steps, dt, refrac, comp⟩
  have hR := R_def steps dt refrac comp
  have hsc := scale_map ⟨steps, dt, refrac, comp⟩ inputs
  have hmul := zipE_ok (fun (col : List Rat) (e : Ext) => col.map fun smp => e.mulFin smp) sample
      (inputs.map (ExpCfg.scale ⟨steps, dt, refrac, comp⟩)) (by simp [hn])
  simp only at hmax hnb hsc
  unfold homogeneous_poisson_exp_interval
  simp only [bind, Except.bind, pure, Except.pure, pyDiv, hdt, if_false, pyFloorDiv, hR, hmax, hnb, hsc,
      exponentialS_ok sample _ _ hn hcol, mulB, hmul]
  rw [scatter0_exp ⟨steps, dt, refrac, comp⟩ inputs sample hn]
  simp only [expOfflineT, expOffline, allSome_map_map]
  generalize allSome (List.map _ (inputs.zip sample)) = o
  cases o with
  | none => simp [ofOption, Except.map]
  | some cols => simp [ofOption, Except.map, sliceRows, pySlice_dropLast, Function.comp_def]

/-! ## The online step, generically: boolean-mask selection and assignment = the model's `stepT` -/

/-- `x[m]` as a total function (elements of `x` at the `true` positions of `m`) -/
def selF : List α → List Bool → List α
  | x :: xs, b :: bs => if b then x :: selF xs bs else selF xs bs
  | _, _ => []

/-- `x[m]` for a mask of the right shape does not fail -/
theorem maskSelect_ok (x : List α) (m : List Bool) (h : x.length = m.length) :
    maskSelect x m = .ok (selF x m) := by
  induction x generalizing m with
  | nil => cases m with
    | nil => rfl
    | cons b bs => simp at h
  | cons a as ih => cases m with
    | nil => simp at h
    | cons b bs =>
      simp only [List.length_cons, Nat.add_right_cancel_iff] at h
      simp [maskSelect, ih bs h, Except.map, selF]

/-- two tensors indexed by the same mask give selections of the same size -/
theorem selF_length (x : List α) (y : List β) (m : List Bool) (hx : x.length = m.length) (hy : y.length = m.length) :
    (selF x m).length = (selF y m).length := by
  induction m generalizing x y with
  | nil => cases x <;> cases y <;> simp_all [selF]
  | cons b bs ih =>
    cases x with
    | nil => simp at hx
    | cons a as => cases y with
      | nil => simp at hy
      | cons c cs =>
        simp only [List.length_cons, Nat.add_right_cancel_iff] at hx hy
        cases b <;> simp [selF, ih as cs hx hy]

section generic
variable {κ ι φ σ : Type}

/-- the online step of the regenerated programs, on the lists the state is made of, equals the model's `stepT`
on the zipped elements -/
theorem step_core (mk : κ → ι → σ) (adv : ι → ι) (fires : κ → ι → Bool) (new : κ → φ → ι)
    (advM : σ → σ) (firesM : σ → Bool) (redrawM : σ → φ → σ) (e : Err)
    (hadv : ∀ k i, advM (mk k i) = mk k (adv i)) (hfires : ∀ k i, firesM (mk k i) = fires k i)
    (hredraw : ∀ k i f, redrawM (mk k i) f = mk k (new k f)) :
    ∀ (ks : List κ) (iv : List ι) (fresh : List φ), ks.length = iv.length →
      ((if fresh.length = (selF ks (List.zipWith fires ks (iv.map adv))).length then
          maskAssign (iv.map adv) (List.zipWith fires ks (iv.map adv))
            (List.zipWith (fun f k => new k f) fresh (selF ks (List.zipWith fires ks (iv.map adv))))
        else .error e).toOption.map fun iv2 => (List.zipWith mk ks iv2, List.zipWith fires ks (iv.map adv)))
      = stepT advM firesM redrawM (List.zipWith mk ks iv) fresh := by
  intro ks
  induction ks with
  | nil =>
    intro iv fresh h
    cases iv with
    | cons _ _ => simp at h
    | nil =>
      cases fresh with
      | nil => simp [selF, maskAssign, stepT, Except.toOption]
      | cons f fr => simp [selF, stepT, Except.toOption]
  | cons k ks ih =>
    intro iv fresh h
    cases iv with
    | nil => simp at h
    | cons i iv =>
      simp only [List.length_cons, Nat.add_right_cancel_iff] at h
      simp only [List.map_cons, List.zipWith_cons_cons, stepT, hadv, hfires]
      cases hf : fires k (adv i) with
      | true =>
        cases fresh with
        | nil => simp [selF, Except.toOption]
        | cons f fr =>
          have := ih iv fr h
          simp only [selF, if_true, List.length_cons, Nat.add_right_cancel_iff, List.zipWith_cons_cons, maskAssign,
            ← this, hredraw]
          split
          · cases maskAssign (iv.map adv) (List.zipWith fires ks (iv.map adv))
              (List.zipWith (fun f k => new k f) fr (selF ks (List.zipWith fires ks (iv.map adv)))) <;>
              simp [Except.toOption, Except.map]
          · simp [Except.toOption]
      | false =>
        have := ih iv fresh h
        simp only [selF, if_false, Bool.false_eq_true, maskAssign, ← this]
        split
        · cases maskAssign (iv.map adv) (List.zipWith fires ks (iv.map adv))
            (List.zipWith (fun f k => new k f) fresh (selF ks (List.zipWith fires ks (iv.map adv)))) <;>
            simp [Except.toOption, Except.map]
        · simp [Except.toOption]

end generic

/-! ## `homogeneous_poisson_exp_interval_online` (generator) -/

/-- `zipWith` ignoring its first list -/
theorem zipWith_snd {κ ι : Type} (f : ι → β) (ks : List κ) (l : List ι) (h : ks.length = l.length) :
    List.zipWith (fun _ i => f i) ks l = l.map f := by
  induction ks generalizing l with
  | nil => cases l <;> simp_all
  | cons k ks ih => cases l with
    | nil => simp at h
    | cons i l => simp only [List.length_cons, Nat.add_right_cancel_iff] at h; simp [ih l h]

/-- a masked assignment keeps the shape -/
theorem maskAssign_length (x : List α) (m : List Bool) (v r : List α) (h : maskAssign x m v = .ok r) :
    r.length = x.length := by
  induction x generalizing m v r with
  | nil => cases m <;> cases v <;> simp_all [maskAssign]
  | cons a as ih =>
    cases m with
    | nil => simp [maskAssign] at h
    | cons b bs =>
      cases b with
      | false =>
        simp only [maskAssign] at h
        cases h' : maskAssign as bs v with
        | error e => simp [h', Except.map] at h
        | ok r' => simp [h', Except.map] at h; subst h; simp [ih bs v r' h']
      | true =>
        cases v with
        | nil => simp [maskAssign] at h
        | cons w ws =>
          simp only [maskAssign] at h
          cases h' : maskAssign as bs ws with
          | error e => simp [h', Except.map] at h
          | ok r' => simp [h', Except.map] at h; subst h; simp [ih bs ws r' h']

/-- local state of the generator `homogeneous_poisson_exp_interval_online` -/
abbrev ExpSt := homogeneous_poisson_exp_interval_online_State

/-- abstraction: the generator's local state → the model's element list -/
def expElems (st : ExpSt) : List ExpElem := List.zipWith ExpElem.mk st.inputs st.intervals

/-- closed form of the regenerated loop body -/
theorem exp_step_eq (st : ExpSt) (fresh : List Rat) (hlen : st.inputs.length = st.intervals.length) :
    homogeneous_poisson_exp_interval_online_step st fresh =
      (if fresh.length = (selF st.inputs ((st.intervals.map (·.addFin (-1))).map (·.ltFin 1))).length then
        maskAssign (st.intervals.map (·.addFin (-1))) ((st.intervals.map (·.addFin (-1))).map (·.ltFin 1))
          (List.zipWith (fun f k => (k.mulFin f).addFin st.refrac) fresh
            (selF st.inputs ((st.intervals.map (·.addFin (-1))).map (·.ltFin 1))))
       else .error .SampleShape).map
        fun iv2 => ({ inputs := st.inputs, refrac := st.refrac, intervals := iv2 },
          (st.intervals.map (·.addFin (-1))).map (·.ltFin 1)) := by
  unfold homogeneous_poisson_exp_interval_online_step
  have h1 : (subS1 st.intervals 1).length = (ltS1 (subS1 st.intervals 1) 1).length := by simp [subS1, ltS1]
  have h2 : st.inputs.length = (ltS1 (subS1 st.intervals 1) 1).length := by simp [subS1, ltS1, hlen]
  have h3 := selF_length (subS1 st.intervals 1) st.inputs _ h1 h2
  simp only [bind, Except.bind, pure, Except.pure, maskSelect_ok _ _ h1, maskSelect_ok _ _ h2, exponential_, h3]
  have e1 : st.intervals.map (·.addFin (-1)) = subS1 st.intervals 1 := rfl
  have e2 : (subS1 st.intervals 1).map (·.ltFin 1) = ltS1 (subS1 st.intervals 1) 1 := rfl
  rw [e1, e2]
  generalize ltS1 (subS1 st.intervals 1) 1 = sp
  generalize selF st.inputs sp = sel
  by_cases hf : fresh.length = sel.length
  · simp only [hf, if_true, mulT, zipE_ok _ _ _ hf, addS1, List.map_zipWith]
    cases maskAssign _ _ _ <;> simp [Except.map]
  · simp [hf, Except.map]

/-- `Except.map`, then `toOption`, then `Option.map` -/
theorem toOption_map_map {ε : Type} (x : Except ε α) (f : α → β) (g : β → γ) :
    (x.map f).toOption.map g = x.toOption.map (g ∘ f) := by
  cases x <;> simp [Except.map, Except.toOption]

/-- ONE execution of the loop body of the generator = one `stepT` of the model -/
theorem gen_exp_interval_online_step (c : ExpCfg) (st : ExpSt) (fresh : List Rat)
    (hR : st.refrac = c.R) (hlen : st.inputs.length = st.intervals.length) :
    (homogeneous_poisson_exp_interval_online_step st fresh).toOption.map (fun r => (expElems r.1, r.2))
      = stepT expAdv expFires (expRedraw c) (expElems st) fresh := by
  rw [exp_step_eq st fresh hlen, toOption_map_map]
  have hlen' : st.inputs.length = (st.intervals.map (·.addFin (-1))).length := by simp [hlen]
  have := step_core ExpElem.mk (·.addFin (-1)) (fun _ i => i.ltFin 1) (fun k f => (k.mulFin f).addFin st.refrac)
    expAdv expFires (expRedraw c) Err.SampleShape (fun _ _ => rfl) (fun _ _ => rfl)
    (fun k i f => by simp [expRedraw, ExpCfg.interval, hR]) st.inputs st.intervals fresh hlen
  rw [zipWith_snd _ _ _ hlen'] at this
  exact this

/-- what the loop body leaves alone -/
theorem exp_online_step_frame (st st' : ExpSt) (fresh : List Rat) (sp : List Bool)
    (hlen : st.inputs.length = st.intervals.length)
    (h : homogeneous_poisson_exp_interval_online_step st fresh = .ok (st', sp)) :
    st'.refrac = st.refrac ∧ st'.inputs = st.inputs ∧ st'.inputs.length = st'.intervals.length := by
  rw [exp_step_eq st fresh hlen] at h
  split at h
  · cases hm : maskAssign (st.intervals.map (·.addFin (-1))) ((st.intervals.map (·.addFin (-1))).map (·.ltFin 1))
        (List.zipWith (fun f k => (k.mulFin f).addFin st.refrac) fresh
          (selF st.inputs ((st.intervals.map (·.addFin (-1))).map (·.ltFin 1)))) with
    | error e => rw [hm] at h; simp [Except.map] at h
    | ok r =>
      rw [hm] at h
      simp only [Except.map, Except.ok.injEq, Prod.mk.injEq] at h
      obtain ⟨rfl, _⟩ := h
      have := maskAssign_length _ _ _ _ hm
      simp_all
  · simp [Except.map] at h

section run
variable {σ τ φ : Type}

/-- the generator run to exhaustion = the model's `runT`, from a step correspondence and an invariant -/
theorem iterate_runT (step : σ → List φ → Except Err (σ × List Bool)) (abs : σ → List τ) (Inv : σ → Prop)
    (adv : τ → τ) (fires : τ → Bool) (redraw : τ → φ → τ)
    (hstep : ∀ st fresh, Inv st →
      (step st fresh).toOption.map (fun r => (abs r.1, r.2)) = stepT adv fires redraw (abs st) fresh)
    (hinv : ∀ st fresh st' sp, Inv st → step st fresh = .ok (st', sp) → Inv st') :
    ∀ (freshs : List (List φ)) (n : Nat) (st : σ), Inv st → freshs.length = n →
      (iterate step n st freshs).toOption = runT adv fires redraw (abs st) freshs := by
  intro freshs
  induction freshs with
  | nil => intro n st _ h; subst h; simp [iterate, runT, Except.toOption]
  | cons fr rest ih =>
    intro n st hst h
    cases n with
    | zero => simp at h
    | succ n =>
      simp only [List.length_cons, Nat.add_right_cancel_iff] at h
      have hs := hstep st fr hst
      simp only [iterate, runT]
      cases hr : step st fr with
      | error e => rw [hr] at hs; simp only [Except.toOption, Option.map_none] at hs; simp [← hs, Except.toOption]
      | ok r =>
        obtain ⟨st', sp⟩ := r
        rw [hr] at hs
        simp only [Except.toOption, Option.map_some] at hs
        simp only [← hs]
        rw [← ih n st' (hinv st fr st' sp hst hr) h]
        cases iterate step n st' rest <;> simp [Except.map, Except.toOption]

end run

/-- the state built by the statements before the loop abstracts to the model's `expOnlineInit` -/
theorem expElems_init (c : ExpCfg) (inputs s0 : List Rat) (R : Rat) :
    expElems ⟨inputs.map c.scale, R, List.zipWith (fun f k => c.interval k f) s0 (inputs.map c.scale)⟩
      = expOnlineInit c inputs s0 := by
  unfold expElems expOnlineInit
  simp only
  induction inputs generalizing s0 with
  | nil => simp
  | cons x xs ih => cases s0 with
    | nil => simp
    | cons f fs => simp [ih fs]

/-- the statements before the loop of the generator: the initial state of the model and the number of iterations -/
theorem gen_exp_interval_online_init (inputs : List Rat) (steps : Nat) (dt : Rat) (refrac : Option Rat) (comp : Bool)
    (s0 : List Rat) (hdt : dt ≠ 0) (hs : s0.length = inputs.length) :
    homogeneous_poisson_exp_interval_online_init inputs steps dt refrac comp s0 =
      .ok (⟨inputs.map (ExpCfg.mk steps dt refrac comp).scale, (ExpCfg.mk steps dt refrac comp).R,
            List.zipWith (fun f k => (ExpCfg.mk steps dt refrac comp).interval k f) s0
              (inputs.map (ExpCfg.mk steps dt refrac comp).scale)⟩, steps) := by
  have hR := R_def steps dt refrac comp
  have hsc := scale_map ⟨steps, dt, refrac, comp⟩ inputs
  have hmul := zipE_ok (fun (s : Rat) (e : Ext) => e.mulFin s) s0
      (inputs.map (ExpCfg.scale ⟨steps, dt, refrac, comp⟩)) (by simp [hs])
  simp only at hsc
  unfold homogeneous_poisson_exp_interval_online_init
  simp only [bind, Except.bind, pure, Except.pure, pyDiv, hdt, if_false, hR, hsc, exponential_, hs, List.length_map,
    if_true, mulT, hmul, addS1, List.map_zipWith, ExpCfg.interval]

/-- `homogeneous_poisson_exp_interval_online` run to exhaustion = the model's `expOnline` -/
theorem gen_exp_interval_online (inputs : List Rat) (steps : Nat) (dt : Rat) (refrac : Option Rat) (comp : Bool)
    (s0 : List Rat) (freshs : List (List Rat)) (hdt : dt ≠ 0) (hs : s0.length = inputs.length)
    (hf : freshs.length = steps) :
    (homogeneous_poisson_exp_interval_online inputs steps dt refrac comp s0 freshs).toOption
      = expOnline ⟨steps, dt, refrac, comp⟩ inputs s0 freshs := by
  unfold homogeneous_poisson_exp_interval_online
  simp only [bind, Except.bind, gen_exp_interval_online_init inputs steps dt refrac comp s0 hdt hs]
  unfold expOnline
  rw [← expElems_init _ inputs s0 (ExpCfg.mk steps dt refrac comp).R]
  exact iterate_runT homogeneous_poisson_exp_interval_online_step expElems
    (fun st => st.refrac = (ExpCfg.mk steps dt refrac comp).R ∧ st.inputs.length = st.intervals.length)
    expAdv expFires (expRedraw _)
    (fun st fresh h => gen_exp_interval_online_step _ st fresh h.1 h.2)
    (fun st fresh st' sp h hr => by
      obtain ⟨h1, _, h3⟩ := exp_online_step_frame st st' fresh sp h.2 hr
      exact ⟨h1.trans h.1, h3⟩)
    freshs steps _ ⟨rfl, by simp [hs]⟩ hf

/-! ## `poisson_interval` (offline) -/

/-- `x[m] = c` for a mask of the right shape does not fail and keeps the shape -/
theorem maskFill_length (x : List α) (m : List Bool) (c : α) (h : x.length = m.length) :
    ∃ r, maskFill x m c = .ok r ∧ r.length = x.length := by
  induction x generalizing m with
  | nil => cases m with
    | nil => exact ⟨[], rfl, rfl⟩
    | cons b bs => simp at h
  | cons a as ih => cases m with
    | nil => simp at h
    | cons b bs =>
      simp only [List.length_cons, Nat.add_right_cancel_iff] at h
      obtain ⟨r, hr, hl⟩ := ih bs h
      exact ⟨(if b then c else a) :: r, by simp [maskFill, hr, Except.map], by simp [hl]⟩

/-- `x[m] = f(x[m])` rewrites the selected elements in place -/
theorem maskAssign_sel (x : List α) (m : List Bool) (f : α → α) (h : x.length = m.length) :
    maskAssign x m ((selF x m).map f) = .ok (List.zipWith (fun a b => if b then f a else a) x m) := by
  induction x generalizing m with
  | nil => cases m with
    | nil => rfl
    | cons b bs => simp at h
  | cons a as ih => cases m with
    | nil => simp at h
    | cons b bs =>
      simp only [List.length_cons, Nat.add_right_cancel_iff] at h
      cases b <;> simp [selF, maskAssign, ih bs h, Except.map]

/-- `collect` of columns none of which fails -/
theorem collect_ok (l : List α) (f : α → β) : collect (l.map fun a => (.ok (f a) : Except Err β)) = .ok (l.map f) := by
  induction l with
  | nil => rfl
  | cons a l ih => simp [collect, ih, Except.map]

/-- `zipWith` of a list with a map of itself -/
theorem zipWith_map_self (f : α → β → γ) (h : α → β) (x : List α) :
    List.zipWith f x (x.map h) = x.map fun a => f a (h a) := by
  induction x with
  | nil => rfl
  | cons a x ih => simp [ih]

/-- `k + (k == 0)` is the model's `bump true` -/
theorem bump_true (k : Nat) : (k + if k = 0 then 1 else 0) = bump true k := by
  unfold bump
  cases k <;> simp

/-- `x += (x == 0)` on the selected columns -/
theorem iaddB_self (x : List (List Nat)) : iaddB x (eqS2N x 0) = .ok (x.map (·.map (bump true))) := by
  unfold iaddB eqS2N
  rw [zipE_ok _ _ _ (by simp), zipWith_map_self]
  simp only
  have : (x.map fun a => zipE (fun (k : Nat) (t : Bool) => k + if t = true then 1 else 0) a (a.map fun k => k == 0))
      = x.map fun a => (.ok (a.map (bump true)) : Except Err (List Nat)) := by
    apply List.map_congr_left
    intro a _
    rw [zipE_ok _ _ _ (by simp), zipWith_map_self]
    simp only [beq_iff_eq, bump_true]
  rw [this, collect_ok]

/-- `res[:, mask] += res[:, mask] == 0` -/
theorem bump_cols (res : List (List Nat)) (mask : List Bool) (h : res.length = mask.length) :
    maskAssign res mask ((selF res mask).map (·.map (bump true))) =
      .ok (List.zipWith (fun col b => col.map (bump b)) res mask) := by
  rw [maskAssign_sel res mask _ h]
  congr 1
  apply List.ext_getElem
  · simp
  · intro i h1 h2
    simp only [List.getElem_zipWith]
    cases mask[i]'(by simp at h2; omega)
    · have : bump false = id := by funext k; simp [bump]
      simp [this]
    · simp

/-- `scatter_` of a count column whose entries are all below the number of rows never fails -/
theorem scatterCol_nat (n : Nat) (l : List Nat) (h : ∀ t ∈ l, t < n) :
    scatterCol (List.replicate n false) (l.map Int.ofNat) = .ok (scatter n l) := by
  rw [scatterCol_zeros]
  have hv : (l.map Int.ofNat).all (validIdx n) = true := by
    simp only [List.all_eq_true, List.mem_map, validIdx, Bool.and_eq_true, decide_eq_true_eq]
    rintro i ⟨t, ht, rfl⟩
    have := h t ht
    constructor
    · exact Int.natCast_nonneg t
    · show (t : Int) < (n : Int); exact_mod_cast this
  have hm : (l.map Int.ofNat).map Int.toNat = l := by
    rw [List.map_map]; simp [Function.comp_def]
  rw [if_pos hv, hm]

/-- `cumsum` keeps the number of rows -/
theorem cumsumNat_length (acc : Nat) (l : List Nat) : (cumsumNat acc l).length = l.length := by
  induction l generalizing acc with
  | nil => rfl
  | cons x xs ih => simp [cumsumNat, ih]

/-- the index column of one element: bump → cumsum → clamp -/
def poiIdx (steps : Nat) (x : Rat) (ks : List Nat) : List Nat :=
  (cumsumNat 0 (ks.map (bump (decide (0 < x))))).map fun t => min t steps

/-- the tensor-level statements after the masked bump act column by column (`poiIdx`); no column fails -/
theorem poi_cols_fuse (steps : Nat) : ∀ (inputs : List Rat) (sample : List (List Nat)),
    sample.length = inputs.length → (∀ col ∈ sample, col.length = steps + 2) →
    List.zipWith scatterCol
      (zerosLikeBool (long2N (clampMax2N (cumsum0N (List.zipWith (fun col b => col.map (bump b)) sample
        (gtS1Q inputs 0))) steps)))
      (long2N (clampMax2N (cumsum0N (List.zipWith (fun col b => col.map (bump b)) sample (gtS1Q inputs 0))) steps))
    = (inputs.zip sample).map fun p => (.ok (scatter (steps + 2) (poiIdx steps p.1 p.2)) : Except Err (List Bool)) := by
  intro inputs
  induction inputs with
  | nil => intro sample h _; cases sample <;> simp_all [long2N, clampMax2N, cumsum0N, zerosLikeBool, gtS1Q]
  | cons x xs ih =>
    intro sample h hcol
    cases sample with
    | nil => simp at h
    | cons col rest =>
      simp only [List.length_cons, Nat.add_right_cancel_iff] at h
      have ih' := ih rest h (fun c hc => hcol c (by simp [hc]))
      have hc := hcol col (by simp)
      simp only [long2N, clampMax2N, cumsum0N, zerosLikeBool, gtS1Q, List.map_map] at ih'
      simp only [long2N, clampMax2N, cumsum0N, zerosLikeBool, gtS1Q, List.map_cons, List.zipWith_cons_cons,
        List.zip_cons_cons, List.map_map] at ih' ⊢
      rw [ih']
      congr 1
      have hz : (List.map ((fun x : Int => false) ∘ Int.ofNat ∘ fun t => min t steps)
          (cumsumNat 0 (List.map (bump (decide (0 < x))) col))) = List.replicate (steps + 2) false := by
        rw [List.eq_replicate_iff]
        refine ⟨by simp [cumsumNat_length, hc], ?_⟩
        intro b hb
        simp only [List.mem_map, Function.comp_apply] at hb
        obtain ⟨_, _, rfl⟩ := hb
        rfl
      rw [hz, ← List.map_map]
      rw [scatterCol_nat]
      · rfl
      · intro t ht
        simp only [List.mem_map] at ht
        obtain ⟨u, _, rfl⟩ := ht
        omega

/-- `l[1:-1]` drops the first and the last row -/
theorem pySlice_inner (l : List α) : pySlice l (some 1) (some (-1)) = (l.drop 1).dropLast := by
  unfold pySlice pyBound
  simp only [show ((-1 : Int) < 0) from by omega, show ¬ ((1 : Int) < 0) from by omega, if_true, if_false]
  rw [List.dropLast_eq_take, List.drop_take]
  have h1 : (-1 + (l.length : Int)).toNat = l.length - 1 := by omega
  have h2 : min (1 : Int).toNat l.length = min 1 l.length := rfl
  rw [h1, h2, List.length_drop]
  by_cases h : l.length = 0
  · have : l = [] := List.length_eq_zero_iff.mp h
    subst this; rfl
  · have : min 1 l.length = 1 := by omega
    rw [this]

/-- every column of `x.expand(n, *x.shape)` has `n` rows -/
theorem expand0_lengths (x : List α) (n : Nat) : (expand0 x n).map List.length = List.replicate x.length n := by
  unfold expand0
  rw [List.map_map, List.eq_replicate_iff]
  refine ⟨by simp, ?_⟩
  intro b hb
  simp only [List.mem_map, Function.comp_apply] at hb
  obtain ⟨_, _, rfl⟩ := hb
  simp

/-- a tensor all of whose columns have `n` rows -/
theorem lengths_replicate (s : List (List β)) (n : Nat) (h : ∀ col ∈ s, col.length = n) :
    s.map List.length = List.replicate s.length n := by
  rw [List.eq_replicate_iff]
  refine ⟨by simp, ?_⟩
  intro b hb
  simp only [List.mem_map] at hb
  obtain ⟨c, hc, rfl⟩ := hb
  exact h c hc

/-- `poisson_interval` = the model's `poissonOfflineT` (element-major sample columns, time-first result) -/
theorem gen_poisson_interval_offline (inputs : List Rat) (steps : Nat) (dt : Rat) (sample : List (List Nat))
    (hdt : dt ≠ 0) (hn : sample.length = inputs.length) (hcol : ∀ col ∈ sample, col.length = steps + 2) :
    (poisson_interval inputs steps dt sample).map (timeFirst steps)
      = .ok (poissonOfflineT steps (inputs.zip sample)) := by
  unfold poisson_interval
  obtain ⟨r, hr, hrl⟩ := maskFill_length (mulS1 (recipT inputs) (1000 / dt)) (notT (gtS1Q inputs 0)) (Ext.fin 0)
    (by simp [mulS1, recipT, notT, gtS1Q])
  have hsh : sample.map List.length = (expand0 r (steps + 2)).map List.length := by
    rw [expand0_lengths, lengths_replicate sample _ hcol, hrl, hn]
    simp [mulS1, recipT]
  have hm : sample.length = (gtS1Q inputs 0).length := by simp [gtS1Q, hn]
  simp only [bind, Except.bind, pure, Except.pure, pyDiv, hdt, if_false, hr, poissonS_, hsh, if_true,
    maskSelect_ok _ _ hm, iaddB_self, bump_cols _ _ hm]
  unfold scatter0
  rw [if_pos (by simp [zerosLikeBool]), poi_cols_fuse steps inputs sample hn hcol, collect_ok]
  simp only [Except.map, poissonOfflineT, poissonOffline, sliceRows, List.map_map, Function.comp_def, pySlice_inner,
    poiIdx]

/-! ## `poisson_interval_online` (generator) -/

/-- local state of the generator `poisson_interval_online` -/
abbrev PoiSt := poisson_interval_online_State

/-- abstraction: the generator's local state → the model's element list (the rates `inputs` only go to the sampler) -/
def poiElems (st : PoiSt) : List PoiElem := List.zipWith PoiElem.mk st.mask st.intervals

/-- `torch.logical_and(intervals < 1, mask)`, element by element -/
theorem zipWith_and_map {ι : Type} (g : ι → Bool) (l : List ι) (m : List Bool) :
    List.zipWith (fun x y => x && y) (l.map g) m = List.zipWith (fun k i => g i && k) m l := by
  induction l generalizing m with
  | nil => cases m <;> simp
  | cons a l ih => cases m with
    | nil => simp
    | cons b m => simp [ih m]

/-- `zipWith` ignoring its second list -/
theorem zipWith_fst {κ φ : Type} (f : φ → β) (fr : List φ) (ks : List κ) (h : fr.length = ks.length) :
    List.zipWith (fun a _ => f a) fr ks = fr.map f := by
  induction fr generalizing ks with
  | nil => cases ks <;> simp_all
  | cons a fr ih => cases ks with
    | nil => simp at h
    | cons k ks => simp only [List.length_cons, Nat.add_right_cancel_iff] at h; simp [ih ks h]

/-- closed form of the regenerated loop body -/
theorem poi_step_eq (st : PoiSt) (fresh : List Nat) (h1 : st.inputs.length = st.mask.length)
    (h2 : st.mask.length = st.intervals.length) :
    poisson_interval_online_step st fresh =
      (if fresh.length = (selF st.mask (List.zipWith (fun k i => decide (i < 1) && k) st.mask
            (st.intervals.map (· - 1)))).length then
        maskAssign (st.intervals.map (· - 1))
          (List.zipWith (fun k i => decide (i < 1) && k) st.mask (st.intervals.map (· - 1)))
          (List.zipWith (fun (f : Nat) (_ : Bool) => (f : Int)) fresh
            (selF st.mask (List.zipWith (fun k i => decide (i < 1) && k) st.mask (st.intervals.map (· - 1)))))
       else .error .SampleShape).map
        fun iv2 => ({ inputs := st.inputs, mask := st.mask, intervals := iv2 },
          List.zipWith (fun k i => decide (i < 1) && k) st.mask (st.intervals.map (· - 1))) := by
  unfold poisson_interval_online_step
  have ha : (ltS1I (subS1I st.intervals 1) 1).length = st.mask.length := by simp [ltS1I, subS1I, h2]
  have hsp : List.zipWith (fun x y => x && y) (ltS1I (subS1I st.intervals 1) 1) st.mask
      = List.zipWith (fun k i => decide (i < 1) && k) st.mask (st.intervals.map (· - 1)) := by
    unfold ltS1I subS1I; exact zipWith_and_map _ _ _
  simp only [bind, Except.bind, pure, Except.pure, andT, zipE_ok _ _ _ ha, hsp]
  have e1 : subS1I st.intervals 1 = st.intervals.map (· - 1) := rfl
  rw [e1]
  generalize hspd : List.zipWith (fun k i => decide (i < 1) && k) st.mask (st.intervals.map (· - 1)) = sp
  have hl : sp.length = st.mask.length := by subst hspd; simp [h2]
  have h3 := selF_length st.inputs st.mask sp (by omega) (by omega)
  simp only [maskSelect_ok st.inputs sp (by omega), poisson_, h3]
  by_cases hf : fresh.length = (selF st.mask sp).length
  · simp only [hf, if_true, zipWith_fst (fun (f : Nat) => (f : Int)) fresh _ hf]
    have : (fun (f : Nat) => (f : Int)) = Int.ofNat := rfl
    rw [this]
    cases maskAssign _ _ _ <;> simp [Except.map]
  · simp [hf, Except.map]

/-- ONE execution of the loop body of the generator = one `stepT` of the model -/
theorem gen_poisson_interval_online_step (st : PoiSt) (fresh : List Nat) (h1 : st.inputs.length = st.mask.length)
    (h2 : st.mask.length = st.intervals.length) :
    (poisson_interval_online_step st fresh).toOption.map (fun r => (poiElems r.1, r.2))
      = stepT poiAdv poiFires poiRedraw (poiElems st) fresh := by
  rw [poi_step_eq st fresh h1 h2, toOption_map_map]
  exact step_core PoiElem.mk (· - 1) (fun k i => decide (i < 1) && k) (fun _ (f : Nat) => (f : Int))
    poiAdv poiFires poiRedraw Err.SampleShape (fun _ _ => rfl) (fun _ _ => rfl) (fun _ _ _ => rfl)
    st.mask st.intervals fresh h2

/-- what the loop body leaves alone -/
theorem poi_online_step_frame (st st' : PoiSt) (fresh : List Nat) (sp : List Bool)
    (h1 : st.inputs.length = st.mask.length) (h2 : st.mask.length = st.intervals.length)
    (h : poisson_interval_online_step st fresh = .ok (st', sp)) :
    st'.inputs = st.inputs ∧ st'.mask = st.mask ∧ st'.intervals.length = st.intervals.length := by
  rw [poi_step_eq st fresh h1 h2] at h
  split at h
  · cases hm : maskAssign (st.intervals.map (· - 1))
          (List.zipWith (fun k i => decide (i < 1) && k) st.mask (st.intervals.map (· - 1)))
          (List.zipWith (fun (f : Nat) (_ : Bool) => (f : Int)) fresh
            (selF st.mask (List.zipWith (fun k i => decide (i < 1) && k) st.mask (st.intervals.map (· - 1))))) with
    | error e => rw [hm] at h; simp [Except.map] at h
    | ok r =>
      rw [hm] at h
      simp only [Except.map, Except.ok.injEq, Prod.mk.injEq] at h
      obtain ⟨rfl, _⟩ := h
      have := maskAssign_length _ _ _ _ hm
      simp_all
  · simp [Except.map] at h

/-- the state built by the statements before the loop abstracts to the model's `poissonOnlineInit` -/
theorem poiElems_init (inputs : List Rat) (k0 : List Nat) (r : List Ext) :
    poiElems ⟨r, gtS1Q inputs 0, k0.map Int.ofNat⟩ = poissonOnlineInit inputs k0 := by
  unfold poiElems poissonOnlineInit gtS1Q
  simp only
  induction inputs generalizing k0 with
  | nil => simp
  | cons x xs ih => cases k0 with
    | nil => simp
    | cons f fs => simp [ih fs]

/-- the statements before the loop of `poisson_interval_online`: the mask `inputs > 0`, the (masked) Poisson means — of
which only the shape matters to the model —, the first draw as the initial intervals, and the number of iterations;
the state abstracts to the model's `poissonOnlineInit` (`poiElems_init`) -/
theorem gen_poisson_interval_online_init (inputs : List Rat) (steps : Nat) (dt : Rat) (k0 : List Nat)
    (hdt : dt ≠ 0) (hs : k0.length = inputs.length) :
    ∃ r : List Ext, r.length = inputs.length ∧
      poisson_interval_online_init inputs steps dt k0 = .ok (⟨r, gtS1Q inputs 0, k0.map Int.ofNat⟩, steps) ∧
      poiElems ⟨r, gtS1Q inputs 0, k0.map Int.ofNat⟩ = poissonOnlineInit inputs k0 := by
  unfold poisson_interval_online_init
  obtain ⟨r, hr, hrl⟩ := maskFill_length (mulS1 (recipT inputs) (1000 / dt)) (notT (gtS1Q inputs 0)) (Ext.fin 0)
    (by simp [mulS1, recipT, notT, gtS1Q])
  have hrl' : r.length = inputs.length := by simpa [mulS1, recipT] using hrl
  refine ⟨r, hrl', ?_, poiElems_init inputs k0 r⟩
  simp only [bind, Except.bind, pure, Except.pure, pyDiv, hdt, if_false, hr, poisson_, hs, hrl', if_true]

/-- `poisson_interval_online` run to exhaustion = the model's `poissonOnline` -/
theorem gen_poisson_interval_online (inputs : List Rat) (steps : Nat) (dt : Rat) (k0 : List Nat)
    (freshs : List (List Nat)) (hdt : dt ≠ 0) (hs : k0.length = inputs.length) (hf : freshs.length = steps) :
    (poisson_interval_online inputs steps dt k0 freshs).toOption = poissonOnline inputs k0 freshs := by
  unfold poisson_interval_online poisson_interval_online_init
  obtain ⟨r, hr, hrl⟩ := maskFill_length (mulS1 (recipT inputs) (1000 / dt)) (notT (gtS1Q inputs 0)) (Ext.fin 0)
    (by simp [mulS1, recipT, notT, gtS1Q])
  have hrl' : r.length = inputs.length := by simpa [mulS1, recipT] using hrl
  simp only [bind, Except.bind, pure, Except.pure, pyDiv, hdt, if_false, hr, poisson_, hs, hrl', if_true]
  unfold poissonOnline
  rw [← poiElems_init inputs k0 r]
  exact iterate_runT poisson_interval_online_step poiElems
    (fun st => st.inputs.length = st.mask.length ∧ st.mask.length = st.intervals.length)
    poiAdv poiFires poiRedraw
    (fun st fresh h => gen_poisson_interval_online_step st fresh h.1 h.2)
    (fun st fresh st' sp h hr => by
      obtain ⟨e1, e2, e3⟩ := poi_online_step_frame st st' fresh sp h.1 h.2 hr
      rw [e1, e2, e3]; exact h)
    freshs steps _ ⟨by simp [gtS1Q, hrl'], by simp [gtS1Q, hs]⟩ hf

/-! ## The Bernoulli approximations -/

/-- the clamped per-step probability of every element -/
theorem prob_map (dt : Rat) (inputs : List Rat) :
    clampMax1Q (mulS1Q (divS1Q inputs 1000) dt) 1 = inputs.map (prob dt) := by
  simp [clampMax1Q, mulS1Q, divS1Q, prob, Function.comp_def]

/-- `zipWith` against `ein.repeat(…, t=n)` -/
theorem zipWith_replicate_right (f : α → β → γ) (l : List α) (b : β) (n : Nat) (h : l.length = n) :
    List.zipWith f l (List.replicate n b) = l.map fun a => f a b := by
  subst h
  induction l with
  | nil => rfl
  | cons a l ih => simp [List.replicate_succ, ih]

/-- `homogenous_poisson_bernoulli_approx` = the model's `bernoulliT` (one row of uniforms per step) -/
theorem gen_bernoulli_offline (inputs : List Rat) (steps : Nat) (dt : Rat) (U : List (List Rat))
    (hU : U.length = steps) (hrow : ∀ row ∈ U, row.length = inputs.length) :
    homogenous_poisson_bernoulli_approx inputs steps dt U = .ok (bernoulliT dt inputs U) := by
  unfold homogenous_poisson_bernoulli_approx
  have hsh : U.map List.length = (repeatR (inputs.map (prob dt)) steps).map List.length := by
    rw [lengths_replicate U _ hrow, hU]; simp [repeatR]
  simp only [bind, Except.bind, pure, Except.pure, prob_map, bernoulli2_, hsh, if_true, boolOf2, repeatR,
    zipWith_replicate_right _ U _ steps hU, bernoulliT, List.zipWith_map_right]

/-- local state of the generator `homogenous_poisson_bernoulli_approx_online` -/
abbrev BerSt := homogenous_poisson_bernoulli_approx_online_State

/-- the statements before the loop: the clamped probabilities and the number of iterations -/
theorem gen_bernoulli_online_init (inputs : List Rat) (steps : Nat) (dt : Rat) :
    homogenous_poisson_bernoulli_approx_online_init inputs steps dt = .ok (⟨inputs.map (prob dt)⟩, steps) := by
  unfold homogenous_poisson_bernoulli_approx_online_init
  simp only [pure, Except.pure, prob_map]

/-- ONE execution of the loop body: the state is unchanged, the slice is one row of the model's `bernoulliT` -/
theorem gen_bernoulli_online_step (dt : Rat) (inputs : List Rat) (u : List Rat) (h : u.length = inputs.length) :
    homogenous_poisson_bernoulli_approx_online_step ⟨inputs.map (prob dt)⟩ u =
      .ok (⟨inputs.map (prob dt)⟩, List.zipWith (fun u x => decide (u < prob dt x)) u inputs) := by
  unfold homogenous_poisson_bernoulli_approx_online_step
  simp only [bind, Except.bind, pure, Except.pure, bernoulli_, h, List.length_map, if_true, boolOf1,
    List.zipWith_map_right]

/-- `homogenous_poisson_bernoulli_approx_online` run to exhaustion = the model's `bernoulliT` -/
theorem gen_bernoulli_online (inputs : List Rat) (steps : Nat) (dt : Rat) (U : List (List Rat))
    (hU : U.length = steps) (hrow : ∀ row ∈ U, row.length = inputs.length) :
    homogenous_poisson_bernoulli_approx_online inputs steps dt U = .ok (bernoulliT dt inputs U) := by
  unfold homogenous_poisson_bernoulli_approx_online
  simp only [bind, Except.bind, gen_bernoulli_online_init]
  subst hU
  unfold bernoulliT
  induction U with
  | nil => rfl
  | cons u U ih =>
    have hu := hrow u (by simp)
    have := ih (fun r hr => hrow r (by simp [hr]))
    simp only [List.length_cons, iterate, gen_bernoulli_online_step dt inputs u hu, this, Except.map, List.map_cons]

/-- `inhomogeneous_poisson_bernoulli_approx` = the model's `bernoulliInhomT` -/
theorem gen_bernoulli_inhomogeneous (X : List (List Rat)) (dt : Rat) (U : List (List Rat))
    (hsh : U.map List.length = X.map List.length) :
    inhomogeneous_poisson_bernoulli_approx X dt U = .ok (bernoulliInhomT dt X U) := by
  unfold inhomogeneous_poisson_bernoulli_approx
  have hp : clampMax2Q (mulS2Q (divS2Q X 1000) dt) 1 = X.map fun xs => xs.map (prob dt) := by
    simp only [clampMax2Q, mulS2Q, divS2Q, List.map_map, Function.comp_def, prob_map]
  have hsh' : U.map List.length = (X.map fun xs => xs.map (prob dt)).map List.length := by
    rw [hsh]; simp [Function.comp_def]
  simp only [bind, Except.bind, pure, Except.pure, hp, bernoulli2_, hsh', if_true, boolOf2, bernoulliInhomT,
    List.zipWith_map_right]
  congr 1
  rw [List.zipWith_comm]

/-! ## `step_time = 0` -/

/-- `step_time = 0`: the four interval encoders raise `ZeroDivisionError` at `refrac / step_time` resp.
`1000.0 / step_time`, whatever the samples (the model, whose division is total, has no counterpart: the theorems
of `Props/C19.lean` assume `0 < dt`) -/
theorem gen_zero_step_time (inputs : List Rat) (steps : Nat) (refrac : Option Rat) (comp : Bool) :
    (∀ s, homogeneous_poisson_exp_interval inputs steps 0 refrac comp s = .error .ZeroDivisionError) ∧
    (∀ s, homogeneous_poisson_exp_interval_online_init inputs steps 0 refrac comp s = .error .ZeroDivisionError) ∧
    (∀ s, poisson_interval inputs steps 0 s = .error .ZeroDivisionError) ∧
    (∀ s, poisson_interval_online_init inputs steps 0 s = .error .ZeroDivisionError) := by
  refine ⟨?_, ?_, ?_, ?_⟩ <;> intro s <;>
    simp [homogeneous_poisson_exp_interval, homogeneous_poisson_exp_interval_online_init, poisson_interval,
      poisson_interval_online_init, pyDiv, bind, Except.bind]

/-! ## Non-vacuity: the regenerated programs run, on instances meeting the hypotheses (the examples of `Props/C19.lean`) -/

/-- 100 Hz and a silent element, dt = 1 ms, refrac = 3 ms, compensation: `nbins = 3` samples per element -/
example : (ExpCfg.mk 10 1 (some 3) true).nbins = 3 := by decide +kernel
example : homogeneous_poisson_exp_interval [100, 0] 10 1 (some 3) true [[1/2, 1/4, 2], [1, 1, 1]] =
    .ok [[false, false, false, false, false, false, true, false, false, false],
         [false, false, false, false, false, false, false, false, false, false]] := by decide +kernel
/-- a sample tensor with fewer rows than the code requests is refused -/
example : homogeneous_poisson_exp_interval [100] 10 1 (some 3) true [[1/2, 1/4]] = .error .SampleShape := by
  decide +kernel
/-- the online generator: a silent element next to an active one (first spike at step 5, redraw, next at step 9) -/
example : homogeneous_poisson_exp_interval_online [0, 100] 10 1 (some 3) true [1, 1/2]
      [[], [], [], [], [], [1/7], [], [], [], [1/4]] =
    .ok [[false, false], [false, false], [false, false], [false, false], [false, false], [false, true],
         [false, false], [false, false], [false, false], [false, true]] := by decide +kernel
example : poisson_interval [10, 0] 4 1 [[2, 0, 5, 1, 1, 1], [0, 0, 0, 0, 0, 0]] =
    .ok [[false, true, true, true], [false, false, false, false]] := by decide +kernel
example : poisson_interval_online [10, 0] 4 1 [2, 0] [[], [3], [], []] =
    .ok [[false, false], [true, false], [false, false], [false, false]] := by decide +kernel
example : homogenous_poisson_bernoulli_approx [500, 0, 3000] 2 1 [[1/4, 1/4, 9/10], [3/4, 0, 0]] =
    .ok [[true, false, true], [false, false, true]] := by decide +kernel
example : homogenous_poisson_bernoulli_approx_online [500, 0, 3000] 2 1 [[1/4, 1/4, 9/10], [3/4, 0, 0]] =
    .ok [[true, false, true], [false, false, true]] := by decide +kernel
example : inhomogeneous_poisson_bernoulli_approx [[500, 0], [0, 3000]] 1 [[1/4, 1/4], [3/4, 1/2]] =
    .ok [[true, false], [false, true]] := by decide +kernel

end InfernoVerif.Enc.GlueProg
