import InfernoVerif.Model.InterpR
import InfernoVerif.Lemmas.Dist
import InfernoVerif.Lemmas.Isi
import InfernoVerif.Lemmas.VP
import Mathlib.Tactic.Ring
import Mathlib.Tactic.Linarith
import Mathlib.Tactic.FieldSimp
import Mathlib.Tactic.Positivity
/-!
# C20 — Numerical helpers are self-consistent: interp/extrap, distributions, ISI, metric

Property theorems only.  Definitions: `Model/InterpR.lean`, `Model/DistR.lean` (the `ℝ` copies of
the hand-transcribed formulas, textually parallel to the executable `Float` copies
`Model/Interp.lean`, `Model/Dist.lean`), `Model/Isi.lean`, `Model/VP.lean` (core Lean, exact
rationals).  Helper lemmas: `Lemmas/{Dist,Isi,VP}.lean`.

## What is proved
1. interpolation ∘ extrapolation = identity for every shipped matching pair, with exactly the
   hypotheses each proof needs (hypothesis audit in the doc comments); linear interpolation stays
   between its brackets and meets them at the ends.
2. Normal: `exp logpdf = pdf`, `pdf = gaussianPDFReal μ σ²`, hence `∫ pdf = 1`, `∫ x·pdf = mean`,
   `∫ (x − mean)²·pdf = variance` (with integrability), `logcdf = log cdf`, `params_mv` round trip.
   Poisson: `exp logpmf = pmf = e^{−λ} λ^k / k!` (with `lgamma = log ∘ |Γ|`), `Σ pmf = 1`,
   `Σ k·pmf = mean`, `Σ (k − mean)²·pmf = variance`, `logcdf = log cdf`.
   LogNormal: `exp logpdf = pdf`, `pdf x = gaussianPDFReal μ σ² (log x) / x`,
   `cdf x = Normal.cdf (log x)`, `logcdf = log cdf`, `params_mv` round trip for mean and variance.
3. ISI: the statement-by-statement model of `isi` equals "spike times → successive differences →
   `none` padding" (both layouts); re-integrating a train's intervals from its first spike time
   recovers its spike times; trains with ≤ 1 spike yield no interval.
4. Victor–Purpura: all three branches of the function compute the recurrence; non-negativity,
   symmetry, `d(a,a) = 0` (finite cost), `d = 0 → a = b` (positive finite cost),
   `|n − m| ≤ d ≤ n + m`, equality at cost 0 and cost ∞, and the triangle inequality, for every
   cost in `[0, ∞]`.

## Proved in `Props/C20Int.lean` (the integral / partial-sum sub-claims, about `realSpecial`:
`erf z = 2/√π ∫₀ᶻ e^{−t²}`, `gammaincc a x = (∫_x^∞ t^{a−1}e^{−t}) / Γ a`)
* Normal / LogNormal: `cdf x = ∫_{−∞}^{x} pdf` (`Normal.cdf_eq_integral`, `LogNormal.cdf_eq_integral`);
* Poisson: `cdf k = Σ_{j ≤ k} pmf j` (`Poisson.cdf_eq_sum`);
* LogNormal: `∫ pdf = 1`, `∫ x·pdf = mean`, `∫ (x − mean)²·pdf = variance` with integrability
  (`LogNormal.integral_pdf`, `integral_mean`, `integral_variance`).
That torch's `special.erf` / `special.gammaincc` compute these functions is an assumption, checked
numerically on every run (`integral_subclaims_run_on_real_code` in the evidence).
-/

/-! # 1. Interpolation / extrapolation -/
namespace InfernoVerif.Interp.R

/-- previous/previous. No hypothesis. -/
theorem interp_extrap_roundtrip_previous (sample s prev next dt : ℝ) :
    interp_previous (extrap_previous sample s prev next dt).1
      (extrap_previous sample s prev next dt).2 s dt = sample := rfl

/-- next/next. No hypothesis. -/
theorem interp_extrap_roundtrip_next (sample s prev next dt : ℝ) :
    interp_next (extrap_next sample s prev next dt).1
      (extrap_next sample s prev next dt).2 s dt = sample := rfl

/-- nearest/nearest. Needs `dt > 0`: the extrapolation tests `s > dt/2`, the interpolation
`s/dt > 0.5`; for `dt < 0` the two tests are opposite and the round trip fails
(`nearest_roundtrip_fails_neg_dt`).  The tie `s = dt/2` goes to the previous bracket in both. -/
theorem interp_extrap_roundtrip_nearest (sample s prev next dt : ℝ) (hdt : 0 < dt) :
    interp_nearest (extrap_nearest sample s prev next dt).1
      (extrap_nearest sample s prev next dt).2 s dt = sample := by
  simp only [extrap_nearest, interp_nearest]
  have h : s / dt > 0.5 ↔ s > dt / 2 := by
    rw [gt_iff_lt, gt_iff_lt, lt_div_iff₀ hdt]
    constructor <;> intro h <;> linarith
  by_cases hc : s > dt / 2
  · simp [hc, h.mpr hc]
  · simp [hc, mt h.mp hc]

/-- linear_forward + linear (with any `adjust`). Needs `s ≠ 0` (the slope divides by the sample
time; at `s = 0` the kernel divides by zero — `RecordTensor.insert` bypasses extrapolation at exact
indices) and `dt ≠ 0`. -/
theorem interp_extrap_roundtrip_linear_forward (sample s prev next dt : ℝ)
    (adjust : Option (ℝ → ℝ)) (hs : s ≠ 0) (hdt : dt ≠ 0) :
    interp_linear (extrap_linear_forward sample s prev next dt adjust).1
      (extrap_linear_forward sample s prev next dt adjust).2 s dt = sample := by
  simp only [extrap_linear_forward, interp_linear]
  field_simp
  ring

/-- linear_backward + linear (with any `adjust`). Needs `s ≠ dt` (slope divides by `dt − s`) and
`dt ≠ 0`. -/
theorem interp_extrap_roundtrip_linear_backward (sample s prev next dt : ℝ)
    (adjust : Option (ℝ → ℝ)) (hs : s ≠ dt) (hdt : dt ≠ 0) :
    interp_linear (extrap_linear_backward sample s prev next dt adjust).1
      (extrap_linear_backward sample s prev next dt adjust).2 s dt = sample := by
  simp only [extrap_linear_backward, interp_linear]
  have : dt - s ≠ 0 := sub_ne_zero.mpr (Ne.symm hs)
  field_simp
  ring

/-- expdecay/expdecay.  `τ ≠ 0` is the guard of the division `s/τ` (the proof itself is
`e^{s/τ}·e^{−s/τ} = 1` and does not use it); no condition on `s`, `dt`. -/
theorem interp_extrap_roundtrip_expdecay (sample s prev next dt τ : ℝ) (_hτ : τ ≠ 0) :
    interp_expdecay (extrap_expdecay sample s prev next dt τ).1
      (extrap_expdecay sample s prev next dt τ).2 s dt τ = sample := by
  simp only [extrap_expdecay, interp_expdecay, exp]
  rw [mul_assoc, ← Real.exp_add, neg_div, add_neg_cancel, Real.exp_zero, mul_one]

/-- expratedecay/expratedecay. No hypothesis. -/
theorem interp_extrap_roundtrip_expratedecay (sample s prev next dt r : ℝ) :
    interp_expratedecay (extrap_expratedecay sample s prev next dt r).1
      (extrap_expratedecay sample s prev next dt r).2 s dt r = sample := by
  simp only [extrap_expratedecay, interp_expratedecay, exp]
  rw [mul_assoc, ← Real.exp_add, neg_mul, add_neg_cancel, Real.exp_zero, mul_one]

/-- neighbors with ANY interpolation that returns one of its brackets. -/
theorem interp_extrap_roundtrip_neighbors (interp : ℝ → ℝ → ℝ → ℝ → ℝ)
    (hbr : ∀ p n s dt, interp p n s dt = p ∨ interp p n s dt = n)
    (sample s prev next dt : ℝ) :
    interp (extrap_neighbors sample s prev next dt).1
      (extrap_neighbors sample s prev next dt).2 s dt = sample := by
  simp only [extrap_neighbors]
  rcases hbr sample sample s dt with h | h <;> exact h

/-- `interp_previous`, `interp_next`, `interp_nearest` return one of their brackets. -/
theorem interp_previous_bracket (p n s dt : ℝ) :
    interp_previous p n s dt = p ∨ interp_previous p n s dt = n := Or.inl rfl
theorem interp_next_bracket (p n s dt : ℝ) :
    interp_next p n s dt = p ∨ interp_next p n s dt = n := Or.inr rfl
theorem interp_nearest_bracket (p n s dt : ℝ) :
    interp_nearest p n s dt = p ∨ interp_nearest p n s dt = n := by
  unfold interp_nearest; split <;> simp

/-- neighbors + linear also round-trips (equal brackets; `dt ≠ 0` guards the division). -/
theorem interp_extrap_roundtrip_neighbors_linear (sample s prev next dt : ℝ) (_hdt : dt ≠ 0) :
    interp_linear (extrap_neighbors sample s prev next dt).1
      (extrap_neighbors sample s prev next dt).2 s dt = sample := by
  simp [extrap_neighbors, interp_linear]

/-- The two extrapolated brackets of `extrap_expdecay` lie on ONE decay curve: the value at `Δt`
is the interpolation of the value at `0` at time `Δt`. -/
theorem extrap_expdecay_consistent (sample s prev next dt τ : ℝ) (_hτ : τ ≠ 0) :
    interp_expdecay (extrap_expdecay sample s prev next dt τ).1 next dt dt τ
      = (extrap_expdecay sample s prev next dt τ).2 := by
  simp only [extrap_expdecay, interp_expdecay, exp]
  rw [mul_assoc, ← Real.exp_add]
  congr 2; ring

theorem extrap_expratedecay_consistent (sample s prev next dt r : ℝ) :
    interp_expratedecay (extrap_expratedecay sample s prev next dt r).1 next dt dt r
      = (extrap_expratedecay sample s prev next dt r).2 := by
  simp only [extrap_expratedecay, interp_expratedecay, exp]
  rw [mul_assoc, ← Real.exp_add]
  congr 2; ring

/-- Linear interpolation stays between the bracket values for sample times in `[0, Δt]`. -/
theorem linear_between (prev next s dt : ℝ) (hdt : 0 < dt) (h0 : 0 ≤ s) (h1 : s ≤ dt) :
    min prev next ≤ interp_linear prev next s dt ∧ interp_linear prev next s dt ≤ max prev next := by
  simp only [interp_linear]
  have hw0 : 0 ≤ s / dt := div_nonneg h0 hdt.le
  have hw1 : s / dt ≤ 1 := (div_le_one hdt).mpr h1
  have e : prev + (next - prev) / dt * s = (1 - s / dt) * prev + s / dt * next := by
    field_simp; ring
  rw [e]
  constructor
  · rcases le_total prev next with h | h
    · rw [min_eq_left h]; nlinarith
    · rw [min_eq_right h]; nlinarith
  · rcases le_total prev next with h | h
    · rw [max_eq_right h]; nlinarith
    · rw [max_eq_left h]; nlinarith

/-- … and equals them at the ends (`dt ≠ 0` for the right end). -/
theorem linear_at_ends (prev next dt : ℝ) (hdt : dt ≠ 0) :
    interp_linear prev next 0 dt = prev ∧ interp_linear prev next dt dt = next := by
  simp only [interp_linear]
  constructor
  · ring
  · field_simp; ring

/-- Exponential interpolation at the left end returns the previous bracket. -/
theorem expdecay_at_left_end (prev next dt τ : ℝ) : interp_expdecay prev next 0 dt τ = prev := by
  simp [interp_expdecay]

/-! ### hypothesis audit: witnesses that the guards are necessary -/

/-- With `dt < 0` nearest/nearest does not round-trip. -/
theorem nearest_roundtrip_fails_neg_dt :
    interp_nearest (extrap_nearest 1 (-1) 0 0 (-4)).1 (extrap_nearest 1 (-1) 0 0 (-4)).2 (-1) (-4) ≠ 1 := by
  simp only [extrap_nearest, interp_nearest]
  norm_num

/-- At `s = 0` the (totalised) forward linear pair does not round-trip: the guard is necessary. -/
theorem linear_forward_roundtrip_fails_at_zero :
    interp_linear (extrap_linear_forward 1 0 0 0 1 none).1 (extrap_linear_forward 1 0 0 0 1 none).2 0 1 ≠ 1 := by
  simp [extrap_linear_forward, interp_linear]

/-- At `s = dt` the (totalised) backward linear pair does not round-trip. -/
theorem linear_backward_roundtrip_fails_at_dt :
    interp_linear (extrap_linear_backward 1 1 0 0 1 none).1 (extrap_linear_backward 1 1 0 0 1 none).2 1 1 ≠ 1 := by
  simp [extrap_linear_backward, interp_linear]

-- non-vacuity: a sample strictly inside the step satisfies every hypothesis above
example : interp_linear (extrap_linear_forward 3 (1/4) 1 7 1 none).1
    (extrap_linear_forward 3 (1/4) 1 7 1 none).2 (1/4) 1 = 3 :=
  interp_extrap_roundtrip_linear_forward 3 (1/4) 1 7 1 none (by norm_num) (by norm_num)
example : (extrap_linear_forward 3 (1/4) 1 7 1 none) = (1, 9) := by
  simp only [extrap_linear_forward]; norm_num
example : min (2:ℝ) 6 ≤ interp_linear 2 6 (1/4) 1 ∧ interp_linear 2 6 (1/4) 1 ≤ max 2 6 :=
  linear_between 2 6 (1/4) 1 (by norm_num) (by norm_num) (by norm_num)

end InfernoVerif.Interp.R

/-! # 2. Distributions -/
namespace InfernoVerif.Dist.R
open ProbabilityTheory MeasureTheory NNReal Nat

/-! ## Normal -/

theorem Normal.pdf_pos (x μ : ℝ) {σ : ℝ} (hσ : 0 < σ) : 0 < Normal.pdf x μ σ := by
  unfold Normal.pdf
  have : 0 < sqrt tau := Real.sqrt_pos.mpr (by unfold tau; positivity)
  positivity

/-- The code's density is Mathlib's Gaussian density with mean `μ` and variance `σ²`. -/
theorem Normal.pdf_eq_gaussianPDFReal (x μ : ℝ) {σ : ℝ} (hσ : 0 < σ) :
    Normal.pdf x μ σ = gaussianPDFReal μ (varNN σ) x := by
  unfold Normal.pdf gaussianPDFReal
  simp only [coe_varNN, sqrt, tau, exp, pow2]
  have h1 : √(2 * Real.pi * σ ^ 2) = σ * √(2 * Real.pi) := by
    rw [Real.sqrt_mul (by positivity), Real.sqrt_sq hσ.le, mul_comm]
  rw [h1, one_div]
  congr 2
  field_simp
  ring

/-- `exp (logpdf) = pdf` (`σ > 0` makes the density positive, so `log` is not totalised). -/
theorem Normal.exp_logpdf (x μ : ℝ) {σ : ℝ} (hσ : 0 < σ) :
    exp (Normal.logpdf x μ σ) = Normal.pdf x μ σ := by
  unfold Normal.logpdf
  exact Real.exp_log (Normal.pdf_pos x μ hσ)

theorem Normal.integrable_pdf (μ : ℝ) {σ : ℝ} (hσ : 0 < σ) :
    Integrable (fun x => Normal.pdf x μ σ) := by
  simp_rw [Normal.pdf_eq_gaussianPDFReal _ μ hσ]
  exact integrable_gaussianPDFReal μ (varNN σ)

/-- The density integrates to one. -/
theorem Normal.integral_pdf (μ : ℝ) {σ : ℝ} (hσ : 0 < σ) : ∫ x, Normal.pdf x μ σ = 1 := by
  simp_rw [Normal.pdf_eq_gaussianPDFReal _ μ hσ]
  exact integral_gaussianPDFReal_eq_one μ (varNN_ne_zero hσ)

/-- The stated mean is the density's first moment (and the integrand is integrable). -/
theorem Normal.integral_mean (μ : ℝ) {σ : ℝ} (hσ : 0 < σ) :
    Integrable (fun x => x * Normal.pdf x μ σ) ∧ ∫ x, x * Normal.pdf x μ σ = Normal.mean μ := by
  simp_rw [Normal.pdf_eq_gaussianPDFReal _ μ hσ]
  refine ⟨integrable_id_mul μ (varNN_ne_zero hσ), ?_⟩
  have := integral_gaussianReal_eq_integral_smul (μ := μ) (f := fun x => x) (varNN_ne_zero hσ)
  rw [integral_id_gaussianReal] at this
  simp only [smul_eq_mul] at this
  rw [Normal.mean]
  calc ∫ x, x * gaussianPDFReal μ (varNN σ) x = ∫ x, gaussianPDFReal μ (varNN σ) x * x := by
        congr 1; funext x; ring
    _ = μ := this.symm

/-- The stated variance is the density's second central moment. -/
theorem Normal.integral_variance (μ : ℝ) {σ : ℝ} (hσ : 0 < σ) :
    Integrable (fun x => (x - Normal.mean μ) ^ 2 * Normal.pdf x μ σ) ∧
    ∫ x, (x - Normal.mean μ) ^ 2 * Normal.pdf x μ σ = Normal.variance σ := by
  simp_rw [Normal.pdf_eq_gaussianPDFReal _ μ hσ]
  refine ⟨integrable_sq_mul μ (varNN_ne_zero hσ), ?_⟩
  have hv : Var[fun x => x; gaussianReal μ (varNN σ)] = varNN σ := variance_fun_id_gaussianReal
  rw [variance_eq_integral measurable_id'.aemeasurable, integral_id_gaussianReal,
    integral_gaussianReal_eq_integral_smul (varNN_ne_zero hσ)] at hv
  simp only [smul_eq_mul, coe_varNN] at hv
  rw [Normal.mean, Normal.variance, pow2, ← hv]
  congr 1; funext x; ring

/-- `logcdf = log cdf` (for every interpretation of `erf`). -/
theorem Normal.logcdf_eq (S : Special) (x μ σ : ℝ) :
    Normal.logcdf S x μ σ = Real.log (Normal.cdf S x μ σ) := rfl

/-- `params_mv` round trip: mean. -/
theorem Normal.params_mv_mean (m v : ℝ) : Normal.mean (Normal.params_mv m v).1 = m := rfl

/-- `params_mv` round trip: variance (`v ≥ 0`, else `sqrt` is totalised to 0). -/
theorem Normal.params_mv_variance (m : ℝ) {v : ℝ} (hv : 0 ≤ v) :
    Normal.variance (Normal.params_mv m v).2 = v := by
  simp only [Normal.variance, Normal.params_mv, pow2, sqrt]
  exact Real.sq_sqrt hv

-- FULL STATEMENT (proved in Props/C20Int.lean): the CDF is the integral of the density
--   theorem Normal.cdf_eq_integral (x μ : ℝ) {σ : ℝ} (hσ : 0 < σ) :
--       Normal.cdf realSpecial x μ σ = ∫ t in Set.Iic x, Normal.pdf t μ σ
-- (also run numerically on the real code: sub-claim `Normal.cdf=∫pdf`.)

/-! ## Poisson -/

/-- `exp (logpmf k λ) = e^{−λ} λ^k / k!` for every count `k` and positive rate, with
`lgamma = log ∘ |Γ|` (`Γ (k+1) = k!`).  For `λ = 0`, `k > 0` the real code returns
`exp(−∞) = 0`; Lean's `Real.log 0 = 0` cannot express that, so the rate-0 case is stated
separately for `k = 0` (`Poisson.pmf_zero_zero`) and run on the real code for `k > 0`. -/
theorem Poisson.exp_logpmf (k : ℕ) {r : ℝ} (hr : 0 < r) :
    exp (Poisson.logpmf realSpecial (k : ℝ) r) = Real.exp (-r) * r ^ k / (k ! : ℝ) := by
  unfold Poisson.logpmf
  rw [lgamma_nat, xlogy_nat]
  simp only [exp]
  have hk : (0 : ℝ) < (k ! : ℝ) := by positivity
  rw [Real.exp_sub, Real.exp_sub, Real.exp_log hk, Real.exp_nat_mul, Real.exp_log hr, Real.exp_neg]
  field_simp

/-- `pmf = exp logpmf` by definition, hence the closed form. -/
theorem Poisson.pmf_eq (k : ℕ) {r : ℝ} (hr : 0 < r) :
    Poisson.pmf realSpecial (k : ℝ) r = Real.exp (-r) * r ^ k / (k ! : ℝ) :=
  Poisson.exp_logpmf k hr

/-- The degenerate distribution the code declares valid: rate 0 puts all mass on `k = 0`. -/
theorem Poisson.pmf_zero_zero : Poisson.pmf realSpecial 0 0 = 1 := by
  have := lgamma_nat 0
  simp only [Nat.cast_zero, zero_add, Nat.factorial_zero, Nat.cast_one, Real.log_one] at this
  simp [Poisson.pmf, Poisson.logpmf, xlogy, eqz, this]

/-- The point probabilities sum to one. -/
theorem Poisson.pmf_hasSum {r : ℝ} (hr : 0 < r) :
    HasSum (fun k : ℕ => Poisson.pmf realSpecial (k : ℝ) r) 1 := by
  simp_rw [Poisson.pmf_eq _ hr]
  exact hasSum_one_poissonMeasure ⟨r, hr.le⟩

/-- The stated mean is the first moment of the pmf. -/
theorem Poisson.mean_hasSum {r : ℝ} (hr : 0 < r) :
    HasSum (fun k : ℕ => (k : ℝ) * Poisson.pmf realSpecial (k : ℝ) r) (Poisson.mean r) := by
  simp_rw [Poisson.pmf_eq _ hr]
  exact poi_first_moment hr.le

/-- The stated variance is the second central moment of the pmf. -/
theorem Poisson.variance_hasSum {r : ℝ} (hr : 0 < r) :
    HasSum (fun k : ℕ => ((k : ℝ) - Poisson.mean r) ^ 2 * Poisson.pmf realSpecial (k : ℝ) r)
      (Poisson.variance r) := by
  simp_rw [Poisson.pmf_eq _ hr]
  exact poi_variance hr.le

/-- `logcdf = log cdf` (for every interpretation of `gammaincc`). -/
theorem Poisson.logcdf_eq (S : Special) (k r : ℝ) :
    Poisson.logcdf S k r = Real.log (Poisson.cdf S k r) := rfl

-- FULL STATEMENT (proved in Props/C20Int.lean): the CDF is the partial sum of the pmf
--   theorem Poisson.cdf_eq_sum (k : ℕ) {r : ℝ} (hr : 0 < r) :
--       Poisson.cdf realSpecial (k : ℝ) r = ∑ j ∈ Finset.range (k + 1), Poisson.pmf realSpecial (j : ℝ) r
-- (also run numerically on the real code: sub-claim `Poisson.cdf=Σpmf`.)

/-! ## LogNormal -/

/-- `pdf x = gaussianPDFReal μ σ² (log x) / x` on the support `x > 0`. -/
theorem LogNormal.pdf_eq_gaussianPDFReal {x : ℝ} (hx : 0 < x) (μ : ℝ) {σ : ℝ} (hσ : 0 < σ) :
    LogNormal.pdf x μ σ = gaussianPDFReal μ (varNN σ) (Real.log x) / x := by
  unfold LogNormal.pdf LogNormal.logpdf gaussianPDFReal
  simp only [coe_varNN, tau, exp, pow2, log]
  have h1 : √(2 * Real.pi * σ ^ 2) = σ * √(2 * Real.pi) := by
    rw [Real.sqrt_mul (by positivity), Real.sqrt_sq hσ.le, mul_comm]
  have h2 : -Real.log σ - Real.log x - 0.5 * (Real.log (2 * Real.pi) + ((μ - Real.log x) / σ) ^ 2)
      = -Real.log σ + (-Real.log x + (-(0.5 * Real.log (2 * Real.pi))
          + -(Real.log x - μ) ^ 2 / (2 * σ ^ 2))) := by
    field_simp
    ring
  rw [h1, h2, Real.exp_add, Real.exp_add, Real.exp_add, Real.exp_neg, Real.exp_neg, Real.exp_log hσ,
    Real.exp_log hx, exp_neg_half_log (by positivity)]
  field_simp

/-- `exp (logpdf) = pdf` (the code defines `pdf` that way). -/
theorem LogNormal.exp_logpdf (x μ σ : ℝ) : exp (LogNormal.logpdf x μ σ) = LogNormal.pdf x μ σ := rfl

/-- `cdf x = Normal.cdf (log x)`. -/
theorem LogNormal.cdf_eq (S : Special) (x μ σ : ℝ) :
    LogNormal.cdf S x μ σ = Normal.cdf S (Real.log x) μ σ := rfl

/-- `logcdf = log cdf` (D24: the original called `logcdf` from itself and never returned). -/
theorem LogNormal.logcdf_eq (S : Special) (x μ σ : ℝ) :
    LogNormal.logcdf S x μ σ = Real.log (LogNormal.cdf S x μ σ) := rfl

/-- `params_mv` round trip: mean.  Needs `m > 0` (for `m < 0` the result is `|m|`) and `v ≥ 0`. -/
theorem LogNormal.params_mv_mean {m : ℝ} (hm : 0 < m) {v : ℝ} (hv : 0 ≤ v) :
    LogNormal.mean (LogNormal.params_mv m v).1 (LogNormal.params_mv m v).2 = m := by
  simp only [LogNormal.mean, LogNormal.params_mv, pow2, sqrt, log, exp]
  have hm2 : 0 < m ^ 2 := by positivity
  have hs : 0 < m ^ 2 + v := by positivity
  have hl : 0 ≤ Real.log (1 + v / m ^ 2) := Real.log_nonneg (le_add_of_nonneg_right (by positivity))
  rw [Real.sq_sqrt hl, Real.exp_add, Real.exp_log (by positivity)]
  have h3 : Real.exp (Real.log (1 + v / m ^ 2) / 2) = √(1 + v / m ^ 2) := by
    rw [Real.sqrt_eq_rpow, Real.rpow_def_of_pos (by positivity)]
    congr 1; ring
  rw [h3]
  have h4 : 1 + v / m ^ 2 = (m ^ 2 + v) / m ^ 2 := by field_simp
  rw [h4, Real.sqrt_div hs.le, Real.sqrt_sq hm.le]
  have : 0 < √(m ^ 2 + v) := Real.sqrt_pos.mpr hs
  field_simp

/-- `params_mv` round trip: variance (with `expm1 x = eˣ − 1`). -/
theorem LogNormal.params_mv_variance {m : ℝ} (hm : 0 < m) {v : ℝ} (hv : 0 ≤ v) :
    LogNormal.variance realSpecial (LogNormal.params_mv m v).1 (LogNormal.params_mv m v).2 = v := by
  simp only [LogNormal.variance, LogNormal.params_mv, pow2, sqrt, log, exp, realSpecial]
  have hm2 : 0 < m ^ 2 := by positivity
  have hs : 0 < m ^ 2 + v := by positivity
  have hq : 0 < 1 + v / m ^ 2 := by positivity
  have hl : 0 ≤ Real.log (1 + v / m ^ 2) := Real.log_nonneg (le_add_of_nonneg_right (by positivity))
  have hsq : 0 < √(m ^ 2 + v) := Real.sqrt_pos.mpr hs
  rw [Real.sq_sqrt hl, Real.exp_log hq, Real.exp_add, two_mul, Real.exp_add,
    Real.exp_log (by positivity), Real.exp_log hq]
  have : √(m ^ 2 + v) * √(m ^ 2 + v) = m ^ 2 + v := Real.mul_self_sqrt hs.le
  field_simp
  nlinarith [this]

/-- For a negative target mean the mean round trip fails: the guard `m > 0` is necessary. -/
theorem LogNormal.params_mv_mean_fails_neg :
    LogNormal.mean (LogNormal.params_mv (-1) 0).1 (LogNormal.params_mv (-1) 0).2 ≠ -1 := by
  simp only [LogNormal.mean, exp]
  have := Real.exp_pos ((LogNormal.params_mv (-1) 0).1 + pow2 (LogNormal.params_mv (-1) 0).2 / 2)
  linarith

-- FULL STATEMENT (proved in Props/C20Int.lean): LogNormal CDF and moments by integration
--   theorem LogNormal.cdf_eq_integral {x : ℝ} (hx : 0 < x) (μ : ℝ) {σ : ℝ} (hσ : 0 < σ) :
--       LogNormal.cdf realSpecial x μ σ = ∫ t in Set.Ioc 0 x, LogNormal.pdf t μ σ
--   theorem LogNormal.integral_pdf (μ : ℝ) {σ : ℝ} (hσ : 0 < σ) :
--       ∫ x in Set.Ioi 0, LogNormal.pdf x μ σ = 1
--   theorem LogNormal.integral_mean (μ : ℝ) {σ : ℝ} (hσ : 0 < σ) :
--       ∫ x in Set.Ioi 0, x * LogNormal.pdf x μ σ = LogNormal.mean μ σ
--   theorem LogNormal.integral_variance (μ : ℝ) {σ : ℝ} (hσ : 0 < σ) :
--       ∫ x in Set.Ioi 0, (x - LogNormal.mean μ σ) ^ 2 * LogNormal.pdf x μ σ
--         = LogNormal.variance realSpecial μ σ
-- (also run numerically on the real code:
--  sub-claims `LogNormal.cdf=∫pdf`, `LogNormal.∫pdf=1`, `LogNormal.mean=∫x·pdf`,
--  `LogNormal.variance=∫(x−mean)²·pdf`.)

-- non-vacuity: σ = 2, λ = 3/2, m = 3, v = 5 satisfy the hypotheses
example : ∫ x, Normal.pdf x 1 2 = 1 := Normal.integral_pdf 1 (by norm_num)
example : HasSum (fun k : ℕ => Poisson.pmf realSpecial (k : ℝ) (3/2)) 1 := Poisson.pmf_hasSum (by norm_num)
example : LogNormal.mean (LogNormal.params_mv 3 5).1 (LogNormal.params_mv 3 5).2 = 3 :=
  LogNormal.params_mv_mean (by norm_num) (by norm_num)

end InfernoVerif.Dist.R

/-! # 3. Inter-spike intervals -/
namespace InfernoVerif.Isi

theorem specIsiLast_row_length (spikes : List (List Bool)) (dt : Rat) :
    ∀ r ∈ specIsiLast spikes dt, r.length = specWidth spikes dt := by
  intro r hr
  obtain ⟨row, hrow, rfl⟩ := List.mem_map.mp hr
  have hle : (spikeTimes row dt).length ≤ maxLen (spikes.map fun r => spikeTimes r dt) :=
    maxLen_le _ _ (List.mem_map.mpr ⟨row, hrow, rfl⟩)
  simp only [List.length_append, List.length_map, List.length_replicate, diffs_length, specWidth]
  omega

theorem maxLen_of_const {α : Type} (l : List (List α)) (w : Nat) (hne : l ≠ [])
    (h : ∀ r ∈ l, r.length = w) : maxLen l = w := by
  induction l with
  | nil => exact absurd rfl hne
  | cons a l ih =>
    have ha := h a (by simp)
    cases l with
    | nil => simp [maxLen, ha]
    | cons b l =>
      have := ih (by simp) (fun r hr => h r (by simp [hr]))
      simp only [maxLen] at this ⊢
      omega

/-- REFINEMENT, time-last: the statement-by-statement model of `isi` (pad, `nonzero`, split at the
pads, `(nz − 1)·dt`, `pad_sequence`, drop the pad column, `diff`) returns, for every raster with at
least one train, each train's successive spike-time differences followed by `none` (NaN) up to
the widest train's interval count. -/
theorem isi_refines_time_last (spikes : List (List Bool)) (hne : spikes ≠ []) (dt : Rat) (n : Nat) :
    isi n spikes dt false = specIsi n spikes dt false := by
  cases spikes with
  | nil => exact absurd rfl hne
  | cons row rows => simp [isi, specIsi, isiLast_eq_spec]

/-- REFINEMENT, time-first (`n ≥ 1` trains): transpose in, the same computation, transpose out. -/
theorem isi_refines_time_first (spikes : List (List Bool)) (dt : Rat) (n : Nat) (hn : 0 < n) :
    isi n spikes dt true = specIsi n spikes dt true := by
  have hne : transposeN n spikes ≠ [] := by
    simp only [transposeN, ne_eq, List.map_eq_nil_iff, List.range_eq_nil]; omega
  obtain ⟨row, rows, hrr⟩ := List.exists_cons_of_ne_nil hne
  simp only [isi, specIsi, if_true]
  rw [hrr, isiLast_eq_spec, ← hrr]
  rw [maxLen_of_const _ (specWidth (transposeN n spikes) dt)
    (by rw [hrr]; simp [specIsiLast]) (specIsiLast_row_length _ _)]

/-- RE-INTEGRATION: for train `i` with spike times `t₀ :: ts`, row `i` of the output is a list of
intervals `ds` followed by NaN padding only, and summing `ds` up from `t₀` gives back exactly the
spike times `t₀ :: ts`. -/
theorem isi_reintegrate (spikes : List (List Bool)) (hne : spikes ≠ []) (dt : Rat)
    (i : Nat) (hi : i < spikes.length) (t0 : Rat) (ts : List Rat)
    (ht : spikeTimes spikes[i] dt = t0 :: ts) :
    ∃ ds pad, (isiLast spikes dt)[i]? = some (ds.map some ++ List.replicate pad none) ∧
      integrate t0 ds = t0 :: ts := by
  cases spikes with
  | nil => exact absurd rfl hne
  | cons row rows =>
    rw [isiLast_eq_spec]
    refine ⟨diffs (t0 :: ts), specWidth (row :: rows) dt - (diffs (t0 :: ts)).length, ?_, integrate_diffs t0 ts⟩
    unfold specIsiLast
    rw [List.getElem?_map, List.getElem?_eq_getElem hi]
    simp only [Option.map_some, ht]

/-- A train with at most one spike contributes NaN only … -/
theorem isi_row_no_interval (spikes : List (List Bool)) (hne : spikes ≠ []) (dt : Rat)
    (i : Nat) (hi : i < spikes.length) (h1 : (spikeTimes spikes[i] dt).length ≤ 1) :
    (isiLast spikes dt)[i]? = some (List.replicate (specWidth spikes dt) none) := by
  cases spikes with
  | nil => exact absurd rfl hne
  | cons row rows =>
    rw [isiLast_eq_spec]
    unfold specIsiLast
    rw [List.getElem?_map, List.getElem?_eq_getElem hi]
    have : diffs (spikeTimes (row :: rows)[i] dt) = [] := by
      have := diffs_length (spikeTimes (row :: rows)[i] dt)
      exact List.length_eq_zero_iff.mp (by omega)
    simp [this]

/-- … and when every train has at most one spike (in particular: empty trains) the result has a
time dimension of zero. -/
theorem isi_no_interval (spikes : List (List Bool)) (hne : spikes ≠ []) (dt : Rat)
    (h1 : ∀ row ∈ spikes, (spikeTimes row dt).length ≤ 1) :
    ∀ r ∈ isiLast spikes dt, r = [] := by
  cases spikes with
  | nil => exact absurd rfl hne
  | cons row rows =>
    rw [isiLast_eq_spec]
    intro r hr
    have hw : specWidth (row :: rows) dt = 0 := by
      have : ∀ (l : List (List Bool)), (∀ r ∈ l, (spikeTimes r dt).length ≤ 1) →
          maxLen (l.map fun r => spikeTimes r dt) ≤ 1 := by
        intro l hl
        induction l with
        | nil => simp [maxLen]
        | cons a l ih =>
          have ha := hl a (by simp)
          have := ih (fun r hr => hl r (by simp [hr]))
          simp only [List.map_cons, maxLen]
          omega
      have := this (row :: rows) h1
      unfold specWidth; omega
    have := specIsiLast_row_length (row :: rows) dt r hr
    rw [hw] at this
    exact List.length_eq_zero_iff.mp this

/-- The number of spike times is the number of `true` entries (so "≤ 1 spike" above is literal). -/
theorem spikeTimes_length (row : List Bool) (dt : Rat) : (spikeTimes row dt).length = row.count true := by
  unfold spikeTimes
  generalize 0 = off
  induction row generalizing off with
  | nil => simp [spikeTimesFrom]
  | cons b bs ih => cases b <;> simp [spikeTimesFrom, ih]

-- non-vacuity: two trains, three and one spike(s), dt = 1/2
example : spikeTimes [true, false, true, true] (1/2) = [0, 1, 3/2] := by
  simp [spikeTimes, spikeTimesFrom]; norm_num
example : integrate 0 [1, 1/2] = [0, 1, 3/2] := by
  simp [integrate]; norm_num
example : isiLast [[true, false, true, true], [false, true, false, false]] (1/2)
    = [[some 1, some (1/2)], [none, none]] := by
  rw [isiLast_eq_spec]
  simp [specIsiLast, specWidth, spikeTimes, spikeTimesFrom, diffs, maxLen]
  norm_num
example : ∃ ds pad, (isiLast [[true, false, true, true], [false, true, false, false]] (1/2))[0]?
      = some (ds.map some ++ List.replicate pad none) ∧ integrate 0 ds = [0, 1, 3/2] :=
  isi_reintegrate _ (by simp) _ 0 (by simp) 0 [1, 3/2] (by simp [spikeTimes, spikeTimesFrom]; norm_num)

end InfernoVerif.Isi

/-! # 4. Victor–Purpura distance -/
namespace InfernoVerif.VP

/-- All three branches of `victor_purpura_pair_dist` (Python-float cost 0, Python-float cost `inf`,
the grid filled by the two loops) return the value of the recurrence on the reversed trains; in
particular passing the cost as a float or as a tensor gives the same distance. -/
theorem vp_eq_recurrence (t0 t1 : List Rat) (cost : Cost) (tensor : Bool) :
    victor_purpura_pair_dist t0 t1 cost tensor = vpRec cost t0.reverse t1.reverse :=
  victor_purpura_pair_dist_eq_vpRec t0 t1 cost tensor

theorem vp_float_eq_tensor (t0 t1 : List Rat) (cost : Cost) :
    victor_purpura_pair_dist t0 t1 cost false = victor_purpura_pair_dist t0 t1 cost true := by
  rw [vp_eq_recurrence, vp_eq_recurrence]

theorem vp_nonneg (a b : List Rat) {q : Cost} (hq : q.Nonneg) (t : Bool) :
    0 ≤ victor_purpura_pair_dist a b q t := by
  rw [vp_eq_recurrence]; exact vpRec_nonneg hq _ _

theorem vp_symm (a b : List Rat) (q : Cost) (t : Bool) :
    victor_purpura_pair_dist a b q t = victor_purpura_pair_dist b a q t := by
  rw [vp_eq_recurrence, vp_eq_recurrence]; exact vpRec_symm _ _ _

/-- `d(a, a) = 0` for every finite cost `q ≥ 0`. (At `q = ∞` the function, as documented,
returns the total spike count — `vp_self_top`.) -/
theorem vp_self_zero (a : List Rat) {q : Rat} (hq : 0 ≤ q) (t : Bool) :
    victor_purpura_pair_dist a a (.fin q) t = 0 := by
  rw [vp_eq_recurrence]; exact vpRec_self hq _

/-- Identity of indiscernibles for positive finite cost. -/
theorem vp_eq_zero_iff (a b : List Rat) {q : Rat} (hq : 0 < q) (t : Bool) :
    victor_purpura_pair_dist a b (.fin q) t = 0 ↔ a = b := by
  constructor
  · intro h
    rw [vp_eq_recurrence] at h
    exact List.reverse_injective (vpRec_eq_zero hq _ _ h)
  · rintro rfl; exact vp_self_zero a hq.le t

/-- The documented cost limits bound the distance: `|n − m| ≤ d ≤ n + m`. -/
theorem vp_bounds (a b : List Rat) {q : Cost} (hq : q.Nonneg) (t : Bool) :
    absQ ((a.length : Rat) - (b.length : Rat)) ≤ victor_purpura_pair_dist a b q t ∧
    victor_purpura_pair_dist a b q t ≤ (a.length : Rat) + (b.length : Rat) := by
  rw [vp_eq_recurrence]
  have h1 := vpRec_lower hq a.reverse b.reverse
  have h2 := vpRec_upper q a.reverse b.reverse
  simp only [List.length_reverse] at h1 h2
  exact ⟨h1, h2⟩

/-- Cost 0: the difference of the spike counts (both the early return and the grid). -/
theorem vp_cost_zero (a b : List Rat) (t : Bool) :
    victor_purpura_pair_dist a b (.fin 0) t = absQ ((a.length : Rat) - (b.length : Rat)) := by
  rw [vp_eq_recurrence, vpRec_cost_zero]; simp

/-- Cost ∞: the total spike count (both the early return and the grid, where
`inf · 0 = nan ↦ inf` removes the shift candidate even for coincident spikes). -/
theorem vp_cost_top (a b : List Rat) (t : Bool) :
    victor_purpura_pair_dist a b .top t = (a.length : Rat) + (b.length : Rat) := by
  rw [vp_eq_recurrence, vpRec_cost_top]; simp

/-- Triangle inequality for every cost in `[0, ∞]`. -/
theorem vp_triangle (a b c : List Rat) {q : Cost} (hq : q.Nonneg) (t : Bool) :
    victor_purpura_pair_dist a c q t ≤
      victor_purpura_pair_dist a b q t + victor_purpura_pair_dist b c q t := by
  rw [vp_eq_recurrence, vp_eq_recurrence, vp_eq_recurrence]
  exact vpRec_triangle hq _ _ _

/-- The documented convention at `q = ∞`: `d(a, a) = 2·|a|`, so `d(a,a) = 0` fails there for
every non-empty train (the docstring's warning; not a defect of the dynamic programme). -/
theorem vp_self_top (a : List Rat) (t : Bool) :
    victor_purpura_pair_dist a a .top t = 2 * (a.length : Rat) := by
  rw [vp_cost_top]; ring

-- non-vacuity / concrete values (the real function returns 1.25 and 5.0 on these inputs)
example : victor_purpura_pair_dist [1/2, 1, 2] [1/2, 3/2] (.fin (1/2)) true = 5/4 := by
  simp [victor_purpura_pair_dist, vpGrid, rowsFrom, nextRow, rowStep, firstRow, min3, minQ, shiftCost, absQ,
    List.range, List.range.loop]
  norm_num
example : (Cost.fin (1/2)).Nonneg := by unfold Cost.Nonneg; norm_num
example : Cost.top.Nonneg := trivial

end InfernoVerif.VP
