import InfernoVerif.Lemmas.Select
import InfernoVerif.Gen.SelectSitesR
/-!
# Glue: the time arithmetic of the `select` model IS the arithmetic in `RecordTensor.select`

`Gen/SelectSitesR.lean` is regenerated on every run from `RecordTensor.select` in
`core/infrastructure.py` by site extraction: the two range tests (scalar and tensor time), `shift`,
`shiftr`, the snap-to-grid `where`, the on-grid test of the scalar branch, the `sample_at` argument
`dt - dt * (shift % 1)` handed to the interpolation kernel (both branches), and the tensor branch's
"exact overwrite" `where(prev_idx == next_idx, prev_data, res)`.  The theorems state that the functions
of `Model/Select.lean` at the real instance `realOps` — about which `Props/C02.lean` proves the
on-grid / off-grid laws and the scalar = tensor equivalence — are those expressions.  `<` for `<=` in a
range test, `floor` for `round`, a dropped tolerance or a changed `sample_at` changes the generated
text and the corresponding theorem stops checking.
-/
namespace InfernoVerif.Select.Glue
open InfernoVerif.Select InfernoVerif.Gen
open Classical

/-- the generated round-half-to-even is the one the real instance uses -/
theorem gen_round (x : ℝ) : Gen.roundHalfEven x = rhe x := rfl

/-- range test, scalar time: the model's `inRange` is the negation of the source's `if` condition -/
theorem gen_inRange_scalar (n : ℕ) (dt tol t : ℝ) :
    inRange realOps n dt tol t = true ↔ ¬ SelectSitesR.sel_s_out_of_range t tol dt (n : ℤ) := by
  unfold inRange SelectSitesR.sel_s_out_of_range
  simp [realOps, not_or]

/-- range test, tensor time: the same condition on the extreme elements -/
theorem gen_range_tensor (tmin tmax tol dt : ℝ) (n : ℤ) :
    SelectSitesR.sel_t_out_of_range tmin tmax tol dt n ↔
      (tmin < -tol ∨ tmax > dt * (((n - 1 : ℤ)) : ℝ) + tol) := Iff.rfl

/-- `shift = time / dt` (both branches) -/
theorem gen_shift_raw (t dt : ℝ) :
    SelectSitesR.sel_s_shift t dt = realOps.div t dt ∧ SelectSitesR.sel_t_shift_raw t dt = realOps.div t dt :=
  ⟨rfl, rfl⟩

/-- scalar branch: `abs(dt * round(shift) - time) <= tolerance` -/
theorem gen_onGrid (dt tol t : ℝ) :
    onGrid realOps dt tol t = true ↔ SelectSitesR.sel_s_on_grid dt (t / dt) t tol := by
  unfold onGrid SelectSitesR.sel_s_on_grid
  simp [realOps, gen_round]

/-- tensor branch: `shiftr = shift.round()`, then `where(|dt * shiftr - time| <= tol, shiftr, shift)` -/
theorem gen_shiftOf (dt tol t : ℝ) :
    shiftOf realOps dt tol t =
      SelectSitesR.sel_t_shift dt (SelectSitesR.sel_t_shiftr (SelectSitesR.sel_t_shift_raw t dt)) t tol
        (SelectSitesR.sel_t_shift_raw t dt) := by
  unfold shiftOf onGrid SelectSitesR.sel_t_shift SelectSitesR.sel_t_shiftr SelectSitesR.sel_t_shift_raw
  simp only [realOps, gen_round, decide_eq_true_eq]
  split_ifs with h
  · exact (if_pos h).symm
  · exact (if_neg h).symm

/-- `sample_at = dt - dt * (shift % 1)`, both branches -/
theorem gen_sampleAt (dt shift : ℝ) :
    sampleAt realOps dt shift = SelectSitesR.sel_s_sample_at dt shift ∧
    sampleAt realOps dt shift = SelectSitesR.sel_t_sample_at dt shift := by
  unfold sampleAt mod1 SelectSitesR.sel_s_sample_at SelectSitesR.sel_t_sample_at
  simp [realOps]

/-- tensor branch: where the two bracketing indices coincide the stored value replaces the interpolant -/
theorem gen_exact_overwrite (p n d r : ℝ) :
    SelectSitesR.sel_t_exact_overwrite p n d r = if p = n then d else r := rfl

end InfernoVerif.Select.Glue
