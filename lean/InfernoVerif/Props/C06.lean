import InfernoVerif.Lemmas.Delay
/-!
# C06 — A connection delay is a pure per-synapse time shift

Property theorems only (definitions in `Model/Delay.lean` on top of `Model/Synapse.lean`, helper
lemmas in `Lemmas/Delay.lean`).  Composition of C01 (ring buffer, `pushes_then_read`), C02
(`select` on the grid reads a stored slot), C04 (`current_at_grid`, `spike_at_grid`,
`current_at_between_*`) with the `selector` construction and the `einsum` of each connection's
delayed `forward` branch.  The theorems are about the model instantiated at `ℝ`; `drivers/C06.lean`
executes the same definitions over `Float`, `harness/corr/c06.py` compares them with the real
connections after every step and, independently, with an undelayed twin shifted by the harness.

Notation: `x e : ℕ → ℝ` is the input (spike train) of synapse element `e`; `Reach cfg x T E st` says
`st e` is element `e`'s state after `T` steps from construction (by `clear_restores_init`: from the
last `clear()`); `past cfg (x e) T k` is the current element `e`'s `forward` returned `k` steps
before the latest step — its closed form is C04's `delta_current … double_exp_current` — and `0`
before the start.  `⟨cfg, true⟩` is a connection constructed with a delay (`cfg.delay` = the
supported maximum), `⟨cfg, false⟩` the same connection constructed with `delay=None`.
-/
namespace InfernoVerif.Delay
open InfernoVerif.Ring InfernoVerif.Select InfernoVerif.Synapse
open Classical

/-! ## the delayed output is the undelayed map applied to time-shifted contributions -/

/-- LinearDense (and LinearLateral, whose `forward` / `selector` are LinearDense's, with masked
weights and delays): with per-synapse delays `D[o][i] = k o i · Δt ≤` the supported maximum, output
`o` at the latest step is output `o` of the UNDELAYED map `F.linear(·, W, b)` applied to the vector
of presynaptic contributions taken `k o i` steps in the past (zero before the start). -/
theorem delay_is_shift (cfg : Cfg ℝ) (hv : Valid cfg) (hmax : cfg.delay ≠ 0) (M N : ℕ)
    (W : List (List ℝ)) (b : Option (List ℝ)) (D : List (List ℝ)) (x : ℕ → ℕ → ℝ) (T : ℕ) (st : ℕ → St ℝ)
    (hst : Reach cfg x T M st) (res : List ℝ) (k : ℕ → ℕ → ℕ)
    (hD : ∀ o i, o < N → i < M → (D.getD o []).getD i 0 = (k o i : ℝ) * cfg.dt ∧ (k o i : ℝ) * cfg.dt ≤ cfg.delay) :
    denseForward realSOps ⟨cfg, true⟩ M N W b D ((List.range M).map st) res =
      .ok ((List.range N).map fun o =>
        (linearK realOps N W b ((List.range M).map fun i => past cfg (x i) T (k o i))).getD o 0) := by
  unfold denseForward
  rw [useDelay_true cfg hmax]
  simp only [if_true, selectorDense]
  have hsel : ((List.range M).map fun i => (List.range N).map fun o => (D.getD o []).getD i (realSOps.K.ofInt 0)) =
      (List.range M).map fun i => (List.range N).map ((fun i o => (D.getD o []).getD i (0 : ℝ)) i) := by
    simp [realSOps, realOps]
  rw [hsel, currentAtAll_grid cfg hv x T M N st hst (fun i o => (D.getD o []).getD i 0) (fun i o => k o i)
    (fun i o hi ho => hD o i ho hi), map_ok']
  congr 1
  apply List.map_congr_left
  intro o ho
  have ho' : o < N := List.mem_range.mp ho
  rw [linearK, getD_map_range _ _ _ _ ho', List.map_map]
  congr 2
  apply List.map_congr_left
  intro i _
  simp only [Function.comp]
  rw [show realSOps.K.ofInt 0 = (0 : ℝ) by simp [realSOps, realOps], getD_map_range _ _ _ _ ho']

/-- The same as an explicit sum: `out_o(t) = Σ_i I_i(t - k_{o,i})·W_{o,i} + b_o`. -/
theorem delay_is_shift_sum (cfg : Cfg ℝ) (hv : Valid cfg) (hmax : cfg.delay ≠ 0) (M N : ℕ)
    (W : List (List ℝ)) (hW : ∀ o, o < N → (W.getD o []).length = M) (b : Option (List ℝ)) (D : List (List ℝ))
    (x : ℕ → ℕ → ℝ) (T : ℕ) (st : ℕ → St ℝ) (hst : Reach cfg x T M st) (res : List ℝ) (k : ℕ → ℕ → ℕ)
    (hD : ∀ o i, o < N → i < M → (D.getD o []).getD i 0 = (k o i : ℝ) * cfg.dt ∧ (k o i : ℝ) * cfg.dt ≤ cfg.delay) :
    denseForward realSOps ⟨cfg, true⟩ M N W b D ((List.range M).map st) res =
      .ok ((List.range N).map fun o =>
        ((List.range M).map fun i => past cfg (x i) T (k o i) * (W.getD o []).getD i 0).sum
          + (match b with | none => 0 | some b => b.getD o 0)) := by
  rw [delay_is_shift cfg hv hmax M N W b D x T st hst res k hD]
  congr 1
  apply List.map_congr_left
  intro o ho
  have ho' : o < N := List.mem_range.mp ho
  rw [linearK, getD_map_range _ _ _ _ ho', addBias_real, dotK_real, zipWith_range _ _ _ (hW o ho')]
  rfl

/-- LinearDirect: one synapse per output, so the whole output vector is the undelayed map
`res * weight (+ bias)` applied to the vector of contributions shifted by `k n` steps. -/
theorem delay_is_shift_direct (cfg : Cfg ℝ) (hv : Valid cfg) (hmax : cfg.delay ≠ 0) (N : ℕ)
    (w : List ℝ) (b : Option (List ℝ)) (d : List ℝ) (hd : d.length = N) (x : ℕ → ℕ → ℝ) (T : ℕ) (st : ℕ → St ℝ)
    (hst : Reach cfg x T N st) (res : List ℝ) (k : ℕ → ℕ)
    (hD : ∀ n, n < N → d.getD n 0 = (k n : ℝ) * cfg.dt ∧ (k n : ℝ) * cfg.dt ≤ cfg.delay) :
    directForward realSOps ⟨cfg, true⟩ w b d ((List.range N).map st) res =
      .ok (directK realOps w b ((List.range N).map fun n => past cfg (x n) T (k n))) := by
  unfold directForward
  rw [useDelay_true cfg hmax]
  simp only [if_true, selectorDirect]
  have hsel : d.map (fun v => [v]) = (List.range N).map fun n => (List.range 1).map ((fun n _ => d.getD n 0) n) := by
    conv_lhs => rw [← range_map_getD d, hd]
    simp [List.map_map]
  rw [hsel, currentAtAll_grid cfg hv x T N 1 st hst (fun n _ => d.getD n 0) (fun n _ => k n)
    (fun n _ hn _ => hD n hn), map_ok', List.map_map]
  congr 2

/-- Conv2D: synapse element `(n, l)` is entry `n` of window `l` of the unfolded input; with kernel
delays `Dk[f][n] = k f n · Δt`, output `(f, l)` is the undelayed map `matmul(kernel, ·) (+ bias)`
applied to the window's contributions shifted by `k f n` steps. -/
theorem delay_is_shift_conv (cfg : Cfg ℝ) (hv : Valid cfg) (hmax : cfg.delay ≠ 0) (N L F : ℕ)
    (Wk : List (List ℝ)) (b : Option (List ℝ)) (Dk : List (List ℝ)) (x : ℕ → ℕ → ℝ) (T : ℕ) (st : ℕ → St ℝ)
    (hst : Reach cfg x T (N * L) st) (res : List ℝ) (k : ℕ → ℕ → ℕ)
    (hD : ∀ f n, f < F → n < N → (Dk.getD f []).getD n 0 = (k f n : ℝ) * cfg.dt ∧ (k f n : ℝ) * cfg.dt ≤ cfg.delay) :
    convForward realSOps ⟨cfg, true⟩ N L F Wk b Dk ((List.range (N * L)).map st) res =
      .ok (convK realOps L F Wk b fun f l => (List.range N).map fun nn => past cfg (x (nn * L + l)) T (k f nn)) := by
  unfold convForward
  rw [useDelay_true cfg hmax]
  simp only [if_true, selectorConv]
  have hsel : ((List.range (N * L)).map fun e => (List.range F).map fun f => (Dk.getD f []).getD (e / L) (realSOps.K.ofInt 0)) =
      (List.range (N * L)).map fun e => (List.range F).map ((fun e f => (Dk.getD f []).getD (e / L) (0 : ℝ)) e) := by
    simp [realSOps, realOps]
  have hdiv : ∀ e, e < N * L → e / L < N := fun e he => Nat.div_lt_of_lt_mul (by rwa [Nat.mul_comm] at he)
  rw [hsel, currentAtAll_grid cfg hv x T (N * L) F st hst (fun e f => (Dk.getD f []).getD (e / L) 0) (fun e f => k f (e / L))
    (fun e f he hf => hD f (e / L) hf (hdiv e he)), map_ok']
  unfold convK
  congr 1
  apply List.map_congr_left
  intro f hf
  have hf' : f < F := List.mem_range.mp hf
  apply List.map_congr_left
  intro l hl
  have hl' : l < L := List.mem_range.mp hl
  congr 2
  apply List.map_congr_left
  intro nn hnn
  have hnn' : nn < N := List.mem_range.mp hnn
  rw [show realSOps.K.ofInt 0 = (0 : ℝ) by simp [realSOps, realOps]]
  have hidx := idx_lt nn N L l hnn' hl'
  have : ((List.range (N * L)).map fun e => (List.range F).map fun r => past cfg (x e) T (k r (e / L))).getD (nn * L + l) [] =
      (List.range F).map fun r => past cfg (x (nn * L + l)) T (k r ((nn * L + l) / L)) :=
    getD_map_range _ _ _ _ hidx
  rw [this, getD_map_range _ _ _ _ hf', div_of_lt nn L l hl']

/-! ## a delay of 0 is indistinguishable from no delay -/

/-- All learned delays `0` (supported maximum `> 0`): the delayed branch returns exactly what the
connection constructed WITHOUT delays returns on the same synapse state — `res` being the currents
the synapse step just returned (`stepAll_reach`). -/
theorem delay_zero_eq_undelayed (cfg : Cfg ℝ) (hv : Valid cfg) (hmax : cfg.delay ≠ 0) (M N : ℕ)
    (W : List (List ℝ)) (b : Option (List ℝ)) (D : List (List ℝ)) (x : ℕ → ℕ → ℝ) (T : ℕ) (st : ℕ → St ℝ)
    (hst : Reach cfg x (T + 1) M st) (res : List ℝ)
    (hres : res = (List.range M).map fun i => outSeq cfg (x i) (fun _ => []) T)
    (hD : ∀ o i, o < N → i < M → (D.getD o []).getD i 0 = 0) :
    denseForward realSOps ⟨cfg, true⟩ M N W b D ((List.range M).map st) res =
    denseForward realSOps ⟨cfg, false⟩ M N W b D ((List.range M).map st) res := by
  rw [delay_is_shift cfg hv hmax M N W b D x (T + 1) st hst res (fun _ _ => 0)
    (fun o i ho hi => ⟨by rw [hD o i ho hi]; simp, by simpa using hv.delay_nonneg⟩)]
  unfold denseForward
  rw [useDelay_false_of_none]
  simp only [Bool.false_eq_true, if_false]
  congr 1
  have hp : ((List.range M).map fun i => past cfg (x i) (T + 1) 0) = res := by
    rw [hres]; apply List.map_congr_left; intro i _; simp [past]
  simp only [hp]
  have hl : (linearK realOps N W b res).length = N := by simp [linearK]
  change _ = linearK realOps N W b res
  conv_rhs => rw [← range_map_getD (linearK realOps N W b res), hl]

/-- A supported maximum of `0` (or no `delay_` parameter) takes the undelayed branch whatever the
delay tensor holds. -/
theorem maxdelay_zero_eq_undelayed (cfg : Cfg ℝ) (h0 : cfg.delay = 0) (hd : Bool) (M N : ℕ)
    (W : List (List ℝ)) (b : Option (List ℝ)) (D : List (List ℝ)) (sts : List (St ℝ)) (res : List ℝ) :
    denseForward realSOps ⟨cfg, hd⟩ M N W b D sts res = .ok (linearK realOps N W b res) := by
  unfold denseForward; rw [useDelay_false_of_zero cfg hd h0]; rfl

/-! ## the delay-offset views exposed for learning show the same shifted values -/

/-- `syncurrent` / `synspike` of a delayed connection whose `selector` has entries
`d e r = k e r · Δt` (dense: `r` = output, `d i o = D[o][i]`; direct: one entry; conv: `r` = filter)
are the matrices of time-shifted currents / input spikes — the very matrix the delayed `forward`
contracts with the weights. -/
theorem synview_eq_shift (cfg : Cfg ℝ) (hv : Valid cfg) (hmax : cfg.delay ≠ 0) (x : ℕ → ℕ → ℝ) (T E R : ℕ)
    (st : ℕ → St ℝ) (hst : Reach cfg x T E st) (d : ℕ → ℕ → ℝ) (k : ℕ → ℕ → ℕ) (cur : List ℝ)
    (hd : ∀ e r, e < E → r < R → d e r = (k e r : ℝ) * cfg.dt ∧ (k e r : ℝ) * cfg.dt ≤ cfg.delay) :
    syncurrent realSOps ⟨cfg, true⟩ ((List.range E).map fun e => (List.range R).map (d e)) ((List.range E).map st) cur =
      .ok (.delayed ((List.range E).map fun e => (List.range R).map fun r => past cfg (x e) T (k e r))) ∧
    synspike realSOps ⟨cfg, true⟩ ((List.range E).map fun e => (List.range R).map (d e)) ((List.range E).map st) =
      .ok (.delayed ((List.range E).map fun e => (List.range R).map fun r => pastSpike (x e) T (k e r))) := by
  unfold syncurrent synspike
  rw [useDelay_true cfg hmax]
  simp only [if_true]
  rw [currentAtAll_grid cfg hv x T E R st hst d k hd, spikeAtAll_grid cfg hv x T E R st hst d k hd]
  exact ⟨rfl, rfl⟩

/-- Without delays (`delay=None` or maximum `0`) the views are the present values. -/
theorem synview_undelayed (cfg : Cfg ℝ) (hd : Bool) (h : hd = false ∨ cfg.delay = 0) (sel : List (List ℝ))
    (sts : List (St ℝ)) (cur : List ℝ) :
    syncurrent realSOps ⟨cfg, hd⟩ sel sts cur = .ok (.present cur) := by
  unfold syncurrent
  rcases h with h | h
  · subst h; rw [useDelay_false_of_none]; rfl
  · rw [useDelay_false_of_zero cfg hd h]; rfl

/-! ## delays between grid points read the synapse's interpolated history -/

/-- Single exponential synapse, any selector with entries in `[0, max]` that are NOT within
tolerance of a step: every entry of `syncurrent` is the element's current `⌈d/Δt⌉` steps ago
decayed over the remaining time (C04's `current_at_between_single_exp`; the delta and double
exponential rules are `current_at_between_delta / _deltaplus / _double_exp`, composed the same way
through `currentAtAll_ok`). -/
theorem offgrid_delay_reads_interpolated_history (cfg : Cfg ℝ) (hv : Valid cfg) (hk : cfg.kind = .singleExp)
    (hmax : cfg.delay ≠ 0) (x : ℕ → ℕ → ℝ) (T E R : ℕ) (st : ℕ → St ℝ) (hst : Reach cfg x T E st)
    (d : ℕ → ℕ → ℝ) (cur : List ℝ)
    (hd : ∀ e r, e < E → r < R → 0 ≤ d e r ∧ d e r ≤ cfg.delay ∧ ¬ OnGrid cfg.dt cfg.tol (d e r)) :
    syncurrent realSOps ⟨cfg, true⟩ ((List.range E).map fun e => (List.range R).map (d e)) ((List.range E).map st) cur =
      .ok (.delayed ((List.range E).map fun e => (List.range R).map fun r =>
        past cfg (x e) T ⌈d e r / cfg.dt⌉.toNat * Real.exp (-((⌈d e r / cfg.dt⌉ : ℝ) * cfg.dt - d e r) / cfg.tau))) := by
  unfold syncurrent
  rw [useDelay_true cfg hmax]
  simp only [if_true]
  rw [currentAtAll_ok cfg E R st d
    (fun e r => past cfg (x e) T ⌈d e r / cfg.dt⌉.toNat * Real.exp (-((⌈d e r / cfg.dt⌉ : ℝ) * cfg.dt - d e r) / cfg.tau))]
  · rfl
  · intro e r he hr
    obtain ⟨h0, h1, h2⟩ := hd e r he hr
    exact current_at_between_single_exp cfg hv hk (x e) _ T (st e) (hst e he) (d e r) h0 h1 h2

/-! ## the synapse step of a connection is one `forward` per element -/

/-- `self.synapse(*inputs)` on reachable element states returns the reachable states one step
later and, per element, the current C04 characterises — so `Reach` is what a run of the connection
produces, and `res` in `delay_zero_eq_undelayed` is what the synapse step returned. -/
theorem synapse_step_elementwise (cfg : Cfg ℝ) (x : ℕ → ℕ → ℝ) (T E : ℕ) (st : ℕ → St ℝ) (hst : Reach cfg x T E st) :
    ∃ st' : ℕ → St ℝ, Reach cfg x (T + 1) E st' ∧
      stepAll realSOps cfg ((List.range E).map st) ((List.range E).map fun e => x e T) =
        some ((List.range E).map fun e => (st' e, outSeq cfg (x e) (fun _ => []) T)) := by
  obtain ⟨st', h1, h2⟩ := stepAll_reach cfg x T st (List.range E) (fun e he => hst e (List.mem_range.mp he))
  exact ⟨st', fun e he => h1 e (List.mem_range.mpr he), h2⟩

/-! ## Non-vacuity -/

/-- the freshly constructed connection is a reachable state (T = 0) -/
example (cfg : Cfg ℝ) (x : ℕ → ℕ → ℝ) (E : ℕ) : Reach cfg x 0 E (fun _ => init realSOps cfg) := fun _ _ => rfl
/-- a heterogeneous in-range delay table for `exCfg` (Δt = 1, max 2.5): delays 0, 1, 2 steps -/
example : ∀ o i, o < 1 → i < 3 →
    (([[0, 1, 2]] : List (List ℝ)).getD o []).getD i 0 = ((i : ℕ) : ℝ) * exCfg.dt ∧ ((i : ℕ) : ℝ) * exCfg.dt ≤ exCfg.delay := by
  intro o i ho hi
  have : o = 0 := by omega
  subst this
  rcases (by omega : i = 0 ∨ i = 1 ∨ i = 2) with h | h | h <;> subst h <;> norm_num [exCfg]
example : exCfg.delay ≠ 0 := by norm_num [exCfg]

end InfernoVerif.Delay
