import InfernoVerif.Lemmas.Layer
/-!
# C17 — layers wire components as documented; `clear()` restores the initial state

Property theorems only (definitions in `Model/Layer.lean`, helper lemmas in `Lemmas/Layer.lean`).
Core Lean only.  Every theorem is for ARBITRARY components (`Obj`: any state type, any step
function, any `clear`) and an arbitrary tensor type `τ` with arbitrary transforms / combine.

* `serial_eq`, `serial_run_eq`: a serial layer's output is `neuron(transform(connection(x)))`,
  step after step, components advancing exactly once per step.
* `biclique_eq`: for any number of named connections and neuron groups (distinct names), every
  connection maps its own input and EVERY neuron group `i` receives
  `pre_i(combine{j ↦ post_j(connection_j(x_j))})` — one combination for all groups.
* `recurrent_eq` (induction over steps) with `recurrent_first_step`, `recurrent_feedback_is_previous`:
  the feed-forward neurons are driven by `ffOut(ff(x_t)) + fbOut(fb(fbIn(s_{t-1})))`, `s_{t-1}` the
  feedback group's output of the previous step and `zeros_like` on the first step / after clear.
* `clear_restores_initial`, `replay_after_clear_*`: from EVERY state of ANY layer (any dictionaries
  of components), clearing yields a layer observationally equal to the freshly built twin that
  carries the same parameters, so every continuation produces the same outputs.
The layer returns the neuron outputs unchanged (`serial_eq` etc. name the output as the neuron's
own return value), so "output shape = the neuron group's batched shape" is inherited from the
neuron; the correspondence check compares shapes on the real layers.
-/
namespace InfernoVerif.Layer
variable {ι ο τ : Type}

/-! ## Serial -/

/-- one step of a serial layer: the generic `Layer.forward` with `Serial.wiring` returns
`neuron(transform(connection(*inputs)))`, the connection's raw output as intermediate, and both
components advanced by exactly that one call. -/
theorem serial_eq (S : SerialCfg τ) (c : Conn τ) (n : Neur τ) (xs : List τ) :
    Serial.forward S ⟨[(S.cn, c)], [(S.nn, n)]⟩ xs =
      some (⟨[(S.cn, (c.fwd xs).1)], [(S.nn, (n.fwd (S.trans (c.fwd xs).2)).1)]⟩,
        (n.fwd (S.trans (c.fwd xs).2)).2, (c.fwd xs).2) :=
  serial_forward_eq S c n xs

/-- every run of a serial layer equals the run of the specification. -/
theorem serial_run_eq (S : SerialCfg τ) (c : Conn τ) (n : Neur τ) (xss : List (List τ)) :
    Serial.run S ⟨[(S.cn, c)], [(S.nn, n)]⟩ xss = (serialSpecRun S.trans c n xss).map some := by
  induction xss generalizing c n with
  | nil => rfl
  | cons xs rest ih =>
    simp only [Serial.run, serial_forward_eq, serialSpecRun, List.map_cons]
    rw [ih]

/-! ## Biclique -/

/-- one step of a biclique layer with connections `cnames` and neuron groups `nnames` (distinct
names; one post-input transform per connection, one pre-output transform per group, any combine
function): connection `j` is called on its own input and advanced once; with
`z = combine {cnames_j ↦ post_j(y_j)}`, neuron group `i` is called on `pre_i z` and advanced once;
a failing combine fails the step. -/
theorem biclique_eq (cnames nnames : List String) (hc : cnames.Nodup) (hn : nnames.Nodup)
    (posts pres : List (τ → τ)) (comb : Dict τ → Option τ) (cs : List (Conn τ)) (ns : List (Neur τ))
    (xs : List (List τ)) (h1 : posts.length = cnames.length) (h2 : cs.length = cnames.length)
    (h3 : xs.length = cnames.length) (h4 : pres.length = nnames.length) (h5 : ns.length = nnames.length) :
    Biclique.forward ⟨cnames.zip posts, nnames.zip pres, comb⟩ ⟨cnames.zip cs, nnames.zip ns⟩ (cnames.zip xs) =
      (bicliqueSpec cnames posts comb pres cs ns xs).map fun r =>
        (⟨cnames.zip r.1.1, nnames.zip r.1.2⟩, nnames.zip r.2.1, cnames.zip r.2.2) :=
  biclique_forward_eq cnames nnames hc hn posts pres comb cs ns xs h1 h2 h3 h4 h5

/-- … in particular all neuron groups receive the SAME combination `z`, each through its own
pre-output transform: the list of neuron inputs is `pres.map (· z)`. -/
theorem biclique_groups_share_combination (names : List String) (posts pres : List (τ → τ))
    (comb : Dict τ → Option τ) (cs : List (Conn τ)) (ns : List (Neur τ)) (xs : List (List τ)) (z : τ)
    (hz : comb (names.zip (List.zipWith (fun f y => f y) posts (fwdAll cs xs).2)) = some z) :
    bicliqueSpec names posts comb pres cs ns xs =
      some (((fwdAll cs xs).1, (fwdAll ns (pres.map fun f => f z)).1),
        (fwdAll ns (pres.map fun f => f z)).2, (fwdAll cs xs).2) := by
  simp only [bicliqueSpec, hz]

/-! ## RecurrentSerial -/

/-- one step of a recurrent-serial layer (two generic `Layer.forward` passes, stored feedback
spikes) equals the specification step, for distinct component names and neurons whose `spike`
read-out is the output just emitted. -/
theorem recurrent_step_eq (R : RecCfg τ) (s : RecSpecSt τ)
    (h1 : R.ffc ≠ R.latc) (h2 : R.ffc ≠ R.fbc) (h3 : R.latc ≠ R.fbc) (h4 : R.ffn ≠ R.fbn)
    (pff : s.nff.PeekOK) (pfb : s.nfb.PeekOK) (xs : List τ) :
    Rec.forward R (s.toSt R) xs = some ((recSpecStep R s xs).1.toSt R, (recSpecStep R s xs).2) :=
  rec_forward_eq R s h1 h2 h3 h4 pff pfb xs

/-- **by induction over steps**: every run of the code-shaped layer (from any state: any
components, with or without stored feedback spikes) equals the run of the specification
`ff-neurons(t) ← ffOut(ff(x_t)) + fbOut(fb(fbIn(s_{t−1})))`. -/
theorem recurrent_eq (R : RecCfg τ) (s : RecSpecSt τ)
    (h1 : R.ffc ≠ R.latc) (h2 : R.ffc ≠ R.fbc) (h3 : R.latc ≠ R.fbc) (h4 : R.ffn ≠ R.fbn)
    (pff : s.nff.PeekOK) (pfb : s.nfb.PeekOK) (xss : List (List τ)) :
    Rec.run R (s.toSt R) xss = (recSpecRun R s xss).map some := by
  induction xss generalizing s with
  | nil => rfl
  | cons xs rest ih =>
    simp only [Rec.run, rec_forward_eq R s h1 h2 h3 h4 pff pfb xs, recSpecRun, List.map_cons]
    rw [ih (recSpecStep R s xs).1 pff pfb]

/-- first step (and first step after `clear`): no feedback spikes are stored, the feedback
connection sees `zeros_like(feedback_neuron.spike)`. -/
theorem recurrent_first_step (R : RecCfg τ) (s : RecSpecSt τ) (hp : s.prev = none) (xs : List τ) :
    (recSpecStep R s xs).2.1 =
      (s.nff.fwd (R.add (R.ffOut (s.cff.fwd xs).2)
        (R.fbOut (s.cfb.fwd (R.fbIn (R.zerosLike s.nfb.out))).2))).2 := by
  simp only [recSpecStep, Rec.feedbackIn, hp]

/-- later steps: the feedback connection sees the feedback group's output `o₂` of the previous
step, whatever happened before. -/
theorem recurrent_feedback_is_previous (R : RecCfg τ) (s : RecSpecSt τ) (xs xs' : List τ) :
    let s1 := (recSpecStep R s xs).1
    let o2 := (recSpecStep R s xs).2.2
    s1.prev = some o2 ∧
    (recSpecStep R s1 xs').2.1 =
      (s1.nff.fwd (R.add (R.ffOut (s1.cff.fwd xs').2) (R.fbOut (s1.cfb.fwd (R.fbIn o2)).2))).2 := by
  refine ⟨rfl, ?_⟩
  simp only [recSpecStep, Rec.feedbackIn]

/-! ## clear -/

/-- clearing ANY layer (any dictionaries of connections and neurons, any state) whose components
honour the `clear` contract yields a layer whose every component is observationally equal to that
of the freshly built twin carrying the same parameters; a recurrent layer additionally has no
stored feedback spikes, like a fresh one. -/
theorem clear_restores_initial (L : LayerSt τ) (hc : ∀ kv ∈ L.conns, kv.2.ClearOK)
    (hn : ∀ kv ∈ L.neurs, kv.2.ClearOK) : LayerEquiv (Layer.clear L) (Layer.fresh L) :=
  Layer.clear_equiv_fresh L hc hn

theorem clear_restores_initial_recurrent (S : RecSt τ) (hc : ∀ kv ∈ S.L.conns, kv.2.ClearOK)
    (hn : ∀ kv ∈ S.L.neurs, kv.2.ClearOK) :
    RecEquiv (Rec.clear S) (Rec.fresh S) ∧ (Rec.clear S).feedback = none :=
  ⟨⟨Layer.clear_equiv_fresh S.L hc hn, rfl⟩, rfl⟩

/-- replay after clear, serial: every input sequence gives the same outputs as on the fresh twin. -/
theorem replay_after_clear_serial (C : SerialCfg τ) (L : LayerSt τ) (hc : ∀ kv ∈ L.conns, kv.2.ClearOK)
    (hn : ∀ kv ∈ L.neurs, kv.2.ClearOK) (xss : List (List τ)) :
    Serial.run C (Layer.clear L) xss = Serial.run C (Layer.fresh L) xss :=
  Serial.run_congr C (Layer.clear_equiv_fresh L hc hn) xss

theorem replay_after_clear_biclique (B : BicliqueCfg τ) (L : LayerSt τ) (hc : ∀ kv ∈ L.conns, kv.2.ClearOK)
    (hn : ∀ kv ∈ L.neurs, kv.2.ClearOK) (xss : List (Dict (List τ))) :
    Biclique.run B (Layer.clear L) xss = Biclique.run B (Layer.fresh L) xss :=
  Biclique.run_congr B (Layer.clear_equiv_fresh L hc hn) xss

theorem replay_after_clear_recurrent (R : RecCfg τ) (S : RecSt τ) (hc : ∀ kv ∈ S.L.conns, kv.2.ClearOK)
    (hn : ∀ kv ∈ S.L.neurs, kv.2.ClearOK) (xss : List (List τ)) :
    Rec.run R (Rec.clear S) xss = Rec.run R (Rec.fresh S) xss :=
  Rec.run_congr R (S := Rec.clear S) (S' := Rec.fresh S) ⟨Layer.clear_equiv_fresh S.L hc hn, rfl⟩ xss

/-- clear keeps what `fresh` keeps: it only acts through each component's own `clear`
(names, order and the number of components are untouched). -/
theorem clear_keeps_structure (L : LayerSt τ) :
    keys (Layer.clear L).conns = keys L.conns ∧ keys (Layer.clear L).neurs = keys L.neurs := by
  simp [Layer.clear, keys, List.map_map, Function.comp_def]

/-! ## Non-vacuity: concrete components meeting the contracts -/

/-- an integrating neuron: state = accumulated input, output = the new total; `clear` zeroes it -/
def exNeur : Neur Int :=
  { σ := Int, st := 0, step := fun s x => (s + x, s + x), peek := fun s => s, clear := fun _ => 0, fresh := fun _ => 0 }
/-- a connection with a learned gain (kept by clear) and a one-step memory (dropped by clear) -/
def exConn (gain : Int) : Conn Int :=
  { σ := Int × Int, st := (gain, 0), step := fun s xs => ((s.1, xs.headD 0), s.1 * xs.headD 0 + s.2),
    peek := fun s => s.2, clear := fun s => (s.1, 0), fresh := fun s => (s.1, 0) }

example : exNeur.PeekOK := fun _ _ => rfl
example : exNeur.ClearOK := fun _ => Obj.Equiv.refl _
example : (exConn 3).ClearOK := fun _ => Obj.Equiv.refl _

def exSerial : SerialCfg Int := ⟨"serial", "serial", fun y => y + 1⟩
def exL : LayerSt Int := ⟨[("serial", exConn 3)], [("serial", exNeur)]⟩
-- y_t = 3 x_t + x_{t-1}; neuron integrates y_t + 1
example : Serial.run exSerial exL [[1], [2], [0]] = [some 4, some 12, some 15] := by decide
-- clearing mid-run and replaying reproduces the outputs of the first run
example : (match Serial.forward exSerial exL [5] with
    | some (L', _, _) => Serial.run exSerial (Layer.clear L') [[1], [2], [0]]
    | none => []) = [some 4, some 12, some 15] := by decide

def exRec : RecCfg Int :=
  { ffc := "feedfwd", latc := "lateral", fbc := "feedback", ffn := "feedfwd", fbn := "feedback",
    ffOut := id, latOut := id, fbOut := fun y => -y, latIn := fun s => [s], fbIn := fun s => [s],
    add := (· + ·), zerosLike := fun _ => 0 }
def exRecS : RecSpecSt Int := ⟨exConn 1, exConn 2, exConn 1, exNeur, exNeur, none⟩
example : Rec.run exRec (exRecS.toSt exRec) [[1], [1], [1]] = (recSpecRun exRec exRecS [[1], [1], [1]]).map some := by
  decide
-- step 3: ff input = (1·1 + 1) − (1·5 + 2) = −5 on a total of 1 → −4
example : recSpecRun exRec exRecS [[1], [1], [1]] = [(1, 2), (1, 5), (-4, -2)] := by decide

end InfernoVerif.Layer
