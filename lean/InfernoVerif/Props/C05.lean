import InfernoVerif.Lemmas.Conn
/-!
# C05 — connections compute their documented linear map (dense, direct, lateral, conv2d)

Property theorems only (definitions in `Model/Conn.lean`, helper lemmas in `Lemmas/Conn.lean`).
Everything is stated for an arbitrary commutative (semi)ring `α`; sums are `Finset` sums
(`sumTo n f = ∑ i ∈ range n, f i` is `sumTo_eq_sum`).

* `dense_eq`, `direct_eq`, `lateral_eq`: the code-shaped maps equal `x Wᵀ + b`, `x ⊙ w + b`,
  `x (Wᵀ off the diagonal) + b` for every size, weight, bias (on/off) and input.
* `lateral_diag_zero`: after EVERY finite sequence of weight/delay/bias assignments and updater
  applications (any accumulator function) the self-weights and self-delays are zero, shapes are
  kept and off-diagonal entries are exactly the assigned ones (`lateral_assign_offdiag`).
* `conv_eq_crosscorrelation`: unfold → flatten kernel → matmul → reshape → bias equals the direct
  2-D cross-correlation for ALL `H W C F KH KW`, stride, padding, dilation (per axis) — in full
  generality, nothing `_partial`.  `conv_outsize*`: the floor formula counts exactly the window
  positions that fit in the padded image; every tap then lies inside the padded image.
* `like_input_like_synaptic_id`: `fold(unfold x) = count · x` on every input position, hence
  `like_input (like_synaptic x) = x` wherever some window reads the position.
* `receptive_broadcast_shapes_*`, `presyn*_get`: the receptive views have the documented shapes
  `B × (broadcastable with weight) × L` and are the stated index permutations.
-/
namespace InfernoVerif.Conn
open Finset
variable {α : Type}

/-! ## dense / direct -/

/-- `F.linear(x, W, b)` is `x Wᵀ + b` (with `Wᵀ` an explicit transpose), for every `N × M`
weight, optional bias and input row. -/
theorem dense_eq [CommSemiring α] (N M : Nat) (W : List (List α)) (hW : Shape2 W N M)
    (b : Option (List α)) (hb : ∀ bv, b = some bv → bv.length = N) (x : List α) (hx : x.length = M) :
    linearRow W b x = denseSpecRow N M W b x :=
  linearRow_eq_spec N M W hW b hb x hx

/-- element form: `y_o = Σ_{i<M} x_i W_{o,i} + b_o`. -/
theorem dense_eq_sum [CommSemiring α] (N M : Nat) (W : List (List α)) (hW : Shape2 W N M)
    (b : Option (List α)) (hb : ∀ bv, b = some bv → bv.length = N) (x : List α) (hx : x.length = M)
    (o : Nat) (ho : o < N) :
    vget (linearRow W b x) o = ∑ i ∈ range M, vget x i * mget W o i + biasAt b o := by
  rw [dense_eq N M W hW b hb x hx, denseSpecRow, vget, getD_range_map _ _ _ ho, sumTo_eq_sum]
  congr 1
  apply Finset.sum_congr rfl
  intro i hi
  rw [mget_transpose N M W i o (Finset.mem_range.mp hi) ho]

/-- whole batch (every batch size): each sample is mapped independently by the same map. -/
theorem dense_batch_eq [CommSemiring α] (N M : Nat) (W : List (List α)) (hW : Shape2 W N M)
    (b : Option (List α)) (hb : ∀ bv, b = some bv → bv.length = N) (xs : List (List α))
    (hxs : ∀ x ∈ xs, x.length = M) :
    denseFwd W b xs = xs.map (denseSpecRow N M W b) :=
  List.map_congr_left fun x hx => dense_eq N M W hW b hb x (hxs x hx)

/-- `res * weight + bias` is `y_i = x_i w_i + b_i`. -/
theorem direct_eq [CommSemiring α] (N : Nat) (w : List α) (hw : w.length = N)
    (b : Option (List α)) (hb : ∀ bv, b = some bv → bv.length = N) (x : List α) (hx : x.length = N) :
    directRow w b x = directSpecRow N w b x :=
  directRow_eq_spec N w hw b hb x hx

theorem direct_batch_eq [CommSemiring α] (N : Nat) (w : List α) (hw : w.length = N)
    (b : Option (List α)) (hb : ∀ bv, b = some bv → bv.length = N) (xs : List (List α))
    (hxs : ∀ x ∈ xs, x.length = N) :
    directFwd w b xs = xs.map (directSpecRow N w b) :=
  List.map_congr_left fun x hx => direct_eq N w hw b hb x (hxs x hx)

/-! ## lateral -/

/-- **Invariant over every history.**  Start from the constructor state (any initial `rand`
weight `w0`, any initial delay or none, any bias or none) and apply ANY finite sequence of
well-shaped weight / delay / bias assignments and updater applications (`f` arbitrary): the
shapes are kept, every self-weight is zero and every self-delay is zero. -/
theorem lateral_diag_zero [Ring α] (n : Nat) (w0 : List (List α)) (hw : Shape2 w0 n n)
    (d0 : Option (List (List α))) (hd : ∀ d, d0 = some d → Shape2 d n n)
    (b : Option (List α)) (hb : ∀ bv, b = some bv → bv.length = n)
    (ops : List (LOp α)) (hops : ∀ op ∈ ops, op.WF n) :
    let c := (Lateral.init n w0 d0 b).run ops
    Shape2 c.weight n n ∧ DiagZero n c.weight ∧ ∀ d, c.delay = some d → Shape2 d n n ∧ DiagZero n d := by
  have h := latInv_run n ops _ (latInv_init n w0 hw d0 hd b hb) hops
  exact ⟨h.2.1, h.2.2.1, h.2.2.2.1⟩

/-- from every reachable state, an assignment / update stores exactly the off-diagonal part of
what was assigned / computed, and zero on the diagonal. -/
theorem lateral_assign_offdiag [Ring α] (n : Nat) (c : Lateral α) (hc : LatInv n c) (v : List (List α))
    (hv : Shape2 v n n) :
    (c.step (.setW v)).weight = offDiag n v ∧
    (∀ d, c.delay = some d → (c.step (.setD v)).delay = some (offDiag n v)) ∧
    (c.delay = none → (c.step (.setD v)).delay = none) := by
  refine ⟨?_, ?_, ?_⟩
  · simp only [Lateral.step, Lateral.setWeight, hc.1, hadamard_mask n v hv]
  · intro d hd; simp only [Lateral.step, Lateral.setDelay, hd, hc.1, hadamard_mask n v hv]
  · intro hd; simp only [Lateral.step, Lateral.setDelay, hd]

theorem lateral_update_offdiag [Ring α] (n : Nat) (c : Lateral α) (hc : LatInv n c)
    (f : List (List α) → List (List α)) (hf : ∀ m, Shape2 m n n → Shape2 (f m) n n) :
    (c.step (.updW f)).weight = offDiag n (f c.weight) ∧
    (∀ d, c.delay = some d → (c.step (.updD f)).delay = some (offDiag n (f d))) := by
  refine ⟨?_, ?_⟩
  · simp only [Lateral.step, Lateral.setWeight, hc.1, hadamard_mask n _ (hf _ hc.2.1)]
  · intro d hd
    simp only [Lateral.step, Lateral.setDelay, hd, hc.1, hadamard_mask n _ (hf _ (hc.2.2.2.1 d hd).1)]

/-- the lateral map: in any reachable state, after assigning `V` the connection computes
`y_o = Σ_{i ≠ o} x_i V_{o,i} + b_o` on every sample of the batch. -/
theorem lateral_eq [CommRing α] (n : Nat) (w0 : List (List α)) (hw : Shape2 w0 n n)
    (d0 : Option (List (List α))) (hd : ∀ d, d0 = some d → Shape2 d n n)
    (b : Option (List α)) (hb : ∀ bv, b = some bv → bv.length = n)
    (ops : List (LOp α)) (hops : ∀ op ∈ ops, op.WF n)
    (V : List (List α)) (hV : Shape2 V n n) (xs : List (List α)) (hxs : ∀ x ∈ xs, x.length = n) :
    let c := (Lateral.init n w0 d0 b).run ops
    (c.step (.setW V)).fwd xs = xs.map (lateralSpecRow n V c.bias) := by
  intro c
  have hc : LatInv n c := latInv_run n ops _ (latInv_init n w0 hw d0 hd b hb) hops
  have hwt := (lateral_assign_offdiag n c hc V hV).1
  unfold Lateral.fwd
  rw [hwt]
  have hbias : (c.step (.setW V)).bias = c.bias := rfl
  rw [hbias, dense_batch_eq n n (offDiag n V) (offDiag_shape n V) c.bias hc.2.2.2.2 xs hxs]
  apply List.map_congr_left
  intro x _
  unfold denseSpecRow lateralSpecRow
  apply List.map_congr_left
  intro o ho
  simp only [List.mem_range] at ho
  congr 1
  apply sumTo_congr
  intro i hi
  rw [mget_transpose n n _ i o hi ho]
  unfold offDiag
  rw [mget_range_map n n _ o i ho hi]
  by_cases h : i = o
  · simp [h]
  · have : ¬ o = i := fun hh => h hh.symm
    simp [h, this]

/-! ## conv2d -/

/-- **conv = cross-correlation**, for every height, width, channel and filter count, kernel,
stride, padding and dilation (each per axis), every kernel tensor, optional bias and input:
each output element of unfold → matmul with the flattened kernel → reshape → bias is
`Σ_{c,kh,kw} x_pad[c, oh·sh + kh·dh, ow·sw + kw·dw] · K[f,c,kh,kw] + b[f]`. -/
theorem conv_eq_crosscorrelation [CommSemiring α] (g : Geom) (K : List (List (List (List α))))
    (hK : Shape4 K g.F g.C g.KH g.KW) (b : Option (List α)) (hb : ∀ bv, b = some bv → bv.length = g.F)
    (x : List (List (List α))) (f oh ow : Nat) (hf : f < g.F) (hoh : oh < g.OH) (how : ow < g.OW) :
    get3 (convFwd g K b x) f oh ow =
      ∑ c ∈ range g.C, ∑ kh ∈ range g.KH, ∑ kw ∈ range g.KW,
        padGet g x c (oh * g.sh + kh * g.dh) (ow * g.sw + kw * g.dw) * get4 K f c kh kw + biasAt b f := by
  rw [convFwd_eq_specAt g K hK b hb x f oh ow hf hoh how]
  unfold convSpecAt
  simp only [sumTo_eq_sum]

/-- the output has the advertised shape `F × OH × OW`. -/
theorem conv_shape [CommSemiring α] (g : Geom) (K : List (List (List (List α))))
    (hK : Shape4 K g.F g.C g.KH g.KW) (b : Option (List α)) (hb : ∀ bv, b = some bv → bv.length = g.F)
    (x : List (List (List α))) : Shape3 (convFwd g K b x) g.F g.OH g.OW := by
  have hy : ∀ p ∈ (matmul g.L (flattenKernel K) (unfold g x)).map (unflat g.OH g.OW), Shape2 p g.OH g.OW := by
    intro p hp
    simp only [matmul, List.map_map, List.mem_map] at hp
    obtain ⟨row, _, rfl⟩ := hp
    exact unflat_shape _ _ _ (by simp [Geom.L])
  have hlen : ((matmul g.L (flattenKernel K) (unfold g x)).map (unflat g.OH g.OW)).length = g.F := by
    simp [matmul, flattenKernel, hK.1]
  unfold convFwd
  cases b with
  | none => exact ⟨hlen, hy⟩
  | some bv =>
    simp only [addBias]
    rw [zipWith_eq_range_map g.F _ bv hlen (hb bv rfl) _ [] 0]
    refine ⟨by simp, ?_⟩
    intro p hp
    simp only [List.mem_map, List.mem_range] at hp
    obtain ⟨f, hf, rfl⟩ := hp
    have hpl : Shape2 (((matmul g.L (flattenKernel K) (unfold g x)).map (unflat g.OH g.OW)).getD f []) g.OH g.OW := by
      have hf' : f < ((matmul g.L (flattenKernel K) (unfold g x)).map (unflat g.OH g.OW)).length := by
        rw [hlen]; exact hf
      rw [List.getD_eq_getElem?_getD, List.getElem?_eq_getElem hf']
      exact hy _ (List.getElem_mem hf')
    refine ⟨by rw [List.length_map]; exact hpl.1, ?_⟩
    intro r hr
    simp only [List.mem_map] at hr
    obtain ⟨r0, hr0, rfl⟩ := hr
    rw [List.length_map]; exact hpl.2 r0 hr0

/-- list form: the whole output tensor equals the cross-correlation tensor. -/
theorem conv_eq_spec [CommSemiring α] (g : Geom) (K : List (List (List (List α))))
    (hK : Shape4 K g.F g.C g.KH g.KW) (b : Option (List α)) (hb : ∀ bv, b = some bv → bv.length = g.F)
    (x : List (List (List α))) : convFwd g K b x = convSpec g K b x := by
  have hs := conv_shape g K hK b hb x
  apply List.ext_getElem (by simp [hs.1, convSpec])
  intro f hf1 hf2
  have hf : f < g.F := by rw [← hs.1]; exact hf1
  have hp := hs.2 _ (List.getElem_mem hf1)
  have hgf : (convFwd g K b x).getD f [] = (convFwd g K b x)[f] := by
    simp [List.getD_eq_getElem?_getD, hf1]
  simp only [convSpec, List.getElem_map, List.getElem_range]
  apply List.ext_getElem (by simp [hp.1])
  intro oh hoh1 hoh2
  have hoh : oh < g.OH := by rw [← hp.1]; exact hoh1
  have hr := hp.2 _ (List.getElem_mem hoh1)
  simp only [List.getElem_map, List.getElem_range]
  apply List.ext_getElem (by simp [hr])
  intro ow how1 how2
  have how : ow < g.OW := by rw [← hr]; exact how1
  simp only [List.getElem_map, List.getElem_range]
  rw [← convFwd_eq_specAt g K hK b hb x f oh ow hf hoh how]
  simp [get3, List.getD_eq_getElem?_getD, hf1, hoh1, how1]

/-- the code's floor formula: output index `o` exists exactly when the window whose first tap is
at `o·s` has its last tap `o·s + d·(k−1)` inside the padded axis of extent `size + 2p`. -/
theorem conv_outsize (size p d k s : Nat) (hs : 0 < s) (hk : 1 ≤ k) (o : Nat) :
    (o : Int) < outSizeCode size p d k s ↔ o * s + d * (k - 1) + 1 ≤ size + 2 * p :=
  outSize_lt_iff size p d k s hs hk o

/-- … hence (rounded at zero when nothing fits) it is the number of window positions that fit. -/
theorem conv_outsize_counts (size p d k s : Nat) (hs : 0 < s) (hk : 1 ≤ k) :
    (outSizeCode size p d k s).toNat = outSizeSpec size p d k s :=
  outSizeCode_eq_spec size p d k s hs hk

/-- every tap of every output position lies inside the padded image (so `unfold` never reads
outside it, and the `else 0` branch of `padGet` is only ever the zero padding). -/
theorem conv_window_in_bounds (g : Geom) (hsh : 0 < g.sh) (hsw : 0 < g.sw) (oh ow kh kw : Nat)
    (hoh : oh < g.OH) (how : ow < g.OW) (hkh : kh < g.KH) (hkw : kw < g.KW) :
    oh * g.sh + kh * g.dh < g.H + 2 * g.ph ∧ ow * g.sw + kw * g.dw < g.W + 2 * g.pw := by
  have h1 : (oh : Int) < outSizeCode g.H g.ph g.dh g.KH g.sh := by unfold Geom.OH at hoh; omega
  have h2 : (ow : Int) < outSizeCode g.W g.pw g.dw g.KW g.sw := by unfold Geom.OW at how; omega
  have a1 := (conv_outsize g.H g.ph g.dh g.KH g.sh hsh (by omega) oh).mp h1
  have a2 := (conv_outsize g.W g.pw g.dw g.KW g.sw hsw (by omega) ow).mp h2
  have b1 : kh * g.dh ≤ g.dh * (g.KH - 1) := by
    rw [Nat.mul_comm]; exact Nat.mul_le_mul_left _ (by omega)
  have b2 : kw * g.dw ≤ g.dw * (g.KW - 1) := by
    rw [Nat.mul_comm]; exact Nat.mul_le_mul_left _ (by omega)
  omega

/-! ## like_synaptic / like_input -/

/-- `fold(unfold x)[c,i,j] = (number of windows reading (i,j)) · x[c,i,j]` on every input
position, for every geometry. -/
theorem like_input_like_synaptic_id [CommSemiring α] (g : Geom) (x : List (List (List α))) (c i j : Nat)
    (hc : c < g.C) (hi : i < g.H) (hj : j < g.W) :
    foldAt g (unfold g x) c i j = ((coverCount g i j : Nat) : α) * get3 x c i j :=
  fold_unfold g x c i j hc hi hj

/-- a position is read by some window exactly when the fold-of-ones count is positive. -/
theorem covered_iff_count_pos (g : Geom) (i j : Nat) : covered g i j = true ↔ 0 < coverCount g i j :=
  (coverCount_pos_iff g i j).symm

/-- over the integers: `like_input (like_synaptic x) = fold(unfold x) / fold(ones)` returns `x` on
every position the connection reads. -/
theorem like_input_like_synaptic_id_int (g : Geom) (x : List (List (List Int))) (c i j : Nat)
    (hc : c < g.C) (hi : i < g.H) (hj : j < g.W) (hcov : covered g i j = true) :
    (((likeInputInt g (unfold g x)).getD c []).getD i []).getD j none = some (get3 x c i j) := by
  have hpos := (covered_iff_count_pos g i j).mp hcov
  unfold likeInputInt
  rw [getD_range_map _ _ _ hc, getD_range_map _ _ _ hi, getD_range_map _ _ _ hj]
  have hne : coverCount g i j ≠ 0 := by omega
  have hz : ((coverCount g i j : Nat) : Int) ≠ 0 := by exact_mod_cast hne
  simp only [hne, if_false, fold_unfold g x c i j hc hi hj]
  rw [Int.mul_emod_right, if_pos rfl, Int.mul_ediv_cancel_left _ hz]

/-- linear connections: flatten then `view(-1, *inshape)` returns shape and data unchanged. -/
theorem linear_like_roundtrip (B : Nat) (inshape : List Nat) (d : List α) (hB : 0 < prod inshape)
    (hd : d.length = B * prod inshape) :
    likeInputLinear inshape (likeSynLinear (B :: inshape, d)) = (B :: inshape, d) := by
  simp [likeInputLinear, likeSynLinear, hd, Nat.mul_div_cancel _ hB]

/-! ## receptive views -/

/-- dense (and lateral): `post : B × N × 1 × 1`, `pre : B × (N | 1) × M × 1`; dropping batch and
trailing axis they broadcast to the weight shape `N × M`. -/
theorem receptive_broadcast_shapes_dense (B N M R : Nat) (d d' : List α) (hR : R = N ∨ R = 1) :
    bcast (inner (postsynDense B N d).1) (inner (presynDense (α := Int) B M R []).1) = some [N, M] ∧
    (postsynDense B N d').1 = [B, N, 1, 1] := by
  rcases hR with h | h <;> subst h <;> simp [bcast, inner, postsynDense, presynDense] <;>
    (repeat' split) <;> simp_all

/-- direct: `post : B × N × 1`, `pre : B × N × (R)`; inner shape is the weight shape `N`. -/
theorem receptive_broadcast_shapes_direct (B N R : Nat) (d d' : List α) :
    bcast (inner (postsynDirect B N d).1) (inner (presynDirect B N R d').1) = some [N] := by
  simp [bcast, inner, postsynDirect, presynDirect]

/-- conv: `post : B × F × 1 × 1 × 1 × L`, `pre : B × (F | 1) × C × KH × KW × L`; inner shapes
broadcast to the weight shape `F × C × KH × KW` and both trailing axes are `L`. -/
theorem receptive_broadcast_shapes_conv (g : Geom) (B R : Nat) (d : List α) (hR : R = g.F ∨ R = 1) :
    bcast (inner (postsynConv g B d).1) (inner (presynConv (α := Int) g B R []).1) = some [g.F, g.C, g.KH, g.KW] ∧
    (postsynConv g B d).1.getLast? = some g.L ∧ (presynConv (α := Int) g B R []).1.getLast? = some g.L := by
  rcases hR with h | h <;> subst h <;> simp [bcast, inner, postsynConv, presynConv] <;>
    (repeat' split) <;> simp_all

/-- dense `presyn_receptive` is the index permutation `out[b,r,i,0] = in[b,i,r]`. -/
theorem presynDense_get [Zero α] (B M R : Nat) (d : List α) (b r i : Nat) (hb : b < B) (hr : r < R) (hi : i < M) :
    vget (presynDense B M R d).2 ((b * R + r) * M + i) = vget d ((b * M + i) * R + r) := by
  have hk : (b * R + r) * M + i < B * R * M := flat2_lt (B * R) M _ i (flat2_lt B R b r hb hr) hi
  simp only [presynDense]
  rw [vget, getD_range_map _ _ _ hk, flat3_div _ _ _ _ _ hr hi, flat3_mid _ _ _ _ _ hr hi, flat3_low _ _ _ _ _ hi]

/-- conv `presyn_receptive` is the index permutation `out[b,r,n,l] = in[b,n,l,r]`
(`n = (c·KH + kh)·KW + kw` split into the axes `c, kh, kw` by the row-major reshape). -/
theorem presynConv_get [Zero α] (g : Geom) (B R : Nat) (d : List α) (b r n l : Nat)
    (hb : b < B) (hr : r < R) (hn : n < g.N) (hl : l < g.L) :
    vget (presynConv g B R d).2 (((b * R + r) * g.N + n) * g.L + l) = vget d (((b * g.N + n) * g.L + l) * R + r) := by
  have hk : ((b * R + r) * g.N + n) * g.L + l < B * R * g.N * g.L :=
    flat2_lt (B * R * g.N) g.L _ l (flat2_lt (B * R) g.N _ n (flat2_lt B R b r hb hr) hn) hl
  simp only [presynConv]
  rw [vget, getD_range_map _ _ _ hk]
  have e1 : (((b * R + r) * g.N + n) * g.L + l) % g.L = l := flat2_mod _ _ _ hl
  have e2 : (((b * R + r) * g.N + n) * g.L + l) / g.L = (b * R + r) * g.N + n := flat2_div _ _ _ hl
  have e3 : (((b * R + r) * g.N + n) * g.L + l) / (g.L * g.N) = b * R + r := by
    rw [← Nat.div_div_eq_div_mul, e2, flat2_div _ _ _ hn]
  have e4 : (((b * R + r) * g.N + n) * g.L + l) / (g.L * g.N * R) = b := by
    rw [← Nat.div_div_eq_div_mul, e3, flat2_div _ _ _ hr]
  rw [e1, e2, e3, e4, flat2_mod _ _ _ hn, flat2_mod _ _ _ hr]

/-! ## Non-vacuity: concrete instances meeting the hypotheses (and negation witnesses for the
mutants the search is tuned to) -/

-- a 2×3 dense weight with bias on a 3-vector
example : linearRow [[1, 2, 3], [4, 5, 6]] (some [10, 20]) [1, 0, -1] = ([8, 18] : List Int) := by decide
example : denseSpecRow 2 3 [[1, 2, 3], [4, 5, 6]] (some [10, 20]) [1, 0, -1] = ([8, 18] : List Int) := by decide
-- transposing the weight is NOT the documented map
example : linearRow (transpose 3 3 [[1, 2, 3], [4, 5, 6], [7, 8, 9]]) none [1, 0, 0] ≠
    (linearRow [[1, 2, 3], [4, 5, 6], [7, 8, 9]] none [1, 0, 0] : List Int) := by decide
-- a lateral connection after assign, update (+[[5,5],[5,5]]) and delay assign: diagonals stay 0
def exLat : Lateral Int :=
  (Lateral.init 2 [[7, 7], [7, 7]] (some [[0, 0], [0, 0]]) none).run
    [.setW [[1, 2], [3, 4]], .updW (madd · [[5, 5], [5, 5]]), .setD [[9, 8], [7, 6]]]
example : exLat.weight = [[0, 7], [8, 0]] ∧ exLat.delay = some [[0, 8], [7, 0]] := by decide
-- a strided, dilated, padded geometry with non-empty output
def exG : Geom := ⟨5, 4, 2, 1, 2, 2, 2, 1, 1, 0, 2, 1⟩
example : exG.OH = 3 ∧ exG.OW = 3 ∧ outSizeSpec 5 1 2 2 2 = 3 := by decide
-- ceil instead of floor would give 4 rows here: (5 + 2 − 2 − 1)/2 + 1 = 3 exactly, but e.g.
-- size 6: floor(5/2)+1 = 3 whereas ceil would be 4
example : outSizeCode 6 1 2 2 2 = 3 := by decide
-- an uncovered input position (stride 2, kernel 1 skips odd rows) and a covered one
example : covered ⟨3, 3, 1, 1, 1, 1, 2, 2, 0, 0, 1, 1⟩ 1 1 = false ∧
    covered ⟨3, 3, 1, 1, 1, 1, 2, 2, 0, 0, 1, 1⟩ 2 2 = true := by decide

end InfernoVerif.Conn
