import InfernoVerif.Gen.Routes
import InfernoVerif.Model.Split
import InfernoVerif.Model.STDP
import InfernoVerif.Model.DelaySTDP
/-!
# Glue: the hand-written LTP/LTD routing tables and clamp splits ARE the ones in /repo's source

`Gen/Routes.lean` is regenerated on every run by `harness/sites.py` from the `match (…, …)` statements
and the `cell.updater.<p> = (…, …)` assignments inside the `forward` method of every trainer in
`inferno/learn/trainers/*.py`.  The theorems below state that each generated definition equals the
hand-written definition the theorems of `Props/C09.lean`, `Props/C08.lean`, `Props/C18.lean` are about
(`Model/Split.lean`, `Model/STDP.lean :: route, routeT`).  Swapping two operands of one `case`, changing
a subject from `>= 0` to `> 0` or `< 0`, dropping the negation of the depressive clamp split, or
assigning to a different updater attribute changes the generated text and one of these stops
checking — a broken proof obligation of C09 (and of C08/C18, which build this module too).

What stays hand-written (tied by the correspondence check only): how each trainer computes the
magnitudes it routes (`einsum` over the receptive axis, batch reduction, per-sample partition of a
tensor-valued reward).
-/
set_option linter.unusedSectionVars false
namespace InfernoVerif.Split.Glue
open InfernoVerif.Gen InfernoVerif.Split

section Tables
variable {α : Type} [Add α] (a b : Bool) (x y : α)

/-- `STDP.forward` -/
theorem gen_STDP_route : Routes.STDP_route0 a b x y = route_stdp a b x y := by
  cases a <;> cases b <;> rfl
/-- `StableSTDP.forward` (not exported, same table) -/
theorem gen_StableSTDP_route : Routes.StableSTDP_route0 a b x y = route_stdp a b x y := by
  cases a <;> cases b <;> rfl
/-- `TripletSTDP.forward` -/
theorem gen_TripletSTDP_route : Routes.TripletSTDP_route0 a b x y = route_triplet_stdp a b x y := by
  cases a <;> cases b <;> rfl
/-- `StableTripletSTDP.forward` -/
theorem gen_StableTripletSTDP_route :
    Routes.StableTripletSTDP_route0 a b x y = route_triplet_stdp a b x y := by
  cases a <;> cases b <;> rfl
/-- `MSTDP.forward`, scalar reward -/
theorem gen_MSTDP_route : Routes.MSTDP_route1 a b x y = route_mstdp a b x y := by
  cases a <;> cases b <;> rfl
/-- `MSTDPET.forward`, scalar reward -/
theorem gen_MSTDPET_route : Routes.MSTDPET_route1 a b x y = route_mstdp a b x y := by
  cases a <;> cases b <;> rfl
/-- `DelayAdjustedSTDP.forward`; the generated parameters are in alphabetical order (`dneg dpos`) -/
theorem gen_DelayAdjustedSTDP_route :
    Routes.DelayAdjustedSTDP_route0 a b y x = route_delay_adjusted_stdp a b x y := by
  cases a <;> cases b <;> rfl
/-- `DelayAdjustedSTDPD.forward` (delays; subject `(lr_neg < 0, lr_pos < 0)`) -/
theorem gen_DelayAdjustedSTDPD_route :
    Routes.DelayAdjustedSTDPD_route0 a b y x = route_delay_adjusted_stdpd a b x y := by
  cases a <;> cases b <;> rfl
/-- `DelayAdjustedMSTDP.forward`, scalar reward -/
theorem gen_DelayAdjustedMSTDP_route :
    Routes.DelayAdjustedMSTDP_route1 a b x y = route_delay_adjusted_mstdp a b x y := by
  cases a <;> cases b <;> rfl
/-- `DelayAdjustedMSTDPD.forward`, scalar reward -/
theorem gen_DelayAdjustedMSTDPD_route :
    Routes.DelayAdjustedMSTDPD_route1 a b x y = route_delay_adjusted_mstdpd a b x y := by
  cases a <;> cases b <;> rfl

end Tables

section Joins
variable {α : Type} (a b : Bool) (postReg postInv preReg preInv : List α)

/-- `MSTDP.forward`, tensor reward: which per-sample rows are concatenated into `(dpos, dneg)`;
generated parameters are alphabetical (`dpost_inv dpost_reg dpre_inv dpre_reg`) -/
theorem gen_MSTDP_join :
    Routes.MSTDP_join0 a b postInv postReg preInv preReg = join_mstdp a b postReg postInv preReg preInv := by
  cases a <;> cases b <;> rfl
theorem gen_MSTDPET_join :
    Routes.MSTDPET_join0 a b postInv postReg preInv preReg = join_mstdp a b postReg postInv preReg preInv := by
  cases a <;> cases b <;> rfl
theorem gen_DelayAdjustedMSTDP_join :
    Routes.DelayAdjustedMSTDP_join0 a b postInv postReg preInv preReg
      = join_mstdp a b postReg postInv preReg preInv := by
  cases a <;> cases b <;> rfl
theorem gen_DelayAdjustedMSTDPD_join :
    Routes.DelayAdjustedMSTDPD_join0 a b postInv postReg preInv preReg
      = join_mstdpd a b postReg postInv preReg preInv := by
  cases a <;> cases b <;> rfl

end Joins

/-! ### subjects of the `match` statements and the updater attribute each table assigns -/
section Subjects
variable {α : Type} [Mul α] [Zero α] [LE α] [DecidableLE α] [LT α] [DecidableLT α]

theorem gen_STDP_cond (lr_post lr_pre : α) :
    Routes.STDP_cond0 lr_post lr_pre = (decide (0 ≤ lr_post), decide (0 ≤ lr_pre)) := rfl
theorem gen_TripletSTDP_cond (lr_post_pair lr_pre_pair : α) :
    Routes.TripletSTDP_cond0 lr_post_pair lr_pre_pair
      = (decide (0 ≤ lr_post_pair), decide (0 ≤ lr_pre_pair)) := rfl
/-- tensor-reward branch: routed by the signs of the rates alone -/
theorem gen_MSTDP_cond_tensor (lr_post lr_pre : α) :
    Routes.MSTDP_cond0 lr_post lr_pre = (decide (0 ≤ lr_post), decide (0 ≤ lr_pre)) := rfl
/-- scalar-reward branch: routed by the signs of `rate * signal` -/
theorem gen_MSTDP_cond_scalar (lr_post signal lr_pre : α) :
    Routes.MSTDP_cond1 lr_post signal lr_pre
      = (decide (0 ≤ lr_post * signal), decide (0 ≤ lr_pre * signal)) := rfl
theorem gen_MSTDPET_cond_scalar (lr_post signal lr_pre : α) :
    Routes.MSTDPET_cond1 lr_post signal lr_pre
      = (decide (0 ≤ lr_post * signal), decide (0 ≤ lr_pre * signal)) := rfl
theorem gen_DelayAdjustedSTDP_cond (lr_pos lr_neg : α) :
    Routes.DelayAdjustedSTDP_cond0 lr_pos lr_neg = (decide (0 ≤ lr_pos), decide (0 ≤ lr_neg)) := rfl
theorem gen_DelayAdjustedSTDPD_cond (lr_neg lr_pos : α) :
    Routes.DelayAdjustedSTDPD_cond0 lr_neg lr_pos = (decide (lr_neg < 0), decide (lr_pos < 0)) := rfl
theorem gen_DelayAdjustedMSTDP_cond_scalar (lr_pos signal lr_neg : α) :
    Routes.DelayAdjustedMSTDP_cond1 lr_pos signal lr_neg
      = (decide (0 ≤ lr_pos * signal), decide (0 ≤ lr_neg * signal)) := rfl
theorem gen_DelayAdjustedMSTDPD_cond_tensor (lr_neg lr_pos : α) :
    Routes.DelayAdjustedMSTDPD_cond0 lr_neg lr_pos = (decide (lr_neg < 0), decide (lr_pos < 0)) := rfl
theorem gen_DelayAdjustedMSTDPD_cond_scalar (lr_neg signal lr_pos : α) :
    Routes.DelayAdjustedMSTDPD_cond1 lr_neg signal lr_pos
      = (decide (lr_neg * signal < 0), decide (lr_pos * signal < 0)) := rfl

/-- weight trainers assign `cell.updater.weight`, delay trainers `cell.updater.delay` -/
theorem gen_targets :
    Routes.STDP_target0 = "weight" ∧ Routes.TripletSTDP_target0 = "weight" ∧
    Routes.MSTDP_target1 = "weight" ∧ Routes.MSTDPET_target1 = "weight" ∧
    Routes.DelayAdjustedSTDP_target0 = "weight" ∧ Routes.DelayAdjustedSTDPD_target0 = "delay" ∧
    Routes.DelayAdjustedMSTDP_target1 = "weight" ∧ Routes.DelayAdjustedMSTDPD_target1 = "delay" ∧
    Routes.KernelSTDP_splittarget0 = "weight" ∧ Routes.DelayAdjustedKernelSTDP_splittarget0 = "weight" ∧
    Routes.DelayAdjustedKernelSTDPD_splittarget0 = "delay" ∧
    Routes.LinearHomeostasis_splittarget0 = "weight" ∧ Routes.LinearHomeostasis_splittarget1 = "bias" ∧
    Routes.LinearHomeostasis_splittarget2 = "delay" := by
  decide

end Subjects

/-- the scalar-reward branch of `MSTDP.forward` as modelled (`Split.mstdp_forward_scalar`) is the
generated subject followed by the generated table -/
theorem gen_mstdp_forward_scalar {α : Type} [Add α] [Mul α] [Neg α] [Max α] [Zero α] [LE α] [DecidableLE α]
    (lr_post lr_pre signal scale zpost zpre : α) :
    mstdp_forward_scalar lr_post lr_pre signal scale zpost zpre =
      Routes.MSTDP_route1 (Routes.MSTDP_cond1 lr_post signal lr_pre).1 (Routes.MSTDP_cond1 lr_post signal lr_pre).2
        (zpost * absv (signal * scale)) (zpre * absv (signal * scale)) := by
  unfold mstdp_forward_scalar
  rw [gen_MSTDP_route]
  rfl

/-! ### clamp splits -/
section Splits
variable {α : Type} [Add α] [Neg α] [Zero α] [Max α] [Min α]

theorem gen_clampMin0 (x : α) : Routes.clampMin0 x = clamp_min0 x := rfl
theorem gen_clampMax0 (x : α) : Routes.clampMax0 x = clamp_max0 x := rfl
theorem gen_nansum (row : List (Option α)) : Routes.nansum row = nansum row := rfl

/-- `KernelSTDP.forward` -/
theorem gen_KernelSTDP_split (reduce : List α → α) (dpost dpre : List (List (Option α))) :
    Routes.KernelSTDP_split0 reduce dpost dpre = kernel_split reduce dpost dpre := by
  simp only [Routes.KernelSTDP_split0, kernel_split, List.map_map]
  rfl
/-- `DelayAdjustedKernelSTDP.forward` -/
theorem gen_DelayAdjustedKernelSTDP_split (reduce : List α → α) (dpost dpre : List (List (Option α))) :
    Routes.DelayAdjustedKernelSTDP_split0 reduce dpost dpre = kernel_split reduce dpost dpre := by
  simp only [Routes.DelayAdjustedKernelSTDP_split0, kernel_split, List.map_map]
  rfl
/-- `DelayAdjustedKernelSTDPD.forward` -/
theorem gen_DelayAdjustedKernelSTDPD_split (reduce : List α → α) (dpost dpre : List (List (Option α))) :
    Routes.DelayAdjustedKernelSTDPD_split0 reduce dpost dpre = kernel_split reduce dpost dpre := by
  simp only [Routes.DelayAdjustedKernelSTDPD_split0, kernel_split, List.map_map]
  rfl

variable [Mul α]

/-- `LinearHomeostasis.forward`, `param == "weight"`: `k` scaled by `plasticity`, split WITHOUT
negating the second component (the known finding D9 — the generated definition shows it too) -/
theorem gen_LinearHomeostasis_split_weight (reduce : List α → α) (lb : α → α) (p : α) (k : List α) :
    Routes.LinearHomeostasis_split0 reduce lb p k = homeostasis_split reduce (k.map (· * p)) := rfl
/-- `param == "bias"`: the same split passed through `connection.like_bias` -/
theorem gen_LinearHomeostasis_split_bias (reduce : List α → α) (lb : α → α) (p : α) (k : List α) :
    Routes.LinearHomeostasis_split1 reduce lb p k =
      ((homeostasis_split reduce (k.map (· * p))).1.map lb, (homeostasis_split reduce (k.map (· * p))).2.map lb) := rfl
/-- `param == "delay"`: `k` scaled by `-plasticity` -/
theorem gen_LinearHomeostasis_split_delay (reduce : List α → α) (lb : α → α) (p : α) (k : List α) :
    Routes.LinearHomeostasis_split2 reduce lb p k = homeostasis_split reduce (k.map (· * -p)) := rfl

end Splits

/-! ### the tables used by the STDP models of C08 / C18 (`Model/STDP.lean`, over ℝ) -/
section STDPModel
open InfernoVerif.STDP.R

theorem gen_route_model (a b : Bool) (x y : ℝ) :
    route a b x y = Routes.STDP_route0 a b x y ∧ route a b x y = Routes.TripletSTDP_route0 a b x y ∧
    route a b x y = Routes.MSTDP_route1 a b x y ∧ route a b x y = Routes.MSTDPET_route1 a b x y ∧
    route a b x y = Routes.DelayAdjustedSTDP_route0 a b y x ∧
    route a b x y = Routes.DelayAdjustedMSTDP_route1 a b x y := by
  cases a <;> cases b <;> exact ⟨rfl, rfl, rfl, rfl, rfl, rfl⟩

theorem gen_routeT_model (a b : Bool) (postReg postInv preReg preInv : List ℝ) :
    routeT a b postReg postInv preReg preInv = Routes.MSTDP_join0 a b postInv postReg preInv preReg ∧
    routeT a b postReg postInv preReg preInv = Routes.MSTDPET_join0 a b postInv postReg preInv preReg ∧
    routeT a b postReg postInv preReg preInv
      = Routes.DelayAdjustedMSTDP_join0 a b postInv postReg preInv preReg := by
  cases a <;> cases b <;> exact ⟨rfl, rfl, rfl⟩

end STDPModel

end InfernoVerif.Split.Glue
