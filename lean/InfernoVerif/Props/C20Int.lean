import InfernoVerif.Props.C20
import InfernoVerif.Lemmas.DistInt
/-!
# C20 (continued) — the CDFs are the integrals / partial sums of the densities; log-normal moments

These are the six integral / partial-sum sub-claims whose statements `Props/C20.lean` keeps visible as
`FULL STATEMENT` comments.  They are proved here from the mathematical instantiation `realSpecial` of the opaque
torch primitives (`erf z = 2/√π ∫₀ᶻ e^{−t²}`, `gammaincc a x = (∫_x^∞ t^{a−1} e^{−t}) / Γ a`,
`expm1 x = eˣ − 1`).  Helper lemmas: `Lemmas/DistInt.lean`.

1. `Normal.cdf_eq_integral`      — `cdf x = ∫_{(−∞, x]} pdf`
2. `Poisson.cdf_eq_sum`          — `cdf k = Σ_{j ≤ k} pmf j`
3. `LogNormal.cdf_eq_integral`   — `cdf x = ∫_{(0, x]} pdf`
4. `LogNormal.integral_pdf`      — `∫_{(0, ∞)} pdf = 1`
5. `LogNormal.integral_mean`     — `∫_{(0, ∞)} x · pdf = mean`
6. `LogNormal.integral_variance` — `∫_{(0, ∞)} (x − mean)² · pdf = variance`

The integrability of the integrands of (4)–(6) is proved alongside (`LogNormal.integrableOn_pdf`,
`LogNormal.integrableOn_and_integral_mean`, `LogNormal.integrableOn_and_integral_variance`), so the
integrals are not the totalised value `0` of a non-integrable function.
-/
namespace InfernoVerif.Dist.R
open ProbabilityTheory MeasureTheory NNReal Nat Set

/-! ## Normal -/

/-- The Normal CDF of the code, `½ (1 + erf ((x − μ)/(σ√2)))` with
`erf z = 2/√π ∫₀ᶻ e^{−t²} dt`, is the integral of the code's density over `(−∞, x]`, for every `x`
(on either side of `μ`) and every `σ > 0`.  Proof: `∫_{(−∞, μ]} pdf = ½` by the symmetry
`t ↦ 2μ − t` and `∫ pdf = 1`; `∫_μ^x pdf = (1/√π) ∫₀^{(x−μ)/(σ√2)} e^{−u²}` by the affine
substitution. -/
theorem Normal.cdf_eq_integral (x μ : ℝ) {σ : ℝ} (hσ : 0 < σ) :
    Normal.cdf realSpecial x μ σ = ∫ t in Set.Iic x, Normal.pdf t μ σ := by
  have hint := normal_pdf_integrable μ hσ
  have hsplit := intervalIntegral.integral_Iic_sub_Iic (a := μ) (b := x)
    hint.integrableOn hint.integrableOn
  rw [normal_pdf_integral_Iic_loc μ hσ, normal_pdf_intervalIntegral x μ hσ] at hsplit
  have hpi : 0 < √Real.pi := Real.sqrt_pos.mpr Real.pi_pos
  have : ∫ t in Set.Iic x, Normal.pdf t μ σ
      = 1 / 2 + 1 / √Real.pi * ∫ u in (0 : ℝ)..(x - μ) / (σ * √2), Real.exp (-u ^ 2) := by
    linarith
  rw [this]
  simp only [Normal.cdf, realSpecial, sqrt]
  field_simp
  ring

/-! ## Poisson -/

/-- The Poisson CDF of the code at a count `k`, `gammaincc (⌊k + 1⌋, r)` with
`gammaincc a x = (∫_x^∞ t^{a−1} e^{−t} dt) / Γ a`, is the partial sum of the code's point
probabilities up to and including `k`, for every positive rate.  Proof: `−e^{−t} Q_k(t)` with
`Q_k(t) = k! Σ_{j ≤ k} t^j/j!` is an antiderivative of `t^k e^{−t}` vanishing at `∞`;
`Γ (k+1) = k!`; `⌊k + 1⌋ = k + 1`. -/
theorem Poisson.cdf_eq_sum (k : ℕ) {r : ℝ} (hr : 0 < r) :
    Poisson.cdf realSpecial (k : ℝ) r
      = ∑ j ∈ Finset.range (k + 1), Poisson.pmf realSpecial (j : ℝ) r := by
  unfold Poisson.cdf
  rw [floor_nat_add_one, gammaincc_nat k hr.le, Finset.mul_sum]
  refine Finset.sum_congr rfl (fun j _ => ?_)
  rw [Poisson.pmf_eq j hr, mul_div_assoc]

/-! ## LogNormal -/

/-- The LogNormal CDF of the code, `Normal.cdf (log x)`, is the integral of the code's log-normal
density over `(0, x]`, for every `x > 0`.  Proof: substitution `t = eᵘ` (`(0, x] = exp '' (−∞, log x]`,
`eᵘ · pdf_LN(eᵘ) = pdf_N(u)`), then `Normal.cdf_eq_integral`. -/
theorem LogNormal.cdf_eq_integral {x : ℝ} (hx : 0 < x) (μ : ℝ) {σ : ℝ} (hσ : 0 < σ) :
    LogNormal.cdf realSpecial x μ σ = ∫ t in Set.Ioc 0 x, LogNormal.pdf t μ σ := by
  have himg : Real.exp '' Iic (Real.log x) = Ioc 0 x := by
    rw [Real.image_exp_Iic, Real.exp_log hx]
  rw [← himg, integral_image_exp measurableSet_Iic]
  simp_rw [lognormal_pdf_exp _ μ hσ]
  exact Normal.cdf_eq_integral (Real.log x) μ hσ

/-- The log-normal density integrates to one over its support `(0, ∞)`. -/
theorem LogNormal.integral_pdf (μ : ℝ) {σ : ℝ} (hσ : 0 < σ) :
    ∫ x in Set.Ioi 0, LogNormal.pdf x μ σ = 1 := by
  have h := (lognormal_moment 0 μ hσ).2
  simpa using h

/-- … and it is integrable there. -/
theorem LogNormal.integrableOn_pdf (μ : ℝ) {σ : ℝ} (hσ : 0 < σ) :
    IntegrableOn (fun x => LogNormal.pdf x μ σ) (Set.Ioi 0) := by
  have h := (lognormal_moment 0 μ hσ).1
  simpa using h

/-- First moment of the log-normal density together with the integrability of the integrand.
Proof: substitution `x = eᵘ` and the Gaussian moment generating function at `1`. -/
theorem LogNormal.integrableOn_and_integral_mean (μ : ℝ) {σ : ℝ} (hσ : 0 < σ) :
    IntegrableOn (fun x => x * LogNormal.pdf x μ σ) (Set.Ioi 0) ∧
    ∫ x in Set.Ioi 0, x * LogNormal.pdf x μ σ = LogNormal.mean μ σ := by
  obtain ⟨hi, he⟩ := lognormal_moment 1 μ hσ
  simp only [pow_one] at hi he
  refine ⟨hi, ?_⟩
  rw [he]
  simp only [LogNormal.mean, exp, pow2]
  congr 1
  push_cast
  ring

/-- The stated mean `exp (μ + σ²/2)` is the first moment of the log-normal density over its support
`(0, ∞)` (the integrand is integrable: `LogNormal.integrableOn_and_integral_mean`). -/
theorem LogNormal.integral_mean (μ : ℝ) {σ : ℝ} (hσ : 0 < σ) :
    ∫ x in Set.Ioi 0, x * LogNormal.pdf x μ σ = LogNormal.mean μ σ :=
  (LogNormal.integrableOn_and_integral_mean μ hσ).2

/-- Second central moment of the log-normal density together with the integrability of the
integrand.  Proof: expand the square; the raw moments of order 0, 1, 2 are `1`, `e^{μ+σ²/2}`,
`e^{2μ+2σ²}` (Gaussian moment generating function at `0, 1, 2` after the substitution `x = eᵘ`). -/
theorem LogNormal.integrableOn_and_integral_variance (μ : ℝ) {σ : ℝ} (hσ : 0 < σ) :
    IntegrableOn (fun x => (x - LogNormal.mean μ σ) ^ 2 * LogNormal.pdf x μ σ) (Set.Ioi 0) ∧
    ∫ x in Set.Ioi 0, (x - LogNormal.mean μ σ) ^ 2 * LogNormal.pdf x μ σ
      = LogNormal.variance realSpecial μ σ := by
  obtain ⟨hi0, he0⟩ := lognormal_moment 0 μ hσ
  obtain ⟨hi1, he1⟩ := lognormal_moment 1 μ hσ
  obtain ⟨hi2, he2⟩ := lognormal_moment 2 μ hσ
  set m := LogNormal.mean μ σ with hm
  have hexp : ∀ x : ℝ, (x - m) ^ 2 * LogNormal.pdf x μ σ
      = x ^ 2 * LogNormal.pdf x μ σ - 2 * m * (x ^ 1 * LogNormal.pdf x μ σ)
        + m ^ 2 * (x ^ 0 * LogNormal.pdf x μ σ) := by
    intro x; ring
  simp_rw [hexp]
  have hi1' := hi1.const_mul (2 * m)
  have hi0' := hi0.const_mul (m ^ 2)
  have h21 : Integrable (fun x => x ^ 2 * LogNormal.pdf x μ σ - 2 * m * (x ^ 1 * LogNormal.pdf x μ σ))
      (volume.restrict (Ioi 0)) := hi2.sub hi1'
  refine ⟨h21.add hi0', ?_⟩
  rw [integral_add h21 hi0', integral_sub hi2 hi1', integral_const_mul,
    integral_const_mul, he0, he1, he2]
  simp only [hm, LogNormal.mean, LogNormal.variance, realSpecial, exp, pow2]
  push_cast
  have e1 : Real.exp (μ * 2 + σ ^ 2 * 2 ^ 2 / 2) = Real.exp (σ ^ 2) * Real.exp (2 * μ + σ ^ 2) := by
    rw [← Real.exp_add]; congr 1; ring
  have e2 : Real.exp (μ + σ ^ 2 / 2) ^ 2 = Real.exp (2 * μ + σ ^ 2) := by
    rw [← Real.exp_nat_mul]; congr 1; push_cast; ring
  have e3 : Real.exp (μ * 1 + σ ^ 2 * 1 ^ 2 / 2) = Real.exp (μ + σ ^ 2 / 2) := by
    congr 1; ring
  have e4 : Real.exp (μ * 0 + σ ^ 2 * 0 ^ 2 / 2) = 1 := by
    rw [← Real.exp_zero]; congr 1; ring
  rw [e1, e3, e4]
  linear_combination (-1 : ℝ) * e2

/-- The stated variance `expm1 (σ²) · exp (2μ + σ²)` (with `expm1 x = eˣ − 1`) is the second central
moment of the log-normal density over its support `(0, ∞)` (the integrand is integrable:
`LogNormal.integrableOn_and_integral_variance`). -/
theorem LogNormal.integral_variance (μ : ℝ) {σ : ℝ} (hσ : 0 < σ) :
    ∫ x in Set.Ioi 0, (x - LogNormal.mean μ σ) ^ 2 * LogNormal.pdf x μ σ
      = LogNormal.variance realSpecial μ σ :=
  (LogNormal.integrableOn_and_integral_variance μ hσ).2

-- non-vacuity: μ = 1, σ = 2, x = 3, rate 3/2, k = 4 satisfy every hypothesis above
example : Normal.cdf realSpecial 3 1 2 = ∫ t in Set.Iic (3 : ℝ), Normal.pdf t 1 2 :=
  Normal.cdf_eq_integral 3 1 (by norm_num)
example : Poisson.cdf realSpecial ((4 : ℕ) : ℝ) (3 / 2)
    = ∑ j ∈ Finset.range 5, Poisson.pmf realSpecial (j : ℝ) (3 / 2) :=
  Poisson.cdf_eq_sum 4 (by norm_num)
example : LogNormal.cdf realSpecial 3 1 2 = ∫ t in Set.Ioc (0 : ℝ) 3, LogNormal.pdf t 1 2 :=
  LogNormal.cdf_eq_integral (by norm_num) 1 (by norm_num)
example : ∫ x in Set.Ioi (0 : ℝ), LogNormal.pdf x 1 2 = 1 := LogNormal.integral_pdf 1 (by norm_num)
/-- the CDF at the location parameter is one half (so the integral side is not `0` by
non-integrability) -/
example : ∫ t in Set.Iic (1 : ℝ), Normal.pdf t 1 2 = 1 / 2 :=
  normal_pdf_integral_Iic_loc 1 (by norm_num)

end InfernoVerif.Dist.R
