import InfernoVerif.Lemmas.Ring
/-!
# C01 — RecordTensor is a faithful ring-buffer history under every operation order

Property theorems only (helper lemmas live in `Lemmas/Ring.lean`, definitions in
`Model/Ring.lean` and `Model/RingOps.lean`).  Everything here is core Lean: no Mathlib.

* `ring_step_refines` / `ring_run_refines`: for every record size `n ≥ 1`, every element type,
  every dtype-conversion function, every well-formed state and EVERY finite operation list
  over {push, pop, peek, read, write, readrange (scalar / tensor offset), writerange (scalar /
  tensor offset, in-place / out-of-place), incr, decr, align, reset, initialize, deinitialize},
  the code-shaped machine (pointer + storage, one function per Python branch) produces the same
  outputs as the plain list-of-observations machine and stays in the abstraction relation.
* Corollaries: in-place = out-of-place, tensor offset = scalar offset, whole-record and
  wrapping range reads, push-then-read, first push adopts the observation's dtype.
-/
namespace InfernoVerif.Ring
variable {β : Type}

/-- One step of the code-shaped machine refines one step of the list-of-observations
specification: abstract states agree, outputs agree (up to the raw pointer value), and
well-formedness is preserved. -/
theorem ring_step_refines (E : Elem β) (s : MState β) (hw : MWF s) (op : Op β) :
    sabs (step E s op).1 = (sstep E (sabs s) op).1 ∧
    (step E s op).2.forget = (sstep E (sabs s) op).2.forget ∧
    MWF (step E s op).1 := by
  obtain ⟨n, st⟩ := s
  obtain ⟨hn, hst⟩ := hw
  simp only at hn
  have fresh_ok : ∀ (sh : List Nat) (d : DType) (x : List β) (b : Bool),
      ((freshRing n sh E.zero).push x b).abs = specPush (freshHist n sh E.zero) x ∧
      ((freshRing n sh E.zero).push x b).WF ∧ ((freshRing n sh E.zero).push x b).n = n := by
    intro sh d x b
    refine ⟨?_, push_wf _ (freshRing_wf n hn sh _) x b, by simp [Ring.push, Ring.incr, Ring.write, Ring.writeInplace, Ring.writeSplice, freshRing]; split <;> rfl⟩
    rw [push_refines _ (freshRing_wf n hn sh _), freshRing_abs n hn]
  cases st with
  | init d sh r =>
    obtain ⟨hr, hrn⟩ := hst
    simp only at hrn
    subst hrn
    have hrn : r.n = r.n := rfl
    have hl := abs_length r hr
    cases op with
    | read o => simp [step, sstep, sabs, MWF, Out.forget, hn, hr, read_refines r hr]
    | peek => simp [step, sstep, sabs, MWF, Out.forget, hn, hr, read_refines r hr]
    | pop =>
      have h1 := pop_refines r hr
      have h2 : r.pop.1.WF := decr_wf r hr 1
      simp [step, sstep, sabs, MWF, Out.forget, hn]
      rw [← h1]
      exact ⟨rfl, rfl, h2, rfl⟩
    | write x o b =>
      by_cases hs : x.shape = sh
      · simp [step, sstep, sabs, MWF, Out.forget, hn, hs, write_refines r hr, write_wf r hr]
        unfold Ring.write Ring.writeInplace Ring.writeSplice; split <;> exact hrn
      · simp [step, sstep, sabs, MWF, Out.forget, hn, hs, hr]
    | push x b =>
      by_cases hs : x.shape = sh
      · simp [step, sstep, sabs, MWF, Out.forget, hn, hs, push_refines r hr, push_wf r hr]
        unfold Ring.push Ring.incr Ring.write Ring.writeInplace Ring.writeSplice; split <;> exact hrn
      · simp [step, sstep, sabs, MWF, Out.forget, hn, hs, hr]
    | incr q => simp [step, sstep, sabs, MWF, Out.forget, hn, incr_refines r hr, incr_wf r hr]; exact hrn
    | decr q => simp [step, sstep, sabs, MWF, Out.forget, hn, decr_refines r hr, decr_wf r hr]; exact hrn
    | readrange len o fwd =>
      by_cases hlen : len = 0 ∨ len > r.n
      · simp [step, sstep, sabs, MWF, Out.forget, hn, hr, hl, hlen]
      · have h1 : 1 ≤ len ∧ len ≤ r.n := by omega
        simp [step, sstep, sabs, MWF, Out.forget, hn, hr, hl, hlen]
        rw [← readrangeGather_refines r hr, ← readrangeScalar_eq_gather r hr len _ h1.1 h1.2]
    | readrangeT len osh offs fwd =>
      by_cases hs : osh = sh
      · by_cases hlen : len = 0 ∨ len > r.n
        · simp [step, sstep, sabs, MWF, Out.forget, hn, hr, hl, hlen, hs]
        · simp [step, sstep, sabs, MWF, Out.forget, hn, hr, hl, hlen, hs]
          exact readrangeT_refines r hr _ _
      · simp [step, sstep, sabs, MWF, Out.forget, hn, hr, hl, hs]
    | writerange dt xsh xs o fwd b =>
      by_cases hs : xsh = sh
      · by_cases hL : xs.length > r.n
        · simp [step, sstep, sabs, MWF, Out.forget, hn, hr, hl, hs, hL]
        · by_cases h0 : xs.length = 0
          · simp [step, sstep, sabs, MWF, Out.forget, hn, hr, hl, hs, hL, h0]
          · have hL' : (xs.map (·.map (E.conv dt d))).length ≤ r.n := by simp; omega
            simp [step, sstep, sabs, MWF, Out.forget, hn, hr, hl, hs, hL, h0]
            refine ⟨writerangeScalar_refines r hr _ _ b hL', writerangeScalar_wf r hr _ _ b hL', ?_⟩
            unfold Ring.writerangeScalar Ring.writerangeInplace Ring.writerangeWrapped Ring.writerangeContig
            split
            · rfl
            · split <;> rfl
      · simp [step, sstep, sabs, MWF, Out.forget, hn, hr, hl, hs]
    | writerangeT dt xsh xs osh offs fwd b =>
      by_cases hs : xsh = sh
      · by_cases hL : xs.length > r.n
        · simp [step, sstep, sabs, MWF, Out.forget, hn, hr, hl, hs, hL]
        · by_cases hs2 : osh = sh
          · by_cases h0 : xs.length = 0
            · simp [step, sstep, sabs, MWF, Out.forget, hn, hr, hl, hs, hs2, hL, h0]
            · simp [step, sstep, sabs, MWF, Out.forget, hn, hr, hl, hs, hs2, hL, h0]
              exact ⟨writerangeT_refines r hr _ _, writerangeT_wf r hr _ _, rfl⟩
          · simp [step, sstep, sabs, MWF, Out.forget, hn, hr, hl, hs, hs2, hL]
      · simp [step, sstep, sabs, MWF, Out.forget, hn, hr, hl, hs]
    | align idx =>
      by_cases h1 : idx < 0
      · simp [step, sstep, sabs, MWF, Out.forget, hn, hr, hl, h1]
      · by_cases h2 : idx.toNat ≥ r.n
        · simp [step, sstep, sabs, MWF, Out.forget, hn, hr, hl, h1, h2]
        · simp [step, sstep, sabs, MWF, Out.forget, hn, hr, hl, h1, h2]
          exact ⟨align_refines r hr _ (by omega), align_wf r hr _ (by omega), rfl⟩
    | reset fill =>
      cases fill with
      | none =>
        simp [step, sstep, sabs, MWF, Out.forget, hn, hr, hl]
        exact ⟨align_refines r hr 0 hn, align_wf r hr 0 hn, rfl⟩
      | some f =>
        simp [step, sstep, sabs, MWF, Out.forget, hn, hr, hl]
        exact ⟨resetFill_refines r hr _, resetFill_wf r hr _, rfl⟩
    | initz sh' =>
      simp [step, sstep, sabs, MWF, Out.forget, hn, initDType, freshRing_abs r.n hn, freshRing_wf r.n hn]
      rfl
    | deinitz u => cases u <;> simp [step, sstep, sabs, MWF, Out.forget, hn]
  | none =>
    cases op with
    | push x b => simpa [step, sstep, sabs, MWF, Out.forget, hn, initDType] using fresh_ok x.shape x.dt _ b
    | align idx => by_cases h1 : idx < 0 <;> by_cases h2 : idx.toNat ≥ n <;> simp [step, sstep, sabs, MWF, Out.forget, hn, h1, h2]
    | reset fill => cases fill <;> simp [step, sstep, sabs, MWF, Out.forget, hn]
    | initz sh =>
      simp [step, sstep, sabs, MWF, Out.forget, hn, initDType, freshRing_abs n hn, freshRing_wf n hn]
      rfl
    | deinitz u => cases u <;> simp [step, sstep, sabs, MWF, Out.forget, hn]
    | _ => simp [step, sstep, sabs, MWF, Out.forget, hn]
  | empty d =>
    cases op with
    | push x b => simpa [step, sstep, sabs, MWF, Out.forget, hn, initDType] using fresh_ok x.shape x.dt _ b
    | align idx => by_cases h1 : idx < 0 <;> by_cases h2 : idx.toNat ≥ n <;> simp [step, sstep, sabs, MWF, Out.forget, hn, h1, h2]
    | reset fill => cases fill <;> simp [step, sstep, sabs, MWF, Out.forget, hn]
    | initz sh =>
      simp [step, sstep, sabs, MWF, Out.forget, hn, initDType, freshRing_abs n hn, freshRing_wf n hn]
      rfl
    | deinitz u => cases u <;> simp [step, sstep, sabs, MWF, Out.forget, hn]
    | _ => simp [step, sstep, sabs, MWF, Out.forget, hn]
  | uninit d =>
    cases op with
    | push x b => simpa [step, sstep, sabs, MWF, Out.forget, hn, initDType] using fresh_ok x.shape x.dt _ b
    | align idx => by_cases h1 : idx < 0 <;> by_cases h2 : idx.toNat ≥ n <;> simp [step, sstep, sabs, MWF, Out.forget, hn, h1, h2]
    | reset fill => cases fill <;> simp [step, sstep, sabs, MWF, Out.forget, hn]
    | initz sh =>
      simp [step, sstep, sabs, MWF, Out.forget, hn, initDType, freshRing_abs n hn, freshRing_wf n hn]
      rfl
    | deinitz u => cases u <;> simp [step, sstep, sabs, MWF, Out.forget, hn]
    | _ => simp [step, sstep, sabs, MWF, Out.forget, hn]

/-- Refinement for every finite operation history (induction over the op list). -/
theorem ring_run_refines (E : Elem β) (ops : List (Op β)) (s : MState β) (hw : MWF s) :
    sabs (run E s ops).1 = (srun E (sabs s) ops).1 ∧
    (run E s ops).2.map Out.forget = (srun E (sabs s) ops).2.map Out.forget ∧
    MWF (run E s ops).1 := by
  induction ops generalizing s with
  | nil => exact ⟨rfl, rfl, hw⟩
  | cons op ops ih =>
    obtain ⟨h1, h2, h3⟩ := ring_step_refines E s hw op
    obtain ⟨i1, i2, i3⟩ := ih (step E s op).1 h3
    simp only [run, srun]
    rw [← h1]
    exact ⟨i1, by simp only [List.map_cons, h2, i2], i3⟩

/-- Every construction state is well formed (`recordsz ≥ 1` is what the constructor's
`max(…, 1)` guarantees). -/
theorem init_wf (n : Nat) (hn : 0 < n) (st : Store (Ring (List β)))
    (h : match st with | .init _ _ r => r.WF ∧ r.n = n | _ => True) : MWF (n, st) := ⟨hn, h⟩

/-! ## Corollaries named in the property statement -/

/-- In-place and out-of-place single writes produce the same storage. -/
theorem write_inplace_irrelevant (r : Ring β) (h : r.WF) (x : β) (o : Int) :
    r.write x o true = r.write x o false := by
  simp only [Ring.write, if_true]
  exact (writeSplice_eq_inplace r h x o).symm

/-- In-place, wrapped-concat and contiguous-concat range writes produce the same storage. -/
theorem writerange_inplace_irrelevant (r : Ring β) (h : r.WF) (xs : List β) (o' : Int)
    (hL : xs.length ≤ r.n) : r.writerangeScalar xs o' true = r.writerangeScalar xs o' false := by
  by_cases hc : unwind r.ptr o' r.n + xs.length > r.n
  · simp only [Ring.writerangeScalar, if_true, hc]
    exact (writerangeWrapped_eq_inplace r h xs o' hL hc).symm
  · simp only [Ring.writerangeScalar, if_true, hc]
    exact (writerangeContig_eq_inplace r h xs o' (by omega)).symm

/-- Scalar-offset range write = the per-position scatter with that offset at every position. -/
theorem writerange_scatter_eq_scalar (r : Ring β) (h : r.WF) (xs : List β) (o' : Int) (b : Bool)
    (hL : xs.length ≤ r.n) : r.writerangeScalar xs o' b = r.writerangeScatter xs o' := by
  cases b
  · rw [← writerange_inplace_irrelevant r h xs o' hL]
    simp only [Ring.writerangeScalar, if_true]; exact writerangeInplace_eq_scatter r h xs o'
  · simp only [Ring.writerangeScalar, if_true]; exact writerangeInplace_eq_scatter r h xs o'

/-- Scalar-offset range read = the per-position gather with that offset (slicing with or
without wrap-around returns exactly the `len` observations, oldest first). -/
theorem readrange_gather_eq_scalar (r : Ring β) (h : r.WF) (len : Nat) (o' : Int)
    (h1 : 1 ≤ len) (hn : len ≤ r.n) :
    (r.readrangeScalar len o').map some = r.readrangeGather len o' :=
  readrangeScalar_eq_gather r h len o' h1 hn

/-- A range read returns, oldest first, the observations at offsets `o', o'-1, …, o'-len+1`
of the list model — for EVERY `1 ≤ len ≤ n`, in particular `len = n` (whole record) and
ranges that wrap the end of storage. -/
theorem readrange_spec (r : Ring β) (h : r.WF) (len : Nat) (o' : Int) (h1 : 1 ≤ len) (hn : len ≤ r.n) :
    (r.readrangeScalar len o').map some = specReadrange r.abs len o' := by
  rw [readrangeScalar_eq_gather r h len o' h1 hn, readrangeGather_refines r h]

/-- Whole-record read: exactly `n` observations come back (D1: the original code returned 0). -/
theorem readrange_full_record (r : Ring β) (h : r.WF) (o' : Int) :
    (r.readrangeScalar r.n o').length = r.n := by
  have := congrArg List.length (readrange_spec r h r.n o' h.1 (Nat.le_refl _))
  simpa [specReadrange] using this

/-- `read(1)` after `push(x)` is `x` (after conversion), for both write modes. -/
theorem push_read (r : Ring β) (h : r.WF) (x : β) (b : Bool) : (r.push x b).read 1 = some x := by
  rw [read_refines _ (push_wf' r h x b), push_refines' r h x b]
  have hl := abs_length r h
  have hpos : 0 < r.abs.length := by rw [hl]; exact h.1
  have := specRead_push r.abs hpos x 0
  simp only [Int.zero_add] at this
  rw [this]
  unfold specRead
  rw [List.length_set, List.getElem?_set]
  simp [specIdx, hl, h.1]

/-- The history after pushing `x₀ … x_t` onto a zero-filled record: `read(k+1) = x_{t-k}` for
`k ≤ t`, the fill value for older slots (used by C04, C06, C07). -/
theorem pushes_then_read' (n : Nat) (z : β) (xs : List β) (k : Nat) (hk : k < n) :
    specRead (pushAll (List.replicate n z) xs) ((k : Int) + 1) =
      some (if h : k < xs.length then xs[xs.length - 1 - k] else z) :=
  pushes_then_read n z xs k hk

/-- First push into `None` storage adopts the observation's dtype (D2), into an empty /
uninitialised tensor keeps that tensor's dtype. -/
theorem push_none_adopts_dtype (E : Elem β) (n : Nat) (x : Obs β) (b : Bool) :
    ∃ r, (step E (n, .none) (.push x b)).1 = (n, .init x.dt x.shape r) := by
  simp [step, initDType]

theorem push_empty_keeps_dtype (E : Elem β) (n : Nat) (d : DType) (x : Obs β) (b : Bool) :
    ∃ r, (step E (n, .empty d) (.push x b)).1 = (n, .init d x.shape r) := by
  simp [step, initDType]

/-- Error branches leave the state untouched. -/
theorem error_leaves_state (E : Elem β) (s : MState β) (op : Op β) (e : Err)
    (h : (step E s op).2 = .err e) : (step E s op).1 = s := by
  obtain ⟨n, st⟩ := s
  cases op <;> cases st <;> simp only [step] at h ⊢ <;> (repeat' split) <;> simp_all

/-! ## Non-vacuity: concrete states meeting the hypotheses -/

/-- A 3-slot ring mid-wrap. -/
def ex3 : Ring Nat := ⟨3, 2, [10, 20, 30]⟩
example : ex3.WF := by unfold Ring.WF; decide
example : ex3.abs = [30, 20, 10] := by decide
-- wrapped out-of-place range write of two observations starting one before the pointer
example : (ex3.writerangeScalar [7, 8] 0 false).data = [8, 20, 7] := by decide
example : ex3.writerangeScalar [7, 8] 0 false = ex3.writerangeScalar [7, 8] 0 true := by decide
-- whole-record read from every pointer position returns all three, oldest first
example : ex3.readrangeScalar 3 2 = [10, 20, 30] := by decide
example : (ex3.incr 1).readrangeScalar 3 2 = [20, 30, 10] := by decide
example : MWF ((3, Store.init false [1] ⟨3, 2, [[10], [20], [30]]⟩) : MState Nat) := by
  refine ⟨by decide, ?_, rfl⟩; unfold Ring.WF; decide

end InfernoVerif.Ring
