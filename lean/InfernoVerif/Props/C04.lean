import InfernoVerif.Lemmas.Synapse
/-!
# C04 — Synapse currents equal the impulse-response sum; delayed reads see the past

Property theorems only (definitions in `Model/Synapse.lean`, helper lemmas in
`Lemmas/Synapse.lean`).  The theorems are about the code-shaped model instantiated at `ℝ`
(`realSOps`: `Model/Select.lean`'s arithmetic over `ℝ`, `Real.exp`, and the interpolation kernels
GENERATED from /repo, `Gen/InterpolationR`); `drivers/C04.lean` executes the SAME definitions over
`Float` and `harness/corr/c04.py` compares them with the real classes after every step.

Throughout: `x : ℕ → ℝ` is the input `inputs[0]` of step `0, 1, 2, …` (ANY sequence — a spike train
when its values are `0`/`1`), `inj : ℕ → List ℝ` the injected currents `inputs[1:]`;
`stateAt … t = some s` says `s` is the synapse state after `t` calls of `forward` on a freshly
constructed synapse, `outAt … n` is what the `n`-th call returns.  `Valid c` is what the
constructors validate (`dt > 0`, `delay ≥ 0`, `tolerance ≥ 0`).
-/
namespace InfernoVerif.Synapse
open InfernoVerif.Ring InfernoVerif.Select
open Classical

/-! ## currents equal the documented response, for EVERY input sequence -/

/-- Delta synapse: the current is the `Q/Δt` pulse exactly on the steps with an input spike. -/
theorem delta_current (c : Cfg ℝ) (hk : c.kind = .delta) (x : ℕ → ℝ) (inj : ℕ → List ℝ) (n : ℕ) :
    outAt realSOps c x inj n = some (if x n ≠ 0 then c.Q / c.dt else 0) := by
  rw [outAt_eq]
  simp only [outSeq, hk, spikeSeq, toSpike, realOps, Bool.or_eq_true, decide_eq_true_eq, Int.cast_zero, Int.cast_one]
  congr 1
  by_cases h : x n = 0
  · simp [h]
  · have : x n < 0 ∨ 0 < x n := lt_or_gt_of_ne h
    simp [h, this]

/-- Delta-plus synapse: `x_n · Q/Δt` plus the injected currents of the same step (no memory). -/
theorem deltaplus_current (c : Cfg ℝ) (hk : c.kind = .deltaPlus) (x : ℕ → ℝ) (inj : ℕ → List ℝ) (n : ℕ) :
    outAt realSOps c x inj n = some (x n * (c.Q / c.dt) + (inj n).sum) := by
  rw [outAt_eq]
  simp only [outSeq, hk, curSeq]
  congr 1
  rw [List.foldl_cons, zero_add]
  generalize x n * (c.Q / c.dt) = a
  induction inj n generalizing a with
  | nil => simp
  | cons y ys ih => rw [List.foldl_cons, ih, List.sum_cons]; ring

/-- Single exponential synapse: after ANY input sequence the current is the sum over past inputs
of the documented response `Q/τ · exp(-age/τ)`, `age = (n-k)·Δt`. -/
theorem single_exp_current (c : Cfg ℝ) (hk : c.kind = .singleExp) (x : ℕ → ℝ) (inj : ℕ → List ℝ) (n : ℕ) :
    outAt realSOps c x inj n =
      some (∑ k ∈ Finset.range (n + 1), x k * (c.Q / c.tau) * Real.exp (-(((n - k : ℕ) : ℝ) * c.dt) / c.tau)) := by
  rw [outAt_eq]
  simp only [outSeq, hk]
  rw [curSeq_singleExp c hk]

/-- Double exponential synapse: the sum over past inputs of the difference of exponentials
`Q/(τ_d-τ_r) · (exp(-age/τ_d) - exp(-age/τ_r))`. -/
theorem double_exp_current (c : Cfg ℝ) (hk : c.kind = .doubleExp) (x : ℕ → ℝ) (inj : ℕ → List ℝ) (n : ℕ) :
    outAt realSOps c x inj n =
      some (∑ k ∈ Finset.range (n + 1), x k * (c.Q / (c.tau - c.tauR)) *
        (Real.exp (-(((n - k : ℕ) : ℝ) * c.dt) / c.tau) - Real.exp (-(((n - k : ℕ) : ℝ) * c.dt) / c.tauR))) := by
  rw [outAt_eq]
  simp only [outSeq, hk]
  rw [curSeq_doubleExp c hk, negSeq_closed, ← Finset.sum_sub_distrib]
  congr 1
  apply Finset.sum_congr rfl
  intro k _; ring

/-- The stored spike record equals the input: `synapse.spike` after step `n` is `inputs[0].bool()`. -/
theorem spike_record_eq_input (c : Cfg ℝ) (x : ℕ → ℝ) (inj : ℕ → List ℝ) (n : ℕ) :
    (stateAt realSOps c x inj (n + 1)).bind (spikeNow realSOps) = some (decide (x n ≠ 0)) := by
  obtain ⟨s, hs, hi⟩ := stateAt_inv c x inj (n + 1)
  rw [hs]
  simp only [Option.bind_some, spikeNow]
  rw [tracks_peek hi.1, histAt_zero_succ]
  simp only [Option.map_some, spikeSeq]
  exact congrArg some (isSpike_toSpike (x n))

/-! ## delayed reads see the past -/

/-- `current_at(k·Δt)` with `0 ≤ k·Δt ≤ delay`, after `t` steps, is exactly the current `forward`
returned `k` steps ago (`outAt … (t-1-k)`, see the four theorems above for its closed form), and `0`
when that is before the start — no interpolation is involved, whatever the tolerance and the
overbound setting. -/
theorem current_at_grid (c : Cfg ℝ) (hv : Valid c) (x : ℕ → ℝ) (inj : ℕ → List ℝ) (t : ℕ) (s : St ℝ)
    (hs : stateAt realSOps c x inj t = some s) (k : ℕ) (hk : (k : ℝ) * c.dt ≤ c.delay) :
    currentAt realSOps c s ((k : ℝ) * c.dt) = .ok (if k < t then outSeq c x inj (t - 1 - k) else 0) ∧
    (k < t → outAt realSOps c x inj (t - 1 - k) = some (outSeq c x inj (t - 1 - k))) := by
  refine ⟨?_, fun _ => outAt_eq c x inj _⟩
  obtain ⟨s', hs', hi⟩ := stateAt_inv c x inj t
  rw [hs] at hs'; cases (Option.some.inj hs').symm; clear hs'
  obtain ⟨hsp, hc, hn⟩ := hi
  unfold currentAt
  cases hkind : c.kind with
  | delta =>
    simp only
    rw [show realSOps.K = realOps from rfl, synparamAt_grid _ c hv hsp]
    · congr 1
      simp only [histAt, outSeq, hkind, spikeToCurrent, realSOps, realOps]
      split <;> simp
    · exact hk
  | deltaPlus =>
    simp only
    rw [show realSOps.K = realOps from rfl, synparamAt_grid _ c hv (hc (by simp [hkind, usesCur])) _ _ k hk]
    simp only [histAt, outSeq, hkind, id]
  | singleExp =>
    simp only
    rw [show realSOps.K = realOps from rfl, synparamAt_grid _ c hv (hc (by simp [hkind, usesCur])) _ _ k hk]
    simp only [histAt, outSeq, hkind, id]
  | doubleExp =>
    simp only [currentAtDouble]
    have hc' := hc (by simp [hkind, usesCur])
    have hn' := hn (by simp [hkind, usesNeg])
    obtain ⟨e1, e2⟩ := rawAt_grid (expInterp realSOps c.tau) c hv hc' k hk
    obtain ⟨e3, _⟩ := rawAt_grid (expInterp realSOps c.tauR) c hv hn' k hk
    rw [show realSOps.K = realOps from rfl, hsp.2.1, e1, e3]
    simp only
    rw [e2, applyOverbound_same _ hv.tol_nonneg]
    congr 1
    simp only [histAt, outSeq, hkind, realOps]
    split <;> simp

/-- `spike_at(k·Δt)` with `0 ≤ k·Δt ≤ delay` is the input spike of `k` steps ago, `False` before
the start. -/
theorem spike_at_grid (c : Cfg ℝ) (hv : Valid c) (x : ℕ → ℝ) (inj : ℕ → List ℝ) (t : ℕ) (s : St ℝ)
    (hs : stateAt realSOps c x inj t = some s) (k : ℕ) (hk : (k : ℝ) * c.dt ≤ c.delay) :
    spikeAt realSOps c s ((k : ℝ) * c.dt) = .ok (if k < t then decide (x (t - 1 - k) ≠ 0) else false) := by
  obtain ⟨s', hs', hc⟩ := stateAt_inv c x inj t
  rw [hs] at hs'; cases (Option.some.inj hs').symm; clear hs'
  unfold spikeAt
  rw [show realSOps.K = realOps from rfl, synparamAt_grid _ c hv hc.1 _ _ k hk, map_ok]
  congr 1
  simp only [histAt, id]
  split
  · exact isSpike_toSpike _
  · exact isSpike_zero

/-- `current_at(sel)` for `0 ≤ sel ≤ delay` NOT within tolerance of a step, single exponential
synapse: the current `⌈sel/Δt⌉` steps ago decayed by `exp(-elapsed/τ)` over the time elapsed since
then (`interp_expdecay`, generated from /repo). -/
theorem current_at_between_single_exp (c : Cfg ℝ) (hv : Valid c) (hkind : c.kind = .singleExp)
    (x : ℕ → ℝ) (inj : ℕ → List ℝ) (t : ℕ) (s : St ℝ) (hs : stateAt realSOps c x inj t = some s)
    (sel : ℝ) (h0 : 0 ≤ sel) (h1 : sel ≤ c.delay) (hoff : ¬ OnGrid c.dt c.tol sel) :
    currentAt realSOps c s sel =
      .ok ((if ⌈sel / c.dt⌉.toNat < t then outSeq c x inj (t - 1 - ⌈sel / c.dt⌉.toNat) else 0) *
            Real.exp (-((⌈sel / c.dt⌉ : ℝ) * c.dt - sel) / c.tau)) := by
  obtain ⟨s', hs', hc⟩ := stateAt_inv c x inj t
  rw [hs] at hs'; cases (Option.some.inj hs').symm; clear hs'
  unfold currentAt
  simp only [hkind]
  rw [show realSOps.K = realOps from rfl,
    synparamAt_between _ c hv (hc.2.1 (by simp [hkind, usesCur])) _ _ sel h0 h1 hoff]
  simp only [id, expInterp, realSOps, Gen.InterpolationR.interp_expdecay, histAt, outSeq, hkind]

/-- The same for the delta classes (`interp_mode` ∈ {previous, nearest}): the current of one of
the two bracketing steps — the older one for `previous`; for `nearest` the newer one iff more than
half a step has elapsed since the older one. -/
theorem current_at_between_deltaplus (c : Cfg ℝ) (hv : Valid c) (hkind : c.kind = .deltaPlus)
    (x : ℕ → ℝ) (inj : ℕ → List ℝ) (t : ℕ) (s : St ℝ) (hs : stateAt realSOps c x inj t = some s)
    (sel : ℝ) (h0 : 0 ≤ sel) (h1 : sel ≤ c.delay) (hoff : ¬ OnGrid c.dt c.tol sel) :
    currentAt realSOps c s sel =
      .ok (let older := if ⌈sel / c.dt⌉.toNat < t then outSeq c x inj (t - 1 - ⌈sel / c.dt⌉.toNat) else 0
           let newer := if ⌊sel / c.dt⌋.toNat < t then outSeq c x inj (t - 1 - ⌊sel / c.dt⌋.toNat) else 0
           match c.mode with
           | .previous => older
           | .nearest => if ((⌈sel / c.dt⌉ : ℝ) * c.dt - sel) / c.dt > 0.5 then newer else older) := by
  obtain ⟨s', hs', hc⟩ := stateAt_inv c x inj t
  rw [hs] at hs'; cases (Option.some.inj hs').symm; clear hs'
  unfold currentAt
  simp only [hkind]
  rw [show realSOps.K = realOps from rfl,
    synparamAt_between _ c hv (hc.2.1 (by simp [hkind, usesCur])) _ _ sel h0 h1 hoff]
  cases c.mode <;>
    simp only [id, modeInterp, realSOps, Gen.InterpolationR.interp_previous, Gen.InterpolationR.interp_nearest,
      histAt, outSeq, hkind]

/-- Delta synapse between steps: the spike record is interpolated (`previous` / `nearest`) and
then converted to a current, which is the current of the chosen bracketing step. -/
theorem current_at_between_delta (c : Cfg ℝ) (hv : Valid c) (hkind : c.kind = .delta)
    (x : ℕ → ℝ) (inj : ℕ → List ℝ) (t : ℕ) (s : St ℝ) (hs : stateAt realSOps c x inj t = some s)
    (sel : ℝ) (h0 : 0 ≤ sel) (h1 : sel ≤ c.delay) (hoff : ¬ OnGrid c.dt c.tol sel) :
    currentAt realSOps c s sel =
      .ok (let older := if ⌈sel / c.dt⌉.toNat < t then outSeq c x inj (t - 1 - ⌈sel / c.dt⌉.toNat) else 0
           let newer := if ⌊sel / c.dt⌋.toNat < t then outSeq c x inj (t - 1 - ⌊sel / c.dt⌋.toNat) else 0
           match c.mode with
           | .previous => older
           | .nearest => if ((⌈sel / c.dt⌉ : ℝ) * c.dt - sel) / c.dt > 0.5 then newer else older) := by
  obtain ⟨s', hs', hc⟩ := stateAt_inv c x inj t
  rw [hs] at hs'; cases (Option.some.inj hs').symm; clear hs'
  unfold currentAt
  simp only [hkind]
  rw [show realSOps.K = realOps from rfl, synparamAt_between _ c hv hc.1 _ _ sel h0 h1 hoff]
  congr 1
  cases c.mode <;>
    simp only [modeInterp, realSOps, Gen.InterpolationR.interp_previous, Gen.InterpolationR.interp_nearest,
      histAt, outSeq, hkind, spikeToCurrent, realOps] <;>
    (repeat' split) <;> simp

/-- Double exponential synapse between steps: each trace is decayed from the older bracketing
step with its own time constant, then subtracted. -/
theorem current_at_between_double_exp (c : Cfg ℝ) (hv : Valid c) (hkind : c.kind = .doubleExp)
    (x : ℕ → ℝ) (inj : ℕ → List ℝ) (t : ℕ) (s : St ℝ) (hs : stateAt realSOps c x inj t = some s)
    (sel : ℝ) (h0 : 0 ≤ sel) (h1 : sel ≤ c.delay) (hoff : ¬ OnGrid c.dt c.tol sel) :
    currentAt realSOps c s sel =
      .ok ((if ⌈sel / c.dt⌉.toNat < t then curSeq c x inj (t - 1 - ⌈sel / c.dt⌉.toNat) else 0) *
              Real.exp (-((⌈sel / c.dt⌉ : ℝ) * c.dt - sel) / c.tau)
           - (if ⌈sel / c.dt⌉.toNat < t then negSeq c x (t - 1 - ⌈sel / c.dt⌉.toNat) else 0) *
              Real.exp (-((⌈sel / c.dt⌉ : ℝ) * c.dt - sel) / c.tauR)) := by
  obtain ⟨s', hs', hsp, hc, hn⟩ := stateAt_inv c x inj t
  rw [hs] at hs'; cases (Option.some.inj hs').symm; clear hs'
  have hc' := hc (by simp [hkind, usesCur])
  have hn' := hn (by simp [hkind, usesNeg])
  obtain ⟨e1, e2⟩ := rawAt_between (expInterp realSOps c.tau) c hv hc' sel h0 h1 hoff
  obtain ⟨e3, _⟩ := rawAt_between (expInterp realSOps c.tauR) c hv hn' sel h0 h1 hoff
  unfold currentAt
  simp only [hkind, currentAtDouble]
  rw [show realSOps.K = realOps from rfl, hsp.2.1, e1, e3]
  simp only
  rw [e2, applyOverbound_same _ hv.tol_nonneg]
  simp only [expInterp, realSOps, Gen.InterpolationR.interp_expdecay, histAt, realOps]

/-! ## beyond the supported range -/

/-- With an out-of-bounds value configured, a selector farther than the tolerance beyond
`[0, delay]` returns exactly that value — in every reachable state, for all four classes. -/
theorem beyond_range_overbound (c : Cfg ℝ) (hv : Valid c) (x : ℕ → ℝ) (inj : ℕ → List ℝ) (t : ℕ) (s : St ℝ)
    (hs : stateAt realSOps c x inj t = some s) (o : ℝ) (ho : c.curOver = some o) (sel : ℝ)
    (h : c.delay + c.tol < sel ∨ sel < -c.tol) :
    currentAt realSOps c s sel = .ok o := by
  obtain ⟨s', hs', hsp, hc, hn⟩ := stateAt_inv c x inj t
  rw [hs] at hs'; cases (Option.some.inj hs').symm; clear hs'
  unfold currentAt
  cases hkind : c.kind with
  | delta => simp only [ho]; exact synparamAt_beyond _ c hv _ hsp.1 hsp.2.1 o _ sel h
  | deltaPlus =>
    have hc' := hc (by simp [hkind, usesCur])
    simp only [ho]; exact synparamAt_beyond _ c hv _ hc'.1 hc'.2.1 o _ sel h
  | singleExp =>
    have hc' := hc (by simp [hkind, usesCur])
    simp only [ho]; exact synparamAt_beyond _ c hv _ hc'.1 hc'.2.1 o _ sel h
  | doubleExp =>
    have hc' := hc (by simp [hkind, usesCur])
    have hn' := hn (by simp [hkind, usesNeg])
    obtain ⟨p, hp⟩ := rawAt_ok (expInterp realSOps c.tau) c hv _ hc'.1 hc'.2.1 (s.spike.n == 1) sel
    obtain ⟨q, hq⟩ := rawAt_ok (expInterp realSOps c.tauR) c hv _ hn'.1 hn'.2.1 (s.spike.n == 1) sel
    simp only [currentAtDouble, ho]
    rw [show realSOps.K = realOps from rfl, hp, hq]
    simp only
    rw [applyOverbound_beyond _ _ hv.tol_nonneg hv.delay_nonneg _ _ _ _ h]

/-- The same for spikes (`spike_overbound`); D5 (swapped `tolerance` / `overbound` arguments in
`SpikeMixin.spike_at`) broke exactly this. -/
theorem spike_beyond_range_overbound (c : Cfg ℝ) (hv : Valid c) (x : ℕ → ℝ) (inj : ℕ → List ℝ) (t : ℕ) (s : St ℝ)
    (hs : stateAt realSOps c x inj t = some s) (o : Bool) (ho : c.spkOver = some o) (sel : ℝ)
    (h : c.delay + c.tol < sel ∨ sel < -c.tol) :
    spikeAt realSOps c s sel = .ok o := by
  obtain ⟨s', hs', hsp, _⟩ := stateAt_inv c x inj t
  rw [hs] at hs'; cases (Option.some.inj hs').symm; clear hs'
  unfold spikeAt
  rw [ho, show realSOps.K = realOps from rfl, Option.map_some,
    synparamAt_beyond _ c hv _ hsp.1 hsp.2.1 _ _ sel h, map_ok]
  congr 1
  cases o <;> simp [ofBool, isSpike, realOps]

/-- With no out-of-bounds value configured (`None`), every selector at or beyond the supported
delay returns the value at the limit — in ANY state, for all four classes; `current_at_grid` /
`current_at_between_*` at `sel = delay` say what that value is. -/
theorem beyond_range_clamps (c : Cfg ℝ) (hv : Valid c) (s : St ℝ) (ho : c.curOver = none) (sel : ℝ)
    (h : c.delay ≤ sel) : currentAt realSOps c s sel = currentAt realSOps c s c.delay := by
  unfold currentAt
  cases c.kind <;> simp only [ho, show realSOps.K = realOps from rfl]
  · exact synparamAt_clamps _ c hv _ _ sel h
  · exact synparamAt_clamps _ c hv _ _ sel h
  · exact synparamAt_clamps _ c hv _ _ sel h
  · simp only [currentAtDouble, rawAt, boundedSel, ho, applyOverbound_none, show realSOps.K = realOps from rfl,
      clamp_above _ _ hv.delay_nonneg h, clamp_above _ _ hv.delay_nonneg (le_refl _)]

theorem spike_beyond_range_clamps (c : Cfg ℝ) (hv : Valid c) (s : St ℝ) (ho : c.spkOver = none) (sel : ℝ)
    (h : c.delay ≤ sel) : spikeAt realSOps c s sel = spikeAt realSOps c s c.delay := by
  unfold spikeAt
  rw [ho, show realSOps.K = realOps from rfl, Option.map_none, synparamAt_clamps _ c hv _ _ sel h]

/-! ## in-place and out-of-place modes -/

/-- `inplace=True` and `inplace=False` give the same states and the same returned currents after
every input history — for EVERY arithmetic `S` (so also for the `Float` instance the driver
executes), from C01's `write_inplace_irrelevant`. -/
theorem inplace_irrelevant {α : Type} (S : SOps α) (c : Cfg α) (b : Bool) (x : ℕ → α) (inj : ℕ → List α) (t : ℕ) :
    stateAt S { c with inplace := b } x inj t = stateAt S c x inj t ∧
    outAt S { c with inplace := b } x inj t = outAt S c x inj t := by
  have h := stateAt_inplace S c b x inj t
  refine ⟨h, ?_⟩
  unfold outAt
  rw [h]
  cases h0 : stateAt S c x inj t with
  | none => rfl
  | some s0 => simp only [Option.bind_some, step_inplace S c b s0 (stateAt_wf S c x inj t s0 h0)]

/-! ## `clear()` -/

/-- `clear()` after ANY history restores the freshly constructed state, so every theorem above also
holds with "steps since the last clear" in place of "steps since construction" — for every
arithmetic `S`. -/
theorem clear_restores_init {α : Type} (S : SOps α) (c : Cfg α) (x : ℕ → α) (inj : ℕ → List α) (t : ℕ) (s : St α)
    (h : stateAt S c x inj t = some s) : clear S s = init S c :=
  clear_reachable S c x inj t s h

/-! ## Non-vacuity: concrete configurations meeting the hypotheses -/

/-- `delay = 2.5·Δt`, tolerance `Δt/4`, overbound `-7`. -/
noncomputable def exCfg : Cfg ℝ :=
  { kind := .singleExp, dt := 1, delay := 2.5, Q := 2, tau := 4, tauR := 1, mode := .previous, tol := 0.25,
    curOver := some (-7), spkOver := some true, inplace := false }

example : Valid exCfg := ⟨by norm_num [exCfg], by norm_num [exCfg], by norm_num [exCfg]⟩
-- four slots: steps t, t-1, t-2, t-3
example : exCfg.n realSOps = 4 := by
  rw [n_eq]
  have : ⌈exCfg.delay / exCfg.dt⌉ = 3 := by
    rw [Int.ceil_eq_iff]; norm_num [exCfg]
  rw [this]; rfl
-- k = 2 is on the grid inside the range, 2.25 is within tolerance, 2.5 is strictly between steps
example : ((2 : ℕ) : ℝ) * exCfg.dt ≤ exCfg.delay := by norm_num [exCfg]
example : exCfg.delay + exCfg.tol < 3 := by norm_num [exCfg]
example : ¬ OnGrid exCfg.dt exCfg.tol 2.5 := by
  intro h
  obtain ⟨k, hk⟩ := (onGrid_iff_exists _ _ _ (by norm_num [exCfg])).mp h
  simp only [exCfg, mul_one] at hk
  rw [abs_le] at hk
  have h1 : (2 : ℝ) < k := by linarith [hk.1]
  have h2 : (k : ℝ) < 3 := by linarith [hk.2]
  have h1' : (2 : ℤ) < k := by exact_mod_cast h1
  have h2' : k < (3 : ℤ) := by exact_mod_cast h2
  omega

end InfernoVerif.Synapse
