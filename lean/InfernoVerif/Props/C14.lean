import InfernoVerif.Lemmas.Config
import InfernoVerif.Props.C13
/-!
# C14 — Configuration-path independence: setters reach the same model as the constructor

Property theorems only (definitions `Model/Config.lean`, helper lemmas `Lemmas/Config.lean`).

For every component kind (synapse with any number of records, neuron with any number of
batched tensors, reducer, connection with replaceable synapse), every start configuration and
EVERY finite sequence of valid setter calls:
* `*_setters_reach_constructor`: the state reached by the setters — reported getters, every
  internal record's dt / duration / inclusive / `recordsz`, every batch dimension — is *equal* to
  the state the constructor builds for the configuration in which each attribute holds the value
  last assigned to it (induction over the setter sequence; step lemma `*_setter_from_constructed`);
* `*_setter_frame`: one assignment leaves every other reported attribute unchanged (from ANY
  state, not only constructed ones);
* `*_invalid_setter_no_change`: a refused assignment changes nothing;
* `summary_tracks_record`: the record summary used here is what the C13 machine computes.
The machine has no dynamic contents, so "equal after `clear()`" is this state equality; equality
of outputs from a cleared state is checked on the real code by `harness/corr/c14.py`.
-/
namespace InfernoVerif.Config
open InfernoVerif.Ring (Err)
open InfernoVerif.Record (TimeOps recSize)
variable {τ : Type} [DecidableEq τ]

/-! ## Synapses (BatchMixin + DelayedMixin + InfernoSynapse) -/

/-- the constructor's state reports the constructor's arguments -/
theorem synapse_reports_config (T : TimeOps τ) (c : SynCfg τ) :
    (Synapse.construct T c).report = ⟨c.dt, some c.delay, some c.batch, none, some c.inplace, c.dtype⟩ := by
  rw [synapse_construct_eq]; rfl

/-- every internal record of a constructed synapse has `max(⌈delay/dt⌉ + 1, 1)` slots -/
theorem synapse_record_sizes (T : TimeOps τ) (c : SynCfg τ) :
    (Synapse.construct T c).delayed.recs.map (·.n) = List.replicate c.k (recSize T c.dt c.delay true) := by
  rw [synapse_construct_eq]; simp [RecCfg.make]

/-- **Step lemma**: one valid setter call on a constructed synapse gives exactly the synapse the
constructor builds for the updated configuration. -/
theorem synapse_setter_from_constructed (T : TimeOps τ) (c : SynCfg τ) (op : COp τ)
    (hv : SynCfg.validOp T op = true) :
    (Synapse.construct T c).step T op = (Synapse.construct T (c.assign op), .unit) := by
  rw [synapse_construct_eq, synapse_construct_eq]
  cases op with
  | setDt v =>
    simp only [SynCfg.validOp] at hv
    simp only [Synapse.step, DelayM.setDt, hv, SynCfg.assign]
    by_cases h : v = c.dt
    · subst h; simp
    · simp [h, make_setDt]
  | setDelay v =>
    simp only [SynCfg.validOp] at hv
    simp only [Synapse.step, DelayM.setDelay, hv, SynCfg.assign]
    by_cases h : v = c.delay
    · subst h; simp
    · simp [h, make_setDur]
  | setBatch v =>
    simp only [SynCfg.validOp, decide_eq_true_eq] at hv
    have hv' : ¬ v ≤ 0 := by omega
    simp only [Synapse.step, BatchM.set, hv', if_false, SynCfg.assign]
    by_cases h : v.toNat = c.batch
    · simp [h]
    · simp [h]
  | setInplace b => rfl
  | setDtype d => rfl
  | setDuration v => simp [SynCfg.validOp] at hv
  | setSynapse c' => simp [SynCfg.validOp] at hv

/-- **Setters reach the constructor** (synapses): any sequence of valid setter calls (dt, delay,
batchsz, inplace, dtype — any order, any repetitions) from a constructed synapse ends in the state
the constructor builds for the final configuration. -/
theorem synapse_setters_reach_constructor (T : TimeOps τ) (ops : List (COp τ)) (c : SynCfg τ)
    (hv : ∀ op ∈ ops, SynCfg.validOp T op = true) :
    (Synapse.construct T c).run T ops = Synapse.construct T (ops.foldl SynCfg.assign c) := by
  induction ops generalizing c with
  | nil => rfl
  | cons op ops ih =>
    simp only [Synapse.run, List.foldl_cons]
    rw [synapse_setter_from_constructed T c op (hv op (List.mem_cons_self ..))]
    exact ih (c.assign op) (fun o ho => hv o (List.mem_cons_of_mem _ ho))

/-- a refused assignment (invalid argument) changes nothing -/
theorem synapse_invalid_setter_no_change (T : TimeOps τ) (s : Synapse τ) (op : COp τ) (e : Err)
    (h : (s.step T op).2 = .err e) : (s.step T op).1 = s := by
  cases op with
  | setDt v => simp only [Synapse.step] at h ⊢; cases hd : s.delayed.setDt T v <;> simp_all
  | setDelay v => simp only [Synapse.step] at h ⊢; cases hd : s.delayed.setDelay T v <;> simp_all
  | setBatch v => simp only [Synapse.step] at h ⊢; cases hd : s.batched.set v <;> simp_all
  | setInplace b => simp [Synapse.step] at h
  | setDtype d => simp [Synapse.step] at h
  | setDuration v => rfl
  | setSynapse c' => rfl

/-- **Frame** (synapses): from ANY state, an assignment leaves every other reported attribute
as it was (assigning dt leaves delay, batch size, inplace, dtype; and so on). -/
theorem synapse_setter_frame (T : TimeOps τ) (s : Synapse τ) (op : COp τ) :
    Report.sameExcept op.attr s.report (s.step T op).1.report := by
  right
  cases op with
  | setDt v =>
    simp only [Synapse.step, Synapse.report, COp.attr]
    cases hd : s.delayed.setDt T v with
    | error e => simp
    | ok d => simp [delayM_setDt_ok hd]
  | setDelay v =>
    simp only [Synapse.step, Synapse.report, COp.attr]
    cases hd : s.delayed.setDelay T v with
    | error e => simp
    | ok d => simp [delayM_setDelay_ok hd]
  | setBatch v =>
    simp only [Synapse.step, Synapse.report, COp.attr]
    cases s.batched.set v <;> simp
  | setInplace b => simp [Synapse.step, Synapse.report, COp.attr]
  | setDtype d => simp [Synapse.step, Synapse.report, COp.attr]
  | setDuration v => simp [Synapse.step, Synapse.report, COp.attr]
  | setSynapse c' => simp [Synapse.step, Synapse.report, COp.attr]

/-! ## Neurons (BatchMixin + concrete `dt` property) -/

theorem neuron_reports_config (c : NeuCfg τ) :
    (Neuron.construct c).report = ⟨c.dt, none, some c.batch, none, none, c.dtype⟩ := by
  rw [neuron_construct_eq]; rfl

theorem neuron_setter_from_constructed (T : TimeOps τ) (c : NeuCfg τ) (op : COp τ)
    (hv : NeuCfg.validOp T op = true) :
    (Neuron.construct c).step T op = (Neuron.construct (c.assign op), .unit) := by
  rw [neuron_construct_eq, neuron_construct_eq]
  cases op with
  | setDt v =>
    simp only [NeuCfg.validOp] at hv
    simp [Neuron.step, hv, NeuCfg.assign]
  | setBatch v =>
    simp only [NeuCfg.validOp, decide_eq_true_eq] at hv
    have hv' : ¬ v ≤ 0 := by omega
    simp only [Neuron.step, BatchM.set, hv', if_false, NeuCfg.assign]
    by_cases h : v.toNat = c.batch
    · simp [h]
    · simp [h]
  | setDtype d => rfl
  | setDelay v => simp [NeuCfg.validOp] at hv
  | setInplace b => simp [NeuCfg.validOp] at hv
  | setDuration v => simp [NeuCfg.validOp] at hv
  | setSynapse c' => simp [NeuCfg.validOp] at hv

/-- **Setters reach the constructor** (neurons). -/
theorem neuron_setters_reach_constructor (T : TimeOps τ) (ops : List (COp τ)) (c : NeuCfg τ)
    (hv : ∀ op ∈ ops, NeuCfg.validOp T op = true) :
    (Neuron.construct c).run T ops = Neuron.construct (ops.foldl NeuCfg.assign c) := by
  induction ops generalizing c with
  | nil => rfl
  | cons op ops ih =>
    simp only [Neuron.run, List.foldl_cons]
    rw [neuron_setter_from_constructed T c op (hv op (List.mem_cons_self ..))]
    exact ih (c.assign op) (fun o ho => hv o (List.mem_cons_of_mem _ ho))

theorem neuron_setter_frame (T : TimeOps τ) (s : Neuron τ) (op : COp τ) :
    Report.sameExcept op.attr s.report (s.step T op).1.report := by
  right
  cases op with
  | setDt v => simp only [Neuron.step, Neuron.report, COp.attr]; split <;> simp
  | setBatch v => simp only [Neuron.step, Neuron.report, COp.attr]; cases s.batched.set v <;> simp
  | setDtype d => simp [Neuron.step, Neuron.report, COp.attr]
  | setDelay v => simp [Neuron.step, Neuron.report, COp.attr]
  | setInplace b => simp [Neuron.step, Neuron.report, COp.attr]
  | setDuration v => simp [Neuron.step, Neuron.report, COp.attr]
  | setSynapse c' => simp [Neuron.step, Neuron.report, COp.attr]

/-! ## Reducers (RecordReducer / FoldReducer) -/

theorem reducer_reports_config (T : TimeOps τ) (c : RedCfg τ) :
    (Reducer.construct T c).report = ⟨c.dt, some c.duration, none, some c.incl, some c.inplace, c.dtype⟩ := rfl

/-- the reducer's record has `max(⌈duration/dt⌉ + inclusive, 1)` slots -/
theorem reducer_record_size (T : TimeOps τ) (c : RedCfg τ) :
    (Reducer.construct T c).data.n = recSize T c.dt c.duration c.incl := rfl

theorem reducer_setter_from_constructed (T : TimeOps τ) (c : RedCfg τ) (op : COp τ)
    (hv : RedCfg.validOp T op = true) :
    (Reducer.construct T c).step T op = (Reducer.construct T (c.assign op), .unit) := by
  rw [reducer_construct_eq, reducer_construct_eq]
  cases op with
  | setDt v =>
    simp only [RedCfg.validOp] at hv
    simp only [Reducer.step, hv, RedCfg.assign]
    by_cases h : v = c.dt
    · subst h; simp
    · simp [h, make_setDt]
  | setDuration v =>
    simp only [RedCfg.validOp] at hv
    simp only [Reducer.step, hv, RedCfg.assign]
    by_cases h : v = c.duration
    · subst h; simp
    · simp [h, make_setDur]
  | setInplace b => rfl
  | setDtype d => rfl
  | setDelay v => simp [RedCfg.validOp] at hv
  | setBatch v => simp [RedCfg.validOp] at hv
  | setSynapse c' => simp [RedCfg.validOp] at hv

/-- **Setters reach the constructor** (reducers): in particular assigning `duration` changes the
duration and the record size, not the step time (D6). -/
theorem reducer_setters_reach_constructor (T : TimeOps τ) (ops : List (COp τ)) (c : RedCfg τ)
    (hv : ∀ op ∈ ops, RedCfg.validOp T op = true) :
    (Reducer.construct T c).run T ops = Reducer.construct T (ops.foldl RedCfg.assign c) := by
  induction ops generalizing c with
  | nil => rfl
  | cons op ops ih =>
    simp only [Reducer.run, List.foldl_cons]
    rw [reducer_setter_from_constructed T c op (hv op (List.mem_cons_self ..))]
    exact ih (c.assign op) (fun o ho => hv o (List.mem_cons_of_mem _ ho))

theorem reducer_setter_frame (T : TimeOps τ) (s : Reducer τ) (op : COp τ) :
    Report.sameExcept op.attr s.report (s.step T op).1.report := by
  right
  cases op with
  | setDt v => simp only [Reducer.step, Reducer.report, COp.attr]; split <;> (try split) <;> simp
  | setDuration v => simp only [Reducer.step, Reducer.report, COp.attr]; split <;> (try split) <;> simp
  | setInplace b => simp [Reducer.step, Reducer.report, COp.attr]
  | setDtype d => simp [Reducer.step, Reducer.report, COp.attr]
  | setDelay v => simp [Reducer.step, Reducer.report, COp.attr]
  | setBatch v => simp [Reducer.step, Reducer.report, COp.attr]
  | setSynapse c' => simp [Reducer.step, Reducer.report, COp.attr]

theorem reducer_invalid_setter_no_change (T : TimeOps τ) (s : Reducer τ) (op : COp τ) (e : Err)
    (h : (s.step T op).2 = .err e) : (s.step T op).1 = s := by
  cases op <;> simp only [Reducer.step] at h ⊢ <;> (repeat' split at h) <;> simp_all

/-! ## Connections (forwarding + synapse replacement) -/

/-- **Step lemma** (connections): a forwarded setter or a synapse replacement on a connection
whose synapse is as constructed leaves a connection whose synapse is as constructed for the
updated configuration — in particular `connection.synapse = s` really installs `s` (D13). -/
theorem conn_setter_from_constructed (T : TimeOps τ) (c : SynCfg τ) (hd : Bool) (op : COp τ)
    (hv : connValidOp T op = true) :
    (Conn.mk (Synapse.construct T c) hd).step T op =
      (Conn.mk (Synapse.construct T (connAssign c op)) hd, .unit) := by
  cases op with
  | setSynapse c' => rfl
  | setDuration v => simp [connValidOp, SynCfg.validOp] at hv
  | setDt v =>
    have := synapse_setter_from_constructed T c (.setDt v) hv
    simp only [Conn.step, this, connAssign]
  | setDelay v =>
    have := synapse_setter_from_constructed T c (.setDelay v) hv
    simp only [Conn.step, this, connAssign]
  | setBatch v =>
    have := synapse_setter_from_constructed T c (.setBatch v) hv
    simp only [Conn.step, this, connAssign]
  | setInplace b =>
    have := synapse_setter_from_constructed T c (.setInplace b) hv
    simp only [Conn.step, this, connAssign]
  | setDtype d =>
    have := synapse_setter_from_constructed T c (.setDtype d) hv
    simp only [Conn.step, this, connAssign]

/-- **Setters reach the constructor** (connections, including synapse replacement). -/
theorem conn_setters_reach_constructor (T : TimeOps τ) (ops : List (COp τ)) (c : SynCfg τ) (hd : Bool)
    (hv : ∀ op ∈ ops, connValidOp T op = true) :
    (Conn.mk (Synapse.construct T c) hd).run T ops =
      Conn.mk (Synapse.construct T (ops.foldl connAssign c)) hd := by
  induction ops generalizing c with
  | nil => rfl
  | cons op ops ih =>
    simp only [Conn.run, List.foldl_cons]
    rw [conn_setter_from_constructed T c hd op (hv op (List.mem_cons_self ..))]
    exact ih (connAssign c op) (fun o ho => hv o (List.mem_cons_of_mem _ ho))

/-- a connection reports its synapse's configuration (and the synapse's delay as `delayedby`) -/
theorem conn_reports_config (T : TimeOps τ) (c : SynCfg τ) (hd : Bool) :
    (Conn.mk (Synapse.construct T c) hd).report =
      ⟨c.dt, if hd then some c.delay else none, some c.batch, none, some c.inplace, c.dtype⟩ := by
  rw [synapse_construct_eq]; rfl

theorem conn_setter_frame (T : TimeOps τ) (c : Conn τ) (op : COp τ) :
    Report.sameExcept op.attr c.report (c.step T op).1.report := by
  obtain ⟨syn, hasDelay⟩ := c
  cases op with
  | setSynapse c' => left; rfl
  | setDuration v => right; simp [Conn.step, COp.attr]
  | setDt v =>
    right
    simp only [Conn.step, Conn.report, Synapse.step, COp.attr]
    cases hd : syn.delayed.setDt T v with
    | error e => cases hasDelay <;> simp
    | ok d => cases hasDelay <;> simp [delayM_setDt_ok hd]
  | setDelay v =>
    right
    simp only [Conn.step, Conn.report, Synapse.step, COp.attr]
    cases hd : syn.delayed.setDelay T v with
    | error e => cases hasDelay <;> simp
    | ok d => cases hasDelay <;> simp [delayM_setDelay_ok hd]
  | setBatch v =>
    right
    simp only [Conn.step, Conn.report, Synapse.step, COp.attr]
    cases syn.batched.set v <;> cases hasDelay <;> simp
  | setInplace b => right; cases hasDelay <;> simp [Conn.step, Conn.report, Synapse.step, COp.attr]
  | setDtype d => right; cases hasDelay <;> simp [Conn.step, Conn.report, Synapse.step, COp.attr]

/-! ## The property, all component kinds together -/

/-- **C14, reachability.**  For synapses (any number of records), neurons (any number of batched
tensors), reducers and connections (forwarded setters and synapse replacement): any finite
sequence of valid setter calls from a constructed component ends in exactly the state — reported
getters and the size and temporal configuration of every internal record — that the constructor
builds for the configuration in which every attribute holds the value last assigned to it. -/
theorem setters_reach_constructor (T : TimeOps τ) :
    (∀ (ops : List (COp τ)) (c : SynCfg τ), (∀ op ∈ ops, SynCfg.validOp T op = true) →
      (Synapse.construct T c).run T ops = Synapse.construct T (ops.foldl SynCfg.assign c)) ∧
    (∀ (ops : List (COp τ)) (c : NeuCfg τ), (∀ op ∈ ops, NeuCfg.validOp T op = true) →
      (Neuron.construct c).run T ops = Neuron.construct (ops.foldl NeuCfg.assign c)) ∧
    (∀ (ops : List (COp τ)) (c : RedCfg τ), (∀ op ∈ ops, RedCfg.validOp T op = true) →
      (Reducer.construct T c).run T ops = Reducer.construct T (ops.foldl RedCfg.assign c)) ∧
    (∀ (ops : List (COp τ)) (c : SynCfg τ) (hd : Bool), (∀ op ∈ ops, connValidOp T op = true) →
      (Conn.mk (Synapse.construct T c) hd).run T ops =
        Conn.mk (Synapse.construct T (ops.foldl connAssign c)) hd) :=
  ⟨synapse_setters_reach_constructor T, neuron_setters_reach_constructor T,
   reducer_setters_reach_constructor T, conn_setters_reach_constructor T⟩

/-- **C14, frame.**  From ANY state of any component kind, one assignment (valid or refused)
leaves every other reported attribute unchanged. -/
theorem setter_frame (T : TimeOps τ) :
    (∀ (s : Synapse τ) (op : COp τ), Report.sameExcept op.attr s.report (s.step T op).1.report) ∧
    (∀ (s : Neuron τ) (op : COp τ), Report.sameExcept op.attr s.report (s.step T op).1.report) ∧
    (∀ (s : Reducer τ) (op : COp τ), Report.sameExcept op.attr s.report (s.step T op).1.report) ∧
    (∀ (c : Conn τ) (op : COp τ), Report.sameExcept op.attr c.report (c.step T op).1.report) :=
  ⟨synapse_setter_frame T, neuron_setter_frame T, reducer_setter_frame T, conn_setter_frame T⟩

/-- the configuration read back after a valid assignment sequence is the assigned one -/
theorem synapse_reports_back (T : TimeOps τ) (ops : List (COp τ)) (c : SynCfg τ)
    (hv : ∀ op ∈ ops, SynCfg.validOp T op = true) :
    ((Synapse.construct T c).run T ops).report =
      (let c' := ops.foldl SynCfg.assign c
       ⟨c'.dt, some c'.delay, some c'.batch, none, some c'.inplace, c'.dtype⟩) := by
  rw [synapse_setters_reach_constructor T ops c hv, synapse_reports_config]

/-! ## The record summary is what the C13 machine computes -/

/-- A temporal setter of the C13 record machine that returns leaves the record with the dt /
duration / inclusive and the `recordsz` that `RecCfg.setDt / setDur / setIncl` compute — whatever
the storage state (any pointer, any contents, initialised or not). -/
theorem summary_tracks_record (T : TimeOps τ) (s : Record.MState τ) (n : Nat) :
    (∀ v, (Record.step T s (.setDt v)).2 = .unit →
      (Record.step T s (.setDt v)).1.cons.lookup 0 = some ((RecCfg.setDt T ⟨s.dt, s.dur, s.incl, n⟩ v).n) ∧
      (Record.step T s (.setDt v)).1.dt = v ∧ (Record.step T s (.setDt v)).1.dur = s.dur ∧
      (Record.step T s (.setDt v)).1.incl = s.incl) ∧
    (∀ v, (Record.step T s (.setDur v)).2 = .unit →
      (Record.step T s (.setDur v)).1.cons.lookup 0 = some ((RecCfg.setDur T ⟨s.dt, s.dur, s.incl, n⟩ v).n) ∧
      (Record.step T s (.setDur v)).1.dt = s.dt ∧ (Record.step T s (.setDur v)).1.dur = v ∧
      (Record.step T s (.setDur v)).1.incl = s.incl) ∧
    (∀ b, (Record.step T s (.setIncl b)).2 = .unit →
      (Record.step T s (.setIncl b)).1.cons.lookup 0 = some ((RecCfg.setIncl T ⟨s.dt, s.dur, s.incl, n⟩ b).n) ∧
      (Record.step T s (.setIncl b)).1.dt = s.dt ∧ (Record.step T s (.setIncl b)).1.dur = s.dur ∧
      (Record.step T s (.setIncl b)).1.incl = b) := by
  refine ⟨fun v hu => ?_, fun v hu => ?_, fun b hu => ?_⟩
  · simp only [Record.step] at hu ⊢
    by_cases hv : T.pos v = true
    · simp only [hv, if_true] at hu ⊢
      obtain ⟨a, b, c, d⟩ := Record.resizeTo_unit _ _ hu
      exact ⟨a, b, c, d⟩
    · simp [hv] at hu
  · simp only [Record.step] at hu ⊢
    by_cases hv : T.nonneg v = true
    · simp only [hv, if_true] at hu ⊢
      obtain ⟨a, b, c, d⟩ := Record.resizeTo_unit _ _ hu
      exact ⟨a, b, c, d⟩
    · simp [hv] at hu
  · simp only [Record.step] at hu ⊢
    by_cases hv : T.nonneg s.dur = true
    · simp only [hv, if_true] at hu ⊢
      obtain ⟨a, b', c, d⟩ := Record.resizeTo_unit _ _ hu
      exact ⟨a, b', c, d⟩
    · simp [hv] at hu

/-! ## Non-vacuity and negation witnesses (concrete instances, `decide`) -/

/-- DoubleExponential-like synapse: 3 records, dt 1, delay 3, batch 2 -/
def exSyn : SynCfg Rat := ⟨3, 1, 3, 2, false, .f32⟩
example : (Synapse.construct Record.ratOps exSyn).delayed.recs.map (·.n) = [4, 4, 4] := by decide +kernel
example : (Synapse.construct Record.ratOps exSyn).batched.bdims = [2, 2, 2] := by decide +kernel
-- dt := 1/2, delay := 2, batchsz := 4 by setters = constructing with (1/2, 2, 4): 5 slots, batch 4
example : ((Synapse.construct Record.ratOps exSyn).run Record.ratOps
            [.setDt (1/2), .setDelay 2, .setBatch 4]).delayed.recs.map (·.n) = [5, 5, 5] := by decide +kernel
example : (Synapse.construct Record.ratOps { exSyn with dt := 1/2, delay := 2, batch := 4 }).delayed.recs.map (·.n)
    = [5, 5, 5] := by decide +kernel
example : ∀ op ∈ ([.setDt (1/2), .setDelay 2, .setBatch 4] : List (COp Rat)),
    SynCfg.validOp Record.ratOps op = true := by decide +kernel
-- negation witness (D14): a delay setter that stored `delay + dt` as the records' duration would give
-- 5 slots for delay 3, dt 1 where the constructor gives 4
example : recSize Record.ratOps 1 (3 + 1) true = 5 ∧ recSize Record.ratOps 1 3 true = 4 := by decide +kernel
-- negation witness (D6): a reducer duration setter that stored the value into the step time would report
-- dt = 2 where the constructor for (dt 1, duration 2) reports dt = 1
example : (Reducer.construct Record.ratOps ⟨1, 2, false, false, .f32⟩).report.dt ≠
    ({ (Reducer.construct Record.ratOps ⟨1, 3, false, false, .f32⟩) with dt := 2 } : Reducer Rat).report.dt := by
  decide +kernel
-- reducer: duration 3 → 2 at dt 1/2 gives 4 slots
example : ((Reducer.construct Record.ratOps ⟨1, 3, false, false, .f32⟩).run Record.ratOps
            [.setDt (1/2), .setDuration 2]).data.n = 4 := by decide +kernel
-- an invalid assignment is refused and changes nothing
example : ((Synapse.construct Record.ratOps exSyn).step Record.ratOps (.setDt 0)) =
    (Synapse.construct Record.ratOps exSyn, .err .ValueError) := by decide +kernel

end InfernoVerif.Config
