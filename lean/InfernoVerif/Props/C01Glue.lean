import InfernoVerif.Gen.RingProg
import InfernoVerif.Model.RingOps
/-!
# Glue: the code-shaped ring machine IS the method bodies of `RecordTensor` in /repo's source

`Gen/RingProg.lean` is regenerated on every run by `harness/progtx.py` from the *whole bodies* of
`RecordTensor.read / write / incr / decr / align / initialize / reset / peek / pop / push / readrange /
writerange` (`inferno/core/infrastructure.py`): control flow, exception classes, slicing and
concatenation, index assignment, pointer updates and the calls between methods are kept; torch
primitives are the functions of `Gen/ProgPrelude.lean`.

The theorems below state, method by method, that running the regenerated program on a well-formed
private state `g` and mapping the result through the abstraction `toM` is exactly one step of the
hand-written machine `Ring.step` (`Model/RingOps.lean`) — the machine that `Props/C01.lean` proves to
refine the list-of-observations specification for every operation sequence.  Exceptions correspond to
`Out.err` with the state unchanged.  A change to a method body (a different wrap test, a dropped dtype
conversion, a slice bound off by one, a pointer update on the wrong branch) changes the generated text
and the corresponding theorem stops checking.

Domain: what `Ring.step` models (`Out.unsupported` excluded): range lengths in `[1, n]`, align indices
`≥ 0`; for the tensor-offset paths one offset per position.
-/
set_option linter.unusedSimpArgs false
namespace InfernoVerif.Gen.RingProg
open InfernoVerif.Ring InfernoVerif.Gen InfernoVerif.Gen.Prog

variable {β : Type}

/-- abstraction: private state of the regenerated programs → state of the hand-written machine -/
def toM (g : RT β) : MState β :=
  (g.recordsz.toNat, match g.data with
    | .none => .none
    | .empty d => .empty d
    | .uninit d => .uninit d
    | .init d sh s => .init d sh ⟨g.recordsz.toNat, g.pointer.toNat, s.rows⟩)

/-- well-formedness of a private state (what the constructor and every method maintain) -/
def GWF (g : RT β) : Prop :=
  0 < g.recordsz ∧ match g.data with
    | .init d sh s => s.dt = d ∧ s.oshape = sh ∧ s.rows.length = g.recordsz.toNat ∧
        0 ≤ g.pointer ∧ g.pointer < g.recordsz
    | _ => True

/-- result of a regenerated method → (state, output) of the machine; an exception leaves the state as it was -/
def lift {α : Type} (g : RT β) (f : α → Out β) : Except Err (RT β × α) → MState β × Out β
  | .ok (g', a) => (toM g', f a)
  | .error e => (toM g, .err e)

theorem bind_ok' {ε α γ : Type} (a : α) (f : α → Except ε γ) : Except.bind (.ok a) f = f a := rfl
theorem bind_error' {ε α γ : Type} (e : ε) (f : α → Except ε γ) : Except.bind (.error e) f = .error e := rfl

theorem toM_wf (g : RT β) (h : GWF g) : MWF (toM g) := by
  obtain ⟨hn, hd⟩ := h
  refine ⟨by simp [toM]; omega, ?_⟩
  unfold toM
  cases hdat : g.data with
  | init d sh s =>
    rw [hdat] at hd
    simp only at hd
    simp only [Ring.WF]
    refine ⟨⟨?_, ?_, ?_⟩, trivial⟩ <;> omega
  | _ => trivial

/-- `_unwind_ptr` of the source on a well-formed pointer is the model's `unwind` -/
theorem unwind_eq (p o n : Int) (hn : 0 < n) (hp : 0 ≤ p) :
    InfraF._unwind_ptr p o n = (unwind p.toNat o n.toNat : Nat) := by
  unfold InfraF._unwind_ptr unwind
  rw [Int.fmod_eq_emod_of_nonneg _ (by omega)]
  have h1 : ((p.toNat : Nat) : Int) = p := Int.toNat_of_nonneg hp
  have h2 : ((n.toNat : Nat) : Int) = n := Int.toNat_of_nonneg (by omega)
  rw [h1, h2]
  exact (Int.toNat_of_nonneg (Int.emod_nonneg _ (by omega))).symm

theorem unwind_lt (p : Nat) (o : Int) (n : Nat) (hn : 0 < n) : unwind p o n < n := by
  unfold unwind
  have := Int.emod_lt_of_pos ((p : Int) - o) (show (0 : Int) < n by omega)
  have := Int.emod_nonneg ((p : Int) - o) (show (n : Int) ≠ 0 by omega)
  omega

theorem pyIndex_nat (len k : Nat) (h : k < len) : pyIndex len (k : Int) = some k := by
  unfold pyIndex
  simp
  omega

/-! ## read -/

theorem gen_read (E : Elem β) (g : RT β) (h : GWF g) (o : Int) :
    lift g (fun x => Out.orow (some x.vals)) (RecordTensor_read E g o) = step E (toM g) (.read o) := by
  obtain ⟨hn, hd⟩ := h
  unfold RecordTensor_read toM
  cases hdat : g.data with
  | init d sh s =>
    rw [hdat] at hd
    simp only at hd
    obtain ⟨-, -, hl, hp0, hp1⟩ := hd
    simp only [step, Ring.read, lift, bind, Except.bind, pure, Except.pure]
    rw [unwind_eq _ _ _ hn hp0]
    have hlt := unwind_lt g.pointer.toNat o g.recordsz.toNat (by omega)
    simp only [Stack.rowE, hl, pyIndex_nat _ _ hlt]
    rw [List.getElem?_eq_getElem (by omega)]
    simp [hdat, toM]
  | none => simp [step, lift, hdat, toM, throw, throwThe, MonadExceptOf.throw]
  | empty d => simp [step, lift, hdat, toM, throw, throwThe, MonadExceptOf.throw]
  | uninit d => simp [step, lift, hdat, toM, throw, throwThe, MonadExceptOf.throw]

/-! ## write -/

theorem promote_self (d : DType) : promote (promote (promote true d) d) d = d := by
  cases d <;> rfl

theorem pyBound_nat (len k : Nat) : pyBound len (k : Int) = min k len := by
  unfold pyBound
  have : ¬ ((k : Int) < 0) := by omega
  simp [this]

theorem gen_write (E : Elem β) (g : RT β) (h : GWF g) (x : Obs β) (o : Int) (inplace : Bool) :
    lift g (fun _ => Out.unit) (RecordTensor_write E g x o inplace) = step E (toM g) (.write x o inplace) := by
  obtain ⟨hn, hd⟩ := h
  unfold RecordTensor_write toM
  cases hdat : g.data with
  | init d sh s =>
    rw [hdat] at hd
    simp only at hd
    obtain ⟨hdt, hsh, hl, hp0, hp1⟩ := hd
    subst hdt; subst hsh
    have hlt := unwind_lt g.pointer.toNat o g.recordsz.toNat (by omega)
    simp only [step, lift, bind, Except.bind, pure, Except.pure]
    by_cases hshape : x.shape = s.oshape
    · simp only [hshape, ne_eq, not_true_eq_false, decide_false, Bool.false_eq_true, ↓reduceIte]
      rw [unwind_eq _ _ _ hn hp0]
      cases inplace
      · -- out of place: cat(data[:i], obs[None], data[i+1:])
        simp only [Bool.false_eq_true, ↓reduceIte, Ring.write, Ring.writeSplice, cat, Stack.slice,
          Obs.unsqueeze0, Obs.to, Stack.rowsAs, promote_self, List.foldl_cons, List.foldl_nil,
          Store.ofStack, toM, List.map_cons, List.map_nil, List.flatten_cons, List.flatten_nil,
          List.append_nil]
        have e1 : ((unwind g.pointer.toNat o g.recordsz.toNat : Nat) : Int) + 1
            = ((unwind g.pointer.toNat o g.recordsz.toNat + 1 : Nat) : Int) := by omega
        rw [e1, pyBound_nat, pyBound_nat, hl]
        rw [Nat.min_eq_left (by omega), Nat.min_eq_left (by omega)]
        simp [List.take_of_length_le, hl]
      · -- in place: data[i, ...] = obs
        simp only [↓reduceIte, Ring.write, Ring.writeInplace, Stack.setRowE, Obs.to, hl,
          pyIndex_nat _ _ hlt, Store.ofStack, toM]
    · simp [hshape, throw, throwThe, MonadExceptOf.throw, hdat, toM]
  | none => simp [step, lift, hdat, toM, throw, throwThe, MonadExceptOf.throw]
  | empty d => simp [step, lift, hdat, toM, throw, throwThe, MonadExceptOf.throw]
  | uninit d => simp [step, lift, hdat, toM, throw, throwThe, MonadExceptOf.throw]

/-! ## incr / decr -/

theorem gen_incr (E : Elem β) (g : RT β) (h : GWF g) (q : Int) :
    lift g (fun p => Out.ptr p.toNat) (RecordTensor_incr E g q) = step E (toM g) (.incr q) := by
  obtain ⟨hn, hd⟩ := h
  unfold RecordTensor_incr toM
  cases hdat : g.data with
  | init d sh s =>
    rw [hdat] at hd
    simp only at hd
    obtain ⟨hdt, hsh, hl, hp0, hp1⟩ := hd
    simp only [step, lift, bind, Except.bind, pure, Except.pure, Ring.incr, toM, hdat]
    rw [unwind_eq _ _ _ hn hp0]
    simp
  | none => simp [step, lift, hdat, toM, throw, throwThe, MonadExceptOf.throw]
  | empty d => simp [step, lift, hdat, toM, throw, throwThe, MonadExceptOf.throw]
  | uninit d => simp [step, lift, hdat, toM, throw, throwThe, MonadExceptOf.throw]

theorem gen_decr (E : Elem β) (g : RT β) (h : GWF g) (q : Int) :
    lift g (fun p => Out.ptr p.toNat) (RecordTensor_decr E g q) = step E (toM g) (.decr q) := by
  obtain ⟨hn, hd⟩ := h
  unfold RecordTensor_decr toM
  cases hdat : g.data with
  | init d sh s =>
    rw [hdat] at hd
    simp only at hd
    obtain ⟨hdt, hsh, hl, hp0, hp1⟩ := hd
    simp only [step, lift, bind, Except.bind, pure, Except.pure, Ring.decr, toM, hdat]
    rw [unwind_eq _ _ _ hn hp0]
    simp
  | none => simp [step, lift, hdat, toM, throw, throwThe, MonadExceptOf.throw]
  | empty d => simp [step, lift, hdat, toM, throw, throwThe, MonadExceptOf.throw]
  | uninit d => simp [step, lift, hdat, toM, throw, throwThe, MonadExceptOf.throw]

/-! ## align (indices `≥ 0`; the code also accepts `[-n, 0)`, outside the machine's domain) -/

theorem gen_align (E : Elem β) (g : RT β) (h : GWF g) (idx : Int) (hidx : 0 ≤ idx) :
    lift g (fun _ => Out.unit) (RecordTensor_align E g idx) = step E (toM g) (.align idx) := by
  obtain ⟨hn, hd⟩ := h
  unfold RecordTensor_align toM argIndex
  have hneg : ¬ idx < 0 := by omega
  by_cases hlt : idx < g.recordsz
  · have h1 : -g.recordsz ≤ idx ∧ idx < g.recordsz := ⟨by omega, hlt⟩
    have h2 : ¬ idx.toNat ≥ g.recordsz.toNat := by omega
    cases hdat : g.data with
    | init d sh s =>
      rw [hdat] at hd
      simp only at hd
      obtain ⟨hdt, hsh, hl, hp0, hp1⟩ := hd
      subst hdt; subst hsh
      simp only [step, lift, bind, Except.bind, pure, Except.pure, h1, and_self, ↓reduceIte, hneg, h2,
        Ring.align, Stack.roll, Store.ofStack, toM]
      have e1 : ((idx.toNat : Nat) : Int) = idx := Int.toNat_of_nonneg hidx
      have e2 : ((g.pointer.toNat : Nat) : Int) = g.pointer := Int.toNat_of_nonneg hp0
      rw [e1, e2]
    | none => simp [step, lift, hdat, toM, throw, throwThe, MonadExceptOf.throw, h1, hneg, h2, bind, Except.bind]
    | empty d => simp [step, lift, hdat, toM, throw, throwThe, MonadExceptOf.throw, h1, hneg, h2, bind, Except.bind]
    | uninit d => simp [step, lift, hdat, toM, throw, throwThe, MonadExceptOf.throw, h1, hneg, h2, bind, Except.bind]
  · have h1 : ¬ (-g.recordsz ≤ idx ∧ idx < g.recordsz) := fun h => hlt h.2
    have h2 : idx.toNat ≥ g.recordsz.toNat := by omega
    cases hdat : g.data with
    | init d sh s =>
      simp [step, lift, bind, Except.bind, h1, hneg, h2, toM, hdat]
    | none => simp [step, lift, hdat, toM, h1, hneg, h2, bind, Except.bind]
    | empty d => simp [step, lift, hdat, toM, h1, hneg, h2, bind, Except.bind]
    | uninit d => simp [step, lift, hdat, toM, h1, hneg, h2, bind, Except.bind]

/-! ## reset -/

theorem gen_reset (E : Elem β) (g : RT β) (h : GWF g) (fill : Option β) :
    lift g (fun _ => Out.unit) (RecordTensor_reset E g fill) = step E (toM g) (.reset fill) := by
  cases fill with
  | some v =>
    obtain ⟨hn, hd⟩ := h
    unfold RecordTensor_reset toM
    cases hdat : g.data with
    | init d sh s =>
      rw [hdat] at hd
      simp only at hd
      obtain ⟨hdt, hsh, hl, hp0, hp1⟩ := hd
      subst hdt; subst hsh
      simp [step, lift, bind, Except.bind, pure, Except.pure, Ring.resetFill, Stack.fill, Store.ofStack, toM]
    | none => simp [step, lift, hdat, toM, bind, Except.bind, pure, Except.pure]
    | empty d => simp [step, lift, hdat, toM, bind, Except.bind, pure, Except.pure]
    | uninit d => simp [step, lift, hdat, toM, bind, Except.bind, pure, Except.pure]
  | none =>
    have ha := gen_align E g h 0 (by omega)
    have hn := h.1
    unfold RecordTensor_reset
    simp only [bind, Except.bind, pure, Except.pure]
    cases hr : RecordTensor_align E g 0 with
    | error e =>
      rw [hr] at ha
      simp only [lift] at ha ⊢
      rw [ha]
      unfold toM
      cases hdat : g.data <;> simp [step] <;> omega
    | ok r =>
      rw [hr] at ha
      simp only [lift] at ha ⊢
      rw [ha]
      unfold toM
      cases hdat : g.data <;> simp [step] <;> omega

/-! ## peek / pop -/

def outOpt : Option (Obs β) → Out β
  | some x => .orow (some x.vals)
  | none => .none

theorem gen_peek (E : Elem β) (g : RT β) (h : GWF g) :
    lift g outOpt (RecordTensor_peek E g) = step E (toM g) .peek := by
  have hr := gen_read E g h 1
  unfold RecordTensor_peek
  cases hdat : g.data with
  | init d sh s =>
    simp only [bind, Except.bind, pure, Except.pure]
    cases hx : RecordTensor_read E g 1 with
    | error e =>
      rw [hx] at hr
      simp only [lift] at hr ⊢
      rw [hr]; unfold toM; simp [hdat, step]
    | ok r =>
      rw [hx] at hr
      simp only [lift, outOpt] at hr ⊢
      rw [hr]; unfold toM; simp [hdat, step]
  | none => simp [step, lift, hdat, toM, pure, Except.pure, outOpt]
  | empty d => simp [step, lift, hdat, toM, pure, Except.pure, outOpt]
  | uninit d => simp [step, lift, hdat, toM, pure, Except.pure, outOpt]

theorem gen_pop (E : Elem β) (g : RT β) (h : GWF g) :
    lift g outOpt (RecordTensor_pop E g) = step E (toM g) .pop := by
  obtain ⟨hn, hd⟩ := h
  unfold RecordTensor_pop
  cases hdat : g.data with
  | init d sh s =>
    rw [hdat] at hd
    simp only at hd
    obtain ⟨hdt, hsh, hl, hp0, hp1⟩ := hd
    have hlt := unwind_lt g.pointer.toNat 1 g.recordsz.toNat (by omega)
    have hlt0 := unwind_lt (unwind g.pointer.toNat 1 g.recordsz.toNat) 0 g.recordsz.toNat (by omega)
    simp only [RecordTensor_decr, RecordTensor_read, hdat, bind, Except.bind, pure, Except.pure]
    rw [unwind_eq _ _ _ hn hp0]
    rw [unwind_eq _ _ _ hn (by omega)]
    simp only [Int.toNat_natCast, Stack.rowE, hl, pyIndex_nat _ _ hlt0]
    rw [List.getElem?_eq_getElem (by omega)]
    simp [lift, outOpt, toM, hdat, step, Ring.pop, Ring.decr, Ring.read]
  | none => simp [step, lift, hdat, toM, pure, Except.pure, outOpt]
  | empty d => simp [step, lift, hdat, toM, pure, Except.pure, outOpt]
  | uninit d => simp [step, lift, hdat, toM, pure, Except.pure, outOpt]

/-! ## push (through `initialize` when the storage is ignored) -/

/-- explicit result of `write` on initialised storage with a matching shape -/
theorem write_ok (E : Elem β) (p n : Int) (s : Stack β) (hn : 0 < n)
    (hl : s.rows.length = n.toNat) (hp0 : 0 ≤ p) (x : Obs β) (hshape : x.shape = s.oshape) (o : Int)
    (inplace : Bool) :
    RecordTensor_write E ⟨.init s.dt s.oshape s, p, n⟩ x o inplace = .ok (⟨Store.init s.dt s.oshape
        ⟨s.dt, s.oshape, (Ring.write ⟨n.toNat, p.toNat, s.rows⟩
            (x.vals.map (E.conv x.dt s.dt)) o inplace).data⟩, p, n⟩, ()) := by
  have hlt := unwind_lt p.toNat o n.toNat (by omega)
  unfold RecordTensor_write
  simp only [bind, Except.bind, pure, Except.pure, hshape, ne_eq, not_true_eq_false, decide_false,
    Bool.false_eq_true, ↓reduceIte]
  rw [unwind_eq _ _ _ hn hp0]
  cases inplace
  · simp only [Bool.false_eq_true, ↓reduceIte, Ring.write, Ring.writeSplice, cat, Stack.slice,
      Obs.unsqueeze0, Obs.to, Stack.rowsAs, promote_self, List.foldl_cons, List.foldl_nil,
      Store.ofStack, List.map_cons, List.map_nil, List.flatten_cons, List.flatten_nil, List.append_nil]
    have e1 : ((unwind p.toNat o n.toNat : Nat) : Int) + 1
        = ((unwind p.toNat o n.toNat + 1 : Nat) : Int) := by omega
    rw [e1, pyBound_nat, pyBound_nat, hl]
    rw [Nat.min_eq_left (by omega), Nat.min_eq_left (by omega)]
    simp [List.take_of_length_le, hl]
  · simp only [↓reduceIte, Ring.write, Ring.writeInplace, Stack.setRowE, Obs.to, hl,
      pyIndex_nat _ _ hlt, Store.ofStack]

theorem incr_ok (E : Elem β) (p n : Int) (d : DType) (sh : List Nat) (s : Stack β) (hn : 0 < n)
    (hp0 : 0 ≤ p) (q : Int) :
    RecordTensor_incr E ⟨.init d sh s, p, n⟩ q = .ok (⟨.init d sh s, (unwind p.toNat (-q) n.toNat : Nat), n⟩,
        ((unwind p.toNat (-q) n.toNat : Nat) : Int)) := by
  unfold RecordTensor_incr
  simp only [bind, Except.bind, pure, Except.pure]
  rw [unwind_eq _ _ _ hn hp0]

/-- `write(obs, 0); incr(1)` on storage that `initialize` has just created -/
theorem push_fresh (E : Elem β) (g : RT β) (hn : 0 < g.recordsz) (x : Obs β) (inplace : Bool) (d : DType)
    (hstep : step E (toM g) (.push x inplace) =
      ((g.recordsz.toNat, .init d x.shape ((freshRing g.recordsz.toNat x.shape E.zero).push
          (x.vals.map (E.conv x.dt d)) inplace)), Out.unit)) :
    lift g (fun _ => Out.unit)
      ((RecordTensor_write E
          { data := Store.init d x.shape
              { dt := d, oshape := x.shape,
                rows := List.replicate g.recordsz.toNat (List.replicate (prod x.shape) E.zero) },
            pointer := 0, recordsz := g.recordsz } x 0 inplace).bind fun v =>
        (RecordTensor_incr E v.fst 1).bind fun v => Except.ok (v.fst, ())) =
    step E (toM g) (.push x inplace) := by
  rw [write_ok E 0 g.recordsz
    ⟨d, x.shape, List.replicate g.recordsz.toNat (List.replicate (prod x.shape) E.zero)⟩
    hn (by simp) (by simp) x rfl 0 inplace]
  simp only [bind_ok']
  rw [incr_ok E 0 g.recordsz d x.shape _ hn (by simp) 1]
  simp only [bind_ok']
  rw [hstep]
  cases inplace <;> simp [lift, toM, freshRing, Ring.push, Ring.incr, Ring.write, Ring.writeInplace, Ring.writeSplice]

theorem gen_push (E : Elem β) (g : RT β) (h : GWF g) (x : Obs β) (inplace : Bool) :
    lift g (fun _ => Out.unit) (RecordTensor_push E g x inplace) = step E (toM g) (.push x inplace) := by
  obtain ⟨hn, hd⟩ := h
  unfold RecordTensor_push
  cases hdat : g.data with
  | init d sh s =>
    rw [hdat] at hd
    simp only at hd
    obtain ⟨hdt, hsh, hl, hp0, hp1⟩ := hd
    subst hdt; subst hsh
    simp only [bind, Except.bind, pure, Except.pure]
    by_cases hshape : x.shape = s.oshape
    · have hg : g = ⟨.init s.dt s.oshape s, g.pointer, g.recordsz⟩ := by
        cases g; simp_all
      rw [hg, write_ok E g.pointer g.recordsz s hn hl hp0 x hshape 0 inplace]
      simp only []
      rw [incr_ok E g.pointer g.recordsz s.dt s.oshape _ hn hp0 1, ← hg]
      cases inplace <;> simp [lift, toM, hdat, step, hshape, Ring.push, Ring.incr, Ring.write, Ring.writeInplace, Ring.writeSplice]
    · unfold RecordTensor_write
      simp [hdat, bind, Except.bind, hshape, throw, throwThe, MonadExceptOf.throw, lift, toM, step]
  | none =>
    simp only [bind, bind_ok', pure, Except.pure, RecordTensor_initialize, hdat, isUninit, isTensor,
      isNone, Bool.false_eq_true, ↓reduceIte, torchFull, fullStack, Store.ofStack, Option.getD_some]
    exact push_fresh E g hn x inplace x.dt (by simp [toM, hdat, step, initDType])
  | empty d =>
    simp only [bind, bind_ok', pure, Except.pure, RecordTensor_initialize, hdat, isUninit, isTensor,
      isNone, Bool.false_eq_true, ↓reduceIte, fullLike, fullStack, Store.ofStack, storeDType,
      Option.orElse, Option.getD_some]
    exact push_fresh E g hn x inplace d (by simp [toM, hdat, step, initDType])
  | uninit d =>
    simp only [bind, bind_ok', pure, Except.pure, RecordTensor_initialize, hdat, isUninit, isTensor,
      isNone, Bool.false_eq_true, ↓reduceIte, materialize, storeFill, fullStack, Store.ofStack, storeDType,
      Option.orElse, Option.getD_some, List.length_replicate]
    exact push_fresh E g hn x inplace d (by simp [toM, hdat, step, initDType])

/-! ## readrange, scalar offset (lengths in `[1, n]`) -/

theorem promote_self2 (d : DType) : promote (promote true d) d = d := by
  cases d <;> rfl

theorem gen_readrange (E : Elem β) (g : RT β) (h : GWF g) (len : Nat) (o : Int) (fwd : Bool)
    (hlen : 1 ≤ len) (hlen' : (len : Int) ≤ g.recordsz) :
    lift g (fun tl => Out.orows (tl.stack.rows.map some))
        (RecordTensor_readrange E g (len : Int) (.int o) fwd)
      = step E (toM g) (.readrange len o fwd) := by
  obtain ⟨hn, hd⟩ := h
  unfold RecordTensor_readrange toM
  cases hdat : g.data with
  | init d sh s =>
    rw [hdat] at hd
    simp only at hd
    obtain ⟨hdt, hsh, hl, hp0, hp1⟩ := hd
    subst hdt; subst hsh
    have hlen2 : ¬ (len = 0 ∨ len > g.recordsz.toNat) := by omega
    have hoff : (if (!fwd) = true then (Off.int o).add ((len : Int) - 1) else Off.int o)
        = Off.int (shiftOffset o len fwd) := by
      cases fwd <;> simp [Off.add, shiftOffset]
    simp only [step, lift, bind, Except.bind, pure, Except.pure, hoff, hlen2, ↓reduceIte]
    rw [unwind_eq _ _ _ hn hp0, unwind_eq _ _ _ hn hp0]
    have hs := unwind_lt g.pointer.toNat (shiftOffset o len fwd) g.recordsz.toNat (by omega)
    have he := unwind_lt g.pointer.toNat (shiftOffset o len fwd - (len : Int)) g.recordsz.toNat (by omega)
    simp only [Ring.readrangeScalar, Ring.slice]
    by_cases hse : unwind g.pointer.toNat (shiftOffset o len fwd) g.recordsz.toNat
        ≥ unwind g.pointer.toNat (shiftOffset o len fwd - (len : Int)) g.recordsz.toNat
    · have hse' : ((unwind g.pointer.toNat (shiftOffset o len fwd) g.recordsz.toNat : Nat) : Int)
          ≥ ((unwind g.pointer.toNat (shiftOffset o len fwd - (len : Int)) g.recordsz.toNat : Nat) : Int) := by
        omega
      simp only [hse', decide_true, ↓reduceIte, hse, cat, Stack.slice, Stack.rowsAs, promote_self2,
        List.foldl_cons, List.foldl_nil, List.map_cons, List.map_nil, List.flatten_cons, List.flatten_nil,
        List.append_nil, pyBound_nat, hl]
      rw [Nat.min_eq_left (by omega), Nat.min_eq_left (by omega)]
      simp [← hl, hdat, toM]
    · have hse' : ¬ ((unwind g.pointer.toNat (shiftOffset o len fwd) g.recordsz.toNat : Nat) : Int)
          ≥ ((unwind g.pointer.toNat (shiftOffset o len fwd - (len : Int)) g.recordsz.toNat : Nat) : Int) := by
        omega
      simp only [hse', decide_false, Bool.false_eq_true, ↓reduceIte, hse, Stack.slice, pyBound_nat, hl]
      rw [Nat.min_eq_left (by omega), Nat.min_eq_left (by omega)]
      simp [hdat, toM]
  | none => simp [step, lift, hdat, toM, throw, throwThe, MonadExceptOf.throw, bind, Except.bind]
  | empty d => simp [step, lift, hdat, toM, throw, throwThe, MonadExceptOf.throw, bind, Except.bind]
  | uninit d => simp [step, lift, hdat, toM, throw, throwThe, MonadExceptOf.throw, bind, Except.bind]

/-! ## writerange, scalar offset (non-empty ranges) -/

/-- index assignment with in-range, natural-number indices never fails and is a fold of `List.set` -/
theorem indexPut_ok (E : Elem β) (idx : List Nat) : ∀ (s : Stack β) (xs : List (List β)),
    (∀ i ∈ idx, i < s.rows.length) →
    s.indexPutE E (idx.map Int.ofNat) ⟨s.dt, s.oshape, xs⟩
      = .ok { s with rows := (idx.zip xs).foldl (fun d ir => d.set ir.1 ir.2) s.rows } := by
  induction idx with
  | nil => intro s xs _; simp [Stack.indexPutE, List.foldlM, pure, Except.pure]
  | cons i idx ih =>
    intro s xs hi
    cases xs with
    | nil => simp [Stack.indexPutE, List.foldlM, pure, Except.pure]
    | cons x xs =>
      have h1 : i < s.rows.length := hi i (by simp)
      have := ih { s with rows := s.rows.set i x } xs (by
        intro j hj; simp only [List.length_set]; exact hi j (by simp [hj]))
      simp only [Stack.indexPutE, List.map_cons, List.zip_cons_cons, List.foldlM_cons, Stack.setRowE,
        Int.ofNat_eq_natCast, pyIndex_nat _ _ h1, ite_true, bind, Except.bind, List.foldl_cons] at this ⊢
      exact this

theorem zip_range_map {γ : Type} (f : Nat → γ) (xs : List (List β)) :
    ((List.range xs.length).map f).zip xs = xs.zipIdx.map (fun xj => (f xj.2, xj.1)) := by
  apply List.ext_getElem
  · simp
  · intro i h1 h2
    simp at h1 h2 ⊢

theorem gen_writerange (E : Elem β) (g : RT β) (h : GWF g) (dt : DType) (xsh : List Nat)
    (xs : List (List β)) (o : Int) (fwd inplace : Bool) (hxs : xs.length ≠ 0) :
    lift g (fun _ => Out.unit)
        (RecordTensor_writerange E g ⟨⟨dt, xsh, xs⟩⟩ (.int o) fwd inplace)
      = step E (toM g) (.writerange dt xsh xs o fwd inplace) := by
  obtain ⟨hn, hd⟩ := h
  unfold RecordTensor_writerange toM
  cases hdat : g.data with
  | init d sh s =>
    rw [hdat] at hd
    simp only at hd
    obtain ⟨hdt, hsh, hl, hp0, hp1⟩ := hd
    subst hdt; subst hsh
    have hoff : (if (!fwd) = true then (Off.int o).add ((xs.length : Int) - 1) else Off.int o)
        = Off.int (shiftOffset o xs.length fwd) := by
      cases fwd <;> simp [Off.add, shiftOffset]
    simp only [step, lift, bind, Except.bind, pure, Except.pure, hoff]
    by_cases hshape : xsh = s.oshape
    · subst hshape
      have en : ((g.recordsz.toNat : Nat) : Int) = g.recordsz := Int.toNat_of_nonneg (by omega)
      simp only [ne_eq, not_true_eq_false, decide_false, Bool.false_eq_true, ↓reduceIte, hl, en]
      by_cases hlong : xs.length > g.recordsz.toNat
      · have : (xs.length : Int) > g.recordsz := by omega
        simp only [this, decide_true, ↓reduceIte, hlong, throw, throwThe, MonadExceptOf.throw, hdat, toM]
      · have h1 : ¬ (xs.length : Int) > g.recordsz := by omega
        simp only [h1, decide_false, Bool.false_eq_true, ↓reduceIte, hlong, hxs]
        rw [unwind_eq _ _ _ hn hp0]
        have hp' := unwind_lt g.pointer.toNat (shiftOffset o xs.length fwd) g.recordsz.toNat (by omega)
        generalize hpp : unwind g.pointer.toNat (shiftOffset o xs.length fwd) g.recordsz.toNat = p' at *
        cases inplace
        · -- out of place
          simp only [Bool.false_eq_true, ↓reduceIte, Ring.writerangeScalar, hpp]
          by_cases hwrap : p' + xs.length > g.recordsz.toNat
          · have hw : ((p' : Int) + (xs.length : Int)) > g.recordsz := by omega
            simp only [hw, decide_true, ↓reduceIte, hwrap, Ring.writerangeWrapped, hpp, Ring.slice, cat,
              Stack.slice, Stack.to, Stack.rowsAs, promote_self, List.foldl_cons, List.foldl_nil,
              List.map_cons, List.map_nil, List.flatten_cons, List.flatten_nil, List.append_nil,
              Store.ofStack, toM, ite_true, hl, List.length_map]
            have e1 : g.recordsz - (p' : Int) = ((g.recordsz.toNat - p' : Nat) : Int) := by omega
            have e2 : (xs.length : Int) - ((g.recordsz.toNat - p' : Nat) : Int)
                = ((xs.length - (g.recordsz.toNat - p') : Nat) : Int) := by omega
            rw [e1, e2]
            simp only [pyBound_nat]
            rw [Nat.min_eq_left (by omega : g.recordsz.toNat - p' ≤ xs.length),
              Nat.min_eq_left (by omega : xs.length - (g.recordsz.toNat - p') ≤ g.recordsz.toNat),
              Nat.min_eq_left (by omega : p' ≤ g.recordsz.toNat)]
            simp [List.map_drop, List.map_take, List.append_assoc]
          · have hw : ¬ ((p' : Int) + (xs.length : Int)) > g.recordsz := by omega
            simp only [hw, decide_false, Bool.false_eq_true, ↓reduceIte, hwrap, Ring.writerangeContig, hpp, cat,
              Stack.slice, Stack.to, Stack.rowsAs, promote_self, List.foldl_cons, List.foldl_nil,
              List.map_cons, List.map_nil, List.flatten_cons, List.flatten_nil, List.append_nil,
              Store.ofStack, toM, ite_true, hl, List.length_map]
            have e1 : (p' : Int) + (xs.length : Int) = ((p' + xs.length : Nat) : Int) := by omega
            have e0 : (0 : Int) = ((0 : Nat) : Int) := rfl
            rw [e1, e0]
            simp only [pyBound_nat]
            rw [Nat.min_eq_left (by omega : p' ≤ g.recordsz.toNat),
              Nat.min_eq_left (by omega : p' + xs.length ≤ g.recordsz.toNat)]
            simp [← hl, List.append_assoc]
        · -- in place
          simp only [↓reduceIte, Ring.writerangeScalar, Ring.writerangeInplace, hpp]
          have hidx : ((arange 0 (xs.length : Int)).map (fun a_ => -a_)).map
                (fun o_ => InfraF._unwind_tensor_ptr (p' : Int) o_ g.recordsz)
              = ((List.range xs.length).map (fun (j : Nat) => unwind p' (-(j : Int)) g.recordsz.toNat)).map Int.ofNat := by
            simp only [arange, List.map_map, Int.sub_zero, Int.toNat_natCast]
            apply List.map_congr_left
            intro j _
            have := unwind_eq (p' : Int) (-(j : Int)) g.recordsz hn (by omega)
            simp only [InfraF._unwind_ptr, Int.toNat_natCast] at this
            simp only [InfraF._unwind_tensor_ptr, Function.comp, Int.zero_add, this, Int.ofNat_eq_natCast]
          rw [hidx]
          have hput := indexPut_ok E ((List.range xs.length).map (fun (j : Nat) => unwind p' (-(j : Int)) g.recordsz.toNat))
            s (xs.map (·.map (E.conv dt s.dt))) (by
              intro i hi
              simp only [List.mem_map, List.mem_range] at hi
              obtain ⟨j, _, rfl⟩ := hi
              rw [hl]; exact unwind_lt _ _ _ (by omega))
          simp only [Stack.to] at hput ⊢
          rw [hput]
          simp only [Store.ofStack, toM]
          have hz := zip_range_map (β := β) (fun (j : Nat) => unwind p' (-(j : Int)) g.recordsz.toNat)
            (xs.map (·.map (E.conv dt s.dt)))
          rw [List.length_map] at hz
          rw [hz, List.foldl_map]
    · have hs2 : ¬ s.oshape = xsh := fun e => hshape e.symm
      simp [hshape, throw, throwThe, MonadExceptOf.throw, hdat, toM]
  | none => simp [step, lift, hdat, toM, throw, throwThe, MonadExceptOf.throw, bind, Except.bind]
  | empty d => simp [step, lift, hdat, toM, throw, throwThe, MonadExceptOf.throw, bind, Except.bind]
  | uninit d => simp [step, lift, hdat, toM, throw, throwThe, MonadExceptOf.throw, bind, Except.bind]

/-! ## readrange, tensor offset (one offset per position; rows of `P = offs.length` positions) -/

theorem allSome_map_some {α : Type} (l : List α) : allSome (l.map some) = some l := by
  induction l with
  | nil => rfl
  | cons a l ih => simp [allSome, ih]

/-- per-position columns of a time-major block of rows with `P` positions -/
def colsOf (rows : List (List β)) (P : Nat) : List (List (Option β)) :=
  (List.range P).map fun pos => rows.map fun r => r[pos]?

theorem exists_of_all_some {α : Type} : ∀ (l : List (Option α)), (∀ x ∈ l, x.isSome) → ∃ r : List α, l = r.map some
  | [], _ => ⟨[], rfl⟩
  | none :: l, h => by have := h none (by simp); simp at this
  | some a :: l, h => by
    obtain ⟨r, hr⟩ := exists_of_all_some l (fun x hx => h x (by simp [hx]))
    exact ⟨a :: r, by simp [hr]⟩

theorem exists_of_all_some2 {α : Type} : ∀ (O : List (List (Option α))), (∀ row ∈ O, ∀ x ∈ row, x.isSome) →
    ∃ R : List (List α), O = R.map (·.map some)
  | [], _ => ⟨[], rfl⟩
  | row :: O, h => by
    obtain ⟨r, hr⟩ := exists_of_all_some row (h row (by simp))
    obtain ⟨R, hR⟩ := exists_of_all_some2 O (fun x hx => h x (by simp [hx]))
    exact ⟨r :: R, by simp [hr, hR]⟩

theorem allSome_block {α : Type} (R : List (List α)) : allSome ((R.map (·.map some)).map allSome) = some R := by
  rw [List.map_map]
  have : (allSome ∘ fun (x : List α) => x.map some) = some := by
    funext r; simp [allSome_map_some]
  rw [this, allSome_map_some]

/-- transposition: the columns of a time-major block whose entries are known position by position -/
theorem cols_transpose (R : List (List β)) (len : Nat) (offs : List Int) (X : Int → Nat → Nat → Option β)
    (hR : R.map (·.map some) = (List.range len).map (fun (j : Nat) => offs.zipIdx.map (fun op => X op.1 op.2 j))) :
    colsOf R offs.length = offs.zipIdx.map (fun op => (List.range len).map (fun (j : Nat) => X op.1 op.2 j)) := by
  have hlen : R.length = len := by simpa using congrArg List.length hR
  apply List.ext_getElem
  · simp [colsOf]
  · intro i h1 h2
    simp only [colsOf, List.length_map, List.length_range] at h1
    simp only [colsOf, List.getElem_map, List.getElem_range, List.getElem_zipIdx, Nat.zero_add]
    apply List.ext_getElem
    · simp [hlen]
    · intro j h3 h4
      simp only [List.length_map] at h3
      simp only [List.getElem_map, List.getElem_range]
      have := congrArg (fun l => (l[j]?).bind (·[i]?)) hR
      simp only [List.getElem?_map, List.getElem?_eq_getElem h3, Option.map_some, Option.bind_some,
        List.getElem?_range (hlen ▸ h3), List.getElem?_zipIdx, h1, List.getElem?_eq_getElem,
        Nat.zero_add] at this
      cases hv : (R[j])[i]? with
      | none => rw [hv] at this; simp at this
      | some v => rw [hv] at this; simpa using this

theorem gen_readrangeT (E : Elem β) (g : RT β) (h : GWF g) (len : Nat) (osh : List Nat) (offs : List Int)
    (fwd : Bool) (hlen : 1 ≤ len) (hlen' : (len : Int) ≤ g.recordsz)
    (hrows : ∀ d sh s, g.data = .init d sh s → ∀ r ∈ s.rows, r.length = offs.length) :
    lift g (fun tl => Out.omat (colsOf tl.stack.rows offs.length))
        (RecordTensor_readrange E g (len : Int) (.ten osh offs) fwd)
      = step E (toM g) (.readrangeT len osh offs fwd) := by
  obtain ⟨hn, hd⟩ := h
  unfold RecordTensor_readrange toM
  cases hdat : g.data with
  | init d sh s =>
    have hr := hrows d sh s hdat
    rw [hdat] at hd
    simp only at hd
    obtain ⟨hdt, hsh, hl, hp0, hp1⟩ := hd
    subst hdt; subst hsh
    have hlen2 : ¬ (len = 0 ∨ len > g.recordsz.toNat) := by omega
    have hoff : (if (!fwd) = true then (Off.ten osh offs).add ((len : Int) - 1) else Off.ten osh offs)
        = Off.ten osh (offs.map (shiftOffset · len fwd)) := by
      cases fwd <;> simp [Off.add, shiftOffset]
    simp only [step, lift, bind, Except.bind, pure, Except.pure, hoff, hlen2, ↓reduceIte]
    by_cases hshape : osh = s.oshape
    · subst hshape
      simp only [ne_eq, not_true_eq_false, decide_false, Bool.false_eq_true, ↓reduceIte]
      generalize hoffs : offs.map (shiftOffset · len fwd) = offs'
      have hlo : offs'.length = offs.length := by rw [← hoffs]; simp
      -- the gathered block, as options
      have hopt : s.gatherOpt ((subLast offs' (arange 0 (len : Int))).map
            (·.map (fun o_ => InfraF._unwind_tensor_ptr g.pointer o_ g.recordsz)))
          = (List.range len).map (fun (j : Nat) => offs'.zipIdx.map (fun op =>
              (s.rows[unwind g.pointer.toNat (op.1 - (j : Int)) g.recordsz.toNat]?).bind (·[op.2]?))) := by
        simp only [Stack.gatherOpt, subLast, arange, List.map_map, Int.sub_zero, Int.toNat_natCast]
        apply List.map_congr_left
        intro j _
        simp only [Function.comp, Int.zero_add, List.zipIdx_map, List.map_map]
        apply List.map_congr_left
        intro op _
        have := unwind_eq g.pointer (op.1 - (j : Int)) g.recordsz hn hp0
        simp only [InfraF._unwind_ptr] at this
        simp only [InfraF._unwind_tensor_ptr, Function.comp, Prod.map, id, this, hl]
        rw [pyIndex_nat _ _ (unwind_lt _ _ _ (by omega))]
        simp
      have hall : ∀ row ∈ (List.range len).map (fun (j : Nat) => offs'.zipIdx.map (fun op =>
              (s.rows[unwind g.pointer.toNat (op.1 - (j : Int)) g.recordsz.toNat]?).bind (·[op.2]?))),
            ∀ x ∈ row, x.isSome := by
        intro row hrow x hx
        simp only [List.mem_map, List.mem_range] at hrow
        obtain ⟨j, _, rfl⟩ := hrow
        simp only [List.mem_map] at hx
        obtain ⟨op, hop, rfl⟩ := hx
        have hk := unwind_lt g.pointer.toNat (op.1 - (j : Int)) g.recordsz.toNat (by omega)
        have hpos : op.2 < offs'.length := by
          have := List.mem_zipIdx hop
          omega
        have hk' : unwind g.pointer.toNat (op.1 - (j : Int)) g.recordsz.toNat < s.rows.length := by omega
        rw [List.getElem?_eq_getElem hk']
        have := hr _ (List.getElem_mem hk')
        simp only [Option.bind_some]
        rw [List.getElem?_eq_getElem (by omega)]
        rfl
      obtain ⟨R, hR⟩ := exists_of_all_some2 _ hall
      simp only [Stack.gather0E, hopt, hR, allSome_block]
      simp only [toM, hdat, Ring.readrangeT]
      rw [← hlo, cols_transpose R len offs' (fun o pos j =>
        (s.rows[unwind g.pointer.toNat (o - (j : Int)) g.recordsz.toNat]?).bind (·[pos]?)) hR.symm]
    · have hs2 : ¬ s.oshape = osh := fun e => hshape e.symm
      simp [hshape, throw, throwThe, MonadExceptOf.throw, hdat, toM]
  | none => simp [step, lift, hdat, toM, throw, throwThe, MonadExceptOf.throw, bind, Except.bind]
  | empty d => simp [step, lift, hdat, toM, throw, throwThe, MonadExceptOf.throw, bind, Except.bind]
  | uninit d => simp [step, lift, hdat, toM, throw, throwThe, MonadExceptOf.throw, bind, Except.bind]

/-! ## writerange, tensor offset (`scatter`; in-place and out-of-place coincide) -/

theorem zip_range_map' {γ δ : Type} (f : Nat → γ) (xs : List δ) :
    ((List.range xs.length).map f).zip xs = xs.zipIdx.map (fun xj => (f xj.2, xj.1)) := by
  apply List.ext_getElem
  · simp
  · intro i h1 h2
    simp at h1 h2 ⊢

/-- one time slice of a `scatter`: in-range natural indices never fail; the slice is a fold of `modify` -/
theorem scatter_row_ok (n : Nat) : ∀ (ks : List Nat) (vs : List β) (start : Nat) (d : List (List β)),
    d.length = n → (∀ k ∈ ks, k < n) →
    (((ks.map Int.ofNat).zip vs).zipIdx start).foldlM
        (fun (d : List (List β)) ivp => scatter1 d ivp.1.1 ivp.2 ivp.1.2) d
      = some (((ks.zip vs).zipIdx start).foldl (fun (d : List (List β)) kvp => d.modify kvp.1.1 (·.set kvp.2 kvp.1.2)) d)
    ∧ (((ks.zip vs).zipIdx start).foldl (fun (d : List (List β)) kvp => d.modify kvp.1.1 (·.set kvp.2 kvp.1.2)) d).length = n := by
  intro ks
  induction ks with
  | nil => intro vs start d hd _; simp [hd]
  | cons k ks ih =>
    intro vs start d hd hk
    cases vs with
    | nil => simp [hd]
    | cons v vs =>
      have hk0 : k < d.length := by rw [hd]; exact hk k (by simp)
      have := ih vs (start + 1) (d.modify k (·.set start v)) (by simp [hd]) (fun k' hk' => hk k' (by simp [hk']))
      simp only [List.map_cons, List.zip_cons_cons, List.zipIdx_cons, List.foldlM_cons, List.foldl_cons,
        scatter1, Int.ofNat_eq_natCast, pyIndex_nat _ _ hk0, Option.map_some, Option.bind_some, bind, Option.bind]
      exact this

/-- the whole `scatter`: every time slice succeeds -/
theorem scatter_rows_ok (n : Nat) (u : Nat → List Nat) (hu : ∀ j, ∀ k ∈ u j, k < n) :
    ∀ (xs' : List (List β)) (j0 : Nat) (d : List (List β)), d.length = n →
    ((xs'.zipIdx j0).map (fun xj => ((u xj.2).map Int.ofNat, xj.1))).foldlM
        (fun (d : List (List β)) ir => (ir.1.zip ir.2).zipIdx.foldlM
          (fun (d : List (List β)) ivp => scatter1 d ivp.1.1 ivp.2 ivp.1.2) d) d
      = some ((xs'.zipIdx j0).foldl (fun (d : List (List β)) xj =>
          ((u xj.2).zip xj.1).zipIdx.foldl (fun (d : List (List β)) kvp => d.modify kvp.1.1 (·.set kvp.2 kvp.1.2)) d) d) := by
  intro xs'
  induction xs' with
  | nil => intro j0 d _; rfl
  | cons x xs' ih =>
    intro j0 d hd
    obtain ⟨h1, h2⟩ := scatter_row_ok n (u j0) x 0 d hd (hu j0)
    simp only [List.zipIdx_cons, List.map_cons, List.foldlM_cons, List.foldl_cons, h1, bind, Option.bind]
    exact ih (j0 + 1) _ h2

theorem zip_map_swap {γ δ ε : Type} (f : γ → ε) : ∀ (l1 : List γ) (l2 : List δ),
    (l1.map f).zip l2 = (l2.zip l1).map (fun vo => (f vo.2, vo.1))
  | [], l2 => by cases l2 <;> simp
  | _ :: _, [] => by simp
  | a :: l1, b :: l2 => by simp [zip_map_swap f l1 l2]

/-- `scatter` with the wrapped per-position indices never fails and is the model's `writerangeT` -/
theorem scatter_ok (s : Stack β) (p n : Int) (hn : 0 < n) (hp0 : 0 ≤ p)
    (hl : s.rows.length = n.toNat) (xs' : List (List β)) (offs' : List Int) :
    s.scatter0E ((subLast offs' (arange 0 (xs'.length : Int))).map
          (·.map (fun o_ => InfraF._unwind_tensor_ptr p o_ n))) ⟨s.dt, s.oshape, xs'⟩
      = .ok { s with rows := (Ring.writerangeT ⟨n.toNat, p.toNat, s.rows⟩ xs' offs').data } := by
  have hidx : (subLast offs' (arange 0 (xs'.length : Int))).map
        (·.map (fun o_ => InfraF._unwind_tensor_ptr p o_ n))
      = (List.range xs'.length).map (fun (j : Nat) =>
          (offs'.map (fun o => unwind p.toNat (o - (j : Int)) n.toNat)).map Int.ofNat) := by
    simp only [subLast, arange, List.map_map, Int.sub_zero, Int.toNat_natCast]
    apply List.map_congr_left
    intro j _
    simp only [Function.comp, Int.zero_add, List.map_map]
    apply List.map_congr_left
    intro o _
    have := unwind_eq p (o - (j : Int)) n hn hp0
    simp only [InfraF._unwind_ptr] at this
    simp only [InfraF._unwind_tensor_ptr, this, Int.ofNat_eq_natCast, Function.comp]
  rw [hidx]
  unfold Stack.scatter0E
  simp only []
  rw [zip_range_map' (fun (j : Nat) => (offs'.map (fun o => unwind p.toNat (o - (j : Int)) n.toNat)).map Int.ofNat) xs']
  have key := scatter_rows_ok (β := β) n.toNat (fun j => offs'.map (fun o => unwind p.toNat (o - (j : Int)) n.toNat))
    (by
      intro j k hk
      simp only [List.mem_map] at hk
      obtain ⟨o, _, rfl⟩ := hk
      exact unwind_lt _ _ _ (by omega))
    xs' 0 s.rows hl
  rw [key]
  simp only [Ring.writerangeT]
  congr 1
  refine congrArg (fun f => (⟨s.dt, s.oshape, List.foldl f s.rows xs'.zipIdx⟩ : Stack β)) ?_
  funext d xj
  rw [zip_map_swap, List.zipIdx_map, List.foldl_map]
  simp only [Prod.map, id]

theorem gen_writerangeT (E : Elem β) (g : RT β) (h : GWF g) (dt : DType) (xsh : List Nat)
    (xs : List (List β)) (osh : List Nat) (offs : List Int) (fwd inplace : Bool) (hxs : xs.length ≠ 0) :
    lift g (fun _ => Out.unit)
        (RecordTensor_writerange E g ⟨⟨dt, xsh, xs⟩⟩ (.ten osh offs) fwd inplace)
      = step E (toM g) (.writerangeT dt xsh xs osh offs fwd inplace) := by
  obtain ⟨hn, hd⟩ := h
  unfold RecordTensor_writerange toM
  cases hdat : g.data with
  | init d sh s =>
    rw [hdat] at hd
    simp only at hd
    obtain ⟨hdt, hsh, hl, hp0, hp1⟩ := hd
    subst hdt; subst hsh
    have hoff : (if (!fwd) = true then (Off.ten osh offs).add ((xs.length : Int) - 1) else Off.ten osh offs)
        = Off.ten osh (offs.map (shiftOffset · xs.length fwd)) := by
      cases fwd <;> simp [Off.add, shiftOffset]
    simp only [step, lift, bind, Except.bind, pure, Except.pure, hoff]
    by_cases hshape : xsh = s.oshape
    · subst hshape
      have en : ((g.recordsz.toNat : Nat) : Int) = g.recordsz := Int.toNat_of_nonneg (by omega)
      simp only [ne_eq, not_true_eq_false, decide_false, Bool.false_eq_true, ↓reduceIte, hl, en]
      by_cases hlong : xs.length > g.recordsz.toNat
      · have : (xs.length : Int) > g.recordsz := by omega
        simp only [this, decide_true, ↓reduceIte, hlong, throw, throwThe, MonadExceptOf.throw, hdat, toM]
      · have h1 : ¬ (xs.length : Int) > g.recordsz := by omega
        simp only [h1, decide_false, Bool.false_eq_true, ↓reduceIte, hlong, hxs]
        by_cases hosh : osh = s.oshape
        · subst hosh
          simp only [ne_eq, not_true_eq_false, decide_false, Bool.false_eq_true, ↓reduceIte, ite_self]
          generalize hoffs : offs.map (shiftOffset · xs.length fwd) = offs'
          have hsc := scatter_ok s g.pointer g.recordsz hn hp0 hl (xs.map (·.map (E.conv dt s.dt))) offs'
          simp only [List.length_map, Stack.to] at hsc ⊢
          rw [hsc]
          simp [Store.ofStack, toM, Ring.writerangeT]
        · have hs2 : ¬ s.oshape = osh := fun e => hosh e.symm
          simp [hosh, hs2, throw, throwThe, MonadExceptOf.throw, hdat, toM]
    · have hs2 : ¬ s.oshape = xsh := fun e => hshape e.symm
      simp [hshape, throw, throwThe, MonadExceptOf.throw, hdat, toM]
  | none => simp [step, lift, hdat, toM, throw, throwThe, MonadExceptOf.throw, bind, Except.bind]
  | empty d => simp [step, lift, hdat, toM, throw, throwThe, MonadExceptOf.throw, bind, Except.bind]
  | uninit d => simp [step, lift, hdat, toM, throw, throwThe, MonadExceptOf.throw, bind, Except.bind]

end InfernoVerif.Gen.RingProg
