import InfernoVerif.Lemmas.Lifecycle
/-!
# C15 — Trainer / monitor lifecycle: one observation per training step, cells isolated

Property theorems about `Model/Lifecycle.lean` (the state machine of DESIGN Appendix G after the
repairs D15–D17); helper lemmas are in `Lemmas/Lifecycle.lean`.  Core Lean only.

All statements quantify over EVERY layer topology `topo` (any number of cells, sharing neurons
and connections in any way), any number of trainers of both kinds, and EVERY finite operation
list over {new trainer, register_cell, del_cell, add_monitor, del_monitor, trainer.train/eval,
layer.train/eval, layer step, trainer step, clear, drop-the-trainer-and-collect} from the empty
state.

* `one_obs_per_training_step` — for every live trainer `T`, registered cell and monitor `m` of it:
  `count m` (reducer calls, made by the hook mechanism: handles, registration, the layer's hook
  list) equals `expected m` (the specification's count: +1 per layer step taken while `T.training
  ∧ layer.training`, 0 at creation and after clear — `expected_layerStep`, `expected_clear`,
  `expected_other`), and `m` is registered exactly when `T` is training.
  Hypothesis `NoAbort`: no layer step of the history raised.  It cannot be dropped: D18
  (`second_trainer_redirects_eligibility`, `second_trainer_breaks_layer_step`).
* `isolation` — an operation addressed to registration `(T, c)` leaves the monitor objects of every
  other registration `(T', c')` bit-for-bit unchanged (count, registration, attribute path, …)
  and its listing entry intact; `isolation_reads` adds the `cell.monitors` indirection under the
  explicit D18 exclusion.
* `listings_exact`, `no_dangling_handle`.
* `alias_same_layer` (repair D36): the pool's alias search never crosses layers;
  `cross_layer_alias_old_rule` is the negation witness for the rule before the repair.
-/
namespace InfernoVerif.Lifecycle

/-! ## Histories -/

/-- no layer step of the history raised (a `MultiStateMonitor` whose `cell.monitors.<name>` does
not resolve makes `layer(...)` raise `AttributeError`: D18, or a user deleting a monitor another
monitor of the same registration reads) -/
def stepOk (s : State) : Op → Bool
  | .layerStep l => decide ((step s (.layerStep l)).2 = .ok)
  | _ => true

def NoAbort (s : State) : List Op → Prop
  | [] => True
  | op :: ops => stepOk s op = true ∧ NoAbort (step s op).1 ops

theorem stepOk_spec {s : State} {op : Op} (h : stepOk s op = true) (l : Nat) (hop : op = .layerStep l) :
    (step s op).2 = .ok := by
  subst hop; simpa [stepOk] using h

theorem exec_cons (s : State) (op : Op) (ops : List Op) : exec s (op :: ops) = exec (step s op).1 ops := rfl

/-- Every reachable state satisfies the structural invariant `WF`: handle consistency, pool
consistency ("registered iff the trainer is training"), and "every alive monitor is held by its
alive owner's pool". -/
theorem reachable_wf (topo : List (Nat × Nat × Nat)) (ops : List Op) (f : Bool := true) :
    WF (exec (init topo f) ops) :=
  exec_wf topo ops f

theorem countOK_step {s : State} (w : WF s) (h : CountOK s) (op : Op)
    (hok : ∀ l, op = .layerStep l → (step s op).2 = .ok) : CountOK (step s op).1 := by
  apply countOK_gc
  by_cases hop : ∃ l, op = .layerStep l
  · obtain ⟨l, rfl⟩ := hop; exact countOK_layerStep w h l (hok l rfl)
  · exact h.of_rel (rel_stepCore s op (fun l hl => hop ⟨l, hl⟩))

theorem countOK_exec (ops : List Op) (s : State) (w : WF s) (h : CountOK s) (hn : NoAbort s ops) :
    CountOK (exec s ops) := by
  induction ops generalizing s with
  | nil => exact h
  | cons op ops ih =>
    rw [exec_cons]
    exact ih _ (step_wf w op) (countOK_step w h op (stepOk_spec hn.1)) hn.2

/-- **one_obs_per_training_step**: after ANY finite history in which no layer step raised, for
every live trainer `T`, every cell name `n` it has registered and every monitor `m` listed for
it: the monitor object is alive, belongs to `T`, is registered with the layer exactly when `T`
is in training mode, and its observation count equals the specification's count — the number of
layer steps taken while `T.training ∧ layer.training` since `m` was created or last cleared. -/
theorem one_obs_per_training_step (topo : List (Nat × Nat × Nat)) (ops : List Op) (f : Bool)
    (hn : NoAbort (init topo f) ops) :
    let s := exec (init topo f) ops
    ∀ t, (s.trainers t).alive = true → ∀ e ∈ namedMonitors (s.trainers t),
      (s.mons e.2).alive = true ∧ (s.mons e.2).owner = t ∧
      ((s.mons e.2).handle.isSome = (s.trainers t).training) ∧
      (s.mons e.2).count = (s.mons e.2).expected := by
  intro s t ht e he
  have w : WF s := exec_wf topo ops f
  have hc : CountOK s := countOK_exec ops _ (init_wf topo f) (by intro i hi; simp [init, noMonitor] at hi) hn
  have hmem : e.2 ∈ poolMids (s.trainers t) := by
    simp only [namedMonitors, List.mem_flatMap, List.mem_map] at he
    obtain ⟨g, hg, x, hx, rfl⟩ := he
    exact mem_gMids.mpr ⟨g, hg, x, hx, rfl⟩
  obtain ⟨p1, p2, p3⟩ := w.pool t ht e.2 hmem
  exact ⟨p1, p2, p3, hc e.2 p1⟩

/-! ### What the specification's count is -/

theorem gc_mons_of_live {s : State} {i : Nat} (h : live s i = true) : (gc s).mons i = s.mons i := by
  simp [gc, h]

/-- a step of layer `l` adds one to the specification's count of an alive monitor exactly when the
monitor belongs to `l` and its trainer and `l` are both in training mode -/
theorem expected_layerStep {s : State} (w : WF s) (l i : Nat) (hal : (s.mons i).alive = true) :
    ((step s (.layerStep l)).1.mons i).expected =
      (s.mons i).expected + (if (s.trainers (s.mons i).owner).training = true ∧ s.layerTraining l = true ∧
        (s.mons i).layer = l then 1 else 0) := by
  have hl := w.alive_live i hal
  have hl' := hl
  simp only [live, referenced, hal, Bool.true_and, Bool.and_eq_true, List.contains_iff_mem] at hl
  -- the ghost update
  have hg : ((ghostStep s l).mons i).expected =
      (s.mons i).expected + (if (s.trainers (s.mons i).owner).training = true ∧ s.layerTraining l = true ∧
        (s.mons i).layer = l then 1 else 0) := by
    simp only [ghostStep, hal, hl.1, Bool.true_and]
    by_cases hlay : (s.mons i).layer = l
    · cases (s.trainers (s.mons i).owner).training <;> cases s.layerTraining l <;> simp [hl.2, hlay]
    · have : ((s.mons i).layer == l) = false := by simpa using hlay
      cases (s.trainers (s.mons i).owner).training <;> cases s.layerTraining l <;> simp [hlay, this]
  have hfields : ∀ (s1 : State), (∀ j, (s1.mons j).alive = (s.mons j).alive ∧ (s1.mons j).owner = (s.mons j).owner) →
      s1.trainers = s.trainers → live s1 i = true := by
    intro s1 h1 h2
    simp only [live, referenced, (h1 i).1, (h1 i).2, h2]
    exact hl'
  simp only [step, stepCore]
  split
  · rw [gc_mons_of_live]
    · exact hg
    · apply hfields (ghostStep s l) _ rfl
      intro j; simp only [ghostStep]; split <;> exact ⟨rfl, rfl⟩
  · rw [gc_mons_of_live]
    · simp only [countStep]; split <;> exact hg
    · apply hfields (countStep (ghostStep s l) (ranHooks s l)) _ rfl
      intro j; simp only [countStep, ghostStep]; split <;> split <;> exact ⟨rfl, rfl⟩

/-- `clear` resets count and specification count of every monitor of the trainer -/
theorem expected_clear {s : State} (w : WF s) (t : Nat) (ht : (s.trainers t).alive = true) (i : Nat)
    (hi : i ∈ poolMids (s.trainers t)) :
    ((step s (.clear t)).1.mons i).expected = 0 ∧ ((step s (.clear t)).1.mons i).count = 0 := by
  obtain ⟨p1, p2, _⟩ := w.pool t ht i hi
  have hl : live (clearMons s t) i = true := by
    simp only [live, referenced, clearMons, hi, List.contains_iff_mem, if_true, p1, p2, ht, Bool.true_and]
  simp only [step, stepCore, ht, Bool.not_true, Bool.false_eq_true, if_false]
  rw [gc_mons_of_live hl]
  simp [clearMons, hi]

/-- every other operation leaves both counts of a monitor that survives it unchanged, and a
monitor created by it starts at zero -/
theorem expected_other (s : State) (op : Op) (hop : ∀ l, op ≠ .layerStep l) (i : Nat)
    (hal : ((step s op).1.mons i).alive = true) :
    (((step s op).1.mons i).expected = (s.mons i).expected ∧ ((step s op).1.mons i).count = (s.mons i).count) ∨
    (((step s op).1.mons i).expected = 0 ∧ ((step s op).1.mons i).count = 0) := by
  have hl : live (stepCore s op).1 i = true := by
    simp only [step, gc] at hal
    split at hal
    · assumption
    · simp at hal
  simp only [step]
  rw [gc_mons_of_live hl]
  rcases (rel_stepCore s op hop).h i with h | h
  · left; exact ⟨h.fields.2.2.2.1, h.fields.2.2.1⟩
  · right; exact ⟨h.2, h.1⟩

/-! ## Isolation -/

/-- **isolation**: in any reachable (indeed any well-formed) state, an operation addressed to
registration `(t, n)` — `register_cell`, `del_cell`, `add_monitor`, `del_monitor` of trainer `t`
under cell name `n` — leaves every OTHER registration `(t', n')` (another trainer, or another
cell name of the same trainer, even one whose cell shares pooled monitors with `n`'s) alone: its
group of monitors is listed as before, the trainer's flags are unchanged, and each of its
monitor objects is unchanged in every field — observation count, specification count, handle
(registration with the layer), observed attribute path, tags, liveness. -/
theorem isolation {s : State} (w : WF s) (op : Op) (t n : Nat) (h : addressed op = some (t, n))
    (t' n' : Nat) (hne : (t', n') ≠ (t, n)) (hal' : (s.trainers t').alive = true)
    (g : List (Nat × Nat)) (hg : lookup (s.trainers t').groups n' = some g) :
    let s' := (step s op).1
    lookup (s'.trainers t').groups n' = some g ∧ (s'.trainers t').alive = true ∧
    (s'.trainers t').training = (s.trainers t').training ∧
    ∀ e ∈ g, s'.mons e.2 = s.mons e.2 := by
  intro s'
  have fr := stepCore_trFrame s op t n h
  have hlook : lookup ((stepCore s op).1.trainers t').groups n' = some g ∧
      ((stepCore s op).1.trainers t').alive = true ∧
      ((stepCore s op).1.trainers t').training = (s.trainers t').training := by
    by_cases htt : t' = t
    · subst htt
      have hn : n' ≠ n := fun hc => hne (by rw [hc])
      exact ⟨by rw [fr.groups n' hn]; exact hg, by rw [fr.alive]; exact hal', fr.training⟩
    · rw [fr.others t' htt]; exact ⟨hg, hal', rfl⟩
  refine ⟨hlook.1, hlook.2.1, hlook.2.2, ?_⟩
  intro e he
  have hm := stepCore_mons_frame w op t n h t' n' hne hal' g hg e he
  have hp := w.pool t' hal' e.2 (mem_pool_of_lookup (m := e.1) hg (by simpa using he))
  show (gc (stepCore s op).1).mons e.2 = _
  rw [gc_mons_of_live, hm]
  simp only [live, referenced, hm, hp.1, hp.2.1, hlook.2.1, Bool.true_and, List.contains_iff_mem]
  exact mem_pool_of_lookup (m := e.1) hlook.1 (by simpa using he)

/-- **isolation_reads** (the `cell.monitors` indirection, with the D18 exclusion as an explicit
hypothesis): let `m` be a monitor of registration `(t', n')` whose reads through `cell.monitors`
currently resolve to monitors of its OWN registration (`hown`).  An operation addressed to another
registration `(t, n)` that does not write the `cell.monitors` map of the cell `m` reads
(`hD18`: no `register_cell` / `add_monitor` for THAT cell — i.e. no second registration of the same
cell, by another trainer or under another name) leaves what `m` reads unchanged.
`second_trainer_redirects_eligibility` shows that `hD18` cannot be dropped. -/
theorem isolation_reads {s : State} (w : WF s) (op : Op) (t n : Nat) (h : addressed op = some (t, n))
    (t' n' : Nat) (hne : (t', n') ≠ (t, n)) (hal' : (s.trainers t').alive = true)
    (g : List (Nat × Nat)) (hg : lookup (s.trainers t').groups n' = some g) (e : Nat × Nat) (he : e ∈ g)
    (hown : ∀ r ∈ (s.mons e.2).reads, ∃ src, getCellMon s.cellMons (s.mons e.2).cell r = some src ∧
      ∃ m, (m, src) ∈ g)
    (hD18 : opCell s op ≠ some (s.mons e.2).cell) :
    resolvedReads (step s op).1 e.2 = resolvedReads s e.2 := by
  obtain ⟨i1, i2, _, i4⟩ := isolation w op t n h t' n' hne hal' g hg
  unfold resolvedReads
  rw [i4 e he]
  apply List.map_congr_left
  intro r hr
  obtain ⟨src, hs1, m, hs2⟩ := hown r hr
  rw [hs1]
  have hfr := stepCore_cellMons_frame s op t n h (s.mons e.2).cell r hD18
  show getCellMon ((stepCore s op).1.cellMons.filter _) _ r = _
  apply getCellMon_filter
  · rw [hfr]; exact hs1
  · intro x _ hx
    -- `src` belongs to the untouched registration, so reference counting keeps it
    have hm := stepCore_mons_frame w op t n h t' n' hne hal' g hg (m, src) hs2
    have hp := w.pool t' hal' src (mem_pool_of_lookup hg hs2)
    have fr := stepCore_trFrame s op t n h
    have hlook : lookup ((stepCore s op).1.trainers t').groups n' = some g ∧
        ((stepCore s op).1.trainers t').alive = true := by
      by_cases htt : t' = t
      · subst htt
        have hn : n' ≠ n := fun hc => hne (by rw [hc])
        exact ⟨by rw [fr.groups n' hn]; exact hg, by rw [fr.alive]; exact hal'⟩
      · rw [fr.others t' htt]; exact ⟨hg, hal'⟩
    simp only at hm
    simp only [hx, live, referenced, hm, hp.1, hp.2.1, hlook.2, Bool.true_and, List.contains_iff_mem]
    simpa using mem_pool_of_lookup hlook.1 hs2

/-- `isolation` along histories: it holds in every reachable state. -/
theorem isolation_reachable (topo : List (Nat × Nat × Nat)) (ops : List Op) (op : Op) (t n : Nat)
    (h : addressed op = some (t, n)) (t' n' : Nat) (hne : (t', n') ≠ (t, n))
    (hal' : ((exec (init topo) ops).trainers t').alive = true) (g : List (Nat × Nat))
    (hg : lookup ((exec (init topo) ops).trainers t').groups n' = some g) :
    let s := exec (init topo) ops
    let s' := exec (init topo) (ops ++ [op])
    lookup (s'.trainers t').groups n' = some g ∧ ∀ e ∈ g, s'.mons e.2 = s.mons e.2 := by
  intro s s'
  have e : s' = (step s op).1 := by simp [s', s, exec, List.foldl_append]
  have := isolation (exec_wf topo ops) op t n h t' n' hne hal' g hg
  rw [e]; exact ⟨this.1, this.2.2.2⟩

/-! ## Listings and handles -/

theorem nodup_eraseDups (l : List Nat) : l.eraseDups.Nodup := by
  have : ∀ n (l : List Nat), l.length ≤ n → l.eraseDups.Nodup := by
    intro n
    induction n with
    | zero => intro l hl; have : l = [] := List.eq_nil_of_length_eq_zero (by omega); subst this; simp
    | succ n ih =>
      intro l hl
      cases l with
      | nil => simp
      | cons a as =>
        rw [List.eraseDups_cons, List.nodup_cons]
        refine ⟨?_, ih _ (by have := List.length_filter_le (fun b => !b == a) as; simp at hl; omega)⟩
        rw [List.mem_eraseDups, List.mem_filter]
        simp
  exact this l.length l (Nat.le_refl _)

/-- **listings_exact**: after any history, for every live trainer
* `named_monitors` lists exactly the pool's entries (cell name, monitor name, monitor), in
  `ModuleDict` order;
* `monitors` lists each monitor object held by the pool exactly once and nothing else;
* `cells` lists exactly the registered cells;
* every listed monitor is alive, owned by this trainer and registered iff the trainer trains. -/
theorem listings_exact (topo : List (Nat × Nat × Nat)) (ops : List Op) :
    let s := exec (init topo) ops
    ∀ t, (s.trainers t).alive = true →
      (∀ n m mid, ((n, m), mid) ∈ namedMonitors (s.trainers t) ↔
        ∃ g, (n, g) ∈ (s.trainers t).groups ∧ (m, mid) ∈ g) ∧
      (distinctMids (s.trainers t)).Nodup ∧
      (∀ mid, mid ∈ distinctMids (s.trainers t) ↔ ∃ e ∈ namedMonitors (s.trainers t), e.2 = mid) ∧
      cellsListing (s.trainers t) = (s.trainers t).cells ∧
      (∀ mid ∈ distinctMids (s.trainers t), (s.mons mid).alive = true ∧ (s.mons mid).owner = t ∧
        ((s.mons mid).handle.isSome = (s.trainers t).training)) := by
  intro s t ht
  have w : WF s := exec_wf topo ops
  refine ⟨?_, nodup_eraseDups _, ?_, rfl, ?_⟩
  · intro n m mid
    simp only [namedMonitors, List.mem_flatMap, List.mem_map]
    constructor
    · rintro ⟨g, hg, x, hx, hxe⟩
      simp only [Prod.mk.injEq] at hxe
      obtain ⟨⟨rfl, rfl⟩, rfl⟩ := hxe
      exact ⟨g.2, hg, hx⟩
    · rintro ⟨g, hg, hx⟩
      exact ⟨(n, g), hg, (m, mid), hx, rfl⟩
  · intro mid
    unfold distinctMids
    rw [List.mem_eraseDups, poolMids_eq, mem_gMids]
    simp only [namedMonitors, List.mem_flatMap, List.mem_map]
    constructor
    · rintro ⟨g, hg, x, hx, rfl⟩; exact ⟨((g.1, x.1), x.2), ⟨g, hg, x, hx, rfl⟩, rfl⟩
    · rintro ⟨e, ⟨g, hg, x, hx, rfl⟩, rfl⟩; exact ⟨g, hg, x, hx, rfl⟩
  · intro mid hmid
    unfold distinctMids at hmid
    rw [List.mem_eraseDups] at hmid
    exact w.pool t ht mid hmid

/-- **no_dangling_handle**: after any history, the layer's hook list and the monitors' handle
fields describe each other exactly: every entry has a fresh, unique id and belongs to an alive
monitor holding that id, whose (alive) trainer is in training mode and lists it; every handle a
monitor holds is in the list; a monitor of a trainer in evaluation mode, a deleted monitor and a
monitor of a dropped trainer have no handle. -/
theorem no_dangling_handle (topo : List (Nat × Nat × Nat)) (ops : List Op) :
    let s := exec (init topo) ops
    (∀ e ∈ s.post, e.1 < s.nextId ∧ (s.mons e.2).alive = true ∧ (s.mons e.2).handle = some e.1 ∧
      (s.trainers (s.mons e.2).owner).alive = true ∧ (s.trainers (s.mons e.2).owner).training = true ∧
      e.2 ∈ poolMids (s.trainers (s.mons e.2).owner)) ∧
    s.post.Pairwise (fun a b => a.1 ≠ b.1) ∧
    (∀ mid hid, (s.mons mid).handle = some hid → (hid, mid) ∈ s.post) ∧
    (∀ mid, (s.mons mid).alive = false → (s.mons mid).handle = none) ∧
    (∀ t, (s.trainers t).alive = true → (s.trainers t).training = false →
      ∀ mid ∈ poolMids (s.trainers t), (s.mons mid).handle = none) ∧
    (∀ mid, (s.mons mid).alive = true → (s.trainers (s.mons mid).owner).alive = true) := by
  intro s
  have w : WF s := exec_wf topo ops
  refine ⟨?_, w.h.post_nodup, w.h.handle_mem, fun mid h => w.h.dead_no_handle h, ?_, ?_⟩
  · intro e he
    obtain ⟨h1, h2, h3⟩ := w.h.post_ok e he
    have hl := w.alive_live e.2 h2
    simp only [live, referenced, h2, Bool.true_and, Bool.and_eq_true, List.contains_iff_mem] at hl
    have hp := w.pool _ hl.1 e.2 hl.2
    refine ⟨h1, h2, h3, hl.1, ?_, hl.2⟩
    rw [← hp.2.2, h3]; rfl
  · intro t ht htr mid hmid
    have hp := w.pool t ht mid hmid
    rw [htr] at hp
    cases hh : (s.mons mid).handle with
    | none => rfl
    | some v => rw [hh] at hp; simp at hp
  · intro mid hal
    have hl := w.alive_live mid hal
    simp only [live, referenced, hal, Bool.true_and, Bool.and_eq_true] at hl
    exact hl.1

/-! ## Stated here, PROVED in `Props/C15b.lean` (second building session)

`listed_cells_registered`, `hook_count` (for both alias rules) and `layer_ok` are proved there exactly as
stated below (or stronger).  `noAbort_of_single_registration` is FALSE as stated below — two `decide`
counterexamples in `Props/C15b.lean` (`del_monitor` of a monitor another monitor of the same registration
reads; a failing unique `add_monitor` that has already dropped the entry) — and is proved with the added
hypothesis that the history contains no `del_monitor` and no failing unique `add_monitor`.  The original
notes are kept for reference.

-- STATEMENT (false as written; variant with `benign` proved in Props/C15b.lean): noAbort_of_single_registration
--   ∀ topo ops, (no cell index is the target of two `registerCell` operations of `ops`, by whichever
--   trainers / names) → NoAbort (init topo) ops
--   (a syntactic sufficient condition for the hypothesis of `one_obs_per_training_step`: with one
--   registration per cell every read of a MultiStateMonitor resolves to its own registration's monitors;
--   missing: the invariant "cellMons[cell][r] is the entry of the only registration of that cell" through
--   registerCell / addMonitor / gc.  `second_trainer_breaks_layer_step` shows the condition is needed.)
--
-- FULL STATEMENT (proved in Props/C15b.lean): listed_cells_registered
--   ∀ topo ops t, alive t → ∀ g ∈ ((exec (init topo) ops).trainers t).groups,
--     (lookup ((exec (init topo) ops).trainers t).cells g.1).isSome
--   (every group of `named_monitors` belongs to a registered cell name; missing: the key-set lemmas for
--   groupsInsert / groupsErase / filter under registerCell, delCell, addMonitor, delMonitor.)
--
-- FULL STATEMENT (proved in Props/C15b.lean): hook_count
--   ∀ topo ops, (exec (init topo) ops).post.length =
--     Σ over alive training trainers t of (distinctMids (trainers t)).length
--   (`no_dangling_handle` gives the two inclusions and uniqueness of ids; the cardinality argument — a
--   permutation between the hook list and the disjoint union of the pools — is not carried out.)
-/

/-! ## Layers (D36) -/

/-- **alias_same_layer** (the repaired rule, D36): whenever the pool search of `add_monitor` returns
an alias for a monitor of cell `cell`, that monitor is held — under the same name — by the group of
an observable of the same trainer that belongs to the SAME layer as `cell`.  Aliasing never crosses
layers. -/
theorem alias_same_layer (s : State) (hf : s.layerFilter = true) (T : Trainer) (cell mname tags : Nat)
    (path : Path) (mid : Nat) (h : findAlias s T cell mname tags path = some mid) :
    AliasSource s T cell mname mid :=
  findAlias_go_same_layer s hf T cell mname tags path T.cells (fun _ h => h) none (by simp) mid h

/-- the repair switch and the topology are constants of a history: every state reachable from
`init topo true` runs the repaired rule -/
theorem reachable_layerFilter (topo : List (Nat × Nat × Nat)) (f : Bool) (ops : List Op) :
    (exec (init topo f) ops).layerFilter = f ∧ (exec (init topo f) ops).topo = topo := by
  have := static_exec ops (init topo f)
  exact ⟨this.filter, this.topo⟩

/-- `alias_same_layer` in every reachable state of the repaired machine -/
theorem alias_same_layer_reachable (topo : List (Nat × Nat × Nat)) (ops : List Op) (T : Trainer)
    (cell mname tags : Nat) (path : Path) (mid : Nat)
    (h : findAlias (exec (init topo true) ops) T cell mname tags path = some mid) :
    AliasSource (exec (init topo true) ops) T cell mname mid :=
  alias_same_layer _ (reachable_layerFilter topo true ops).1 T cell mname tags path mid h

/-- two layers whose only connection and neuron carry the same names -/
def topoXL : List (Nat × Nat × Nat) := [(0, 0, 0), (1, 0, 0)]

/-- one STDP-like trainer registers a cell of each layer -/
def xlprog : List Op := [.newTrainer 0, .registerCell 0 0 0 0, .registerCell 0 1 1 0]

/-- **cross_layer_alias_old_rule** (D36, negation witness for the rule before the repair): with the
vacuous layer test, the second layer's cell is handed the first layer's four monitors — no hook is
registered with layer 1, a step of layer 1 records nothing for its cell, a step of layer 0 records
into the monitors listed for layer 1's cell.  With the repaired rule each cell gets monitors on its
own layer and each layer step feeds exactly its own cell's monitors. -/
theorem cross_layer_alias_old_rule :
    -- old rule: cell 1 (layer 1) is listed with monitors 0–3, all constructed on layer 0
    (namedMonitors ((exec (init topoXL false) xlprog).trainers 0)).map (·.2) = [0, 1, 2, 3, 0, 1, 2, 3] ∧
    (layerHooks (exec (init topoXL false) xlprog) 1).length = 0 ∧
    ((exec (init topoXL false) (xlprog ++ [.layerStep 1])).mons 0).count = 0 ∧
    ((exec (init topoXL false) (xlprog ++ [.layerStep 0])).mons 0).count = 1 ∧
    -- repaired rule: eight monitors, four per layer, each fed by its own layer only
    (namedMonitors ((exec (init topoXL true) xlprog).trainers 0)).map (·.2) = [0, 1, 2, 3, 4, 5, 6, 7] ∧
    (layerHooks (exec (init topoXL true) xlprog) 1).length = 4 ∧
    ((exec (init topoXL true) (xlprog ++ [.layerStep 1])).mons 4).count = 1 ∧
    ((exec (init topoXL true) (xlprog ++ [.layerStep 1])).mons 0).count = 0 ∧
    ((exec (init topoXL true) xlprog).mons 4).layer = 1 := by decide

-- FULL STATEMENT (proved in Props/C15b.lean): layer_ok
--   ∀ topo ops t n c g e, let s := exec (init topo true) ops;
--     (s.trainers t).alive → lookup (s.trainers t).cells n = some c → lookup (s.trainers t).groups n = some g →
--     e ∈ g → (s.mons e.2).layer = cellLayer s c
--   (every monitor listed for a cell is constructed on, and registers with, that cell's layer — the
--   invariant behind the S-field `L<layer>` of the correspondence check.  `alias_same_layer` is its
--   induction step for aliased monitors and a fresh monitor gets `cellLayer s cell` by construction;
--   missing: uniqueness of cell names in `cells` and the group-key lemmas needed to carry the
--   invariant through registerCell / delCell / addMonitor / delMonitor.)

/-! ## D18: the exclusion that cannot be dropped (negation witnesses by `decide`) -/

/-- two cells sharing the post-synaptic neuron -/
def topo2 : List (Nat × Nat × Nat) := [(0, 0, 0), (0, 1, 0)]

/-- an eligibility-trace trainer registers cell 0, then a plain STDP trainer registers it too -/
def d18prog : List Op := [.newTrainer 1, .newTrainer 0, .registerCell 0 0 0 0, .registerCell 1 0 0 0]

/-- **second_trainer_redirects_eligibility** (D18, KNOWN finding): before the second trainer
registers the cell, the eligibility monitor (monitor 4: `elig_post` of trainer 0) reads trainer 0's
own `trace_pre` / `spike_post` (monitors 2 and 1) through `cell.monitors`; afterwards it reads
the newcomer's monitors 8 and 7 — although the operation was addressed to another trainer. -/
theorem second_trainer_redirects_eligibility :
    resolvedReads (exec (init topo2) (d18prog.take 3)) 4 = [some 2, some 1] ∧
    readsOwn (exec (init topo2) (d18prog.take 3)) 4 = true ∧
    resolvedReads (exec (init topo2) d18prog) 4 = [some 8, some 7] ∧
    readsOwn (exec (init topo2) d18prog) 4 = false ∧
    -- the operation is addressed to ANOTHER registration, (trainer 1, name 0) ≠ (trainer 0, name 0) …
    addressed (.registerCell 1 0 0 0) = some (1, 0) ∧
    -- … but writes the `cell.monitors` map of the very cell monitor 4 reads: `hD18` of `isolation_reads` fails
    opCell (exec (init topo2) (d18prog.take 3)) (.registerCell 1 0 0 0) =
      some ((exec (init topo2) (d18prog.take 3)).mons 4).cell := by decide

/-- … and once the newcomer deletes the cell again its monitors are finalised, the weak
`cell.monitors` entries vanish, and the first trainer's next layer step raises — so `NoAbort`
is a genuine hypothesis of `one_obs_per_training_step`. -/
theorem second_trainer_breaks_layer_step :
    (step (exec (init topo2) (d18prog ++ [.delCell 1 0])) (.layerStep 0)).2 = .err .AttributeError ∧
    (step (exec (init topo2) (d18prog.take 3)) (.layerStep 0)).2 = .ok := by decide

/-! ## Non-vacuity: concrete states meeting the hypotheses -/

/-- one STDP-like trainer, two cells sharing the post-synaptic neuron: `trace_post` and
`spike_post` (monitors 0, 1) are pooled, so six monitors serve eight entries -/
def shared : List Op := [.newTrainer 0, .registerCell 0 0 0 0, .registerCell 0 1 1 0]

example : (namedMonitors ((exec (init topo2) shared).trainers 0)).map (·.2) = [0, 1, 2, 3, 0, 1, 4, 5] := by decide
example : distinctMids ((exec (init topo2) shared).trainers 0) = [0, 1, 2, 3, 4, 5] := by decide
example : (exec (init topo2) shared).post.length = 6 := by decide
-- D17 (repaired): deleting the first cell keeps the shared monitors registered and recording
example : (exec (init topo2) (shared ++ [.layerStep 0, .delCell 0 0, .layerStep 0])).post.length = 4 := by decide
example : ((exec (init topo2) (shared ++ [.layerStep 0, .delCell 0 0, .layerStep 0])).mons 0).count = 2 := by decide
example : ((exec (init topo2) (shared ++ [.layerStep 0, .delCell 0 0, .layerStep 0])).mons 0).expected = 2 := by decide
example : NoAbort (init topo2) (shared ++ [.layerStep 0, .delCell 0 0, .layerStep 0]) := by
  simp only [NoAbort, shared, List.cons_append, List.nil_append]; decide
-- evaluation mode: nothing is recorded, by count and by specification
example : ((exec (init topo2) (shared ++ [.trainerTrain 0 false, .layerStep 0])).mons 0).count = 0 := by decide
example : (exec (init topo2) (shared ++ [.trainerTrain 0 false, .layerStep 0])).post = [] := by decide
example : addressed (.delCell 0 0) = some (0, 0) := rfl

end InfernoVerif.Lifecycle
