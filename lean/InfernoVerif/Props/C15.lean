import InfernoVerif.Lemmas.Lifecycle
namespace InfernoVerif.Lifecycle
end InfernoVerif.Lifecycle
