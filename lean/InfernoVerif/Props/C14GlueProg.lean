import InfernoVerif.Gen.ConfigProg
import InfernoVerif.Props.C13GlueProg
import InfernoVerif.Props.C14
/-!
# Glue: the configuration machine of C14 IS the setter code of the mixins / reducers / connections in /repo's source

`Gen/ConfigProg.lean` is regenerated on every run by `harness/progtx_config.py` from the *whole bodies* of
`BatchMixin.__init__ / add_batched / batchsz`, `DelayedMixin.__init__ / add_delayed / dt / delay`
(`inferno/neural/mixins.py`), `RecordReducer.__init__ / add_record / dt / duration / inplace`
(`inferno/observe/reducers/base.py`), `InfernoNeuron.batchsz`, `InfernoSynapse.dt / delay / inplace`,
`Connection.synapse / batchsz / dt / delayedby` (`inferno/neural/base.py`): validation with its exception class, WHICH
private field is compared and written and WHEN (after the loop), the loop over the registered names with the record
property / `reconstrain` dimension it touches and the VALUE EXPRESSION it assigns, the forwarding calls resolved
along the real MRO, `self.clear()`, `self.synapse_ = value`.  The setters of the attribute objects are the programs
of `Gen/RecordProg.lean`, proved equal to `Record.step` in `Props/C13GlueProg.lean`; this file composes those
theorems with `Props/C14.lean :: summary_tracks_record`.

The theorems state, setter by setter, that running the regenerated program on a well-formed object and mapping the
result through the abstraction is exactly the corresponding operation of the hand-written machine
(`Model/Config.lean`) that `Props/C14.lean` proves path independent and framed:

| program | abstraction | model operation | theorem |
|---|---|---|---|
| `BatchMixin_set_batchsz` | `toBatchM` | `BatchM.set` | `gen_set_batchsz` |
| `DelayedMixin_set_dt` / `_set_delay` | `toDelayM` | `DelayM.setDt` / `setDelay` | `gen_delayed_set_dt` / `gen_delayed_set_delay` |
| `BatchMixin_add_batched` / `DelayedMixin_add_delayed` | `toBatchM` / `toDelayM` | `BatchM.add` / `DelayM.add` | `gen_add_batched` / `gen_add_delayed` |
| `InfernoSynapse_set_dt` / `_set_delay` / `_set_inplace`, `BatchMixin_set_batchsz` | `toSyn` | `Synapse.step` | `gen_synapse_set_*` |
| `InfernoNeuron_set_batchsz` | `toNeu` | `Neuron.step (.setBatch)` | `gen_neuron_set_batchsz` |
| `RecordReducer_set_dt` / `_set_duration` / `_set_inplace` | `toRed` | `Reducer.step` | `gen_reducer_set_*` |
| `Connection_set_synapse` / `_set_dt` / `_set_batchsz` | `toConn` | `Conn.step` | `gen_connection_set_*` |
| getters | — | `Synapse.report` / `Conn.report` | `gen_synapse_report`, `gen_connection_report`, `gen_*` (by `rfl`) |

An exception corresponds to `Out.err` with the state reached AT THE RAISE (Python keeps assignments made before a
raise); for the validation errors that state must be the unchanged object.  The `…_wf` parts show well-formedness is
maintained, so the theorems chain along setter sequences.  A change to a body (D14: `duration = value + step_time`;
D6: the duration setter writing `__step_time`; D13: `self.synapses = value`; a flipped `!=`, a dropped field update,
`argtest.gt` ↔ `gte`, `reconstrain(1, …)`) changes the generated text and the corresponding theorem stops checking.

What the abstractions forget / what is assumed (not papered over):
* `Config.BatchM / DelayM` summarise a registered tensor by its batch-dimension constraint / a record by
  `RecCfg` (dt, duration, inclusive, `recordsz`); `toBatchM / toDelayM` read those off the attribute objects
  (`attrBdim`: raw constraint key `1` of a `RecordTensor`, key `0` of a plain `ShapedTensor`; `mSum`: the fields of
  `RecordProg.toM`).  Contents, pointers and the other constraints are C13's business.
* Python `set`s are lists in iteration order (`Gen/ConfigPrelude.lean`); the model's `recs` / `bdims` are in that order.
* Hypotheses: well-formedness (`DelayWF`, `BatchWF`, `RedWF`: distinct registered names, each an attribute holding a
  `RecordProg.GWF` record resp. a tensor constrained on its batch dimension; positive batch size) — what the
  constructors and `add_*` establish (`gen_*_init`, `gen_add_*`) and every setter maintains; and ACCEPTANCE
  (`RecsAccept`, `BatchAccept`): every registered tensor's own machine (`Record.step`, `Shaped.shStep`) returns for
  the new value — the `settersSucceed` hypothesis of C13.  `Model/Config.lean`'s summary machine has no failing record.
  WITHOUT acceptance a record may raise in mid-loop: the generated programs (as Python) then leave the records
  visited so far changed and every private field unchanged (`gen_temporal_setter_raise`, `gen_set_batchsz_raise`);
  `Config.MComp.step` reports the whole component as unchanged in that case — it does not model the partial update.
* `clear()` of the concrete subclass is a parameter (`Ctx.clear`) assumed to return and to leave the configuration
  view and well-formedness alone (`ClearOK`: it resets contents).
* `toSyn / toNeu / toRed / toConn` take `dtype` (and a neuron's `dt`) as parameters: `module.to(dtype)` and the
  concrete neurons' `dt` property are not among the translated methods.  `toRed` is defined for a reducer with ONE
  record (`FoldReducer`), as `Config.Reducer` is.  `toConn` reads the submodule registered as `synapse_`, taken to be
  an `InfernoSynapse` (the declared type `Synapse` is abstract); `Connection.delay` (abstract) is the flag
  `delay_present`.
* `RecordReducer` has no `inclusive` property in the source (only the constructor argument), so there is no setter
  to tie; `Config.COp` has none either.
* Finding (outside the model): for an attribute of the wrong class `add_batched` / `add_delayed` / `add_record` raise
  `AttributeError`, not the `TypeError` they construct — the message evaluates `type(getattr(self, a).__name__)`
  (`gen_add_delayed_not_record`).
-/
set_option linter.unusedSimpArgs false
set_option linter.unusedVariables false
set_option linter.unusedSectionVars false

/-! ## Model-level facts about one record / one shaped tensor -/

namespace InfernoVerif.Record
open InfernoVerif.Ring (Err) 
open InfernoVerif.Shaped
variable {τ : Type}

/-- a decision taken for raw dim `rawdim` never touches the constraint of another raw dim `d` -/
theorem apply_lookup_other (s : MState τ) (strict : Bool) (sh? : Option (List Nat)) (rawdim : Int)
    (size : Option Int) (d : Int) (hne : rawdim ≠ d) :
    (applyM s (reconDecide s.cons strict sh? rawdim size)).1.cons.lookup d = s.cons.lookup d := by
  cases hD : reconDecide s.cons strict sh? rawdim size with
  | err e => rfl
  | setErr c' e =>
    obtain ⟨_, e2⟩ := decide_setErr hD
    subst e2; exact lookup_del_ne _ _ (Ne.symm hne)
  | set c' =>
    rcases decide_set hD with ⟨z, _, _, e2, _⟩ | ⟨_, e2⟩
    · subst e2; exact lookup_put_ne _ _ _ (Ne.symm hne)
    · subst e2; exact lookup_del_ne _ _ (Ne.symm hne)
  | resize c' t sz =>
    obtain ⟨z, shp, _, _, _, e3, _⟩ := decide_resize hD
    subst e3
    unfold applyM
    cases s.store with
    | none => rfl
    | empty => rfl
    | uninit => rfl
    | init sh dd =>
      obtain ⟨p, rows⟩ := dd
      simp only
      split <;> exact lookup_put_ne _ _ _ (Ne.symm hne)

/-- a decision for raw dim `dim` with a requested size, when it does not raise, installs that size -/
theorem apply_lookup_set (s : MState τ) (c : Cons) (strict : Bool) (sh? : Option (List Nat)) (dim : Int) (z : Int)
    (hu : (applyM s (reconDecide c strict sh? dim (some z))).2 = .unit) :
    (applyM s (reconDecide c strict sh? dim (some z))).1.cons.lookup dim = some z.toNat := by
  cases hD : reconDecide c strict sh? dim (some z) with
  | err e => rw [hD] at hu; simp [applyM] at hu
  | setErr c' e => rw [hD] at hu; simp [applyM] at hu
  | set c' =>
    rcases decide_set hD with ⟨z', e1, _, e2, _⟩ | ⟨e1, _⟩
    · cases e1; subst e2; simp only [applyM]; exact lookup_put_self _ _ _
    · cases e1
  | resize c' t sz =>
    obtain ⟨z', shp, e1, _, e2, e3, _⟩ := decide_resize hD
    cases e1
    subst e2 e3
    rw [hD] at hu
    unfold applyM at hu ⊢
    cases hs : s.store with
    | none => rw [hs] at hu; simp at hu
    | empty => rw [hs] at hu; simp at hu
    | uninit => rw [hs] at hu; simp at hu
    | init sh dd =>
      obtain ⟨p, rows⟩ := dd
      simp only
      split <;> exact lookup_put_self _ _ _

/-- the temporal setters never touch the constraint of a raw dim other than the record dimension -/
theorem resizeTo_lookup_ne (s : MState τ) (size : Nat) (d : Int) (hd : d ≠ 0) :
    (resizeToM s size).1.cons.lookup d = s.cons.lookup d := by
  unfold resizeToM
  cases s.cons.lookup 0 with
  | none => rfl
  | some n =>
    simp only
    by_cases he : size = n
    · simp [he]
    · simp only [he, if_false]
      obtain ⟨a1, a2, a3, a4, a5⟩ := align0_fields s
      unfold shapedReconM
      rw [apply_lookup_other (align0 s) _ _ 0 _ d (Ne.symm hd), a4]

/-- a temporal setter (whatever it returns) leaves the constraint of every raw dim other than 0 alone -/
theorem setter_lookup_ne (T : TimeOps τ) (s : MState τ) (op : Op τ) (hop : op.isSetter = true) (d : Int)
    (hd : d ≠ 0) : (step T s op).1.cons.lookup d = s.cons.lookup d := by
  cases op with
  | setDt v => simp only [step]; split; exact resizeTo_lookup_ne _ _ d hd; rfl
  | setDur v => simp only [step]; split; exact resizeTo_lookup_ne _ _ d hd; rfl
  | setIncl b => simp only [step]; split; exact resizeTo_lookup_ne _ _ d hd; rfl
  | recon dim size => simp [Op.isSetter] at hop
  | push xsh x b => simp [Op.isSetter] at hop
  | assign k => simp [Op.isSetter] at hop
  | initz sh => simp [Op.isSetter] at hop

/-- `reconstrain(dim, z)` that returns installs `z` on the shifted raw dim -/
theorem recon_lookup_set (T : TimeOps τ) (s : MState τ) (dim : Int) (z : Int)
    (hu : (step T s (.recon dim (some z))).2 = .unit) :
    (step T s (.recon dim (some z))).1.cons.lookup (if 0 ≤ dim then dim + 1 else dim) = some z.toNat := by
  simp only [step, shapedReconM] at hu ⊢
  exact apply_lookup_set _ _ _ _ _ _ hu

/-- the same for a plain `ShapedTensor` -/
theorem sh_recon_lookup_set (s : ShState) (dim : Int) (z : Int)
    (hu : (shStep s (.recon dim (some z))).2 = .unit) :
    (shStep s (.recon dim (some z))).1.cons.lookup dim = some z.toNat := by
  simp only [shStep] at hu ⊢
  cases hD : reconDecide s.cons s.strict s.val.shape? dim (some z) with
  | err e => rw [hD] at hu; simp [shApply] at hu
  | setErr c' e => rw [hD] at hu; simp [shApply] at hu
  | set c' =>
    rcases decide_set hD with ⟨z', e1, _, e2, _⟩ | ⟨e1, _⟩
    · cases e1; subst e2; simp only [shApply]; exact lookup_put_self _ _ _
    · cases e1
  | resize c' t sz =>
    obtain ⟨z', shp, e1, _, e2, e3, _⟩ := decide_resize hD
    cases e1
    subst e2 e3
    rw [hD] at hu
    unfold shApply at hu ⊢
    cases hs : s.val with
    | none => rw [hs] at hu; simp at hu
    | uninit => rw [hs] at hu; simp at hu
    | tensor sh v => simp only; exact lookup_put_self _ _ _

end InfernoVerif.Record


namespace InfernoVerif.Gen.ConfigProg
open InfernoVerif.Ring (Err Elem)
open InfernoVerif.Shaped InfernoVerif.Gen.ConfigPrelude
open InfernoVerif.Gen.RecordPrelude (RecT)
open InfernoVerif.Record (TimeOps recSize)
open InfernoVerif.Config (RecCfg BatchM DelayM COp)

variable {τ : Type} {α : Type}

/-- `dict[a] = x` on an association list (every entry under `a` replaced), looked up at `b` -/
theorem lookup_replace {β : Type} (l : List (String × β)) (a b : String) (x : β) :
    (l.map fun p => if p.1 = a then (p.1, x) else p).lookup b =
      if b = a then (l.lookup a).map (fun _ => x) else l.lookup b := by
  induction l with
  | nil => simp
  | cons p l ih =>
    obtain ⟨k, v⟩ := p
    by_cases hk : k = a
    · subst hk
      by_cases hb : b = k
      · subst hb; simp [List.lookup_cons]
      · have : (b == k) = false := by simpa using hb
        simp [List.lookup_cons, this, hb] at ih ⊢
        exact ih
    · by_cases hb : b = a
      · subst hb
        have h1 : (b == k) = false := by simpa using (Ne.symm hk)
        simp [List.lookup_cons, h1, hk] at ih ⊢
        exact ih
      · by_cases hbk : b = k
        · subst hbk; simp [List.lookup_cons, hk, hb]
        · have h1 : (b == k) = false := by simpa using hbk
          simp [List.lookup_cons, h1, hk, hb] at ih ⊢
          exact ih

/-- a new key appended at the end is found there -/
theorem lookup_append_new {β : Type} (l : List (String × β)) (a : String) (x : β) (h : l.lookup a = none) :
    (l ++ [(a, x)]).lookup a = some x := by
  induction l with
  | nil => simp [List.lookup_cons]
  | cons p l ih =>
    obtain ⟨k, v⟩ := p
    by_cases hk : a = k
    · subst hk; simp [List.lookup_cons] at h
    · have h1 : (a == k) = false := by simpa using hk
      simp only [List.lookup_cons, h1] at h
      simp only [List.cons_append, List.lookup_cons, h1]
      exact ih h

/-- `putAttr` looked up: the replaced object under `a` (if `a` was an attribute), everything else as before -/
theorem lookup_putAttr (l : List (String × Attr τ)) (a b : String) (x : Attr τ) :
    (putAttr l a x).lookup b = if b = a then (l.lookup a).map (fun _ => x) else l.lookup b :=
  lookup_replace l a b x

/-- the loop `for nm in names: getattr(self, nm).<m>` -/
def forAttrs (names : List String) (m : Attr τ → Except (Err × Attr τ) (Attr τ × Unit)) (o : Obj τ) :
    Except (Err × Obj τ) (Obj τ) :=
  names.foldlM (fun self nm => (do
      let self := (← attrCall self nm m).1
      pure self : Except (Err × Obj τ) _)) o

/-- the loop over no names returns the object as it is -/
theorem forAttrs_nil (m : Attr τ → Except (Err × Attr τ) (Attr τ × Unit)) (o : Obj τ) :
    forAttrs [] m o = .ok o := rfl

/-- one iteration of the loop: the first name's call, then the rest on the object it leaves (a raise stops the loop) -/
theorem forAttrs_cons (nm : String) (names : List String) (m : Attr τ → Except (Err × Attr τ) (Attr τ × Unit))
    (o : Obj τ) :
    forAttrs (nm :: names) m o =
      match attrCall o nm m with
      | .ok (o1, _) => forAttrs names m o1
      | .error e => .error e := by
  unfold forAttrs
  simp only [List.foldlM_cons, bind, Except.bind, pure, Except.pure]
  cases attrCall o nm m with
  | ok r => rfl
  | error e => rfl

/-- the loop over distinct names whose calls all return: it returns, only the attribute heap changes, names outside
the list keep their objects, every listed name holds the object its call returned -/
theorem forAttrs_ok (m : Attr τ → Except (Err × Attr τ) (Attr τ × Unit)) (names : List String)
    (hnd : names.Nodup) (o : Obj τ)
    (h : ∀ nm ∈ names, ∃ x x', o.attrs.lookup nm = some x ∧ m x = .ok (x', ())) :
    ∃ attrs', forAttrs names m o = .ok { o with attrs := attrs' } ∧
      (∀ b, b ∉ names → attrs'.lookup b = o.attrs.lookup b) ∧
      (∀ b ∈ names, ∃ x x', o.attrs.lookup b = some x ∧ m x = .ok (x', ()) ∧ attrs'.lookup b = some x') := by
  induction names generalizing o with
  | nil => exact ⟨o.attrs, rfl, fun _ _ => rfl, fun b hb => by cases hb⟩
  | cons nm rest ih =>
    obtain ⟨x, x', hx, hm⟩ := h nm (List.mem_cons_self ..)
    have hnm : nm ∉ rest := (List.nodup_cons.mp hnd).1
    have hrest : rest.Nodup := (List.nodup_cons.mp hnd).2
    have hcall : attrCall o nm m = .ok ({ o with attrs := putAttr o.attrs nm x' }, ()) := by
      simp [attrCall, hx, hm]
    have hl : ∀ b, b ≠ nm → (putAttr o.attrs nm x').lookup b = o.attrs.lookup b := by
      intro b hb; rw [lookup_putAttr]; simp [hb]
    obtain ⟨attrs', h1, h2, h3⟩ := ih hrest { o with attrs := putAttr o.attrs nm x' } (by
      intro b hb
      obtain ⟨y, y', hy, hmy⟩ := h b (List.mem_cons_of_mem _ hb)
      have : b ≠ nm := fun e => hnm (e ▸ hb)
      exact ⟨y, y', by simpa [hl b this] using hy, hmy⟩)
    refine ⟨attrs', ?_, ?_, ?_⟩
    · rw [forAttrs_cons, hcall]; exact h1
    · intro b hb
      have hb1 : b ≠ nm := fun e => hb (e ▸ List.mem_cons_self ..)
      have hb2 : b ∉ rest := fun e => hb (List.mem_cons_of_mem _ e)
      rw [h2 b hb2]; exact hl b hb1
    · intro b hb
      rcases List.mem_cons.mp hb with e | hb'
      · subst e
        refine ⟨x, x', hx, hm, ?_⟩
        rw [h2 b hnm]
        simp [lookup_putAttr, hx]
      · obtain ⟨y, y', hy, hmy, hy'⟩ := h3 b hb'
        have : b ≠ nm := fun e => hnm (e ▸ hb')
        exact ⟨y, y', by simpa [hl b this] using hy, hmy, hy'⟩

/-- a call on an attribute object, returning or raising, changes nothing but the attribute heap -/
theorem attrCall_fields {β : Type} (o : Obj τ) (nm : String) (m : Attr τ → Except (Err × Attr τ) (Attr τ × β)) :
    match attrCall o nm m with
    | .ok (o', _) => ∃ attrs', o' = { o with attrs := attrs' }
    | .error (_, o') => ∃ attrs', o' = { o with attrs := attrs' } := by
  unfold attrCall
  cases o.attrs.lookup nm with
  | none => exact ⟨o.attrs, rfl⟩
  | some x =>
    simp only
    cases m x with
    | error e => exact ⟨_, rfl⟩
    | ok r => exact ⟨_, rfl⟩

/-- whatever the loop does, it only touches attribute objects -/
theorem forAttrs_fields (m : Attr τ → Except (Err × Attr τ) (Attr τ × Unit)) (names : List String) (o : Obj τ) :
    match forAttrs names m o with
    | .ok o' => ∃ attrs', o' = { o with attrs := attrs' }
    | .error (_, o') => ∃ attrs', o' = { o with attrs := attrs' } := by
  induction names generalizing o with
  | nil => exact ⟨o.attrs, rfl⟩
  | cons nm rest ih =>
    rw [forAttrs_cons]
    have hc := attrCall_fields o nm m
    cases hcall : attrCall o nm m with
    | error e => obtain ⟨e, o'⟩ := e; rw [hcall] at hc; exact hc
    | ok r =>
      obtain ⟨o1, u⟩ := r
      rw [hcall] at hc
      obtain ⟨a1, rfl⟩ := hc
      have := ih { o with attrs := a1 }
      simp only
      cases hf : forAttrs rest m { o with attrs := a1 } with
      | ok o' => rw [hf] at this; obtain ⟨a, ha⟩ := this; exact ⟨a, ha⟩
      | error e => obtain ⟨e, o'⟩ := e; rw [hf] at this; obtain ⟨a, ha⟩ := this; exact ⟨a, ha⟩

/-! ## Abstraction -/

/-- result of a program → (abstract state, output); an exception is reported with the state reached at the raise -/
def outcome {σ μ : Type} (abs : σ → μ) : Except (Err × σ) (σ × α) → μ × Config.Out
  | .ok (s, _) => (abs s, .unit)
  | .error (e, s) => (abs s, .err e)

/-- the model's `Except` operations in the same form: a refused operation leaves the state as it was -/
def modelOutcome {μ : Type} (m : μ) : Except Err μ → μ × Config.Out
  | .ok m' => (m', .unit)
  | .error e => (m, .err e)

/-- the state a program ends in, whether it returned or raised -/
def outState {σ : Type} : Except (Err × σ) (σ × α) → σ
  | .ok (s, _) => s
  | .error (_, s) => s

/-- summary (dt, duration, inclusive, `recordsz`) of a record machine state -/
def mSum (s : Record.MState τ) : Option (RecCfg τ) :=
  (s.cons.lookup 0).map fun n => ⟨s.dt, s.dur, s.incl, n⟩

/-- summary of an attribute object: only a `RecordTensor` has one -/
def attrSum : Attr τ → Option (RecCfg τ)
  | .record r => mSum (RecordProg.toM r)
  | _ => none

/-- the batch-dimension constraint of an attribute object: dimension 0 of the constrained value, which is raw
dimension 1 of a `RecordTensor` (raw dimension 0 is the history) -/
def attrBdim : Attr τ → Option Nat
  | .record r => r.constraints.lookup 1
  | .shaped s => s.cons.lookup 0
  | .other => none

/-- summary of the attribute named `nm` -/
def rsum? (attrs : List (String × Attr τ)) (nm : String) : Option (RecCfg τ) := (attrs.lookup nm).bind attrSum
/-- batch-dimension constraint of the attribute named `nm` -/
def bdim? (attrs : List (String × Attr τ)) (nm : String) : Option Nat := (attrs.lookup nm).bind attrBdim

/-- `BatchMixin` part of an object → `Config.BatchM` -/
def toBatchM (o : Obj τ) : BatchM :=
  ⟨o.BatchMixin__batch_size.toNat, o.BatchMixin__constrained.filterMap (bdim? o.attrs)⟩

/-- `DelayedMixin` part of an object → `Config.DelayM` -/
def toDelayM (o : Obj τ) : DelayM τ :=
  ⟨o.DelayedMixin__step_time, o.DelayedMixin__delay, o.DelayedMixin__constrained.filterMap (rsum? o.attrs)⟩

/-- well-formedness of an attribute object -/
def AttrWF : Attr τ → Prop
  | .record r => RecordProg.GWF r
  | _ => True

/-- pointwise `g' a = some (h c)` where `g a = some c`: the filtered list is mapped by `h` -/
theorem filterMap_map_of {β γ : Type} (l : List β) (g g' : β → Option γ) (h : γ → γ)
    (H : ∀ a ∈ l, ∃ c, g a = some c ∧ g' a = some (h c)) : l.filterMap g' = (l.filterMap g).map h := by
  induction l with
  | nil => rfl
  | cons a l ih =>
    obtain ⟨c, h1, h2⟩ := H a (List.mem_cons_self ..)
    simp only [List.filterMap_cons, h1, h2, List.map_cons]
    rw [ih (fun b hb => H b (List.mem_cons_of_mem _ hb))]

/-- `filterMap` only looks at the elements of the list -/
theorem filterMap_congr_of {β γ : Type} (l : List β) (g g' : β → Option γ)
    (H : ∀ a ∈ l, g' a = g a) : l.filterMap g' = l.filterMap g := by
  induction l with
  | nil => rfl
  | cons a l ih =>
    simp only [List.filterMap_cons, H a (List.mem_cons_self ..)]
    rw [ih (fun b hb => H b (List.mem_cons_of_mem _ hb))]

/-! ## One attribute object under one operation -/

/-- the prelude's class dispatch, indexed by the operation of the record machine -/
def attrOp (C : Ctx τ) (x : Attr τ) : Record.Op τ → Except (Err × Attr τ) (Attr τ × Unit)
  | .setDt v => Attr_set_dt C x v
  | .setDur v => Attr_set_duration C x v
  | .setIncl b => Attr_set_inclusive C x b
  | .recon d z => Attr_reconstrain C x d z
  | _ => .error (.Other, x)

/-- a record program whose machine step returns `unit`: the program returns, the record it leaves is well-formed and
abstracts to the machine's next state -/
theorem onRec_ok (r : RecT τ) (p : Except (Err × RecT τ) (RecT τ × α)) (ms : Record.MState τ × Record.Out)
    (hl : RecordProg.lift p = ms) (hw : RecordProg.GWF (RecordProg.outState p)) (hu : ms.2 = .unit) :
    ∃ r', onRec r p = .ok (.record r', ()) ∧ RecordProg.GWF r' ∧ RecordProg.toM r' = ms.1 := by
  cases p with
  | error e =>
    obtain ⟨e, g⟩ := e
    subst hl
    simp [RecordProg.lift] at hu
  | ok q =>
    obtain ⟨g, u⟩ := q
    subst hl
    exact ⟨g, rfl, hw, rfl⟩

/-- a record operation the machine accepts: the regenerated program of the attribute returns, leaves a well-formed
record, and its abstraction is the machine's next state -/
theorem attrOp_record_ok (C : Ctx τ) (r : RecT τ) (h : RecordProg.GWF r) (op : Record.Op τ)
    (hop : op.isSetter = true ∨ ∃ d z, op = .recon d z)
    (hu : (Record.step C.T (RecordProg.toM r) op).2 = .unit) :
    ∃ r', attrOp C (.record r) op = .ok (.record r', ()) ∧ RecordProg.GWF r' ∧
      RecordProg.toM r' = (Record.step C.T (RecordProg.toM r) op).1 := by
  cases op with
  | setDt v =>
    exact onRec_ok r _ _ (RecordProg.gen_set_dt C.T C.E r h v) (RecordProg.gen_set_dt_wf C.T C.E r h v) hu
  | setDur v =>
    exact onRec_ok r _ _ (RecordProg.gen_set_duration C.T C.E r h v) (RecordProg.gen_set_duration_wf C.T C.E r h v) hu
  | setIncl b =>
    exact onRec_ok r _ _ (RecordProg.gen_set_inclusive C.T C.E r h b) (RecordProg.gen_set_inclusive_wf C.T C.E r h b) hu
  | recon d z =>
    exact onRec_ok r _ _ (RecordProg.gen_reconstrain C.T C.E r h d z) (RecordProg.gen_reconstrain_wf C.T C.E r h d z) hu
  | push xsh x b => rcases hop with hop | ⟨d, z, hop⟩ <;> simp [Record.Op.isSetter] at hop
  | assign k => rcases hop with hop | ⟨d, z, hop⟩ <;> simp [Record.Op.isSetter] at hop
  | initz sh => rcases hop with hop | ⟨d, z, hop⟩ <;> simp [Record.Op.isSetter] at hop

variable [DecidableEq τ]

/-- what a temporal setter that returns does to the summary (`Props/C14.lean :: summary_tracks_record`) -/
theorem mSum_setter (T : TimeOps τ) (s : Record.MState τ) (c : RecCfg τ) (hc : mSum s = some c) :
    (∀ v, (Record.step T s (.setDt v)).2 = .unit → mSum (Record.step T s (.setDt v)).1 = some (c.setDt T v)) ∧
    (∀ v, (Record.step T s (.setDur v)).2 = .unit → mSum (Record.step T s (.setDur v)).1 = some (c.setDur T v)) ∧
    (∀ b, (Record.step T s (.setIncl b)).2 = .unit → mSum (Record.step T s (.setIncl b)).1 = some (c.setIncl T b)) := by
  unfold mSum at hc
  cases hl : s.cons.lookup 0 with
  | none => simp [hl] at hc
  | some n =>
    simp only [hl, Option.map_some, Option.some.injEq] at hc
    subst hc
    obtain ⟨h1, h2, h3⟩ := Config.summary_tracks_record T s n
    refine ⟨fun v hu => ?_, fun v hu => ?_, fun b hu => ?_⟩
    · obtain ⟨a, b, c, d⟩ := h1 v hu
      simp [mSum, a, b, c, d, RecCfg.setDt]
    · obtain ⟨a, b, c, d⟩ := h2 v hu
      simp [mSum, a, b, c, d, RecCfg.setDur]
    · obtain ⟨a, b', c, d⟩ := h3 b hu
      simp [mSum, a, b', c, d, RecCfg.setIncl]

/-- `reconstrain` never changes the summary -/
theorem mSum_recon (T : TimeOps τ) (s : Record.MState τ) (d : Int) (z : Option Int) :
    mSum (Record.step T s (.recon d z)).1 = mSum s := by
  obtain ⟨a, b, c, e⟩ := Record.nonsetter_keeps T s (.recon d z) rfl
  simp [mSum, a, b, c, e]

/-! ## Loops over registered names -/

/-- registered names: distinct, each an attribute that is a well-formed `RecordTensor` -/
def RecNames (attrs : List (String × Attr τ)) (names : List String) : Prop :=
  names.Nodup ∧ ∀ nm ∈ names, ∃ r, attrs.lookup nm = some (.record r) ∧ RecordProg.GWF r

/-- every registered record accepts the operation: the record machine returns (`Record.settersSucceed` of C13) -/
def RecsAccept (T : TimeOps τ) (attrs : List (String × Attr τ)) (names : List String) (op : Record.Op τ) : Prop :=
  ∀ nm ∈ names, ∀ r, attrs.lookup nm = some (.record r) → (Record.step T (RecordProg.toM r) op).2 = .unit

/-- one record operation applied to every registered record: the loop returns, touches only those attributes, and
every one of them makes the step of the record machine -/
theorem forRecs_ok (C : Ctx τ) (o : Obj τ) (names : List String) (hn : RecNames o.attrs names) (op : Record.Op τ)
    (hop : op.isSetter = true ∨ ∃ d z, op = .recon d z) (hacc : RecsAccept C.T o.attrs names op) :
    ∃ attrs', forAttrs names (fun x_ => attrOp C x_ op) o = .ok { o with attrs := attrs' } ∧
      (∀ b, b ∉ names → attrs'.lookup b = o.attrs.lookup b) ∧
      (∀ b ∈ names, ∃ r r', o.attrs.lookup b = some (.record r) ∧ attrs'.lookup b = some (.record r') ∧
        RecordProg.GWF r' ∧ RecordProg.toM r' = (Record.step C.T (RecordProg.toM r) op).1 ∧
        (Record.step C.T (RecordProg.toM r) op).2 = .unit) := by
  obtain ⟨hnd, hrec⟩ := hn
  obtain ⟨attrs', h1, h2, h3⟩ := forAttrs_ok (fun x_ => attrOp C x_ op) names hnd o (by
    intro nm hnm
    obtain ⟨r, hr, hg⟩ := hrec nm hnm
    obtain ⟨r', e1, _, _⟩ := attrOp_record_ok C r hg op hop (hacc nm hnm r hr)
    exact ⟨_, _, hr, e1⟩)
  refine ⟨attrs', h1, h2, ?_⟩
  intro b hb
  obtain ⟨r, hr, hg⟩ := hrec b hb
  obtain ⟨r', e1, e2, e3⟩ := attrOp_record_ok C r hg op hop (hacc b hb r hr)
  obtain ⟨x, x', hx, hm, hx'⟩ := h3 b hb
  rw [hr] at hx; cases hx
  have hm' : attrOp C (.record r) op = .ok (x', ()) := hm
  rw [e1] at hm'; cases hm'
  exact ⟨r, r', hr, hx', e2, e3, hacc b hb r hr⟩

/-- the loop of a temporal setter (`rec.dt = v`, `rec.duration = v`, `rec.inclusive = b` for every registered
record): every summary is updated by the corresponding `RecCfg` setter, no batch-dimension constraint changes,
the registered names stay well-formed records -/
theorem setter_loop (C : Ctx τ) (o : Obj τ) (names : List String) (hn : RecNames o.attrs names)
    (op : Record.Op τ) (hop : op.isSetter = true) (hacc : RecsAccept C.T o.attrs names op)
    (f : RecCfg τ → RecCfg τ)
    (hf : ∀ (s : Record.MState τ) c, mSum s = some c → (Record.step C.T s op).2 = .unit →
      mSum (Record.step C.T s op).1 = some (f c)) :
    ∃ attrs', forAttrs names (fun x_ => attrOp C x_ op) o = .ok { o with attrs := attrs' } ∧
      names.filterMap (rsum? attrs') = (names.filterMap (rsum? o.attrs)).map f ∧
      (∀ b, b ∉ names → attrs'.lookup b = o.attrs.lookup b) ∧
      (∀ b, bdim? attrs' b = bdim? o.attrs b) ∧ RecNames attrs' names ∧
      (∀ b r, o.attrs.lookup b = some (.record r) → RecordProg.GWF r →
        ∃ r', attrs'.lookup b = some (.record r') ∧ RecordProg.GWF r') ∧
      (∀ b s, o.attrs.lookup b = some (.shaped s) → attrs'.lookup b = some (.shaped s)) := by
  obtain ⟨attrs', h1, h2, h3⟩ := forRecs_ok C o names hn op (Or.inl hop) hacc
  refine ⟨attrs', h1, ?_, h2, ?_, ⟨hn.1, ?_⟩, ?_, ?_⟩
  · apply filterMap_map_of
    intro b hb
    obtain ⟨r, r', e1, e2, e3, e4, e5⟩ := h3 b hb
    obtain ⟨r0, hr0, hg0⟩ := hn.2 b hb
    rw [e1] at hr0; cases hr0
    obtain ⟨n, hn0, _⟩ := hg0
    have hc : mSum (RecordProg.toM r) = some ⟨r.dt, r.duration, r.inclusive, n⟩ := by
      simp [mSum, RecordProg.toM, hn0]
    refine ⟨⟨r.dt, r.duration, r.inclusive, n⟩, by simp [rsum?, e1, attrSum, hc], ?_⟩
    simp only [rsum?, e2, Option.bind_some, attrSum, e4]
    exact hf _ _ hc e5
  · intro b
    by_cases hb : b ∈ names
    · obtain ⟨r, r', e1, e2, e3, e4, e5⟩ := h3 b hb
      have : r'.constraints.lookup 1 = r.constraints.lookup 1 := by
        have := Record.setter_lookup_ne C.T (RecordProg.toM r) op hop 1 (by decide)
        rw [← e4] at this
        exact this
      simp [bdim?, e1, e2, attrBdim, this]
    · simp [bdim?, h2 b hb]
  · intro b hb
    obtain ⟨r, r', e1, e2, e3, e4, e5⟩ := h3 b hb
    exact ⟨r', e2, e3⟩
  · intro b r hr hg
    by_cases hb : b ∈ names
    · obtain ⟨r0, r', e1, e2, e3, e4, e5⟩ := h3 b hb
      exact ⟨r', e2, e3⟩
    · exact ⟨r, by rw [h2 b hb]; exact hr, hg⟩
  · intro b s hs
    by_cases hb : b ∈ names
    · obtain ⟨r0, r', e1, e2, e3, e4, e5⟩ := h3 b hb
      rw [e1] at hs; cases hs
    · rw [h2 b hb]; exact hs

/-! ## The common shape of the four temporal setters

`DelayedMixin.dt` / `delay` and `RecordReducer.dt` / `duration` have the same body up to the validation, the field
and the record property; `setterPattern` is that body, the `*_shape` theorems (by `rfl`) say the generated text IS
this pattern with these parameters, in this order. -/

/-- validate; compare with the stored value; run one record operation on every registered record; THEN store -/
def setterPattern (C : Ctx τ) (o : Obj τ) (validate : Except Err τ) (cur : τ) (names : List String)
    (op : τ → Record.Op τ) (store : Obj τ → τ → Obj τ) : Except (Err × Obj τ) (Obj τ × Unit) := do
  let value ← raising o validate
  if decide (value ≠ cur) then do
    let self ← forAttrs names (fun x_ => attrOp C x_ (op value)) o
    pure (store self value, ())
  else pure (o, ())

/-- what the loop of a temporal setter leaves behind (see `setter_loop`) -/
structure LoopResult (o : Obj τ) (names : List String) (f : RecCfg τ → RecCfg τ)
    (attrs' : List (String × Attr τ)) : Prop where
  sums : names.filterMap (rsum? attrs') = (names.filterMap (rsum? o.attrs)).map f
  others : ∀ b, b ∉ names → attrs'.lookup b = o.attrs.lookup b
  bdims : ∀ b, bdim? attrs' b = bdim? o.attrs b
  names_wf : RecNames attrs' names
  records : ∀ b r, o.attrs.lookup b = some (.record r) → RecordProg.GWF r →
    ∃ r', attrs'.lookup b = some (.record r') ∧ RecordProg.GWF r'
  shaped : ∀ b s, o.attrs.lookup b = some (.shaped s) → attrs'.lookup b = some (.shaped s)

/-- the three exits of the pattern -/
theorem setterPattern_cases (C : Ctx τ) (o : Obj τ) (ok : τ → Bool) (v cur : τ) (names : List String)
    (op : τ → Record.Op τ) (store : Obj τ → τ → Obj τ) (hn : RecNames o.attrs names)
    (hop : (op v).isSetter = true) (hacc : RecsAccept C.T o.attrs names (op v)) (f : RecCfg τ → RecCfg τ)
    (hf : ∀ (s : Record.MState τ) c, mSum s = some c → (Record.step C.T s (op v)).2 = .unit →
      mSum (Record.step C.T s (op v)).1 = some (f c)) :
    let prog := setterPattern C o (if ok v then .ok v else .error .ValueError) cur names op store
    (ok v = false → prog = .error (.ValueError, o)) ∧
    (ok v = true → v = cur → prog = .ok (o, ())) ∧
    (ok v = true → v ≠ cur → ∃ attrs', prog = .ok (store { o with attrs := attrs' } v, ()) ∧
      LoopResult o names f attrs') := by
  refine ⟨fun h => ?_, fun h he => ?_, fun h he => ?_⟩
  · simp [setterPattern, h, raising, bind, Except.bind]
  · subst he; simp [setterPattern, h, raising, bind, Except.bind, pure, Except.pure]
  · obtain ⟨attrs', h1, h2, h3, h4, h5, h6, h7⟩ := setter_loop C o names hn (op v) hop hacc f hf
    exact ⟨attrs', by simp [setterPattern, h, he, h1, raising, bind, Except.bind, pure, Except.pure],
      ⟨h2, h3, h4, h5, h6, h7⟩⟩

/-! ## `DelayedMixin` -/

/-- what `DelayedMixin.__init__` / `add_delayed` establish: the registered names are distinct and each is an
attribute holding a well-formed `RecordTensor` -/
def DelayWF (o : Obj τ) : Prop := RecNames o.attrs o.DelayedMixin__constrained

/-- the generated `dt` setter: validate with `argtest.gt`, compare with the stored step time, give every registered
record the new `dt`, THEN store the step time -/
theorem delayed_set_dt_shape (C : Ctx τ) (o : Obj τ) (v : τ) :
    DelayedMixin_set_dt C o v =
      setterPattern C o (if C.T.pos v then .ok v else .error .ValueError) o.DelayedMixin__step_time
        o.DelayedMixin__constrained .setDt (fun self value => { self with DelayedMixin__step_time := value }) := rfl

/-- the generated `delay` setter: validate with `argtest.gte`, compare with the stored delay, give every
registered record the new `duration` — the value itself —, THEN store the delay -/
theorem delayed_set_delay_shape (C : Ctx τ) (o : Obj τ) (v : τ) :
    DelayedMixin_set_delay C o v =
      setterPattern C o (if C.T.nonneg v then .ok v else .error .ValueError) o.DelayedMixin__delay
        o.DelayedMixin__constrained .setDur (fun self value => { self with DelayedMixin__delay := value }) := rfl

/-- the three exits of the generated `dt` setter -/
theorem delayed_set_dt_cases (C : Ctx τ) (o : Obj τ) (hwf : DelayWF o) (v : τ)
    (hacc : RecsAccept C.T o.attrs o.DelayedMixin__constrained (.setDt v)) :
    (C.T.pos v = false → DelayedMixin_set_dt C o v = .error (.ValueError, o)) ∧
    (C.T.pos v = true → v = o.DelayedMixin__step_time → DelayedMixin_set_dt C o v = .ok (o, ())) ∧
    (C.T.pos v = true → v ≠ o.DelayedMixin__step_time → ∃ attrs',
      DelayedMixin_set_dt C o v = .ok ({ o with attrs := attrs', DelayedMixin__step_time := v }, ()) ∧
      LoopResult o o.DelayedMixin__constrained (·.setDt C.T v) attrs') := by
  rw [delayed_set_dt_shape]
  exact setterPattern_cases C o C.T.pos v _ _ .setDt _ hwf rfl hacc _
    (fun s c hc hu => (mSum_setter C.T s c hc).1 v hu)

/-- the three exits of the generated `delay` setter -/
theorem delayed_set_delay_cases (C : Ctx τ) (o : Obj τ) (hwf : DelayWF o) (v : τ)
    (hacc : RecsAccept C.T o.attrs o.DelayedMixin__constrained (.setDur v)) :
    (C.T.nonneg v = false → DelayedMixin_set_delay C o v = .error (.ValueError, o)) ∧
    (C.T.nonneg v = true → v = o.DelayedMixin__delay → DelayedMixin_set_delay C o v = .ok (o, ())) ∧
    (C.T.nonneg v = true → v ≠ o.DelayedMixin__delay → ∃ attrs',
      DelayedMixin_set_delay C o v = .ok ({ o with attrs := attrs', DelayedMixin__delay := v }, ()) ∧
      LoopResult o o.DelayedMixin__constrained (·.setDur C.T v) attrs') := by
  rw [delayed_set_delay_shape]
  exact setterPattern_cases C o C.T.nonneg v _ _ .setDur _ hwf rfl hacc _
    (fun s c hc hu => (mSum_setter C.T s c hc).2.1 v hu)

/-- **`obj.dt = v`** (`DelayedMixin.dt.setter`): the regenerated body is `DelayM.setDt` — `ValueError` with nothing
changed unless `v > 0`; nothing when `v` is the stored step time; otherwise every registered record gets
`RecCfg.setDt` and the step time is stored. -/
theorem gen_delayed_set_dt (C : Ctx τ) (o : Obj τ) (hwf : DelayWF o) (v : τ)
    (hacc : RecsAccept C.T o.attrs o.DelayedMixin__constrained (.setDt v)) :
    outcome toDelayM (DelayedMixin_set_dt C o v) = modelOutcome (toDelayM o) ((toDelayM o).setDt C.T v) := by
  obtain ⟨h1, h2, h3⟩ := delayed_set_dt_cases C o hwf v hacc
  by_cases hv : C.T.pos v = true
  · by_cases he : v = o.DelayedMixin__step_time
    · rw [h2 hv he]; rw [he] at hv; simp [DelayM.setDt, hv, he, toDelayM, outcome, modelOutcome]
    · obtain ⟨attrs', e, hl⟩ := h3 hv he
      rw [e]; simp [DelayM.setDt, hv, he, toDelayM, outcome, modelOutcome, hl.sums]
  · simp only [Bool.not_eq_true] at hv
    rw [h1 hv]; simp [DelayM.setDt, hv, outcome, modelOutcome]

/-- **`obj.delay = v`** (`DelayedMixin.delay.setter`): the regenerated body is `DelayM.setDelay` — in particular
every registered record's duration becomes `v` itself (D14: not `v + dt`). -/
theorem gen_delayed_set_delay (C : Ctx τ) (o : Obj τ) (hwf : DelayWF o) (v : τ)
    (hacc : RecsAccept C.T o.attrs o.DelayedMixin__constrained (.setDur v)) :
    outcome toDelayM (DelayedMixin_set_delay C o v) = modelOutcome (toDelayM o) ((toDelayM o).setDelay C.T v) := by
  obtain ⟨h1, h2, h3⟩ := delayed_set_delay_cases C o hwf v hacc
  by_cases hv : C.T.nonneg v = true
  · by_cases he : v = o.DelayedMixin__delay
    · rw [h2 hv he]; rw [he] at hv; simp [DelayM.setDelay, hv, he, toDelayM, outcome, modelOutcome]
    · obtain ⟨attrs', e, hl⟩ := h3 hv he
      rw [e]; simp [DelayM.setDelay, hv, he, toDelayM, outcome, modelOutcome, hl.sums]
  · simp only [Bool.not_eq_true] at hv
    rw [h1 hv]; simp [DelayM.setDelay, hv, outcome, modelOutcome]

/-! ## `BatchMixin` -/

/-- the tensor accepts `reconstrain(dim, size)`: the record machine / the shaped-tensor machine returns -/
def reconOK (T : TimeOps τ) : Attr τ → Int → Option Int → Prop
  | .record r, d, z => (Record.step T (RecordProg.toM r) (.recon d z)).2 = .unit
  | .shaped s, d, z => (shStep s (.recon d z)).2 = .unit
  | .other, _, _ => False

/-- what `BatchMixin.__init__` / `add_batched` establish: a positive batch size; the registered names are distinct
and each is an attribute holding a (well-formed) `RecordTensor` or `ShapedTensor` constrained on its batch dimension -/
def BatchWF (o : Obj τ) : Prop :=
  0 < o.BatchMixin__batch_size ∧ o.BatchMixin__constrained.Nodup ∧
  ∀ nm ∈ o.BatchMixin__constrained, ∃ x, o.attrs.lookup nm = some x ∧ AttrWF x ∧ (attrBdim x).isSome = true

/-- every registered tensor accepts the new batch size -/
def BatchAccept (T : TimeOps τ) (o : Obj τ) (v : Int) : Prop :=
  ∀ nm ∈ o.BatchMixin__constrained, ∀ x, o.attrs.lookup nm = some x → reconOK T x 0 (some v)

/-- `x.reconstrain(0, z)` that the tensor accepts: returns, installs `z` on the batch dimension, keeps the class of
the object, its well-formedness and (for a record) its temporal summary -/
theorem attr_recon_ok (C : Ctx τ) (x : Attr τ) (hw : AttrWF x) (z : Int) (hacc : reconOK C.T x 0 (some z)) :
    ∃ x', Attr_reconstrain C x 0 (some z) = .ok (x', ()) ∧ AttrWF x' ∧ attrSum x' = attrSum x ∧
      attrBdim x' = some z.toNat ∧ (∀ r, x = .record r → ∃ r', x' = .record r') ∧
      (∀ s, x = .shaped s → ∃ s', x' = .shaped s') := by
  cases x with
  | record r =>
    obtain ⟨r', e1, e2, e3⟩ := attrOp_record_ok C r hw (.recon 0 (some z)) (Or.inr ⟨_, _, rfl⟩) hacc
    refine ⟨.record r', e1, e2, ?_, ?_, fun _ _ => ⟨r', rfl⟩, fun s h => (by cases h)⟩
    · simp only [attrSum, e3]; exact mSum_recon C.T _ 0 (some z)
    · have := Record.recon_lookup_set C.T (RecordProg.toM r) 0 z hacc
      rw [← e3] at this
      have this' : (RecordProg.toM r').cons.lookup 1 = some z.toNat := by simpa using this
      exact this'
  | shaped s =>
    have hacc' : (shStep s (.recon 0 (some z))).2 = .unit := hacc
    have hl := Record.sh_recon_lookup_set s 0 z hacc'
    unfold Attr_reconstrain ShapedTensor_reconstrain_plain
    cases hs : shStep s (.recon 0 (some z)) with
    | mk s' out =>
      rw [hs] at hacc' hl
      simp only at hacc' hl
      subst hacc'
      refine ⟨.shaped s', ?_, trivial, rfl, hl,
        fun r h => (by cases h), fun _ _ => ⟨s', rfl⟩⟩
      simp only [hs]
  | other => exact absurd hacc (by simp [reconOK])

/-- what the loop of the `batchsz` setter leaves behind -/
structure BatchLoopResult (o : Obj τ) (v : Int) (attrs' : List (String × Attr τ)) : Prop where
  bdims : o.BatchMixin__constrained.filterMap (bdim? attrs') =
    (o.BatchMixin__constrained.filterMap (bdim? o.attrs)).map (fun _ => v.toNat)
  others : ∀ b, b ∉ o.BatchMixin__constrained → attrs'.lookup b = o.attrs.lookup b
  sums : ∀ b, rsum? attrs' b = rsum? o.attrs b
  names_wf : ∀ nm ∈ o.BatchMixin__constrained,
    ∃ x, attrs'.lookup nm = some x ∧ AttrWF x ∧ (attrBdim x).isSome = true
  records : ∀ b r, o.attrs.lookup b = some (.record r) → RecordProg.GWF r →
    ∃ r', attrs'.lookup b = some (.record r') ∧ RecordProg.GWF r'

/-- the generated `batchsz` setter: validate with `argtest.gt(…, 0, int)`, compare with the stored batch size,
`reconstrain(0, value)` every registered tensor, THEN store the batch size -/
theorem set_batchsz_shape (C : Ctx τ) (o : Obj τ) (v : Int) :
    BatchMixin_set_batchsz C o v = (do
      let value ← raising o (argtest_gt_int v)
      if decide (value ≠ o.BatchMixin__batch_size) then do
        let self ← forAttrs o.BatchMixin__constrained (fun x_ => Attr_reconstrain C x_ 0 (some value)) o
        pure ({ self with BatchMixin__batch_size := value }, ())
      else pure (o, ())) := rfl

/-- the three exits of the generated `batchsz` setter -/
theorem set_batchsz_cases (C : Ctx τ) (o : Obj τ) (hwf : BatchWF o) (v : Int) (hacc : BatchAccept C.T o v) :
    (v ≤ 0 → BatchMixin_set_batchsz C o v = .error (.ValueError, o)) ∧
    (0 < v → v = o.BatchMixin__batch_size → BatchMixin_set_batchsz C o v = .ok (o, ())) ∧
    (0 < v → v ≠ o.BatchMixin__batch_size → ∃ attrs',
      BatchMixin_set_batchsz C o v = .ok ({ o with attrs := attrs', BatchMixin__batch_size := v }, ()) ∧
      BatchLoopResult o v attrs') := by
  rw [set_batchsz_shape]
  refine ⟨fun h => ?_, fun h he => ?_, fun h he => ?_⟩
  · have : ¬ 0 < v := by omega
    simp [argtest_gt_int, this, raising, bind, Except.bind]
  · rw [he] at h; simp [argtest_gt_int, h, he, raising, bind, Except.bind, pure, Except.pure]
  · obtain ⟨hpos, hnd, hnames⟩ := hwf
    obtain ⟨attrs', h1, h2, h3⟩ := forAttrs_ok (fun x_ => Attr_reconstrain C x_ 0 (some v)) _ hnd o (by
      intro nm hnm
      obtain ⟨x, hx, hw, _⟩ := hnames nm hnm
      obtain ⟨x', e1, _⟩ := attr_recon_ok C x hw v (hacc nm hnm x hx)
      exact ⟨x, x', hx, e1⟩)
    have key : ∀ b ∈ o.BatchMixin__constrained, ∃ x x', o.attrs.lookup b = some x ∧ attrs'.lookup b = some x' ∧
        AttrWF x' ∧ attrSum x' = attrSum x ∧ attrBdim x' = some v.toNat ∧
        (∀ r, x = .record r → ∃ r', x' = .record r') ∧ (attrBdim x).isSome = true := by
      intro b hb
      obtain ⟨x, hx, hw, hbd⟩ := hnames b hb
      obtain ⟨x', e1, e2, e3, e4, e5, _⟩ := attr_recon_ok C x hw v (hacc b hb x hx)
      obtain ⟨y, y', hy, hm, hy'⟩ := h3 b hb
      rw [hx] at hy; cases hy
      have hm' : Attr_reconstrain C x 0 (some v) = .ok (y', ()) := hm
      rw [e1] at hm'; cases hm'
      exact ⟨x, x', hx, hy', e2, e3, e4, e5, hbd⟩
    refine ⟨attrs', by simp [argtest_gt_int, h, he, h1, raising, bind, Except.bind, pure, Except.pure], ?_⟩
    refine ⟨?_, h2, ?_, ?_, ?_⟩
    · apply filterMap_map_of
      intro b hb
      obtain ⟨x, x', e1, e2, _, _, e5, _, e7⟩ := key b hb
      cases hbd : attrBdim x with
      | none => simp [hbd] at e7
      | some c => exact ⟨c, by simp [bdim?, e1, hbd], by simp [bdim?, e2, e5]⟩
    · intro b
      by_cases hb : b ∈ o.BatchMixin__constrained
      · obtain ⟨x, x', e1, e2, _, e4, _⟩ := key b hb
        simp [rsum?, e1, e2, e4]
      · simp [rsum?, h2 b hb]
    · intro b hb
      obtain ⟨x, x', e1, e2, e3, _, e5, _⟩ := key b hb
      exact ⟨x', e2, e3, by simp [e5]⟩
    · intro b r hr hg
      by_cases hb : b ∈ o.BatchMixin__constrained
      · obtain ⟨x, x', e1, e2, e3, _, _, e6, _⟩ := key b hb
        rw [hr] at e1; cases e1
        obtain ⟨r', rfl⟩ := e6 r rfl
        exact ⟨r', e2, e3⟩
      · exact ⟨r, by rw [h2 b hb]; exact hr, hg⟩

/-- **`obj.batchsz = v`** (`BatchMixin.batchsz.setter`): the regenerated body is `BatchM.set` — `ValueError` with
nothing changed unless `v > 0`; nothing when `v` is the stored batch size; otherwise every registered tensor's batch
dimension is constrained to `v` and the batch size is stored. -/
theorem gen_set_batchsz (C : Ctx τ) (o : Obj τ) (hwf : BatchWF o) (v : Int) (hacc : BatchAccept C.T o v) :
    outcome toBatchM (BatchMixin_set_batchsz C o v) = modelOutcome (toBatchM o) ((toBatchM o).set v) := by
  obtain ⟨h1, h2, h3⟩ := set_batchsz_cases C o hwf v hacc
  have hpos := hwf.1
  by_cases hv : 0 < v
  · have hv' : ¬ v ≤ 0 := by omega
    by_cases he : v = o.BatchMixin__batch_size
    · have hp' : ¬ o.BatchMixin__batch_size ≤ 0 := by omega
      rw [h2 hv he]; simp [BatchM.set, hp', he, toBatchM, outcome, modelOutcome]
    · obtain ⟨attrs', e, hl⟩ := h3 hv he
      have hne : ¬ v.toNat = o.BatchMixin__batch_size.toNat := by omega
      rw [e]; simp [BatchM.set, hv', hne, toBatchM, outcome, modelOutcome, hl.bdims]
  · have hv' : v ≤ 0 := by omega
    rw [h1 hv']; simp [BatchM.set, hv', outcome, modelOutcome]

/-! ## Property getters -/

/-- the regenerated `batchsz` getter returns the stored batch size -/
theorem gen_batchsz (C : Ctx τ) (o : Obj τ) : BatchMixin_batchsz C o = .ok (o, o.BatchMixin__batch_size) := rfl
/-- the regenerated `DelayedMixin.dt` getter returns the stored step time -/
theorem gen_delayed_dt (C : Ctx τ) (o : Obj τ) : DelayedMixin_dt C o = .ok (o, o.DelayedMixin__step_time) := rfl
/-- the regenerated `DelayedMixin.delay` getter returns the stored delay -/
theorem gen_delayed_delay (C : Ctx τ) (o : Obj τ) : DelayedMixin_delay C o = .ok (o, o.DelayedMixin__delay) := rfl
/-- `InfernoSynapse.dt` forwards to `DelayedMixin.dt.fget` -/
theorem gen_synapse_dt (C : Ctx τ) (o : Obj τ) : InfernoSynapse_dt C o = .ok (o, o.DelayedMixin__step_time) := rfl
/-- `InfernoSynapse.delay` forwards to `DelayedMixin.delay.fget` -/
theorem gen_synapse_delay (C : Ctx τ) (o : Obj τ) : InfernoSynapse_delay C o = .ok (o, o.DelayedMixin__delay) := rfl
/-- `InfernoSynapse.inplace` returns the stored flag -/
theorem gen_synapse_inplace (C : Ctx τ) (o : Obj τ) :
    InfernoSynapse_inplace C o = .ok (o, o.InfernoSynapse__inplace) := rfl
/-- `InfernoNeuron.batchsz` forwards to `BatchShapeMixin.batchsz.fget`, which is `BatchMixin`'s (C3 MRO) -/
theorem gen_neuron_batchsz (C : Ctx τ) (o : Obj τ) : InfernoNeuron_batchsz C o = .ok (o, o.BatchMixin__batch_size) := rfl
/-- the regenerated `RecordReducer.dt` getter returns the stored step time -/
theorem gen_reducer_dt (C : Ctx τ) (o : Obj τ) : RecordReducer_dt C o = .ok (o, o.RecordReducer__step_time) := rfl
/-- the regenerated `RecordReducer.duration` getter returns the stored DURATION (D6: not the step time) -/
theorem gen_reducer_duration (C : Ctx τ) (o : Obj τ) :
    RecordReducer_duration C o = .ok (o, o.RecordReducer__duration) := rfl
/-- the regenerated `RecordReducer.inplace` getter returns the stored flag -/
theorem gen_reducer_inplace (C : Ctx τ) (o : Obj τ) : RecordReducer_inplace C o = .ok (o, o.RecordReducer__inplace) := rfl

/-! ## Synapses (`InfernoSynapse` = `DelayedMixin` + `BatchMixin` + the `inplace` flag) -/

/-- an object of a synapse class → `Config.Synapse`; `dtype` is what `module.to` last set (no translated method
touches it) -/
def toSyn (dtype : Config.DType) (o : Obj τ) : Config.Synapse τ :=
  ⟨toDelayM o, toBatchM o, o.InfernoSynapse__inplace, dtype⟩

/-- well-formedness of an object using both mixins -/
def SynWF (o : Obj τ) : Prop := DelayWF o ∧ BatchWF o

/-- the `clear()` of the concrete subclass returns and only touches CONTENTS: the configuration view and the
well-formedness of the object are as before -/
def ClearOK (C : Ctx τ) : Prop :=
  ∀ w, ∃ w', C.clear w = .ok (w', ()) ∧ toDelayM w' = toDelayM w ∧ toBatchM w' = toBatchM w ∧
    w'.InfernoSynapse__inplace = w.InfernoSynapse__inplace ∧ (SynWF w → SynWF w') ∧ (BatchWF w → BatchWF w')

/-- the batch view depends on the attribute heap only through the batch-dimension constraints -/
theorem toBatchM_attrs (o : Obj τ) (attrs' : List (String × Attr τ)) (h : ∀ b, bdim? attrs' b = bdim? o.attrs b) :
    o.BatchMixin__constrained.filterMap (bdim? attrs') = o.BatchMixin__constrained.filterMap (bdim? o.attrs) :=
  filterMap_congr_of _ _ _ (fun a _ => h a)

/-- the delayed view depends on the attribute heap only through the record summaries -/
theorem toDelayM_attrs (o : Obj τ) (attrs' : List (String × Attr τ)) (h : ∀ b, rsum? attrs' b = rsum? o.attrs b) :
    o.DelayedMixin__constrained.filterMap (rsum? attrs') = o.DelayedMixin__constrained.filterMap (rsum? o.attrs) :=
  filterMap_congr_of _ _ _ (fun a _ => h a)

/-- the loop of a temporal setter keeps `BatchWF` -/
theorem batchWF_of_loop (o : Obj τ) (names : List String) (f : RecCfg τ → RecCfg τ) (attrs' : List (String × Attr τ))
    (hl : LoopResult o names f attrs') (hb : BatchWF o) (o' : Obj τ) (ha : o'.attrs = attrs')
    (h1 : o'.BatchMixin__batch_size = o.BatchMixin__batch_size)
    (h2 : o'.BatchMixin__constrained = o.BatchMixin__constrained) : BatchWF o' := by
  obtain ⟨hpos, hnd, hn⟩ := hb
  refine ⟨by rw [h1]; exact hpos, by rw [h2]; exact hnd, ?_⟩
  intro nm hnm
  rw [h2] at hnm
  obtain ⟨x, hx, hw, hbd⟩ := hn nm hnm
  have hbe := hl.bdims nm
  rw [ha]
  cases x with
  | record r =>
    obtain ⟨r', e1, e2⟩ := hl.records nm r hx hw
    refine ⟨.record r', e1, e2, ?_⟩
    simp only [bdim?, e1, hx, Option.bind_some] at hbe
    rw [hbe]; exact hbd
  | shaped s => exact ⟨.shaped s, hl.shaped nm s hx, trivial, hbd⟩
  | other => simp [attrBdim] at hbd

/-- the loop of the `batchsz` setter keeps `DelayWF` -/
theorem delayWF_of_batchLoop (o : Obj τ) (v : Int) (attrs' : List (String × Attr τ)) (hl : BatchLoopResult o v attrs')
    (hd : DelayWF o) (o' : Obj τ) (ha : o'.attrs = attrs')
    (h2 : o'.DelayedMixin__constrained = o.DelayedMixin__constrained) : DelayWF o' := by
  obtain ⟨hnd, hn⟩ := hd
  refine ⟨by rw [h2]; exact hnd, ?_⟩
  intro nm hnm
  rw [h2] at hnm
  obtain ⟨r, hr, hg⟩ := hn nm hnm
  rw [ha]
  exact hl.records nm r hr hg

/-- `<mixin setter>; self.clear()`: the body shape of the `InfernoSynapse` / `InfernoNeuron` setters -/
def thenClear (C : Ctx τ) (p : Except (Err × Obj τ) (Obj τ × Unit)) : Except (Err × Obj τ) (Obj τ × Unit) := do
  let self := (← p).1
  let self := (← C.clear self).1
  pure (self, ())

/-- `clear()` after a setter does not change what the setter's outcome looks like through a configuration view -/
theorem outcome_thenClear {μ : Type} (C : Ctx τ) (hc : ClearOK C) (abs : Obj τ → μ)
    (habs : ∀ w w' : Obj τ, toDelayM w' = toDelayM w → toBatchM w' = toBatchM w →
      w'.InfernoSynapse__inplace = w.InfernoSynapse__inplace → abs w' = abs w)
    (p : Except (Err × Obj τ) (Obj τ × Unit)) :
    outcome abs (thenClear C p) = outcome abs p ∧
    (SynWF (outState p) → SynWF (outState (thenClear C p))) ∧
    (BatchWF (outState p) → BatchWF (outState (thenClear C p))) := by
  cases p with
  | error e => obtain ⟨e, s⟩ := e; exact ⟨rfl, id, id⟩
  | ok r =>
    obtain ⟨s, u⟩ := r
    obtain ⟨w', c1, c2, c3, c4, c5, c6⟩ := hc s
    simp only [thenClear, bind, Except.bind, c1, pure, Except.pure, outcome, outState]
    exact ⟨by rw [habs s w' c2 c3 c4], c5, c6⟩

/-- the mixin's `dt` setter seen from the whole synapse: the `.setDt` case of `Config.Synapse.step` -/
theorem delayed_set_dt_synapse (C : Ctx τ) (dtype : Config.DType) (o : Obj τ) (hwf : SynWF o) (v : τ)
    (hacc : RecsAccept C.T o.attrs o.DelayedMixin__constrained (.setDt v)) :
    outcome (toSyn dtype) (DelayedMixin_set_dt C o v) = (toSyn dtype o).step C.T (.setDt v) ∧
    SynWF (outState (DelayedMixin_set_dt C o v)) := by
  obtain ⟨h1, h2, h3⟩ := delayed_set_dt_cases C o hwf.1 v hacc
  by_cases hv : C.T.pos v = true
  · by_cases he : v = o.DelayedMixin__step_time
    · rw [h2 hv he]
      subst he
      simp [outcome, outState, toSyn, Config.Synapse.step, DelayM.setDt, hv, toDelayM, hwf]
    · obtain ⟨attrs', e, hl⟩ := h3 hv he
      rw [e]
      have hw1 : SynWF { o with attrs := attrs', DelayedMixin__step_time := v } :=
        ⟨hl.names_wf, batchWF_of_loop o _ _ attrs' hl hwf.2 _ rfl rfl rfl⟩
      simp [outcome, outState, toSyn, Config.Synapse.step, DelayM.setDt, hv, he, toDelayM, toBatchM, hl.sums,
        toBatchM_attrs o attrs' hl.bdims, hw1]
  · simp only [Bool.not_eq_true] at hv
    simp [h1 hv, outcome, outState, toSyn, Config.Synapse.step, DelayM.setDt, hv, hwf]

/-- the mixin's `delay` setter seen from the whole synapse: the `.setDelay` case of `Config.Synapse.step` -/
theorem delayed_set_delay_synapse (C : Ctx τ) (dtype : Config.DType) (o : Obj τ) (hwf : SynWF o) (v : τ)
    (hacc : RecsAccept C.T o.attrs o.DelayedMixin__constrained (.setDur v)) :
    outcome (toSyn dtype) (DelayedMixin_set_delay C o v) = (toSyn dtype o).step C.T (.setDelay v) ∧
    SynWF (outState (DelayedMixin_set_delay C o v)) := by
  obtain ⟨h1, h2, h3⟩ := delayed_set_delay_cases C o hwf.1 v hacc
  by_cases hv : C.T.nonneg v = true
  · by_cases he : v = o.DelayedMixin__delay
    · rw [h2 hv he]
      subst he
      simp [outcome, outState, toSyn, Config.Synapse.step, DelayM.setDelay, hv, toDelayM, hwf]
    · obtain ⟨attrs', e, hl⟩ := h3 hv he
      rw [e]
      have hw1 : SynWF { o with attrs := attrs', DelayedMixin__delay := v } :=
        ⟨hl.names_wf, batchWF_of_loop o _ _ attrs' hl hwf.2 _ rfl rfl rfl⟩
      simp [outcome, outState, toSyn, Config.Synapse.step, DelayM.setDelay, hv, he, toDelayM, toBatchM, hl.sums,
        toBatchM_attrs o attrs' hl.bdims, hw1]
  · simp only [Bool.not_eq_true] at hv
    simp [h1 hv, outcome, outState, toSyn, Config.Synapse.step, DelayM.setDelay, hv, hwf]

/-- `toSyn` is determined by the delayed view, the batch view and the `inplace` flag -/
theorem toSyn_views (dtype : Config.DType) (w w' : Obj τ) (h1 : toDelayM w' = toDelayM w)
    (h2 : toBatchM w' = toBatchM w) (h3 : w'.InfernoSynapse__inplace = w.InfernoSynapse__inplace) :
    toSyn dtype w' = toSyn dtype w := by
  simp [toSyn, h1, h2, h3]

/-- **`synapse.dt = v`** (`InfernoSynapse.dt.setter`: `DelayedMixin.dt.fset(self, value)`, then `self.clear()`):
the regenerated body is the `.setDt` case of `Config.Synapse.step` — the delayed part by `DelayM.setDt`, the batch
part, `inplace` and dtype untouched; a refused value changes nothing and `clear()` is not reached.  The object stays
well-formed, so the theorems chain along setter sequences. -/
theorem gen_synapse_set_dt (C : Ctx τ) (hc : ClearOK C) (dtype : Config.DType) (o : Obj τ) (hwf : SynWF o) (v : τ)
    (hacc : RecsAccept C.T o.attrs o.DelayedMixin__constrained (.setDt v)) :
    outcome (toSyn dtype) (InfernoSynapse_set_dt C o v) = (toSyn dtype o).step C.T (.setDt v) ∧
    SynWF (outState (InfernoSynapse_set_dt C o v)) := by
  obtain ⟨a, b⟩ := delayed_set_dt_synapse C dtype o hwf v hacc
  obtain ⟨c, d, _⟩ := outcome_thenClear C hc (toSyn dtype) (toSyn_views dtype) (DelayedMixin_set_dt C o v)
  exact ⟨c.trans a, d b⟩

/-- **`synapse.delay = v`** (`InfernoSynapse.delay.setter`): the `.setDelay` case of `Config.Synapse.step`. -/
theorem gen_synapse_set_delay (C : Ctx τ) (hc : ClearOK C) (dtype : Config.DType) (o : Obj τ) (hwf : SynWF o) (v : τ)
    (hacc : RecsAccept C.T o.attrs o.DelayedMixin__constrained (.setDur v)) :
    outcome (toSyn dtype) (InfernoSynapse_set_delay C o v) = (toSyn dtype o).step C.T (.setDelay v) ∧
    SynWF (outState (InfernoSynapse_set_delay C o v)) := by
  obtain ⟨a, b⟩ := delayed_set_delay_synapse C dtype o hwf v hacc
  obtain ⟨c, d, _⟩ := outcome_thenClear C hc (toSyn dtype) (toSyn_views dtype) (DelayedMixin_set_delay C o v)
  exact ⟨c.trans a, d b⟩

/-- **`synapse.batchsz = v`**: `InfernoSynapse` does not override `batchsz`, so this is `BatchMixin.batchsz.setter`
(C3 MRO); seen from the whole synapse it is the `.setBatch` case of `Config.Synapse.step` — no record's temporal
configuration or history length changes. -/
theorem gen_synapse_set_batchsz (C : Ctx τ) (dtype : Config.DType) (o : Obj τ) (hwf : SynWF o) (v : Int)
    (hacc : BatchAccept C.T o v) :
    outcome (toSyn dtype) (BatchMixin_set_batchsz C o v) = (toSyn dtype o).step C.T (.setBatch v) ∧
    SynWF (outState (BatchMixin_set_batchsz C o v)) := by
  obtain ⟨h1, h2, h3⟩ := set_batchsz_cases C o hwf.2 v hacc
  have hpos := hwf.2.1
  by_cases hv : 0 < v
  · have hv' : ¬ v ≤ 0 := by omega
    by_cases he : v = o.BatchMixin__batch_size
    · rw [h2 hv he]
      subst he
      simp [outcome, outState, toSyn, Config.Synapse.step, BatchM.set, hv', toBatchM, hwf]
    · obtain ⟨attrs', e, hl⟩ := h3 hv he
      rw [e]
      have hne : ¬ v.toNat = o.BatchMixin__batch_size.toNat := by omega
      have hw1 : SynWF { o with attrs := attrs', BatchMixin__batch_size := v } :=
        ⟨delayWF_of_batchLoop o v attrs' hl hwf.1 _ rfl rfl, hv, hwf.2.2.1, hl.names_wf⟩
      simp [outcome, outState, toSyn, Config.Synapse.step, BatchM.set, hv', hne, toDelayM, toBatchM, hl.bdims,
        toDelayM_attrs o attrs' hl.sums, hw1]
  · have hv' : v ≤ 0 := by omega
    simp [h1 hv', outcome, outState, toSyn, Config.Synapse.step, BatchM.set, hv', hwf]

/-- **`synapse.inplace = b`**: the `.setInplace` case of `Config.Synapse.step`. -/
theorem gen_synapse_set_inplace (C : Ctx τ) (dtype : Config.DType) (o : Obj τ) (b : Bool) :
    outcome (toSyn dtype) (InfernoSynapse_set_inplace C o b) = (toSyn dtype o).step C.T (.setInplace b) := rfl

/-! ## Neurons (`InfernoNeuron.batchsz`) -/

/-- an object of a neuron class → `Config.Neuron`; the step time lives in the concrete subclass and dtype in
`module.to` — no translated method touches either -/
def toNeu (dt : τ) (dtype : Config.DType) (o : Obj τ) : Config.Neuron τ := ⟨dt, toBatchM o, dtype⟩

/-- the `batchsz` setter leaves a well-formed batch part, whether it returns or raises on validation -/
theorem set_batchsz_wf (C : Ctx τ) (o : Obj τ) (hwf : BatchWF o) (v : Int) (hacc : BatchAccept C.T o v) :
    BatchWF (outState (BatchMixin_set_batchsz C o v)) := by
  obtain ⟨h1, h2, h3⟩ := set_batchsz_cases C o hwf v hacc
  by_cases hv : 0 < v
  · by_cases he : v = o.BatchMixin__batch_size
    · rw [h2 hv he]; exact hwf
    · obtain ⟨attrs', e, hl⟩ := h3 hv he
      rw [e]; exact ⟨hv, hwf.2.1, hl.names_wf⟩
  · rw [h1 (by omega)]; exact hwf

/-- **`neuron.batchsz = v`** (`InfernoNeuron.batchsz.setter`: `BatchShapeMixin.batchsz.fset(self, value)` — which is
`BatchMixin`'s along the C3 MRO —, then `self.clear()`): the `.setBatch` case of `Config.Neuron.step`. -/
theorem gen_neuron_set_batchsz (C : Ctx τ) (hc : ClearOK C) (dt : τ) (dtype : Config.DType) (o : Obj τ)
    (hwf : BatchWF o) (v : Int) (hacc : BatchAccept C.T o v) :
    outcome (toNeu dt dtype) (InfernoNeuron_set_batchsz C o v) = (toNeu dt dtype o).step C.T (.setBatch v) ∧
    BatchWF (outState (InfernoNeuron_set_batchsz C o v)) := by
  have a := gen_set_batchsz C o hwf v hacc
  obtain ⟨c, _, d⟩ := outcome_thenClear C hc (toNeu dt dtype)
    (fun w w' _ h2 _ => by simp [toNeu, h2]) (BatchMixin_set_batchsz C o v)
  refine ⟨c.trans ?_, d (set_batchsz_wf C o hwf v hacc)⟩
  simp only [Config.Neuron.step, toNeu]
  cases hp : BatchMixin_set_batchsz C o v with
  | ok r =>
    obtain ⟨s, u⟩ := r
    rw [hp] at a
    cases hm : (toBatchM o).set v with
    | ok b => rw [hm] at a; simp only [outcome, modelOutcome, Prod.mk.injEq] at a ⊢; simp [toNeu, a.1]
    | error e => rw [hm] at a; simp [outcome, modelOutcome] at a
  | error r =>
    obtain ⟨e, s⟩ := r
    rw [hp] at a
    cases hm : (toBatchM o).set v with
    | ok b => rw [hm] at a; simp [outcome, modelOutcome] at a
    | error e' => rw [hm] at a; simp only [outcome, modelOutcome, Prod.mk.injEq] at a ⊢; simp [toNeu, a.1, a.2]

/-! ## Reducers (`RecordReducer`) -/

/-- what `RecordReducer.__init__` / `add_record` establish -/
def RedWF (o : Obj τ) : Prop := RecNames o.attrs o.RecordReducer__records

/-- summaries of the reducer's records -/
def redRecs (o : Obj τ) : List (RecCfg τ) := o.RecordReducer__records.filterMap (rsum? o.attrs)

/-- a reducer object with ONE record (`FoldReducer`: `data_`) → `Config.Reducer`; `none` for any other number -/
def toRed (dtype : Config.DType) (o : Obj τ) : Option (Config.Reducer τ) :=
  match redRecs o with
  | [c] => some ⟨o.RecordReducer__step_time, o.RecordReducer__duration, o.RecordReducer__inclusive,
                 o.RecordReducer__inplace, dtype, c⟩
  | _ => none

/-- outcome of a reducer program through `toRed` -/
def outcomeRed (dtype : Config.DType) (p : Except (Err × Obj τ) (Obj τ × Unit)) : Option (Config.Reducer τ × Config.Out) :=
  match p with
  | .ok (s, _) => (toRed dtype s).map (·, .unit)
  | .error (e, s) => (toRed dtype s).map (·, .err e)

/-- the generated `RecordReducer.dt` setter is the common pattern on the reducer's fields -/
theorem reducer_set_dt_shape (C : Ctx τ) (o : Obj τ) (v : τ) :
    RecordReducer_set_dt C o v =
      setterPattern C o (if C.T.pos v then .ok v else .error .ValueError) o.RecordReducer__step_time
        o.RecordReducer__records .setDt (fun self value => { self with RecordReducer__step_time := value }) := rfl

/-- the generated `RecordReducer.duration` setter: validation `argtest.gt`, the records get `duration`, and the
field written afterwards is the DURATION (D6) -/
theorem reducer_set_duration_shape (C : Ctx τ) (o : Obj τ) (v : τ) :
    RecordReducer_set_duration C o v =
      setterPattern C o (if C.T.pos v then .ok v else .error .ValueError) o.RecordReducer__duration
        o.RecordReducer__records .setDur (fun self value => { self with RecordReducer__duration := value }) := rfl

/-- **`reducer.dt = v`** (`RecordReducer.dt.setter`): the `.setDt` case of `Config.Reducer.step`. -/
theorem gen_reducer_set_dt (C : Ctx τ) (dtype : Config.DType) (o : Obj τ) (hwf : RedWF o) (v : τ)
    (hacc : RecsAccept C.T o.attrs o.RecordReducer__records (.setDt v)) (r : Config.Reducer τ)
    (hr : toRed dtype o = some r) :
    outcomeRed dtype (RecordReducer_set_dt C o v) = some (r.step C.T (.setDt v)) ∧
    RedWF (outState (RecordReducer_set_dt C o v)) := by
  rw [reducer_set_dt_shape]
  obtain ⟨h1, h2, h3⟩ := setterPattern_cases C o C.T.pos v o.RecordReducer__step_time o.RecordReducer__records
    .setDt (fun self value => { self with RecordReducer__step_time := value }) hwf rfl hacc (·.setDt C.T v)
    (fun s c hc hu => (mSum_setter C.T s c hc).1 v hu)
  unfold toRed at hr
  cases hrr : redRecs o with
  | nil => simp [hrr] at hr
  | cons c l =>
    cases l with
    | cons c2 l2 => simp [hrr] at hr
    | nil =>
      simp only [hrr, Option.some.injEq] at hr
      subst hr
      by_cases hv : C.T.pos v = true
      · by_cases he : v = o.RecordReducer__step_time
        · rw [h2 hv he]
          subst he
          simp [outcomeRed, outState, toRed, hrr, Config.Reducer.step, hv, hwf]
        · obtain ⟨attrs', e, hl⟩ := h3 hv he
          rw [e]
          have hs : redRecs { o with attrs := attrs', RecordReducer__step_time := v } = [c.setDt C.T v] := by
            unfold redRecs at hrr ⊢
            simp only [hl.sums, hrr, List.map_cons, List.map_nil]
          have hw1 : RedWF { o with attrs := attrs', RecordReducer__step_time := v } := hl.names_wf
          simp [outcomeRed, outState, toRed, hs, Config.Reducer.step, hv, he, hw1]
      · simp only [Bool.not_eq_true] at hv
        rw [h1 hv]
        simp [outcomeRed, outState, toRed, hrr, Config.Reducer.step, hv, hwf]

/-- **`reducer.duration = v`** (`RecordReducer.duration.setter`): the `.setDuration` case of `Config.Reducer.step` —
the reported duration and the record's duration / size change, the reported step time does not (D6). -/
theorem gen_reducer_set_duration (C : Ctx τ) (dtype : Config.DType) (o : Obj τ) (hwf : RedWF o) (v : τ)
    (hacc : RecsAccept C.T o.attrs o.RecordReducer__records (.setDur v)) (r : Config.Reducer τ)
    (hr : toRed dtype o = some r) :
    outcomeRed dtype (RecordReducer_set_duration C o v) = some (r.step C.T (.setDuration v)) ∧
    RedWF (outState (RecordReducer_set_duration C o v)) := by
  rw [reducer_set_duration_shape]
  obtain ⟨h1, h2, h3⟩ := setterPattern_cases C o C.T.pos v o.RecordReducer__duration o.RecordReducer__records
    .setDur (fun self value => { self with RecordReducer__duration := value }) hwf rfl hacc (·.setDur C.T v)
    (fun s c hc hu => (mSum_setter C.T s c hc).2.1 v hu)
  unfold toRed at hr
  cases hrr : redRecs o with
  | nil => simp [hrr] at hr
  | cons c l =>
    cases l with
    | cons c2 l2 => simp [hrr] at hr
    | nil =>
      simp only [hrr, Option.some.injEq] at hr
      subst hr
      by_cases hv : C.T.pos v = true
      · by_cases he : v = o.RecordReducer__duration
        · rw [h2 hv he]
          subst he
          simp [outcomeRed, outState, toRed, hrr, Config.Reducer.step, hv, hwf]
        · obtain ⟨attrs', e, hl⟩ := h3 hv he
          rw [e]
          have hs : redRecs { o with attrs := attrs', RecordReducer__duration := v } = [c.setDur C.T v] := by
            unfold redRecs at hrr ⊢
            simp only [hl.sums, hrr, List.map_cons, List.map_nil]
          have hw1 : RedWF { o with attrs := attrs', RecordReducer__duration := v } := hl.names_wf
          simp [outcomeRed, outState, toRed, hs, Config.Reducer.step, hv, he, hw1]
      · simp only [Bool.not_eq_true] at hv
        rw [h1 hv]
        simp [outcomeRed, outState, toRed, hrr, Config.Reducer.step, hv, hwf]

/-- **`reducer.inplace = b`** (`RecordReducer.inplace.setter`): the `.setInplace` case of `Config.Reducer.step`. -/
theorem gen_reducer_set_inplace (C : Ctx τ) (dtype : Config.DType) (o : Obj τ) (b : Bool) (r : Config.Reducer τ)
    (hr : toRed dtype o = some r) :
    outcomeRed dtype (RecordReducer_set_inplace C o b) = some (r.step C.T (.setInplace b)) := by
  unfold toRed at hr
  cases hrr : redRecs o with
  | nil => simp [hrr] at hr
  | cons c l =>
    cases l with
    | cons c2 l2 => simp [hrr] at hr
    | nil =>
      simp only [hrr, Option.some.injEq] at hr
      subst hr
      have hs : redRecs { o with RecordReducer__inplace := b } = [c] := hrr
      simp [RecordReducer_set_inplace, outcomeRed, toRed, hs, Config.Reducer.step, pure, Except.pure]

/-! ## Connections (`Connection.synapse` / `dt` / `batchsz` / `delayedby`) -/

/-- a connection → `Config.Conn`: the submodule registered as `synapse_`, and whether `delay` is not `None` -/
def toConn (dtype : Config.DType) (w : ConnW τ) : Option (Config.Conn τ) :=
  (w.modules.lookup "synapse_").map fun s => ⟨toSyn dtype s, w.delay_present⟩

/-- outcome of a connection program through `toConn` -/
def outcomeConn (dtype : Config.DType) (p : Except (Err × ConnW τ) (ConnW τ × α)) :
    Option (Config.Conn τ × Config.Out) :=
  match p with
  | .ok (w, _) => (toConn dtype w).map (·, .unit)
  | .error (e, w) => (toConn dtype w).map (·, .err e)

/-- the regenerated `synapse` getter returns (a reference to) the submodule registered as `synapse_` -/
theorem gen_connection_synapse (C : Ctx τ) (w : ConnW τ) (s : Obj τ) (hs : w.modules.lookup "synapse_" = some s) :
    Connection_synapse C w = .ok (w, "synapse_") := by
  simp [Connection_synapse, Module_getattr, hs, raising, bind, Except.bind, pure, Except.pure]

/-- **`connection.synapse = s`** (`Connection.synapse.setter`): the submodule read back by the `synapse` getter —
hence by every forwarded property — IS `s` afterwards (D13: the assignment goes to `synapse_`, not elsewhere). -/
theorem gen_connection_set_synapse_any (C : Ctx τ) (dtype : Config.DType) (w : ConnW τ) (s : Obj τ) :
    ∃ w', Connection_set_synapse C w s = .ok (w', ()) ∧ w'.modules.lookup "synapse_" = some s ∧
      w'.delay_present = w.delay_present ∧ toConn dtype w' = some ⟨toSyn dtype s, w.delay_present⟩ := by
  have hl : (Module_setattr w "synapse_" s).modules.lookup "synapse_" = some s := by
    unfold Module_setattr
    cases h : w.modules.lookup "synapse_" with
    | none => simpa [h] using lookup_append_new w.modules "synapse_" s h
    | some s0 => simp [h, lookup_replace]
  exact ⟨Module_setattr w "synapse_" s, rfl, hl, rfl, by unfold toConn; rw [hl]; rfl⟩

/-- **`connection.synapse = <synapse constructed with configuration cfg>`**: the `.setSynapse` case of
`Config.Conn.step`. -/
theorem gen_connection_set_synapse (C : Ctx τ) (dtype : Config.DType) (w : ConnW τ) (s : Obj τ)
    (cfg : Config.SynCfg τ) (hcfg : toSyn dtype s = Config.Synapse.construct C.T cfg) (c : Config.Conn τ)
    (hc : toConn dtype w = some c) :
    outcomeConn dtype (Connection_set_synapse C w s) = some (c.step C.T (.setSynapse cfg)) := by
  obtain ⟨w', e1, _, _, e4⟩ := gen_connection_set_synapse_any C dtype w s
  have hd : c.hasDelay = w.delay_present := by
    unfold toConn at hc
    cases h : w.modules.lookup "synapse_" with
    | none => simp [h] at hc
    | some s0 => simp [h] at hc; rw [← hc]
  rw [e1]
  simp [outcomeConn, e4, Config.Conn.step, hcfg, hd]

/-- a property / method of the synapse called through the connection: the outcome on the connection is the
outcome on the synapse, put back into the connection -/
theorem moduleCall_outcome (dtype : Config.DType) (w : ConnW τ) (s : Obj τ)
    (hs : w.modules.lookup "synapse_" = some s) (m : Obj τ → Except (Err × Obj τ) (Obj τ × α)) :
    outcomeConn dtype (moduleCall w "synapse_" m) =
      some (⟨(outcome (toSyn dtype) (m s)).1, w.delay_present⟩, (outcome (toSyn dtype) (m s)).2) ∧
    (outState (moduleCall w "synapse_" m)).modules.lookup "synapse_" = some (outState (m s)) := by
  unfold moduleCall
  rw [hs]
  cases hm : m s with
  | ok r =>
    obtain ⟨s', a⟩ := r
    simp [hm, outcomeConn, toConn, outcome, outState, lookup_replace, hs]
  | error r =>
    obtain ⟨e, s'⟩ := r
    simp [hm, outcomeConn, toConn, outcome, outState, lookup_replace, hs]

/-- **`connection.dt = v`** (`self.synapse.dt = value`; the synapse is an `InfernoSynapse`): the `.setDt` case of
`Config.Conn.step` — the forwarded `Synapse.step`, put back under `synapse_`. -/
theorem gen_connection_set_dt (C : Ctx τ) (hc : ClearOK C) (dtype : Config.DType) (w : ConnW τ) (s : Obj τ)
    (hs : w.modules.lookup "synapse_" = some s) (hwf : SynWF s) (v : τ)
    (hacc : RecsAccept C.T s.attrs s.DelayedMixin__constrained (.setDt v)) :
    outcomeConn dtype (Connection_set_dt C w v) =
      some ((⟨toSyn dtype s, w.delay_present⟩ : Config.Conn τ).step C.T (.setDt v)) ∧
    ∃ s', (outState (Connection_set_dt C w v)).modules.lookup "synapse_" = some s' ∧ SynWF s' := by
  obtain ⟨a, b⟩ := gen_synapse_set_dt C hc dtype s hwf v hacc
  obtain ⟨c, d⟩ := moduleCall_outcome dtype w s hs (fun m_ => InfernoSynapse_set_dt C m_ v)
  have hprog : Connection_set_dt C w v =
      (do let self := (← moduleCall w "synapse_" (fun m_ => InfernoSynapse_set_dt C m_ v)).1; pure (self, ())) := by
    simp [Connection_set_dt, gen_connection_synapse C w s hs, bind, Except.bind, pure, Except.pure]
  have hout : ∀ p : Except (Err × ConnW τ) (ConnW τ × Unit),
      outcomeConn dtype (do let self := (← p).1; pure (self, ()) : Except (Err × ConnW τ) (ConnW τ × Unit)) =
        outcomeConn dtype p ∧
      outState (do let self := (← p).1; pure (self, ()) : Except (Err × ConnW τ) (ConnW τ × Unit)) = outState p := by
    intro p; cases p with
    | ok r => exact ⟨rfl, rfl⟩
    | error r => exact ⟨rfl, rfl⟩
  rw [hprog, (hout _).1, (hout _).2, c, d]
  refine ⟨?_, _, rfl, b⟩
  simp only [a, Config.Conn.step]

/-- **`connection.batchsz = v`** (`self.synapse.batchsz = value`, which is `BatchMixin.batchsz.setter` along the
MRO of `InfernoSynapse`): the `.setBatch` case of `Config.Conn.step`. -/
theorem gen_connection_set_batchsz (C : Ctx τ) (dtype : Config.DType) (w : ConnW τ) (s : Obj τ)
    (hs : w.modules.lookup "synapse_" = some s) (hwf : SynWF s) (v : Int) (hacc : BatchAccept C.T s v) :
    outcomeConn dtype (Connection_set_batchsz C w v) =
      some ((⟨toSyn dtype s, w.delay_present⟩ : Config.Conn τ).step C.T (.setBatch v)) ∧
    ∃ s', (outState (Connection_set_batchsz C w v)).modules.lookup "synapse_" = some s' ∧ SynWF s' := by
  obtain ⟨a, b⟩ := gen_synapse_set_batchsz C dtype s hwf v hacc
  obtain ⟨c, d⟩ := moduleCall_outcome dtype w s hs (fun m_ => BatchMixin_set_batchsz C m_ v)
  have hprog : Connection_set_batchsz C w v =
      (do let self := (← moduleCall w "synapse_" (fun m_ => BatchMixin_set_batchsz C m_ v)).1; pure (self, ())) := by
    simp [Connection_set_batchsz, gen_connection_synapse C w s hs, bind, Except.bind, pure, Except.pure]
  have hout : ∀ p : Except (Err × ConnW τ) (ConnW τ × Unit),
      outcomeConn dtype (do let self := (← p).1; pure (self, ()) : Except (Err × ConnW τ) (ConnW τ × Unit)) =
        outcomeConn dtype p ∧
      outState (do let self := (← p).1; pure (self, ()) : Except (Err × ConnW τ) (ConnW τ × Unit)) = outState p := by
    intro p; cases p with
    | ok r => exact ⟨rfl, rfl⟩
    | error r => exact ⟨rfl, rfl⟩
  rw [hprog, (hout _).1, (hout _).2, c, d]
  refine ⟨?_, _, rfl, b⟩
  simp only [a, Config.Conn.step]

/-- **what a connection reports** (`Connection.dt`, `batchsz`, `delayedby` getters): the fields of
`Config.Conn.report` — the synapse's step time and batch size, and the synapse's delay exactly when the connection
has learnable delays. -/
theorem gen_connection_report (C : Ctx τ) (dtype : Config.DType) (w : ConnW τ) (s : Obj τ)
    (hs : w.modules.lookup "synapse_" = some s) :
    Connection_dt C w = .ok (w, ((⟨toSyn dtype s, w.delay_present⟩ : Config.Conn τ).report).dt) ∧
    Connection_delayedby C w = .ok (w, ((⟨toSyn dtype s, w.delay_present⟩ : Config.Conn τ).report).span) ∧
    (∃ b, Connection_batchsz C w = .ok (w, b) ∧
      ((⟨toSyn dtype s, w.delay_present⟩ : Config.Conn τ).report).batch = some b.toNat) := by
  refine ⟨?_, ?_, s.BatchMixin__batch_size, ?_, rfl⟩
  · simp [Connection_dt, gen_connection_synapse C w s hs, moduleCall, hs, gen_synapse_dt, bind, Except.bind, pure,
      Except.pure, Config.Conn.report, toSyn, toDelayM]
  · cases hd : w.delay_present <;>
      simp [Connection_delayedby, hd, gen_connection_synapse C w s hs, moduleCall, hs, gen_synapse_delay, bind,
        Except.bind, pure, Except.pure, Config.Conn.report, toSyn, toDelayM]
  · simp [Connection_batchsz, gen_connection_synapse C w s hs, moduleCall, hs, gen_batchsz, bind, Except.bind, pure,
      Except.pure]

/-! ## Constructors and registration (`__init__`, `add_batched`, `add_delayed`, `add_record`) -/

/-- **`BatchMixin.__init__(batch_size)`**: `ValueError` unless the size is positive; otherwise the batch part of the
object is `⟨batch_size, []⟩` (what `Config.Neuron.construct` / `Synapse.construct` start from). -/
theorem gen_batch_init (C : Ctx τ) (o : Obj τ) (b : Int) :
    (b ≤ 0 → BatchMixin___init__ C o b = .error (.ValueError, o)) ∧
    (0 < b → ∃ o', BatchMixin___init__ C o b = .ok (o', ()) ∧ toBatchM o' = ⟨b.toNat, []⟩ ∧ BatchWF o' ∧
      o'.attrs = o.attrs) := by
  refine ⟨fun h => ?_, fun h => ?_⟩
  · have : ¬ 0 < b := by omega
    simp [BatchMixin___init__, argtest_gt_int, this, raising, bind, Except.bind]
  · refine ⟨{ o with BatchMixin__batch_size := b, BatchMixin__constrained := [] }, ?_, rfl, ?_, rfl⟩
    · simp [BatchMixin___init__, argtest_gt_int, h, raising, bind, Except.bind, pure, Except.pure, set_new]
    · exact ⟨h, List.nodup_nil, fun nm hnm => by cases hnm⟩

/-- **`DelayedMixin.__init__(step_time, delay)`**: `ValueError` unless `step_time > 0` and `delay ≥ 0`; otherwise the
delayed part of the object is `⟨step_time, delay, []⟩`. -/
theorem gen_delayed_init (C : Ctx τ) (o : Obj τ) (st dl : τ) :
    (C.T.pos st = false → DelayedMixin___init__ C o st dl = .error (.ValueError, o)) ∧
    (C.T.pos st = true → C.T.nonneg dl = false →
      ∃ o', DelayedMixin___init__ C o st dl = .error (.ValueError, o')) ∧
    (C.T.pos st = true → C.T.nonneg dl = true → ∃ o', DelayedMixin___init__ C o st dl = .ok (o', ()) ∧
      toDelayM o' = ⟨st, dl, []⟩ ∧ DelayWF o' ∧ o'.attrs = o.attrs) := by
  refine ⟨fun h => ?_, fun h h' => ?_, fun h h' => ?_⟩
  · simp [DelayedMixin___init__, argtest_gt_time, RecordPrelude.argtest_gt, h, raising, bind, Except.bind]
  · exact ⟨_, by simp [DelayedMixin___init__, argtest_gt_time, argtest_gte_time, RecordPrelude.argtest_gt,
      RecordPrelude.argtest_gte, h, h', raising, bind, Except.bind]; rfl⟩
  · refine ⟨{ o with DelayedMixin__step_time := st, DelayedMixin__delay := dl, DelayedMixin__constrained := [] },
      ?_, rfl, ⟨List.nodup_nil, fun nm hnm => by cases hnm⟩, rfl⟩
    simp [DelayedMixin___init__, argtest_gt_time, argtest_gte_time, RecordPrelude.argtest_gt,
      RecordPrelude.argtest_gte, h, h', raising, bind, Except.bind, pure, Except.pure, set_new]

/-- **`RecordReducer.__init__(step_time, duration, inclusive, inplace)`** with valid arguments: the four reported
fields are the arguments and no record is registered yet. -/
theorem gen_reducer_init (C : Ctx τ) (o : Obj τ) (st du : τ) (incl inpl : Bool) (h : C.T.pos st = true)
    (h' : C.T.nonneg du = true) :
    ∃ o', RecordReducer___init__ C o st du incl inpl = .ok (o', ()) ∧ o'.RecordReducer__step_time = st ∧
      o'.RecordReducer__duration = du ∧ o'.RecordReducer__inclusive = incl ∧ o'.RecordReducer__inplace = inpl ∧
      o'.RecordReducer__records = [] ∧ o'.attrs = o.attrs := by
  refine ⟨{ o with RecordReducer__step_time := st, RecordReducer__duration := du, RecordReducer__inclusive := incl,
                    RecordReducer__inplace := inpl, RecordReducer__records := [] }, ?_, rfl, rfl, rfl, rfl, rfl, rfl⟩
  simp [RecordReducer___init__, argtest_gt_time, argtest_gte_time, RecordPrelude.argtest_gt,
    RecordPrelude.argtest_gte, h, h', raising, bind, Except.bind, pure, Except.pure, set_new]

/-- storing twice under the same name keeps the last object -/
theorem putAttr_putAttr (l : List (String × Attr τ)) (a : String) (x y : Attr τ) :
    putAttr (putAttr l a x) a y = putAttr l a y := by
  unfold putAttr
  rw [List.map_map]
  apply List.map_congr_left
  intro p _
  by_cases h : p.1 = a <;> simp [h]

/-- one accepted record operation through `getattr(self, a)` -/
theorem attrCall_record (C : Ctx τ) (o : Obj τ) (a : String) (r : RecT τ)
    (hr : o.attrs.lookup a = some (.record r)) (hg : RecordProg.GWF r) (op : Record.Op τ)
    (hop : op.isSetter = true ∨ ∃ d z, op = .recon d z)
    (hu : (Record.step C.T (RecordProg.toM r) op).2 = .unit) :
    ∃ r', attrCall o a (fun x_ => attrOp C x_ op) = .ok ({ o with attrs := putAttr o.attrs a (.record r') }, ()) ∧
      RecordProg.GWF r' ∧ RecordProg.toM r' = (Record.step C.T (RecordProg.toM r) op).1 := by
  obtain ⟨r', e1, e2, e3⟩ := attrOp_record_ok C r hg op hop hu
  exact ⟨r', by simp [attrCall, hr, e1], e2, e3⟩

/-- the three assignments of `add_delayed` / `add_record` on one attribute, the values read from the object as the
generated text reads them (`fst`, `fdu`, `fb`: private fields, or a constant) -/
def registerBody (C : Ctx τ) (o : Obj τ) (a : String) (fst fdu : Obj τ → τ) (fb : Obj τ → Bool) :
    Except (Err × Obj τ) (Obj τ) := do
  let self := (← attrCall o a (fun x_ => Attr_set_dt C x_ (fst o))).1
  let self := (← attrCall self a (fun x_ => Attr_set_duration C x_ (fdu self))).1
  let self := (← attrCall self a (fun x_ => Attr_set_inclusive C x_ (fb self))).1
  pure self

/-- `rec.dt = st; rec.duration = du; rec.inclusive = b` on one well-formed record, each accepted by the record
machine in the state the previous one left: the record ends with the summary `((c.setDt st).setDur du).setIncl b`,
its batch-dimension constraint untouched -/
theorem register_record (C : Ctx τ) (o : Obj τ) (a : String) (r : RecT τ)
    (hr : o.attrs.lookup a = some (.record r)) (hg : RecordProg.GWF r) (fst fdu : Obj τ → τ) (fb : Obj τ → Bool)
    (i1 : ∀ (w : Obj τ) l, fdu { w with attrs := l } = fdu w) (i2 : ∀ (w : Obj τ) l, fb { w with attrs := l } = fb w)
    (h1 : (Record.step C.T (RecordProg.toM r) (.setDt (fst o))).2 = .unit)
    (h2 : (Record.step C.T (Record.step C.T (RecordProg.toM r) (.setDt (fst o))).1 (.setDur (fdu o))).2 = .unit)
    (h3 : (Record.step C.T (Record.step C.T (Record.step C.T (RecordProg.toM r) (.setDt (fst o))).1
            (.setDur (fdu o))).1 (.setIncl (fb o))).2 = .unit)
    (c : RecCfg τ) (hc : mSum (RecordProg.toM r) = some c) :
    ∃ r3, registerBody C o a fst fdu fb = .ok { o with attrs := putAttr o.attrs a (.record r3) } ∧
      RecordProg.GWF r3 ∧
      mSum (RecordProg.toM r3) = some (((c.setDt C.T (fst o)).setDur C.T (fdu o)).setIncl C.T (fb o)) ∧
      r3.constraints.lookup 1 = r.constraints.lookup 1 := by
  obtain ⟨r1, e1, g1, m1⟩ := attrCall_record C o a r hr hg (.setDt (fst o)) (Or.inl rfl) h1
  have l1 : ({ o with attrs := putAttr o.attrs a (.record r1) } : Obj τ).attrs.lookup a = some (.record r1) := by
    simp [lookup_putAttr, hr]
  rw [← m1] at h2 h3
  obtain ⟨r2, e2, g2, m2⟩ := attrCall_record C _ a r1 l1 g1 (.setDur (fdu o)) (Or.inl rfl) h2
  simp only [putAttr_putAttr] at e2
  have l2 : ({ o with attrs := putAttr o.attrs a (.record r2) } : Obj τ).attrs.lookup a
      = some (.record r2) := by simp [lookup_putAttr, hr]
  rw [← m2] at h3
  obtain ⟨r3, e3, g3, m3⟩ := attrCall_record C _ a r2 l2 g2 (.setIncl (fb o)) (Or.inl rfl) h3
  simp only [putAttr_putAttr] at e3
  have a1 : attrCall o a (fun x_ => Attr_set_dt C x_ (fst o)) = _ := e1
  have a2 : attrCall _ a (fun x_ => Attr_set_duration C x_ (fdu o)) = _ := e2
  have a3 : attrCall _ a (fun x_ => Attr_set_inclusive C x_ (fb o)) = _ := e3
  refine ⟨r3, ?_, g3, ?_, ?_⟩
  · simp only [registerBody, bind, Except.bind, a1, i1, a2, i2, a3, pure, Except.pure]
  · have s1 := (mSum_setter C.T _ c hc).1 (fst o) h1
    rw [← m1] at s1
    have s2 := (mSum_setter C.T _ _ s1).2.1 (fdu o) h2
    rw [← m2] at s2
    have s3 := (mSum_setter C.T _ _ s2).2.2 (fb o) h3
    rw [← m3] at s3
    exact s3
  · have k1 := Record.setter_lookup_ne C.T (RecordProg.toM r) (.setDt (fst o)) rfl 1 (by decide)
    have k2 := Record.setter_lookup_ne C.T (RecordProg.toM r1) (.setDur (fdu o)) rfl 1 (by decide)
    have k3 := Record.setter_lookup_ne C.T (RecordProg.toM r2) (.setIncl (fb o)) rfl 1 (by decide)
    rw [← m1] at k1; rw [← m2] at k2; rw [← m3] at k3
    exact k3.trans (k2.trans k1)

/-- appending a new name keeps the names distinct -/
theorem nodup_snoc (l : List String) (a : String) (h : l.Nodup) (ha : a ∉ l) : (l ++ [a]).Nodup := by
  rw [List.nodup_append]
  refine ⟨h, by simp, ?_⟩
  intro x hx y hy
  simp at hy; subst hy
  exact fun e => ha (e ▸ hx)

/-- `s.add(a)` for a name not yet in the set appends it (iteration order of the model) -/
theorem set_add_new (l : List String) (a : String) (h : a ∉ l) : set_add l a = l ++ [a] := by
  simp [set_add, h]

/-- replacing the object under `a` does not change the summary of another name -/
theorem rsum_putAttr_ne (l : List (String × Attr τ)) (a b : String) (x : Attr τ) (h : b ≠ a) :
    rsum? (putAttr l a x) b = rsum? l b := by
  simp [rsum?, lookup_putAttr, h]

/-- replacing the object under `a` does not change the batch-dimension constraint of another name -/
theorem bdim_putAttr_ne (l : List (String × Attr τ)) (a b : String) (x : Attr τ) (h : b ≠ a) :
    bdim? (putAttr l a x) b = bdim? l b := by
  simp [bdim?, lookup_putAttr, h]

/-- registering a new name keeps the old names' view and appends the new one's -/
theorem filterMap_register {γ : Type} (names : List String) (a : String) (ha : a ∉ names)
    (g g' : String → Option γ) (hg : ∀ b, b ≠ a → g' b = g b) (c : γ) (hc : g' a = some c) :
    (set_add names a).filterMap g' = names.filterMap g ++ [c] := by
  rw [set_add_new names a ha, List.filterMap_append]
  congr 1
  · exact filterMap_congr_of _ _ _ (fun b hb => hg b (fun e => ha (e ▸ hb)))
  · simp [hc]

/-- the generated `add_delayed` on one existing `RecordTensor` attribute: the three assignments, then `set.add` -/
theorem add_delayed_shape (C : Ctx τ) (o : Obj τ) (a : String) (r : RecT τ)
    (hr : o.attrs.lookup a = some (.record r)) :
    DelayedMixin_add_delayed C o [a] = (do
      let self ← registerBody C o a (·.DelayedMixin__step_time) (·.DelayedMixin__delay) (fun _ => true)
      pure ({ self with DelayedMixin__constrained := set_add self.DelayedMixin__constrained a }, ())) := by
  have hh : hasattr o a = true := by simp [hasattr, hr]
  have hga : getattr o a = .ok (.record r) := by simp [getattr, hr]
  simp only [DelayedMixin_add_delayed, registerBody, List.foldlM_cons, List.foldlM_nil, hh, hga, raising,
    isRecordTensor, bind, Except.bind, pure, Except.pure, Bool.not_true, Bool.false_eq_true, if_false]
  cases attrCall o a (fun x_ => Attr_set_dt C x_ o.DelayedMixin__step_time) with
  | error e => rfl
  | ok q1 =>
    dsimp only
    cases attrCall q1.1 a (fun x_ => Attr_set_duration C x_ q1.1.DelayedMixin__delay) with
    | error e => rfl
    | ok q2 =>
      dsimp only
      cases attrCall q2.1 a (fun x_ => Attr_set_inclusive C x_ true) with
      | error e => rfl
      | ok q3 => rfl

/-- **`add_delayed(a)`** for a new name `a` holding a well-formed `RecordTensor` `r` that accepts the three
assignments: the regenerated body is `DelayM.add` on `r`'s summary — `rec.dt = step_time; rec.duration = delay;
rec.inclusive = True`, in this order, then the name joins the set.  Nothing about the batch part changes. -/
theorem gen_add_delayed (C : Ctx τ) (o : Obj τ) (hd : DelayWF o) (a : String) (ha : a ∉ o.DelayedMixin__constrained)
    (r : RecT τ) (hr : o.attrs.lookup a = some (.record r)) (hg : RecordProg.GWF r)
    (h1 : (Record.step C.T (RecordProg.toM r) (.setDt o.DelayedMixin__step_time)).2 = .unit)
    (h2 : (Record.step C.T (Record.step C.T (RecordProg.toM r) (.setDt o.DelayedMixin__step_time)).1
            (.setDur o.DelayedMixin__delay)).2 = .unit)
    (h3 : (Record.step C.T (Record.step C.T (Record.step C.T (RecordProg.toM r)
            (.setDt o.DelayedMixin__step_time)).1 (.setDur o.DelayedMixin__delay)).1 (.setIncl true)).2 = .unit)
    (c : RecCfg τ) (hc : mSum (RecordProg.toM r) = some c) :
    ∃ o', DelayedMixin_add_delayed C o [a] = .ok (o', ()) ∧ toDelayM o' = (toDelayM o).add C.T c ∧ DelayWF o' ∧
      toBatchM o' = toBatchM o := by
  obtain ⟨r3, e, g3, m3, k3⟩ := register_record C o a r hr hg (·.DelayedMixin__step_time) (·.DelayedMixin__delay)
    (fun _ => true) (fun _ _ => rfl) (fun _ _ => rfl) h1 h2 h3 c hc
  have hl : (putAttr o.attrs a (.record r3)).lookup a = some (.record r3) := by simp [lookup_putAttr, hr]
  refine ⟨{ o with attrs := putAttr o.attrs a (.record r3),
                   DelayedMixin__constrained := set_add o.DelayedMixin__constrained a }, ?_, ?_, ?_, ?_⟩
  · rw [add_delayed_shape C o a r hr, e]; rfl
  · simp only [toDelayM, DelayM.add]
    congr 1
    exact filterMap_register _ a ha _ _ (fun b hb => rsum_putAttr_ne _ a b _ hb) _
      (by simp [rsum?, hl, attrSum, m3])
  · refine ⟨?_, ?_⟩
    · show (set_add o.DelayedMixin__constrained a).Nodup
      rw [set_add_new _ a ha]
      exact nodup_snoc _ a hd.1 ha
    · intro nm hnm
      have hnm' : nm ∈ set_add o.DelayedMixin__constrained a := hnm
      rw [set_add_new _ a ha] at hnm'
      rcases List.mem_append.mp hnm' with h | h
      · obtain ⟨r0, hr0, hg0⟩ := hd.2 nm h
        have : nm ≠ a := fun e => ha (e ▸ h)
        exact ⟨r0, by simp [lookup_putAttr, this, hr0], hg0⟩
      · simp at h; subst h; exact ⟨r3, hl, g3⟩
  · simp only [toBatchM]
    congr 1
    apply filterMap_congr_of
    intro b _
    by_cases hb : b = a
    · subst hb; simp [bdim?, hl, hr, attrBdim, k3]
    · exact bdim_putAttr_ne _ a b _ hb

/-- `add_delayed(a)` when `a` is not an attribute: `RuntimeError`, nothing changed -/
theorem gen_add_delayed_missing (C : Ctx τ) (o : Obj τ) (a : String) (h : o.attrs.lookup a = none) :
    DelayedMixin_add_delayed C o [a] = .error (.RuntimeError, o) := by
  simp [DelayedMixin_add_delayed, hasattr, h, bind, Except.bind, throw, throwThe, MonadExceptOf.throw]

/-- `add_delayed(a)` when `a` is an attribute that is NOT a `RecordTensor`: the source means to raise `TypeError`,
but building the message evaluates `type(getattr(self, a).__name__)` — `.__name__` on the attribute object itself —
so what is raised is `AttributeError` (nothing changed).  The same holds for `add_batched` and `add_record`. -/
theorem gen_add_delayed_not_record (C : Ctx τ) (o : Obj τ) (a : String) (x : Attr τ)
    (h : o.attrs.lookup a = some x) (hx : isRecordTensor x = false) :
    DelayedMixin_add_delayed C o [a] = .error (.AttributeError, o) := by
  simp [DelayedMixin_add_delayed, hasattr, getattr, h, hx, raising, dunder_name, bind, Except.bind]

/-- the generated `add_record` on one existing `RecordTensor` attribute -/
theorem add_record_shape (C : Ctx τ) (o : Obj τ) (a : String) (r : RecT τ)
    (hr : o.attrs.lookup a = some (.record r)) :
    RecordReducer_add_record C o [a] = (do
      let self ← registerBody C o a (·.RecordReducer__step_time) (·.RecordReducer__duration)
        (·.RecordReducer__inclusive)
      pure ({ self with RecordReducer__records := set_add self.RecordReducer__records a }, ())) := by
  have hh : hasattr o a = true := by simp [hasattr, hr]
  have hga : getattr o a = .ok (.record r) := by simp [getattr, hr]
  simp only [RecordReducer_add_record, registerBody, List.foldlM_cons, List.foldlM_nil, hh, hga, raising,
    isRecordTensor, bind, Except.bind, pure, Except.pure, Bool.not_true, Bool.false_eq_true, if_false]
  cases attrCall o a (fun x_ => Attr_set_dt C x_ o.RecordReducer__step_time) with
  | error e => rfl
  | ok q1 =>
    dsimp only
    cases attrCall q1.1 a (fun x_ => Attr_set_duration C x_ q1.1.RecordReducer__duration) with
    | error e => rfl
    | ok q2 =>
      dsimp only
      cases attrCall q2.1 a (fun x_ => Attr_set_inclusive C x_ q2.1.RecordReducer__inclusive) with
      | error e => rfl
      | ok q3 => rfl

/-- **`add_record(a)`** (`RecordReducer`) for a new name holding a well-formed `RecordTensor`: the record is
brought to the reducer's step time, duration and inclusive flag — the expression `Config.Reducer.construct` uses. -/
theorem gen_add_record (C : Ctx τ) (o : Obj τ) (hd : RedWF o) (a : String) (ha : a ∉ o.RecordReducer__records)
    (r : RecT τ) (hr : o.attrs.lookup a = some (.record r)) (hg : RecordProg.GWF r)
    (h1 : (Record.step C.T (RecordProg.toM r) (.setDt o.RecordReducer__step_time)).2 = .unit)
    (h2 : (Record.step C.T (Record.step C.T (RecordProg.toM r) (.setDt o.RecordReducer__step_time)).1
            (.setDur o.RecordReducer__duration)).2 = .unit)
    (h3 : (Record.step C.T (Record.step C.T (Record.step C.T (RecordProg.toM r)
            (.setDt o.RecordReducer__step_time)).1 (.setDur o.RecordReducer__duration)).1
            (.setIncl o.RecordReducer__inclusive)).2 = .unit)
    (c : RecCfg τ) (hc : mSum (RecordProg.toM r) = some c) :
    ∃ o', RecordReducer_add_record C o [a] = .ok (o', ()) ∧
      redRecs o' = redRecs o ++ [((c.setDt C.T o.RecordReducer__step_time).setDur C.T o.RecordReducer__duration).setIncl
        C.T o.RecordReducer__inclusive] ∧ RedWF o' ∧
      o'.RecordReducer__step_time = o.RecordReducer__step_time ∧ o'.RecordReducer__duration = o.RecordReducer__duration ∧
      o'.RecordReducer__inclusive = o.RecordReducer__inclusive ∧ o'.RecordReducer__inplace = o.RecordReducer__inplace := by
  obtain ⟨r3, e, g3, m3, k3⟩ := register_record C o a r hr hg (·.RecordReducer__step_time) (·.RecordReducer__duration)
    (·.RecordReducer__inclusive) (fun _ _ => rfl) (fun _ _ => rfl) h1 h2 h3 c hc
  have hl : (putAttr o.attrs a (.record r3)).lookup a = some (.record r3) := by simp [lookup_putAttr, hr]
  refine ⟨{ o with attrs := putAttr o.attrs a (.record r3),
                   RecordReducer__records := set_add o.RecordReducer__records a }, ?_, ?_, ?_, rfl, rfl, rfl, rfl⟩
  · rw [add_record_shape C o a r hr, e]; rfl
  · exact filterMap_register _ a ha _ _ (fun b hb => rsum_putAttr_ne _ a b _ hb) _
      (by simp [rsum?, hl, attrSum, m3])
  · refine ⟨?_, ?_⟩
    · show (set_add o.RecordReducer__records a).Nodup
      rw [set_add_new _ a ha]
      exact nodup_snoc _ a hd.1 ha
    · intro nm hnm
      have hnm' : nm ∈ set_add o.RecordReducer__records a := hnm
      rw [set_add_new _ a ha] at hnm'
      rcases List.mem_append.mp hnm' with h | h
      · obtain ⟨r0, hr0, hg0⟩ := hd.2 nm h
        have : nm ≠ a := fun e => ha (e ▸ h)
        exact ⟨r0, by simp [lookup_putAttr, this, hr0], hg0⟩
      · simp at h; subst h; exact ⟨r3, hl, g3⟩

/-- **`add_batched(a)`** for a new name holding a (well-formed) `RecordTensor` or `ShapedTensor` that accepts
`reconstrain(0, batch_size)`: the regenerated body is `BatchM.add` — the tensor's batch dimension is constrained to
the stored batch size, then the name joins the set.  No record summary changes. -/
theorem gen_add_batched (C : Ctx τ) (o : Obj τ) (hb : BatchWF o) (a : String) (ha : a ∉ o.BatchMixin__constrained)
    (x : Attr τ) (hx : o.attrs.lookup a = some x) (hw : AttrWF x)
    (hacc : reconOK C.T x 0 (some o.BatchMixin__batch_size)) :
    ∃ o', BatchMixin_add_batched C o [a] = .ok (o', ()) ∧ toBatchM o' = (toBatchM o).add ∧ BatchWF o' ∧
      (∀ b, rsum? o'.attrs b = rsum? o.attrs b) := by
  obtain ⟨x', e1, e2, e3, e4, _, _⟩ := attr_recon_ok C x hw _ hacc
  have hsh : isShapedTensor x = true := by
    cases x with
    | record r => rfl
    | shaped s => rfl
    | other => exact absurd hacc (by simp [reconOK])
  have hl : (putAttr o.attrs a x').lookup a = some x' := by simp [lookup_putAttr, hx]
  refine ⟨{ o with attrs := putAttr o.attrs a x', BatchMixin__constrained := set_add o.BatchMixin__constrained a },
    ?_, ?_, ?_, ?_⟩
  · simp [BatchMixin_add_batched, hasattr, getattr, hx, hsh, raising, attrCall, e1, bind, Except.bind, pure,
      Except.pure]
  · simp only [toBatchM, BatchM.add]
    congr 1
    exact filterMap_register _ a ha _ _ (fun b hb' => bdim_putAttr_ne _ a b _ hb') _
      (by simp [bdim?, hl, e4])
  · obtain ⟨hpos, hnd, hn⟩ := hb
    refine ⟨hpos, ?_, ?_⟩
    · show (set_add o.BatchMixin__constrained a).Nodup
      rw [set_add_new _ a ha]
      exact nodup_snoc _ a hnd ha
    · intro nm hnm
      have hnm' : nm ∈ set_add o.BatchMixin__constrained a := hnm
      rw [set_add_new _ a ha] at hnm'
      rcases List.mem_append.mp hnm' with h | h
      · obtain ⟨y, hy, hwy, hby⟩ := hn nm h
        have : nm ≠ a := fun e => ha (e ▸ h)
        exact ⟨y, by simp [lookup_putAttr, this, hy], hwy, hby⟩
      · simp at h; subst h; exact ⟨x', hl, e2, by simp [e4]⟩
  · intro b
    by_cases hb' : b = a
    · subst hb'; simp [rsum?, hl, hx, e3]
    · exact rsum_putAttr_ne _ a b _ hb'

/-! ## A setter that raises — for whatever reason — changes no reported value

Without the `RecsAccept` / `BatchAccept` hypotheses a record may refuse its new configuration in the middle of the
loop.  Python then leaves the records visited so far changed; the private fields of the object are written AFTER
the loop and therefore keep their old values.  (`Config.MComp.step` reports the whole state as unchanged in that
case — an abstraction of the model, see the doc comment of this file.) -/

/-- the temporal setters: a raise leaves every private field as it was (only attribute objects may differ) -/
theorem setterPattern_error_fields (C : Ctx τ) (o : Obj τ) (validate : Except Err τ) (cur : τ) (names : List String)
    (op : τ → Record.Op τ) (store : Obj τ → τ → Obj τ) (e : Err) (o' : Obj τ)
    (h : setterPattern C o validate cur names op store = .error (e, o')) :
    ∃ attrs', o' = { o with attrs := attrs' } := by
  unfold setterPattern at h
  cases validate with
  | error e0 =>
    simp only [raising, bind, Except.bind, Except.error.injEq, Prod.mk.injEq] at h
    exact ⟨o.attrs, h.2.symm⟩
  | ok v =>
    simp only [raising, bind, Except.bind] at h
    by_cases he : v = cur
    · simp [he, pure, Except.pure] at h
    · simp only [ne_eq, he, not_false_eq_true, decide_true, if_true] at h
      have hf := forAttrs_fields (fun x_ => attrOp C x_ (op v)) names o
      cases hl : forAttrs names (fun x_ => attrOp C x_ (op v)) o with
      | ok o1 => rw [hl] at h; simp [pure, Except.pure] at h
      | error r =>
        obtain ⟨e1, o1⟩ := r
        rw [hl] at h hf
        simp only [Except.error.injEq, Prod.mk.injEq] at h
        obtain ⟨attrs', ha⟩ := hf
        exact ⟨attrs', h.2 ▸ ha⟩

/-- `DelayedMixin.dt` / `delay`, `RecordReducer.dt` / `duration` setters: if the call raises, the values reported by
ALL getters (`dt`, `delay`, `batchsz`, `inplace`, `duration`, …) are what they were -/
theorem gen_temporal_setter_raise (C : Ctx τ) (o : Obj τ) (v : τ) (e : Err) (o' : Obj τ) :
    (DelayedMixin_set_dt C o v = .error (e, o') → ∃ attrs', o' = { o with attrs := attrs' }) ∧
    (DelayedMixin_set_delay C o v = .error (e, o') → ∃ attrs', o' = { o with attrs := attrs' }) ∧
    (RecordReducer_set_dt C o v = .error (e, o') → ∃ attrs', o' = { o with attrs := attrs' }) ∧
    (RecordReducer_set_duration C o v = .error (e, o') → ∃ attrs', o' = { o with attrs := attrs' }) :=
  ⟨fun h => setterPattern_error_fields C o _ _ _ _ _ e o' (delayed_set_dt_shape C o v ▸ h),
   fun h => setterPattern_error_fields C o _ _ _ _ _ e o' (delayed_set_delay_shape C o v ▸ h),
   fun h => setterPattern_error_fields C o _ _ _ _ _ e o' (reducer_set_dt_shape C o v ▸ h),
   fun h => setterPattern_error_fields C o _ _ _ _ _ e o' (reducer_set_duration_shape C o v ▸ h)⟩

/-- the `batchsz` setter: a raise leaves every private field as it was -/
theorem gen_set_batchsz_raise (C : Ctx τ) (o : Obj τ) (v : Int) (e : Err) (o' : Obj τ)
    (h : BatchMixin_set_batchsz C o v = .error (e, o')) : ∃ attrs', o' = { o with attrs := attrs' } := by
  rw [set_batchsz_shape] at h
  unfold argtest_gt_int at h
  by_cases hv : 0 < v
  · simp only [hv, if_true, raising, bind, Except.bind] at h
    by_cases he : v = o.BatchMixin__batch_size
    · simp [he, pure, Except.pure] at h
    · simp only [ne_eq, he, not_false_eq_true, decide_true, if_true] at h
      have hf := forAttrs_fields (fun x_ => Attr_reconstrain C x_ 0 (some v)) o.BatchMixin__constrained o
      cases hl : forAttrs o.BatchMixin__constrained (fun x_ => Attr_reconstrain C x_ 0 (some v)) o with
      | ok o1 => rw [hl] at h; simp [pure, Except.pure] at h
      | error r =>
        obtain ⟨e1, o1⟩ := r
        rw [hl] at h hf
        simp only [Except.error.injEq, Prod.mk.injEq] at h
        obtain ⟨attrs', ha⟩ := hf
        exact ⟨attrs', h.2 ▸ ha⟩
  · simp only [hv, if_false, raising, bind, Except.bind, Except.error.injEq, Prod.mk.injEq] at h
    exact ⟨o.attrs, h.2.symm⟩

/-- what a synapse reports (`dt`, `delay`, `batchsz`, `inplace` getters) is `Config.Synapse.report` of its
abstraction -/
theorem gen_synapse_report (dtype : Config.DType) (o : Obj τ) :
    (toSyn dtype o).report = ⟨o.DelayedMixin__step_time, some o.DelayedMixin__delay,
      some o.BatchMixin__batch_size.toNat, none, some o.InfernoSynapse__inplace, dtype⟩ := rfl

/-! ## Non-vacuity: the generated programs run on a concrete well-formed synapse -/

/-- exact rational times; `clear()` that touches nothing -/
def exC : Ctx Rat := ⟨Record.ratOps, RecordProg.exE, (· + ·), (· - ·), (· * ·), fun w => .ok (w, ())⟩

/-- a record as a synapse keeps it: dt 1, delay 3, inclusive (4 slots, pointer mid-wrap), batch 2 -/
def exR : RecT Rat :=
  { dt := 1, duration := 3, inclusive := true, constraints := [(0, 4), (1, 2)], strict := true, param := false,
    data := .init false [2] ⟨false, [2], [[3, 3], [4, 4], [1, 1], [2, 2]]⟩, pointer := 2 }

/-- a synapse object with one record `spike_` registered with both mixins and an unrelated attribute `weight` -/
def exO : Obj Rat :=
  { BatchMixin__batch_size := 2, BatchMixin__constrained := ["spike_"], DelayedMixin__step_time := 1,
    DelayedMixin__delay := 3, DelayedMixin__constrained := ["spike_"], InfernoSynapse__inplace := false,
    RecordReducer__step_time := 1, RecordReducer__duration := 0, RecordReducer__inclusive := false,
    RecordReducer__inplace := false, RecordReducer__records := [],
    attrs := [("spike_", .record exR), ("weight", .other)] }

example : SynWF exO := by
  refine ⟨⟨by decide, ?_⟩, by decide, by decide, ?_⟩
  · intro nm hnm
    simp [exO] at hnm; subst hnm
    exact ⟨exR, rfl, 4, by decide, by decide, by simp [exR]⟩
  · intro nm hnm
    simp [exO] at hnm; subst hnm
    exact ⟨.record exR, rfl, ⟨4, by decide, by decide, by simp [exR]⟩, by decide⟩
example : (toSyn .f32 exO).delayed.recs.map (·.n) = [4] := by decide +kernel
-- delay 3 → 2 at dt 1: three slots — what `Synapse.construct` sizes for (dt 1, delay 2); D14 would give four
example : (toDelayM (outState (InfernoSynapse_set_delay exC exO 2))).recs.map (·.n) = [3] := by decide +kernel
example : (toDelayM (outState (InfernoSynapse_set_delay exC exO 2))).delay = 2 := by decide +kernel
-- dt 1 → 1/2: seven slots, batch part untouched
example : (toDelayM (outState (InfernoSynapse_set_dt exC exO (1/2)))).recs.map (·.n) = [7] := by decide +kernel
example : toBatchM (outState (InfernoSynapse_set_dt exC exO (1/2))) = ⟨2, [2]⟩ := by decide +kernel
-- batchsz 2 → 3: the record's batch dimension follows, its history length does not change
example : toBatchM (outState (BatchMixin_set_batchsz exC exO 3)) = ⟨3, [3]⟩ := by decide +kernel
example : (toDelayM (outState (BatchMixin_set_batchsz exC exO 3))).recs.map (·.n) = [4] := by decide +kernel
-- refused values: ValueError, nothing changes
example : (outcome toDelayM (InfernoSynapse_set_dt exC exO 0)).2 = .err .ValueError := by decide +kernel
example : (outcome toBatchM (BatchMixin_set_batchsz exC exO 0)) = (⟨2, [2]⟩, .err .ValueError) := by decide +kernel
-- registering an attribute that is not a RecordTensor raises AttributeError (not the TypeError the source names)
example : (outcome toDelayM (DelayedMixin_add_delayed exC exO ["weight"])).2 = .err .AttributeError := by
  decide +kernel
example : (outcome toDelayM (DelayedMixin_add_delayed exC exO ["nope"])).2 = .err .RuntimeError := by decide +kernel
-- a connection forwards to the synapse it holds; replacing the synapse replaces what it reports
/-- a connection with learnable delays holding that synapse -/
def exW : ConnW Rat := ⟨[("synapse_", exO)], true⟩
example : (match Connection_dt exC (outState (Connection_set_dt exC exW (1/2))) with
    | .ok (_, v) => some v | .error _ => none) = some (1/2) := by decide +kernel
example : (match Connection_delayedby exC (outState (Connection_set_synapse exC exW
      { exO with DelayedMixin__delay := 5 })) with
    | .ok (_, v) => v | .error _ => none) = some 5 := by decide +kernel

end InfernoVerif.Gen.ConfigProg
