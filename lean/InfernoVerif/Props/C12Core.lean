import InfernoVerif.Lemmas.Persist
/-!
# C12 — the generic core (axiom-free theorems; see `Props/C12.lean` for the overview)

`resume_equiv`, `compose_resumes`, `respects_of_injective`, `classifier_inv_step`.  Kept in a module of
their own (listed last in the audit) — nothing else distinguishes them from `Props/C12.lean`.
-/
namespace InfernoVerif.Persist
open InfernoVerif.Ring
variable {β : Type}

/-- If loading what `s` saved into `t` succeeds (same configuration), the restored target and the
uninterrupted source produce the same outputs for EVERY continuation and stay in agreement on all
read fields. -/
theorem resume_equiv {D In Out : Type} (C : Comp D) (step : C.State → In → C.State × Out)
    (hres : Resumes C) (hresp : Respects C step) (s t t' : C.State)
    (hs : C.Inv s) (ht : C.Inv t) (hc : C.sameConfig s t) (hl : C.load (C.save s) t = .ok t')
    (xs : List In) :
    (run step t' xs).2 = (run step s xs).2 ∧ C.view (run step t' xs).1 = C.view (run step s xs).1 :=
  run_resume C step hresp s t' (hres s t t' hs ht hc hl) xs

/-- A component whose `view` is the whole state is respected by every step function. -/
theorem respects_of_injective {D In Out : Type} (C : Comp D) (hinj : ∀ a b, C.view a = C.view b → a = b)
    (step : C.State → In → C.State × Out) : Respects C step := by
  intro s t x h
  cases hinj s t h
  exact ⟨rfl, rfl⟩

/-- Composition: a product of components resumes if each does. -/
theorem compose_resumes {D₁ D₂ : Type} (C₁ : Comp D₁) (C₂ : Comp D₂) (h₁ : Resumes C₁) (h₂ : Resumes C₂) :
    Resumes (C₁.prod C₂) := by
  intro s t t' hs ht hc hl
  change (match C₁.load (C₁.save s.1) t.1, C₂.load (C₂.save s.2) t.2 with
    | .ok a, .ok b => Except.ok (a, b)
    | .error e, .ok _ => .error e
    | .ok _, .error e => .error e
    | .error e₁, .error e₂ => .error (e₁ ++ e₂)) = .ok t' at hl
  split at hl <;> try cases hl
  rename_i a b ha hb
  show (C₁.view a, C₂.view b) = (C₁.view s.1, C₂.view s.2)
  rw [h₁ s.1 t.1 a hs.1 ht.1 hc.1 ha, h₂ s.2 t.2 b hs.2 ht.2 hc.2 hb]

/-- `sync` is established by the first update and kept by every later one. -/
theorem classifier_inv_step {Δ In Out : Type} (derive : Tens β → Δ) (infer : Δ → In → Out)
    (upd : Tens β → In → Tens β) (s : Clf β Δ) (x : In) :
    (clfStep derive infer upd s x).1.derived = derive (clfStep derive infer upd s x).1.rates := rfl

end InfernoVerif.Persist
