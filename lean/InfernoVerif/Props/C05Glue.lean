import InfernoVerif.Model.Conn
import InfernoVerif.Gen.ConvSitesR
import Mathlib.Algebra.Order.Floor.Ring
import Mathlib.Data.Rat.Floor
import Mathlib.Data.Rat.Cast.Order
import Mathlib.Tactic.Ring
/-!
# Glue: the output-size formula of the convolution model IS the expression in `Conv2D.__init__`

`Gen/ConvSitesR.lean` is regenerated on every run from the generator expression assigned to
`(self.outheight, self.outwidth)` in `Conv2D.__init__` (site extraction):
`math.floor((size + 2 * padding - dilation * (kernel - 1) - 1) / stride + 1)` — a FLOAT division
followed by `math.floor`.  `Model/Conn.lean :: outSizeCode` — about which `Props/C05.lean` proves that it
counts exactly the window positions that fit — uses integer floor division.  The theorem below shows
they are the same integer for every positive stride, so the geometry theorems of C05 are about the size
the constructor really computes (over exact reals; for the sizes a tensor can have the float quotient
is exact enough — correspondence check).
-/
namespace InfernoVerif.Conn.Glue
open InfernoVerif.Conn InfernoVerif.Gen

theorem gen_outsize (size p d k s : ℕ) (hs : 0 < s) :
    outSizeCode size p d k s = ConvSitesR.Conv2D_outsize (size : ℤ) (p : ℤ) (d : ℤ) (k : ℤ) (s : ℤ) := by
  unfold outSizeCode ConvSitesR.Conv2D_outsize
  rw [Int.floor_add_one]
  congr 1
  set a : ℤ := (size : ℤ) + 2 * (p : ℤ) - (d : ℤ) * ((k : ℤ) - 1) - 1 with ha
  have hsq : ((a : ℤ) : ℝ) / (((s : ℕ) : ℤ) : ℝ) = (((a : ℚ) / ((s : ℕ) : ℚ) : ℚ) : ℝ) := by push_cast; ring
  rw [hsq, Rat.floor_cast, Rat.floor_intCast_div_natCast]

end InfernoVerif.Conn.Glue
