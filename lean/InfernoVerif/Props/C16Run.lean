import InfernoVerif.Props.C16GlueProg
import InfernoVerif.Props.C16
/-!
# C16, closing the loop: the programs regenerated from /repo refine the hook specification over EVERY operation sequence

`Props/C16GlueProg.lean` proves, method by method, that one run of a method body REGENERATED from
`inferno/core/infrastructure.py` (`Gen/HookProg.lean`: `Hook.register` / `deregister`, `StateHook.register` / `forward`,
the `trainexec` / `evalexec` setters, `__wrapped_prehook` / `__wrapped_posthook`, `_detach_handles`) in a world `w : HW`,
seen through the abstraction `toM`, is one step of the hand-written machine `Hooks.step` on hook number `w.me`.
`Props/C16.lean` proves that this machine refines the specification machine `sstep` / `srun` of C16 for every operation
list (`run_refines`) and the firing rule (`fires_iff`).  This file supplies the missing links and composes everything:

* a state BETWEEN operations of the regenerated programs: `GS` = the module (with the registered callables themselves)
  and the heap of hook objects; an operation on hook `i` loads `heap[i]` as `self` (`load`), runs the regenerated
  method, and writes `self`'s private fields back (`store`; this is what `toM` of the glue file does once, here it is
  done after every operation).  Abstraction `absG g = modState g.module g.heap`.
* `genExec` dispatches the machine's operation alphabet `Hooks.Op` to the regenerated method it names and returns the
  NEW generated state; on an exception the state AT THE RAISE, as the `lift` of the glue theorems prescribes, and
  `Out.err e`.  `gen_step_eq`: one dispatched operation, abstracted, is one step of `Hooks.step`.
* the regenerated programs PRESERVE the well-formedness `GWF g = Inv g ∧ Hooks.WF (absG g)` (`gen_step_wf`).  `Inv g` is
  the part `absG` forgets — the invariant `CbOK` of the glue file (every callable stored in `_forward_pre_hooks` calls
  `__wrapped_prehook`, every one in `_forward_hooks` calls `__wrapped_posthook`); it is preserved by every operation
  (`gen_step_inv`: from `gen_register_cb`, `gen_deregister_cb`, `gen_finalizer` and the frame lemmas proved here by
  unfolding the generated definitions: a raising `Hook.register` has changed nothing — `register_err` —,
  `Hook.deregister` never raises — `deregister_ok`).  `Hooks.WF (absG g)` is the invariant of `Lemmas/Hooks.lean`
  (no dangling handle, unique ids, finaliser = current handles), obtained from `gen_step_eq` and `step_wf`.
* `genRun` folds `genExec` over an operation list; `gen_run_refines` is the capstone: for EVERY finite sequence of
  supported operations, from any well-formed generated state, what the regenerated programs return is what the
  specification machine `srun` returns (a module-call trace compared, exactly as in `run_refines`, as "how often did
  each hook run in each position": `genRunAbs`), the final states are in the abstraction relation, and the final
  generated state is again well formed.  `gen_run_eq` gives equality with the code-shaped machine `run` INCLUDING the
  order of the events in every module-call trace.  `gen_run_refines_init` starts from the empty module, and
  `gen_fires_iff` transports the property itself (`fires_iff`) to the regenerated programs: after any supported
  history, a module call executed through the regenerated wrapped hooks runs hook `h` in position `p` exactly once iff
  it is registered ∧ alive ∧ configured for `p` ∧ enabled for the module's mode, and not at all otherwise.

MIXED RUN — which parts of `genExec` are NOT regenerated text (said explicitly):
* `Op.mk` (the constructors `Hook.__init__` / `StateHook.__init__` are not translated) and `Op.setMode`
  (`module.train()` / `module.eval()` is torch's) are THE MODEL'S: `modelStep` runs `Hooks.step` on `absG g` and
  concretises the result with `ofS` (dictionary entries of `pre` become prehook callables, those of `post` posthook
  callables; `absG (ofS s) = s`, `Inv (ofS s)`).
* `Op.call` (`module(...)`): torch's dispatch loop is hand-written (`genCall` / `callEntries`: `_forward_pre_hooks` in
  dictionary order, `forward`, `_forward_hooks` in dictionary order, the first exception aborts the call), but every
  dictionary entry is run through `callEntry` of the glue file — the weak-reference lambda, then the REGENERATED
  `Hook___wrapped_prehook` / `Hook___wrapped_posthook` of the position the CALLABLE carries (not the position of the
  dictionary it sits in; that these agree is `Inv`).  So the mode gate of a module call is regenerated text.
* `Op.delete` (dropping the last strong reference): CPython's collector is hand-written (`genDelete`), as in the model:
  an attached finaliser runs the REGENERATED `_detach_handles` on the handles it captured (`collect` of the glue file),
  then the object is marked gone (`alive := false`, fields unobservable).
* the dispatcher `onHook`: an operation naming a hook index that does not exist or whose object is gone runs NO code —
  state unchanged, `Out.noref` (the convention of `Hooks.step`; these are exactly the hypotheses `hme` / `hal` of the
  glue theorems failing).  `register` picks `Hook.register` or `StateHook.register` by `cfg.kind`, as `Hooks.step` does.
Everything else (`register`, `deregister`, `manual`, `setTrainexec`, `setEvalexec`) is a regenerated method body.

Domain (`Sup g op`, evaluated at the CURRENT state — the part of the input space on which `Hooks.step` does not answer
`Out.unsupported`): `manual` only on a `StateHook` (a plain `Hook` is not callable: there is no method to run; the
hypothesis `hkind` of `gen_manual`), `mk` of a `StateHook` with exactly one position.  Nothing else is excluded.
`supB` / `supRunB` are executable forms (`supB_sound`, `supRunB_sound`) used by the non-vacuity examples.

Nothing resisted: there is no unproved statement.  This file uses core tactics only; it imports `Props/C16.lean` (which
imports Mathlib modules for its part 2) solely to compose with `run_refines` and `fires_iff`.
-/
set_option linter.unusedSimpArgs false
set_option linter.unusedVariables false
namespace InfernoVerif.Gen.HookProg
open InfernoVerif.Hooks InfernoVerif.Gen.HookPrelude

/-! ## The generated state between operations -/

/-- state of the regenerated programs between two operations: the hooked module (its dictionaries hold the registered
callables themselves) and the heap of hook objects with their private fields -/
structure GS where
  module : TorchModule
  heap   : List Hook
deriving DecidableEq, Repr

/-- abstraction: generated state → state of the hand-written machine (`modState` of the glue file) -/
def absG (g : GS) : State := modState g.module g.heap

/-- the part of well-formedness the abstraction forgets: the callable invariant `CbOK` of the glue file -/
def Inv (g : GS) : Prop := CbOK g.module

/-- well-formedness of a generated state: the callable invariant and the machine's invariant `Hooks.WF` (the hypothesis
of `step_refines` / `run_refines`) on the abstraction -/
def GWF (g : GS) : Prop := Inv g ∧ WF (absG g)

/-- entering a method of hook object `i`: its private fields `hk` are loaded as `self` -/
def load (g : GS) (i : Nat) (hk : Hook) : HW := ⟨g.module, g.heap, i, hk⟩

/-- leaving a method: `self`'s private fields are written back to the heap -/
def store (w : HW) : GS := ⟨w.module, w.heap.set w.me w.obj⟩

/-- concretisation of a model state (used only for the operations that are the model's): entries of `pre` are prehook
callables, entries of `post` posthook callables -/
def ofS (s : State) : GS := ⟨modOf s, s.hooks⟩

/-- `store` is what the abstraction `toM` of the glue file does -/
theorem absG_store (w : HW) : absG (store w) = toM w := rfl

/-- loading the fields the heap holds for hook `i` does not change the abstract state -/
theorem toM_load (g : GS) (i : Nat) (hk : Hook) (h : g.heap[i]? = some hk) : toM (load g i hk) = absG g := by
  have hi : i < g.heap.length := by
    rcases Nat.lt_or_ge i g.heap.length with hlt | hge
    · exact hlt
    · simp [List.getElem?_eq_none hge] at h
  have hget : g.heap[i] = hk := by
    simp only [List.getElem?_eq_getElem hi, Option.some.injEq] at h
    exact h
  simp [toM, load, absG, ← hget]

/-- the hypothesis `hme` of the glue theorems holds in a loaded world -/
theorem load_me (g : GS) (i : Nat) (hk : Hook) (h : g.heap[i]? = some hk) :
    (load g i hk).me < (load g i hk).heap.length := by
  rcases Nat.lt_or_ge i g.heap.length with hlt | hge
  · exact hlt
  · simp [List.getElem?_eq_none hge] at h

/-- every model state is the abstraction of its concretisation -/
theorem absG_ofS (s : State) : absG (ofS s) = s := by
  obtain ⟨tr, nid, pre, post, hooks⟩ := s
  simp [absG, ofS, modOf, modState, absD, Function.comp_def]

/-- … and the concretisation satisfies the callable invariant -/
theorem ofS_inv (s : State) : Inv (ofS s) := by
  constructor <;> (intro e he; simp only [ofS, modOf, List.mem_map] at he; obtain ⟨x, -, rfl⟩ := he; rfl)

/-! ## Dispatch of the operation alphabet, one step -/

/-- run one regenerated method to its end: new generated state and converted output; an exception carries the world at
the raise, which is stored likewise (Python keeps the assignments made before a `raise`) -/
def exec1 {α : Type} (f : α → Out) : Except (Err × HW) (HW × α) → GS × Out
  | .ok (w', a) => (store w', f a)
  | .error (e, w') => (store w', .err e)

/-- `lift` of the glue theorems is `exec1` followed by the abstraction of the state -/
theorem lift_exec1 {α : Type} (f : α → Out) (x : Except (Err × HW) (HW × α)) :
    lift f x = (absG (exec1 f x).1, (exec1 f x).2) := by
  cases x with
  | error e => rfl
  | ok r => rfl

/-- MIXED RUN: an operation with no regenerated method is executed by the hand-written model's own step -/
def modelStep (g : GS) (op : Op) : GS × Out := (ofS (step (absG g) op).1, (step (absG g) op).2)

/-- dispatcher of the operations addressing hook object `i`: no such object, or an object that is gone — no code runs,
state unchanged, `Out.noref`; otherwise `k` runs on its private fields -/
def onHook (g : GS) (i : Nat) (k : Hook → GS × Out) : GS × Out :=
  match g.heap[i]? with
  | none => (g, .noref)
  | some hk => if hk.alive then k hk else (g, .noref)

/-- what a wrapped hook that returned `r` shows: it ran the user callable of position `p` on hook `target`, or nothing -/
def evOf (target : Nat) : Option Pos → List Ev
  | some p => [Ev.hook target p]
  | none => []

/-- torch runs the entries of one hook dictionary in order (`callEntry` of the glue file: the weak-reference lambda, then
the regenerated wrapped hook); the first exception aborts -/
def callEntries (m : TorchModule) (heap : List Hook) : List (Nat × Callback) → Except Err (List Ev)
  | [] => .ok []
  | e :: l =>
    match callEntry m heap e.2 with
    | .error err => .error err
    | .ok r =>
      match callEntries m heap l with
      | .error err => .error err
      | .ok evs => .ok (evOf e.2.target r ++ evs)

/-- `module(...)`: `_forward_pre_hooks`, `forward`, `_forward_hooks` -/
def genCall (g : GS) : Out :=
  match callEntries g.module g.heap g.module.pre with
  | .error e => .err e
  | .ok a =>
    match callEntries g.module g.heap g.module.post with
    | .error e => .err e
    | .ok b => .trace (a ++ [Ev.fwd] ++ b)

/-- the last strong reference to the alive hook object `i` is dropped: the finaliser, if attached, runs the regenerated
`_detach_handles` (`collect` of the glue file), then the object is gone -/
def genDelete (g : GS) (i : Nat) (hk : Hook) : GS × Out :=
  match collect g.module hk with
  | .ok (m', _) => (⟨m', g.heap.set i { hk with alive := false, preH := none, postH := none, fin := none }⟩, .ok)
  | .error (e, m') => (⟨m', g.heap⟩, .err e)

/-- dispatch of the machine's operation alphabet to the regenerated method it names, with the output conversions of the
glue theorems; returns the NEW generated state (see the header for the parts that are not regenerated text) -/
def genExec (g : GS) : Op → GS × Out
  | .mk cfg tr ev => modelStep g (.mk cfg tr ev)
  | .setMode b => modelStep g (.setMode b)
  | .register i => onHook g i fun hk =>
      match hk.cfg.kind with
      | .plain => exec1 (fun _ => Out.ok) (Hook_register (load g i hk))
      | .state => exec1 (fun _ => Out.ok) (StateHook_register (load g i hk))
  | .deregister i => onHook g i fun hk => exec1 (fun _ => Out.ok) (Hook_deregister (load g i hk))
  | .call => (g, genCall g)
  | .manual i force ignoreMode => onHook g i fun hk =>
      match hk.cfg.kind with
      | .plain => (g, .unsupported)
      | .state => exec1 (fun n => Out.fired (n == 1)) (StateHook_forward (load g i hk) force ignoreMode)
  | .setTrainexec i v => onHook g i fun hk => exec1 (fun _ => Out.ok) (Hook_trainexec_setter (load g i hk) v)
  | .setEvalexec i v => onHook g i fun hk => exec1 (fun _ => Out.ok) (Hook_evalexec_setter (load g i hk) v)
  | .delete i => onHook g i fun hk => genDelete g i hk

/-- the domain, evaluated at the current state `g`: a `StateHook` is constructed for exactly one position, and only a
`StateHook` is called by hand (where `Hooks.step` does not answer `Out.unsupported`) -/
def Sup (g : GS) : Op → Prop
  | .mk cfg _ _ => cfg.kind = .state → cfg.hasPre ≠ cfg.hasPost
  | .manual i _ _ => ∀ hk, g.heap[i]? = some hk → hk.alive = true → hk.cfg.kind = .state
  | _ => True

/-! ## The module call -/

/-- `dangling` on a non-empty dictionary -/
theorem dangling_cons (s : State) (e : Nat × Nat) (l : List (Nat × Nat)) :
    dangling s (e :: l) = (entryFires s e == none || dangling s l) := rfl

/-- `firedOf` on a non-empty dictionary -/
theorem firedOf_cons (s : State) (e : Nat × Nat) (l : List (Nat × Nat)) (p : Pos) :
    firedOf s (e :: l) p = (if entryFires s e == some true then [Ev.hook e.2 p] else []) ++ firedOf s l p := by
  unfold firedOf
  by_cases h : (entryFires s e == some true) = true <;> simp [List.filter_cons, h]

/-- running a dictionary whose callables all carry position `p` through the regenerated wrapped hooks: `AttributeError`
iff the model sees a dangling entry, otherwise exactly the model's `firedOf` events, in order (from `gen_entry`) -/
theorem callEntries_eq (m : TorchModule) (heap : List Hook) (p : Pos) (l : List (Nat × Callback))
    (hl : ∀ e ∈ l, e.2.pos = p) :
    callEntries m heap l =
      if dangling (modState m heap) (absD l) then .error .AttributeError
      else .ok (firedOf (modState m heap) (absD l) p) := by
  induction l with
  | nil => rfl
  | cons e l ih =>
    have ih' := ih (fun x hx => hl x (List.mem_cons_of_mem _ hx))
    have hp : e.2.pos = p := hl e List.mem_cons_self
    have hc : absD (e :: l) = (e.1, e.2.target) :: absD l := rfl
    rw [hc, dangling_cons, firedOf_cons]
    simp only [callEntries, gen_entry m heap e.1 e.2, ih']
    cases hf : entryFires (modState m heap) (e.1, e.2.target) with
    | none => rfl
    | some b =>
      cases hd : dangling (modState m heap) (absD l)
      · cases b <;> simp [evOf, hp]
      · cases b <;> simp

/-- a module call executed through the regenerated wrapped hooks is the model's `callTrace` (same events in the same
order, `AttributeError` in the same cases), on every state satisfying the callable invariant -/
theorem gen_call (g : GS) (h : Inv g) : genCall g = callTrace (absG g) := by
  unfold genCall callTrace
  rw [callEntries_eq g.module g.heap .pre g.module.pre h.pre, callEntries_eq g.module g.heap .post g.module.post h.post]
  show _ = if dangling (absG g) (absD g.module.pre) || dangling (absG g) (absD g.module.post) then _ else
    Out.trace (firedOf (absG g) (absD g.module.pre) .pre ++ [Ev.fwd] ++ firedOf (absG g) (absD g.module.post) .post)
  show (match (if dangling (absG g) (absD g.module.pre) then _ else _ : Except Err (List Ev)) with
    | .error e => Out.err e
    | .ok a => match (if dangling (absG g) (absD g.module.post) then _ else _ : Except Err (List Ev)) with
      | .error e => Out.err e
      | .ok b => Out.trace (a ++ [Ev.fwd] ++ b)) = _
  cases dangling (absG g) (absD g.module.pre) <;> cases dangling (absG g) (absD g.module.post) <;> rfl

/-! ## Frame lemmas: every regenerated method preserves `Inv` -/

/-- frame lemma: when the regenerated `Hook.register` raises, the world at the raise is the world it started in (the
`raise` sits before every assignment) -/
theorem register_err (w w' : HW) (e : Err) (hr : Hook_register w = .error (e, w')) : w' = w := by
  rcases w with ⟨⟨tr, nid, pre, post⟩, heap, me, ⟨⟨kind, hasPre, hasPost, pp, pq⟩, te, ee, al, ph, qh, fin⟩⟩
  simp only [Hook_register, gen_registered, bind, Except.bind, pure, Except.pure, Hook.registered] at hr
  cases ph <;> cases qh <;>
    simp [throw, throwThe, MonadExceptOf.throw] at hr <;> try exact hr.2.symm
  all_goals
    cases hasPre <;> cases hasPost <;> cases pp <;> cases pq <;> cases fin <;>
      simp [register_forward_pre_hook, register_forward_hook, weakref_ref, weakref_finalize, finalizer_detach,
        handleOf, argtest_instance_Module, bind, Except.bind, pure, Except.pure] at hr

/-- frame lemma: `Hook.register` (regenerated body), returning or raising, preserves `Inv` -/
theorem register_inv (w : HW) (h : CbOK w.module) : Inv (exec1 (fun _ => Out.ok) (Hook_register w)).1 := by
  cases hr : Hook_register w with
  | ok r => obtain ⟨w', u⟩ := r; exact (gen_register_cb w w' u h hr).1
  | error r => obtain ⟨e, w'⟩ := r; rw [register_err w w' e hr]; exact h

/-- frame lemma: `StateHook.register` preserves `Inv` (the call `Hook.register`, or nothing) -/
theorem state_register_inv (w : HW) (h : CbOK w.module) :
    Inv (exec1 (fun _ => Out.ok) (StateHook_register w)).1 := by
  have := register_inv w h
  simp only [StateHook_register, gen_registered, bind, Except.bind, pure, Except.pure]
  cases w.obj.registered
  · simp only [Bool.not_false, if_true]
    cases hr : Hook_register w with
    | ok r => rw [hr] at this; exact this
    | error r => rw [hr] at this; exact this
  · exact h

/-- the regenerated `Hook.deregister` never raises -/
theorem deregister_ok (w : HW) : ∃ w', Hook_deregister w = .ok (w', ()) := by
  rcases w with ⟨⟨tr, nid, pre, post⟩, heap, me, ⟨cfg, te, ee, al, ph, qh, fin⟩⟩
  simp only [Hook_deregister, gen_detach, viaModule, bind, Except.bind, pure, Except.pure]
  cases fin <;> simp

/-- frame lemma: `Hook.deregister` preserves `Inv` -/
theorem deregister_inv (w : HW) (h : CbOK w.module) : Inv (exec1 (fun _ => Out.ok) (Hook_deregister w)).1 := by
  obtain ⟨w', hr⟩ := deregister_ok w
  rw [hr]
  exact (gen_deregister_cb w w' () h hr).1

/-- frame lemma: `StateHook.forward` preserves `Inv` (it leaves the world as it was: `gen_manual_once`) -/
theorem manual_inv (w : HW) (h : CbOK w.module) (force ignoreMode : Bool) :
    Inv (exec1 (fun n => Out.fired (n == 1)) (StateHook_forward w force ignoreMode)).1 := by
  obtain ⟨n, hn, -⟩ := gen_manual_once w force ignoreMode
  rw [hn]; exact h

/-- collection of an alive hook object: `genDelete` (regenerated finaliser, then the object is gone), abstracted, is the
`.delete` step of the machine, and it preserves `Inv` (from `gen_finalizer`) -/
theorem delete_eq (g : GS) (i : Nat) (hk : Hook) (hi : g.heap[i]? = some hk) (hal : hk.alive = true) :
    (absG (genDelete g i hk).1, (genDelete g i hk).2) = step (absG g) (.delete i) ∧
    (Inv g → Inv (genDelete g i hk).1) := by
  obtain ⟨m', h1, h2, h3⟩ := gen_finalizer g.module g.heap i hk hi hal
  refine ⟨?_, ?_⟩
  · show _ = step (modState g.module g.heap) (.delete i)
    rw [h3]; simp only [genDelete, h1]; rfl
  · intro h; simp only [genDelete, h1]; exact h2 h

/-! ## One step -/

/-- the dispatcher `onHook` against a case of `Hooks.step` addressing hook `i`: the machine answers `noref` on a
missing or dead object, and on an alive one the continuation is the step -/
theorem onHook_eq (g : GS) (i : Nat) (k : Hook → GS × Out) (op : Op)
    (hnone : (absG g).hooks[i]? = none → step (absG g) op = (absG g, .noref))
    (hdead : ∀ hk, (absG g).hooks[i]? = some hk → hk.alive = false → step (absG g) op = (absG g, .noref))
    (hlive : ∀ hk, g.heap[i]? = some hk → hk.alive = true → (absG (k hk).1, (k hk).2) = step (absG g) op) :
    (absG (onHook g i k).1, (onHook g i k).2) = step (absG g) op := by
  unfold onHook
  cases hi : g.heap[i]? with
  | none => exact (hnone hi).symm
  | some hk =>
    cases hal : hk.alive
    · simpa [hal] using (hdead hk hi hal).symm
    · simpa [hal] using hlive hk hi hal

/-- one dispatched operation of the regenerated programs, abstracted, is one step of the hand-written machine (the
`gen_*` glue theorems collected over the operation alphabet; `mk` / `setMode` are the model's own step) -/
theorem gen_step_eq (g : GS) (h : GWF g) (op : Op) (hs : Sup g op) :
    (absG (genExec g op).1, (genExec g op).2) = step (absG g) op := by
  cases op with
  | mk cfg tr ev => simp only [genExec, modelStep, absG_ofS]
  | setMode b => simp only [genExec, modelStep, absG_ofS]
  | call => simp only [genExec, gen_call g h.1, step]
  | register i =>
    apply onHook_eq
    · intro hn; simp only [step, hn]
    · intro hk hi hal; simp only [step, hi, hal]; rfl
    · intro hk hi hal
      have e := toM_load g i hk hi
      cases hkind : hk.cfg.kind with
      | plain => simp only [← lift_exec1]; rw [← e]; exact gen_register (load g i hk) (load_me g i hk hi) hal hkind
      | state =>
        simp only [← lift_exec1]; rw [← e]; exact gen_state_register (load g i hk) (load_me g i hk hi) hal hkind
  | deregister i =>
    apply onHook_eq
    · intro hn; simp only [step, hn]
    · intro hk hi hal; simp only [step, hi, hal]; rfl
    · intro hk hi hal
      simp only [← lift_exec1]; rw [← toM_load g i hk hi]
      exact gen_deregister (load g i hk) (load_me g i hk hi) hal
  | manual i f im =>
    apply onHook_eq
    · intro hn; simp only [step, hn]
    · intro hk hi hal; simp only [step, hi, hal]; rfl
    · intro hk hi hal
      have hkind := hs hk hi hal
      simp only [hkind, ← lift_exec1]; rw [← toM_load g i hk hi]
      exact gen_manual (load g i hk) (load_me g i hk hi) hal hkind f im
  | setTrainexec i v =>
    apply onHook_eq
    · intro hn; simp only [step, hn]
    · intro hk hi hal; simp only [step, hi, hal]; rfl
    · intro hk hi hal
      simp only [← lift_exec1]; rw [← toM_load g i hk hi]
      exact gen_set_trainexec (load g i hk) (load_me g i hk hi) hal v
  | setEvalexec i v =>
    apply onHook_eq
    · intro hn; simp only [step, hn]
    · intro hk hi hal; simp only [step, hi, hal]; rfl
    · intro hk hi hal
      simp only [← lift_exec1]; rw [← toM_load g i hk hi]
      exact gen_set_evalexec (load g i hk) (load_me g i hk hi) hal v
  | delete i =>
    apply onHook_eq
    · intro hn; simp only [step, hn]
    · intro hk hi hal; simp only [step, hi, hal]; rfl
    · intro hk hi hal
      exact (delete_eq g i hk hi hal).1

/-- `Inv` along the dispatcher `onHook`: kept when no code runs, otherwise whenever the continuation gives it -/
theorem onHook_inv (g : GS) (h : Inv g) (i : Nat) (k : Hook → GS × Out)
    (hk : ∀ hk, g.heap[i]? = some hk → hk.alive = true → Inv (k hk).1) : Inv (onHook g i k).1 := by
  unfold onHook
  cases hi : g.heap[i]? with
  | none => exact h
  | some x =>
    cases hal : x.alive
    · simpa [hal] using h
    · simpa [hal] using hk x hi hal

/-- every operation preserves `Inv` (the frame lemmas collected over the operation alphabet) -/
theorem gen_step_inv (g : GS) (h : Inv g) (op : Op) : Inv (genExec g op).1 := by
  cases op with
  | mk cfg tr ev => exact ofS_inv _
  | setMode b => exact ofS_inv _
  | call => exact h
  | register i =>
    apply onHook_inv g h
    intro hk hi hal
    cases hkind : hk.cfg.kind with
    | plain => exact register_inv (load g i hk) h
    | state => exact state_register_inv (load g i hk) h
  | deregister i => exact onHook_inv g h i _ fun hk hi hal => deregister_inv (load g i hk) h
  | manual i f im =>
    apply onHook_inv g h
    intro hk hi hal
    cases hkind : hk.cfg.kind with
    | plain => exact h
    | state => exact manual_inv (load g i hk) h f im
  | setTrainexec i v => exact onHook_inv g h i _ fun hk hi hal => h
  | setEvalexec i v => exact onHook_inv g h i _ fun hk hi hal => h
  | delete i => exact onHook_inv g h i _ fun hk hi hal => (delete_eq g i hk hi hal).2 h

/-- the regenerated programs preserve `GWF`: after any supported operation — successful or raising — the generated state
is again well formed, so the hypotheses of `gen_step_eq` and of the model's refinement hold along a whole execution -/
theorem gen_step_wf (g : GS) (h : GWF g) (op : Op) (hs : Sup g op) : GWF (genExec g op).1 := by
  refine ⟨gen_step_inv g h.1 op, ?_⟩
  have e := gen_step_eq g h op hs
  have w := step_wf (absG g) h.2 op
  rw [← e] at w
  exact w

/-! ## Operation sequences -/

/-- fold of `genExec` over an operation list, collecting the outputs -/
def genRun (g : GS) : List Op → GS × List Out
  | [] => (g, [])
  | op :: ops => let (g', o) := genExec g op; let (g'', os) := genRun g' ops; (g'', o :: os)

/-- the outputs of `genRun` as the specification sees them (the analogue of `Hooks.runAbs`): a module-call trace is read
as "how often did each of the hooks existing at that moment run in each position" (`Out.abs`) -/
def genRunAbs (g : GS) : List Op → List Out
  | [] => []
  | op :: ops => (genExec g op).2.abs g.heap.length :: genRunAbs (genExec g op).1 ops

/-- `Sup` along a run: every operation is supported at the state the regenerated programs have reached -/
def SupRun (g : GS) : List Op → Prop
  | [] => True
  | op :: ops => Sup g op ∧ SupRun (genExec g op).1 ops

/-- the state component of the machine's `run` is `exec` -/
theorem run_fst (s : State) (ops : List Op) : (run s ops).1 = exec s ops := by
  induction ops generalizing s with
  | nil => rfl
  | cons op ops ih => simp only [run, exec, List.foldl_cons]; exact ih _

/-- the state component of the specification's `srun` is `sexec` -/
theorem srun_fst (s : SState) (ops : List Op) : (srun s ops).1 = sexec s ops := by
  induction ops generalizing s with
  | nil => rfl
  | cons op ops ih => simp only [srun, sexec, List.foldl_cons]; exact ih _

/-- for every operation list supported along the run, the regenerated programs and the hand-written machine `run` produce
the same abstract final state and the same outputs (module-call traces with their event order), hence the same
outputs as the specification sees them, and the final generated state is well formed -/
theorem gen_run_eq (ops : List Op) (g : GS) (h : GWF g) (hs : SupRun g ops) :
    (absG (genRun g ops).1, (genRun g ops).2) = run (absG g) ops ∧
    genRunAbs g ops = runAbs (absG g) ops ∧ GWF (genRun g ops).1 := by
  induction ops generalizing g with
  | nil => exact ⟨rfl, rfl, h⟩
  | cons op ops ih =>
    obtain ⟨hs1, hs2⟩ := hs
    have e := gen_step_eq g h op hs1
    obtain ⟨i1, i2, i3⟩ := ih (genExec g op).1 (gen_step_wf g h op hs1) hs2
    refine ⟨?_, ?_, i3⟩
    · simp only [genRun, run]
      rw [← e]
      simp only []
      rw [← i1]
    · simp only [genRunAbs, runAbs]
      rw [← e]
      simp only []
      rw [i2]
      rfl

/-- CAPSTONE: for EVERY finite sequence of supported operations, started in any well-formed generated state, the programs
regenerated from /repo's `Hook` / `StateHook` return what the specification machine of C16 returns (module calls
compared as per-hook, per-position run counts, as in `run_refines`), end in the abstraction relation with it, and end
well formed -/
theorem gen_run_refines (ops : List Op) (g : GS) (h : GWF g) (hs : SupRun g ops) :
    sabs (absG (genRun g ops).1) = (srun (sabs (absG g)) ops).1 ∧
    genRunAbs g ops = (srun (sabs (absG g)) ops).2 ∧
    GWF (genRun g ops).1 := by
  obtain ⟨e, a, w⟩ := gen_run_eq ops g h hs
  obtain ⟨r1, r2⟩ := run_refines ops (absG g) h.2
  have e1 : absG (genRun g ops).1 = exec (absG g) ops := by
    rw [← run_fst, ← e]
  exact ⟨by rw [e1, r1, srun_fst], by rw [a, r2], w⟩

/-- the empty module: training mode, no handle issued yet, no hook object -/
def gInit : GS := ⟨⟨true, 0, [], []⟩, []⟩

/-- the empty module is well formed (its abstraction is the machine's `init`) -/
theorem gInit_wf : GWF gInit := by
  refine ⟨⟨?_, ?_⟩, init_wf⟩
  · intro e he; cases he
  · intro e he; cases he

/-- the capstone from the empty module: every supported program over the operation alphabet, executed by the regenerated
methods, returns what the specification returns from its initial state -/
theorem gen_run_refines_init (ops : List Op) (hs : SupRun gInit ops) :
    sabs (absG (genRun gInit ops).1) = (srun sinit ops).1 ∧
    genRunAbs gInit ops = (srun sinit ops).2 ∧
    GWF (genRun gInit ops).1 :=
  gen_run_refines ops gInit gInit_wf hs

/-- THE PROPERTY on the regenerated programs (`fires_iff` transported): after ANY supported operation list from the empty
module, a module call executed through the regenerated wrapped hooks runs `forward` once, every pre-position hook
before it and every post-position hook after it, runs hook `h` in position `p` exactly once if `h` is registered ∧
alive ∧ configured for `p` ∧ enabled for the module's current mode and not at all otherwise, and leaves the generated
state unchanged -/
theorem gen_fires_iff (ops : List Op) (hs : SupRun gInit ops) :
    let g := (genRun gInit ops).1
    ∃ pres posts, genExec g .call = (g, .trace (pres ++ [Ev.fwd] ++ posts)) ∧
      (∀ ev ∈ pres, ∃ h, ev = Ev.hook h .pre) ∧ (∀ ev ∈ posts, ∃ h, ev = Ev.hook h .post) ∧
      (∀ h hk p, g.heap[h]? = some hk →
        countEv (pres ++ [Ev.fwd] ++ posts) h p =
          if hk.registered = true ∧ hk.alive = true ∧ hk.cfg.has p = true ∧ hk.enabled g.module.training = true
          then 1 else 0) ∧
      (∀ h p, g.heap[h]? = none → countEv (pres ++ [Ev.fwd] ++ posts) h p = 0) := by
  intro g
  obtain ⟨e, -, w⟩ := gen_run_eq ops gInit gInit_wf hs
  have e1 : absG g = exec init ops := by
    show absG (genRun gInit ops).1 = exec (absG gInit) ops
    rw [← run_fst, ← e]
  obtain ⟨pres, posts, h1, h2, h3, h4, h5⟩ := fires_iff ops
  rw [← e1] at h1 h4 h5
  refine ⟨pres, posts, ?_, h2, h3, h4, h5⟩
  have hc : callTrace (absG g) = .trace (pres ++ [Ev.fwd] ++ posts) := by
    have := congrArg Prod.snd h1
    simpa [step] using this
  simp only [genExec, gen_call g w.1, hc]

/-! ## Executable form of the domain (for the examples) -/

/-- executable form of `Sup` -/
def supB (g : GS) : Op → Bool
  | .mk cfg _ _ => cfg.kind != .state || cfg.hasPre != cfg.hasPost
  | .manual i _ _ =>
    match g.heap[i]? with
    | some hk => !hk.alive || hk.cfg.kind == .state
    | none => true
  | _ => true

/-- the executable check implies `Sup` -/
theorem supB_sound (g : GS) (op : Op) (h : supB g op = true) : Sup g op := by
  cases op with
  | mk cfg tr ev =>
    intro hk
    simpa [supB, hk] using h
  | manual i f im =>
    intro hk hi hal
    simpa [supB, hi, hal] using h
  | _ => trivial

/-- executable form of `SupRun` -/
def supRunB (g : GS) : List Op → Bool
  | [] => true
  | op :: ops => supB g op && supRunB (genExec g op).1 ops

/-- the executable check implies `SupRun` -/
theorem supRunB_sound (ops : List Op) (g : GS) (h : supRunB g ops = true) : SupRun g ops := by
  induction ops generalizing g with
  | nil => trivial
  | cons op ops ih =>
    simp only [supRunB, Bool.and_eq_true] at h
    exact ⟨supB_sound g op h.1, ih _ h.2⟩

/-! ## Non-vacuity: concrete operation lists inside the domain, run by the regenerated programs -/

/-- from the empty module: a plain hook for both positions, a train-only post `StateHook` (prepended), an eval-only pre
`StateHook` (prepended), a rejected constructor; registrations, calls in both modes, a rejected and an ignored second
registration, manual calls under all gates, a flag assignment, collection of a registered object (its finaliser removes
the handle), operations on the collected object (`noref`), double deregistration, a missing index, re-registration -/
def exOps0 : List Op :=
  [.mk cfgA true true, .mk cfgB true false, .mk cfgC false true, .mk ⟨.plain, false, false, false, false⟩ true true,
   .register 0, .register 1, .register 2, .call, .setMode false, .call, .register 0, .register 2,
   .manual 1 false false, .manual 1 false true, .setEvalexec 1 true, .manual 1 false false, .call,
   .delete 1, .call, .deregister 1, .register 1, .manual 1 true true, .deregister 0, .deregister 0, .call,
   .manual 2 false true, .deregister 2, .manual 2 false true, .manual 2 true false, .setTrainexec 7 true,
   .register 2]

/-- from the state `exOps0` ends in (one registered hook, non-empty dictionary, ids in use): mode switches, calls,
registration of old and new objects, two collections of the same object, a flag assignment -/
def exOps1 : List Op :=
  [.setMode true, .call, .register 0, .call, .mk cfgB false true, .register 3, .setMode false, .call, .delete 0,
   .delete 0, .call, .setTrainexec 2 true, .setMode true, .call]

example : SupRun gInit exOps0 := supRunB_sound _ _ (by decide)
example : SupRun (genRun gInit exOps0).1 exOps1 := supRunB_sound _ _ (by decide)

/-- what the regenerated programs return on the first list -/
example : (genRun gInit exOps0).2 =
    [.idx 0, .idx 1, .idx 2, .err .RuntimeError, .ok, .ok, .ok,
     .trace [.hook 0 .pre, .fwd, .hook 1 .post, .hook 0 .post], .ok,
     .trace [.hook 2 .pre, .hook 0 .pre, .fwd, .hook 0 .post], .err .RuntimeError, .ok,
     .fired false, .fired true, .ok, .fired true,
     .trace [.hook 2 .pre, .hook 0 .pre, .fwd, .hook 1 .post, .hook 0 .post], .ok,
     .trace [.hook 2 .pre, .hook 0 .pre, .fwd, .hook 0 .post], .noref, .noref, .noref, .ok, .ok,
     .trace [.hook 2 .pre, .fwd], .fired true, .ok, .fired false, .fired true, .noref, .ok] := by decide

/-- the generated state it ends in: one prehook callable of hook 2 under the fifth handle id -/
example : (genRun gInit exOps0).1.module = ⟨false, 5, [(4, ⟨2, .pre⟩)], []⟩ := by decide

/-- … and on the second list, continuing from there -/
example : (genRun (genRun gInit exOps0).1 exOps1).2 =
    [.ok, .trace [.fwd], .ok, .trace [.hook 0 .pre, .fwd, .hook 0 .post], .idx 3, .ok, .ok,
     .trace [.hook 2 .pre, .hook 0 .pre, .fwd, .hook 3 .post, .hook 0 .post], .ok, .noref,
     .trace [.hook 2 .pre, .fwd, .hook 3 .post], .ok, .ok, .trace [.hook 2 .pre, .fwd]] := by decide

/-- the capstone instantiated: on both lists the regenerated programs and the specification agree -/
example : genRunAbs gInit exOps0 = (srun sinit exOps0).2 :=
  (gen_run_refines_init exOps0 (supRunB_sound _ _ (by decide))).2.1
example : genRunAbs (genRun gInit exOps0).1 exOps1 =
    (srun (sabs (absG (genRun gInit exOps0).1)) exOps1).2 :=
  (gen_run_refines exOps1 _ (gen_run_refines_init exOps0 (supRunB_sound _ _ (by decide))).2.2
    (supRunB_sound _ _ (by decide))).2.1

/-- the domain is a real restriction: a manual call of the plain hook 0 and a `StateHook` for both positions are
outside it -/
example : ¬ Sup (genRun gInit exOps0).1 (.manual 0 true true) := by
  intro h
  have := h _ rfl rfl
  cases this
example : ¬ Sup gInit (.mk ⟨.state, true, true, false, false⟩ true true) := by
  intro h
  exact h rfl rfl

end InfernoVerif.Gen.HookProg
