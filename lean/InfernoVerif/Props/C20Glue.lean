import InfernoVerif.Model.InterpR
import InfernoVerif.Gen.InterpolationR
import InfernoVerif.Gen.ExtrapolationR
/-!
# Glue: the hand-written ℝ copies of the interpolation / extrapolation kernels used by
`Props/C20.lean` ARE the definitions regenerated from /repo's source on every run.

If a Python formula changes, the regenerated `Gen.*R` definition changes and the corresponding
theorem here stops checking (reported as a broken proof obligation of C20).
-/
namespace InfernoVerif.Interp.Glue
open InfernoVerif.Interp.R
open InfernoVerif.Gen
open Classical

theorem gen_interp_previous (p n s dt : ℝ) :
    InterpolationR.interp_previous p n s dt = interp_previous p n s dt := rfl
theorem gen_interp_next (p n s dt : ℝ) :
    InterpolationR.interp_next p n s dt = interp_next p n s dt := rfl
theorem gen_interp_nearest (p n s dt : ℝ) :
    InterpolationR.interp_nearest p n s dt = interp_nearest p n s dt := by
  unfold InterpolationR.interp_nearest interp_nearest; norm_num
theorem gen_interp_linear (p n s dt : ℝ) :
    InterpolationR.interp_linear p n s dt = interp_linear p n s dt := rfl
theorem gen_interp_expdecay (p n s dt τ : ℝ) :
    InterpolationR.interp_expdecay p n s dt τ = interp_expdecay p n s dt τ := rfl
theorem gen_interp_expratedecay (p n s dt k : ℝ) :
    InterpolationR.interp_expratedecay p n s dt k = interp_expratedecay p n s dt k := rfl

theorem gen_extrap_previous (x s p n dt : ℝ) :
    ExtrapolationR.extrap_previous x s p n dt = extrap_previous x s p n dt := rfl
theorem gen_extrap_next (x s p n dt : ℝ) :
    ExtrapolationR.extrap_next x s p n dt = extrap_next x s p n dt := rfl
theorem gen_extrap_neighbors (x s p n dt : ℝ) :
    ExtrapolationR.extrap_neighbors x s p n dt = extrap_neighbors x s p n dt := rfl
theorem gen_extrap_nearest (x s p n dt : ℝ) :
    ExtrapolationR.extrap_nearest x s p n dt = extrap_nearest x s p n dt := by
  unfold ExtrapolationR.extrap_nearest extrap_nearest; norm_num
theorem gen_extrap_linear_forward (x s p n dt : ℝ) (adj : Option (ℝ → ℝ)) :
    ExtrapolationR.extrap_linear_forward x s p n dt adj = extrap_linear_forward x s p n dt adj := by
  unfold ExtrapolationR.extrap_linear_forward extrap_linear_forward; cases adj <;> rfl
theorem gen_extrap_linear_backward (x s p n dt : ℝ) (adj : Option (ℝ → ℝ)) :
    ExtrapolationR.extrap_linear_backward x s p n dt adj = extrap_linear_backward x s p n dt adj := by
  unfold ExtrapolationR.extrap_linear_backward extrap_linear_backward; cases adj <;> rfl
theorem gen_extrap_expdecay (x s p n dt τ : ℝ) :
    ExtrapolationR.extrap_expdecay x s p n dt τ = extrap_expdecay x s p n dt τ := rfl
theorem gen_extrap_expratedecay (x s p n dt k : ℝ) :
    ExtrapolationR.extrap_expratedecay x s p n dt k = extrap_expratedecay x s p n dt k := rfl

end InfernoVerif.Interp.Glue
