import InfernoVerif.Props.C13GlueProg
import InfernoVerif.Props.C01Run
/-!
# C13, closing the loop: the programs regenerated from /repo refine the newest-first specification over EVERY operation sequence

`Props/C13GlueProg.lean` proves, method by method, that one run of a temporal-setter body / of `reconstrain` REGENERATED from
`inferno/core/infrastructure.py` (`Gen/RecordProg.lean`) on a well-formed private state `g` (`GWF g`), seen through the
abstraction `toM`, is one step of the hand-written machine `Record.step` — and (`gen_*_wf`) that these four programs keep
`GWF`.  `Props/C13.lean` proves that this machine refines the newest-first specification `Record.sstep` / `Record.srun` for
every operation list (`record_run_refines`) and obeys the size formula (`size_formula_inv`).  This file dispatches the WHOLE
operation alphabet of the machine, glues the operations the glue file did not cover, and composes everything:

* `genExec` dispatches `Record.Op` to the regenerated program it names and returns the NEW private state — whether the
  program returned or raised (`outState`: Python semantics, the state reached at the raise) — with `Out.unit` / `Out.err e`;
  `genRun` folds it over an operation list;
* `gen_step_eq`: one dispatched operation, abstracted with `toM`, is one `Record.step`; `gen_step_wf`: it PRESERVES `GWF`, so
  the hypothesis of the glue theorems holds along a whole execution;
* `gen_run_refines` is the capstone: for EVERY finite sequence of operations of the alphabet, started in any well-formed
  private state, what the regenerated programs return is what the newest-first specification machine returns, the final
  states are in the abstraction relation, and the final private state is again well formed (`gen_run_eq`: equality with
  the code-shaped machine `Record.run`).  `gen_run_size_formula` transports the size-formula invariant of `Props/C13.lean`
  to the private state of the regenerated programs.

Alphabet — all seven constructors of `Record.Op`, nothing excluded:
* `setDt`, `setDur`, `setIncl`, `recon`: the four programs of `Gen/RecordProg.lean` (glue theorems of `C13GlueProg`);
* `push`, `initz`: `RecordTensor.push` / `RecordTensor.initialize` ARE regenerated — in `Gen/RingProg.lean`, over the ring
  view `RT` of the state.  They are run here on the record exactly as the generated setters themselves run `self.align`:
  through the adapter `viaRT` of `Gen/RecordPrelude.lean` (ring view = data, pointer, `__recordsz`; data and pointer written
  back).  The new glue theorems `gen_push` / `gen_initz` are obtained by composing the C01 glue theorems
  (`RingProg.gen_push`, `RingProg.gen_initialize`: regenerated body = one `Ring.step`) with a model-to-model step
  (`ring_push_eq`, `ring_initz_eq`: on the record's ring view `Ring.step` and `Record.step` do the same thing);
* `assign` (`rt.value = None | torch.empty(0) | nn.UninitializedBuffer()`): there is NO regenerated method for the `value`
  setter.  MIXED RUN: this one operation is the MODEL's — `genExec` executes `Record.step` on `toM g` and maps the result
  back with the concretisation `ofM` (`toM (ofM g s) = s`; what `toM` forgets is taken from `g`; `ofM g (toM g) = g` on
  well-formed states).

What is assumed / abstracted, said explicitly:
* `IdElem E`: the element parameters of the ring programs are "conversion = identity, zero = 0".  `Model/Record.lean` has
  integer rows without dtypes (`Row = List Int`, `zeroRow`), so a dtype conversion on `push` or another `initialize` fill
  has no counterpart there.  The setters / `reconstrain` do not need the hypothesis (`align` converts nothing); it is used by
  `gen_push` / `gen_initz` only, and is carried by the step / run theorems because those cover the whole alphabet.
* `Record.Op.push` carries no dtype: the observation is pushed with the dtype tag of the storage object (`int64` for `None`
  storage); under `IdElem` the tag influences nothing `toM` sees.
* `viaRT` reports a raise of a ring program with the record state as it was before the call.  On well-formed states that
  is what happens: `push` raises only on initialised storage through `write`'s shape test, before any assignment
  (`RingProg.gen_push` shows the abstract state unchanged on every raise), `initialize` never raises.
* The returned values (`initialize` / `reconstrain` return a tensor) are not part of `Record.Out`; they are dropped.

Domain.  No side condition is needed by any glue theorem, so the step / run theorems have NO domain hypothesis.  `Sup` /
`SupRun` are nevertheless defined — as the part of the input space on which `Record.step` does not answer
`Out.unsupported`: everything except assigning an uninitialised buffer to parameter storage (`.assign .uninit` with
`param = true`, which the model does not describe).  `gen_run_supported`: along a run inside `SupRun` no output is
`Out.unsupported`, i.e. every equation of the capstone is about a described behaviour.  (`supB` / `supRunB`: executable
forms for the examples.)

Core Lean only.
-/
set_option linter.unusedSimpArgs false
set_option linter.unusedVariables false
namespace InfernoVerif.Gen.RecordProg
open InfernoVerif.Ring InfernoVerif.Shaped InfernoVerif.Gen InfernoVerif.Gen.Prog InfernoVerif.Gen.RecordPrelude
open InfernoVerif.Record (TimeOps recSize)

variable {τ α : Type}

/-! ## The ring view of a record: `push` / `initialize` of `Gen/RingProg.lean` run on a `RecT` -/

/-- element parameters matching `Model/Record.lean` (integer rows, no dtypes): conversion is the identity, zero is `0` -/
def IdElem (E : Elem Int) : Prop := E.zero = 0 ∧ ∀ a b v, E.conv a b v = v

/-- storage of the ring machine (`Model/RingOps.lean`) read as storage of the record machine: dtype tags dropped,
the ring split into (pointer, rows) -/
def recStore : InfernoVerif.Ring.MState Int → Record.Store (Nat × List Record.Row)
  | (_, .none) => .none
  | (_, .empty _) => .empty
  | (_, .uninit _) => .uninit
  | (_, .init _ sh r) => .init sh (r.ptr, r.data)

/-- outputs of the ring machine that `push` / `initialize` can produce, as outputs of the record machine -/
def recOut : InfernoVerif.Ring.Out Int → Record.Out
  | .unit => .unit
  | .err e => .err e
  | _ => .unsupported

/-- the ring view `viaRT` hands to a program of `Gen/RingProg.lean`: data, pointer, `__recordsz` -/
def rtView (g : RecT τ) (n : Nat) : RT Int := ⟨g.data, g.pointer, (n : Int)⟩

/-- the ring view of a well-formed record state is a well-formed ring state (hypothesis of the C01 glue theorems) -/
theorem rtView_gwf (g : RecT τ) (n : Nat) (hn : g.constraints.lookup 0 = some n) (h : GWF g) :
    RingProg.GWF (rtView g n) := by
  obtain ⟨n', hn', hpos, hd⟩ := h
  rw [hn] at hn'
  cases hn'
  refine ⟨by simp [rtView]; omega, ?_⟩
  simp only [rtView]
  cases hdat : g.data with
  | init d sh s => rw [hdat] at hd; simp only at hd ⊢; simp only [Int.toNat_natCast]; exact hd
  | _ => trivial

/-- writing the data and pointer of a ring state back into the record changes exactly the `store` of the abstraction -/
theorem toM_view (g : RecT τ) (r : RT Int) :
    toM { g with data := r.data, pointer := r.pointer } = { toM g with store := recStore (RingProg.toM r) } := by
  unfold toM RingProg.toM
  cases hd : r.data <;> simp [recStore]

/-- writing back the unchanged ring view changes nothing -/
theorem toM_self_view (g : RecT τ) (n : Nat) :
    ({ toM g with store := recStore (RingProg.toM (rtView g n)) } : Record.MState τ) = toM g := by
  unfold toM RingProg.toM rtView
  cases hd : g.data <;> simp [recStore]

/-- the ring view abstracts to a ring-machine state of `n` slots -/
theorem toM_rtView_fst (g : RecT τ) (n : Nat) : (RingProg.toM (rtView g n)).1 = n := by
  simp [RingProg.toM, rtView]

/-- the ring view abstracts to the storage of the record's abstraction -/
theorem recStore_rtView (g : RecT τ) (n : Nat) : recStore (RingProg.toM (rtView g n)) = (toM g).store := by
  unfold toM RingProg.toM rtView
  cases hd : g.data <;> simp [recStore]

/-- `viaRT`, abstracted: running a ring program `m` on the record through the adapter and abstracting with the record's
`lift` is abstracting `m`'s own result with the ring's `lift` (C01Glue) and storing it into the record's abstraction -/
theorem viaRT_lift (g : RecT τ) (n : Nat) (hn : g.constraints.lookup 0 = some n)
    (m : RT Int → Except Err (RT Int × α)) :
    lift (viaRT g m) =
      ({ toM g with store := recStore (RingProg.lift (rtView g n) (fun _ => Out.unit) (m (rtView g n))).1 },
        recOut (RingProg.lift (rtView g n) (fun _ => Out.unit) (m (rtView g n))).2) := by
  unfold viaRT recordsz
  rw [hn]
  simp only
  have e : (⟨g.data, g.pointer, (n : Int)⟩ : RT Int) = rtView g n := rfl
  rw [e]
  cases hm : m (rtView g n) with
  | error e => simp only [lift, RingProg.lift, recOut, toM_self_view]
  | ok r => obtain ⟨r, a⟩ := r; simp only [lift, RingProg.lift, recOut, toM_view]

/-- model to model, `push`: on a record state `s` with `n` slots and a ring-machine state `m` showing the same storage,
`Record.step … (.push xsh x b)` is `Ring.step … (.push ⟨dt, xsh, x⟩ b)` (any dtype tag `dt`) stored back into `s` —
same shape test and `ValueError`, same `initialize` of ignored storage to `n` zero rows, same ring `push` -/
theorem ring_push_eq (T : TimeOps τ) (E : Elem Int) (hE : IdElem E) (s : Record.MState τ) (n : Nat)
    (hn : s.cons.lookup 0 = some n) (m : InfernoVerif.Ring.MState Int) (h1 : m.1 = n)
    (hst : recStore m = s.store) (hr : ∀ d sh r, m.2 = .init d sh r → r.n = n)
    (dt : DType) (xsh : List Nat) (x : List Int) (b : Bool) :
    Record.step T s (.push xsh x b) =
      ({ s with store := recStore (Ring.step E m (.push ⟨dt, xsh, x⟩ b)).1 },
        recOut (Ring.step E m (.push ⟨dt, xsh, x⟩ b)).2) := by
  obtain ⟨hz, hc⟩ := hE
  obtain ⟨k, st⟩ := m
  simp only at h1
  subst h1
  have hmap : ∀ a b, List.map (E.conv a b) x = x := by
    intro a b
    have : E.conv a b = id := funext (hc a b)
    rw [this, List.map_id]
  cases s with
  | mk sdt sdur sincl scons sstrict sparam sstore =>
  simp only at hn hst
  subst hst
  cases st with
  | init d sh r =>
    obtain ⟨rn, p, rows⟩ := r
    have := hr d sh _ rfl
    simp only at this
    subst this
    by_cases hx : xsh = sh
    · subst hx
      simp [Record.step, Ring.step, hn, recStore, recOut, hmap]
    · simp [Record.step, Ring.step, hn, recStore, recOut, hmap, hx]
  | none =>
    simp [Record.step, Ring.step, hn, recStore, recOut, hmap, freshRing, Record.freshRows, Record.zeroRow, hz]
  | empty d =>
    simp [Record.step, Ring.step, hn, recStore, recOut, hmap, freshRing, Record.freshRows, Record.zeroRow, hz]
  | uninit d =>
    simp [Record.step, Ring.step, hn, recStore, recOut, hmap, freshRing, Record.freshRows, Record.zeroRow, hz]

/-- model to model, `initialize`: `Record.step … (.initz sh)` is `Ring.step … (.initz sh)` stored back into `s`
(`n` zero rows of shape `sh`, pointer `0`) -/
theorem ring_initz_eq (T : TimeOps τ) (E : Elem Int) (hE : IdElem E) (s : Record.MState τ) (n : Nat)
    (hn : s.cons.lookup 0 = some n) (m : InfernoVerif.Ring.MState Int) (h1 : m.1 = n) (sh : List Nat) :
    Record.step T s (.initz sh) =
      ({ s with store := recStore (Ring.step E m (.initz sh)).1 }, recOut (Ring.step E m (.initz sh)).2) := by
  obtain ⟨hz, hc⟩ := hE
  obtain ⟨k, st⟩ := m
  simp only at h1
  subst h1
  simp [Record.step, Ring.step, hn, recStore, recOut, freshRing, Record.freshRows, Record.zeroRow, hz]

/-- `rt.push(obs, inplace)` on the record: the regenerated `RingProg.RecordTensor_push` on the ring view (`viaRT`, as the
generated setters run `self.align`); the observation carries the dtype tag of the storage object (`int64` if none) -/
def pushProg (E : Elem Int) (g : RecT τ) (xsh : List Nat) (x : List Int) (inplace : Bool) :
    Except (Err × RecT τ) (RecT τ × Unit) :=
  viaRT g (fun rt_ => RingProg.RecordTensor_push E rt_ ⟨(storeDType g.data).getD true, xsh, x⟩ inplace)

/-- `rt.initialize(shape)` (default dtype `None`, fill `0`) on the record: the regenerated
`RingProg.RecordTensor_initialize` on the ring view -/
def initProg (E : Elem Int) (g : RecT τ) (sh : List Nat) :
    Except (Err × RecT τ) (RecT τ × Store (Stack Int)) :=
  viaRT g (fun rt_ => RingProg.RecordTensor_initialize E rt_ sh none E.zero)

/-- glue theorem for `push`: the regenerated body of `RecordTensor.push` (with the regenerated `initialize`, `write`,
`incr` it calls), run on a well-formed record state through `viaRT`, is one `Record.step … (.push xsh x inplace)` —
`ValueError` with the state unchanged on a shape mismatch, first-push initialisation of ignored storage included -/
theorem gen_push (T : TimeOps τ) (E : Elem Int) (hE : IdElem E) (g : RecT τ) (h : GWF g) (xsh : List Nat)
    (x : List Int) (inplace : Bool) :
    lift (pushProg E g xsh x inplace) = Record.step T (toM g) (.push xsh x inplace) := by
  obtain ⟨n, hn, hpos, hd⟩ := id h
  unfold pushProg
  rw [viaRT_lift g n hn, RingProg.gen_push E (rtView g n) (rtView_gwf g n hn h)]
  refine (ring_push_eq T E hE (toM g) n hn _ (toM_rtView_fst g n) (recStore_rtView g n) ?_ _ xsh x inplace).symm
  intro d sh r hr
  unfold RingProg.toM rtView at hr
  simp only at hr
  cases hdat : g.data <;> rw [hdat] at hr <;> simp at hr
  obtain ⟨-, -, rfl⟩ := hr
  rfl

/-- glue theorem for `initialize(shape)`: the regenerated body of `RecordTensor.initialize`, run on a well-formed record
state through `viaRT`, is one `Record.step … (.initz sh)` -/
theorem gen_initz (T : TimeOps τ) (E : Elem Int) (hE : IdElem E) (g : RecT τ) (h : GWF g) (sh : List Nat) :
    lift (initProg E g sh) = Record.step T (toM g) (.initz sh) := by
  obtain ⟨n, hn, hpos, hd⟩ := id h
  unfold initProg
  rw [viaRT_lift g n hn, RingProg.gen_initialize E (rtView g n)]
  exact (ring_initz_eq T E hE (toM g) n hn _ (toM_rtView_fst g n) sh).symm

/-- frame lemma for `viaRT`: if the ring program keeps the part `RingProg.Inv` of ring well-formedness (C01Run's frame
lemmas), the record keeps the part `DataOK` of `GWF` that `toM` forgets — returning or raising -/
theorem viaRT_dataOK (g : RecT τ) (hd : DataOK g) (n : Nat) (hn : g.constraints.lookup 0 = some n)
    (m : RT Int → Except Err (RT Int × α)) (hm : ∀ r, m (rtView g n) = .ok r → RingProg.Inv r.1) :
    DataOK (outState (viaRT g m)) := by
  unfold viaRT recordsz
  rw [hn]
  simp only
  have e : (⟨g.data, g.pointer, (n : Int)⟩ : RT Int) = rtView g n := rfl
  rw [e]
  cases hx : m (rtView g n) with
  | error e => exact hd
  | ok r =>
    obtain ⟨r, a⟩ := r
    have := (hm _ hx).2
    simp only [outState, DataOK] at this ⊢
    cases hdat : r.data with
    | init d sh s => rw [hdat] at this; exact this
    | _ => trivial

/-! ## Concretisation (for the one operation that is the model's own: `assign`) -/

/-- concretisation: the private state whose abstraction is `s`; what `toM` forgets — the dtype tag of the storage, the
pointer of ignored storage — is taken from `g` (`int64` when `g` has no storage object) -/
def ofM (g : RecT τ) (s : Record.MState τ) : RecT τ :=
  { dt := s.dt, duration := s.dur, inclusive := s.incl, constraints := s.cons, strict := s.strict,
    param := s.param,
    data := match s.store with
      | .none => .none
      | .empty => .empty ((storeDType g.data).getD true)
      | .uninit => .uninit ((storeDType g.data).getD true)
      | .init sh (_, rows) =>
        .init ((storeDType g.data).getD true) sh ⟨(storeDType g.data).getD true, sh, rows⟩,
    pointer := match s.store with
      | .init _ (p, _) => (p : Int)
      | _ => g.pointer }

/-- `ofM` is a right inverse of the abstraction -/
theorem toM_ofM (g : RecT τ) (s : Record.MState τ) : toM (ofM g s) = s := by
  cases s with
  | mk sdt sdur sincl scons sstrict sparam sstore =>
  cases sstore with
  | init sh d => obtain ⟨p, rows⟩ := d; simp [toM, ofM]
  | _ => simp [toM, ofM]

/-- a concretised state has the part of `GWF` that `toM` forgets -/
theorem ofM_dataOK (g : RecT τ) (s : Record.MState τ) : DataOK (ofM g s) := by
  cases s with
  | mk sdt sdur sincl scons sstrict sparam sstore =>
  cases sstore with
  | init sh d => obtain ⟨p, rows⟩ := d; simp [DataOK, ofM]
  | _ => simp [DataOK, ofM]

/-- on well-formed states `ofM g` is also a left inverse at `g`: a model step that leaves the abstract state alone
(a refused assignment) leaves the private state alone -/
theorem ofM_toM (g : RecT τ) (h : GWF g) : ofM g (toM g) = g := by
  obtain ⟨n, hn, hpos, hd⟩ := h
  cases g with
  | mk gdt gdur gincl gcons gstrict gparam gdata gptr =>
  cases gdata with
  | init d sh s =>
    obtain ⟨sd, so, rows⟩ := s
    simp only at hd
    obtain ⟨rfl, rfl, -, hp, -⟩ := hd
    simp [ofM, toM, storeDType, Int.toNat_of_nonneg hp]
  | _ => simp [ofM, toM, storeDType]

/-! ## Dispatch of the operation alphabet, one step -/

/-- run one regenerated program: the private state it ends in (returned or raised) and the machine's output -/
def exec1 (x : Except (Err × RecT τ) (RecT τ × α)) : RecT τ × Record.Out := (outState x, (lift x).2)

/-- `lift` of the glue theorems is `exec1` followed by the abstraction of the state -/
theorem lift_exec1 (x : Except (Err × RecT τ) (RecT τ × α)) : (toM (exec1 x).1, (exec1 x).2) = lift x := by
  cases x with
  | error e => rfl
  | ok r => rfl

/-- dispatch of the machine's operation alphabet: the four programs of `Gen/RecordProg.lean`; `push` / `initialize` of
`Gen/RingProg.lean` on the ring view; `assign` — no regenerated method — is the model's own step, concretised (mixed run) -/
def genExec (T : TimeOps τ) (E : Elem Int) (g : RecT τ) : Record.Op τ → RecT τ × Record.Out
  | .setDt v => exec1 (RecordTensor_set_dt T E g v)
  | .setDur v => exec1 (RecordTensor_set_duration T E g v)
  | .setIncl b => exec1 (RecordTensor_set_inclusive T E g b)
  | .recon dim size => exec1 (RecordTensor_reconstrain T E g dim size)
  | .push xsh x inplace => exec1 (pushProg E g xsh x inplace)
  | .initz sh => exec1 (initProg E g sh)
  | .assign k => (ofM g (Record.step T (toM g) (.assign k)).1, (Record.step T (toM g) (.assign k)).2)

/-- one dispatched operation of the regenerated programs, abstracted, is one step of the hand-written machine (the glue
theorems of `C13GlueProg` and `gen_push` / `gen_initz` collected over the whole operation alphabet; no side condition) -/
theorem gen_step_eq (T : TimeOps τ) (E : Elem Int) (hE : IdElem E) (g : RecT τ) (h : GWF g) (op : Record.Op τ) :
    (toM (genExec T E g op).1, (genExec T E g op).2) = Record.step T (toM g) op := by
  cases op with
  | setDt v => simp only [genExec, lift_exec1]; exact gen_set_dt T E g h v
  | setDur v => simp only [genExec, lift_exec1]; exact gen_set_duration T E g h v
  | setIncl b => simp only [genExec, lift_exec1]; exact gen_set_inclusive T E g h b
  | recon dim size => simp only [genExec, lift_exec1]; exact gen_reconstrain T E g h dim size
  | push xsh x b => simp only [genExec, lift_exec1]; exact gen_push T E hE g h xsh x b
  | initz sh => simp only [genExec, lift_exec1]; exact gen_initz T E hE g h sh
  | assign k => simp only [genExec, toM_ofM]

/-- every operation leaves the part `DataOK` of `GWF` that the abstraction forgets: the frame lemmas of `C13GlueProg` for
the setters and `reconstrain`, C01Run's `push_inv` / `initialize_inv` through `viaRT_dataOK`, `ofM_dataOK` for `assign` -/
theorem gen_step_dataOK (T : TimeOps τ) (E : Elem Int) (g : RecT τ) (h : GWF g) (op : Record.Op τ) :
    DataOK (genExec T E g op).1 := by
  cases op with
  | setDt v => exact set_dt_dataOK T E g h v
  | setDur v => exact set_duration_dataOK T E g h v
  | setIncl b => exact gwf_dataOK _ (gen_set_inclusive_wf T E g h b)
  | recon dim size => exact gwf_dataOK _ (gen_reconstrain_wf T E g h dim size)
  | push xsh x b =>
    obtain ⟨n, hn, hpos, hd⟩ := id h
    have hw := rtView_gwf g n hn h
    exact viaRT_dataOK g (gwf_dataOK g h) n hn _
      (fun r hr => RingProg.push_inv E (rtView g n) ((RingProg.gwf_iff _).1 hw).1 _ b r hr)
  | initz sh =>
    obtain ⟨n, hn, hpos, hd⟩ := id h
    have hw := rtView_gwf g n hn h
    exact viaRT_dataOK g (gwf_dataOK g h) n hn _
      (fun r hr => RingProg.initialize_inv E (rtView g n) ((RingProg.gwf_iff _).1 hw).1 sh none E.zero r hr)
  | assign k => exact ofM_dataOK g _

/-- the regenerated programs preserve `GWF`: after any operation — returning or raising — the private state is again
well formed (`MWF` of its abstraction from `gen_step_eq` and `record_step_refines`, the forgotten part from
`gen_step_dataOK`), so the hypothesis of the glue theorems holds along a whole execution -/
theorem gen_step_wf (T : TimeOps τ) (E : Elem Int) (hE : IdElem E) (g : RecT τ) (h : GWF g) (op : Record.Op τ) :
    GWF (genExec T E g op).1 := by
  refine gwf_of _ ?_ (gen_step_dataOK T E g h op)
  have e := gen_step_eq T E hE g h op
  have w := (Record.record_step_refines T (toM g) (toM_wf g h) op).2.2
  rw [← e] at w
  exact w

/-! ## Operation sequences -/

/-- fold of `genExec` over an operation list, collecting the outputs -/
def genRun (T : TimeOps τ) (E : Elem Int) (g : RecT τ) : List (Record.Op τ) → RecT τ × List Record.Out
  | [] => (g, [])
  | op :: ops =>
    let (g', o) := genExec T E g op
    let (g'', os) := genRun T E g' ops
    (g'', o :: os)

/-- for every operation list the regenerated programs and the hand-written machine `Record.run` produce the same abstract
final state and the same outputs, and the final private state is well formed -/
theorem gen_run_eq (T : TimeOps τ) (E : Elem Int) (hE : IdElem E) (ops : List (Record.Op τ)) (g : RecT τ)
    (h : GWF g) :
    (toM (genRun T E g ops).1, (genRun T E g ops).2) = Record.run T (toM g) ops ∧ GWF (genRun T E g ops).1 := by
  induction ops generalizing g with
  | nil => exact ⟨rfl, h⟩
  | cons op ops ih =>
    have e := gen_step_eq T E hE g h op
    obtain ⟨i1, i2⟩ := ih (genExec T E g op).1 (gen_step_wf T E hE g h op)
    simp only [genRun, Record.run]
    rw [← e]
    simp only []
    rw [← i1]
    exact ⟨rfl, i2⟩

/-- CAPSTONE: for EVERY finite sequence of operations (temporal setters, `reconstrain`, pushes, `initialize`, value
assignments, in any order, with any arguments, raising or not), started in any well-formed private state, for ANY way `T`
of computing `ceil(duration / dt)`: the programs regenerated from /repo's `RecordTensor` return exactly what the
newest-first specification machine returns (error classes included), end in the abstraction relation with it (the
observations newest first are the specification's list: resizing = truncate or zero-pad the old end), and end well formed -/
theorem gen_run_refines (T : TimeOps τ) (E : Elem Int) (hE : IdElem E) (ops : List (Record.Op τ)) (g : RecT τ)
    (h : GWF g) :
    Record.sabs (toM (genRun T E g ops).1) = (Record.srun T (Record.sabs (toM g)) ops).1 ∧
    (genRun T E g ops).2 = (Record.srun T (Record.sabs (toM g)) ops).2 ∧
    GWF (genRun T E g ops).1 := by
  obtain ⟨e, w⟩ := gen_run_eq T E hE ops g h
  obtain ⟨r1, r2, -⟩ := Record.record_run_refines T ops (toM g) (toM_wf g h)
  rw [← e] at r1 r2
  exact ⟨r1, r2, w⟩

/-- the size-formula invariant of `Props/C13.lean`, on the private state of the regenerated programs: along every
operation sequence in which no temporal setter raised (`settersSucceed`, judged on the machine the programs were just
shown equal to), `__recordsz = max(ceil(duration / dt) + inclusive, 1)` holds of the attributes the programs ended with -/
theorem gen_run_size_formula (T : TimeOps τ) (E : Elem Int) (hE : IdElem E) (ops : List (Record.Op τ))
    (g : RecT τ) (h : GWF g) (h0 : Record.SizeOK T (toM g)) (hs : Record.settersSucceed T (toM g) ops) :
    (genRun T E g ops).1.constraints.lookup 0 =
      some (recSize T (genRun T E g ops).1.dt (genRun T E g ops).1.duration (genRun T E g ops).1.inclusive) := by
  have e := (gen_run_eq T E hE ops g h).1
  have w := Record.size_formula_inv T ops (toM g) h0 hs
  rw [← e] at w
  exact w

/-! ## The described part of the input space: no `Out.unsupported` -/

/-- the part of the input space the model describes, evaluated at the current state: everything except assigning an
uninitialised buffer to parameter storage (where `Record.step` answers `Out.unsupported`) -/
def Sup (g : RecT τ) : Record.Op τ → Prop
  | .assign .uninit => g.param = false
  | _ => True

/-- `Sup` along a run: every operation is described at the state the regenerated programs have reached -/
def SupRun (T : TimeOps τ) (E : Elem Int) (g : RecT τ) : List (Record.Op τ) → Prop
  | [] => True
  | op :: ops => Sup g op ∧ SupRun T E (genExec T E g op).1 ops

/-- `ShapedTensor.reconstrain` of the model never answers `unsupported`: a resize is only ever decided for a tensor -/
theorem shapedRecon_supported (s : Record.MState τ) (dim : Int) (size : Option Int) :
    (Record.shapedReconM s dim size).2 ≠ .unsupported := by
  unfold Record.shapedReconM
  cases hD : reconDecide s.cons s.strict (Record.mShape? s.store) dim size with
  | err e => simp [Record.applyM]
  | set c => simp [Record.applyM]
  | setErr c e => simp [Record.applyM]
  | resize c t n =>
    obtain ⟨_, _, _, _, _, _, e, _⟩ := decide_resize hD
    cases hst : s.store with
    | init sh d =>
      obtain ⟨p, rows⟩ := d
      by_cases ht : t = 0 <;> simp [Record.applyM, hst, ht]
    | none => rw [hst] at e; cases e
    | empty => rw [hst] at e; cases e
    | uninit => rw [hst] at e; cases e

/-- the common tail of the model's setters never answers `unsupported` -/
theorem resizeTo_supported (s : Record.MState τ) (size : Nat) : (Record.resizeToM s size).2 ≠ .unsupported := by
  unfold Record.resizeToM
  cases s.cons.lookup 0 with
  | none => simp
  | some n =>
    by_cases he : size = n
    · simp [he]
    · simp only [he, if_false]; exact shapedRecon_supported _ _ _

/-- `Record.step` answers `unsupported` ONLY for an uninitialised buffer assigned to parameter storage -/
theorem step_supported (T : TimeOps τ) (s : Record.MState τ) (op : Record.Op τ)
    (hs : match op with | .assign .uninit => s.param = false | _ => True) :
    (Record.step T s op).2 ≠ .unsupported := by
  cases op with
  | setDt v => simp only [Record.step]; split; exact resizeTo_supported _ _; simp
  | setDur v => simp only [Record.step]; split; exact resizeTo_supported _ _; simp
  | setIncl b => simp only [Record.step]; split; exact resizeTo_supported _ _; simp
  | recon dim size => exact shapedRecon_supported _ _ _
  | push xsh x b =>
    simp only [Record.step]
    repeat' split
    all_goals simp
  | assign k =>
    cases k with
    | none => simp only [Record.step]; split <;> simp
    | empty => simp [Record.step]
    | uninit => simp only at hs; simp [Record.step, hs]
  | initz sh => simp only [Record.step]; split <;> simp

/-- inside `Sup` a dispatched operation never answers `unsupported` -/
theorem gen_step_supported (T : TimeOps τ) (E : Elem Int) (hE : IdElem E) (g : RecT τ) (h : GWF g)
    (op : Record.Op τ) (hs : Sup g op) : (genExec T E g op).2 ≠ .unsupported := by
  have e := congrArg Prod.snd (gen_step_eq T E hE g h op)
  simp only at e
  rw [e]
  apply step_supported
  cases op with
  | assign k => cases k <;> first | trivial | exact hs
  | _ => trivial

/-- along a run inside `SupRun` no output is `unsupported`: every equation of the capstone `gen_run_refines` is then about
a behaviour the model describes (a returned `unit` or a raised exception class) -/
theorem gen_run_supported (T : TimeOps τ) (E : Elem Int) (hE : IdElem E) (ops : List (Record.Op τ)) (g : RecT τ)
    (h : GWF g) (hs : SupRun T E g ops) : ∀ o ∈ (genRun T E g ops).2, o ≠ .unsupported := by
  induction ops generalizing g with
  | nil => intro o ho; simp [genRun] at ho
  | cons op ops ih =>
    obtain ⟨hs1, hs2⟩ := hs
    intro o ho
    simp only [genRun, List.mem_cons] at ho
    rcases ho with rfl | ho
    · exact gen_step_supported T E hE g h op hs1
    · exact ih _ (gen_step_wf T E hE g h op) hs2 o ho

/-- executable form of `Sup` -/
def supB (g : RecT τ) : Record.Op τ → Bool
  | .assign .uninit => !g.param
  | _ => true

/-- the executable check implies `Sup` -/
theorem supB_sound (g : RecT τ) (op : Record.Op τ) (h : supB g op = true) : Sup g op := by
  cases op with
  | assign k => cases k <;> simp_all [supB, Sup]
  | _ => trivial

/-- executable form of `SupRun` -/
def supRunB (T : TimeOps τ) (E : Elem Int) (g : RecT τ) : List (Record.Op τ) → Bool
  | [] => true
  | op :: ops => supB g op && supRunB T E (genExec T E g op).1 ops

/-- the executable check implies `SupRun` -/
theorem supRunB_sound (T : TimeOps τ) (E : Elem Int) (ops : List (Record.Op τ)) (g : RecT τ)
    (h : supRunB T E g ops = true) : SupRun T E g ops := by
  induction ops generalizing g with
  | nil => trivial
  | cons op ops ih =>
    simp only [supRunB, Bool.and_eq_true] at h
    exact ⟨supB_sound g op h.1, ih _ h.2⟩

/-! ## Non-vacuity: concrete well-formed states and mixed operation lists (exact rational times) -/

/-- the identity element of `C13GlueProg` meets `IdElem` -/
theorem exE_id : IdElem exE := ⟨rfl, fun _ _ _ => rfl⟩

/-- a parameter-backed record as constructed with `None` storage: 3 slots, one user constraint on observation dim 0 -/
def exG0 : RecT Rat := { exG with data := .none, param := true }

/-- from `exG` (3 slots mid-wrap, dt 1, duration 3): halve dt (grow to 6, align, zero-pad), pushes in both modes, a raising
push (wrong shape), `reconstrain` of the observation dimension, `inclusive`, a raising `duration` (negative), shrink,
a refused constraint removal, `value = empty(0)` and setters on ignored storage, re-initialising push, `initialize`,
a raising `dt` (zero), `value = uninitialised buffer`, `value = None`, duration `0` (one slot) -/
def exOps0 : List (Record.Op Rat) :=
  [.setDt (1/2), .push [2] [5, 5] true, .push [3] [1, 1, 1] false, .recon 0 (some 3), .push [3] [6, 6, 6] false,
   .setIncl true, .setDur (-1), .setDur 2, .recon (-1) none, .assign .empty, .setDt 1, .push [2] [7, 8] true,
   .initz [1], .push [1] [9] false, .setDt 0, .assign .uninit, .assign .none, .setDur 0]

/-- from `exG0` (`None` storage of a parameter): setter on ignored storage, refused `value = None` on a parameter
(`RuntimeError`), first pushes through `initialize`, dt / inclusive resizes, a constraint removal, a refused constraint
addition (size mismatch), a wrapping push, a non-integer duration / dt ratio -/
def exOps1 : List (Record.Op Rat) :=
  [.setDur 5, .assign .none, .push [2] [1, 2] false, .push [2] [3, 4] true, .setDt 2, .setIncl true, .recon 0 none,
   .recon 1 (some 4), .push [2] [5, 6] true, .setDur (7/2)]

example : GWF exG := ⟨3, by decide, by decide, by simp [exG]⟩
example : GWF exG0 := ⟨3, by decide, by decide, trivial⟩
example : SupRun Record.ratOps exE exG exOps0 := supRunB_sound _ _ _ _ (by decide +kernel)
example : SupRun Record.ratOps exE exG0 exOps1 := supRunB_sound _ _ _ _ (by decide +kernel)

/-- what the regenerated programs return on the first list -/
example : (genRun Record.ratOps exE exG exOps0).2 =
    [.unit, .unit, .err .ValueError, .unit, .unit, .unit, .err .ValueError, .unit, .err .ValueError, .unit, .unit,
     .unit, .unit, .unit, .err .ValueError, .unit, .unit, .unit] := by decide +kernel
/-- … and where they end: one slot (duration 0, inclusive), `None` storage -/
example : (genRun Record.ratOps exE exG exOps0).1.constraints = [(1, 3), (0, 1)] := by decide +kernel
example : (genRun Record.ratOps exE exG exOps0).1.data = .none := by decide +kernel

/-- what the regenerated programs return on the second list, and the storage they end with: 3 slots
(`ceil(7/2 / 2) + 1`), pointer back at `0` after three pushes, oldest → newest `[1,2] [3,4] [5,6]` -/
example : (genRun Record.ratOps exE exG0 exOps1).2 =
    [.unit, .err .RuntimeError, .unit, .unit, .unit, .unit, .unit, .err .ValueError, .unit, .unit] := by
  decide +kernel
example : (genRun Record.ratOps exE exG0 exOps1).1.data =
    .init true [2] ⟨true, [2], [[1, 2], [3, 4], [5, 6]]⟩ := by decide +kernel
example : (genRun Record.ratOps exE exG0 exOps1).1.pointer = 0 := by decide +kernel
example : (genRun Record.ratOps exE exG0 exOps1).1.constraints.lookup 0 = some 3 := by decide +kernel

/-- the capstone instantiated: on both lists the regenerated programs and the newest-first specification agree -/
example : (genRun Record.ratOps exE exG exOps0).2 = (Record.srun Record.ratOps (Record.sabs (toM exG)) exOps0).2 :=
  (gen_run_refines Record.ratOps exE exE_id exOps0 exG ⟨3, by decide, by decide, by simp [exG]⟩).2.1
example : (Record.sabs (toM (genRun Record.ratOps exE exG0 exOps1).1)).store = .init [2] [[5, 6], [3, 4], [1, 2]] := by
  rw [(gen_run_refines Record.ratOps exE exE_id exOps1 exG0 ⟨3, by decide, by decide, trivial⟩).1]
  decide +kernel

/-- `Sup` is a real restriction exactly where the model is silent: an uninitialised buffer into parameter storage -/
example : ¬ Sup exG0 (.assign .uninit) := by simp [Sup, exG0]
example : (genExec Record.ratOps exE exG0 (.assign .uninit)).2 = .unsupported := by decide +kernel

end InfernoVerif.Gen.RecordProg
